(* Model/ChanFault.v -- the narrow model of property C13 ("client faults are
   contained; teardown happens once, on the I/O thread only").

   WHAT IS MODELLED.  The socket map {listener L, trigger T, channel A,
   channel B}; the I/O thread running `while map: poll(map)` (wasyncore.poll,
   or wasyncore.poll2 when [use_poll2]); one pool worker per channel running
   HTTPChannel.service(); the environment ENV, which answers every socket call
   (recv / send / accept / getsockopt / setsockopt / setblocking / select) with
   a normal result, EOF or an errno -- at every step, any number of times.

   THE MACHINE.  Every logical thread is a small stack machine: its stack is a
   list of instructions; one step pops the head instruction, executes it
   against the shared state with the environment's answer, and pushes the
   instructions of whatever the Python would execute next.  `try/except`,
   `try/finally` and `with lock:` are FRAME instructions (K...): reached
   normally they are popped (a `with` releases its lock); when an instruction
   raises, the thread enters raising mode and the stack is unwound: plain
   instructions are dropped, each frame gets its say -- exactly one frame per
   step, because releasing a lock while unwinding is a scheduling point in the
   real code too.  An exception that finds no frame on the I/O thread's stack
   has escaped wasyncore.poll: label [LLoopDied].

   Each instruction performs AT MOST ONE of: a lock operation, a socket call, a
   read-or-write of a shared attribute relevant to C13 (socket map,
   active_channels, channel.socket, channel._fileno, connected, will_close,
   close_when_flushed, total_outbufs_len, requests).  In particular the load of
   `self.socket` and the call made on the loaded object are two instructions
   (IRecv/IRecvCall, IFlush/IFlushSend, IExpt/IExptCall, ISockClose/
   ISockCloseCall): another thread may close the socket in between, and the call
   then gets EBADF from the kernel instead of an AttributeError.  Which Python statement an
   instruction stands for is written next to its constructor and, per method,
   in the "programs" section.  send_continue() as reached from received() (I/O
   thread) always flushes with do_close=True; as reached from service() (worker)
   it flushes with [wc_close g].

   WHAT IS ABSTRACTED, and why that is sound for C13.
   * Bytes are counts.  The output buffers of a channel are ONE counter [buf]
     (what the buffers hold) next to [pend] (total_outbufs_len); the list
     structure of [outbufs] (rotation, pop(0).close()) is dropped: C13 speaks
     about who closes what, not about byte order (C04/C17 do).  Closing the
     buffers may or may not zero [buf] (OverflowableBuffer.close() does nothing
     in the strbuf stage): the environment decides ([ABufLen]); likewise whether an
     append() after the close still works ([AKeep], see [append_works]).
   * The parser is the environment: a recv() that yields data yields a list of
     [item]s, one per iteration of the `while data:` loop of received(), each
     carrying the three facts that loop reads (expect_continue and
     headers_finished; completed; empty).  All parser outcomes are included.
   * The application is the environment: [IApp] takes write / finish / raise.
   * One worker per channel; the pool's queue is the per-channel flag [queued].
     With several pool workers the tail of service() after add_task (release
     of requests_lock, `if self.connected: pull_trigger()`, last_activity) can
     overlap the next service() of the same channel on another worker; those
     steps touch nothing C13 speaks about and commute to the left, the model runs
     them first.  (The dispatcher holds a channel at most once: C04/C14.)
   * The trigger's "pulled" state is dropped: select may report the trigger at
     any time, and may time out.  C13 is a safety property; wake-ups are C05's.
   * maintenance() is "the I/O thread may set will_close on any channel with
     no requests at the start of a poll turn".
   * socket.close() does not fail (the property's fault set is recv / send /
     accept and the three set-up calls); logging does not fail.
   * select's exceptional set / POLLHUP|ERR|NVAL are reported for channel
     descriptors only (a client cannot put a listening socket in error).
   * active_channels: test-and-delete is one step (the socket map's is two).
   * File descriptors are not reused (A's number is never handed to B). *)
From Coq Require Import List Arith ZArith Bool.
Import ListNotations.

(* ---------------------------------------------------------------------- *)
(** * Vocabulary *)

Inductive chan := A | B.
Inductive tid := IO | W (c : chan).
Inductive fdt := FL | FT | FC (c : chan).

Definition chan_eqb (a b : chan) : bool :=
  match a, b with A, A | B, B => true | _, _ => false end.
Definition tid_eqb (a b : tid) : bool :=
  match a, b with IO, IO => true | W c, W d => chan_eqb c d | _, _ => false end.
Definition fdt_eqb (a b : fdt) : bool :=
  match a, b with FL, FL | FT, FT => true | FC c, FC d => chan_eqb c d | _, _ => false end.

(* errno values the environment may return; [disconnected] is membership in
   wasyncore._DISCONNECTED (wasyncore.py:75) *)
Inductive errno := ECONNRESET | EPIPE | ENOTCONN | EBADF | EINVAL | EOTHER
                 | EWOULDBLOCK | ECONNABORTED.
Definition disconnected (e : errno) : bool :=
  match e with ECONNRESET | EPIPE | ENOTCONN | EBADF | ECONNABORTED => true | _ => false end.
(* dispatcher.accept: `if why.args[0] in (EWOULDBLOCK, ECONNABORTED, EAGAIN): return None` *)
Definition accept_benign (e : errno) : bool :=
  match e with EWOULDBLOCK | ECONNABORTED => true | _ => false end.

Inductive exn :=
| XOSError (e : errno)
| XAttributeError          (* self.socket is None *)
| XValueError              (* I/O operation on closed file *)
| XKeyError                (* del map[fd] of a missing key *)
| XClientDisconnected
| XApp                     (* an Exception raised by the application *)
| XReraised.               (* ExitNow / KeyboardInterrupt / SystemExit *)
Definition is_reraised (x : exn) : bool := match x with XReraised => true | _ => false end.
Definition is_oserror (x : exn) : bool := match x with XOSError _ => true | _ => false end.

(* one iteration of the `while data:` loop of HTTPChannel.received *)
Record item := mkItem {
  it_expect : bool;     (* request.expect_continue and request.headers_finished after request.received(data) *)
  it_completed : bool;  (* request.completed *)
  it_empty : bool       (* request.empty *)
}.

Inductive recv_ans := RData (items : list item) | REof | RErr (e : errno).
Inductive send_ans := SOk (n : nat) | SErr (e : errno).
Inductive acc_ans := AccConn (c : chan) | AccErr (e : errno).
Inductive expt_ans := XRaise (e : errno) | XNonzero | XZero.
Inductive app_act := AppWrite (n : nat) | AppDone (close_on_finish : bool) | AppRaise.

Inductive answer :=
| ANone
| ARecv (r : recv_ans)
| ASend (r : send_ans)
| ACall (r : option errno)                 (* getsockopt(SO_SNDBUF) / setsockopt / setblocking *)
| AAcc (r : acc_ans)
| ASel (r w e : list fdt)                  (* select.select answer *)
| APoll2 (l : list (fdt * (bool * bool) * (bool * bool))) (* pollster.poll answer, in the order returned: fd, (POLLIN, POLLOUT), (POLLPRI, HUP|ERR|NVAL) *)
| AExpt (r : expt_ans)                     (* getsockopt(SO_ERROR) in handle_expt_event *)
| AApp (a : app_act)
| ABufLen (n : nat)                        (* what the closed buffers still report as their length (strbuf stage keeps it) *)
| AKeep (keep : bool)                      (* service(): task.wrote_header *)
| AMaint (mA mB : bool).                   (* maintenance marks A / B *)

Inductive sockst := SOpen | SClosed | SNone.   (* socket.close() done / self.socket = None done *)
Inductive cvst := CvNone | CvWaiting | CvNotified.
Inductive evk := EvRead | EvWrite | EvExpt.

(* ---------------------------------------------------------------------- *)
(** * Instructions *)

Inductive instr :=
(* -- the loop: server.run / wasyncore.loop / poll / poll2 *)
| IPoll                         (* `while map:` test; list(map.items()); readable()/writable() of every entry (maintenance inside the listener's readable) *)
| ISelect (r w e : list fdt)    (* select.select(r, w, e) / pollster.poll() is CALLED: a closed descriptor is refused at once *)
| ISelWait (r w e : list fdt)   (* ... and returns *)
| IDisp (k : evk) (f : fdt)     (* poll: obj = map.get(fd); read(obj) / write(obj) / _exception(obj) *)
| IDisp2 (f : fdt) (rd wr pri hup : bool) (* poll2: obj = map.get(fd); readwrite(obj, flags) *)
| IRwClose (f : fdt)            (* readwrite: `if flags & (POLLHUP|POLLERR|POLLNVAL): obj.handle_close()` *)
(* -- listener: BaseWSGIServer.handle_accept, HTTPChannel.__init__ *)
| IAccept                       (* self.accept() -> socket.accept() *)
| ISetOpts (c : chan)           (* self.set_socket_options(conn) -> conn.setsockopt(...) *)
| IInitGso (c : chan)           (* HTTPChannel.__init__: sock.getsockopt(SOL_SOCKET, SO_SNDBUF) *)
| IInitSbl (c : chan)           (* dispatcher.__init__: sock.setblocking(0) *)
| IAddChan (c : chan)           (* set_socket -> add_channel: map[fd] = self; active_channels[fd] = self; connected = True *)
| ITrigClose                    (* BaseWSGIServer.close: self.trigger.close() (del_channel + os.close) *)
| ILstClose                     (* wasyncore.dispatcher.close(self): del_channel; socket.close() *)
(* -- channel, I/O side *)
| IRecv (c : chan)              (* handle_read: self.recv(recv_bytes) -> dispatcher.recv: `self.socket` is loaded *)
| IRecvCall (c : chan)          (* ... .recv(buffer_size) is called on it, with the two ladders around it *)
| ISetConnF (c : chan)          (* handle_read: `else: self.connected = False` *)
| IRcvChk (c : chan) (items : list item)  (* received: `if self.will_close or self.close_when_flushed: return False` *)
| IRcvLoop (c : chan) (items : list item) (* received: top of one iteration up to the send_continue test *)
| IRcvPost (c : chan) (it : item) (items : list item) (* received: `if self.request.completed:` ... end of iteration *)
| IHwChoose (c : chan)          (* handle_write: `if not self.requests` / `elif total_outbufs_len >= send_bytes or total_outbufs_len > outbuf_high_watermark`: flush = _flush_some_if_lockable / None *)
| IHwNotify (c : chan)          (* _flush_some_if_lockable: `if total_outbufs_len <= outbuf_high_watermark: notify()` *)
| IHwTail (c : chan)            (* handle_write: close_when_flushed / will_close tests *)
| IExpt (c : chan)              (* handle_expt_event: `... if self.socket is not None else 1` *)
| IExptCall (c : chan)          (* self.socket.getsockopt(SOL_SOCKET, SO_ERROR) *)
(* -- send_continue / _flush_some (either side) *)
| IContPre (c : chan)           (* send_continue: request.expect_continue = False *)
| IContAppend (c : chan)        (* outbufs[-1].append(payload); counts; sent_continue = True *)
| IFlushStart (c : chan) (dc : bool) (* _flush_some: sent = 0; outbuf = self.outbufs[0]; outbuflen = outbuf.__len__() *)
| IFlush (c : chan) (dc : bool) (olen : nat) (* `while outbuflen > 0:` (outbuflen = olen, a LOCAL); chunk = outbuf.get(sendbuf_len) *)
| IFlushSend (c : chan) (dc : bool) (m olen : nat) (* self.send(chunk, do_close=dc) with len(chunk) = m; outbuf.skip(num_sent); counts; outbuflen -= num_sent *)
(* -- handle_close *)
| IHClose (c : chan)            (* entry of HTTPChannel.handle_close (pushes the sequence below) *)
| ICloseBufs (c : chan)         (* for outbuf in outbufs: close(); total_outbufs_len = 0; connected = False *)
| INotifyO (c : chan)           (* outbuf_lock.notify() *)
| IDClose1 (c : chan)           (* dispatcher.close: connected = accepting = connecting = False *)
| IDelMapTest (c : chan)        (* del_channel: fd = self._fileno; `if fd in map:` *)
| IDelMapDo (c : chan)          (* del map[fd] *)
| IFilenoNone (c : chan)        (* self._fileno = None *)
| IDelAct (c : chan) (v : bool) (* `if fd in ac: del ac[fd]` (v: the fd read at the top was not None) *)
| ISockClose (c : chan)         (* `if self.socket is not None:` *)
| ISockCloseCall (c : chan)     (* self.socket.close() *)
| ISockNone (c : chan)          (* self.socket = None (only if the test above passed) *)
(* -- locks *)
| IAcqO (c : chan)              (* outbuf_lock.acquire() (re-entrant) *)
| ITryAcqO (c : chan)           (* _flush_some_if_lockable: outbuf_lock.acquire(False) *)
| IRelO (c : chan)              (* outbuf_lock.release() where nothing can raise in between *)
| IWaitO (c : chan)             (* outbuf_lock.wait(): release, park *)
| IWake (c : chan) (n : nat)    (* ... notified: re-acquire with the saved count *)
| IAcqR (c : chan)              (* requests_lock.acquire() *)
| IRelR (c : chan)
(* -- worker: service / write_soon *)
| ISvcStart (c : chan)          (* service: request = self.requests[0]; `if self.connected and ...` *)
| ISvcChkWc (c : chan)          (* ... `and not self.will_close:` (since /repo 64d926d) *)
| IApp (c : chan)               (* task.service(): the application's next action *)
| IErrTask (c : chan)           (* service: `if not task.wrote_header:` ErrorTask(...).service() / else close_on_finish *)
| IWsChk1 (c : chan)            (* write_soon: `if not self.connected: raise ClientDisconnected` *)
| IFbh (c : chan)               (* _flush_outbufs_below_high_watermark: `if total_outbufs_len > high_watermark:` *)
| IFbhChk (c : chan)            (* under the lock: `if not self.connected: return` *)
| IFbhAfter (c : chan)          (* `if exception: pull_trigger; wait; return` *)
| IFbhLoop (c : chan)           (* `while connected and total_outbufs_len > high_watermark: pull_trigger; wait` *)
| IWsChk2 (c : chan)            (* write_soon, under the lock: `if not self.connected: raise ClientDisconnected` *)
| IWsAppend (c : chan) (n : nat)(* outbufs[-1].append(data); counts *)
| IWsFlush (c : chan)           (* `if total_outbufs_len >= send_bytes:` _flush_exception(_flush_some, do_close=False) *)
| IWsAfter (c : chan)           (* `if exception or not flushed or total >= send_bytes: pull_trigger()` *)
| ISvcEnd (c : chan)            (* service: `if task.close_on_finish:` / `if len(self.requests) > 1:` *)
| ISetCwf (c : chan)            (* close_when_flushed = True; close requests; requests = [] *)
| ISvcPop (c : chan)            (* requests.pop(0); the add_task / send_continue tests *)
| ISvcTail (c : chan)           (* `if self.connected: pull_trigger()`; last_activity *)
| IPull (c : chan)              (* self.server.pull_trigger() *)
| IAddTask (c : chan)           (* self.server.add_task(self) *)
(* -- frames *)
| KWasyn (f : fdt)              (* wasyncore.read/write/_exception: except _reraised: raise; except: obj.handle_error() *)
| KReadwrite (f : fdt)          (* wasyncore.readwrite's ladder *)
| KAccTry (c : chan)            (* handle_accept: `except OSError: return`; normally: go on to channel_class(...) (which is inside the try when [init_guarded]) *)
| KFlushExc (c : chan)          (* _flush_exception: except OSError / Exception: will_close = True; (False, True) *)
| KRelO (c : chan)              (* end of `with self.outbuf_lock:` / `finally: release()` *)
| KRelR (c : chan)              (* end of `with self.requests_lock:` *)
| KSvcTry (c : chan)            (* service: except ClientDisconnected / except BaseException around task.service() *)
| KSvcTry2 (c : chan)           (* service: `except ClientDisconnected` around the error task *)
| KWorkerTop (c : chan).        (* handler_thread: `except BaseException: log` *)

Definition is_frame (i : instr) : bool :=
  match i with
  | KWasyn _ | KReadwrite _ | KAccTry _ | KFlushExc _ | KRelO _ | KRelR _
  | KSvcTry _ | KSvcTry2 _ | KWorkerTop _ => true
  | _ => false
  end.

(* ---------------------------------------------------------------------- *)
(** * State *)

Record chan_st := mkChan {
  created : bool;            (* HTTPChannel.__init__ completed (add_channel done) *)
  accepted : bool;           (* the kernel has handed this connection to accept() *)
  in_map : bool;             (* fd in the socket map *)
  in_act : bool;             (* fd in server.active_channels *)
  fileno : bool;             (* self._fileno is not None *)
  sock : sockst;
  conn : bool;               (* self.connected *)
  wc : bool;                 (* self.will_close *)
  cwf : bool;                (* self.close_when_flushed *)
  bufc : bool;               (* close() has been called on every output buffer *)
  pend : Z;                  (* self.total_outbufs_len (an int: it does go negative when two threads flush, F18) *)
  buf : nat;                 (* bytes the output buffers hold *)
  nreq : nat;                (* len(self.requests) *)
  pexp : bool;               (* self.request is not None and .expect_continue and .headers_finished *)
  sentc : bool;              (* self.sent_continue *)
  queued : bool;             (* the channel is in the dispatcher's queue *)
  olock : option (tid * nat);(* owner and depth of outbuf_lock *)
  rlock : option tid;        (* owner of requests_lock *)
  cv : cvst;                 (* the (only possible) waiter of outbuf_lock's condition: the channel's worker *)
  nclose : nat;              (* ghost: number of socket.close() calls *)
  wire : nat                 (* ghost: bytes accepted by the kernel *)
}.

Definition chan0 : chan_st :=
  mkChan false false false false false SNone false false false false 0%Z 0 0 false false false None None CvNone 0 0.

Record thread_st := mkTh {
  stk : list instr;
  raising : option exn;
  lexc : bool;               (* local: the `exception` result of _flush_exception *)
  lsent : bool;              (* local: `sent` of _flush_some is non-zero *)
  lcof : bool                (* local: task.close_on_finish *)
}.

Record state := mkState {
  chA : chan_st; chB : chan_st;
  thIO : thread_st; thA : thread_st; thB : thread_st;
  lst_in_map : bool; trg_in_map : bool;   (* listener / trigger in the socket map *)
  lst_open : bool; trg_open : bool;       (* their descriptors are open *)
  io_dead : bool                          (* an exception has escaped the loop *)
}.

Record cfg := mkCfg {
  lookahead : nat;           (* adj.channel_request_lookahead *)
  send_bytes : nat;          (* adj.send_bytes *)
  hw : nat;                  (* adj.outbuf_high_watermark *)
  sndbuf : nat;              (* channel.sendbuf_len *)
  use_poll2 : bool;          (* adj.asyncore_use_poll *)
  wc_close : bool;           (* the do_close with which service() reaches _flush_some through send_continue():
                                was True (finding F18), False since /repo da3bf3a; read off the source on every
                                run (Gen/GenChanKnobs.v) *)
  init_guarded : bool        (* handle_accept constructs the channel inside a try/except OSError: it did not
                                (finding F17); since /repo 8a2ea3a it does, in a second try after the first
                                one whose handler also just returns (after closing the accepted socket, which
                                never became a channel): the model keeps ONE frame KAccTry for both trys;
                                read off the source on every run *)
}.

Definition th0 (stack : list instr) : thread_st := mkTh stack None false false false.

Definition init : state :=
  mkState chan0 chan0 (th0 [IPoll]) (th0 []) (th0 []) true true true true false.

Inductive label :=
| LClose (t : tid) (c : chan)        (* socket.close() of channel c executed by t *)
| LMapDel (t : tid) (f : fdt)        (* t removed f from the socket map *)
| LActDel (t : tid) (c : chan)
| LHClose (t : tid) (c : chan)       (* t entered handle_close of c *)
| LBufsClosed (t : tid) (c : chan)
| LLoopDied (x : exn)
| LLoopExit                          (* `while map:` found the map empty *)
| LListenerClosed
| LTriggerClosed
| LWorkerDied (c : chan)
| LWCont (c : chan)                  (* worker-side send_continue() *)
| LSetupFault (c : chan)             (* getsockopt(SO_SNDBUF) / setblocking answered with an errno *)
| LAccepted (c : chan)
| LChanAdded (c : chan)
| LWire (c : chan) (n : nat)         (* the kernel accepted n bytes on c *)
| LEnv (c : chan) (a : answer)       (* the environment's answer to a socket call on c *)
| LApp (c : chan) (a : app_act)
| LCaught (t : tid) (x : exn).       (* a ladder swallowed x *)

Definition choice := (tid * answer)%type.

(* ---------------------------------------------------------------------- *)
(** * Accessors *)

Definition getc (s : state) (c : chan) : chan_st := match c with A => chA s | B => chB s end.
Definition setc (s : state) (c : chan) (v : chan_st) : state :=
  match c with
  | A => mkState v (chB s) (thIO s) (thA s) (thB s) (lst_in_map s) (trg_in_map s) (lst_open s) (trg_open s) (io_dead s)
  | B => mkState (chA s) v (thIO s) (thA s) (thB s) (lst_in_map s) (trg_in_map s) (lst_open s) (trg_open s) (io_dead s)
  end.
Definition getth (s : state) (t : tid) : thread_st :=
  match t with IO => thIO s | W A => thA s | W B => thB s end.
Definition setth (s : state) (t : tid) (v : thread_st) : state :=
  match t with
  | IO => mkState (chA s) (chB s) v (thA s) (thB s) (lst_in_map s) (trg_in_map s) (lst_open s) (trg_open s) (io_dead s)
  | W A => mkState (chA s) (chB s) (thIO s) v (thB s) (lst_in_map s) (trg_in_map s) (lst_open s) (trg_open s) (io_dead s)
  | W B => mkState (chA s) (chB s) (thIO s) (thA s) v (lst_in_map s) (trg_in_map s) (lst_open s) (trg_open s) (io_dead s)
  end.
Definition set_srv (s : state) (lm tm lo to_ : bool) : state :=
  mkState (chA s) (chB s) (thIO s) (thA s) (thB s) lm tm lo to_ (io_dead s).
Definition set_dead (s : state) : state :=
  mkState (chA s) (chB s) (thIO s) (thA s) (thB s) (lst_in_map s) (trg_in_map s) (lst_open s) (trg_open s) true.

(* field updates of a channel record *)
Definition upd_map (x : chan_st) (b : bool) := mkChan (created x) (accepted x) b (in_act x) (fileno x) (sock x) (conn x) (wc x) (cwf x) (bufc x) (pend x) (buf x) (nreq x) (pexp x) (sentc x) (queued x) (olock x) (rlock x) (cv x) (nclose x) (wire x).
Definition upd_act (x : chan_st) (b : bool) := mkChan (created x) (accepted x) (in_map x) b (fileno x) (sock x) (conn x) (wc x) (cwf x) (bufc x) (pend x) (buf x) (nreq x) (pexp x) (sentc x) (queued x) (olock x) (rlock x) (cv x) (nclose x) (wire x).
Definition upd_fileno (x : chan_st) (b : bool) := mkChan (created x) (accepted x) (in_map x) (in_act x) b (sock x) (conn x) (wc x) (cwf x) (bufc x) (pend x) (buf x) (nreq x) (pexp x) (sentc x) (queued x) (olock x) (rlock x) (cv x) (nclose x) (wire x).
Definition upd_sock (x : chan_st) (v : sockst) (k : nat) := mkChan (created x) (accepted x) (in_map x) (in_act x) (fileno x) v (conn x) (wc x) (cwf x) (bufc x) (pend x) (buf x) (nreq x) (pexp x) (sentc x) (queued x) (olock x) (rlock x) (cv x) k (wire x).
Definition upd_conn (x : chan_st) (b : bool) := mkChan (created x) (accepted x) (in_map x) (in_act x) (fileno x) (sock x) b (wc x) (cwf x) (bufc x) (pend x) (buf x) (nreq x) (pexp x) (sentc x) (queued x) (olock x) (rlock x) (cv x) (nclose x) (wire x).
Definition upd_flags (x : chan_st) (w f : bool) := mkChan (created x) (accepted x) (in_map x) (in_act x) (fileno x) (sock x) (conn x) w f (bufc x) (pend x) (buf x) (nreq x) (pexp x) (sentc x) (queued x) (olock x) (rlock x) (cv x) (nclose x) (wire x).
Definition upd_bufs (x : chan_st) (bc : bool) (p : Z) (b : nat) (w : nat) := mkChan (created x) (accepted x) (in_map x) (in_act x) (fileno x) (sock x) (conn x) (wc x) (cwf x) bc p b (nreq x) (pexp x) (sentc x) (queued x) (olock x) (rlock x) (cv x) (nclose x) w.
Definition upd_req (x : chan_st) (n : nat) (pe sc q : bool) := mkChan (created x) (accepted x) (in_map x) (in_act x) (fileno x) (sock x) (conn x) (wc x) (cwf x) (bufc x) (pend x) (buf x) n pe sc q (olock x) (rlock x) (cv x) (nclose x) (wire x).
Definition upd_olock (x : chan_st) (l : option (tid * nat)) (v : cvst) := mkChan (created x) (accepted x) (in_map x) (in_act x) (fileno x) (sock x) (conn x) (wc x) (cwf x) (bufc x) (pend x) (buf x) (nreq x) (pexp x) (sentc x) (queued x) l (rlock x) v (nclose x) (wire x).
Definition upd_rlock (x : chan_st) (l : option tid) := mkChan (created x) (accepted x) (in_map x) (in_act x) (fileno x) (sock x) (conn x) (wc x) (cwf x) (bufc x) (pend x) (buf x) (nreq x) (pexp x) (sentc x) (queued x) (olock x) l (cv x) (nclose x) (wire x).
Definition upd_accepted (x : chan_st) := mkChan (created x) true (in_map x) (in_act x) (fileno x) SOpen (conn x) (wc x) (cwf x) (bufc x) (pend x) (buf x) (nreq x) (pexp x) (sentc x) (queued x) (olock x) (rlock x) (cv x) (nclose x) (wire x).
Definition upd_created (x : chan_st) := mkChan true (accepted x) true true true (sock x) true (wc x) (cwf x) (bufc x) (pend x) (buf x) (nreq x) (pexp x) (sentc x) (queued x) (olock x) (rlock x) (cv x) (nclose x) (wire x).

Definition set_stk (x : thread_st) (l : list instr) := mkTh l (raising x) (lexc x) (lsent x) (lcof x).
Definition set_raising (x : thread_st) (l : list instr) (r : option exn) := mkTh l r (lexc x) (lsent x) (lcof x).
Definition set_lexc (x : thread_st) (b : bool) := mkTh (stk x) (raising x) b (lsent x) (lcof x).
Definition set_lsent (x : thread_st) (b : bool) := mkTh (stk x) (raising x) (lexc x) b (lcof x).
Definition set_lcof (x : thread_st) (b : bool) := mkTh (stk x) (raising x) (lexc x) (lsent x) b.

Definition mem_fd (f : fdt) (l : list fdt) : bool := existsb (fdt_eqb f) l.
Definition subset_fd (a b : list fdt) : bool := forallb (fun f => mem_fd f b) a.
Definition is_chan_fd (f : fdt) : bool := match f with FC _ => true | _ => false end.

(* is the descriptor number still open in the kernel *)
Definition fd_open (s : state) (f : fdt) : bool :=
  match f with
  | FL => lst_open s
  | FT => trg_open s
  | FC c => match sock (getc s c) with SOpen => true | _ => false end
  end.
Definition fd_in_map (s : state) (f : fdt) : bool :=
  match f with FL => lst_in_map s | FT => trg_in_map s | FC c => in_map (getc s c) end.

(* ---------------------------------------------------------------------- *)
(** * Programs (what a Python method pushes) *)

(* HTTPChannel.handle_close, channel.py:309-321, then wasyncore.dispatcher.close,
   wasyncore.py:422-434, with HTTPChannel.del_channel, channel.py:331-341 *)
Definition hclose_body (c : chan) : list instr :=
  [IAcqO c; ICloseBufs c; INotifyO c; IRelO c;
   IDClose1 c; IDelMapTest c; ISockClose c].
Definition hclose (c : chan) : list instr := [IHClose c].

(* BaseWSGIServer.close, server.py:356-358 *)
Definition server_close : list instr := [ITrigClose; ILstClose].

(* dispatcher.handle_error -> handle_close of the object *)
Definition herror (f : fdt) : list instr :=
  match f with
  | FC c => hclose c
  | FL => server_close
  | FT => [ITrigClose]
  end.
Definition hclose_fd (f : fdt) : list instr := herror f.

(* HTTPChannel._flush_some(do_close=dc), channel.py:260-307 *)
Definition flush_some (c : chan) (dc : bool) : list instr := [IFlushStart c dc].

(* HTTPChannel.send_continue (do_close is True when received() calls it on the I/O thread,
   [wc_close g] when service() calls it on a worker) *)
(* since /repo 48f7fa0 the flush goes through _flush_exception: an errno that is not a disconnect
   (or anything else _flush_some raises) sets will_close instead of escaping received() / service() *)
Definition send_continue_dc (c : chan) (dc : bool) : list instr :=
  [IContPre c; IAcqO c; IContAppend c] ++ flush_some c dc ++ [KFlushExc c; KRelO c].
Definition send_continue (c : chan) : list instr := send_continue_dc c true.

(* the event handlers as dispatched by wasyncore for a channel *)
Definition chan_event (k : evk) (c : chan) : list instr :=
  match k with
  | EvRead => [IRecv c]          (* handle_read_event -> handle_read -> self.recv *)
  | EvWrite => [IHwChoose c]     (* handle_write_event -> handle_write *)
  | EvExpt => [IExpt c]          (* handle_expt_event *)
  end.
Definition event (k : evk) (f : fdt) : list instr :=
  match f with
  | FC c => chan_event k c
  | FL => match k with EvRead => [IAccept] | _ => [] end  (* accepting: handle_accept / write event ignored *)
  | FT => []                     (* trigger.handle_read swallows OSError; nothing else happens *)
  end.

(* HTTPChannel.write_soon, channel.py:347-394 *)
Definition write_soon (c : chan) (n : nat) : list instr :=
  [IWsChk1 c; IAcqO c; IFbh c; IWsChk2 c; IWsAppend c n; IWsFlush c; KRelO c].

(* ---------------------------------------------------------------------- *)
(** * One instruction *)

Definition p2_instr_of (mk : fdt -> bool -> bool -> bool -> bool -> instr)
    (p : fdt * (bool * bool) * (bool * bool)) : instr :=
  match p with (f, (rd, wr), (pri, hup)) => mk f rd wr pri hup end.
Definition p2_instr := p2_instr_of IDisp2.

Inductive result :=
| Blocked
| Norm (s : state) (push : list instr) (ls : list label)
| Raise (s : state) (x : exn) (ls : list label).

Definition lock_free_for (t : tid) (l : option (tid * nat)) : bool :=
  match l with None => true | Some (o, _) => tid_eqb o t end.
Definition acquire (t : tid) (l : option (tid * nat)) : option (tid * nat) :=
  match l with None => Some (t, 1) | Some (o, n) => Some (o, S n) end.
Definition release (l : option (tid * nat)) : option (tid * nat) :=
  match l with Some (o, S (S n)) => Some (o, S n) | _ => None end.

Definition readable_c (g : cfg) (x : chan_st) : bool :=
  negb (wc x || cwf x || (lookahead g <? nreq x) || negb (pend x =? 0)%Z).
Definition writable_c (x : chan_st) : bool := (0 <? pend x)%Z || wc x || cwf x.

Definition asked_r (g : cfg) (s : state) : list fdt :=
  (if trg_in_map s then [FT] else []) ++ (if lst_in_map s then [FL] else [])
  ++ (if in_map (chA s) && readable_c g (chA s) then [FC A] else [])
  ++ (if in_map (chB s) && readable_c g (chB s) then [FC B] else []).
Definition asked_w (s : state) : list fdt :=
  (if in_map (chA s) && writable_c (chA s) then [FC A] else [])
  ++ (if in_map (chB s) && writable_c (chB s) then [FC B] else []).
Definition map_empty (s : state) : bool :=
  negb (trg_in_map s || lst_in_map s || in_map (chA s) || in_map (chB s)).

Definition maint (x : chan_st) (m : bool) : chan_st :=
  if m && in_act x && (nreq x =? 0) then upd_flags x true (cwf x) else x.

(* one entry of a pollster.poll() answer: the descriptor was registered, the reported
   POLLIN/POLLPRI/POLLOUT bits were asked for, PRI and HUP|ERR|NVAL only on channels *)
Definition p2_entry_ok (r w e : list fdt) (p : fdt * (bool * bool) * (bool * bool)) : bool :=
  match p with (f, (rd, wr), (pri, hup)) =>
    mem_fd f e && (negb rd || mem_fd f r) && (negb wr || mem_fd f w) && (negb pri || mem_fd f r)
    && (negb (pri || hup) || is_chan_fd f)
  end.
Definition p2_ok (r w e : list fdt) (l : list (fdt * (bool * bool) * (bool * bool))) : bool :=
  forallb (p2_entry_ok r w e) l.

(* what the closed buffers still report as their length *)
Definition buf_left (a : answer) (x : chan_st) : nat :=
  match a with ABufLen n => Nat.min n (buf x) | _ => 0 end.
(* append() on a buffer whose close() has been called: works in the strbuf stage (close() is a
   no-op there), raises ValueError once the buffer is a closed BytesIO / file: the environment's *)
Definition append_works (a : answer) : bool := match a with AKeep b => b | _ => false end.
(* which channels maintenance() marks in this poll turn *)
Definition maint_of (a : answer) : bool * bool :=
  match a with AMaint x y => (x, y) | _ => (false, false) end.

Definition exec (g : cfg) (t : tid) (i : instr) (a : answer) (s : state) : result :=
  let me := getth s t in
  match i with
  (* ---------------- the loop ---------------- *)
  | IPoll =>
    if map_empty s then Norm s [] [LLoopExit]
    else
      let sA := setc s A (maint (chA s) (fst (maint_of a) && lst_in_map s)) in
      let s1 := setc sA B (maint (chB sA) (snd (maint_of a) && lst_in_map s)) in
      let r := asked_r g s1 in
      let w := asked_w s1 in
      (* poll: `if [] == r == w == e: time.sleep(timeout); return` is the empty select answer *)
      Norm s1 [ISelect r w (r ++ w)] []
  | ISelect r w e =>
    (* select.select raises EBADF for a closed descriptor; poll() reports POLLNVAL instead *)
    if negb (use_poll2 g) && negb (forallb (fd_open s) e) then Raise s (XOSError EBADF) []
    else Norm s [ISelWait r w e] []
  | ISelWait r w e =>
      if use_poll2 g then
        match a with
        | APoll2 l =>
          if p2_ok r w e l then Norm s (map p2_instr l ++ [IPoll]) []
          else Blocked
        | _ => Blocked
        end
      else
        match a with
        | ASel rr ww ee =>
          if subset_fd rr r && subset_fd ww w && subset_fd ee e && forallb is_chan_fd ee then
            Norm s (map (IDisp EvRead) rr ++ map (IDisp EvWrite) ww ++ map (IDisp EvExpt) ee ++ [IPoll]) []
          else Blocked
        | _ => Blocked
        end
  | IDisp k f =>
    if fd_in_map s f then Norm s (event k f ++ [KWasyn f]) [] else Norm s [] []
  | IDisp2 f rd wr pri hup =>
    if fd_in_map s f then
      Norm s ((if rd then event EvRead f else []) ++ (if wr then event EvWrite f else [])
              ++ (if pri then event EvExpt f else []) ++ (if hup then [IRwClose f] else [])
              ++ [KReadwrite f]) []
    else Norm s [] []
  | IRwClose f => Norm s (hclose_fd f) []
  (* ---------------- listener ---------------- *)
  | IAccept =>
    match a with
    | AAcc (AccConn c) =>
      if accepted (getc s c) then Blocked
      else Norm (setc s c (upd_accepted (getc s c)))
                (if init_guarded g then [ISetOpts c; IInitGso c; IInitSbl c; IAddChan c; KAccTry c]
                 else [ISetOpts c; KAccTry c]) [LAccepted c]
    | AAcc (AccErr e) => Norm s [] [LCaught t (XOSError e)]   (* None returned, or caught by `except OSError: return` *)
    | _ => Blocked
    end
  | ISetOpts c =>
    match a with
    | ACall None => Norm s [] []
    | ACall (Some e) => Raise s (XOSError e) [LEnv c a]
    | _ => Blocked
    end
  | IInitGso c =>
    match a with
    | ACall None => Norm s [] []
    | ACall (Some e) => Raise s (XOSError e) [LEnv c a; LSetupFault c]
    | _ => Blocked
    end
  | IInitSbl c =>
    match a with
    | ACall None => Norm s [] []
    | ACall (Some e) => Raise s (XOSError e) [LEnv c a; LSetupFault c]
    | _ => Blocked
    end
  | IAddChan c => Norm (setc s c (upd_created (getc s c))) [] [LChanAdded c]
  | ITrigClose =>
    if trg_open s then
      Norm (set_srv s (lst_in_map s) false (lst_open s) false) []
           ((if trg_in_map s then [LMapDel t FT] else []) ++ [LTriggerClosed])
    else Norm s [] []      (* `if not self._closed:` *)
  | ILstClose =>
    Norm (set_srv s false (trg_in_map s) false (trg_open s)) []
         ((if lst_in_map s then [LMapDel t FL] else []) ++ (if lst_open s then [LListenerClosed] else []))
  (* ---------------- channel, I/O side ---------------- *)
  | IRecv c =>
    match sock (getc s c) with
    | SNone => Raise s XAttributeError []
    | _ => Norm s [IRecvCall c] []
    end
  | IRecvCall c =>
    let x := getc s c in
    match sock x with
    | SOpen =>
      match a with
      | ARecv REof => Norm s (hclose c ++ [ISetConnF c]) [LEnv c a]
      | ARecv (RErr e) =>
        if disconnected e then Norm s (hclose c ++ [ISetConnF c]) [LEnv c a; LCaught t (XOSError e)]
        else Norm s (hclose c) [LEnv c a; LCaught t (XOSError e)]   (* re-raised by dispatcher.recv, caught by handle_read *)
      | ARecv (RData items) =>
        match items with
        | [] => Blocked
        | _ => Norm s [IAcqR c; IRcvChk c items; KRelR c] [LEnv c a]
        end
      | _ => Blocked
      end
    | _ => (* the socket object has been closed meanwhile: EBADF from the kernel, in _DISCONNECTED *)
      Norm s (hclose c ++ [ISetConnF c]) [LCaught t (XOSError EBADF)]
    end
  | ISetConnF c => Norm (setc s c (upd_conn (getc s c) false)) [] []
  | IRcvChk c items =>
    let x := getc s c in
    if wc x || cwf x then Norm s [] [] else Norm s [IRcvLoop c items] []
  | IRcvLoop c items =>
    match items with
    | [] => Norm s [] []
    | it :: rest =>
      let x := getc s c in
      if it_expect it && (nreq x =? 0) && negb (sentc x) then
        (* send_continue() (it clears request.expect_continue; since the fix of F5 it leaves request.completed alone) *)
        Norm s (send_continue c ++ [IRcvPost c (mkItem false (it_completed it) (it_empty it)) rest]) []
      else Norm s [IRcvPost c it rest] []
    end
  | IRcvPost c it rest =>
    let x := getc s c in
    if it_completed it then
      if it_empty it then
        Norm (setc s c (upd_req x (nreq x) false false (queued x))) [IRcvLoop c rest] []
      else
        Norm (setc s c (upd_req x (S (nreq x)) false false (queued x)))
             ((if nreq x =? 0 then [IAddTask c] else []) ++ [IRcvLoop c rest]) []
    else
      Norm (setc s c (upd_req x (nreq x) (it_expect it) (sentc x) (queued x))) [IRcvLoop c rest] []
  | IHwChoose c =>
    let x := getc s c in
    (* since /repo 8bcf05e both branches flush through _flush_some_if_lockable (try-acquire, flush, notify,
       release): the I/O thread never flushes without outbuf_lock *)
    if nreq x =? 0 then Norm s [ITryAcqO c; KFlushExc c; IHwTail c] []
    else if (Z.of_nat (send_bytes g) <=? pend x)%Z || (Z.of_nat (hw g) <? pend x)%Z   (* the second disjunct since /repo daf1a85 *)
         then Norm s [ITryAcqO c; KFlushExc c; IHwTail c] []
    else Norm s [IHwTail c] []
  | IHwNotify c =>
    let x := getc s c in
    if (pend x <=? Z.of_nat (hw g))%Z then Norm s [INotifyO c] [] else Norm s [] []   (* `<=` since /repo 6aba4bf *)
  | IHwTail c =>
    let x := getc s c in
    let x1 := if cwf x && (pend x =? 0)%Z then upd_flags x true false else x in
    if wc x1 then Norm (setc s c x1) (hclose c) [] else Norm (setc s c x1) [] []
  | IExpt c =>
    match sock (getc s c) with
    | SNone => Norm s (hclose c) []
    | _ => Norm s [IExptCall c] []
    end
  | IExptCall c =>
    match sock (getc s c) with
    | SOpen =>
      match a with
      | AExpt (XRaise e) => Raise s (XOSError e) [LEnv c a]
      | AExpt XNonzero => Norm s (hclose c) [LEnv c a]
      | AExpt XZero => Norm s [] [LEnv c a]
      | _ => Blocked
      end
    | _ => Raise s (XOSError EBADF) []
    end
  (* ---------------- send_continue / _flush_some ---------------- *)
  | IContPre c =>
    let x := getc s c in
    Norm (setc s c (upd_req x (nreq x) false (sentc x) (queued x))) [] []
  | IContAppend c =>
    let x := getc s c in
    if bufc x && negb (append_works a) then Raise s XValueError []
    else
      let x1 := upd_bufs x (bufc x) (pend x + 25)%Z (buf x + 25) (wire x) in
      Norm (setc s c (upd_req x1 (nreq x1) (pexp x1) true (queued x1))) [] []
  | IFlushStart c dc => Norm (setth s t (set_lsent me false)) [IFlush c dc (buf (getc s c))] []
  | IFlush c dc olen =>
    let x := getc s c in
    if olen =? 0 then Norm s [] []
    else match sock x with
         | SNone => Raise s XAttributeError []        (* dispatcher.send: self.socket is None *)
         | _ => Norm s [IFlushSend c dc (Nat.min (buf x) (sndbuf g)) olen] []
         end
  | IFlushSend c dc m olen =>
    let x := getc s c in
      match sock x with
      | SOpen =>
        match a with
        | ASend (SOk n) =>
          if (0 <? n) && (n <=? m) then
            if n <=? buf x then
              Norm (setth (setc s c (upd_bufs x (bufc x) (pend x - Z.of_nat n)%Z (buf x - n) (wire x + n))) t (set_lsent me true))
                   [IFlush c dc (olen - n)] [LEnv c a; LWire c n]
            else
              (* the other flusher got there first: outbuf.skip(num_sent) raises ValueError -- after the kernel took the bytes *)
              Raise (setc s c (upd_bufs x (bufc x) (pend x) (buf x) (wire x + n))) XValueError [LEnv c a; LWire c n]
          else Blocked
        | ASend (SErr e) =>
          match e with
          | EWOULDBLOCK => Norm s [] [LEnv c a]
          | _ =>
            if disconnected e then
              if dc then Norm s (hclose c) [LEnv c a; LCaught t (XOSError e)]
              else Norm s [] [LEnv c a; LCaught t (XOSError e)]
            else Raise s (XOSError e) [LEnv c a]
          end
        | _ => Blocked
        end
      | _ =>   (* the socket object has been closed meanwhile: EBADF from the kernel, in _DISCONNECTED *)
        if dc then Norm s (hclose c) [LCaught t (XOSError EBADF)] else Norm s [] [LCaught t (XOSError EBADF)]
      end
  (* ---------------- handle_close ---------------- *)
  | IHClose c => Norm s (hclose_body c) [LHClose t c]
  | ICloseBufs c =>
    let x := getc s c in
    let x1 := upd_bufs x true 0%Z (buf_left a x) (wire x) in
    Norm (setc s c (upd_conn x1 false)) [] [LBufsClosed t c]
  | INotifyO c =>
    let x := getc s c in
    Norm (setc s c (upd_olock x (olock x) (match cv x with CvWaiting => CvNotified | v => v end))) [] []
  | IDClose1 c => Norm (setc s c (upd_conn (getc s c) false)) [] []
  | IDelMapTest c =>
    let x := getc s c in
    if fileno x && in_map x then Norm s [IDelMapDo c; IFilenoNone c; IDelAct c (fileno x)] []
    else Norm s [IFilenoNone c; IDelAct c (fileno x)] []
  | IDelMapDo c =>
    let x := getc s c in
    if in_map x then Norm (setc s c (upd_map x false)) [] [LMapDel t (FC c)]
    else Raise s XKeyError []
  | IFilenoNone c => Norm (setc s c (upd_fileno (getc s c) false)) [] []
  | IDelAct c v =>
    let x := getc s c in
    if v && in_act x then Norm (setc s c (upd_act x false)) [] [LActDel t c] else Norm s [] []
  | ISockClose c =>
    match sock (getc s c) with
    | SNone => Norm s [] []
    | _ => Norm s [ISockCloseCall c; ISockNone c] []
    end
  | ISockCloseCall c =>
    let x := getc s c in
    Norm (setc s c (upd_sock x (match sock x with SNone => SNone | _ => SClosed end) (S (nclose x)))) [] [LClose t c]
  | ISockNone c => let x := getc s c in Norm (setc s c (upd_sock x SNone (nclose x))) [] []
  (* ---------------- locks ---------------- *)
  | IAcqO c =>
    let x := getc s c in
    if lock_free_for t (olock x) then Norm (setc s c (upd_olock x (acquire t (olock x)) (cv x))) [] []
    else Blocked
  | ITryAcqO c =>
    let x := getc s c in
    match olock x with
    | None => Norm (setc s c (upd_olock x (Some (t, 1)) (cv x)))
                   (flush_some c true ++ [IHwNotify c; KRelO c]) []
    | Some _ => Norm s [] []
    end
  | IRelO c => let x := getc s c in Norm (setc s c (upd_olock x (release (olock x)) (cv x))) [] []
  | IWaitO c =>
    let x := getc s c in
    match olock x with
    | Some (_, n) => Norm (setc s c (upd_olock x None CvWaiting)) [IWake c n] []
    | None => Raise s XValueError []       (* RuntimeError: cannot wait on un-acquired lock *)
    end
  | IWake c n =>
    let x := getc s c in
    match cv x, olock x with
    | CvNotified, None => Norm (setc s c (upd_olock x (Some (t, n)) CvNone)) [] []
    | _, _ => Blocked
    end
  | IAcqR c =>
    let x := getc s c in
    match rlock x with None => Norm (setc s c (upd_rlock x (Some t))) [] [] | Some _ => Blocked end
  | IRelR c => Norm (setc s c (upd_rlock (getc s c) None)) [] []
  (* ---------------- worker ---------------- *)
  | ISvcStart c =>
    let x := getc s c in
    if conn x then Norm s [ISvcChkWc c] []
    else Norm (setth s t (set_lcof me true)) [ISvcEnd c] []
  | ISvcChkWc c =>
    let x := getc s c in
    if wc x then Norm (setth s t (set_lcof me true)) [ISvcEnd c] []
    else Norm (setth s t (set_lcof me false)) [IApp c; KSvcTry c; ISvcEnd c] []
  | IApp c =>
    match a with
    | AApp (AppWrite n) => if 0 <? n then Norm s (write_soon c n ++ [IApp c]) [LApp c (AppWrite n)] else Blocked
    | AApp (AppDone b) => Norm (setth s t (set_lcof me b)) [] [LApp c (AppDone b)]
    | AApp AppRaise => Raise s XApp [LApp c AppRaise]
    | _ => Blocked
    end
  | IErrTask c =>
    (* wrote_header is the environment's: AKeep true = header already written *)
    match a with
    | AKeep true => Norm (setth s t (set_lcof me true)) [] []
    | AKeep false => Norm s [IApp c; KSvcTry2 c] []
    | _ => Blocked
    end
  | IWsChk1 c => if conn (getc s c) then Norm s [] [] else Raise s XClientDisconnected []
  | IFbh c =>
    let x := getc s c in
    if (Z.of_nat (hw g) <? pend x)%Z then
      Norm (setth s t (set_lexc me false)) [IAcqO c; IFbhChk c; KRelO c] []
    else Norm s [] []
  | IFbhChk c =>
    (* since /repo 7fa6a60: closed between the unlocked check and here: nothing to flush, nobody to wake us *)
    if conn (getc s c) then Norm s (flush_some c false ++ [KFlushExc c; IFbhAfter c]) [] else Norm s [] []
  | IFbhAfter c =>
    if lexc me then Norm s [IPull c; IWaitO c] []       (* pull_trigger(); wait(); return *)
    else Norm s [IFbhLoop c] []
  | IFbhLoop c =>
    let x := getc s c in
    if conn x && (Z.of_nat (hw g) <? pend x)%Z then Norm s [IPull c; IWaitO c; IFbhLoop c] [] else Norm s [] []
  | IWsChk2 c => if conn (getc s c) then Norm s [] [] else Raise s XClientDisconnected []
  | IWsAppend c n =>
    let x := getc s c in
    if bufc x && negb (append_works a) then Raise s XValueError []
    else Norm (setc s c (upd_bufs x (bufc x) (pend x + Z.of_nat n)%Z (buf x + n) (wire x))) [] []
  | IWsFlush c =>
    let x := getc s c in
    if (Z.of_nat (send_bytes g) <=? pend x)%Z then
      Norm (setth s t (set_lexc me false)) (flush_some c false ++ [KFlushExc c; IWsAfter c]) []
    else Norm s [] []
  | IWsAfter c =>
    let x := getc s c in
    if lexc me || negb (lsent me) || (Z.of_nat (send_bytes g) <=? pend x)%Z then Norm s [IPull c] [] else Norm s [] []
  | ISvcEnd c =>
    let x := getc s c in
    if lcof me then Norm s [IAcqR c; ISetCwf c; IRelR c; ISvcTail c] []
    else if 1 <? nreq x then Norm s [IFbh c; IAcqR c; ISvcPop c; KRelR c; ISvcTail c] []
    else Norm s [IAcqR c; ISvcPop c; KRelR c; ISvcTail c] []
  | ISetCwf c =>
    let x := getc s c in
    Norm (setc s c (upd_req (upd_flags x (wc x) true) 0 (pexp x) (sentc x) (queued x))) [] []
  | ISvcPop c =>
    let x := getc s c in
    let n := pred (nreq x) in
    if conn x && (0 <? n) then Norm (setc s c (upd_req x n (pexp x) (sentc x) (queued x))) [IAddTask c] []
    else if conn x && pexp x && negb (sentc x) then
      Norm (setc s c (upd_req x n (pexp x) (sentc x) (queued x))) (send_continue_dc c (wc_close g)) [LWCont c]
    else Norm (setc s c (upd_req x n (pexp x) (sentc x) (queued x))) [] []
  | ISvcTail c => if conn (getc s c) then Norm s [IPull c] [] else Norm s [] []
  | IPull c => Norm s [] []                    (* the trigger's state is not modelled *)
  | IAddTask c => let x := getc s c in Norm (setc s c (upd_req x (nreq x) (pexp x) (sentc x) true)) [] []
  (* ---------------- frames reached normally ---------------- *)
  | KWasyn _ | KReadwrite _ | KFlushExc _ | KSvcTry _ | KSvcTry2 _ | KWorkerTop _ => Norm s [] []
  | KAccTry c => if init_guarded g then Norm s [] [] else Norm s [IInitGso c; IInitSbl c; IAddChan c] []
  | KRelO c => let x := getc s c in Norm (setc s c (upd_olock x (release (olock x)) (cv x))) [] []
  | KRelR c => Norm (setc s c (upd_rlock (getc s c) None)) [] []
  end.

(* ---------------------------------------------------------------------- *)
(** * Unwinding: what a frame does with an exception *)

Inductive fres :=
| FCatch (s : state) (push : list instr) (ls : list label)   (* handled: continue normally with push ++ rest *)
| FPass (s : state).                                          (* not handled (finally / with / re-raise) *)

Definition frame (t : tid) (k : instr) (x : exn) (s : state) : fres :=
  let me := getth s t in
  match k with
  | KWasyn f =>
    if is_reraised x then FPass s else FCatch s (herror f) [LCaught t x]
  | KReadwrite f =>
    match x with
    | XOSError e => if disconnected e then FCatch s (hclose_fd f) [LCaught t x] else FCatch s (herror f) [LCaught t x]
    | XReraised => FPass s
    | _ => FCatch s (herror f) [LCaught t x]
    end
  | KAccTry c => if is_oserror x then FCatch s [] [LCaught t x] else FPass s
  | KFlushExc c =>
    if is_reraised x then FPass s
    else FCatch (setth (setc s c (upd_flags (getc s c) true (cwf (getc s c)))) t (set_lexc me true)) [] [LCaught t x]
  | KRelO c => let y := getc s c in FPass (setc s c (upd_olock y (release (olock y)) (cv y)))
  | KRelR c => FPass (setc s c (upd_rlock (getc s c) None))
  | KSvcTry c =>
    match x with
    | XClientDisconnected => FCatch (setth s t (set_lcof me true)) [] [LCaught t x]
    | _ => FCatch s [IErrTask c] [LCaught t x]        (* `except BaseException:` since /repo 72e39ad *)
    end
  | KSvcTry2 c =>
    match x with
    | XClientDisconnected => FCatch (setth s t (set_lcof me true)) [] [LCaught t x]
    | _ => FPass s
    end
  | KWorkerTop c => FCatch s [] [LCaught t x]     (* except BaseException *)
  | _ => FPass s
  end.

Fixpoint drop_to_frame (l : list instr) : list instr :=
  match l with
  | [] => []
  | i :: r => if is_frame i then l else drop_to_frame r
  end.

(* ---------------------------------------------------------------------- *)
(** * The step function *)

Definition step (g : cfg) (s : state) (ch : choice) : option (state * list label) :=
  let '(t, a) := ch in
  let me := getth s t in
  match raising me with
  | Some x =>
    match drop_to_frame (stk me) with
    | [] =>
      (* nothing left to catch it *)
      match t with
      | IO => Some (set_dead (setth s t (set_raising me [] None)), [LLoopDied x])
      | W c => Some (setth s t (set_raising me [] None), [LWorkerDied c])
      end
    | k :: rest =>
      match frame t k x s with
      | FCatch s1 push ls => Some (setth s1 t (set_raising (getth s1 t) (push ++ rest) None), ls)
      | FPass s1 => Some (setth s1 t (set_raising (getth s1 t) rest (Some x)), [])
      end
    end
  | None =>
    match stk me with
    | [] =>
      match t with
      | IO => None                              (* the loop has ended *)
      | W c =>
        (* handler_thread: the pool hands the channel to this worker *)
        let x := getc s c in
        if queued x then
          Some (setth (setc s c (upd_req x (nreq x) (pexp x) (sentc x) false)) t
                      (set_stk me [ISvcStart c; KWorkerTop c]), [])
        else None
      end
    | i :: rest =>
      match exec g t i a s with
      | Blocked => None
      | Norm s1 push ls => Some (setth s1 t (set_stk (getth s1 t) (push ++ rest)), ls)
      | Raise s1 x ls => Some (setth s1 t (set_raising (getth s1 t) rest (Some x)), ls)
      end
    end
  end.

(* executing a schedule *)
Definition exec1 (g : cfg) (sl : state * list label) (c : choice) : state * list label :=
  match step g (fst sl) c with
  | Some (s', l) => (s', snd sl ++ l)
  | None => sl
  end.
Definition run_tr (g : cfg) (sched : list choice) : state * list label :=
  fold_left (exec1 g) sched (init, []).
Definition run (g : cfg) (sched : list choice) : state := fst (run_tr g sched).
Definition trace (g : cfg) (sched : list choice) : list label := snd (run_tr g sched).

(* ---------------------------------------------------------------------- *)
(** * Support for the correspondence (not used by the proofs)

   [wants]: the instruction consults the environment's answer in this state.
   [is_yield]: the instruction is a scheduling point of the deterministic
   scheduler harness (harness/chanfault.py) at its "locks + socket calls"
   granularity: a real logical thread stops BEFORE such an operation; what lies
   between two scheduling points runs without interruption in the harness, so
   the driver executes the instructions that are not scheduling points eagerly,
   right after the scheduling point that precedes them. *)

Definition wants (s : state) (t : tid) (i : instr) : bool :=
  match i with
  | ISelWait _ _ _ | IAccept | ISetOpts _ | IInitGso _ | IInitSbl _ | ICloseBufs _ | IApp _ | IErrTask _ => true
  | IRecvCall c | IExptCall c | IFlushSend c _ _ _ => match sock (getc s c) with SOpen => true | _ => false end
  | _ => false
  end.

Definition final_release (l : option (tid * nat)) : bool :=
  match l with Some (_, 1) => true | _ => false end.

Definition is_yield (s : state) (t : tid) (i : instr) : bool :=
  match i with
  | ISelect _ _ _ | ISelWait _ _ _ | IAccept | ISetOpts _ | IInitGso _ | IInitSbl _
  | ITryAcqO _ | IAcqR _ | IRelR _ | KRelR _ | IWaitO _ | IWake _ _ | INotifyO _ | IPull _ | IAddTask _ => true
  | IAcqO c => match olock (getc s c) with Some (o, _) => negb (tid_eqb o t) | None => true end
  | IRelO c | KRelO c => final_release (olock (getc s c))
  | IRecvCall _ | IExptCall _ | ISockCloseCall _ | IFlushSend _ _ _ _ => true
  | _ => false
  end.

(* the next micro-step of thread t, if any, as (instruction, is it a frame met while unwinding) *)
Definition next_instr (s : state) (t : tid) : option (instr * bool) :=
  let me := getth s t in
  match raising me with
  | Some _ => match drop_to_frame (stk me) with [] => None | k :: _ => Some (k, true) end
  | None => match stk me with [] => None | i :: _ => Some (i, false) end
  end.
