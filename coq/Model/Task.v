(* Executable model of the response side of waitress:
     task.py      Task, ErrorTask, WSGITask (all but get_environment)
     utilities.py Error.to_response
     channel.py   HTTPChannel.service (exception ladder, close_on_finish branch),
                  write_soon as the sink
     buffers.py   ReadOnlyFileBasedBuffer.prepare / __next__
     task.py      ThreadedTaskDispatcher.handler_thread's catch-all
   A transliteration: same branches, same order of tests.  No proofs here.

   Applications are SCRIPTS of WSGI-visible actions (type [app]).
   str values are lists of code points, bytes are lists of N < 256.
   Python's str.capitalize / str.lower on arbitrary code points are ORACLES
   (Section variables [cap], [lower]); [py_cap] / [py_lower] are the concrete
   instances (exact on code points < 256, identity above) used for extraction
   and to close the theorems. *)
From Coq Require Import String Ascii.
From Coq Require Import List NArith ZArith Bool.
From WV Require Import Lib.PyBytes Gen.GenTables.
Import ListNotations.
Local Open Scope N_scope.

Definition str := list N.

Fixpoint lit_fn (s : string) : list N :=
  match s with
  | EmptyString => []
  | String c s' => N_of_ascii c :: lit_fn s'
  end.
(* string literals are expanded to lists of code points when parsed, so that
   neither [string] nor [lit_fn] is part of the extracted model *)
Notation lit s := (ltac:(let v := eval cbv in (lit_fn s%string) in exact v)) (only parsing).

Definition CR : N := 13.
Definition LF : N := 10.
Definition CRLF : str := [13; 10].

(* ---- values supplied by the application ---------------------------------- *)

Inductive pyobj := PStr (s : str) | PNonStr.

Inductive exn :=
| AssertionError | ValueError | RuntimeError | UnicodeEncodeError
| ClientDisconnected
| AppException        (* an Exception subclass raised by the application *)
| AppOSError          (* an OSError subclass raised by the application *)
| AppBaseException.   (* a BaseException subclass that is not an Exception *)

(* isinstance(e, Exception) / isinstance(e, OSError) *)
Definition is_Exception (e : exn) : bool :=
  match e with AppBaseException => false | _ => true end.
Definition is_OSError (e : exn) : bool :=
  match e with AppOSError => true | _ => false end.
Definition exn_eqb (a b : exn) : bool :=
  match a, b with
  | AssertionError, AssertionError | ValueError, ValueError | RuntimeError, RuntimeError
  | UnicodeEncodeError, UnicodeEncodeError | ClientDisconnected, ClientDisconnected
  | AppException, AppException | AppOSError, AppOSError | AppBaseException, AppBaseException => true
  | _, _ => false
  end.

Inductive outcome (A : Type) := Ok (a : A) | Exn (e : exn).
Arguments Ok {A} a.
Arguments Exn {A} e.

Inductive action :=
| AStart (status : pyobj) (headers : list (pyobj * pyobj)) (exc : option exn)
        (* start_response(status, headers[, exc_info]); exc = the exception
           instance carried by exc_info *)
| AWrite (data : bytes)                     (* the write callable *)
| ARaise (e : exn)
| AMutate (i : nat) (is_value : bool) (v : str)
        (* the application passed its header pairs as mutable LISTS and assigns to
           element 0/1 of the i-th pair after start_response returned: no effect,
           start_response stored fresh tuples (before commit 2730de7 it kept
           references and the mutation reached the wire) *)
| ATryStart (status : pyobj) (headers : list (pyobj * pyobj)) (exc : option exn).
        (* try: start_response(status, headers[, exc_info])
           except BaseException: pass
           -- the application (or an error-handling wrapper around it) SWALLOWS a
           refusal and carries on.  What the refused call leaves behind in the task
           is whatever [start_response] had assigned up to its raise site:
           complete = True (set before any validation), response_headers = [] when
           exc_info was given and no output has begun, status once the status passed
           its own checks, content_length from a Content-Length pair that precedes
           the refused pair; response_headers is extended only by a call that
           returns. *)

Inductive step_result := SYield (b : bytes) | SRaise (e : exn).
(* one __next__ of the iterable: WSGI-visible actions, then a value or an exception *)
Record istep := mkStep { s_acts : list action; s_res : step_result }.

Inductive ikind :=
| KSized (n : N)            (* has __len__ returning n (a list has n = number of items) *)
| KGen                      (* no __len__ *)
| KFile (seekable : bool).  (* wsgi.file_wrapper: ReadOnlyFileBasedBuffer; the steps
                               are the blocks file.read(block_size) returns *)

Record app := mkApp {
  a_call : list action;       (* during application(environ, start_response) *)
  a_kind : ikind;
  a_steps : list istep;       (* end of list = StopIteration *)
  a_has_close : bool;
  a_close_exn : option exn;   (* close() raises *)
}.

(* ---- configuration and request ------------------------------------------- *)

Record cfg := mkCfg {
  c_ident : str;               (* adj.ident *)
  c_expose_tracebacks : bool;
  c_log_socket_errors : bool;
  c_date : str;                (* build_http_date(start_time): fake clock *)
  c_tb : str;                  (* traceback.format_exc(): opaque marker text *)
}.

Record req := mkReq {
  r_version : str;                       (* request.version *)
  r_connection : option str;             (* request.headers.get("CONNECTION") *)
  r_head : bool;                         (* request.command == "HEAD" *)
  r_connection_close : bool;             (* request.connection_close: the parser's verdict that the
                                            connection cannot be reused after this message *)
  r_error : option ((str * str) * str);  (* request.error: ((code, reason), body) *)
}.

(* ---- the sink ------------------------------------------------------------ *)

Inductive witem :=
| WBytes (b : bytes)
| WFile (remain : Z) (content : bytes).  (* write_soon(app_iter): hand-over; content = what the channel will send *)

Record chan := mkChan {
  ch_writes : list witem;   (* in reverse order *)
  ch_nws : nat;             (* number of write_soon calls so far *)
}.

(* the client disconnect is placed by [disc]: the connected-test number j is
   passed iff j < k.  Test 0 is the one at the start of service(), test j >= 1
   is the one in the j-th write_soon call. *)
Definition connected (disc : option nat) (j : nat) : bool :=
  match disc with None => true | Some k => Nat.ltb j k end.

Definition write_soon (disc : option nat) (c : chan) (it : witem) : chan * outcome unit :=
  let j := S (ch_nws c) in
  let c1 := mkChan (ch_writes c) j in
  if negb (connected disc j) then (c1, Exn ClientDisconnected)
  else match it with
       | WBytes [] => (c1, Ok tt)                      (* if data: ... else return 0 *)
       | WBytes _ => (mkChan (it :: ch_writes c) j, Ok tt)
       | WFile r _ =>
           (* bool(buffer) is True; num_bytes = len(data) raises ValueError when negative *)
           if (r <? 0)%Z then (c1, Exn ValueError)
           else (mkChan (it :: ch_writes c) j, Ok tt)
       end.

(* ---- small Python primitives --------------------------------------------- *)

Definition has_crlf (s : str) : bool := memb LF s || memb CR s.

(* header_name_re.fullmatch(k): rfc7230.TOKEN = 1*tchar (the pattern is regenerated and compared by
   K-task's token sub-suite over all code points below 0x300 and on generated names) *)
Definition is_tchar (x : N) : bool :=
  ((48 <=? x) && (x <=? 57)) || ((65 <=? x) && (x <=? 90)) || ((97 <=? x) && (x <=? 122)) ||
  existsb (N.eqb x) [33; 35; 36; 37; 38; 39; 42; 43; 45; 46; 94; 95; 96; 124; 126].
Definition is_token (s : str) : bool :=
  match s with [] => false | _ :: _ => forallb is_tchar s end.

Fixpoint str_ltb (a b : str) : bool :=
  match a, b with
  | _, [] => false
  | [], _ :: _ => true
  | x :: a', y :: b' => if x <? y then true else if y <? x then false else str_ltb a' b'
  end.

(* sorted(l, key=lambda x: x[0]) -- stable insertion sort *)
Fixpoint insert_hdr (h : str * str) (l : list (str * str)) : list (str * str) :=
  match l with
  | [] => [h]
  | g :: l' => if str_ltb (fst g) (fst h) then g :: insert_hdr h l' else h :: g :: l'
  end.
Fixpoint sort_hdrs (l : list (str * str)) : list (str * str) :=
  match l with
  | [] => []
  | h :: l' => insert_hdr h (sort_hdrs l')
  end.

(* str(n) for an int *)
Definition z_to_dec (z : Z) : str :=
  match z with
  | Zneg p => 45 :: to_dec (Npos p)
  | _ => to_dec (Z.to_N z)
  end.

(* data[:k] for an int k of either sign *)
Definition py_slice_to (d : bytes) (k : Z) : bytes :=
  if (k <? 0)%Z then firstn (Z.to_nat (Z.of_nat (length d) + k)) d
  else firstn (Z.to_nat k) d.

(* int(v) for a str: surrounding whitespace, sign, ASCII digits with single
   underscores between digits, at most 4300 digits.  Non-ASCII decimal digits
   (which CPython accepts) are treated as invalid: outside every quantifier. *)
Definition is_int_ws (x : N) : bool := is_str_ws x && negb ((28 <=? x) && (x <=? 31)).
Fixpoint int_digits_ok (prev_digit : bool) (s : str) : bool :=
  match s with
  | [] => prev_digit
  | x :: s' => if is_digit x then int_digits_ok true s'
               else if (x =? 95) && prev_digit then
                      match s' with y :: _ => is_digit y && int_digits_ok false s' | [] => false end
                    else false
  end.
Definition py_int (v : str) : option Z :=
  let s := strip_by is_int_ws v in
  let '(neg, d) := match s with
                   | 43 :: r => (false, r)
                   | 45 :: r => (true, r)
                   | _ => (false, s)
                   end in
  let ds := filter is_digit d in
  if int_digits_ok false d && (lenN ds <=? 4300) then
    let n := Z.of_N (dec_value ds) in Some (if neg then (- n)%Z else n)
  else None.

(* s.encode("utf-8", "backslashreplace"): a lone surrogate U+D800..U+DFFF (a str may hold one: a
   traceback text quoting an undecodable file name) becomes the six ASCII characters \udxxx *)
Definition hexdig_lower (d : N) : N := if d <? 10 then 48 + d else 87 + d.
Definition utf8_cp (c : N) : bytes :=
  if c <? 128 then [c]
  else if c <? 2048 then [192 + c / 64; 128 + c mod 64]
  else if (55296 <=? c) && (c <=? 57343) then
    [92; 117; hexdig_lower (c / 4096); hexdig_lower ((c / 256) mod 16); hexdig_lower ((c / 16) mod 16); hexdig_lower (c mod 16)]
  else if c <? 65536 then [224 + c / 4096; 128 + (c / 64) mod 64; 128 + c mod 64]
  else [240 + c / 262144; 128 + (c / 4096) mod 64; 128 + (c / 64) mod 64; 128 + c mod 64].
Definition utf8 (s : str) : bytes := flat_map utf8_cp s.

(* s.encode("latin-1") *)
Definition encode_latin1 (s : str) : outcome bytes :=
  if forallb (fun c => c <? 256) s then Ok s else Exn UnicodeEncodeError.

(* ---- concrete case mapping (exact below 256, identity above) ------------- *)

Definition upper_latin1_c (x : N) : str :=
  if (97 <=? x) && (x <=? 122) then [x - 32]
  else if x =? 181 then [924]
  else if x =? 223 then [83; 115]                      (* title case of sharp s *)
  else if (224 <=? x) && (x <=? 254) && negb (x =? 247) then [x - 32]
  else if x =? 255 then [376]
  else [x].
Definition py_lower (s : str) : str := lower_latin1 s.
Definition py_cap (s : str) : str :=
  match s with
  | [] => []
  | x :: s' => upper_latin1_c x ++ lower_latin1 s'
  end.

(* ---- the task ------------------------------------------------------------ *)

Record task := mkTask {
  t_v11 : bool;              (* self.version == "1.1" (else "1.0") *)
  t_status : str;
  t_rh : list (str * str);   (* response_headers *)
  t_complete : bool;
  t_wrote_header : bool;
  t_cof : bool;              (* close_on_finish *)
  t_chunked : bool;
  t_clen : option Z;         (* content_length *)
  t_cbw : Z;                 (* content_bytes_written *)
}.

Definition set_status s t := mkTask (t_v11 t) s (t_rh t) (t_complete t) (t_wrote_header t) (t_cof t) (t_chunked t) (t_clen t) (t_cbw t).
Definition set_rh h t := mkTask (t_v11 t) (t_status t) h (t_complete t) (t_wrote_header t) (t_cof t) (t_chunked t) (t_clen t) (t_cbw t).
Definition set_complete b t := mkTask (t_v11 t) (t_status t) (t_rh t) b (t_wrote_header t) (t_cof t) (t_chunked t) (t_clen t) (t_cbw t).
Definition set_wrote b t := mkTask (t_v11 t) (t_status t) (t_rh t) (t_complete t) b (t_cof t) (t_chunked t) (t_clen t) (t_cbw t).
Definition set_cof b t := mkTask (t_v11 t) (t_status t) (t_rh t) (t_complete t) (t_wrote_header t) b (t_chunked t) (t_clen t) (t_cbw t).
Definition set_chunked b t := mkTask (t_v11 t) (t_status t) (t_rh t) (t_complete t) (t_wrote_header t) (t_cof t) b (t_clen t) (t_cbw t).
Definition set_clen c t := mkTask (t_v11 t) (t_status t) (t_rh t) (t_complete t) (t_wrote_header t) (t_cof t) (t_chunked t) c (t_cbw t).
Definition set_cbw n t := mkTask (t_v11 t) (t_status t) (t_rh t) (t_complete t) (t_wrote_header t) (t_cof t) (t_chunked t) (t_clen t) n.

(* Task.__init__: is_error gives ErrorTask's class attribute complete = True *)
Definition new_task (version : str) (is_error : bool) : task :=
  mkTask (beqb version (lit "1.1")) (lit "200 OK") [] is_error false false false None 0%Z.

Definition version_str (t : task) : str := if t_v11 t then lit "1.1" else lit "1.0".

Definition has_body (t : task) : bool :=
  negb (startswith (t_status t) (lit "1")
        || startswith (t_status t) (lit "204")
        || startswith (t_status t) (lit "304")).

Definition truthy (o : option str) : bool :=
  match o with Some (_ :: _) => true | _ => false end.

Section Oracle.
Variable cap : str -> str.      (* str.capitalize *)
Variable lower : str -> str.    (* str.lower *)

Definition set_close_on_finish (t : task) : task :=
  let t1 :=
    if negb (t_wrote_header t) then
      let cch := fold_left (fun acc (h : str * str) =>
                              if beqb (cap (fst h)) (lit "Connection") then Some (lower (snd h)) else acc)
                           (t_rh t) None in
      match cch with
      | None => set_rh (t_rh t ++ [(lit "Connection", lit "close")]) t
      | Some _ => t
      end
    else t in
  set_cof true t1.

(* "-".join([x.capitalize() for x in headername.split("-")]) *)
Definition norm_name (n : str) : str := join [45] (map cap (split n [45])).

(* the first loop of build_response_header *)
Record bh_acc := mkAcc {
  ac_rh : list (str * str); ac_cl : option str; ac_date : option str; ac_server : option str }.

Definition bh_step (hb : bool) (a : bh_acc) (h : str * str) : bh_acc :=
  let n := norm_name (fst h) in
  let v := snd h in
  if beqb n (lit "Content-Length") && negb hb then a      (* continue *)
  else
    let cl := if beqb n (lit "Content-Length") then Some v else ac_cl a in
    let d := if beqb n (lit "Date") then Some v else ac_date a in
    let s := if beqb n (lit "Server") then Some v else ac_server a in
    mkAcc (ac_rh a ++ [(n, v)]) cl d s.

Definition header_line (h : str * str) : str := fst h ++ [58; 32] ++ snd h.

(* build_response_header, in the order of the source: the normalising loop,
   the Content-Length default, the version / Connection table, Server or Via,
   Date, serialisation *)
Definition bh_loop (t : task) : bh_acc :=
  fold_left (bh_step (has_body t)) (t_rh t) (mkAcc [] None None None).

Definition bh_clen (a : bh_acc) (t : task) : option str * task :=
  match ac_cl a, t_clen t with
  | None, Some n =>
      if has_body t then
        let s := z_to_dec n in (Some s, set_rh (t_rh t ++ [(lit "Content-Length", s)]) t)
      else (ac_cl a, t)
  | _, _ => (ac_cl a, t)
  end.

Definition bh_conn (connection : str) (force_close : bool) (clh : option str) (t : task) : task :=
  if negb (t_v11 t) then
    if beqb connection (lit "keep-alive") && negb force_close && negb (t_cof t) then
      if negb (truthy clh) then set_close_on_finish t
      else set_rh (t_rh t ++ [(lit "Connection", lit "Keep-Alive")]) t
    else set_close_on_finish t
  else
    let t := if beqb connection (lit "close") || force_close then set_close_on_finish t else t in
    if negb (truthy clh) then
      let t := if has_body t
               then set_chunked true (set_rh (t_rh t ++ [(lit "Transfer-Encoding", lit "chunked")]) t)
               else t in
      if negb (t_cof t) then set_close_on_finish t else t
    else t.

Definition bh_server (c : cfg) (a : bh_acc) (t : task) : task :=
  let ident := c_ident c in
  if negb (truthy (ac_server a)) then
    match ident with
    | _ :: _ => set_rh (t_rh t ++ [(lit "Server", ident)]) t
    | [] => t
    end
  else set_rh (t_rh t ++ [(lit "Via", match ident with _ :: _ => ident | [] => lit "waitress" end)]) t.

Definition bh_date (c : cfg) (a : bh_acc) (t : task) : task :=
  if negb (truthy (ac_date a)) then set_rh (t_rh t ++ [(lit "Date", c_date c)]) t else t.

Definition first_line (t : task) : str := lit "HTTP/" ++ version_str t ++ [32] ++ t_status t.

Definition head_text (t : task) : str :=
  join CRLF (first_line t :: map header_line (sort_hdrs (t_rh t))) ++ CRLF ++ CRLF.

Definition request_connection (r : req) : str :=
  lower_latin1 (match r_connection r with Some x => x | None => [] end).

Definition bh_prepare (c : cfg) (r : req) (t : task) : task :=
  let a := bh_loop t in
  let t := set_rh (ac_rh a) t in
  let '(clh, t) := bh_clen a t in
  let t := bh_conn (request_connection r) (r_connection_close r) clh t in
  let t := bh_server c a t in
  bh_date c a t.

Definition build_response_header (c : cfg) (r : req) (t : task) : task * outcome bytes :=
  let t := bh_prepare c r t in
  (t, encode_latin1 (head_text t)).

Definition remove_content_length_header (t : task) : task :=
  set_rh (filter (fun h : str * str => negb (beqb (lower (fst h)) (lit "content-length"))) (t_rh t)) t.

Definition st := (task * chan)%type.

(* Task.write, first half: emit the head on the first call *)
Definition write_header (c : cfg) (r : req) (disc : option nat) (s : st) : st * outcome unit :=
  let '(t, ch) := s in
  if negb (t_wrote_header t) then
    match build_response_header c r t with
    | (t1, Exn e) => ((t1, ch), Exn e)
    | (t1, Ok rh) =>
        match write_soon disc ch (WBytes rh) with
        | (ch1, Exn e) => ((t1, ch1), Exn e)
        | (ch1, Ok _) => ((set_wrote true t1, ch1), Ok tt)
        end
    end
  else (s, Ok tt).

(* Task.write, second half: chunk encoding, Content-Length clamp, no-body statuses *)
Definition write_body (disc : option nat) (s : st) (data : bytes) : st * outcome unit :=
  let '(t, ch) := s in
  match data with
  | [] => ((t, ch), Ok tt)
  | _ :: _ =>
      if has_body t then
        let '(t, towrite) :=
          if t_chunked t then
            (t, to_hex_upper (lenN data) ++ CRLF ++ data ++ CRLF)
          else match t_clen t with
               | Some cl =>
                   let tw := py_slice_to data (cl - t_cbw t)%Z in
                   (set_cbw (t_cbw t + Z.of_nat (length tw))%Z t, tw)
               | None => (t, data)
               end in
        match towrite with
        | [] => ((t, ch), Ok tt)
        | _ :: _ =>
            match write_soon disc ch (WBytes towrite) with
            | (ch1, o) => ((t, ch1), o)
            end
        end
      else ((set_cbw (t_cbw t + Z.of_nat (length data))%Z t, ch), Ok tt)
  end.

(* Task.write *)
Definition task_write (c : cfg) (r : req) (disc : option nat) (s : st) (data : bytes) : st * outcome unit :=
  if negb (t_complete (fst s)) then (s, Exn RuntimeError)
  else
    match write_header c r disc s with
    | (s1, Exn e) => (s1, Exn e)
    | (s1, Ok _) => write_body disc s1 data
    end.

(* Task.finish *)
Definition task_finish (c : cfg) (r : req) (disc : option nat) (s : st) : st * outcome unit :=
  let r1 := if negb (t_wrote_header (fst s)) then task_write c r disc s [] else (s, Ok tt) in
  match r1 with
  | (s1, Exn e) => (s1, Exn e)
  | ((t, ch), Ok _) =>
      if t_chunked t && negb (r_head r) then      (* getattr(self.request, "command", None) != "HEAD" *)
        match write_soon disc ch (WBytes chunk_terminator) with
        | (ch1, o) => ((t, ch1), o)
        end
      else ((t, ch), Ok tt)
  end.

(* the loop over headers inside start_response *)
Fixpoint sr_headers (t : task) (hs : list (pyobj * pyobj)) (acc : list (str * str))
  : task * outcome (list (str * str)) :=
  match hs with
  | [] => (t, Ok acc)
  | (k, v) :: hs' =>
      match k with
      | PNonStr => (t, Exn AssertionError)
      | PStr k =>
          match v with
          | PNonStr => (t, Exn AssertionError)
          | PStr v =>
              if has_crlf v then (t, Exn ValueError)
              else if has_crlf k then (t, Exn ValueError)
              else if negb (is_token k) then (t, Exn AssertionError)   (* not a valid field-name *)
              else
                let kl := lower k in
                if beqb kl (lit "content-length") then
                  match py_int v with
                  | Some z => sr_headers (set_clen (Some z) t) hs' (acc ++ [(k, v)])
                  | None => (t, Exn ValueError)
                  end
                else if existsb (beqb kl) hop_by_hop then (t, Exn AssertionError)
                else sr_headers t hs' (acc ++ [(k, v)])
          end
      end
  end.

Definition start_response (t : task) (status : pyobj) (headers : list (pyobj * pyobj)) (exc : option exn)
  : task * outcome unit :=
  if t_complete t && match exc with None => true | Some _ => false end then (t, Exn AssertionError)
  else
    let r0 : task * outcome unit :=
      match exc with
      | Some e => if t_wrote_header t then (t, Exn e)
                  else (set_clen None (set_rh [] t), Ok tt)   (* the cleared headers take their length with them *)
      | None => (t, Ok tt)
      end in
    match r0 with
    | (t, Exn e) => (t, Exn e)
    | (t, Ok _) =>
        let t := set_complete true t in
        match status with
        | PNonStr => (t, Exn AssertionError)
        | PStr s =>
            if has_crlf s then (t, Exn ValueError)
            else
              let t := set_status s t in
              (* the loop keeps the declared length in a local variable and assigns
                 self.content_length after the loop: the same as recording it in the loop
                 (sr_headers) and putting the old value back when the loop raises *)
              let clen0 := t_clen t in
              match sr_headers t headers [] with
              | (t, Exn e) => (set_clen clen0 t, Exn e)
              | (t, Ok hs) => (set_rh (t_rh t ++ hs) t, Ok tt)
              end
        end
    end.

Fixpoint mutate_nth (i : nat) (is_value : bool) (v : str) (l : list (str * str)) : list (str * str) :=
  match l, i with
  | [], _ => []
  | h :: l', O => (if is_value then (fst h, v) else (v, snd h)) :: l'
  | h :: l', S j => h :: mutate_nth j is_value v l'
  end.

Definition run_action (c : cfg) (r : req) (disc : option nat) (s : st) (a : action) : st * outcome unit :=
  match a with
  | AStart status headers exc =>
      match start_response (fst s) status headers exc with
      | (t, o) => ((t, snd s), o)
      end
  | AWrite data => task_write c r disc s data
  | ARaise e => (s, Exn e)
  | AMutate i isv v => (s, Ok tt)   (* response_headers.extend([(k, v) for k, v in headers]) copied the pairs *)
  | ATryStart status headers exc =>
      (* the state start_response left behind at its raise site is kept, the exception is dropped *)
      match start_response (fst s) status headers exc with
      | (t, _) => ((t, snd s), Ok tt)
      end
  end.

Fixpoint run_actions (c : cfg) (r : req) (disc : option nat) (s : st) (l : list action) : st * outcome unit :=
  match l with
  | [] => (s, Ok tt)
  | a :: l' =>
      match run_action c r disc s a with
      | (s1, Exn e) => (s1, Exn e)
      | (s1, Ok _) => run_actions c r disc s1 l'
      end
  end.

(* for chunk in app_iter: ... *)
Fixpoint iterate (c : cfg) (r : req) (disc : option nat) (is_file : bool) (len1 : bool)
         (first : bool) (s : st) (steps : list istep) : st * outcome unit :=
  match steps with
  | [] => (s, Ok tt)
  | sp :: steps' =>
      match run_actions c r disc s (s_acts sp) with
      | (s1, Exn e) => (s1, Exn e)
      | (s1, Ok _) =>
          match s_res sp with
          | SRaise e => (s1, Exn e)
          | SYield chunk =>
              if is_file && match chunk with [] => true | _ => false end then (s1, Ok tt)   (* if not val: raise StopIteration *)
              else
                let '(t, ch) := s1 in
                let t :=
                  if first then
                    match t_clen t with
                    | None => if len1 then set_clen (Some (Z.of_nat (length chunk))) t else t
                    | Some _ => t
                    end
                  else t in
                let r1 := match chunk with
                          | [] => ((t, ch), Ok tt)
                          | _ :: _ => task_write c r disc (t, ch) chunk
                          end in
                match r1 with
                | (s2, Exn e) => (s2, Exn e)
                | (s2, Ok _) => iterate c r disc is_file len1 false s2 steps'
                end
          end
      end
  end.

(* file length seen by prepare(): the bytes a real file would still deliver *)
Fixpoint file_content (steps : list istep) : bytes :=
  match steps with
  | [] => []
  | sp :: steps' =>
      match s_res sp with
      | SYield [] => []
      | SYield b => b ++ file_content steps'
      | SRaise _ => []
      end
  end.

Record exec_result := mkExec {
  x_st : st; x_out : outcome unit; x_closes : nat; x_handover : bool;
  x_iter : bool   (* the application call returned an iterable *) }.

(* the try/finally body of WSGITask.execute after the application returned;
   gives (state, outcome, can_close_app_iter) *)
Definition execute_body (c : cfg) (r : req) (disc : option nat) (s : st) (a : app)
  : st * outcome unit * bool :=
  let handover : option (st * outcome unit * bool) :=
    match a_kind a with
    | KFile seekable =>
        let '(t, ch) := s in
        let cl := t_clen t in
        let content := file_content (a_steps a) in
        let size : Z :=
          if seekable then
            let fsize := Z.of_nat (length content) in
            match cl with None => fsize | Some n => Z.min fsize n end
          else 0%Z in
        if (size =? 0)%Z then None
        else if t_wrote_header t then None      (* ... and not self.wrote_header *)
        else if negb (has_body t) then None     (* ... and self.has_body (fix d117733): after a 1xx/204/304
                                                   status the wrapper is iterated like any iterable, write()
                                                   drops every block and the task closes the file *)
        else
          let t :=
            if match cl with Some n => negb (n =? size)%Z | None => true end then
              let t := match cl with Some _ => remove_content_length_header t | None => t end in
              set_clen (Some size) t
            else t in
          match task_write c r disc (t, ch) [] with
          | (s1, Exn e) => Some (s1, Exn e, true)
          | ((t1, ch1), Ok _) =>
              match write_soon disc ch1 (WFile size (firstn (Z.to_nat size) content)) with
              | (ch2, Exn e) => Some ((t1, ch2), Exn e, true)
              | (ch2, Ok _) => Some ((t1, ch2), Ok tt, false)
              end
          end
    | _ => None
    end in
  match handover with
  | Some x => x
  | None =>
      let is_file := match a_kind a with KFile _ => true | _ => false end in
      let len1 := match a_kind a with KSized n => n =? 1 | _ => false end in   (* len(file wrapper) is 0 here *)
      match iterate c r disc is_file len1 true s (a_steps a) with
      | (s1, Exn e) => (s1, Exn e, true)
      | ((t, ch), Ok _) =>
          let t :=
            match t_clen t with
            | Some cl => if negb (t_cbw t =? cl)%Z && negb (r_head r) then set_close_on_finish t else t
            | None => t
            end in
          ((t, ch), Ok tt, true)
      end
  end.

(* WSGITask.execute *)
Definition wsgi_execute (c : cfg) (r : req) (disc : option nat) (s : st) (a : app) : exec_result :=
  match run_actions c r disc s (a_call a) with
  | (s1, Exn e) => mkExec s1 (Exn e) 0 false false    (* the application raised: no iterable *)
  | (s1, Ok _) =>
      match execute_body c r disc s1 a with
      | (s2, o, can_close) =>
          if can_close && a_has_close a then
            match a_close_exn a with
            | Some e => mkExec s2 (Exn e) 1 false true (* raised inside finally: replaces the outcome *)
            | None => mkExec s2 o 1 false true
            end
          else mkExec s2 o 0 (negb can_close) true
      end
  end.

(* Error.to_response + ErrorTask.execute *)
Definition error_execute (c : cfg) (r : req) (disc : option nat) (s : st) (e : (str * str) * str) : st * outcome unit :=
  let '((code, reason), body) := e in
  let ident := match c_ident c with _ :: _ => c_ident c | [] => err_default_ident end in
  let status := code ++ [32] ++ reason in
  let bodyb := utf8 (reason ++ CRLF ++ CRLF ++ body ++ CRLF ++ CRLF ++ lit "(generated by " ++ ident ++ lit ")") in
  let '(t, ch) := s in
  let t := set_status status t in
  let t := set_rh (t_rh t ++ [err_header]) t in
  let t := set_close_on_finish t in
  let t := set_clen (Some (Z.of_nat (length bodyb))) t in
  (* if getattr(self.request, "command", None) == "HEAD": body = b""   (fix 7243240; the head
     still announces the length the body would have).  The ladder's own err_request
     inherits the command of the failed request (fix 52947ac). *)
  task_write c r disc (t, ch) (if r_head r then [] else bodyb).

(* start(); execute(); finish()  -- the try body of Task.service *)
Definition task_run (c : cfg) (r : req) (disc : option nat) (s : st) (job : app + ((str * str) * str)) : exec_result :=
  let x :=
    match job with
    | inl a => wsgi_execute c r disc s a
    | inr e => match error_execute c r disc s e with (s1, o) => mkExec s1 o 0 false false end
    end in
  match x_out x with
  | Exn e => x
  | Ok _ => match task_finish c r disc (x_st x) with
            | (s2, o) => mkExec s2 o (x_closes x) (x_handover x) (x_iter x)
            end
  end.

(* Task.service: ... except OSError: close_on_finish = True; re-raise if log_socket_errors or not wrote_header *)
Definition task_service (c : cfg) (r : req) (disc : option nat) (s : st) (job : app + ((str * str) * str)) : exec_result :=
  let x := task_run c r disc s job in
  match x_out x with
  | Exn e =>
      if is_OSError e then
        let s1 := (set_cof true (fst (x_st x)), snd (x_st x)) in
        mkExec s1 (if c_log_socket_errors c || negb (t_wrote_header (fst (x_st x))) then x_out x else Ok tt)
               (x_closes x) (x_handover x) (x_iter x)
      else x
  | Ok _ => x
  end.

Record result := mkResult {
  o_writes : list witem;       (* write_soon arguments, in order *)
  o_close : bool;              (* the close_on_finish branch was taken: close_when_flushed, requests cleared *)
  o_next : bool;               (* the keep-alive branch was taken: requests.pop(0) *)
  o_closes : nat;              (* calls of close() on the application's iterable *)
  o_handover : bool;           (* the file wrapper now belongs to the channel *)
  o_escaped : option exn;      (* exception leaving HTTPChannel.service() *)
  o_wrote_header : bool;       (* wrote_header of the last task *)
  o_served_500 : bool;         (* the ladder built an InternalServerError task *)
  o_nws1 : nat;                (* write_soon calls made by the first task *)
  (* about the first task (not observable from outside; used to state C09) *)
  o_raw : option exn;          (* exception that left execute()/finish(), before `except OSError` *)
  o_iter : bool;               (* the application call returned an iterable *)
  o_writes1 : list witem;      (* what the first task wrote *)
  o_wrote_header1 : bool;      (* wrote_header of the first task *)
  o_task1 : task;              (* final state of the first task *)
}.

(* HTTPChannel.service after the first task.service() returned or raised:
   the exception ladder and the close_on_finish branch.  [x] is the first
   task's result, [raw] what left its execute()/finish(). *)
Definition ladder (c : cfg) (r : req) (disc : option nat) (x : exec_result) (raw : option exn) : result :=
  let t := fst (x_st x) in
  let ch := snd (x_st x) in
  let fin (s : st) (esc : option exn) (served : bool) :=
    let closing := match esc with None => t_cof (fst s) | Some _ => false end in
    let nexting := match esc with None => negb (t_cof (fst s)) | Some _ => false end in
    mkResult (rev (ch_writes (snd s))) closing nexting (x_closes x) (x_handover x) esc
             (t_wrote_header (fst s)) served (ch_nws ch) raw
             (x_iter x) (rev (ch_writes ch)) (t_wrote_header t) t in
  match x_out x with
  | Ok _ => fin (x_st x) None false
  | Exn e =>
      if exn_eqb e ClientDisconnected then fin (set_cof true t, ch) None false
      else                                       (* except BaseException *)
        if negb (t_wrote_header t) then
          let body := if c_expose_tracebacks c then c_tb c else internal_error_text in
          (* err_request = parser_class(adj): version, command (fix 52947ac) and the CONNECTION
             header are copied from the failed request; connection_close is the class default *)
          let er := mkReq (r_version r) (r_connection r) (r_head r) false (Some (err_InternalServerError, body)) in
          let t1 := new_task (r_version r) true in
          let x1 := task_service c er disc (t1, ch) (inr (err_InternalServerError, body)) in
          match x_out x1 with
          | Ok _ => fin (x_st x1) None true
          | Exn e1 =>
              if exn_eqb e1 ClientDisconnected then
                fin (set_cof true (fst (x_st x1)), snd (x_st x1)) None true
              else
                (* except BaseException: log; task.close_on_finish = True  (/repo fix 1a765e6:
                   a failing 500 no longer leaves service() before its tail) *)
                fin (set_cof true (fst (x_st x1)), snd (x_st x1)) None true
          end
        else fin (set_cof true t, ch) None false
  end.

(* HTTPChannel.service for requests[0] *)
Definition channel_service (c : cfg) (r : req) (a : app) (disc : option nat) : result :=
  let job : app + ((str * str) * str) := match r_error r with Some e => inr e | None => inl a end in
  let t0 := new_task (r_version r) (match r_error r with Some _ => true | None => false end) in
  let s0 : st := (t0, mkChan [] 0) in
  if connected disc 0 then
    ladder c r disc (task_service c r disc s0 job)
           (match x_out (task_run c r disc s0 job) with Exn e => Some e | Ok _ => None end)
  else
    ladder c r disc (mkExec (set_cof true t0, snd s0) (Ok tt) 0 false false) None.

(* ThreadedTaskDispatcher.handler_thread: try: task.service() except BaseException: log.
   Gives what the worker logged; the worker itself goes on to the next task. *)
Definition handler_thread (c : cfg) (r : req) (a : app) (disc : option nat) : result * option exn :=
  let res := channel_service c r a disc in
  (res, o_escaped res).

End Oracle.

Definition run_task := channel_service py_cap py_lower.

(* service() reads self.will_close next to self.connected: a connection already
   marked for closing (a send error while flushing the previous response) is not
   executed.  In the model that is exactly the schedule in which the connected
   test number 0 fails. *)
Definition channel_service_wc (cap lower : str -> str) (c : cfg) (r : req) (a : app)
           (disc : option nat) (will_close : bool) : result :=
  channel_service cap lower c r a (if will_close then Some 0%nat else disc).
Definition run_task_wc := channel_service_wc py_cap py_lower.

(* flattened wire bytes *)
Definition witem_bytes (w : witem) : bytes :=
  match w with WBytes b => b | WFile _ content => content end.
Definition wire (ws : list witem) : bytes := flat_map witem_bytes ws.
