(* Model/ChanWake.v -- narrow interleaving model of the WAKE-UP PROTOCOL of
   waitress.channel.HTTPChannel for property C05 (no lost wake-up).

   THREADS.  IO (one turn of wasyncore.poll / poll2 over a map holding the
   trigger and ONE channel), workers W0..Wn-1 (task.ThreadedTaskDispatcher.
   handler_thread running HTTPChannel.service()), ENV (the client: sends
   segments, may close; the kernel: result of every send()/recv(); the
   application: how many write_soon calls of which size, close or keep).
   THE POLL TIMEOUT DOES NOT EXIST: [IoSel] is enabled iff a polled descriptor
   is ready or the trigger was pulled.  "The client keeps reading" = the
   socket is always write-ready when polled for writing.

   WHAT IS REPRESENTED (channel.py, task.py, wasyncore.py of the pinned tree)
     IoR1..IoR4      readable():  R will_close, R close_when_flushed,
                     R requests (len > lookahead), R total_outbufs_len   -- short-circuit [or]
     IoW1..IoW3      writable():  R total_outbufs_len > 0, R will_close, R close_when_flushed
     IoSel, IoTrig   select()/poll(): blocks until a descriptor is ready; trigger.handle_read:
                     os.read drains the pipe ([pulled] = the pipe is not empty; pull_trigger =
                     os.write of one byte)
     IoRecv          handle_read_event: R connected; recv
     IoRcvA..IoRcvRel  received(): A requests_lock; R will_close; R close_when_flushed;
                     per item: completed request -> requests.append, len==1 -> add_task;
                     expecting head -> send_continue (IoScA, IoSc1, IoScF) or left pending
     IoHW1..IoHW7    handle_write_event: R connected; handle_write(): R requests == [] or
                     R total >= send_bytes -> _flush_some_if_lockable (IoTry, IoFlL, IoNfy,
                     IoRelL) | nothing;
                     R close_when_flushed, R total, W close_when_flushed, W will_close; R will_close
     IoHC..IoHCx     handle_close(): A outbuf_lock; total:=0, connected:=False, notify;
                     release; wasyncore.dispatcher.close (connected:=False, map delete)
     WAcq/WNotif/WIdle  handler_thread: one dispatcher critical section per step
                     (every access of queue is under ThreadedTaskDispatcher.lock)
     WSvc..WEnd2     service(): R requests[0]; R connected, R will_close; the task (WApp: ENV decides
                     the next write_soon or the end and close_on_finish); write_soon
                     (WWs1..WWsRel); _flush_outbufs_below_high_watermark (WHw.., with the
                     connected re-check WHwC under the lock);
                     close branch (WCl..), keep branch (WK..), worker-side send_continue
                     (WSc.., its flush with do_close=False); R connected -> pull_trigger (WEnd1, WEnd2)
   Granularity: every acquire / try-acquire / release / wait / wake / notify of
   outbuf_lock and requests_lock, every send/recv, every pull_trigger and every
   read or write of will_close, close_when_flushed, connected,
   total_outbufs_len and requests is a LABEL; a step carries one label that
   has an effect or decides control, plus labels of accesses that are
   protected by a lock the thread holds (merged with it: they commute with
   every step of the other threads) or whose value is not used.  The check
   (harness/chanwake.py) compares the label sequence of every thread with the
   trace of the real code at attribute granularity.

   A step fires, in the alignment with real traces, when the LAST of its labels is observed:
   that label is the one with the effect; the labels before it are reads whose value cannot
   change in between (lock held) or is not used.  ENV answers: every send() gets SOk n /
   SZero (EWOULDBLOCK) / SDisc (errno in _DISCONNECTED: handle_close when do_close) / SErr
   (any other exception, e.g. EHOSTUNREACH, or AttributeError on a socket that is gone);
   recv() delivers the next client segment or fails; CWApp is the application's next
   write_soon (or the end of the task with close_on_finish).

   QUIESCENCE.  [quiescent] = no thread of the server is enabled (Proof/ChanWake.v shows that
   then nobody is stuck on a lock); [quiescent_parked], [quiescent_app] (Proof/ChanWakeInv.v)
   = the I/O thread sleeps in select and every worker is parked on queue_cv / outbuf_lock
   (resp. or sits inside the application).  [c05_ok] is the predicate of the property.

   ABSTRACTED.  Bytes are counts: [pend] is the number of bytes in the output
   buffers (a FIFO by C17), [total] the attribute total_outbufs_len (equal while connected:
   Proof/ChanWakeL3.v).  A request is a token ([nreq] =
   len(requests)); parsing is C01/C02.  The size of one send() attempt
   (SO_SNDBUF) only bounds what ENV accepts, so it is dropped (ENV may accept
   any 1..pend).  current_outbuf_count / buffer rotation, last_activity,
   logging, request.close() do not influence the wake-up protocol.
   maintenance() and cancel() (server shutdown) are not represented. *)
From Coq Require Import List ZArith Bool Arith.
Import ListNotations.
Open Scope Z_scope.

Record cfg := mkCfg {
  lookahead : nat;      (* adj.channel_request_lookahead *)
  sb : Z;               (* adj.send_bytes *)
  hw : Z;               (* adj.outbuf_high_watermark *)
  poll2 : bool          (* wasyncore.poll2 instead of poll *)
}.

Definition cont_len : Z := 25.   (* len(b"HTTP/1.1 100 Continue\r\n\r\n") *)

Inductive tid := TIO | TW (i : nat).
Definition tid_eqb (a b : tid) : bool :=
  match a, b with TIO, TIO => true | TW i, TW j => Nat.eqb i j | _, _ => false end.

(* what one recv() delivers, in order *)
Inductive item := IReq | IHead | IBody.

(* result of one socket.send() *)
Inductive sres :=
| SOk (n : Z)          (* n bytes accepted, 1 <= n <= pend *)
| SZero                (* EWOULDBLOCK *)
| SDisc (keep : bool)  (* errno in _DISCONNECTED; keep: closed buffers still report their bytes (strbuf) *)
| SErr.                (* any other exception (other errno; AttributeError on a closed socket) *)

(* where _flush_outbufs_below_high_watermark was called from *)
Inductive site := SWr (n : Z) | SEnd.

(* continuation of the I/O thread's handle_close *)
Inductive hcont :=
| HcRead (ww eof : bool)   (* from handle_read / recv; then the write half of the turn *)
| HcWrite                  (* the last statement of handle_write *)
| HcFlushL                 (* from send() inside _flush_some_if_lockable (outbuf_lock held) *)
| HcSc (its : list item) (ww : bool). (* from send() inside send_continue in received() (both locks held) *)

Inductive iopc :=
| IoR1 | IoR2 | IoR3 | IoR4
| IoW1 (r : bool) | IoW2 (r : bool) | IoW3 (r : bool)
| IoSel (r w : bool)
| IoTrig (rr w : bool)
| IoTrigL (rr w : bool)
| IoRecv (ww : bool)
| IoRcvA (its : list item) (ww : bool)
| IoRcv1 (its : list item) (ww : bool)
| IoRcv2 (its : list item) (ww : bool)
| IoRcvLoop (its : list item) (ww : bool)
| IoRcvApp (its : list item) (ww : bool)
| IoRcvAdd (its : list item) (ww : bool)
| IoScA (its : list item) (ww : bool)
| IoSc1 (its : list item) (ww : bool)
| IoScF (its : list item) (ww : bool)
| IoScRel (its : list item) (ww : bool)
| IoRcvRel (ww : bool)
| IoHW1 | IoHW2 | IoHW2b | IoTry
| IoFlL | IoNfy | IoNfy2 | IoRelL | IoRelX | IoSetWc
| IoHW3 | IoHW4 | IoHW5 | IoHW6 | IoHW7
| IoHC (k : hcont) | IoHCb (k : hcont) | IoHCc (k : hcont) | IoHCd (k : hcont)
| IoHCe (k : hcont) | IoHCx (k : hcont).

Inductive wpc :=
| WIdle | WAcq | WNotif
| WSvc | WSvc2 | WApp
| WWs1 (n : Z) | WWs2 (n : Z)
| WHw1 (st : site) | WHwA | WHwC (st : site) | WHwF (st : site)
| WHwEP (st : site) | WHwEW (st : site) | WHwEPk (st : site) (cap : bool) | WHwEN (st : site)
| WHwL1 (st : site) | WHwL2 (st : site) | WHwLP (st : site) | WHwLW (st : site) | WHwLPk (st : site)
| WHwLN (st : site)
| WHwRel
| WWs3 (n : Z) | WWs4 (n : Z) | WWs5
| WWsF (sent : bool) | WWs6 | WWsP | WWsRel | WCdRel
| WCl1 | WCl2 | WCl3 | WCl4
| WK1 | WK3 | WK4 | WK5 | WK5b | WK6
| WScA | WSc1 | WScF | WScRel | WScX | WScX2
| WK7 | WEnd1 | WEnd2.

Record state := mkSt {
  wc : bool;             (* will_close *)
  cwf : bool;            (* close_when_flushed *)
  conn : bool;           (* connected *)
  total : Z;             (* total_outbufs_len *)
  pend : Z;              (* bytes in outbufs *)
  nreq : nat;            (* len(requests) *)
  pend100 : bool;        (* self.request expects 100-continue, headers finished, not sent *)
  sentc : bool;          (* sent_continue *)
  olock : option tid;    (* outbuf_lock (re-entrant) *)
  rlock : option tid;    (* requests_lock *)
  closed : bool;         (* the channel left the socket map *)
  pulled : bool;         (* trigger pulled and not yet read *)
  queue : nat;           (* ThreadedTaskDispatcher.queue (entries are this channel) *)
  qwait : list nat;      (* workers in queue_cv.wait(), longest first *)
  rx : list (list item); (* segments sent by the client and not yet received *)
  gone : bool;           (* the client closed its end *)
  io : iopc;
  ws : list wpc
}.

Definition init (nw : nat) : state :=
  mkSt false false true 0 0 0 false false None None false false 0 [] [] false IoR1 (repeat WAcq nw).

Inductive attr := AWc | ACwf | AConn | ATot | AReq | ARq.   (* ARq: self.request, only where it delimits an effect *)
Inductive lk := LkO | LkR | LkD | LkT.   (* LkT: the trigger's lock (thunks) *)
Inductive cv := CvO | CvQ.

Inductive label :=
| LR (a : attr) | LW (a : attr)
| LAcq (l : lk) | LTry (l : lk) | LRel (l : lk)
| LWait (c : cv) | LWake (c : cv) | LNotify (c : cv)
| LSend | LRecv | LSelect | LTrigRead | LPull | LAddTask
| LWrite | LDone | LMapDel | LClient.

(* choices: which thread moves + what the environment decides for that move *)
Inductive choice :=
| CIo                                 (* the I/O thread's next step (no environment input) *)
| CIoClose (keep : bool)              (* handle_close closes the buffers; keep: they still report bytes *)
| CIoRecv (ok eof : bool)             (* recv(): ok = the first unread segment / failure (eof: it returned b"") *)
| CIoSend (r : sres)                  (* a send() of the I/O thread *)
| CW (i : nat)                        (* worker i's next step (no environment input) *)
| CWSend (i : nat) (r : sres)         (* a send() of worker i *)
| CWApp (i : nat) (wr : option Z) (close : bool)
                                      (* the task: Some n = write_soon(n bytes); None = done, close_on_finish *)
| CClient (seg : list item)           (* the client sends a segment *)
| CClientClose.

(* ---- field updates ------------------------------------------------------- *)
Definition set_wc (s : state) v : state := mkSt v (cwf s) (conn s) (total s) (pend s) (nreq s) (pend100 s) (sentc s) (olock s) (rlock s) (closed s) (pulled s) (queue s) (qwait s) (rx s) (gone s) (io s) (ws s).
Definition set_cwf (s : state) v : state := mkSt (wc s) v (conn s) (total s) (pend s) (nreq s) (pend100 s) (sentc s) (olock s) (rlock s) (closed s) (pulled s) (queue s) (qwait s) (rx s) (gone s) (io s) (ws s).
Definition set_conn (s : state) v : state := mkSt (wc s) (cwf s) v (total s) (pend s) (nreq s) (pend100 s) (sentc s) (olock s) (rlock s) (closed s) (pulled s) (queue s) (qwait s) (rx s) (gone s) (io s) (ws s).
Definition set_total (s : state) v : state := mkSt (wc s) (cwf s) (conn s) v (pend s) (nreq s) (pend100 s) (sentc s) (olock s) (rlock s) (closed s) (pulled s) (queue s) (qwait s) (rx s) (gone s) (io s) (ws s).
Definition set_pend (s : state) v : state := mkSt (wc s) (cwf s) (conn s) (total s) v (nreq s) (pend100 s) (sentc s) (olock s) (rlock s) (closed s) (pulled s) (queue s) (qwait s) (rx s) (gone s) (io s) (ws s).
Definition set_nreq (s : state) v : state := mkSt (wc s) (cwf s) (conn s) (total s) (pend s) v (pend100 s) (sentc s) (olock s) (rlock s) (closed s) (pulled s) (queue s) (qwait s) (rx s) (gone s) (io s) (ws s).
Definition set_pend100 (s : state) v : state := mkSt (wc s) (cwf s) (conn s) (total s) (pend s) (nreq s) v (sentc s) (olock s) (rlock s) (closed s) (pulled s) (queue s) (qwait s) (rx s) (gone s) (io s) (ws s).
Definition set_sentc (s : state) v : state := mkSt (wc s) (cwf s) (conn s) (total s) (pend s) (nreq s) (pend100 s) v (olock s) (rlock s) (closed s) (pulled s) (queue s) (qwait s) (rx s) (gone s) (io s) (ws s).
Definition set_olock (s : state) v : state := mkSt (wc s) (cwf s) (conn s) (total s) (pend s) (nreq s) (pend100 s) (sentc s) v (rlock s) (closed s) (pulled s) (queue s) (qwait s) (rx s) (gone s) (io s) (ws s).
Definition set_rlock (s : state) v : state := mkSt (wc s) (cwf s) (conn s) (total s) (pend s) (nreq s) (pend100 s) (sentc s) (olock s) v (closed s) (pulled s) (queue s) (qwait s) (rx s) (gone s) (io s) (ws s).
Definition set_closed (s : state) v : state := mkSt (wc s) (cwf s) (conn s) (total s) (pend s) (nreq s) (pend100 s) (sentc s) (olock s) (rlock s) v (pulled s) (queue s) (qwait s) (rx s) (gone s) (io s) (ws s).
Definition set_pulled (s : state) v : state := mkSt (wc s) (cwf s) (conn s) (total s) (pend s) (nreq s) (pend100 s) (sentc s) (olock s) (rlock s) (closed s) v (queue s) (qwait s) (rx s) (gone s) (io s) (ws s).
Definition set_queue (s : state) v : state := mkSt (wc s) (cwf s) (conn s) (total s) (pend s) (nreq s) (pend100 s) (sentc s) (olock s) (rlock s) (closed s) (pulled s) v (qwait s) (rx s) (gone s) (io s) (ws s).
Definition set_qwait (s : state) v : state := mkSt (wc s) (cwf s) (conn s) (total s) (pend s) (nreq s) (pend100 s) (sentc s) (olock s) (rlock s) (closed s) (pulled s) (queue s) v (rx s) (gone s) (io s) (ws s).
Definition set_rx (s : state) v : state := mkSt (wc s) (cwf s) (conn s) (total s) (pend s) (nreq s) (pend100 s) (sentc s) (olock s) (rlock s) (closed s) (pulled s) (queue s) (qwait s) v (gone s) (io s) (ws s).
Definition set_gone (s : state) v : state := mkSt (wc s) (cwf s) (conn s) (total s) (pend s) (nreq s) (pend100 s) (sentc s) (olock s) (rlock s) (closed s) (pulled s) (queue s) (qwait s) (rx s) v (io s) (ws s).
Definition set_io (s : state) v : state := mkSt (wc s) (cwf s) (conn s) (total s) (pend s) (nreq s) (pend100 s) (sentc s) (olock s) (rlock s) (closed s) (pulled s) (queue s) (qwait s) (rx s) (gone s) v (ws s).
Definition set_ws (s : state) v : state := mkSt (wc s) (cwf s) (conn s) (total s) (pend s) (nreq s) (pend100 s) (sentc s) (olock s) (rlock s) (closed s) (pulled s) (queue s) (qwait s) (rx s) (gone s) (io s) v.

(* ---- helpers ------------------------------------------------------------- *)
Fixpoint upd {A} (n : nat) (v : A) (l : list A) : list A :=
  match l, n with
  | [], _ => []
  | _ :: r, O => v :: r
  | x :: r, S m => x :: upd m v r
  end.

Definition getw (s : state) (i : nat) : option wpc := nth_error (ws s) i.
Definition setw (s : state) (i : nat) (p : wpc) : state := set_ws s (upd i p (ws s)).
Definition goio (s : state) (p : iopc) : state := set_io s p.

Definition ret (s : state) (l : list label) : option (state * list label) := Some (s, l).

Definition free (l : option tid) : bool := match l with None => true | Some _ => false end.
Definition holds (l : option tid) (t : tid) : bool :=
  match l with Some u => tid_eqb u t | None => false end.

(* outbuf_lock.notify(): wakes one parked waiter (there is at most one, see Proof) *)
Fixpoint notify_o (l : list wpc) : list wpc :=
  match l with
  | [] => []
  | WHwEPk st _ :: r => WHwEN st :: r
  | WHwLPk st :: r => WHwLN st :: r
  | p :: r => p :: notify_o r
  end.

(* add_task: queue.append; queue_cv.notify() wakes the longest waiter *)
Definition add_task (s : state) : state :=
  let s1 := set_queue s (S (queue s)) in
  match qwait s1 with
  | [] => s1
  | w :: r => set_qwait (set_ws s1 (upd w WNotif (ws s1))) r
  end.
Definition l_add_task : list label := [LAddTask; LAcq LkD; LNotify CvQ; LRel LkD].

Definition l_flush_ok : list label := [LSend; LR ATot; LW ATot].

(* first program point of a poll turn: a closed channel is not in the map *)
Definition turn_start (s : state) : state :=
  goio s (if closed s then IoSel false false else IoR1).

(* after the read half of a turn: poll looks the descriptor up again, poll2's
   readwrite goes on with the same object *)
Definition after_read (c : cfg) (ww : bool) (s : state) : state :=
  if ww && (poll2 c || negb (closed s)) then goio s IoHW1 else turn_start s.

Definition read_ready (s : state) : bool :=
  match rx s with [] => gone s | _ :: _ => true end.

Definition sel_enabled (s : state) (r w : bool) : bool :=
  pulled s || w || (r && read_ready s).

(* where handle_close returns to *)
Definition hc_return (c : cfg) (k : hcont) (s : state) : state :=
  match k with
  | HcRead ww _ => after_read c ww s
  | HcWrite => turn_start s
  | HcFlushL => goio s IoNfy
  | HcSc its ww => goio s (IoScRel its ww)
  end.
Definition hc_locked (k : hcont) : bool :=
  match k with HcFlushL | HcSc _ _ => true | _ => false end.

(* ---- the I/O thread ------------------------------------------------------ *)
Definition step_io (c : cfg) (s : state) (ch : choice) : option (state * list label) :=
  match io s, ch with
  (* readable() *)
  | IoR1, CIo => ret (goio s (if wc s then IoW1 false else IoR2)) [LR AWc]
  | IoR2, CIo => ret (goio s (if cwf s then IoW1 false else IoR3)) [LR ACwf]
  | IoR3, CIo => ret (goio s (if Nat.ltb (lookahead c) (nreq s) then IoW1 false else IoR4)) [LR AReq]
  | IoR4, CIo => ret (goio s (IoW1 (total s =? 0))) [LR ATot]
  (* writable() *)
  | IoW1 r, CIo => ret (goio s (if 0 <? total s then IoSel r true else IoW2 r)) [LR ATot]
  | IoW2 r, CIo => ret (goio s (if wc s then IoSel r true else IoW3 r)) [LR AWc]
  | IoW3 r, CIo => ret (goio s (IoSel r (cwf s))) [LR ACwf]
  (* select / poll: returns when the trigger's pipe holds a byte or a polled descriptor of the
     channel is ready; the ready sets are computed here *)
  | IoSel r w, CIo =>
      if sel_enabled s r w then
        let rr := r && read_ready s in
        if pulled s then ret (goio s (IoTrig rr w)) [LSelect]
        else ret (if rr then goio s (IoRecv w) else after_read c w s) [LSelect]
      else None
  (* the trigger's handle_read: os.read drains the pipe (every byte written so far) *)
  | IoTrig rr w, CIo => ret (goio (set_pulled s false) (IoTrigL rr w)) [LTrigRead]
  (* ... then runs the thunks (none in waitress) under the trigger's own lock *)
  | IoTrigL rr w, CIo =>
      ret (if rr then goio s (IoRecv w) else after_read c w s) [LAcq LkT; LRel LkT]
  (* handle_read_event (R connected) -> handle_read -> recv *)
  | IoRecv ww, CIoRecv true _ =>
      match rx s with
      | seg :: rest => ret (goio (set_rx s rest) (IoRcvA seg ww)) [LR AConn; LRecv]
      | [] => None
      end
  | IoRecv ww, CIoRecv false eof =>
      (* eof: recv returned b"" (EOF, or an errno in _DISCONNECTED): handle_close inside recv,
         then handle_read sets connected = False again; otherwise handle_read's except OSError *)
      ret (goio s (IoHC (HcRead ww eof))) [LR AConn; LRecv]
  (* received() *)
  | IoRcvA its ww, CIo =>
      if free (rlock s) then ret (goio (set_rlock s (Some TIO)) (IoRcv1 its ww)) [LAcq LkR] else None
  | IoRcv1 its ww, CIo => ret (goio s (if wc s then IoRcvRel ww else IoRcv2 its ww)) [LR AWc]
  | IoRcv2 its ww, CIo => ret (goio s (if cwf s then IoRcvRel ww else IoRcvLoop its ww)) [LR ACwf]
  | IoRcvLoop [] ww, CIo => ret (goio s (IoRcvRel ww)) []
  | IoRcvLoop (IReq :: its) ww, CIo => ret (goio s (IoRcvApp its ww)) []
  | IoRcvLoop (IHead :: its) ww, CIo =>
      (* expect_continue and headers_finished and not self.requests and not self.sent_continue *)
      if Nat.eqb (nreq s) 0 then
        if sentc s then ret (goio (set_pend100 s true) (IoRcvLoop its ww)) [LR AReq]
        else ret (goio s (IoScA its ww)) [LR AReq]
      else ret (goio (set_pend100 s true) (IoRcvLoop its ww)) [LR AReq]
  | IoRcvLoop (IBody :: its) ww, CIo =>
      if pend100 s then
        if Nat.eqb (nreq s) 0 && negb (sentc s)
        then ret (goio (set_pend100 s false) (IoScA (IReq :: its) ww)) [LR AReq]
             (* send_continue, then the completed request is appended *)
        else ret (goio (set_pend100 s false) (IoRcvApp its ww)) [LR AReq]
      else ret (goio s (IoRcvApp its ww)) []
  | IoRcvApp its ww, CIo =>       (* sent_continue = False; requests.append *)
      (* self.requests.append(self.request): the list is changed after both attribute loads *)
      ret (goio (set_sentc (set_nreq s (S (nreq s))) false) (IoRcvAdd its ww)) [LR AReq; LR ARq]
  | IoRcvAdd its ww, CIo =>       (* len(requests) == 1 -> add_task *)
      if Nat.eqb (nreq s) 1 then ret (goio (add_task s) (IoRcvLoop its ww)) (LR AReq :: l_add_task)
      else ret (goio s (IoRcvLoop its ww)) [LR AReq]
  | IoRcvRel ww, CIo => ret (after_read c ww (set_rlock s None)) [LRel LkR]
  (* send_continue() called from received() *)
  | IoScA its ww, CIo =>
      if free (olock s) then ret (goio (set_olock s (Some TIO)) (IoSc1 its ww)) [LAcq LkO] else None
  | IoSc1 its ww, CIo =>
      ret (goio (set_sentc (set_pend (set_total s (total s + cont_len)) (pend s + cont_len)) true) (IoScF its ww))
          [LR ATot; LW ATot]
  | IoScF its ww, CIo => if pend s <=? 0 then ret (goio s (IoScRel its ww)) [] else None
  | IoScF its ww, CIoSend r =>
      if pend s <=? 0 then None else
      (* the flush is wrapped by _flush_exception since 48f7fa0: an error sets will_close *)
      if closed s then match r with SErr => ret (goio (set_wc s true) (IoScRel its ww)) [LW AWc] | _ => None end else
      match r with
      | SOk n => if (1 <=? n) && (n <=? pend s)
                 then ret (set_total (set_pend s (pend s - n)) (total s - n)) l_flush_ok else None
      | SZero => ret (goio s (IoScRel its ww)) [LSend]
      | SDisc _ => ret (goio s (IoHCb (HcSc its ww))) [LSend]
      | SErr => ret (goio (set_wc s true) (IoScRel its ww)) [LSend; LW AWc]
      end
  | IoScRel its ww, CIo => ret (goio (set_olock s None) (IoRcvLoop its ww)) [LRel LkO]
  (* handle_write_event (R connected) -> handle_write *)
  (* both branches flush through _flush_some_if_lockable since 8bcf05e *)
  | IoHW1, CIo => ret (goio s (if Nat.eqb (nreq s) 0 then IoTry else IoHW2)) [LR AConn; LR AReq]
  | IoHW2, CIo => ret (goio s (if sb c <=? total s then IoTry else IoHW2b)) [LR ATot]
  | IoHW2b, CIo =>      (* or self.total_outbufs_len > self.adj.outbuf_high_watermark (daf1a85) *)
      ret (goio s (if hw c <? total s then IoTry else IoHW3)) [LR ATot]
  | IoTry, CIo =>
      if free (olock s) then ret (goio (set_olock s (Some TIO)) IoFlL) [LTry LkO]
      else ret (goio s IoHW3) [LTry LkO]
  (* _flush_some_if_lockable *)
  | IoFlL, CIo => if pend s <=? 0 then ret (goio s IoNfy) [] else None
  | IoFlL, CIoSend r =>
      if pend s <=? 0 then None else
      if closed s then match r with SErr => ret (goio s IoRelX) [] | _ => None end else
      match r with
      | SOk n => if (1 <=? n) && (n <=? pend s)
                 then ret (set_total (set_pend s (pend s - n)) (total s - n)) l_flush_ok else None
      | SZero => ret (goio s IoNfy) [LSend]
      | SDisc _ => ret (goio s (IoHCb HcFlushL)) [LSend]
      | SErr => ret (goio s IoRelX) [LSend]
      end
  | IoNfy, CIo => ret (goio s (if total s <=? hw c then IoNfy2 else IoRelL)) [LR ATot]   (* <= since 6aba4bf *)
  | IoNfy2, CIo => ret (goio (set_ws s (notify_o (ws s))) IoRelL) [LNotify CvO]
  | IoRelL, CIo => ret (goio (set_olock s None) IoHW3) [LRel LkO]
  | IoRelX, CIo => ret (goio (set_olock s None) IoSetWc) [LRel LkO]
  | IoSetWc, CIo => ret (goio (set_wc s true) IoHW3) [LW AWc]
  (* rest of handle_write *)
  | IoHW3, CIo => ret (goio s (if cwf s then IoHW4 else IoHW7)) [LR ACwf]
  | IoHW4, CIo => ret (goio s (if total s =? 0 then IoHW5 else IoHW7)) [LR ATot]
  | IoHW5, CIo => ret (goio (set_cwf s false) IoHW6) [LW ACwf]
  | IoHW6, CIo => ret (goio (set_wc s true) IoHW7) [LW AWc]
  | IoHW7, CIo => if wc s then ret (goio s (IoHC HcWrite)) [LR AWc] else ret (turn_start s) [LR AWc]
  (* handle_close *)
  | IoHC k, CIo =>
      if free (olock s) then ret (goio (set_olock s (Some TIO)) (IoHCb k)) [LAcq LkO] else None
  | IoHCb k, CIoClose keep =>
      ret (goio (set_pend (set_total s 0) (if keep then pend s else 0)) (IoHCc k)) [LW ATot]
  | IoHCc k, CIo => ret (goio (set_conn s false) (IoHCd k)) [LW AConn]
  | IoHCd k, CIo => ret (goio (set_ws s (notify_o (ws s))) (if hc_locked k then IoHCx k else IoHCe k)) [LNotify CvO]
  | IoHCe k, CIo => ret (goio (set_olock s None) (IoHCx k)) [LRel LkO]
  | IoHCx k, CIo =>       (* wasyncore.dispatcher.close: connected = False; del_channel *)
      ret (hc_return c k (set_closed s true))
          (match k with HcRead _ true => [LW AConn; LMapDel; LW AConn] | _ => [LW AConn; LMapDel] end)
  | _, _ => None
  end.

(* ---- the workers --------------------------------------------------------- *)
(* leaving _flush_outbufs_below_high_watermark *)
Definition hw_exit (st : site) : wpc :=
  match st with SWr n => WWs3 n | SEnd => WHwRel end.

Definition step_w (c : cfg) (s : state) (i : nat) (ch : choice) : option (state * list label) :=
  let me := TW i in
  let go := setw s i in
  match getw s i with
  | None => None
  | Some pc =>
  match pc, ch with
  (* handler_thread: one critical section of ThreadedTaskDispatcher.lock per step *)
  | WAcq, CW _ =>
      match queue s with
      | O => ret (set_qwait (go WIdle) (qwait s ++ [i])) [LAcq LkD; LWait CvQ]
      | S q => ret (setw (set_queue s q) i WSvc) [LAcq LkD; LRel LkD]
      end
  | WNotif, CW _ =>
      match queue s with
      | O => ret (set_qwait (go WIdle) (qwait s ++ [i])) [LWake CvQ; LWait CvQ]
      | S q => ret (setw (set_queue s q) i WSvc) [LWake CvQ; LRel LkD]
      end
  (* service() *)
  | WSvc, CW _ => ret (go (if conn s then WSvc2 else WCl1)) [LR AReq; LR AConn]
  | WSvc2, CW _ => ret (go (if wc s then WCl1 else WApp)) [LR AWc]     (* and not self.will_close (64d926d) *)
  | WApp, CWApp _ (Some n) _ => if 0 <? n then ret (go (WWs1 n)) [LWrite] else None
  | WApp, CWApp _ None close => ret (go (if close then WCl1 else WK1)) [LDone]
  (* write_soon(data), len(data) = n > 0 *)
  | WWs1 n, CW _ => ret (go (if conn s then WWs2 n else WApp)) [LR AConn]
  | WWs2 n, CW _ =>
      if free (olock s) then ret (setw (set_olock s (Some me)) i (WHw1 (SWr n))) [LAcq LkO] else None
  (* _flush_outbufs_below_high_watermark *)
  | WHw1 st, CW _ =>
      ret (go (if hw c <? total s then match st with SWr _ => WHwC st | SEnd => WHwA end
               else match st with SWr n => WWs3 n | SEnd => WK3 end)) [LR ATot]
  | WHwA, CW _ =>
      if free (olock s) then ret (setw (set_olock s (Some me)) i (WHwC SEnd)) [LAcq LkO] else None
  | WHwC st, CW _ =>      (* if not self.connected: return (7fa6a60) *)
      ret (go (if conn s then WHwF st else hw_exit st)) [LR AConn]
  | WHwF st, CW _ => if pend s <=? 0 then ret (go (WHwL1 st)) [] else None
  | WHwF st, CWSend _ r =>
      if pend s <=? 0 then None else
      if closed s then match r with SErr => ret (setw (set_wc s true) i (WHwEP st)) [LW AWc] | _ => None end else
      match r with
      | SOk n => if (1 <=? n) && (n <=? pend s)
                 then ret (set_total (set_pend s (pend s - n)) (total s - n)) l_flush_ok else None
      | SZero | SDisc _ => ret (go (WHwL1 st)) [LSend]
      | SErr => ret (setw (set_wc s true) i (WHwEP st)) [LSend; LW AWc]
      end
  | WHwEP st, CW _ => ret (setw (set_pulled s true) i (WHwEW st)) [LPull]
  | WHwEW st, CW _ => ret (setw (set_olock s None) i (WHwEPk st (conn s))) [LWait CvO]
  | WHwEN st, CW _ =>
      if free (olock s) then ret (setw (set_olock s (Some me)) i (hw_exit st)) [LWake CvO] else None
  | WHwL1 st, CW _ => ret (go (if conn s then WHwL2 st else hw_exit st)) [LR AConn]
  | WHwL2 st, CW _ => ret (go (if hw c <? total s then WHwLP st else hw_exit st)) [LR ATot]
  | WHwLP st, CW _ => ret (setw (set_pulled s true) i (WHwLW st)) [LPull]
  | WHwLW st, CW _ => ret (setw (set_olock s None) i (WHwLPk st)) [LWait CvO]
  | WHwLN st, CW _ =>
      if free (olock s) then ret (setw (set_olock s (Some me)) i (WHwL1 st)) [LWake CvO] else None
  | WHwRel, CW _ => ret (setw (set_olock s None) i WK3) [LRel LkO]
  (* write_soon, after the watermark wait *)
  | WWs3 n, CW _ => ret (go (if conn s then WWs4 n else WCdRel)) [LR AConn]
  | WCdRel, CW _ => ret (setw (set_olock s None) i WApp) [LRel LkO]
  | WWs4 n, CW _ => ret (setw (set_total (set_pend s (pend s + n)) (total s + n)) i WWs5) [LR ATot; LW ATot]
  | WWs5, CW _ => ret (go (if sb c <=? total s then WWsF false else WWsRel)) [LR ATot]
  | WWsF sent, CW _ => if pend s <=? 0 then ret (go (if sent then WWs6 else WWsP)) [] else None
  | WWsF sent, CWSend _ r =>
      if pend s <=? 0 then None else
      if closed s then match r with SErr => ret (setw (set_wc s true) i WWsP) [LW AWc] | _ => None end else
      match r with
      | SOk n => if (1 <=? n) && (n <=? pend s)
                 then ret (setw (set_total (set_pend s (pend s - n)) (total s - n)) i (WWsF true)) l_flush_ok else None
      | SZero | SDisc _ => ret (go (if sent then WWs6 else WWsP)) [LSend]
      | SErr => ret (setw (set_wc s true) i WWsP) [LSend; LW AWc]
      end
  | WWs6, CW _ => ret (go (if sb c <=? total s then WWsP else WWsRel)) [LR ATot]
  | WWsP, CW _ => ret (setw (set_pulled s true) i WWsRel) [LPull]
  | WWsRel, CW _ => ret (setw (set_olock s None) i WApp) [LRel LkO]
  (* close branch *)
  | WCl1, CW _ =>
      if free (rlock s) then ret (setw (set_rlock s (Some me)) i WCl2) [LAcq LkR] else None
  | WCl2, CW _ => ret (setw (set_cwf s true) i WCl3) [LW ACwf]
  | WCl3, CW _ => ret (setw (set_nreq s O) i WCl4) [LR AReq; LW AReq]
  | WCl4, CW _ => ret (setw (set_rlock s None) i WEnd1) [LRel LkR]
  (* keep branch *)
  | WK1, CW _ => ret (go (if Nat.ltb 1 (nreq s) then WHw1 SEnd else WK3)) [LR AReq]
  | WK3, CW _ =>
      if free (rlock s) then ret (setw (set_rlock s (Some me)) i WK4) [LAcq LkR] else None
  | WK4, CW _ => ret (setw (set_nreq s (pred (nreq s))) i WK5) [LR AReq]
  | WK5, CW _ => ret (go (if conn s then WK5b else WK6)) [LR AConn]
  | WK5b, CW _ =>
      if Nat.ltb 0 (nreq s) then ret (setw (add_task s) i WK7) (LR AReq :: l_add_task)
      else ret (go WK6) [LR AReq]
  | WK6, CW _ =>
      if conn s && pend100 s && negb (sentc s)
      then ret (setw (set_pend100 s false) i WScA) [LR AConn]
      else ret (go WK7) [LR AConn]
  (* send_continue(do_close=False) called from service() *)
  | WScA, CW _ =>
      if free (olock s) then ret (setw (set_olock s (Some me)) i WSc1) [LAcq LkO] else None
  | WSc1, CW _ =>
      ret (setw (set_sentc (set_pend (set_total s (total s + cont_len)) (pend s + cont_len)) true) i WScF)
          [LR ATot; LW ATot]
  (* outbufs[-1].append on a buffer that handle_close has closed raises (file-based buffers) *)
  | WSc1, CWSend _ SErr => if conn s then None else ret (go WScX) []
  | WScF, CW _ => if pend s <=? 0 then ret (go WScRel) [] else None
  | WScF, CWSend _ r =>
      if pend s <=? 0 then None else
      if closed s then match r with SErr => ret (setw (set_wc s true) i WScRel) [LW AWc] | _ => None end else
      match r with
      | SOk n => if (1 <=? n) && (n <=? pend s)
                 then ret (set_total (set_pend s (pend s - n)) (total s - n)) l_flush_ok else None
      | SZero | SDisc _ => ret (go WScRel) [LSend]   (* do_close=False since da3bf3a *)
      | SErr => ret (setw (set_wc s true) i WScRel) [LSend; LW AWc]   (* _flush_exception since 48f7fa0 *)
      end
  | WScRel, CW _ => ret (setw (set_olock s None) i WK7) [LRel LkO]
  | WScX, CW _ => ret (setw (set_olock s None) i WScX2) [LRel LkO]
  | WScX2, CW _ => ret (setw (set_rlock s None) i WAcq) [LRel LkR]
  | WK7, CW _ => ret (setw (set_rlock s None) i WEnd1) [LRel LkR]
  (* end of service() *)
  | WEnd1, CW _ => ret (go (if conn s then WEnd2 else WAcq)) [LR AConn]
  | WEnd2, CW _ => ret (setw (set_pulled s true) i WAcq) [LPull]
  | _, _ => None
  end
  end.

Definition step (c : cfg) (s : state) (ch : choice) : option (state * list label) :=
  match ch with
  | CIo | CIoClose _ | CIoRecv _ _ | CIoSend _ => step_io c s ch
  | CW i | CWSend i _ | CWApp i _ _ => step_w c s i ch
  | CClient seg => if gone s then None else ret (set_rx s (rx s ++ [seg])) [LClient]
  | CClientClose => if gone s then None else ret (set_gone s true) [LClient]
  end.

(* ---- enabledness, quiescence and the predicate of C05 ------------------- *)
(* a step of the I/O thread is possible (for some answer of the environment) *)
Definition io_enabled (s : state) : bool :=
  match io s with
  | IoSel r w => sel_enabled s r w
  | IoRcvA _ _ => free (rlock s)
  | IoScA _ _ | IoHC _ => free (olock s)
  | _ => true
  end.

Definition w_enabled (s : state) (p : wpc) : bool :=
  match p with
  | WIdle | WHwEPk _ _ | WHwLPk _ => false
  | WWs2 _ | WHwA | WHwEN _ | WHwLN _ | WScA => free (olock s)
  | WCl1 | WK3 => free (rlock s)
  | _ => true
  end.

(* no thread of the server can move: the I/O thread sleeps in select with no
   ready descriptor and an unpulled trigger, every worker is parked (or blocked) *)
Definition quiescent (s : state) : bool :=
  negb (io_enabled s) && forallb (fun p => negb (w_enabled s p)) (ws s).

Definition parked_o (p : wpc) : bool :=
  match p with WHwEPk _ _ | WHwLPk _ => true | _ => false end.
(* parked by the exception branch of _flush_outbufs_below_high_watermark when the
   channel was already closed (connected = False): the class of finding park-after-close *)
(* (unreachable since 7fa6a60: the connected re-check WHwC; Proof/ChanWakeL4.v) *)
Definition parked_after_close (p : wpc) : bool :=
  match p with WHwEPk _ false => true | _ => false end.

Definition no_pending_output (s : state) : bool := closed s || ((total s =? 0) && (pend s =? 0)).
Definition no_unserved_request (s : state) : bool :=
  closed s || (Nat.eqb (nreq s) 0 && Nat.eqb (queue s) 0 && match rx s with [] => true | _ => false end).
Definition no_producer_parked (s : state) : bool := forallb (fun p => negb (parked_o p)) (ws s).
Definition closing_closed (s : state) : bool := negb (wc s || cwf s) || closed s.

Definition c05_ok (s : state) : bool :=
  no_pending_output s && no_unserved_request s && no_producer_parked s && closing_closed s.


Definition is_env (ch : choice) : bool :=
  match ch with CClient _ | CClientClose => true | _ => false end.
