(* Model of the channel's output queue at BYTE level: HTTPChannel.write_soon and
   HTTPChannel._flush_some (/repo/src/waitress/channel.py) over the buffer model of
   Model/Buffers.v (executable; no proofs here).

   The interleaving models of C04 / C05 / C12 abstract an output buffer as a
   length (or an append order); C17 proves one buffer a FIFO byte queue.  This
   model is the piece between them: the LIST of output buffers of one channel
   (OverflowableBuffer objects, and ReadOnlyFileBasedBuffer objects handed over
   through wsgi.file_wrapper), the rotation to a fresh buffer at
   outbuf_high_watermark, the hand-over of a file buffer, the drain loop of
   _flush_some with its local outbuflen counter, the pop-and-close of drained
   buffers, and the accounting in total_outbufs_len / current_outbuf_count --
   with the real buffer operations (append, get(sendbuf_len), skip(n, True),
   __len__, close) of Model/Buffers.v underneath.

   What is NOT here (it belongs to the interleaving models): the locks, the
   high-watermark wait of _flush_outbufs_below_high_watermark (it changes no
   state of its own), pull_trigger, will_close / close_when_flushed.  The model is
   the sequential semantics of one thread holding outbuf_lock.

   The socket is an oracle: each call self.send(chunk) consumes one [answer]:
     Sent k   socket.send returns min(k, len(chunk)) -- every behaviour of a kernel
              that accepts between 0 and len(chunk) bytes (0 also stands for
              EWOULDBLOCK and, with do_close=False, for a disconnect errno, both of
              which dispatcher.send turns into 0);
     Raise    socket.send raises an OSError that dispatcher.send re-raises: it
              escapes _flush_some (and is caught by _flush_exception).
   When the answers are used up the socket takes nothing more (Sent 0). *)
From Coq Require Import List NArith ZArith Bool.
From WV Require Import Lib.PyBytes Model.Buffers.
Import ListNotations.
Local Open Scope Z_scope.

(* an element of self.outbufs *)
Inductive outbuf :=
| OB (o : obuf)       (* OverflowableBuffer(adj.outbuf_overflow) *)
| RO (b : fbuf).      (* ReadOnlyFileBasedBuffer after prepare() *)

Record cfg := mkcfg {
  c_strbuf_limit : N;        (* buffers.STRBUF_LIMIT *)
  c_overflow : N;            (* adj.outbuf_overflow *)
  c_high_watermark : Z;      (* adj.outbuf_high_watermark *)
  c_send_bytes : Z;          (* adj.send_bytes *)
  c_sendbuf_len : Z          (* channel.sendbuf_len = SO_SNDBUF *)
}.

Record chan := mkchan {
  outbufs : list outbuf;
  total_outbufs_len : Z;
  current_outbuf_count : Z
}.

(* HTTPChannel.__init__ *)
Definition chan_new : chan := mkchan [OB o_new] 0 0.

Inductive answer := Sent (k : N) | Raise.

(* why an operation stopped *)
Inductive stop :=
| Done                (* returned normally *)
| SockRaised          (* socket.send raised: the exception escapes _flush_some *)
| BufRaised (e : exn) (* a buffer operation raised (never, see Proof/ChanOut.v) *)
| IndexError          (* self.outbufs[0] / self.outbufs[-1] on an empty list (never) *)
| NotImplemented      (* ReadOnlyFileBasedBuffer.append (never: the last buffer is an OverflowableBuffer) *)
| OutOfFuel.          (* never *)

(* ---- buffer operations as _flush_some and write_soon issue them ---- *)

(* outbuf.__len__() *)
Definition b_len (b : outbuf) : Z :=
  match b with OB o => o_len o | RO r => fb_len r end.

(* outbuf.get(self.sendbuf_len): the buffer after the call and the chunk *)
Definition b_get (c : cfg) (b : outbuf) : outbuf * outcome bytes :=
  match b with
  | OB o => let '(o', r) := o_get FNone (c_overflow c) o (c_sendbuf_len c) false in (OB o', r)
  | RO r => match ro_get r (c_sendbuf_len c) false with
            | Ok (r', res) => (RO r', Ok res)
            | Exn e => (RO r, Exn e)
            end
  end.

(* outbuf.skip(num_sent, True) *)
Definition b_skip (c : cfg) (b : outbuf) (n : N) : outbuf * outcome unit :=
  match b with
  | OB o => let '(o', r) := o_skip FNone (c_overflow c) o n true in (OB o', r)
  | RO r => match fb_skip r n with
            | Ok r' => (RO r', Ok tt)
            | Exn e => (RO r, Exn e)
            end
  end.

(* toclose.close() *)
Definition b_close (b : outbuf) : outbuf :=
  match b with OB o => OB (o_close o) | RO r => RO (fb_close r) end.

Definition set_head (ch : chan) (b : outbuf) (total : Z) : chan :=
  mkchan (b :: tl (outbufs ch)) total (current_outbuf_count ch).

(* ---- _flush_some ---- *)

Inductive phase :=
| PHead                 (* top of `while True`: outbuf = self.outbufs[0]; outbuflen = outbuf.__len__() *)
| PInner (outbuflen : Z).   (* test of `while outbuflen > 0` *)

Record flushed := mkflushed {
  f_chan : chan;
  f_left : list answer;       (* answers not consumed *)
  f_wire : bytes;             (* what the socket accepted during this call, in order *)
  f_sent : Z;                 (* the local variable sent *)
  f_chunks : list bytes;      (* every chunk offered to send(), in order *)
  f_closed : list outbuf;     (* buffers popped and closed, in order (as they were when popped) *)
  f_stop : stop
}.

Fixpoint flush_go (fuel : nat) (c : cfg) (ch : chan) (ph : phase) (ans : list answer)
                  (wire : bytes) (sent : Z) (chunks : list bytes) (closed : list outbuf) : flushed :=
  match fuel with
  | O => mkflushed ch ans wire sent chunks closed OutOfFuel
  | S fuel =>
    match outbufs ch with
    | [] => mkflushed ch ans wire sent chunks closed IndexError
    | ob :: rest =>
      match ph with
      | PHead => flush_go fuel c ch (PInner (b_len ob)) ans wire sent chunks closed
      | PInner l =>
        if l >? 0 then
          (* chunk = outbuf.get(self.sendbuf_len) *)
          match b_get c ob with
          | (ob1, Exn e) => mkflushed (set_head ch ob1 (total_outbufs_len ch)) ans wire sent chunks closed (BufRaised e)
          | (ob1, Ok chunk) =>
            let ch1 := set_head ch ob1 (total_outbufs_len ch) in
            let '(a, ans') := match ans with [] => (Sent 0, []) | a :: t => (a, t) end in
            match a with
            | Raise => mkflushed ch1 ans' wire sent (chunks ++ [chunk]) closed SockRaised
            | Sent k =>
              let n := N.min k (N.of_nat (length chunk)) in      (* num_sent = self.send(chunk) *)
              if (n =? 0)%N then
                (* failed to write anything, break out entirely *)
                mkflushed ch1 ans' wire sent (chunks ++ [chunk]) closed Done
              else
                match b_skip c ob1 n with
                | (ob2, Exn e) => mkflushed (set_head ch1 ob2 (total_outbufs_len ch)) ans' wire sent (chunks ++ [chunk]) closed (BufRaised e)
                | (ob2, Ok _) =>
                  let ch2 := set_head ch1 ob2 (total_outbufs_len ch - Z.of_N n) in
                  flush_go fuel c ch2 (PInner (l - Z.of_N n)) ans'
                           (wire ++ firstn (N.to_nat n) chunk) (sent + Z.of_N n) (chunks ++ [chunk]) closed
                end
            end
          end
        else
          (* while ... else: the buffer is drained *)
          match rest with
          | _ :: _ =>
            (* toclose = self.outbufs.pop(0); toclose.close() *)
            flush_go fuel c (mkchan rest (total_outbufs_len ch) (current_outbuf_count ch)) PHead ans
                     wire sent chunks (closed ++ [ob])
          | [] => mkflushed ch ans wire sent chunks closed Done   (* caught up *)
          end
      end
    end
  end.

(* enough for every run: one step per answer consumed, two per buffer, and the last *)
Definition flush_fuel (ch : chan) (ans : list answer) : nat :=
  length ans + 2 * length (outbufs ch) + 2.

Definition flush_some (c : cfg) (ch : chan) (ans : list answer) : flushed :=
  flush_go (flush_fuel ch ans) c ch PHead ans [] 0 [] [].

(* the return value of _flush_some: True iff anything was sent *)
Definition flush_result (f : flushed) : bool := f_sent f >? 0.

(* ---- write_soon ---- *)

Fixpoint set_last (l : list outbuf) (b : outbuf) : list outbuf :=
  match l with
  | [] => []
  | [_] => [b]
  | x :: t => x :: set_last t b
  end.

(* the buffering part of write_soon(data) for a byte string, data non-empty *)
Definition write_bytes_buf (c : cfg) (ch : chan) (data : bytes) : chan * stop :=
  let num_bytes := lenZ data in
  let '(bufs, cur) :=
    if current_outbuf_count ch >=? c_high_watermark c
    then (outbufs ch ++ [OB o_new], 0)          (* rotate to a new buffer *)
    else (outbufs ch, current_outbuf_count ch) in
  match bufs with
  | [] => (mkchan bufs (total_outbufs_len ch) cur, IndexError)      (* self.outbufs[-1] *)
  | _ :: _ =>
    match last bufs (OB o_new) with
    | RO _ => (mkchan bufs (total_outbufs_len ch) cur, NotImplemented)
    | OB o =>
      let '(o', r) := o_append FNone (c_strbuf_limit c) (c_overflow c) o data in
      match r with
      | Exn e => (mkchan (set_last bufs (OB o')) (total_outbufs_len ch) cur, BufRaised e)
      | Ok _ => (mkchan (set_last bufs (OB o')) (total_outbufs_len ch + num_bytes) (cur + num_bytes), Done)
      end
    end
  end.

(* the buffering part of write_soon(data) for a ReadOnlyFileBasedBuffer (wsgi.file_wrapper) *)
Definition write_file_buf (ch : chan) (rb : fbuf) : chan :=
  mkchan (outbufs ch ++ [RO rb; OB o_new]) (total_outbufs_len ch + fb_len rb) 0.

Inductive wdata := WBytes (data : bytes) | WFile (rb : fbuf).

Definition w_truthy (d : wdata) : bool :=
  match d with WBytes [] => false | _ => true end.     (* FileBasedBuffer.__bool__ is True *)

Record written := mkwritten {
  w_chan : chan;
  w_flush : option flushed;     (* the flush made inside write_soon, if any *)
  w_stop : stop
}.

(* write_soon(data) on a connected channel whose backlog is not above the
   high watermark (so that _flush_outbufs_below_high_watermark does not wait) *)
Definition write_soon (c : cfg) (ch : chan) (d : wdata) (ans : list answer) : written :=
  if negb (w_truthy d) then mkwritten ch None Done else
  let '(ch1, st) := match d with
                    | WBytes data => write_bytes_buf c ch data
                    | WFile rb => (write_file_buf ch rb, Done)
                    end in
  match st with
  | Done =>
    if total_outbufs_len ch1 >=? c_send_bytes c then
      let f := flush_some c ch1 ans in
      (* _flush_exception: an OSError is swallowed (will_close is the interleaving models' matter) *)
      mkwritten (f_chan f) (Some f) (match f_stop f with SockRaised => Done | s => s end)
    else mkwritten ch1 None Done
  | s => mkwritten ch1 None s
  end.

(* ---- send_continue ---- *)

(* b"HTTP/1.1 100 Continue\r\n\r\n" *)
Definition continue_payload : bytes :=
  [72;84;84;80;47;49;46;49;32;49;48;48;32;67;111;110;116;105;110;117;101;13;10;13;10]%N.

(* send_continue(): self.outbufs[-1].append(payload) -- no rotation --, both counters += 25, then
   _flush_exception(self._flush_some) unconditionally *)
Definition send_continue (c : cfg) (ch : chan) (ans : list answer) : written :=
  let bufs := outbufs ch in
  match bufs with
  | [] => mkwritten ch None IndexError
  | _ :: _ =>
    match last bufs (OB o_new) with
    | RO _ => mkwritten ch None NotImplemented          (* ReadOnlyFileBasedBuffer.append *)
    | OB o =>
      let '(o', r) := o_append FNone (c_strbuf_limit c) (c_overflow c) o continue_payload in
      match r with
      | Exn e => mkwritten (mkchan (set_last bufs (OB o')) (total_outbufs_len ch) (current_outbuf_count ch)) None (BufRaised e)
      | Ok _ =>
        let ch1 := mkchan (set_last bufs (OB o')) (total_outbufs_len ch + lenZ continue_payload)
                          (current_outbuf_count ch + lenZ continue_payload) in
        let f := flush_some c ch1 ans in
        mkwritten (f_chan f) (Some f) (match f_stop f with SockRaised => Done | s => s end)
      end
    end
  end.

(* ---- histories ---- *)

Inductive cop :=
| CWrite (d : wdata) (ans : list answer)   (* write_soon(d); the answers serve its internal flush *)
| CFlush (ans : list answer)               (* _flush_some() from handle_write / service *)
| CContinue (ans : list answer).           (* send_continue(); the answers serve its flush *)

Record cstep_out := mkcout {
  s_wire : bytes;        (* bytes the socket accepted during the operation *)
  s_stop : stop;
  s_ret : bool           (* _flush_some's return value (CFlush), or whether write_soon flushed (CWrite) *)
}.

Definition cstep (c : cfg) (ch : chan) (p : cop) : chan * cstep_out :=
  match p with
  | CWrite d ans =>
    let w := write_soon c ch d ans in
    (w_chan w, mkcout (match w_flush w with Some f => f_wire f | None => [] end) (w_stop w)
                      (match w_flush w with Some f => flush_result f | None => false end))
  | CFlush ans =>
    let f := flush_some c ch ans in
    (f_chan f, mkcout (f_wire f) (f_stop f) (flush_result f))
  | CContinue ans =>
    let w := send_continue c ch ans in
    (w_chan w, mkcout (match w_flush w with Some f => f_wire f | None => [] end) (w_stop w)
                      (match w_flush w with Some f => flush_result f | None => false end))
  end.

Fixpoint crun (c : cfg) (ch : chan) (ps : list cop) : chan * bytes :=
  match ps with
  | [] => (ch, [])
  | p :: ps' =>
    let '(ch1, o) := cstep c ch p in
    let '(ch2, w) := crun c ch1 ps' in
    (ch2, s_wire o ++ w)
  end.

(* what the application handed to write_soon, in order *)
Definition written_by (p : cop) : bytes :=
  match p with
  | CWrite (WBytes data) _ => data
  | CWrite (WFile rb) _ =>
      firstn (Z.to_nat (fb_remain rb)) (skipn (f_pos (fb_file rb)) (f_content (fb_file rb)))
  | CFlush _ => []
  | CContinue _ => continue_payload
  end.
