(* sorted(headers, key=name): the model's insertion sort is a stable sort. *)
From Coq Require Import List NArith Bool Lia Permutation Sorted.
From WV Require Import Lib.PyBytes Model.Task.
Import ListNotations.
Local Open Scope N_scope.

Lemma insert_perm h l : Permutation (insert_hdr h l) (h :: l).
Proof.
  induction l as [|g l IH]; simpl; auto.
  destruct (str_ltb (fst g) (fst h)); auto.
  eapply perm_trans. apply perm_skip, IH. apply perm_swap.
Qed.

Lemma sort_perm l : Permutation (sort_hdrs l) l.
Proof.
  induction l as [|h l IH]; simpl; auto.
  eapply perm_trans. apply insert_perm. auto.
Qed.

(* name order *)
Definition name_le (a b : str * str) : Prop := str_ltb (fst b) (fst a) = false.

Lemma str_ltb_irrefl a : str_ltb a a = false.
Proof. induction a as [|x a IH]; simpl; auto. rewrite N.ltb_irrefl. auto. Qed.

Lemma str_ltb_trans a b c : str_ltb a b = true -> str_ltb b c = true -> str_ltb a c = true.
Proof.
  revert b c; induction a as [|x a IH]; intros [|y b] [|z c]; simpl; try discriminate; auto.
  destruct (x <? y) eqn:Hxy, (y <? x) eqn:Hyx, (y <? z) eqn:Hyz, (z <? y) eqn:Hzy;
    try discriminate; intros H1 H2;
    rewrite ?N.ltb_lt, ?N.ltb_ge in *;
    try (assert (x <? z = true) as -> by (apply N.ltb_lt; lia); reflexivity).
  assert (x = y) by lia. assert (y = z) by lia. subst.
  rewrite N.ltb_irrefl. eauto.
Qed.

Lemma str_ltb_total a b : str_ltb a b = false -> str_ltb b a = false -> a = b.
Proof.
  revert b; induction a as [|x a IH]; intros [|y b]; simpl; try discriminate; auto.
  destruct (x <? y) eqn:Hxy; try discriminate.
  destruct (y <? x) eqn:Hyx; try discriminate.
  intros H1 H2. rewrite N.ltb_ge in *. assert (x = y) by lia. subst. f_equal. auto.
Qed.

Lemma str_ltb_asym a b : str_ltb a b = true -> str_ltb b a = false.
Proof.
  intro H. destruct (str_ltb b a) eqn:E; auto.
  pose proof (str_ltb_trans _ _ _ H E) as H1. rewrite str_ltb_irrefl in H1. discriminate.
Qed.

Lemma name_le_trans a b c : name_le a b -> name_le b c -> name_le a c.
Proof.
  unfold name_le. intros H1 H2.
  destruct (str_ltb (fst c) (fst a)) eqn:E; auto.
  destruct (str_ltb (fst b) (fst c)) eqn:E2.
  - rewrite (str_ltb_trans _ _ _ E2 E) in H1. discriminate.
  - pose proof (str_ltb_total _ _ H2 E2) as Heq. rewrite <- Heq in H1. rewrite E in H1. discriminate.
Qed.

Lemma insert_sorted h l : StronglySorted name_le l -> StronglySorted name_le (insert_hdr h l).
Proof.
  induction 1 as [|g l Hs IH Hall]; simpl.
  - constructor; constructor.
  - destruct (str_ltb (fst g) (fst h)) eqn:E.
    + constructor; auto.
      eapply Permutation_Forall. apply Permutation_sym, insert_perm.
      constructor; auto. unfold name_le. apply str_ltb_asym. auto.
    + constructor. constructor; auto.
      constructor. exact E.
      eapply Forall_impl; [|exact Hall]. intros c Hc. eapply name_le_trans; eauto.
Qed.

Lemma sort_sorted l : StronglySorted name_le (sort_hdrs l).
Proof. induction l; simpl. constructor. apply insert_sorted; auto. Qed.

(* stability: fields of the same name keep their relative order *)
Definition same_name (n : str) (h : str * str) : bool := beqb (fst h) n.

Lemma insert_filter_other n h l : same_name n h = false ->
  filter (same_name n) (insert_hdr h l) = filter (same_name n) l.
Proof.
  intro Hn. induction l as [|g l IH]; simpl.
  - rewrite Hn. auto.
  - destruct (str_ltb (fst g) (fst h)); simpl.
    + rewrite IH. auto.
    + rewrite Hn. auto.
Qed.

Lemma insert_filter_same n h l : same_name n h = true -> StronglySorted name_le l ->
  filter (same_name n) (insert_hdr h l) = h :: filter (same_name n) l.
Proof.
  intros Hn Hs. induction Hs as [|g l Hs IH Hall]; simpl.
  - rewrite Hn. auto.
  - destruct (str_ltb (fst g) (fst h)) eqn:E; simpl.
    + rewrite IH.
      assert (same_name n g = false) as ->; auto.
      unfold same_name in *. apply beqb_eq in Hn.
      destruct (beqb (fst g) n) eqn:Eg; auto. apply beqb_eq in Eg.
      rewrite Eg, Hn, str_ltb_irrefl in E. discriminate.
    + rewrite Hn. auto.
Qed.

Lemma sort_stable n l : filter (same_name n) (sort_hdrs l) = filter (same_name n) l.
Proof.
  induction l as [|h l IH]; simpl; auto.
  destruct (same_name n h) eqn:E.
  - rewrite insert_filter_same; auto using sort_sorted. rewrite IH. auto.
  - rewrite insert_filter_other; auto.
Qed.
