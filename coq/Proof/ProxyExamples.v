(* Non-vacuity: the hypotheses of the C16 theorems are satisfied by concrete,
   non-trivial requests (all by computation on the model). *)
From Coq Require Import String.
From Coq Require Import List NArith ZArith Bool.
From WV Require Import Lib.PyBytes Lib.PyStrProxy Model.Proxy Spec.ProxySpec
  Proof.ProxyDict Proof.ProxyStages Proof.ProxyTotal Proof.ProxyHops Proof.ProxyRel Proof.ProxyKinds
  Proof.ProxyPrune Proof.ProxyCats.
Import ListNotations.
Local Open Scope N_scope.

Definition peer : str := s2l "10.0.0.1"%string.
Definition base : environ :=
  [(k_remote_addr, peer); (k_remote_host, peer); (k_remote_port, s2l "5555"%string);
   (k_server_name, s2l "internal"%string); (k_server_port, s2l "8080"%string); (k_url_scheme, s_http)].

Definition cfg_xf (k : Z) : config :=
  {| trusted_proxy := Some peer; trusted_proxy_count := k;
     trusted_proxy_headers := Some [n_xff; n_xfh; n_xfproto]; clear_untrusted := true |}.
Definition cfg_fwd (k : Z) : config :=
  {| trusted_proxy := Some peer; trusted_proxy_count := k;
     trusted_proxy_headers := Some [n_fwd]; clear_untrusted := true |}.

Definition env_xf : environ :=
  base ++ [(k_xff, s2l "198.51.100.1, 203.0.113.7:4711, 192.0.2.9"%string);
           (k_xfh, s2l "evil.example, public.example:8443, inner.example"%string);
           (k_xfproto, s_https); (k_xfport, s2l "1"%string)].

(* C16_hop_x_forwarded, C16_apply, C16_kinds (X-Forwarded-Port is not trusted): k = 2 of 3 hops *)
Example ex_xf :
  fwd_inactive (tph_of (cfg_xf 2)) env_xf /\
  exists o, middleware (cfg_xf 2) env_xf = Ok o /\
    lookup k_remote_addr o = Some (s2l "203.0.113.7"%string) /\
    lookup k_remote_port o = Some (s2l "4711"%string) /\
    lookup k_server_name o = Some (s2l "public.example"%string) /\
    lookup k_server_port o = Some (s2l "8443"%string) /\
    lookup k_url_scheme o = Some s_https /\
    lookup k_xff o = Some (s2l "203.0.113.7:4711, 192.0.2.9"%string) /\
    lookup k_xfport o = None.
Proof. split; [left; vm_compute; reflexivity|]. eexists. split; [vm_compute; reflexivity|]. repeat split. Qed.

(* fewer hops than the count: the leftmost *)
Example ex_xf_leftmost :
  exists o, middleware (cfg_xf 7) env_xf = Ok o /\ lookup k_remote_addr o = Some (s2l "198.51.100.1"%string).
Proof. eexists. split; [vm_compute; reflexivity|]. reflexivity. Qed.

Definition env_fwd : environ :=
  base ++ [(k_fwd, s2l "for=198.51.100.1;host=evil.example;proto=http, for=""[2001:db8::7]:4711"";proto=https, host=inner.example"%string);
           (k_xff, s2l "6.6.6.6"%string)].

(* C16_hop_forwarded: k = 2 of 3; the k-th from the right has for= and proto=, only the last has host= *)
Example ex_fwd :
  exists o, middleware (cfg_fwd 2) env_fwd = Ok o /\
    lookup k_remote_addr o = Some (s2l "2001:db8::7"%string) /\
    lookup k_remote_port o = Some (s2l "4711"%string) /\
    lookup k_server_name o = Some (s2l "inner.example"%string) /\
    lookup k_url_scheme o = Some s_https /\
    lookup k_fwd o = Some (s2l "for=""[2001:db8::7]:4711"";proto=https, host=inner.example"%string) /\
    lookup k_xff o = None.
Proof. eexists. split; [vm_compute; reflexivity|]. repeat split. Qed.

(* C16_prune: same last two elements, different hops to the left *)
Definition env_xf' : environ :=
  base ++ [(k_xff, s2l "1.1.1.1,2.2.2.2, 203.0.113.7:4711, 192.0.2.9"%string);
           (k_xfh, s2l "evil.example, public.example:8443, inner.example"%string);
           (k_xfproto, s_https); (k_xfport, s2l "1"%string)].
Example ex_prune_hyps :
  has (tph_of (cfg_xf 2)) (name_of KFor) = true /\ on_trusted_path (cfg_xf 2) env_xf = true /\
  agree (only (key_of KFor)) env_xf env_xf' /\
  suffix (split (s2l "198.51.100.1, 203.0.113.7:4711, 192.0.2.9"%string) [c_comma]) 2 =
  suffix (split (s2l "1.1.1.1,2.2.2.2, 203.0.113.7:4711, 192.0.2.9"%string) [c_comma]) 2 /\
  exists o, middleware (cfg_xf 2) env_xf = Ok o /\ middleware (cfg_xf 2) env_xf' = Ok o.
Proof.
  split; [vm_compute; reflexivity|]. split; [vm_compute; reflexivity|]. split.
  - intros key Hk. unfold only in Hk. cbn [key_of] in Hk. unfold env_xf, env_xf'.
    unfold base. cbn [app lookup]. rewrite Hk. reflexivity.
  - split; [vm_compute; reflexivity|]. eexists. split; vm_compute; reflexivity.
Qed.

(* C16_400: a forwarded-pair without "=" *)
Example ex_400 :
  let e := base ++ [(k_fwd, s2l "for=192.0.2.1, secret"%string)] in
  on_trusted_path (cfg_fwd 1) e = true /\ malformed_syntax (tph_of (cfg_fwd 1)) e /\
  middleware (cfg_fwd 1) e = Malformed h_fwd.
Proof.
  cbv zeta. split; [vm_compute; reflexivity|]. split; [|vm_compute; reflexivity].
  right. right. right. right. split; [vm_compute; reflexivity|].
  eexists. split; [vm_compute; reflexivity|]. split; vm_compute; reflexivity.
Qed.
