(* C03, widening of the end-to-end frame theorems: applications that use the
   write() callable (with or without also returning chunks), any iterable that
   is not handed over (sized, generator, non-seekable file wrapper, any file
   wrapper after write()), a declared Content-Length that is exact, smaller or
   larger than the bytes produced, statuses without a body, HEAD. *)
From Coq Require Import String.
From Coq Require Import List NArith ZArith Bool Lia Arith Permutation.
From WV Require Import Lib.PyBytes Gen.GenTables Model.Task Spec.ClientParse
  Proof.TaskSort Proof.TaskLines Proof.TaskHead Proof.TaskStart Proof.TaskRun Proof.TaskChunk Proof.TaskClient
  Proof.TaskC08 Proof.TaskC09 Proof.TaskFrame Proof.TaskBody Proof.TaskSimple Proof.TaskFrameClient
  Proof.TaskFrameEnd Proof.TaskFrame2Sem Proof.TaskFrame2Run Proof.TaskFrame2Head.
Import ListNotations.
Local Open Scope N_scope.

(* the client on a body shorter than the declared length: incomplete *)
Theorem parse_length_short tp v body :
  task_clean tp -> Forall (fun h => no_colon (fst h)) (t_rh tp) ->
  has_body tp = true -> te_fields tp = [] ->
  cl_fields tp = [(lit "Content-Length", v)] -> all_digits v = true ->
  lenN body < dec_value v ->
  parse_one false (head_text tp ++ body) = None.
Proof.
  intros Hcl Hnc Hb Hte Hcf Hd Hlen. unfold parse_one.
  destruct (client_head tp body Hcl Hnc) as [-> ->].
  unfold decide_framing. cbn [orb]. rewrite status_code_first_line, no_body_status_has_body, Hb. cbn [negb].
  rewrite (sorted_filter_nil tp te_name Hte).
  rewrite (sorted_filter_singleton tp cl_name _ Hcf).
  cbn [snd forallb]. rewrite Hd. cbn [andb].
  apply N.ltb_lt in Hlen. rewrite Hlen. reflexivity.
Qed.

Lemma concat_nil_encode ds : concat ds = [] -> flat_map encode_chunk ds = [].
Proof.
  induction ds as [|d ds IH]; cbn [concat flat_map]; auto. intro H.
  apply app_eq_nil in H as [-> H]. rewrite IH by auto. reflexivity.
Qed.

Section End2.
Variable cap : str -> str.
Variable lower : str -> str.
Hypothesis Hcap : forall s, clean s -> clean (cap s).
Hypothesis Hcap_conn : cap (lit "Connection") = lit "Connection".
Hypothesis Hcap_te : beqb (cap (lit "Transfer-Encoding")) (lit "Connection") = false.
Hypothesis Hcap_cl : beqb (cap (lit "Content-Length")) (lit "Connection") = false.
Variable c : cfg.
Hypothesis Hc : cfg_clean c.
Variable r : req.

Definition sl_of (status : str) : bytes :=
  lit "HTTP/" ++ (if beqb (r_version r) (lit "1.1") then lit "1.1" else lit "1.0") ++ [32] ++ status.

Definition no_body_st (status : str) : bool :=
  startswith status (lit "1") || startswith status (lit "204") || startswith status (lit "304").

Lemma brh_ok t tp head : build_response_header cap lower c r t = (tp, Ok head) ->
  tp = bh_prepare cap lower c r t /\ head = head_text tp.
Proof.
  intro Eb. unfold build_response_header in Eb. injection Eb as E1 E2.
  apply encode_latin1_ok in E2. subst. auto.
Qed.

Lemma toofew_prepared t : toofew r (set_wrote true (bh_prepare cap lower c r t)) = toofew r t.
Proof.
  destruct (keeps_bh_prepare cap lower c r t) as (_ & _ & K3 & K4 & _).
  unfold toofew. cbn [t_clen t_cbw set_wrote]. rewrite K3, K4. reflexivity.
Qed.

(* [wapp_wire] in one piece, outside the corner "a positive length declared,
   nothing at all written" (where the head is built after the decision to close) *)
Lemma wapp_wire_u_gen status hs ws kind chunks hc :
  r_error r = None ->
  (no_handover kind ws \/
   forall t1, start_response lower (new_task (r_version r) false) (PStr status) hs None = (t1, Ok tt) ->
              has_body t1 = false) ->
  (forall t1, start_response lower (new_task (r_version r) false) (PStr status) hs None = (t1, Ok tt) ->
              len1 kind && match t_clen t1 with None => true | Some _ => false end = false) ->
  let res := channel_service cap lower c r (wapp status hs ws kind chunks hc) None in
  o_raw res = None ->
  exists t1, start_response lower (new_task (r_version r) false) (PStr status) hs None = (t1, Ok tt) /\
    let ds := ws ++ eff kind chunks in
    ((ds = [] -> toofew r t1 = false) ->
     exists tp head, build_response_header cap lower c r t1 = (tp, Ok head)
       /\ wire (o_writes res) = head ++ snd (ws_sem (set_wrote true tp) ds)
                                ++ (if t_chunked tp && negb (r_head r) then chunk_terminator else [])
       /\ o_close res = t_cof tp || toofew r (fst (ws_sem (set_wrote true tp) ds))
       /\ o_next res = negb (t_cof tp || toofew r (fst (ws_sem (set_wrote true tp) ds)))
       /\ o_handover res = false /\ o_closes res = (if hc then 1 else 0)%nat).
Proof.
  intros He Hnh Hl1. cbn zeta. intro Hraw.
  destruct (wapp_wire_gen cap lower c r status hs ws kind chunks hc He Hnh Hl1 Hraw) as (t1 & Esr & H0 & H1 & Hho & Hcs).
  exists t1. split; [exact Esr|]. intro Htf.
  destruct (ws ++ eff kind chunks) as [|d ds] eqn:Eds.
  - destruct (H0 eq_refl) as (tp & head & Eb & Ew & Ec & En).
    rewrite toofew_adj_spec, (Htf eq_refl) in Eb.
    destruct (brh_ok _ _ _ Eb) as [Etp _].
    assert (T : toofew r (set_wrote true tp) = false) by (rewrite Etp, toofew_prepared; auto).
    exists tp, head. split; [exact Eb|]. cbn [ws_sem fst snd List.app]. rewrite T, orb_false_r. repeat split; auto.
  - destruct H1 as (tp & head & Eb & Ew & Ec & En); [discriminate|]. exists tp, head. repeat split; auto.
Qed.

Lemma wapp_wire_u status hs ws kind chunks hc :
  r_error r = None ->
  no_handover kind ws ->
  (forall t1, start_response lower (new_task (r_version r) false) (PStr status) hs None = (t1, Ok tt) ->
              len1 kind && match t_clen t1 with None => true | Some _ => false end = false) ->
  let res := channel_service cap lower c r (wapp status hs ws kind chunks hc) None in
  o_raw res = None ->
  exists t1, start_response lower (new_task (r_version r) false) (PStr status) hs None = (t1, Ok tt) /\
    let ds := ws ++ eff kind chunks in
    ((ds = [] -> toofew r t1 = false) ->
     exists tp head, build_response_header cap lower c r t1 = (tp, Ok head)
       /\ wire (o_writes res) = head ++ snd (ws_sem (set_wrote true tp) ds)
                                ++ (if t_chunked tp && negb (r_head r) then chunk_terminator else [])
       /\ o_close res = t_cof tp || toofew r (fst (ws_sem (set_wrote true tp) ds))
       /\ o_next res = negb (t_cof tp || toofew r (fst (ws_sem (set_wrote true tp) ds)))).
Proof.
  intros He Hnh Hl1. cbn zeta. intro Hraw.
  destruct (wapp_wire_u_gen status hs ws kind chunks hc He (or_introl Hnh) Hl1 Hraw) as (t1 & Esr & U).
  exists t1. split; [exact Esr|]. intro Htf.
  destruct (U Htf) as (tp & head & Eb & Ew & Ec & En & _). exists tp, head. auto.
Qed.

(* ---- what start_response leaves behind --------------------------------------- *)

Lemma nolen_start_facts status hs t1 :
  start_response lower (new_task (r_version r) false) (PStr status) hs None = (t1, Ok tt) ->
  Forall (not_cl lower) hs ->
  task_clean t1 /\ t_status t1 = status /\ t_rh t1 = strs_of hs /\ t_complete t1 = true
  /\ t_wrote_header t1 = false /\ t_cof t1 = false /\ t_chunked t1 = false /\ t_cbw t1 = 0%Z
  /\ t_v11 t1 = beqb (r_version r) (lit "1.1") /\ t_clen t1 = None.
Proof.
  intros Esr Hcl.
  destruct (start_response_ok lower _ _ _ _ _ Esr) as (_ & S2 & S3 & S4 & S5 & S6 & S7 & S8 & S9 & _).
  cbn [new_task t_rh t_wrote_header t_cof t_chunked t_cbw t_v11 str_of List.app] in *.
  pose proof (start_response_no_cl lower (new_task (r_version r) false) (PStr status) hs None eq_refl Hcl) as Hclen.
  rewrite Esr in Hclen. cbn [fst new_task t_clen] in Hclen.
  pose proof (start_response_clean lower (new_task (r_version r) false) (PStr status) hs None) as G.
  rewrite Esr in G. cbn [fst] in G.
  split; [apply G; split; [reflexivity|constructor]|]. repeat split; auto.
Qed.

Lemma len_start_facts status pre clname v post cl t1 :
  start_response lower (new_task (r_version r) false) (PStr status) (pre ++ (PStr clname, PStr v) :: post) None = (t1, Ok tt) ->
  Forall (not_cl lower) post -> beqb (lower clname) (lit "content-length") = true -> py_int v = Some cl ->
  task_clean t1 /\ t_status t1 = status /\ t_rh t1 = strs_of pre ++ (clname, v) :: strs_of post
  /\ t_complete t1 = true
  /\ t_wrote_header t1 = false /\ t_cof t1 = false /\ t_chunked t1 = false /\ t_cbw t1 = 0%Z
  /\ t_v11 t1 = beqb (r_version r) (lit "1.1") /\ t_clen t1 = Some cl.
Proof.
  intros Esr Hpost Hn Hv.
  destruct (start_response_ok lower _ _ _ _ _ Esr) as (_ & S2 & S3 & S4 & S5 & S6 & S7 & S8 & S9 & _).
  cbn [new_task t_rh t_wrote_header t_cof t_chunked t_cbw t_v11 str_of List.app] in *.
  pose proof (start_response_cl lower _ clname v cl pre post status t1 Hpost Hn Hv Esr) as Hcl1.
  pose proof (start_response_clean lower (new_task (r_version r) false) (PStr status)
                                   (pre ++ (PStr clname, PStr v) :: post) None) as G.
  rewrite Esr in G. cbn [fst] in G.
  split; [apply G; split; [reflexivity|constructor]|].
  rewrite strs_of_app in S3. repeat split; auto.
Qed.

Lemma concat_ds ws kind chunks : concat (ws ++ eff kind chunks) = concat ws ++ produced kind chunks.
Proof. rewrite concat_app, concat_eff. reflexivity. Qed.

Lemma has_body_status t status : t_status t = status -> has_body t = negb (no_body_st status).
Proof. intros <-. reflexivity. Qed.

Lemma first_line_sl tp t1 status :
  t_status tp = t_status t1 -> t_v11 tp = t_v11 t1 -> t_status t1 = status ->
  t_v11 t1 = beqb (r_version r) (lit "1.1") -> first_line tp = sl_of status.
Proof. intros E1 E2 E3 E4. unfold first_line, version_str, sl_of. rewrite E1, E2, E3, E4. reflexivity. Qed.

(* ---- (1) no declared length; write() and / or chunks ---------------------------- *)

(* HTTP/1.1: chunked coding, HTTP/1.0: close-delimited; the client recovers the
   bytes passed to write() followed by the bytes the iterable delivered; the head
   announces "Connection: close" and the connection is closed. *)
Theorem frame_nolen_w status hs ws kind chunks hc :
  r_error r = None -> no_handover kind ws -> len1 kind = false -> Forall (not_cl lower) hs ->
  plain_fields cap (strs_of hs) ->
  r_head r = false -> no_body_st status = false ->
  let res := channel_service cap lower c r (wapp status hs ws kind chunks hc) None in
  o_raw res = None ->
  exists fields,
    parse_one false (wire (o_writes res))
    = Some (mkResponse (sl_of status) fields
                       (if beqb (r_version r) (lit "1.1") then FChunked else FEof)
                       (concat ws ++ produced kind chunks), [])
    /\ (forall h, In h (strs_of hs) -> In (client_field (norm_field cap h)) fields)
    /\ In (client_field f_close) fields
    /\ o_close res = true /\ o_next res = false.
Proof.
  intros He Hnh Hl Hcl Hpl Hhead Hst. cbn zeta. intro Hraw.
  destruct (wapp_wire_u status hs ws kind chunks hc He Hnh) with (2 := Hraw) as (t1 & Esr & U).
  { intros t1 _. rewrite Hl. reflexivity. }
  destruct (nolen_start_facts status hs t1 Esr Hcl) as (Hclean1 & S2 & S3 & S4 & S5 & S6 & S7 & S8 & S9 & Hclen).
  cbn zeta in U. destruct U as (tp & head & Eb & Ew & Ec & En).
  { intros _. unfold toofew. rewrite Hclen. reflexivity. }
  destruct (brh_ok _ _ _ Eb) as [Etp Ehead].
  rewrite <- S3 in Hpl.
  pose proof (nolen_head_facts cap lower Hcap Hcap_te c Hc r t1 Hclean1 S6 S5 S7 Hclen Hpl) as F.
  cbn zeta in F. rewrite <- Etp in F.
  destruct F as (Hcleanp & Hnc & Pst & Pv & Pcof & Pchk & Pte & Pcl & Pin & Pclose).
  assert (Hb1 : has_body t1 = true) by (rewrite (has_body_status t1 status S2), Hst; reflexivity).
  assert (Hbp : has_body tp = true) by (unfold has_body in *; rewrite Pst; exact Hb1).
  assert (Hclp : t_clen tp = None).
  { rewrite Etp. destruct (keeps_bh_prepare cap lower c r t1) as (_ & _ & K3 & _). congruence. }
  pose proof (first_line_sl tp t1 status Pst Pv S2 S9) as Psl.
  rewrite Hb1, andb_true_r, S9 in Pchk, Pte.
  rewrite Ew, Ec, En, Ehead, Hhead. clear Ew Ec En. cbn [negb]. rewrite andb_true_r, Pcof. cbn [orb negb].
  exists (cfields tp). rewrite <- concat_ds.
  destruct (beqb (r_version r) (lit "1.1")) eqn:Ev.
  - rewrite ws_sem_chunked by (cbn [t_chunked set_wrote]; auto).
    cbn [snd]. rewrite Pchk.
    fold (encode_chunked (ws ++ eff kind chunks)).
    rewrite <- (app_nil_r (encode_chunked _)).
    rewrite (parse_chunked tp _ [] Hcleanp Hnc Hbp Pte).
    rewrite Psl.
    split; [reflexivity|]. split; [|split; [apply in_cfields; exact Pclose|auto]].
    intros h Hh. apply in_cfields. apply Pin. rewrite S3. exact Hh.
  - rewrite ws_sem_eof by (cbn [t_chunked t_clen set_wrote]; auto).
    cbn [snd]. rewrite Pchk, app_nil_r.
    rewrite (parse_eof tp _ Hcleanp Hnc Hbp Pte Pcl).
    rewrite Psl.
    split; [reflexivity|]. split; [|split; [apply in_cfields; exact Pclose|auto]].
    intros h Hh. apply in_cfields. apply Pin. rewrite S3. exact Hh.
Qed.

(* HEAD, no declared length, no body bytes (write(b"") and empty chunks allowed):
   the client reads the head and nothing is left over. *)
Theorem frame_head_nolen_w status hs ws kind chunks hc :
  r_error r = None -> no_handover kind ws -> len1 kind = false -> Forall (not_cl lower) hs ->
  plain_fields cap (strs_of hs) ->
  r_head r = true -> concat ws ++ produced kind chunks = [] ->
  let res := channel_service cap lower c r (wapp status hs ws kind chunks hc) None in
  o_raw res = None ->
  exists fields,
    parse_one true (wire (o_writes res)) = Some (mkResponse (sl_of status) fields FNoBody [], [])
    /\ (forall h, In h (strs_of hs) -> In (client_field (norm_field cap h)) fields)
    /\ In (client_field f_close) fields
    /\ o_close res = true /\ o_next res = false.
Proof.
  intros He Hnh Hl Hcl Hpl Hhead Hall. cbn zeta. intro Hraw.
  destruct (wapp_wire_u status hs ws kind chunks hc He Hnh) with (2 := Hraw) as (t1 & Esr & U).
  { intros t1 _. rewrite Hl. reflexivity. }
  destruct (nolen_start_facts status hs t1 Esr Hcl) as (Hclean1 & S2 & S3 & S4 & S5 & S6 & S7 & S8 & S9 & Hclen).
  cbn zeta in U. destruct U as (tp & head & Eb & Ew & Ec & En).
  { intros _. unfold toofew. rewrite Hclen. reflexivity. }
  destruct (brh_ok _ _ _ Eb) as [Etp Ehead].
  rewrite <- S3 in Hpl.
  pose proof (nolen_head_facts cap lower Hcap Hcap_te c Hc r t1 Hclean1 S6 S5 S7 Hclen Hpl) as F.
  cbn zeta in F. rewrite <- Etp in F.
  destruct F as (Hcleanp & Hnc & Pst & Pv & Pcof & Pchk & Pte & Pcl & Pin & Pclose).
  assert (Hclp : t_clen tp = None).
  { rewrite Etp. destruct (keeps_bh_prepare cap lower c r t1) as (_ & _ & K3 & _). congruence. }
  rewrite <- concat_ds in Hall.
  assert (Hbody : snd (ws_sem (set_wrote true tp) (ws ++ eff kind chunks)) = []).
  { destruct (has_body tp) eqn:Hbp.
    - destruct (t_chunked tp) eqn:Ek.
      + rewrite ws_sem_chunked by auto. cbn [snd]. apply concat_nil_encode. exact Hall.
      + rewrite ws_sem_eof by auto. exact Hall.
    - apply ws_sem_nobody. exact Hbp. }
  rewrite Ew, Ec, En, Ehead, Hhead, Hbody. clear Ew Ec En. cbn [negb]. rewrite andb_false_r, Pcof. cbn [orb negb List.app].
  exists (cfields tp).
  pose proof (parse_nobody tp true [] Hcleanp Hnc (or_introl eq_refl)) as PN. rewrite app_nil_r in *. rewrite PN.
  rewrite (first_line_sl tp t1 status Pst Pv S2 S9).
  split; [reflexivity|]. split; [|split; [apply in_cfields; exact Pclose|auto]].
  intros h Hh. apply in_cfields. apply Pin. rewrite S3. exact Hh.
Qed.

(* ---- (3) 1xx / 204 / 304 ------------------------------------------------------- *)

(* A status without a body and no declared length: whatever the application
   writes or yields is dropped; the head carries neither Transfer-Encoding nor
   Content-Length, announces "Connection: close", the client (HEAD or not) reads
   the head and nothing is left over, and the connection is closed. *)
Theorem frame_nobody_any status hs ws kind chunks hc :
  r_error r = None -> len1 kind = false -> Forall (not_cl lower) hs ->
  plain_fields cap (strs_of hs) ->
  no_body_st status = true ->
  let res := channel_service cap lower c r (wapp status hs ws kind chunks hc) None in
  o_raw res = None ->
  exists fields,
    parse_one (r_head r) (wire (o_writes res)) = Some (mkResponse (sl_of status) fields FNoBody [], [])
    /\ (forall h, In h (strs_of hs) -> In (client_field (norm_field cap h)) fields)
    /\ In (client_field f_close) fields
    /\ filter (field_is te_name) fields = [] /\ filter (field_is cl_name) fields = []
    /\ o_close res = true /\ o_next res = false
    /\ o_handover res = false /\ o_closes res = (if hc then 1 else 0)%nat.
Proof.
  intros He Hl Hcl Hpl Hst. cbn zeta. intro Hraw.
  destruct (wapp_wire_u_gen status hs ws kind chunks hc He) with (3 := Hraw) as (t1 & Esr & U).
  { right. intros t1 Esr. destruct (start_response_ok lower _ _ _ _ _ Esr) as (_ & S2 & _).
    cbn [str_of] in S2. rewrite (has_body_status t1 status S2), Hst. reflexivity. }
  { intros t1 _. rewrite Hl. reflexivity. }
  destruct (nolen_start_facts status hs t1 Esr Hcl) as (Hclean1 & S2 & S3 & S4 & S5 & S6 & S7 & S8 & S9 & Hclen).
  cbn zeta in U. destruct U as (tp & head & Eb & Ew & Ec & En & Eho & Ecs).
  { intros _. unfold toofew. rewrite Hclen. reflexivity. }
  destruct (brh_ok _ _ _ Eb) as [Etp Ehead].
  rewrite <- S3 in Hpl.
  pose proof (nolen_head_facts cap lower Hcap Hcap_te c Hc r t1 Hclean1 S6 S5 S7 Hclen Hpl) as F.
  cbn zeta in F. rewrite <- Etp in F.
  destruct F as (Hcleanp & Hnc & Pst & Pv & Pcof & Pchk & Pte & Pcl & Pin & Pclose).
  assert (Hb1 : has_body t1 = false) by (rewrite (has_body_status t1 status S2), Hst; reflexivity).
  assert (Hbp : has_body tp = false) by (unfold has_body in *; rewrite Pst; exact Hb1).
  rewrite Hb1, andb_false_r in Pchk, Pte.
  destruct (ws_sem_nobody (ws ++ eff kind chunks) (set_wrote true tp) Hbp) as [Hbody _].
  rewrite Ew, Ec, En, Ehead, Hbody, Pchk, Pcof. clear Ew Ec En. cbn [andb orb negb List.app].
  exists (cfields tp).
  pose proof (parse_nobody tp (r_head r) [] Hcleanp Hnc (or_intror Hbp)) as PN. rewrite app_nil_r in *. rewrite PN.
  rewrite (first_line_sl tp t1 status Pst Pv S2 S9).
  split; [reflexivity|]. split; [intros h Hh; apply in_cfields; apply Pin; rewrite S3; exact Hh|].
  split; [apply in_cfields; exact Pclose|].
  split; [apply cfields_filter_nil; exact Pte|]. split; [apply cfields_filter_nil; exact Pcl|]. auto.
Qed.

(* ---- (1)+(2) a declared Content-Length ----------------------------------------- *)

Section Declared.
Variables (status : str) (pre post : list (pyobj * pyobj)) (clname v : str) (cl : Z).
Variables (ws : list bytes) (kind : ikind) (chunks : list bytes) (hc : bool).
Hypothesis He : r_error r = None.
Hypothesis Hnh : no_handover kind ws.
Hypothesis Hpre : Forall (not_cl lower) pre.
Hypothesis Hpost : Forall (not_cl lower) post.
Hypothesis Hn : beqb (lower clname) (lit "content-length") = true.
Hypothesis Hv : py_int v = Some cl.
Hypothesis Hdig : all_digits v = true.
Hypothesis Hdv : Z.of_N (dec_value v) = cl.
Hypothesis Ppre : plain_fields cap (strs_of pre).
Hypothesis Ppost : plain_fields cap (strs_of post).
Hypothesis Hnorm : norm_name cap clname = lit "Content-Length".
Hypothesis Hst : no_body_st status = false.

Let hs := pre ++ (PStr clname, PStr v) :: post.
Let all := concat ws ++ produced kind chunks.
Let res := channel_service cap lower c r (wapp status hs ws kind chunks hc) None.

(* everything the three theorems below share *)
Lemma declared_common :
  o_raw res = None ->
  (ws ++ eff kind chunks = [] -> cl = 0%Z \/ r_head r = true) ->
  exists tp,
    task_clean tp /\ nocolon_rh tp /\ has_body tp = true
    /\ te_fields tp = [] /\ cl_fields tp = [(lit "Content-Length", v)]
    /\ first_line tp = sl_of status
    /\ (forall h, In h (strs_of hs) -> In (client_field (norm_field cap h)) (cfields tp))
    /\ (keep_of r = false -> In (client_field f_close) (cfields tp))
    /\ (keep_of r = true -> ~ In (client_field f_close) (cfields tp))
    /\ wire (o_writes res) = head_text tp ++ firstn (Z.to_nat cl) all
    /\ o_close res = negb (keep_of r) || (negb (Z.min cl (Z.of_nat (length all)) =? cl)%Z && negb (r_head r))
    /\ o_next res = negb (o_close res).
Proof.
  intros Hraw Hempty.
  destruct (wapp_wire_u status hs ws kind chunks hc He Hnh) with (2 := Hraw) as (t1 & Esr & U).
  { intros t1 Esr. rewrite (start_response_cl lower _ clname v cl pre post status t1 Hpost Hn Hv Esr). apply andb_false_r. }
  destruct (len_start_facts status pre clname v post cl t1 Esr Hpost Hn Hv)
    as (Hclean1 & S2 & S3 & S4 & S5 & S6 & S7 & S8 & S9 & Hclen).
  cbn zeta in U. destruct U as (tp & head & Eb & Ew & Ec & En).
  { intros Hds. unfold toofew. rewrite Hclen, S8. destruct (Hempty Hds) as [->| ->]; [reflexivity|apply andb_false_r]. }
  destruct (brh_ok _ _ _ Eb) as [Etp Ehead].
  assert (Hb1 : has_body t1 = true) by (rewrite (has_body_status t1 status S2), Hst; reflexivity).
  pose proof (len_head_facts cap lower Hcap Hcap_conn Hcap_te Hcap_cl c Hc r t1 (strs_of pre) clname v (strs_of post)
                             Hclean1 S6 S5 S7 S9 S3 Ppre Ppost Hnorm Hb1 Hdig) as F.
  cbn zeta in F. rewrite <- Etp in F.
  destruct F as (Hcleanp & Hnc & Pst & Pv & Pcof & Pchk & Pte & Pcl & Pin & Pc1 & Pc2).
  assert (Hbp : has_body tp = true) by (unfold has_body in *; rewrite Pst; exact Hb1).
  destruct (keeps_bh_prepare cap lower c r t1) as (_ & _ & K3 & K4 & _). rewrite <- Etp in K3, K4.
  assert (Hcl0 : (0 <= cl)%Z) by (rewrite <- Hdv; apply N2Z.is_nonneg).
  destruct (ws_sem_len (ws ++ eff kind chunks) (set_wrote true tp) cl) as [B1 B2];
    try (cbn [t_chunked t_clen t_cbw set_wrote]; congruence); auto.
  { cbn [t_cbw set_wrote]. rewrite K4, S8. clear - Hcl0. lia. }
  cbn [t_cbw set_wrote] in B1, B2. rewrite K4, S8, Z.sub_0_r, concat_ds in B1. rewrite K4, S8, Z.add_0_l, concat_ds in B2.
  fold all in B1, B2.
  assert (Htf : toofew r (fst (ws_sem (set_wrote true tp) (ws ++ eff kind chunks)))
                = negb (Z.min cl (Z.of_nat (length all)) =? cl)%Z && negb (r_head r)).
  { unfold toofew. destruct (ws_sem_same (ws ++ eff kind chunks) (set_wrote true tp)) as (_ & _ & _ & _ & _ & A6 & _).
    rewrite A6. cbn [t_clen set_wrote]. rewrite K3, Hclen, B2. reflexivity. }
  exists tp. split; [exact Hcleanp|]. split; [exact Hnc|]. split; [exact Hbp|]. split; [exact Pte|]. split; [exact Pcl|].
  split; [apply (first_line_sl tp t1 status Pst Pv S2 S9)|].
  split; [intros h Hh; apply in_cfields; apply Pin; rewrite S3; unfold hs in Hh; rewrite strs_of_app in Hh; exact Hh|].
  split; [intro Hk; apply in_cfields; apply Pc1; exact Hk|]. split; [exact Pc2|].
  unfold res. rewrite Ew, En, Ec, Ehead, B1, Pchk, Htf, Pcof. cbn [andb]. rewrite app_nil_r. auto.
Qed.

(* the produced bytes reach the declared length (exactly, or more: the body is cut
   there): the client reads exactly the declared number of bytes, they are the
   first bytes the application produced, nothing is left over; the connection is
   kept exactly when the head does not announce closing. *)
Theorem frame_len_cut_w :
  r_head r = false -> (cl <= Z.of_nat (length all))%Z ->
  o_raw res = None ->
  exists fields,
    parse_one false (wire (o_writes res))
    = Some (mkResponse (sl_of status) fields (FLength (dec_value v)) (firstn (N.to_nat (dec_value v)) all), [])
    /\ (forall h, In h (strs_of hs) -> In (client_field (norm_field cap h)) fields)
    /\ o_next res = keep_of r /\ o_close res = negb (keep_of r)
    /\ (keep_of r = false -> In (client_field f_close) fields)
    /\ (keep_of r = true -> ~ In (client_field f_close) fields).
Proof.
  intros Hhead Hlen Hraw.
  destruct (declared_common Hraw) as (tp & Hcleanp & Hnc & Hbp & Pte & Pcl & Psl & Pin & Pc1 & Pc2 & Ew & Ec & En).
  { intro Hds. left. pose proof (concat_ds ws kind chunks) as E. rewrite Hds in E. cbn [concat] in E. fold all in E.
    rewrite <- E in Hlen. cbn [length] in Hlen. assert (0 <= cl)%Z by (rewrite <- Hdv; apply N2Z.is_nonneg).
    clear - Hlen H. lia. }
  assert (Hn2 : Z.to_nat cl = N.to_nat (dec_value v)) by (rewrite <- Hdv; rewrite <- Z_N_nat, N2Z.id; reflexivity).
  assert (Hmin : Z.min cl (Z.of_nat (length all)) = cl) by (clear - Hlen; lia).
  rewrite En, Ec, Ew, Hmin, Z.eqb_refl, Hn2. cbn [negb andb]. rewrite orb_false_r, negb_involutive.
  exists (cfields tp).
  assert (Hbl : lenN (firstn (N.to_nat (dec_value v)) all) = dec_value v).
  { unfold lenN. rewrite firstn_length, <- Hn2. rewrite Nat.min_l by (clear - Hlen; lia). rewrite Z_nat_N, <- Hdv. apply N2Z.id. }
  pose proof (parse_length tp v _ [] Hcleanp Hnc Hbp Pte Pcl Hdig Hbl) as PL. rewrite app_nil_r in PL.
  rewrite PL, Psl. repeat split; auto.
Qed.

(* fewer bytes than declared (at least one write() call or non-empty chunk): the
   response cannot be delimited as announced.  The client has read status line and
   fields, is still waiting for the missing bytes (parse_one = None on what was
   sent; for every completion [pad] of the missing length it would read
   produced ++ pad), and the connection is closed, not reused. *)
Theorem frame_len_short_w :
  r_head r = false -> (Z.of_nat (length all) < cl)%Z -> ws ++ eff kind chunks <> [] ->
  o_raw res = None ->
  exists fields,
    parse_one false (wire (o_writes res)) = None
    /\ (forall pad, lenN (all ++ pad) = dec_value v ->
          parse_one false (wire (o_writes res) ++ pad)
          = Some (mkResponse (sl_of status) fields (FLength (dec_value v)) (all ++ pad), []))
    /\ (forall h, In h (strs_of hs) -> In (client_field (norm_field cap h)) fields)
    /\ o_close res = true /\ o_next res = false.
Proof.
  intros Hhead Hlen Hds Hraw.
  destruct (declared_common Hraw) as (tp & Hcleanp & Hnc & Hbp & Pte & Pcl & Psl & Pin & Pc1 & Pc2 & Ew & Ec & En).
  { intro X. contradiction. }
  assert (Hmin : Z.min cl (Z.of_nat (length all)) = Z.of_nat (length all)) by (clear - Hlen; lia).
  assert (Hne : (Z.of_nat (length all) =? cl)%Z = false) by (apply Z.eqb_neq; clear - Hlen; lia).
  rewrite En, Ec, Ew, Hmin, Hne, Hhead. cbn [negb andb]. rewrite orb_true_r.
  rewrite firstn_all2 by (clear - Hlen; lia).
  exists (cfields tp). split; [|split; [|split; [exact Pin|auto]]].
  - apply (parse_length_short tp v all Hcleanp Hnc Hbp Pte Pcl Hdig).
    unfold lenN. apply N2Z.inj_lt. rewrite Hdv, nat_N_Z. exact Hlen.
  - intros pad Hpad. rewrite <- app_assoc.
    pose proof (parse_length tp v (all ++ pad) [] Hcleanp Hnc Hbp Pte Pcl Hdig Hpad) as PL. rewrite app_nil_r in PL.
    rewrite PL, Psl. reflexivity.
Qed.

(* HEAD with a declared length (the length of the entity a GET would return) and
   no body bytes: the client reads the head, nothing is left over, and the
   connection is kept exactly when the head does not announce closing. *)
Theorem frame_head_len_w :
  r_head r = true -> all = [] ->
  o_raw res = None ->
  exists fields,
    parse_one true (wire (o_writes res)) = Some (mkResponse (sl_of status) fields FNoBody [], [])
    /\ (forall h, In h (strs_of hs) -> In (client_field (norm_field cap h)) fields)
    /\ o_next res = keep_of r /\ o_close res = negb (keep_of r)
    /\ (keep_of r = false -> In (client_field f_close) fields)
    /\ (keep_of r = true -> ~ In (client_field f_close) fields).
Proof.
  intros Hhead Hall Hraw.
  destruct (declared_common Hraw) as (tp & Hcleanp & Hnc & Hbp & Pte & Pcl & Psl & Pin & Pc1 & Pc2 & Ew & Ec & En).
  { intro Hds. right. exact Hhead. }
  rewrite En, Ec, Ew, Hall, Hhead, firstn_nil. cbn [negb]. rewrite andb_false_r, orb_false_r, negb_involutive.
  exists (cfields tp).
  pose proof (parse_nobody tp true [] Hcleanp Hnc (or_introl eq_refl)) as PN. rewrite PN, Psl.
  repeat split; auto.
Qed.

End Declared.

End End2.
