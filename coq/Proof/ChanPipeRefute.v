(* Proof/ChanPipeRefute.v -- finding F18 (repaired by 8bcf05e) in the model: for the PREVIOUS shape of
   handle_write (p_unlocked = true: `if not self.requests: flush = self._flush_some`, without
   outbuf_lock) the wire statement is false.  The schedule is the one found on the then real code
   (harness.chanpipe.F18_CHOICES), reduced to its essential steps: the worker's send_continue() and
   the I/O thread's unlocked _flush_some both fetch the same chunk (the response to request 0
   followed by the interim response for request 1) and both send it.  The same schedule on the
   current shape (p_unlocked = false) is harmless: the I/O thread's try-acquire fails. *)
From Coq Require Import List Arith Bool ZArith.
From WV Require Import Model.ChanPipe Proof.ChanPipeBase Proof.ChanPipeOwn Proof.ChanPipeLog
                       Proof.ChanPipeOut Proof.ChanPipeOutStep Proof.ChanPipeSpec.
Import ListNotations.

(* GET /a (one write_soon of 5 bytes) pipelined with the head of POST /b, Expect: 100-continue,
   body not yet sent; one worker; lookahead 0; send_bytes 1; "100 Continue" abbreviated to 2 bytes *)
Definition P18 : params :=
  {| p_look := 0; p_sb := 1%Z; p_clen := 2; p_nw := 1; p_unlocked := true;
     p_script := [ {| r_expect := false; r_nobody := false; r_writes := [5]; r_close := false |};
                   {| r_expect := true; r_nobody := false; r_writes := [3]; r_close := false |} ] |}.

Definition sched18 : list choice :=
  (* I/O: one poll turn, recv() delivers request 0 and the head of request 1, received() queues
     request 0 and submits the channel; request 1 waits in self.request (no 100 Continue yet:
     a request is queued) *)
  repeat (CIo ENone) 7 ++ [CIo (ESel true false); CIo ENone; CIo (ERecv 2 false)] ++ repeat (CIo ENone) 17 ++
  (* worker 0: takes the channel, serves request 0; the client accepts nothing yet (send -> 0);
     keep branch: pops request 0, requests == [], self.request expects: send_continue() --
     acquires outbuf_lock, appends the interim response, enters _flush_some and fetches the chunk *)
  repeat (CWk 0 ENone) 15 ++ [CWk 0 (ESend 5 0)] ++ repeat (CWk 0 ENone) 13 ++
  (* I/O: writable; handle_write reads requests == [] and runs _flush_some WITHOUT the lock:
     fetches the same chunk and sends all 7 bytes *)
  [CIo ENone; CIo (ESel false true); CIo ENone; CIo ENone; CIo ENone; CIo ENone; CIo (ESend 7 7)] ++
  (* worker 0: sends the chunk it had fetched: the same 7 bytes again *)
  [CWk 0 ENone; CWk 0 (ESend 7 7)].

Definition chunk18 : list tok := resp_toks 0 0 5 ++ cont_toks P18 1.

Lemma f18_wire : wire (sh (run P18 sched18)) = chunk18 ++ chunk18.
Proof. vm_compute. reflexivity. Qed.

Lemma f18_produced : produced (sh (run P18 sched18)) = chunk18.
Proof. vm_compute. reflexivity. Qed.

Lemma f18_class : wsc (sh (run P18 sched18)) = true.
Proof. vm_compute. reflexivity. Qed.

(* the other C04 statements hold in that state (they hold in every state) *)
Lemma f18_rest : once_ok (run P18 sched18) = true /\ one_ok P18 (run P18 sched18) = true /\
                 entry_ok P18 (run P18 sched18) = true.
Proof. vm_compute. auto. Qed.

Theorem wire_refuted_old : exists P sched, p_unlocked P = true /\ ~ wire_statement P (run P sched).
Proof.
  exists P18, sched18. split; [reflexivity|]. intros [H _].
  assert (L : length (wire (sh (run P18 sched18)) ++ pending (sh (run P18 sched18)))
              = length (kept (sh (run P18 sched18)))) by (rewrite H; reflexivity).
  vm_compute in L. discriminate.
Qed.

(* the repaired shape under the same schedule: the try-acquire of the I/O thread fails (the worker
   holds outbuf_lock), nothing is sent twice *)
Definition P18_fixed : params :=
  {| p_look := 0; p_sb := 1%Z; p_clen := 2; p_nw := 1; p_unlocked := false; p_script := p_script P18 |}.

Lemma f18_fixed_wire : wire (sh (run P18_fixed sched18)) = chunk18.
Proof. vm_compute. reflexivity. Qed.
