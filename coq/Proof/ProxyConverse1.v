(* C16 extension, part 1: header parsing and hop selection of the model in closed
   form.  Every block of parse_proxy_headers either refuses (exactly on the
   category named in Spec.ProxySpec.refusal_reason) or continues with a state
   given by an explicit expression over the specification vocabulary. *)
From Coq Require Import String.
From Coq Require Import List NArith ZArith Bool Lia.
From WV Require Import Lib.PyBytes Lib.PyStrProxy Lib.Regex Lib.RegexDec Gen.GenRegex Spec.Grammar Model.Proxy
  Spec.ProxySpec Proof.ProxyDict Proof.ProxyStr Proof.ProxyStages Proof.ProxyTotal Proof.ProxyHops
  Proof.ProxyCats Proof.ProxyUnq.
Import ListNotations.
Local Open Scope N_scope.

(* ---- the text of a quoted-string: the specification's reading is the model's ------------------ *)
Lemma unq_text_text c t : c <> 92 -> unq_text (c :: t) = c :: unq_text t.
Proof.
  intro Hc. destruct t as [|d t]; [reflexivity|].
  cbn [unq_text]. destruct (c =? 92) eqn:E; [apply N.eqb_eq in E; congruence|reflexivity].
Qed.

Lemma Unq_unq_text s t : Unq s t -> unq_text s = t.
Proof.
  induction 1 as [|c s t Hc _ IH|c s t Hc _ IH].
  - reflexivity.
  - rewrite unq_text_text; [rewrite IH; reflexivity|].
    intro E. subst c. vm_compute in Hc. discriminate.
  - cbn [unq_text]. rewrite IH. reflexivity.
Qed.

Lemma undquote_value v :
  undquote v = if bad_quoting v then Exn ValueError else Ok (field_value v).
Proof.
  rewrite undquote_spec. destruct (bad_quoting v) eqn:Eb; [reflexivity|].
  unfold field_value. destruct (starts_dq v) eqn:Es; [|reflexivity].
  f_equal. unfold bad_quoting in Eb. rewrite Es in Eb. cbn [orb andb] in Eb. apply negb_false_iff in Eb.
  destruct (undquote_quoted v Eb) as (body & -> & u & Hu & HU).
  rewrite undquote_spec in Hu. unfold bad_quoting in Hu. rewrite Eb, andb_false_r in Hu.
  change (starts_dq (34 :: body ++ [34])) with true in Hu. cbv iota in Hu. injection Hu as Hu.
  rewrite Hu. symmetry. unfold mid. cbn [tl]. rewrite removelast_last. apply Unq_unq_text. exact HU.
Qed.

(* ---- monadic traversals that fail on a decidable class ------------------------------------------ *)
Lemma mapM_decide {A B} (f : A -> result B) (bad : A -> bool) (g : A -> B) e0 :
  (forall x, f x = if bad x then Exn e0 else Ok (g x)) ->
  forall l, mapM f l = if existsb bad l then Exn e0 else Ok (map g l).
Proof.
  intros Hf. induction l as [|x l IH]; [reflexivity|].
  cbn [mapM existsb map]. rewrite Hf. destruct (bad x); [reflexivity|]. cbn [bind orb].
  rewrite IH. destruct (existsb bad l); reflexivity.
Qed.

Lemma foldM_decide {A B} (f : A -> B -> result A) (bad : B -> bool) (g : A -> B -> A) e0 :
  (forall a x, f a x = if bad x then Exn e0 else Ok (g a x)) ->
  forall l a, foldM f a l = if existsb bad l then Exn e0 else Ok (fold_left g l a).
Proof.
  intros Hf. induction l as [|x l IH]; intro a; [reflexivity|].
  cbn [foldM existsb fold_left]. rewrite Hf. destruct (bad x); [reflexivity|]. cbn [bind orb]. apply IH.
Qed.

(* ---- the trusted suffix of a mapped list ---------------------------------------------------------- *)
Lemma skipn_map' {A B} (g : A -> B) n l : skipn n (map g l) = map g (skipn n l).
Proof. revert l. induction n as [|n IH]; intro l; [reflexivity|]. destruct l; [reflexivity|]. apply IH. Qed.

Lemma suffix_map {A B} (g : A -> B) l k : suffix (map g l) k = map g (suffix l k).
Proof. unfold suffix. rewrite map_length. apply skipn_map'. Qed.

Lemma elements_nonempty raw : elements raw <> [].
Proof. apply split_nonempty. Qed.

Lemma suffix_elements raw p : exists x r, suffix (elements raw) (Pos.to_nat p) = x :: r /\ picked raw (Pos.to_nat p) = x.
Proof.
  pose proof (suffix_nonempty (elements raw) (Pos.to_nat p) (elements_nonempty raw)) as Hn.
  assert (Hp : (1 <= Pos.to_nat p)%nat) by lia. specialize (Hn Hp).
  destruct (suffix (elements raw) (Pos.to_nat p)) as [|x r] eqn:E; [congruence|].
  exists x, r. split; [reflexivity|]. unfold picked. rewrite <- suffix_hd, E. reflexivity.
Qed.

Lemma index0_lastk {B} (g : str -> B) raw p :
  hd_error (py_lastk (map g (elements raw)) (Zpos p)) = Some (g (picked raw (Pos.to_nat p))).
Proof.
  rewrite py_lastk_pos, suffix_map. destruct (suffix_elements raw p) as (x & r & -> & ->). reflexivity.
Qed.

Lemma index0_ok (l : list str) x : hd_error l = Some x -> index0 l = Ok x.
Proof. destruct l; simpl; congruence. Qed.

(* ---- the names of the specification are the literals of the model --------------------------------- *)
Lemma trusts_has tph name : trusts tph name = has tph name.
Proof. reflexivity. Qed.

Lemma hdr_header_or_empty key e : hdr key e = header_or_empty key e.
Proof. reflexivity. Qed.

(* ---- X-Forwarded-For ------------------------------------------------------------------------------- *)
Lemma xff_hop_value h :
  xff_hop h = if bad_quoting (strip h) then Exn ValueError else Ok (xff_address h).
Proof.
  unfold xff_hop, xff_address. rewrite undquote_value.
  destruct (bad_quoting (strip h)); [reflexivity|]. cbn [bind]. cbv zeta.
  set (v := field_value (strip h)). unfold has_char. change c_dot with dot. change c_colon with colon.
  destruct (negb (memb dot v) && memb colon v) eqn:E; [|reflexivity].
  apply andb_true_iff in E as [_ E].
  assert (Hv : truthy v = true) by (destruct v; [discriminate|reflexivity]).
  destruct (last_opt_truthy v Hv) as [l Hl]. unfold ends_with_char. rewrite Hl. change c_rbr with rbr.
  destruct (l =? rbr); reflexivity.
Qed.

Definition u_without_for (u : uset) : uset :=
  {| u_for := false; u_host := u_host u; u_proto := u_proto u; u_port := u_port u; u_by := u_by u; u_fwd := u_fwd u |}.
Definition u_without_host (u : uset) : uset :=
  {| u_for := u_for u; u_host := false; u_proto := u_proto u; u_port := u_port u; u_by := u_by u; u_fwd := u_fwd u |}.
Definition u_without_proto (u : uset) : uset :=
  {| u_for := u_for u; u_host := u_host u; u_proto := false; u_port := u_port u; u_by := u_by u; u_fwd := u_fwd u |}.
Definition u_without_port (u : uset) : uset :=
  {| u_for := u_for u; u_host := u_host u; u_proto := u_proto u; u_port := false; u_by := u_by u; u_fwd := u_fwd u |}.
Definition u_without_by (u : uset) : uset :=
  {| u_for := u_for u; u_host := u_host u; u_proto := u_proto u; u_port := u_port u; u_by := false; u_fwd := u_fwd u |}.

Definition pure_xff (p : positive) (tph : list str) (s : pst) : pst :=
  if has tph n_xff then
    match lookup k_xff (env s) with
    | Some raw =>
      {| env := set k_xff (pruned raw (Pos.to_nat p)) (env s);
         client := Some (xff_address (picked raw (Pos.to_nat p)));
         fhost := fhost s; fproto := fproto s; fport := fport s; fwd := fwd s; unt := u_without_for (unt s) |}
    | None => s
    end
  else s.
Definition xff_refused (tph : list str) (s : pst) : bool :=
  has tph n_xff && match lookup k_xff (env s) with Some raw => cat_list_quoting raw | None => false end.

Lemma blk_xff_exact p tph s : u_for (unt s) = true ->
  blk_xff (Zpos p) tph s = if xff_refused tph s then Malformed h_xff else Ok (pure_xff p tph s).
Proof.
  intro Hu. unfold blk_xff, xff_refused, pure_xff. destruct (has tph n_xff); [|reflexivity]. cbn [andb].
  destruct (lookup k_xff (env s)) as [raw|]; [|reflexivity].
  cbv zeta. rewrite (mapM_decide xff_hop _ _ _ xff_hop_value).
  unfold cat_list_quoting. change comma with c_comma.
  destruct (existsb (fun h => bad_quoting (strip h)) (split raw [c_comma])); [reflexivity|].
  cbn [bind]. change (split raw [c_comma]) with (elements raw).
  rewrite (index0_ok _ _ (index0_lastk xff_address raw p)). cbn [bind].
  unfold rm_for. rewrite Hu. cbn [bind catch_all].
  unfold pruned, elements. rewrite py_lastk_pos. reflexivity.
Qed.

(* ---- X-Forwarded-Host ------------------------------------------------------------------------------- *)
Lemma xfh_hop_value h :
  xfh_hop h = if bad_quoting (strip h) then Exn ValueError else Ok (field_value (strip h)).
Proof. unfold xfh_hop. apply undquote_value. Qed.

Definition pure_xfh (p : positive) (tph : list str) (s : pst) : pst :=
  if has tph n_xfh then
    match lookup k_xfh (env s) with
    | Some raw =>
      {| env := set k_xfh (pruned raw (Pos.to_nat p)) (env s);
         client := client s;
         fhost := field_value (strip (picked raw (Pos.to_nat p)));
         fproto := fproto s; fport := fport s; fwd := fwd s; unt := u_without_host (unt s) |}
    | None => s
    end
  else s.
Definition xfh_refused (tph : list str) (s : pst) : bool :=
  has tph n_xfh && match lookup k_xfh (env s) with Some raw => cat_list_quoting raw | None => false end.

Lemma blk_xfh_exact p tph s : u_host (unt s) = true ->
  blk_xfh (Zpos p) tph s = if xfh_refused tph s then Malformed h_xfh else Ok (pure_xfh p tph s).
Proof.
  intro Hu. unfold blk_xfh, xfh_refused, pure_xfh. destruct (has tph n_xfh); [|reflexivity]. cbn [andb].
  destruct (lookup k_xfh (env s)) as [raw|]; [|reflexivity].
  cbv zeta. rewrite (mapM_decide xfh_hop _ _ _ xfh_hop_value).
  unfold cat_list_quoting. change comma with c_comma.
  destruct (existsb (fun h => bad_quoting (strip h)) (split raw [c_comma])); [reflexivity|].
  cbn [bind]. change (split raw [c_comma]) with (elements raw).
  rewrite (index0_ok _ _ (index0_lastk (fun h => field_value (strip h)) raw p)). cbn [bind].
  unfold rm_host. rewrite Hu. cbn [bind catch_all].
  unfold pruned, elements. rewrite py_lastk_pos. reflexivity.
Qed.

(* ---- the single-valued headers ------------------------------------------------------------------------ *)
Lemma single_value_exact key e :
  single_value key e =
  if cat_single_quoting (hdr key e) then Exn ValueError
  else if cat_several_values (hdr key e) then Exn ValueError else Ok (field_value (hdr key e)).
Proof.
  unfold single_value, cat_single_quoting, cat_several_values. fold (hdr key e).
  pose proof (comma_survives (hdr key e)) as Hc.
  rewrite undquote_value in *. destruct (bad_quoting (hdr key e)); [reflexivity|]. cbn [bind].
  rewrite (Hc _ eq_refl). destruct (memb comma (hdr key e)); reflexivity.
Qed.

Lemma hdr_absent_good key e : lookup key e = None ->
  cat_single_quoting (hdr key e) = false /\ cat_several_values (hdr key e) = false.
Proof. intro H. unfold hdr. rewrite H. split; reflexivity. Qed.

Definition single_refused (name key : str) (tph : list str) (s : pst) : bool :=
  has tph name && (cat_single_quoting (hdr key (env s)) || cat_several_values (hdr key (env s))).

Definition pure_proto (tph : list str) (s : pst) : pst :=
  if has tph n_xfproto then
    {| env := env s; client := client s; fhost := fhost s; fproto := field_value (hdr k_xfproto (env s));
       fport := fport s; fwd := fwd s; unt := u_without_proto (unt s) |}
  else s.

Lemma blk_proto_exact tph s : u_proto (unt s) = true ->
  blk_proto tph s = if single_refused n_xfproto k_xfproto tph s then Malformed h_xfproto else Ok (pure_proto tph s).
Proof.
  intro Hu. unfold blk_proto, single_refused, pure_proto. destruct (has tph n_xfproto); [|reflexivity]. cbn [andb].
  rewrite single_value_exact. unfold handler_single.
  destruct (lookup k_xfproto (env s)) as [v|] eqn:El.
  - destruct (cat_single_quoting (hdr k_xfproto (env s))); [reflexivity|].
    destruct (cat_several_values (hdr k_xfproto (env s))); [reflexivity|].
    cbn [bind orb]. unfold rm_proto. rewrite Hu. reflexivity.
  - destruct (hdr_absent_good _ _ El) as [-> ->]. cbn [bind orb]. unfold rm_proto. rewrite Hu. reflexivity.
Qed.

Definition pure_port (tph : list str) (s : pst) : pst :=
  if has tph n_xfport then
    {| env := env s; client := client s; fhost := fhost s; fproto := fproto s;
       fport := field_value (hdr k_xfport (env s)); fwd := fwd s; unt := u_without_port (unt s) |}
  else s.

Lemma blk_port_exact tph s : u_port (unt s) = true ->
  blk_port tph s = if single_refused n_xfport k_xfport tph s then Malformed h_xfport else Ok (pure_port tph s).
Proof.
  intro Hu. unfold blk_port, single_refused, pure_port. destruct (has tph n_xfport); [|reflexivity]. cbn [andb].
  rewrite single_value_exact. unfold handler_single.
  destruct (lookup k_xfport (env s)) as [v|] eqn:El.
  - destruct (cat_single_quoting (hdr k_xfport (env s))); [reflexivity|].
    destruct (cat_several_values (hdr k_xfport (env s))); [reflexivity|].
    cbn [bind orb]. unfold rm_port. rewrite Hu. reflexivity.
  - destruct (hdr_absent_good _ _ El) as [-> ->]. cbn [bind orb]. unfold rm_port. rewrite Hu. reflexivity.
Qed.

Definition pure_by (tph : list str) (s : pst) : pst :=
  if has tph n_xfby then
    {| env := env s; client := client s; fhost := fhost s; fproto := fproto s; fport := fport s; fwd := fwd s;
       unt := u_without_by (unt s) |}
  else s.

Lemma blk_by_exact tph s : u_by (unt s) = true -> blk_by tph s = Ok (pure_by tph s).
Proof.
  intro Hu. unfold blk_by, pure_by. destruct (has tph n_xfby); [|reflexivity].
  unfold rm_by. rewrite Hu. reflexivity.
Qed.

(* ---- Forwarded: one pair, one element ---------------------------------------------------------------------- *)
(* what an accepted (case-folded) pair does to the fields of its element *)
Definition upd_pair (acc : forwarded_t) (q : str) : forwarded_t :=
  if memb eqc q then
    let t := pair_token q in
    let v := field_value (pair_value q) in
    if beqb t s_by then {| f_by := v; f_for := f_for acc; f_host := f_host acc; f_proto := f_proto acc |}
    else if beqb t s_for then {| f_by := f_by acc; f_for := v; f_host := f_host acc; f_proto := f_proto acc |}
    else if beqb t s_host then {| f_by := f_by acc; f_for := f_for acc; f_host := v; f_proto := f_proto acc |}
    else if beqb t s_proto then {| f_by := f_by acc; f_for := f_for acc; f_host := f_host acc; f_proto := v |}
    else acc
  else acc.

Lemma fwd_pair_exact acc p :
  fwd_pair acc p = if pair_bad (lower_latin1 p) then Exn ValueError else Ok (upd_pair acc (lower_latin1 p)).
Proof.
  unfold fwd_pair, pair_bad, cat_pair_no_eq, cat_pair_padded, cat_pair_quoting, upd_pair, pair_token, pair_value.
  set (q := lower_latin1 p). destruct (truthy q) eqn:Et; cbn [negb].
  2:{ apply truthy_false in Et. rewrite Et. reflexivity. }
  rewrite partition_char. change c_eq with eqc. destruct (memb eqc q) eqn:Em.
  2:{ cbn. reflexivity. }
  rewrite beqb_refl. cbn [negb andb orb].
  destruct (beqb (strip (take_until eqc q)) (take_until eqc q)); cbn [negb orb]; [|reflexivity].
  destruct (beqb (strip (drop_through eqc q)) (drop_through eqc q)); cbn [negb orb]; [|reflexivity].
  unfold known_token. change t_by with s_by. change t_for with s_for. change t_host with s_host. change t_proto with s_proto.
  cbv zeta. rewrite undquote_value.
  destruct (beqb (take_until eqc q) s_by); cbn [orb andb].
  { destruct (bad_quoting (drop_through eqc q)); reflexivity. }
  destruct (beqb (take_until eqc q) s_for); cbn [orb andb].
  { destruct (bad_quoting (drop_through eqc q)); reflexivity. }
  destruct (beqb (take_until eqc q) s_host); cbn [orb andb].
  { destruct (bad_quoting (drop_through eqc q)); reflexivity. }
  destruct (beqb (take_until eqc q) s_proto); cbn [orb andb].
  { destruct (bad_quoting (drop_through eqc q)); reflexivity. }
  reflexivity.
Qed.

Definition element_fields (el : str) : forwarded_t :=
  fold_left (fun acc p => upd_pair acc (lower_latin1 p)) (split (strip el) [semi]) fwd_empty.

Lemma fwd_element_exact el :
  fwd_element el = if element_bad el then Exn ValueError else Ok (element_fields el).
Proof.
  unfold fwd_element, element_bad, element_fields. change semi with c_semi.
  apply (foldM_decide fwd_pair (fun p => pair_bad (lower_latin1 p)) (fun acc p => upd_pair acc (lower_latin1 p))).
  apply fwd_pair_exact.
Qed.

(* the fields of an element are the specification's fwd_field, name by name *)
Lemma fold_proj (g : forwarded_t -> str) (name : str) :
  (forall acc q, g (upd_pair acc q) =
                 if memb eqc q && beqb (pair_token q) name then field_value (pair_value q) else g acc) ->
  forall l a, g (fold_left (fun acc p => upd_pair acc (lower_latin1 p)) l a) =
              fold_left (fun acc p => let q := lower_latin1 p in
                                      if memb eqc q && beqb (pair_token q) name then field_value (pair_value q) else acc)
                        l (g a).
Proof.
  intros Hg. induction l as [|x l IH]; intro a; [reflexivity|].
  cbn [fold_left]. rewrite IH, Hg. reflexivity.
Qed.

Ltac tok_cases :=
  repeat match goal with
  | |- context [beqb ?t ?lit] =>
    lazymatch lit with
    | s_by => idtac | s_for => idtac | s_host => idtac | s_proto => idtac
    | t_by => idtac | t_for => idtac | t_host => idtac | t_proto => idtac
    end;
    let E := fresh "E" in
    destruct (beqb t lit) eqn:E;
    [apply beqb_eq in E; rewrite ?E; cbn [f_by f_for f_host f_proto]|]
  end.

Lemma upd_for acc q : f_for (upd_pair acc q) =
  if memb eqc q && beqb (pair_token q) t_for then field_value (pair_value q) else f_for acc.
Proof.
  unfold upd_pair. destruct (memb eqc q); [|reflexivity]. cbn [andb]. cbv zeta.
  change t_for with s_for.
  destruct (beqb (pair_token q) s_by) eqn:E1.
  { apply beqb_eq in E1. rewrite E1. reflexivity. }
  destruct (beqb (pair_token q) s_for); [reflexivity|].
  destruct (beqb (pair_token q) s_host); [reflexivity|].
  destruct (beqb (pair_token q) s_proto); reflexivity.
Qed.

Lemma upd_host acc q : f_host (upd_pair acc q) =
  if memb eqc q && beqb (pair_token q) t_host then field_value (pair_value q) else f_host acc.
Proof.
  unfold upd_pair. destruct (memb eqc q); [|reflexivity]. cbn [andb]. cbv zeta.
  change t_host with s_host.
  destruct (beqb (pair_token q) s_by) eqn:E1.
  { apply beqb_eq in E1. rewrite E1. reflexivity. }
  destruct (beqb (pair_token q) s_for) eqn:E2.
  { apply beqb_eq in E2. rewrite E2. reflexivity. }
  destruct (beqb (pair_token q) s_host); [reflexivity|].
  destruct (beqb (pair_token q) s_proto); reflexivity.
Qed.

Lemma upd_proto acc q : f_proto (upd_pair acc q) =
  if memb eqc q && beqb (pair_token q) t_proto then field_value (pair_value q) else f_proto acc.
Proof.
  unfold upd_pair. destruct (memb eqc q); [|reflexivity]. cbn [andb]. cbv zeta.
  change t_proto with s_proto.
  destruct (beqb (pair_token q) s_by) eqn:E1.
  { apply beqb_eq in E1. rewrite E1. reflexivity. }
  destruct (beqb (pair_token q) s_for) eqn:E2.
  { apply beqb_eq in E2. rewrite E2. reflexivity. }
  destruct (beqb (pair_token q) s_host) eqn:E3.
  { apply beqb_eq in E3. rewrite E3. reflexivity. }
  destruct (beqb (pair_token q) s_proto); reflexivity.
Qed.

Lemma element_for el : f_for (element_fields el) = fwd_field t_for el.
Proof. unfold element_fields, fwd_field. rewrite (fold_proj f_for t_for upd_for). reflexivity. Qed.
Lemma element_host el : f_host (element_fields el) = fwd_field t_host el.
Proof. unfold element_fields, fwd_field. rewrite (fold_proj f_host t_host upd_host). reflexivity. Qed.
Lemma element_proto el : f_proto (element_fields el) = fwd_field t_proto el.
Proof. unfold element_fields, fwd_field. rewrite (fold_proj f_proto t_proto upd_proto). reflexivity. Qed.

Lemma oldest_fields (g : forwarded_t -> str) name raw p :
  (forall el, g (element_fields el) = fwd_field name el) ->
  first_nonempty (map g (py_lastk (map element_fields (elements raw)) (Zpos p))) = fwd_oldest name raw (Pos.to_nat p).
Proof.
  intro Hg. rewrite py_lastk_pos, suffix_map, map_map. unfold fwd_oldest. f_equal.
  apply map_ext. exact Hg.
Qed.

(* ---- Forwarded: the block ------------------------------------------------------------------------------------ *)
Definition pure_fwd (p : positive) (s : pst) : pst :=
  match fwd s with
  | Some (c :: raw') =>
    let raw := c :: raw' in
    let k := Pos.to_nat p in
    {| env := set k_fwd (pruned raw k) (env s);
       client := match fwd_oldest t_for raw k with [] => client s | x => Some x end;
       fhost := fwd_oldest t_host raw k;
       fproto := fwd_oldest t_proto raw k;
       fport := []; fwd := fwd s; unt := unt s |}
  | _ => s
  end.
Definition fwd_refused (s : pst) : bool :=
  match fwd s with Some (c :: raw') => cat_forwarded (c :: raw') | _ => false end.

Lemma blk_forwarded_exact p s : fwd_precond s ->
  blk_forwarded (Zpos p) s = if fwd_refused s then Malformed h_fwd else Ok (pure_fwd p s).
Proof.
  intro Hp. unfold blk_forwarded, fwd_refused, pure_fwd.
  destruct (fwd s) as [[|c raw']|] eqn:Ef; try reflexivity.
  set (raw := c :: raw'). cbv zeta.
  assert (Hl : lookup k_fwd (env s) <> None) by (apply Hp; rewrite Ef; reflexivity).
  rewrite (mapM_decide fwd_element _ _ _ fwd_element_exact).
  unfold cat_forwarded. change comma with c_comma.
  destruct (existsb element_bad (split raw [c_comma])) eqn:Eb.
  - destruct (lookup k_fwd (env s)); [reflexivity|congruence].
  - cbn [bind]. rewrite fwd_fill_fold.
    change (split raw [c_comma]) with (elements raw).
    rewrite (oldest_fields f_for t_for raw p element_for), (oldest_fields f_host t_host raw p element_host),
      (oldest_fields f_proto t_proto raw p element_proto).
    (* the loop variables after the loop: the fields of the last element, which is in the suffix *)
    assert (Hne : map element_fields (elements raw) <> []).
    { intro H. apply map_eq_nil in H. eapply elements_nonempty; eauto. }
    assert (Hk : (1 <= Pos.to_nat p)%nat) by lia.
    assert (Hsuf : suffix (map element_fields (elements raw)) (Pos.to_nat p) <> []) by (apply suffix_nonempty; auto).
    rewrite <- (suffix_last _ (Pos.to_nat p) fwd_empty Hne Hk).
    pose proof (first_nonempty_default _ f_host Hsuf) as Dh.
    pose proof (first_nonempty_default _ f_proto Hsuf) as Dp.
    rewrite <- !py_lastk_pos in Dh, Dp.
    rewrite (oldest_fields f_host t_host raw p element_host) in Dh.
    rewrite (oldest_fields f_proto t_proto raw p element_proto) in Dp.
    rewrite <- py_lastk_pos. rewrite Dh, Dp.
    unfold pruned, elements. rewrite py_lastk_pos. reflexivity.
Qed.

(* ---- the whole of header parsing and hop selection -------------------------------------------------------------- *)
Definition sel_state (p : positive) (tph : list str) (e : environ) : pst :=
  pure_fwd p (blk_fwd_get tph (pure_by tph (pure_port tph (pure_proto tph (pure_xfh p tph (pure_xff p tph (init_pst e))))))).

(* projections of the pure blocks *)
Lemma pure_xff_unt p tph s :
  u_host (unt (pure_xff p tph s)) = u_host (unt s) /\ u_proto (unt (pure_xff p tph s)) = u_proto (unt s) /\
  u_port (unt (pure_xff p tph s)) = u_port (unt s) /\ u_by (unt (pure_xff p tph s)) = u_by (unt s).
Proof. unfold pure_xff. destruct (has tph n_xff); [|auto]. destruct (lookup k_xff (env s)); auto. Qed.

Lemma pure_xfh_unt p tph s :
  u_for (unt (pure_xfh p tph s)) = u_for (unt s) /\ u_proto (unt (pure_xfh p tph s)) = u_proto (unt s) /\
  u_port (unt (pure_xfh p tph s)) = u_port (unt s) /\ u_by (unt (pure_xfh p tph s)) = u_by (unt s).
Proof. unfold pure_xfh. destruct (has tph n_xfh); [|auto]. destruct (lookup k_xfh (env s)); auto. Qed.

Lemma pure_proto_unt tph s :
  u_for (unt (pure_proto tph s)) = u_for (unt s) /\ u_host (unt (pure_proto tph s)) = u_host (unt s) /\
  u_port (unt (pure_proto tph s)) = u_port (unt s) /\ u_by (unt (pure_proto tph s)) = u_by (unt s).
Proof. unfold pure_proto. destruct (has tph n_xfproto); auto. Qed.

Lemma pure_port_unt tph s :
  u_for (unt (pure_port tph s)) = u_for (unt s) /\ u_host (unt (pure_port tph s)) = u_host (unt s) /\
  u_proto (unt (pure_port tph s)) = u_proto (unt s) /\ u_by (unt (pure_port tph s)) = u_by (unt s).
Proof. unfold pure_port. destruct (has tph n_xfport); auto. Qed.

Lemma pure_xff_env p tph s key : beqb key k_xff = false -> lookup key (env (pure_xff p tph s)) = lookup key (env s).
Proof.
  intro H. unfold pure_xff. destruct (has tph n_xff); [|reflexivity].
  destruct (lookup k_xff (env s)); [|reflexivity]. cbn [env]. apply lookup_set_other. exact H.
Qed.

Lemma pure_xfh_env p tph s key : beqb key k_xfh = false -> lookup key (env (pure_xfh p tph s)) = lookup key (env s).
Proof.
  intro H. unfold pure_xfh. destruct (has tph n_xfh); [|reflexivity].
  destruct (lookup k_xfh (env s)); [|reflexivity]. cbn [env]. apply lookup_set_other. exact H.
Qed.

Lemma pure_proto_env tph s : env (pure_proto tph s) = env s.
Proof. unfold pure_proto. destruct (has tph n_xfproto); reflexivity. Qed.
Lemma pure_port_env tph s : env (pure_port tph s) = env s.
Proof. unfold pure_port. destruct (has tph n_xfport); reflexivity. Qed.
Lemma pure_by_env tph s : env (pure_by tph s) = env s.
Proof. unfold pure_by. destruct (has tph n_xfby); reflexivity. Qed.

Lemma pure_xff_fwd p tph s : fwd (pure_xff p tph s) = fwd s.
Proof. unfold pure_xff. destruct (has tph n_xff); [|reflexivity]. destruct (lookup k_xff (env s)); reflexivity. Qed.
Lemma pure_xfh_fwd p tph s : fwd (pure_xfh p tph s) = fwd s.
Proof. unfold pure_xfh. destruct (has tph n_xfh); [|reflexivity]. destruct (lookup k_xfh (env s)); reflexivity. Qed.
Lemma pure_proto_fwd tph s : fwd (pure_proto tph s) = fwd s.
Proof. unfold pure_proto. destruct (has tph n_xfproto); reflexivity. Qed.
Lemma pure_port_fwd tph s : fwd (pure_port tph s) = fwd s.
Proof. unfold pure_port. destruct (has tph n_xfport); reflexivity. Qed.
Lemma pure_by_fwd tph s : fwd (pure_by tph s) = fwd s.
Proof. unfold pure_by. destruct (has tph n_xfby); reflexivity. Qed.

(* the state before the Forwarded block *)
Definition pre_fwd (p : positive) (tph : list str) (e : environ) : pst :=
  pure_by tph (pure_port tph (pure_proto tph (pure_xfh p tph (pure_xff p tph (init_pst e))))).

Lemma pre_fwd_env p tph e key : beqb key k_xff = false -> beqb key k_xfh = false ->
  lookup key (env (pre_fwd p tph e)) = lookup key e.
Proof.
  intros H1 H2. unfold pre_fwd. rewrite pure_by_env, pure_port_env, pure_proto_env, pure_xfh_env, pure_xff_env by assumption.
  reflexivity.
Qed.

Lemma pre_fwd_fwd p tph e : fwd (pre_fwd p tph e) = Some [].
Proof. unfold pre_fwd. rewrite pure_by_fwd, pure_port_fwd, pure_proto_fwd, pure_xfh_fwd, pure_xff_fwd. reflexivity. Qed.

(* the syntax categories, block by block, on the request itself *)
Definition syntax_header (c : category) : str := category_header false c.

Lemma hdr_env key e1 e2 : lookup key e1 = lookup key e2 -> hdr key e1 = hdr key e2.
Proof. unfold hdr. intros ->. reflexivity. Qed.

Lemma first_some_none {A B} (f : A -> option B) l :
  first_some f l = None <-> existsb (fun x => match f x with Some _ => true | None => false end) l = false.
Proof.
  induction l as [|x l IH]; [split; reflexivity|]. cbn [first_some existsb].
  destruct (f x); cbn [orb]; [split; discriminate|exact IH].
Qed.

Lemma existsb_ext' {A} (f g : A -> bool) l : (forall x, f x = g x) -> existsb f l = existsb g l.
Proof. intro H. induction l as [|x l IH]; [reflexivity|]. cbn [existsb]. rewrite H, IH. reflexivity. Qed.

Lemma pair_reason_bad q : match pair_reason q with Some _ => true | None => false end = pair_bad q.
Proof.
  unfold pair_reason, pair_bad. destruct (cat_pair_no_eq q); [reflexivity|].
  destruct (cat_pair_padded q); [reflexivity|]. destruct (cat_pair_quoting q); reflexivity.
Qed.

Definition is_some {B} (o : option B) : bool := match o with Some _ => true | None => false end.
Lemma first_some_existsb {A B} (f : A -> option B) (g : A -> bool) l :
  (forall x, is_some (f x) = g x) -> is_some (first_some f l) = existsb g l.
Proof.
  intro H. induction l as [|x l IH]; [reflexivity|]. cbn [first_some existsb].
  rewrite <- H. destruct (f x); [reflexivity|exact IH].
Qed.

Lemma element_reason_bad el : match element_reason el with Some _ => true | None => false end = element_bad el.
Proof. apply (first_some_existsb (fun p => pair_reason (lower_latin1 p))). intro p. apply pair_reason_bad. Qed.

Lemma forwarded_reason_bad raw : match forwarded_reason raw with Some _ => true | None => false end = cat_forwarded raw.
Proof. apply (first_some_existsb element_reason). intro el. apply element_reason_bad. Qed.

Lemma forwarded_reason_header raw c : forwarded_reason raw = Some c -> syntax_header c = h_fwd.
Proof.
  unfold forwarded_reason. generalize (elements raw). intro l.
  induction l as [|el l IH]; [discriminate|]. cbn [first_some].
  destruct (element_reason el) as [c'|] eqn:Ee; [|exact IH].
  intro H. injection H as ->. unfold element_reason in Ee.
  revert Ee. generalize (split (strip el) [semi]). intro ps.
  induction ps as [|q ps IHp]; [discriminate|]. cbn [first_some].
  destruct (pair_reason (lower_latin1 q)) as [c''|] eqn:Ep; [|exact IHp].
  intro H. injection H as ->. unfold pair_reason in Ep.
  destruct (cat_pair_no_eq _); [injection Ep as <-; reflexivity|].
  destruct (cat_pair_padded _); [injection Ep as <-; reflexivity|].
  destruct (cat_pair_quoting _); [injection Ep as <-; reflexivity|discriminate].
Qed.

(* parse_select in closed form, block by block from the right *)
Definition fwd_part (tph : list str) (e : environ) : option category :=
  if fwd_active tph e then forwarded_reason (hdr hk_fwd e) else None.

Definition answer (o : option category) (s : pst) : result pst :=
  match o with Some c => Malformed (syntax_header c) | None => Ok s end.

Lemma fwd_tail p tph e s5 : lookup k_fwd (env s5) = lookup k_fwd e -> fwd s5 = Some [] ->
  blk_forwarded (Zpos p) (blk_fwd_get tph s5) = answer (fwd_part tph e) (pure_fwd p (blk_fwd_get tph s5)).
Proof.
  intros L5 F5. rewrite blk_forwarded_exact by (apply fwd_get_precond; exact F5).
  unfold fwd_part, fwd_refused, fwd_active, blk_fwd_get. change (trusts tph nm_fwd) with (has tph n_fwd). change hk_fwd with k_fwd.
  destruct (has tph n_fwd); cbn [andb fwd].
  - unfold hdr. rewrite L5. destruct (lookup k_fwd e) as [[|c raw']|]; cbn [truthy]; try reflexivity.
    pose proof (forwarded_reason_bad (c :: raw')) as Hb.
    destruct (forwarded_reason (c :: raw')) as [cat|] eqn:Er; rewrite <- Hb; cbn [answer].
    + rewrite (forwarded_reason_header _ _ Er). reflexivity.
    + reflexivity.
  - rewrite F5. reflexivity.
Qed.

Lemma by_tail p tph e s4 : lookup k_fwd (env s4) = lookup k_fwd e -> fwd s4 = Some [] -> u_by (unt s4) = true ->
  bind (blk_by tph s4) (fun s => blk_forwarded (Zpos p) (blk_fwd_get tph s)) =
  answer (fwd_part tph e) (pure_fwd p (blk_fwd_get tph (pure_by tph s4))).
Proof.
  intros L F U. rewrite blk_by_exact by exact U. cbn [bind].
  apply fwd_tail; [rewrite pure_by_env; exact L|rewrite pure_by_fwd; exact F].
Qed.

Lemma port_tail p tph e s3 :
  lookup k_fwd (env s3) = lookup k_fwd e -> lookup k_xfport (env s3) = lookup k_xfport e ->
  fwd s3 = Some [] -> u_port (unt s3) = true -> u_by (unt s3) = true ->
  bind (blk_port tph s3) (fun s => bind (blk_by tph s) (fun s => blk_forwarded (Zpos p) (blk_fwd_get tph s))) =
  answer (orelse (single_reason tph nm_xfport hk_xfport e CatPortQuoting CatPortSeveral) (fwd_part tph e))
         (pure_fwd p (blk_fwd_get tph (pure_by tph (pure_port tph s3)))).
Proof.
  intros L Lp F Uo Ub. rewrite blk_port_exact by exact Uo. unfold single_refused, single_reason.
  change (trusts tph nm_xfport) with (has tph n_xfport). change hk_xfport with k_xfport.
  rewrite (hdr_env k_xfport (env s3) e Lp).
  assert (T : bind (Ok (pure_port tph s3)) (fun s => bind (blk_by tph s) (fun s => blk_forwarded (Zpos p) (blk_fwd_get tph s))) =
              answer (fwd_part tph e) (pure_fwd p (blk_fwd_get tph (pure_by tph (pure_port tph s3))))).
  { cbn [bind]. apply by_tail.
    - rewrite pure_port_env. exact L.
    - rewrite pure_port_fwd. exact F.
    - destruct (pure_port_unt tph s3) as (_ & _ & _ & ->). exact Ub. }
  destruct (has tph n_xfport); cbn [andb].
  - destruct (cat_single_quoting (hdr k_xfport e)); [reflexivity|].
    destruct (cat_several_values (hdr k_xfport e)); [reflexivity|]. cbn [orb orelse]. exact T.
  - cbn [orelse]. exact T.
Qed.

Lemma proto_tail p tph e s2 :
  lookup k_fwd (env s2) = lookup k_fwd e -> lookup k_xfport (env s2) = lookup k_xfport e ->
  lookup k_xfproto (env s2) = lookup k_xfproto e ->
  fwd s2 = Some [] -> u_proto (unt s2) = true -> u_port (unt s2) = true -> u_by (unt s2) = true ->
  bind (blk_proto tph s2) (fun s => bind (blk_port tph s) (fun s => bind (blk_by tph s) (fun s => blk_forwarded (Zpos p) (blk_fwd_get tph s)))) =
  answer (orelse (single_reason tph nm_xfproto hk_xfproto e CatProtoQuoting CatProtoSeveral)
           (orelse (single_reason tph nm_xfport hk_xfport e CatPortQuoting CatPortSeveral) (fwd_part tph e)))
         (pure_fwd p (blk_fwd_get tph (pure_by tph (pure_port tph (pure_proto tph s2))))).
Proof.
  intros L Lo Lp F Up Uo Ub. rewrite blk_proto_exact by exact Up. unfold single_refused, single_reason at 1.
  change (trusts tph nm_xfproto) with (has tph n_xfproto). change hk_xfproto with k_xfproto.
  rewrite (hdr_env k_xfproto (env s2) e Lp).
  assert (T : bind (Ok (pure_proto tph s2)) (fun s => bind (blk_port tph s) (fun s => bind (blk_by tph s) (fun s => blk_forwarded (Zpos p) (blk_fwd_get tph s)))) =
              answer (orelse (single_reason tph nm_xfport hk_xfport e CatPortQuoting CatPortSeveral) (fwd_part tph e))
                     (pure_fwd p (blk_fwd_get tph (pure_by tph (pure_port tph (pure_proto tph s2)))))).
  { cbn [bind]. destruct (pure_proto_unt tph s2) as (_ & _ & Ho & Hb). apply port_tail.
    - rewrite pure_proto_env. exact L.
    - rewrite pure_proto_env. exact Lo.
    - rewrite pure_proto_fwd. exact F.
    - rewrite Ho. exact Uo.
    - rewrite Hb. exact Ub. }
  destruct (has tph n_xfproto); cbn [andb].
  - destruct (cat_single_quoting (hdr k_xfproto e)); [reflexivity|].
    destruct (cat_several_values (hdr k_xfproto e)); [reflexivity|]. cbn [orb orelse]. exact T.
  - cbn [orelse]. exact T.
Qed.

Lemma answer_bind_refused (b : bool) h c rest (s : pst) (K : pst -> result pst) sfin :
  syntax_header c = h ->
  (b = false -> K s = answer rest sfin) ->
  bind (if b then Malformed h else Ok s) K = answer (orelse (if b then Some c else None) rest) sfin.
Proof. intros Hh HK. destruct b; cbn [bind orelse answer]; [rewrite Hh; reflexivity|apply HK; reflexivity]. Qed.

Theorem select_exact e p tph :
  parse_select e (Zpos p) tph = answer (syntax_reason tph e) (sel_state p tph e).
Proof.
  unfold parse_select, syntax_reason, sel_state.
  rewrite blk_xff_exact by reflexivity.
  assert (R1 : list_reason tph nm_xff hk_xff e CatXffQuoting = if xff_refused tph (init_pst e) then Some CatXffQuoting else None).
  { unfold list_reason, xff_refused. change (trusts tph nm_xff) with (has tph n_xff). change hk_xff with k_xff. cbn [env init_pst].
    destruct (has tph n_xff); [|reflexivity]. destruct (lookup k_xff e); [|reflexivity]. reflexivity. }
  rewrite R1. apply answer_bind_refused; [reflexivity|]. intros _.
  set (s1 := pure_xff p tph (init_pst e)).
  destruct (pure_xff_unt p tph (init_pst e)) as (U1h & U1p & U1o & U1b). fold s1 in U1h, U1p, U1o, U1b.
  cbn [init_pst unt u_all u_host u_proto u_port u_by] in U1h, U1p, U1o, U1b.
  assert (E1 : forall key, beqb key k_xff = false -> lookup key (env s1) = lookup key e).
  { intros key H. unfold s1. rewrite pure_xff_env by exact H. reflexivity. }
  rewrite blk_xfh_exact by exact U1h.
  assert (R2 : list_reason tph nm_xfh hk_xfh e CatXfhQuoting = if xfh_refused tph s1 then Some CatXfhQuoting else None).
  { unfold list_reason, xfh_refused. change (trusts tph nm_xfh) with (has tph n_xfh). change hk_xfh with k_xfh.
    rewrite (E1 k_xfh) by keq.
    destruct (has tph n_xfh); [|reflexivity]. destruct (lookup k_xfh e); [|reflexivity]. reflexivity. }
  rewrite R2. apply answer_bind_refused; [reflexivity|]. intros _.
  set (s2 := pure_xfh p tph s1).
  destruct (pure_xfh_unt p tph s1) as (_ & U2p & U2o & U2b). fold s2 in U2p, U2o, U2b.
  assert (E2 : forall key, beqb key k_xff = false -> beqb key k_xfh = false -> lookup key (env s2) = lookup key e).
  { intros key H1 H2. unfold s2. rewrite pure_xfh_env by exact H2. apply E1. exact H1. }
  apply proto_tail.
  - apply E2; keq.
  - apply E2; keq.
  - apply E2; keq.
  - unfold s2, s1. rewrite pure_xfh_fwd, pure_xff_fwd. reflexivity.
  - congruence.
  - congruence.
  - congruence.
Qed.
