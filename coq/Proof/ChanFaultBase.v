(* Proof/ChanFaultBase.v -- basic facts about Model/ChanFault.v used by all the
   C13 proofs: accessors, the invariant rule for (state, trace) invariants, and
   list helpers about stacks. *)
From Coq Require Import List Arith Bool Lia.
From WV Require Import Lib.Conc Model.ChanFault Proof.ChanFaultSpec.
Import ListNotations.

(* ---- accessors ------------------------------------------------------------ *)
Lemma chan_eqb_refl : forall c, chan_eqb c c = true.
Proof. destruct c; reflexivity. Qed.
Lemma chan_eqb_eq : forall c d, chan_eqb c d = true <-> c = d.
Proof. destruct c, d; simpl; split; intro H; auto; discriminate. Qed.
Lemma tid_eqb_eq : forall a b, tid_eqb a b = true <-> a = b.
Proof.
  destruct a, b; simpl; split; intro H; auto; try discriminate.
  - apply chan_eqb_eq in H. subst; auto.
  - inversion H. apply chan_eqb_refl.
Qed.
Lemma chan_dec : forall c d : chan, {c = d} + {c <> d}.
Proof. decide equality. Qed.
Lemma tid_dec : forall c d : tid, {c = d} + {c <> d}.
Proof. decide equality; apply chan_dec. Qed.

Lemma getc_setc_same : forall s c v, getc (setc s c v) c = v.
Proof. destruct c; reflexivity. Qed.
Lemma getc_setc_other : forall s c d v, c <> d -> getc (setc s c v) d = getc s d.
Proof. destruct c, d; simpl; intros; auto; congruence. Qed.
Lemma getc_setc : forall s c d v, getc (setc s c v) d = if chan_dec c d then v else getc s d.
Proof.
  intros. destruct (chan_dec c d); subst; [apply getc_setc_same|apply getc_setc_other; auto].
Qed.
Lemma getth_setth_same : forall s t v, getth (setth s t v) t = v.
Proof. destruct t as [|[|]]; reflexivity. Qed.
Lemma getth_setth_other : forall s t u v, t <> u -> getth (setth s t v) u = getth s u.
Proof. destruct t as [|[|]], u as [|[|]]; simpl; intros; auto; congruence. Qed.
Lemma getth_setc : forall s c v t, getth (setc s c v) t = getth s t.
Proof. destruct c, t as [|[|]]; reflexivity. Qed.
Lemma getc_setth : forall s t v c, getc (setth s t v) c = getc s c.
Proof. destruct c, t as [|[|]]; reflexivity. Qed.
Lemma getc_set_srv : forall s a b c d x, getc (set_srv s a b c d) x = getc s x.
Proof. destruct x; reflexivity. Qed.
Lemma getth_set_srv : forall s a b c d t, getth (set_srv s a b c d) t = getth s t.
Proof. destruct t as [|[|]]; reflexivity. Qed.
Lemma getc_set_dead : forall s x, getc (set_dead s) x = getc s x.
Proof. destruct x; reflexivity. Qed.
Lemma getth_set_dead : forall s t, getth (set_dead s) t = getth s t.
Proof. destruct t as [|[|]]; reflexivity. Qed.

Lemma srv_setc : forall s c v,
  lst_in_map (setc s c v) = lst_in_map s /\ trg_in_map (setc s c v) = trg_in_map s /\
  lst_open (setc s c v) = lst_open s /\ trg_open (setc s c v) = trg_open s /\ io_dead (setc s c v) = io_dead s.
Proof. destruct c; simpl; auto. Qed.
Lemma srv_setth : forall s t v,
  lst_in_map (setth s t v) = lst_in_map s /\ trg_in_map (setth s t v) = trg_in_map s /\
  lst_open (setth s t v) = lst_open s /\ trg_open (setth s t v) = trg_open s /\ io_dead (setth s t v) = io_dead s.
Proof. destruct t as [|[|]]; simpl; auto. Qed.

(* ---- schedules ------------------------------------------------------------- *)
(* the model's run/trace are the generic ones of Lib/Conc.v *)
Lemma run_tr_conc : forall g sched,
  ChanFault.run_tr g sched = Conc.run_tr (step g) init sched.
Proof. reflexivity. Qed.

Theorem inv_rule_tr : forall g (Inv : state -> list label -> Prop),
  Inv init [] ->
  (forall s tr c s' l, Inv s tr -> step g s c = Some (s', l) -> Inv s' (tr ++ l)) ->
  forall sched, Inv (ChanFault.run g sched) (ChanFault.trace g sched).
Proof.
  intros g Inv H0 Hs sched.
  exact (invariant_rule_tr state choice label (step g) Inv init H0 Hs sched).
Qed.

(* ---- stacks ------------------------------------------------------------------ *)
Lemma drop_to_frame_suffix : forall l, exists pre, l = pre ++ drop_to_frame l.
Proof.
  induction l as [|i r IH]; simpl.
  - exists []. reflexivity.
  - destruct (is_frame i).
    + exists []. reflexivity.
    + destruct IH as [pre E]. exists (i :: pre). simpl. congruence.
Qed.

Lemma drop_to_frame_head : forall l k r, drop_to_frame l = k :: r -> is_frame k = true.
Proof.
  induction l as [|i l IH]; simpl; intros k r E; try discriminate.
  destruct (is_frame i) eqn:F.
  - inversion E; subst; auto.
  - eauto.
Qed.

Lemma forallb_drop_to_frame : forall (p : instr -> bool) l,
  forallb p l = true -> forallb p (drop_to_frame l) = true.
Proof.
  intros p l H. destruct (drop_to_frame_suffix l) as [pre E].
  rewrite E in H. rewrite forallb_app in H. apply andb_true_iff in H. tauto.
Qed.

Lemma forallb_tail : forall (p : instr -> bool) i l, forallb p (i :: l) = true -> forallb p l = true.
Proof. simpl; intros p i l H. apply andb_true_iff in H. tauto. Qed.
