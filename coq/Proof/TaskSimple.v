(* A plain application without a declared length, end to end through
   HTTPChannel.service (C03): the wire is head ++ body ++ terminator. *)
From Coq Require Import String.
From Coq Require Import List NArith ZArith Bool Lia Arith.
From WV Require Import Lib.PyBytes Gen.GenTables Model.Task Spec.ClientParse
  Proof.TaskLines Proof.TaskHead Proof.TaskStart Proof.TaskRun Proof.TaskChunk Proof.TaskC09 Proof.TaskBody.
Import ListNotations.
Local Open Scope N_scope.

Definition simple_app (status : str) (hs : list (pyobj * pyobj)) (kind : ikind) (chunks : list bytes) (hc : bool) : app :=
  mkApp [AStart (PStr status) hs None] kind (plain_steps chunks) hc None.

Section Simple.
Variable cap : str -> str.
Variable lower : str -> str.
Variable c : cfg.
Variable r : req.

Definition not_cl (h : pyobj * pyobj) : Prop :=
  match fst h with PStr k => beqb (lower k) (lit "content-length") = false | PNonStr => True end.

Lemma sr_headers_no_cl hs : Forall not_cl hs -> forall t acc,
  t_clen (fst (sr_headers lower t hs acc)) = t_clen t.
Proof.
  induction 1 as [|[k v] hs Hh Hhs IH]; intros t acc; cbn [sr_headers]; auto.
  destruct k as [k|]; auto. destruct v as [v|]; auto.
  destruct (has_crlf v); auto. destruct (has_crlf k); auto.
  destruct (negb (is_token k)); auto.
  unfold not_cl in Hh. cbn [fst] in Hh. rewrite Hh.
  destruct (existsb (beqb (lower k)) hop_by_hop); auto.
Qed.

(* exc_info clears the recorded length together with the headers: stated for calls without it *)
Lemma start_response_no_cl t status hs (exc : option exn) : exc = None -> Forall not_cl hs ->
  t_clen (fst (start_response lower t status hs exc)) = t_clen t.
Proof.
  intros -> H. unfold start_response.
  destruct (t_complete t && _); auto.
  cbn zeta. destruct status as [s|]; auto. destruct (has_crlf s); auto.
  pose proof (sr_headers_no_cl hs H (set_status s (set_complete true t)) []) as F.
  destruct (sr_headers lower _ hs []) as [t4 [l|e]]; cbn [fst] in *; auto.
Qed.

Lemma run_actions_single disc s a :
  run_actions cap lower c r disc s [a] =
  match run_action cap lower c r disc s a with
  | (s1, Exn e) => (s1, Exn e)
  | (s1, Ok _) => (s1, Ok tt)
  end.
Proof. reflexivity. Qed.

Definition len1 (k : ikind) : bool := match k with KSized n => n =? 1 | _ => false end.
Definition is_file (k : ikind) : bool := match k with KFile _ => true | _ => false end.

(* C03, model side: one start_response without Content-Length, a generator or a
   sized iterable (not of length 1) of chunks, client connected, nothing raised:
   the bytes on the wire are the head of the prepared task, the chunks in the
   coding that head announced, and the terminator when chunked; the connection
   is closed iff close_on_finish was set while the head was built. *)
Theorem simple_nolen_wire status hs kind chunks hc :
  r_error r = None -> is_file kind = false -> len1 kind = false -> Forall not_cl hs ->
  let res := channel_service cap lower c r (simple_app status hs kind chunks hc) None in
  o_raw res = None ->
  exists t1 tp head,
    start_response lower (new_task (r_version r) false) (PStr status) hs None = (t1, Ok tt)
    /\ build_response_header cap lower c r t1 = (tp, Ok head)
    /\ wire (o_writes res) = head ++ body_enc tp chunks
                             ++ (if t_chunked tp && negb (r_head r) then chunk_terminator else [])
    /\ o_close res = t_cof tp /\ o_next res = negb (t_cof tp) /\ o_escaped res = None.
Proof.
  intros He Hfile Hlen Hcl. cbn zeta. unfold channel_service. rewrite He. cbn [connected].
  set (t0 := new_task (r_version r) false).
  match goal with |- context [ladder cap lower c r None ?x0 ?raw0] =>
    destruct (ladder_fields cap lower c r None x0 raw0) as (_ & _ & _ & Eraw & _) end.
  cbn zeta in Eraw. rewrite Eraw. clear Eraw.
  unfold task_service.
  destruct (x_out (task_run cap lower c r None (t0, mkChan [] 0) (inl (simple_app status hs kind chunks hc)))) as [[]|e] eqn:Eraw;
    [|intro X; discriminate X].
  intros _. unfold ladder. rewrite Eraw. cbn [o_writes o_close o_next o_escaped fst snd].
  revert Eraw. unfold task_run, wsgi_execute, simple_app. cbn [a_call a_kind a_steps a_has_close a_close_exn].
  rewrite run_actions_single. cbn [run_action fst snd].
  pose proof (start_response_no_cl t0 (PStr status) hs None eq_refl Hcl) as Hclen.
  destruct (start_response lower t0 (PStr status) hs None) as [t1 [[]|e1]] eqn:Esr; cbn [fst snd];
    [|cbn; intro X; discriminate X].
  cbn [fst] in Hclen.
  destruct (start_response_ok lower _ _ _ _ _ Esr) as (_ & _ & _ & Hc1 & Hw1 & _).
  cbn [t_wrote_header new_task t0] in Hw1.
  unfold execute_body. cbn [a_kind a_steps].
  assert (Hk : match kind with KFile _ => false | _ => true end = true) by (destruct kind; auto; discriminate).
  replace (match kind with KFile seekable => _ | _ => None end) with (@None (st * outcome unit * bool))
    by (destruct kind; auto; discriminate).
  replace (match kind with KFile _ => true | _ => false end) with false by (destruct kind; auto; discriminate).
  replace (match kind with KSized n => n =? 1 | _ => false end) with false by (destruct kind; auto).
  destruct (iterate cap lower c r None false false true (t1, mkChan [] 0) (plain_steps chunks)) as [[t2 ch2] [[]|e2]] eqn:Eit.
  2: { destruct (true && hc); cbn; discriminate. }
  assert (Hcl1 : t_clen t1 = None) by (rewrite Hclen; reflexivity).
  destruct (iterate_fresh cap lower c r chunks t1 (mkChan [] 0) true _ _ Hc1 Hw1 Hcl1 Eit eq_refl)
    as [[Hall Hs]|(tp & head & Eb & S2 & W2)].
  - (* every chunk was empty: finish() sends the head *)
    inversion Hs; subst t2 ch2. rewrite Hcl1.
    assert (Hx : forall n : nat, x_out (if true && hc then mkExec (t1, mkChan [] 0) (Ok tt) n false true
                                    else mkExec (t1, mkChan [] 0) (Ok tt) 0 (negb true) true) = Ok tt
                             /\ x_st (if true && hc then mkExec (t1, mkChan [] 0) (Ok tt) n false true
                                    else mkExec (t1, mkChan [] 0) (Ok tt) 0 (negb true) true) = (t1, mkChan [] 0))
      by (intros; destruct (true && hc); auto).
    destruct (Hx 1%nat) as [Ho Hst]. rewrite Ho, Hst.
    destruct (task_finish cap lower c r None (t1, mkChan [] 0)) as [s3 [[]|e3]] eqn:Ef; cbn [x_out x_st]; [|discriminate].
    intros _. destruct (finish_fresh cap lower c r t1 (mkChan [] 0) s3 (Ok tt) Hc1 Hw1 Ef eq_refl) as (tp & head & Eb & Ht & W).
    exists t1, tp, head. split; auto. split; auto.
    fold (chan_wire (snd s3)). rewrite W, Ht. rewrite (body_enc_all_empty tp chunks Hall).
    cbn [t_cof set_wrote]. repeat split; auto.
  - (* the head went out with the first non-empty chunk *)
    cbn [fst snd] in S2, W2. destruct S2 as (A1 & A2 & A3 & A4 & A5 & A6 & A7 & A8).
    assert (Hcl2 : t_clen t2 = None).
    { rewrite A6. cbn [t_clen set_wrote]. unfold build_response_header in Eb. injection Eb as <- _.
      destruct (keeps_bh_prepare cap lower c r t1) as (_ & _ & K3 & _). congruence. }
    rewrite Hcl2.
    assert (Hx : forall n, x_out (if true && hc then mkExec (t2, ch2) (Ok tt) n false true
                                    else mkExec (t2, ch2) (Ok tt) 0 (negb true) true) = Ok tt
                             /\ x_st (if true && hc then mkExec (t2, ch2) (Ok tt) n false true
                                    else mkExec (t2, ch2) (Ok tt) 0 (negb true) true) = (t2, ch2))
      by (intros; destruct (true && hc); auto).
    destruct (Hx 1%nat) as [Ho Hst]. rewrite Ho, Hst.
    assert (Hw2 : t_wrote_header t2 = true) by (rewrite A4; reflexivity).
    destruct (finish_after_head cap lower c r t2 ch2 Hw2) as (ch3 & Ef & W3). rewrite Ef. cbn [x_out x_st fst snd].
    intros _. exists t1, tp, head. split; auto. split; auto.
    fold (chan_wire ch3). rewrite W3, W2. cbn [chan_wire ch_writes rev wire flat_map List.app].
    rewrite A2, A3. cbn [t_chunked t_cof set_wrote]. rewrite <- !app_assoc. repeat split; auto.
Qed.

End Simple.
