(* HTTPRequestParser.received: structure of parse_header (frame conditions,
   independence of the carry field header_plus, never "escapes"), totality of
   received() with bounds on the consumed count, preservation of the
   well-formedness of the parser state, the limit theorems and boundedness of
   the carry state. *)
From Coq Require Import List NArith ZArith Bool Lia Arith.
From RecordUpdate Require Import RecordUpdate.
From WV Require Import Lib.PyBytes Lib.Regex Gen.GenRegex Model.Receiver Model.UrlSplit Model.Parser
  Proof.PyBytesFacts Proof.ReceiverTotal.
Import ListNotations.
Local Open Scope N_scope.

(* setting the two carry fields of the head phase *)
Definition cset (x : bytes) (k : N) (p : parser) : parser :=
  p <| header_plus := x |> <| header_bytes_received := k |>.

Ltac psimpl := cbn [set Parser.completed Parser.empty Parser.expect_continue Parser.headers_finished
  Parser.header_plus Parser.chunked Parser.content_length Parser.header_bytes_received Parser.body_bytes_received
  Parser.body Parser.version Parser.error Parser.connection_close Parser.headers Parser.first_line Parser.command
  Parser.request_uri Parser.p_scheme Parser.p_netloc Parser.path Parser.query Parser.fragment Parser.url_scheme] in *.

Ltac ph_step :=
  match goal with
  | |- context [match ?x with _ => _ end] =>
    lazymatch x with
    | context [match _ with _ => _ end] => fail
    | _ => destruct x eqn:?; psimpl
    end
  end.

(* the pieces of parse_header, copied literally *)
Definition ph_v11 (p : parser) (h1 : hdict) (ver connection : bytes) : parser * option perr :=
              if beqb ver s_1_1 then
                let te := hget_default h1 s_TRANSFER_ENCODING [] in
                let p := p <| headers := hpop h1 s_TRANSFER_ENCODING |> in
                let encs := te_encodings te in
                if negb (forallb (fun e => beqb e s_chunked) encs) then (p, Some ETENotSupported)
                else
                  let r : parser * option perr :=
                    match encs with
                    | [] => (p, None)
                    | _ =>
                      if negb (length encs =? 1)%nat then (p, Some ETEMultipleChunked)
                      else
                        let p := p <| chunked := true |> <| body := Some (BChunked chunked_init) |> in
                        let cl := hget (headers p) s_CONTENT_LENGTH in
                        let p := p <| headers := hpop (headers p) s_CONTENT_LENGTH |> in
                        (match cl with Some _ => p <| connection_close := true |> | None => p end, None)
                    end in
                  match r with
                  | (p, Some e) => (p, Some e)
                  | (p, None) =>
                    let expect := lower_latin1 (hget_default (headers p) s_EXPECT []) in
                    let p := p <| expect_continue := beqb expect s_100_continue |> in
                    let p := if existsb (fun t => beqb (strip_by is_sp_htab t) s_close)
                                        (split (lower_latin1 connection) [44])
                             then p <| connection_close := true |> else p in
                    (p, None)
                  end
              else (p, None).

Definition ph_tail (p : parser) : parser * ph_status :=
              if chunked p then (p, PSOk)
              else
                let cl := hget_default (headers p) s_CONTENT_LENGTH s_0 in
                if negb (matches gate_content_length cl) then (p, PSError EContentLengthInvalid)
                else if int_max_str_digits <? lenN cl then (p, PSError EContentLengthInvalid)
                else
                  let n := dec_value cl in
                  let p := p <| content_length := n |> in
                  (if 0 <? n then p <| body := Some (BFixed (fixed_init n)) |> else p, PSOk).

Definition ph_mid (a : adj) (p : parser) (h1 : hdict) (uri ver : bytes) : parser * ph_status :=
          match split_uri uri with
          | SBadURI => (p, PSError EBadURI)
          | SEscapes => (p, PSEscapes)
          | SUnmodelled => (p, PSUnmodelled)
          | SOk sc nl pa qu fr =>
            let p := p <| p_scheme := sc |> <| p_netloc := nl |> <| path := pa |>
                       <| query := qu |> <| fragment := fr |> <| url_scheme := adj_url_scheme a |> in
            let connection := hget_default h1 s_CONNECTION [] in
            let p := if beqb ver s_1_0 && negb (beqb (lower_latin1 connection) s_keep_alive)
                     then p <| connection_close := true |> else p in
            let p := if negb (beqb ver s_1_1)
                        && (match hget h1 s_TRANSFER_ENCODING with Some _ => true | None => false end)
                     then p <| connection_close := true |> else p in
            match ph_v11 p h1 ver connection with
            | (p, Some e) => (p, PSError e)
            | (p, None) => ph_tail p
            end
          end.

Lemma parse_header_eq a p hp :
  parse_header a p hp =
  match find hp CRLF with
  | None => (p, PSError EHeaderInvalid)
  | Some index =>
    let fl := rstrip_by is_reqline_ws (firstn index hp) in
    let header := skipn (index + 2) hp in
    if has_cr_or_lf fl then (p, PSError EBareCRLFFirstLine)
    else
    let p := p <| first_line := fl |> in
    match get_header_lines header with
    | inl e => (p, PSError e)
    | inr lines =>
      match add_header_lines (headers p) lines with
      | inl (e, h) => (p <| headers := h |>, PSError e)
      | inr h1 =>
        let p := p <| headers := h1 |> in
        match crack_first_line fl with
        | None => (p, PSError EMalformedMethod)
        | Some (cmd, uri, ver) =>
          if beqb cmd [] && beqb uri [] && beqb ver [] then (p, PSError EStartLineInvalid)
          else
          let p := p <| request_uri := uri |> <| command := cmd |> <| version := ver |> in
          ph_mid a p h1 uri ver
        end
      end
    end
  end.
Proof. reflexivity. Qed.

Lemma ph_v11_hp x k p h1 ver c :
  ph_v11 (cset x k p) h1 ver c = let '(p1, e) := ph_v11 p h1 ver c in (cset x k p1, e).
Proof. unfold ph_v11, cset. psimpl. repeat ph_step; reflexivity. Qed.

Lemma ph_tail_hp x k p :
  ph_tail (cset x k p) = let '(p1, e) := ph_tail p in (cset x k p1, e).
Proof. unfold ph_tail, cset. psimpl. repeat ph_step; reflexivity. Qed.

Lemma ph_mid_hp a x k p h1 uri ver :
  ph_mid a (cset x k p) h1 uri ver = let '(p1, e) := ph_mid a p h1 uri ver in (cset x k p1, e).
Proof.
  unfold ph_mid. destruct (split_uri uri) as [sc nl pa qu fr| | |]; try reflexivity.
  cbv zeta.
  set (c := hget_default h1 s_CONNECTION []).
  destruct (beqb ver s_1_0 && negb (beqb (lower_latin1 c) s_keep_alive));
  destruct (negb (beqb ver s_1_1) && _);
  (lazymatch goal with
   | |- (match ph_v11 ?q _ _ _ with _ => _ end) = (let '(_, _) := (match ph_v11 ?q' _ _ _ with _ => _ end) in _) =>
     change q with (cset x k q')
   end;
   rewrite ph_v11_hp; destruct (ph_v11 _ h1 ver c) as [p1 [e|]]; [reflexivity|]; apply ph_tail_hp).
Qed.

Lemma parse_header_hp a p x k h :
  parse_header a (cset x k p) h =
  let '(p1, st) := parse_header a p h in (cset x k p1, st).
Proof.
  rewrite !parse_header_eq.
  destruct (find h CRLF); [|reflexivity]. cbv zeta.
  destruct (has_cr_or_lf _); [reflexivity|].
  destruct (get_header_lines _); [reflexivity|].
  change (headers (cset x k p <| first_line := rstrip_by is_reqline_ws (firstn n h) |>)) with (headers p).
  change (headers (p <| first_line := rstrip_by is_reqline_ws (firstn n h) |>)) with (headers p).
  destruct (add_header_lines (headers p) l) as [[e h0]|h1]; [reflexivity|].
  destruct (crack_first_line _) as [[[cmd uri] ver]|]; [|reflexivity].
  destruct (beqb cmd [] && beqb uri [] && beqb ver []); [reflexivity|].
  exact (ph_mid_hp a x k (p <| first_line := rstrip_by is_reqline_ws (firstn n h) |> <| headers := h1 |>
                          <| request_uri := uri |> <| command := cmd |> <| version := ver |>) h1 uri ver).
Qed.

(* ------------------------------------------------------------------ *)
(* frame: what parse_header never touches *)
Definition frame (p p1 : parser) : Prop :=
  completed p1 = completed p /\ empty p1 = empty p /\ headers_finished p1 = headers_finished p /\
  header_plus p1 = header_plus p /\ header_bytes_received p1 = header_bytes_received p /\
  body_bytes_received p1 = body_bytes_received p /\ error p1 = error p.

Lemma frame_refl p : frame p p.
Proof. unfold frame; tauto. Qed.

Lemma frame_trans p q r : frame p q -> frame q r -> frame p r.
Proof. unfold frame. intuition congruence. Qed.

Ltac frame_tac := unfold frame; psimpl; repeat split; reflexivity.

Lemma ph_v11_frame p h1 ver c : frame p (fst (ph_v11 p h1 ver c)).
Proof. unfold ph_v11. repeat ph_step; cbn [fst]; frame_tac. Qed.

Lemma ph_tail_frame p : frame p (fst (ph_tail p)).
Proof. unfold ph_tail. repeat ph_step; cbn [fst]; frame_tac. Qed.

Lemma ph_mid_frame a p h1 uri ver : frame p (fst (ph_mid a p h1 uri ver)).
Proof.
  unfold ph_mid. destruct (split_uri uri) as [sc nl pa qu fr| | |]; try apply frame_refl.
  cbv zeta. set (c := hget_default h1 s_CONNECTION []).
  match goal with |- context [ph_v11 ?q h1 ver c] => set (q1 := q) end.
  assert (F1 : frame p q1) by (subst q1; destruct (_ && _); destruct (_ && _); frame_tac).
  pose proof (ph_v11_frame q1 h1 ver c) as F2.
  destruct (ph_v11 q1 h1 ver c) as [p1 [e|]]; cbn [fst] in *.
  - eapply frame_trans; eauto.
  - eapply frame_trans; [|apply ph_tail_frame]. eapply frame_trans; eauto.
Qed.

Lemma parse_header_frame a p h : frame p (fst (parse_header a p h)).
Proof.
  rewrite parse_header_eq.
  destruct (find h CRLF); [|apply frame_refl]. cbv zeta.
  destruct (has_cr_or_lf _); [apply frame_refl|].
  destruct (get_header_lines _); [frame_tac|].
  destruct (add_header_lines _ l) as [[e h0]|h1]; [frame_tac|].
  destruct (crack_first_line _) as [[[cmd uri] ver]|]; [|frame_tac].
  destruct (beqb cmd [] && beqb uri [] && beqb ver []); [frame_tac|].
  eapply frame_trans; [|apply ph_mid_frame]. frame_tac.
Qed.

(* ------------------------------------------------------------------ *)
(* which body receiver a successful parse_header leaves *)
Definition body_shape (p p1 : parser) : Prop :=
  (body p1 = body p /\ chunked p1 = chunked p /\ content_length p1 = content_length p) \/
  (body p1 = Some (BChunked chunked_init) /\ chunked p1 = true /\ content_length p1 = content_length p).

Lemma ph_v11_shape p h1 ver c : body_shape p (fst (ph_v11 p h1 ver c)).
Proof.
  unfold ph_v11. repeat ph_step; cbn [fst]; unfold body_shape; psimpl;
    first [left; repeat split; reflexivity | right; repeat split; reflexivity].
Qed.

Definition tail_shape (p p1 : parser) : Prop :=
  (chunked p = true /\ p1 = p) \/
  (chunked p = false /\ chunked p1 = false /\ content_length p1 = 0 /\ body p1 = body p) \/
  (chunked p = false /\ chunked p1 = false /\ 0 < content_length p1 /\
   body p1 = Some (BFixed (fixed_init (content_length p1)))).

Lemma ph_tail_shape p p1 : ph_tail p = (p1, PSOk) -> tail_shape p p1.
Proof.
  unfold ph_tail, tail_shape.
  destruct (chunked p) eqn:Hc.
  - intros H; injection H as <-. left; auto.
  - destruct (negb _); [discriminate|]. destruct (_ <? _); [discriminate|]. cbv zeta.
    destruct (0 <? dec_value _) eqn:Hn; intros H; injection H as <-; psimpl; right.
    + right. apply N.ltb_lt in Hn. repeat split; auto.
    + left. apply N.ltb_ge in Hn. repeat split; auto. lia.
Qed.

Definition head_result_shape (p1 : parser) : Prop :=
  (body p1 = None /\ chunked p1 = false /\ content_length p1 = 0) \/
  (body p1 = Some (BChunked chunked_init) /\ chunked p1 = true /\ content_length p1 = 0) \/
  (chunked p1 = false /\ 0 < content_length p1 /\ body p1 = Some (BFixed (fixed_init (content_length p1)))).

Lemma ph_mid_shape a p h1 uri ver p1 :
  body p = None -> chunked p = false -> content_length p = 0 ->
  ph_mid a p h1 uri ver = (p1, PSOk) -> head_result_shape p1.
Proof.
  intros Hb Hc Hl. unfold ph_mid.
  destruct (split_uri uri) as [sc nl pa qu fr| | |]; try discriminate.
  cbv zeta. set (c := hget_default h1 s_CONNECTION []).
  match goal with |- context [ph_v11 ?q h1 ver c] => set (q1 := q) end.
  assert (B1 : body q1 = None /\ chunked q1 = false /\ content_length q1 = 0).
  { subst q1; destruct (_ && _); destruct (_ && _); psimpl; auto. }
  pose proof (ph_v11_shape q1 h1 ver c) as S.
  destruct (ph_v11 q1 h1 ver c) as [p2 [e|]]; cbn [fst] in *; [discriminate|].
  intros T. apply ph_tail_shape in T. unfold head_result_shape.
  destruct B1 as (B1 & B2 & B3).
  destruct S as [(S1 & S2 & S3)|(S1 & S2 & S3)]; destruct T as [(T1 & ->)|[(T1 & T2 & T3 & T4)|(T1 & T2 & T3 & T4)]];
    try congruence.
  - left. repeat split; congruence.
  - right; right. auto.
  - right; left. repeat split; congruence.
Qed.

Lemma parse_header_shape a p h p1 :
  body p = None -> chunked p = false -> content_length p = 0 ->
  parse_header a p h = (p1, PSOk) -> head_result_shape p1.
Proof.
  intros Hb Hc Hl. rewrite parse_header_eq.
  destruct (find h CRLF); [|discriminate]. cbv zeta.
  destruct (has_cr_or_lf _); [discriminate|].
  destruct (get_header_lines _); [discriminate|].
  destruct (add_header_lines _ l) as [[e h0]|h1]; [discriminate|].
  destruct (crack_first_line _) as [[[cmd uri] ver]|]; [|discriminate].
  destruct (beqb cmd [] && beqb uri [] && beqb ver []); [discriminate|].
  apply ph_mid_shape; psimpl; auto.
Qed.

(* ------------------------------------------------------------------ *)
(* no exception other than the two caught ones leaves parse_header *)
Lemma split_uri_no_escape u : split_uri u <> SEscapes.
Proof.
  unfold split_uri. destruct (beqb _ _).
  - repeat match goal with
           | |- context [match ?x with _ => _ end] =>
             lazymatch x with
             | context [match _ with _ => _ end] => fail
             | _ => destruct x
             end
           end; discriminate.
  - destruct (urlsplit u); discriminate.
Qed.

Lemma ph_tail_no_escape p : snd (ph_tail p) <> PSEscapes /\ snd (ph_tail p) <> PSUnmodelled.
Proof. unfold ph_tail. repeat ph_step; cbn [snd]; split; discriminate. Qed.

Lemma parse_header_no_escape a p h : snd (parse_header a p h) <> PSEscapes.
Proof.
  rewrite parse_header_eq.
  destruct (find h CRLF); [|discriminate]. cbv zeta.
  destruct (has_cr_or_lf _); [discriminate|].
  destruct (get_header_lines _); [discriminate|].
  destruct (add_header_lines _ l) as [[e h0]|h1]; [discriminate|].
  destruct (crack_first_line _) as [[[cmd uri] ver]|]; [|discriminate].
  destruct (beqb cmd [] && beqb uri [] && beqb ver []); [discriminate|].
  unfold ph_mid. pose proof (split_uri_no_escape uri) as E.
  destruct (split_uri uri) as [sc nl pa qu fr| | |]; try discriminate; [|congruence].
  cbv zeta. destruct (ph_v11 _ h1 ver _) as [p2 [e|]]; [discriminate|].
  apply ph_tail_no_escape.
Qed.

(* ------------------------------------------------------------------ *)
(* well-formed parser states and totality of received() *)

(* a parser that is still reading its head: everything but the two carry
   fields is as in a fresh parser *)
Definition P0 (hp : bytes) : parser :=
  parser_init <| header_plus := hp |> <| header_bytes_received := lenN hp |>.

Lemma fake_head_ok a hp n :
  snd (parse_header a (P0 hp <| header_bytes_received := n |>) fake_head_431) = PSOk.
Proof. vm_compute. reflexivity. Qed.

Definition wf_body (a : adj) (p : parser) : Prop :=
  match body p with
  | None => exists hp, p = P0 hp /\ find hp CRLFCRLF = None
  | Some (BFixed f) =>
      headers_finished p = true /\ f_completed f = false /\ 1 <= f_remain f
  | Some (BChunked c) =>
      headers_finished p = true /\ wf_c c /\ c_completed c = false /\ c_error c = None /\
      (Z.of_nat (phi c) <= body_bytes_received p)%Z /\ chunked p = true
  end.

Definition wf_p (a : adj) (p : parser) : Prop :=
  completed p = false /\ error p = None /\ wf_body a p /\
  (header_plus p = [] \/ lenN (header_plus p) < max_request_header_size a) /\
  (body_bytes_received p = 0 \/ body_bytes_received p < Z.of_N (max_request_body_size a))%Z.

Lemma wf_p_init a : wf_p a parser_init.
Proof.
  unfold wf_p, wf_body. cbn. repeat split; auto. exists []. repeat split.
Qed.

Lemma P0_app hp data :
  P0 hp <| header_bytes_received := lenN hp + lenN data |> <| header_plus := hp ++ data |> = P0 (hp ++ data).
Proof. unfold P0. rewrite lenN_app. reflexivity. Qed.

(* header mode *)
Lemma received_head_total a hp data :
  find hp CRLFCRLF = None -> (hp = [] \/ lenN hp < max_request_header_size a) -> data <> [] ->
  received a (P0 hp) data = RUnmodelled \/
  exists p' n, received a (P0 hp) data = ROk p' n /\ (1 <= n <= Z.of_nat (length data))%Z /\
               (completed p' = true \/ wf_p a p').
Proof.
  intros Hf Hl Hd.
  assert (Ld : 1 <= lenN data) by (destruct data; [congruence | rewrite lenN_cons; lia]).
  unfold received. change (completed (P0 hp)) with false. change (body (P0 hp)) with (@None body_rcv).
  cbv iota. change (header_plus (P0 hp)) with hp. change (header_bytes_received (P0 hp)) with (lenN hp).
  cbv zeta.
  destruct (find_double_newline (hp ++ data)) as [i|] eqn:Hi.
  - cbv beta iota zeta. apply fdn_Some in Hi as (j & Hj & ->).
    pose proof (find_bound _ _ _ Hj) as B1. change (length CRLFCRLF) with 4%nat in B1.
    pose proof (find_app_none_l _ _ _ _ Hf Hj) as B2. change (length CRLFCRLF) with 4%nat in B2.
    rewrite app_length in B1.
    assert (Hn : (1 <= Z.of_N (lenN data) - (Z.of_nat (length (hp ++ data)) - Z.of_nat (j + 4))
                  <= Z.of_nat (length data))%Z).
    { rewrite app_length. unfold lenN. lia. }
    set (n := (Z.of_N (lenN data) - (Z.of_nat (length (hp ++ data)) - Z.of_nat (j + 4)))%Z) in *.
    set (p' := P0 hp <| header_bytes_received := N.of_nat (j + 4) |>).
    destruct (max_request_header_size a <=? N.of_nat (j + 4)) eqn:Hmax.
    + pose proof (fake_head_ok a hp (N.of_nat (j + 4))) as Fk.
      destruct (parse_header a p' fake_head_431) as [p1 st] eqn:E. subst p'. cbv beta in Fk. rewrite E in Fk.
      cbn [snd] in Fk. subst st.
      right. eexists _, _. split; [reflexivity|]. split; [exact Hn|]. left. reflexivity.
    + destruct (lstrip_by _ _) as [|h0 hs] eqn:Hstrip.
      * right. eexists _, _. split; [reflexivity|]. split; [exact Hn|]. left. reflexivity.
      * pose proof (parse_header_no_escape a p' (h0 :: hs)) as NE.
        pose proof (parse_header_frame a p' (h0 :: hs)) as Fr.
        pose proof (parse_header_shape a p' (h0 :: hs)) as Sh.
        destruct (parse_header a p' (h0 :: hs)) as [p1 st]. cbn [fst snd] in *.
        destruct st as [|e| |].
        -- right.
           destruct Fr as (F1 & F2 & F3 & F4 & F5 & F6 & F7).
           specialize (Sh p1 eq_refl eq_refl eq_refl eq_refl).
           eexists _, _. split; [reflexivity|]. split; [exact Hn|].
           destruct Sh as [(S1 & S2 & S3)|[(S1 & S2 & S3)|(S1 & S2 & S3)]].
           ++ left. rewrite S1. psimpl. rewrite S3. cbn. reflexivity.
           ++ right. rewrite S1. psimpl. rewrite S3. cbn [N.ltb N.compare andb].
              unfold wf_p, wf_body. psimpl. rewrite S1, F1, F7, F4, F6.
              split; [reflexivity|]. split; [reflexivity|]. split; [|split; [exact Hl | left; reflexivity]].
              split; [reflexivity|]. split; [apply wf_init|]. split; [reflexivity|]. split; [reflexivity|].
              split; [cbn; lia | exact S2].
           ++ rewrite S3. psimpl.
              destruct ((0 <? content_length p1) && (max_request_body_size a <=? content_length p1)) eqn:Hb.
              ** left. reflexivity.
              ** right. unfold wf_p, wf_body. psimpl. rewrite S3, F1, F7, F4, F6.
                 split; [reflexivity|]. split; [reflexivity|]. split; [|split; [exact Hl | left; reflexivity]].
                 split; [reflexivity|]. split; [reflexivity|]. cbn [fixed_init f_remain]. lia.
        -- right. eexists _, _. split; [reflexivity|]. split; [exact Hn|]. left. reflexivity.
        -- congruence.
        -- left. reflexivity.
  - cbv beta iota zeta. apply fdn_None in Hi.
    assert (Hn : (1 <= Z.of_N (lenN data) <= Z.of_nat (length data))%Z) by (unfold lenN in *; lia).
    destruct (max_request_header_size a <=? lenN hp + lenN data) eqn:Hmax.
    + pose proof (fake_head_ok a hp (lenN hp + lenN data)) as Fk.
      cbv beta in Fk. destruct (parse_header a _ fake_head_431) as [p1 st] eqn:E.
      cbn [snd] in Fk. subst st.
      right. eexists _, _. split; [reflexivity|]. split; [exact Hn|]. left. reflexivity.
    + right. eexists _, _. split; [reflexivity|]. split; [exact Hn|]. right.
      rewrite P0_app. apply N.leb_gt in Hmax.
      unfold wf_p, wf_body. change (body (P0 (hp ++ data))) with (@None body_rcv).
      change (header_plus (P0 (hp ++ data))) with (hp ++ data).
      repeat split; auto.
      * exists (hp ++ data). auto.
      * right. rewrite lenN_app. lia.
Qed.

Lemma received_body_total a p br data :
  wf_p a p -> body p = Some br -> data <> [] ->
  exists p' n, received a p data = ROk p' n /\ (1 <= n <= Z.of_nat (length data))%Z /\
               (completed p' = true \/ wf_p a p').
Proof.
  intros (Wc & We & Wb & Wh & Wbb) Hb Hd. unfold wf_body in Wb. rewrite Hb in Wb.
  unfold received. rewrite Wc, Hb. cbv iota.
  destruct br as [f|c].
  - destruct Wb as (Hhf & Hfc & Hfr).
    pose proof (fixed_received_spec f data Hfr Hd) as S.
    destruct (fixed_received f data) as [f' n]. cbv beta iota zeta.
    destruct S as (Bn & Sf).
    destruct (Z.of_N (max_request_body_size a) <=? body_bytes_received p + n)%Z eqn:Hmax.
    + eexists _, _. split; [reflexivity|]. split; [exact Bn|]. left. reflexivity.
    + apply Z.leb_gt in Hmax.
      destruct (f_completed f') eqn:Hc'.
      * eexists _, _. split; [reflexivity|]. split; [exact Bn|]. left.
        psimpl. destruct (chunked p); reflexivity.
      * eexists _, _. split; [reflexivity|]. split; [exact Bn|]. right.
        destruct Sf as [Sf|(S1 & S2 & S3)]; [congruence|].
        unfold wf_p, wf_body. psimpl.
        split; [exact Wc|]. split; [exact We|]. split; [|split; [exact Wh | right; exact Hmax]].
        split; [exact Hhf|]. split; [exact Hc' | exact S2].
  - destruct Wb as (Hhf & Wfc & Hcc & Hce & Hphi & Hch).
    destruct (chunked_received_spec c data Wfc Hcc Hd) as (c' & n & E & W' & Bn & Ph & Hall).
    rewrite E. cbv beta iota zeta.
    destruct (Z.of_N (max_request_body_size a) <=? body_bytes_received p + n)%Z eqn:Hmax.
    + eexists _, _. split; [reflexivity|]. split; [exact Bn|]. left. reflexivity.
    + apply Z.leb_gt in Hmax.
      destruct (c_error c') eqn:He'.
      * eexists _, _. split; [reflexivity|]. split; [exact Bn|]. left. reflexivity.
      * destruct (c_completed c') eqn:Hc'.
        -- eexists _, _. split; [reflexivity|]. split; [exact Bn|]. left.
           psimpl. destruct (chunked p); reflexivity.
        -- eexists _, _. split; [reflexivity|]. split; [exact Bn|]. right.
           unfold wf_p, wf_body. psimpl.
           split; [exact Wc|]. split; [exact We|]. split; [|split; [exact Wh | right; exact Hmax]].
           split; [exact Hhf|]. split; [exact W'|]. split; [exact Hc'|]. split; [exact He'|].
           split; [lia | exact Hch].
Qed.

(* HTTPRequestParser.received on a well-formed, not completed parser and a
   non-empty read: no exception escapes, the chunked loop does not run out of
   fuel, between 1 and len(data) bytes are consumed, and the parser is either
   completed or well-formed again.  (RUnmodelled: request-targets with a
   bracketed host, which UrlSplit.v does not model.) *)
Theorem received_total a p data : wf_p a p -> data <> [] ->
  received a p data = RUnmodelled \/
  exists p' n, received a p data = ROk p' n /\ (1 <= n <= Z.of_nat (length data))%Z /\
               (completed p' = true \/ wf_p a p').
Proof.
  intros W Hd. destruct (body p) as [br|] eqn:Hb.
  - right. eapply received_body_total; eauto.
  - destruct W as (Wc & We & Wb & Wh & Wbb). unfold wf_body in Wb. rewrite Hb in Wb.
    destruct Wb as (hp & -> & Hf). apply received_head_total; auto.
Qed.
