(* HTTPRequestParser.received: structure of parse_header (frame conditions,
   independence of the carry field header_plus, never "escapes"), totality of
   received() with bounds on the consumed count, preservation of the
   well-formedness of the parser state, the limit theorems and boundedness of
   the carry state. *)
From Coq Require Import List NArith ZArith Bool Lia Arith.
From RecordUpdate Require Import RecordUpdate.
From WV Require Import Lib.PyBytes Lib.Regex Gen.GenRegex Model.Receiver Model.UrlSplit Model.Parser
  Proof.PyBytesFacts Proof.ReceiverTotal.
Import ListNotations.
Local Open Scope N_scope.

Definition hp_set (x : bytes) (p : parser) : parser := p <| header_plus := x |>.

Ltac psimpl := cbn [set Parser.completed Parser.empty Parser.expect_continue Parser.headers_finished
  Parser.header_plus Parser.chunked Parser.content_length Parser.header_bytes_received Parser.body_bytes_received
  Parser.body Parser.version Parser.error Parser.connection_close Parser.headers Parser.first_line Parser.command
  Parser.request_uri Parser.p_scheme Parser.p_netloc Parser.path Parser.query Parser.fragment Parser.url_scheme] in *.

Ltac ph_step :=
  match goal with
  | |- context [match ?x with _ => _ end] =>
    lazymatch x with
    | context [match _ with _ => _ end] => fail
    | _ => destruct x eqn:?; psimpl
    end
  end.

(* the pieces of parse_header, copied literally *)
Definition ph_v11 (p : parser) (h1 : hdict) (ver connection : bytes) : parser * option perr :=
              if beqb ver s_1_1 then
                let te := hget_default h1 s_TRANSFER_ENCODING [] in
                let p := p <| headers := hpop h1 s_TRANSFER_ENCODING |> in
                let encs := te_encodings te in
                if negb (forallb (fun e => beqb e s_chunked) encs) then (p, Some ETENotSupported)
                else
                  let r : parser * option perr :=
                    match encs with
                    | [] => (p, None)
                    | _ =>
                      if negb (length encs =? 1)%nat then (p, Some ETEMultipleChunked)
                      else
                        let p := p <| chunked := true |> <| body := Some (BChunked chunked_init) |> in
                        let cl := hget (headers p) s_CONTENT_LENGTH in
                        let p := p <| headers := hpop (headers p) s_CONTENT_LENGTH |> in
                        (match cl with Some _ => p <| connection_close := true |> | None => p end, None)
                    end in
                  match r with
                  | (p, Some e) => (p, Some e)
                  | (p, None) =>
                    let expect := lower_latin1 (hget_default (headers p) s_EXPECT []) in
                    let p := p <| expect_continue := beqb expect s_100_continue |> in
                    let p := if beqb (lower_latin1 connection) s_close
                             then p <| connection_close := true |> else p in
                    (p, None)
                  end
              else (p, None).

Definition ph_tail (p : parser) : parser * ph_status :=
              if chunked p then (p, PSOk)
              else
                let cl := hget_default (headers p) s_CONTENT_LENGTH s_0 in
                if negb (matches gate_content_length cl) then (p, PSError EContentLengthInvalid)
                else if int_max_str_digits <? lenN cl then (p, PSError EContentLengthInvalid)
                else
                  let n := dec_value cl in
                  let p := p <| content_length := n |> in
                  (if 0 <? n then p <| body := Some (BFixed (fixed_init n)) |> else p, PSOk).

Definition ph_mid (a : adj) (p : parser) (h1 : hdict) (uri ver : bytes) : parser * ph_status :=
          match split_uri uri with
          | SBadURI => (p, PSError EBadURI)
          | SEscapes => (p, PSEscapes)
          | SUnmodelled => (p, PSUnmodelled)
          | SOk sc nl pa qu fr =>
            let p := p <| p_scheme := sc |> <| p_netloc := nl |> <| path := pa |>
                       <| query := qu |> <| fragment := fr |> <| url_scheme := adj_url_scheme a |> in
            let connection := hget_default h1 s_CONNECTION [] in
            let p := if beqb ver s_1_0 && negb (beqb (lower_latin1 connection) s_keep_alive)
                     then p <| connection_close := true |> else p in
            match ph_v11 p h1 ver connection with
            | (p, Some e) => (p, PSError e)
            | (p, None) => ph_tail p
            end
          end.

Lemma parse_header_eq a p hp :
  parse_header a p hp =
  match find hp CRLF with
  | None => (p, PSError EHeaderInvalid)
  | Some index =>
    let fl := rstrip_by is_bytes_ws (firstn index hp) in
    let header := skipn (index + 2) hp in
    if has_cr_or_lf fl then (p, PSError EBareCRLFFirstLine)
    else
    let p := p <| first_line := fl |> in
    match get_header_lines header with
    | inl e => (p, PSError e)
    | inr lines =>
      match add_header_lines (headers p) lines with
      | inl (e, h) => (p <| headers := h |>, PSError e)
      | inr h1 =>
        let p := p <| headers := h1 |> in
        match crack_first_line fl with
        | None => (p, PSError EMalformedMethod)
        | Some (cmd, uri, ver) =>
          if beqb cmd [] && beqb uri [] && beqb ver [] then (p, PSError EStartLineInvalid)
          else
          let p := p <| request_uri := uri |> <| command := cmd |> <| version := ver |> in
          ph_mid a p h1 uri ver
        end
      end
    end
  end.
Proof. reflexivity. Qed.

Lemma ph_v11_hp x p h1 ver c :
  ph_v11 (hp_set x p) h1 ver c = let '(p1, e) := ph_v11 p h1 ver c in (hp_set x p1, e).
Proof. unfold ph_v11, hp_set. psimpl. repeat ph_step; reflexivity. Qed.

Lemma ph_tail_hp x p :
  ph_tail (hp_set x p) = let '(p1, e) := ph_tail p in (hp_set x p1, e).
Proof. unfold ph_tail, hp_set. psimpl. repeat ph_step; reflexivity. Qed.

Lemma ph_mid_hp a x p h1 uri ver :
  ph_mid a (hp_set x p) h1 uri ver = let '(p1, e) := ph_mid a p h1 uri ver in (hp_set x p1, e).
Proof.
  unfold ph_mid. destruct (split_uri uri) as [sc nl pa qu fr| | |]; try reflexivity.
  cbv zeta.
  set (c := hget_default h1 s_CONNECTION []).
  set (q0 := p <| p_scheme := sc |> <| p_netloc := nl |> <| path := pa |>
               <| query := qu |> <| fragment := fr |> <| url_scheme := adj_url_scheme a |>).
  destruct (beqb ver s_1_0 && negb (beqb (lower_latin1 c) s_keep_alive)).
  - change (ph_v11 (hp_set x p <| p_scheme := sc |> <| p_netloc := nl |> <| path := pa |>
               <| query := qu |> <| fragment := fr |> <| url_scheme := adj_url_scheme a |>
               <| connection_close := true |>) h1 ver c) with
      (ph_v11 (hp_set x (q0 <| connection_close := true |>)) h1 ver c).
    rewrite ph_v11_hp. destruct (ph_v11 _ h1 ver c) as [p1 [e|]]; [reflexivity|]. apply ph_tail_hp.
  - change (ph_v11 (hp_set x p <| p_scheme := sc |> <| p_netloc := nl |> <| path := pa |>
               <| query := qu |> <| fragment := fr |> <| url_scheme := adj_url_scheme a |>) h1 ver c) with
      (ph_v11 (hp_set x q0) h1 ver c).
    rewrite ph_v11_hp. destruct (ph_v11 _ h1 ver c) as [p1 [e|]]; [reflexivity|]. apply ph_tail_hp.
Qed.

Lemma parse_header_hp a p x h :
  parse_header a (hp_set x p) h =
  let '(p1, st) := parse_header a p h in (hp_set x p1, st).
Proof.
  rewrite !parse_header_eq.
  destruct (find h CRLF); [|reflexivity]. cbv zeta.
  destruct (has_cr_or_lf _); [reflexivity|].
  destruct (get_header_lines _); [reflexivity|].
  change (headers (hp_set x p <| first_line := rstrip_by is_bytes_ws (firstn n h) |>)) with (headers p).
  change (headers (p <| first_line := rstrip_by is_bytes_ws (firstn n h) |>)) with (headers p).
  destruct (add_header_lines (headers p) l) as [[e h0]|h1]; [reflexivity|].
  destruct (crack_first_line _) as [[[cmd uri] ver]|]; [|reflexivity].
  destruct (beqb cmd [] && beqb uri [] && beqb ver []); [reflexivity|].
  exact (ph_mid_hp a x (p <| first_line := rstrip_by is_bytes_ws (firstn n h) |> <| headers := h1 |>
                          <| request_uri := uri |> <| command := cmd |> <| version := ver |>) h1 uri ver).
Qed.

(* ------------------------------------------------------------------ *)
(* frame: what parse_header never touches *)
Definition frame (p p1 : parser) : Prop :=
  completed p1 = completed p /\ empty p1 = empty p /\ headers_finished p1 = headers_finished p /\
  header_plus p1 = header_plus p /\ header_bytes_received p1 = header_bytes_received p /\
  body_bytes_received p1 = body_bytes_received p /\ error p1 = error p.

Lemma frame_refl p : frame p p.
Proof. unfold frame; tauto. Qed.

Lemma frame_trans p q r : frame p q -> frame q r -> frame p r.
Proof. unfold frame. intuition congruence. Qed.

Ltac frame_tac := unfold frame; psimpl; repeat split; reflexivity.

Lemma ph_v11_frame p h1 ver c : frame p (fst (ph_v11 p h1 ver c)).
Proof. unfold ph_v11. repeat ph_step; cbn [fst]; frame_tac. Qed.

Lemma ph_tail_frame p : frame p (fst (ph_tail p)).
Proof. unfold ph_tail. repeat ph_step; cbn [fst]; frame_tac. Qed.

Lemma ph_mid_frame a p h1 uri ver : frame p (fst (ph_mid a p h1 uri ver)).
Proof.
  unfold ph_mid. destruct (split_uri uri) as [sc nl pa qu fr| | |]; try apply frame_refl.
  cbv zeta. set (c := hget_default h1 s_CONNECTION []).
  match goal with |- context [ph_v11 ?q h1 ver c] => set (q1 := q) end.
  assert (F1 : frame p q1) by (subst q1; destruct (_ && _); frame_tac).
  pose proof (ph_v11_frame q1 h1 ver c) as F2.
  destruct (ph_v11 q1 h1 ver c) as [p1 [e|]]; cbn [fst] in *.
  - eapply frame_trans; eauto.
  - eapply frame_trans; [|apply ph_tail_frame]. eapply frame_trans; eauto.
Qed.

Lemma parse_header_frame a p h : frame p (fst (parse_header a p h)).
Proof.
  rewrite parse_header_eq.
  destruct (find h CRLF); [|apply frame_refl]. cbv zeta.
  destruct (has_cr_or_lf _); [apply frame_refl|].
  destruct (get_header_lines _); [frame_tac|].
  destruct (add_header_lines _ l) as [[e h0]|h1]; [frame_tac|].
  destruct (crack_first_line _) as [[[cmd uri] ver]|]; [|frame_tac].
  destruct (beqb cmd [] && beqb uri [] && beqb ver []); [frame_tac|].
  eapply frame_trans; [|apply ph_mid_frame]. frame_tac.
Qed.

(* ------------------------------------------------------------------ *)
(* which body receiver a successful parse_header leaves *)
Definition body_shape (p p1 : parser) : Prop :=
  (body p1 = body p /\ chunked p1 = chunked p /\ content_length p1 = content_length p) \/
  (body p1 = Some (BChunked chunked_init) /\ chunked p1 = true /\ content_length p1 = content_length p).

Lemma ph_v11_shape p h1 ver c : body_shape p (fst (ph_v11 p h1 ver c)).
Proof.
  unfold ph_v11. repeat ph_step; cbn [fst]; unfold body_shape; psimpl;
    first [left; repeat split; reflexivity | right; repeat split; reflexivity].
Qed.

Definition tail_shape (p p1 : parser) : Prop :=
  (chunked p = true /\ p1 = p) \/
  (chunked p = false /\ chunked p1 = false /\ content_length p1 = 0 /\ body p1 = body p) \/
  (chunked p = false /\ chunked p1 = false /\ 0 < content_length p1 /\
   body p1 = Some (BFixed (fixed_init (content_length p1)))).

Lemma ph_tail_shape p p1 : ph_tail p = (p1, PSOk) -> tail_shape p p1.
Proof.
  unfold ph_tail, tail_shape.
  destruct (chunked p) eqn:Hc.
  - intros H; injection H as <-. left; auto.
  - destruct (negb _); [discriminate|]. destruct (_ <? _); [discriminate|]. cbv zeta.
    destruct (0 <? dec_value _) eqn:Hn; intros H; injection H as <-; psimpl; right.
    + right. apply N.ltb_lt in Hn. repeat split; auto.
    + left. apply N.ltb_ge in Hn. repeat split; auto. lia.
Qed.

Definition head_result_shape (p1 : parser) : Prop :=
  (body p1 = None /\ chunked p1 = false /\ content_length p1 = 0) \/
  (body p1 = Some (BChunked chunked_init) /\ chunked p1 = true /\ content_length p1 = 0) \/
  (chunked p1 = false /\ 0 < content_length p1 /\ body p1 = Some (BFixed (fixed_init (content_length p1)))).

Lemma ph_mid_shape a p h1 uri ver p1 :
  body p = None -> chunked p = false -> content_length p = 0 ->
  ph_mid a p h1 uri ver = (p1, PSOk) -> head_result_shape p1.
Proof.
  intros Hb Hc Hl. unfold ph_mid.
  destruct (split_uri uri) as [sc nl pa qu fr| | |]; try discriminate.
  cbv zeta. set (c := hget_default h1 s_CONNECTION []).
  match goal with |- context [ph_v11 ?q h1 ver c] => set (q1 := q) end.
  assert (B1 : body q1 = None /\ chunked q1 = false /\ content_length q1 = 0).
  { subst q1; destruct (_ && _); psimpl; auto. }
  pose proof (ph_v11_shape q1 h1 ver c) as S.
  destruct (ph_v11 q1 h1 ver c) as [p2 [e|]]; cbn [fst] in *; [discriminate|].
  intros T. apply ph_tail_shape in T. unfold head_result_shape.
  destruct B1 as (B1 & B2 & B3).
  destruct S as [(S1 & S2 & S3)|(S1 & S2 & S3)]; destruct T as [(T1 & ->)|[(T1 & T2 & T3 & T4)|(T1 & T2 & T3 & T4)]];
    try congruence.
  - left. repeat split; congruence.
  - right; right. auto.
  - right; left. repeat split; congruence.
Qed.

Lemma parse_header_shape a p h p1 :
  body p = None -> chunked p = false -> content_length p = 0 ->
  parse_header a p h = (p1, PSOk) -> head_result_shape p1.
Proof.
  intros Hb Hc Hl. rewrite parse_header_eq.
  destruct (find h CRLF); [|discriminate]. cbv zeta.
  destruct (has_cr_or_lf _); [discriminate|].
  destruct (get_header_lines _); [discriminate|].
  destruct (add_header_lines _ l) as [[e h0]|h1]; [discriminate|].
  destruct (crack_first_line _) as [[[cmd uri] ver]|]; [|discriminate].
  destruct (beqb cmd [] && beqb uri [] && beqb ver []); [discriminate|].
  apply ph_mid_shape; psimpl; auto.
Qed.

(* ------------------------------------------------------------------ *)
(* no exception other than the two caught ones leaves parse_header *)
Lemma split_uri_no_escape u : split_uri u <> SEscapes.
Proof.
  unfold split_uri. destruct (beqb _ _).
  - destruct (find u [35%N]); destruct (find _ [63%N]); discriminate.
  - destruct (urlsplit u); discriminate.
Qed.

Lemma ph_tail_no_escape p : snd (ph_tail p) <> PSEscapes /\ snd (ph_tail p) <> PSUnmodelled.
Proof. unfold ph_tail. repeat ph_step; cbn [snd]; split; discriminate. Qed.

Lemma parse_header_no_escape a p h : snd (parse_header a p h) <> PSEscapes.
Proof.
  rewrite parse_header_eq.
  destruct (find h CRLF); [|discriminate]. cbv zeta.
  destruct (has_cr_or_lf _); [discriminate|].
  destruct (get_header_lines _); [discriminate|].
  destruct (add_header_lines _ l) as [[e h0]|h1]; [discriminate|].
  destruct (crack_first_line _) as [[[cmd uri] ver]|]; [|discriminate].
  destruct (beqb cmd [] && beqb uri [] && beqb ver []); [discriminate|].
  unfold ph_mid. pose proof (split_uri_no_escape uri) as E.
  destruct (split_uri uri) as [sc nl pa qu fr| | |]; try discriminate; [|congruence].
  cbv zeta. destruct (ph_v11 _ h1 ver _) as [p2 [e|]]; [discriminate|].
  apply ph_tail_no_escape.
Qed.
