(* Proof/ChanFlowFlags.v -- L2: connected / closed / in_map.  The outbufs are closed
   (closed_bufs, ghost) only by handle_close under outbuf_lock; connected is
   False from the next step on; total_outbufs_len never becomes positive again. *)
From Coq Require Import List ZArith Bool Arith Lia.
From WV Require Import Lib.Conc Model.ChanFlow Proof.ChanFlow Proof.ChanFlowReq.
Import ListNotations.
Local Open Scope Z_scope.

Definition hc_after (pc : iopc) : bool :=
  match pc with IoHcConn _ | IoHcNotify _ | IoHcRel _ | IoHcClose _ | IoEof => true | _ => false end.
Definition is_hcconn (pc : iopc) : bool := match pc with IoHcConn _ => true | _ => false end.
Definition is_wadd (pc : wpc) : bool := match pc with WAdd _ => true | _ => false end.

Definition hc_mid (pc : iopc) : bool :=
  match pc with IoHcConn _ | IoHcNotify _ | IoHcRel _ | IoHcClose _ => true | _ => false end.
(* program points the I/O thread can only be at while the outbufs are open *)
Definition io_pre (pc : iopc) : bool :=
  match pc with
  | IoRd1 | IoRd2 | IoRd3 | IoRd4 | IoWr1 _ | IoWr2 _ | IoWr3 _ | IoRecv _
  | IoRcvAcq _ | IoRcvWc _ | IoRcvCwf _ | IoRcvApp _ | IoRcvRel _
  | IoHw1 | IoHw2 | IoHw2b | IoTry | IoFlush | IoSubL _ | IoRelX | IoHwExn => true
  | IoSel r w => r || w
  | _ => false
  end.

Definition L2 (s : state) : Prop :=
  (closed_bufs s = false -> connected s = true /\ in_map s = true /\ sock_closed s = false)
  /\ (hc_after (io s) = true -> closed_bufs s = true)
  /\ (closed_bufs s = true -> connected s = true -> is_hcconn (io s) = true)
  /\ (in_map s = false -> connected s = false /\ sock_closed s = true)
  /\ (sock_closed s = true -> in_map s = false)
  /\ (closed_bufs s = true -> total s <= 0 /\ is_wadd (wk s) = false)
  /\ (closed_bufs s = true -> in_map s = true -> hc_mid (io s) = true)
  /\ (io_pre (io s) = true -> closed_bufs s = false)
  /\ match wk s with WSub _ k => 0 <= k | _ => True end.

Lemma L2_init : L2 init.
Proof. unfold L2, init; cbn; repeat split; intros; try discriminate; lia. Qed.

Lemma not_holds_not_wadd pc : w_holds pc = false -> is_wadd pc = false.
Proof. destruct pc; cbn; congruence. Qed.

Lemma hcconn_holds pc : is_hcconn pc = true -> io_holds pc = true.
Proof. destruct pc; cbn; congruence. Qed.
Ltac hcc := match goal with H : is_hcconn ?x = true |- _ =>
  let HH := fresh in pose proof (hcconn_holds _ H) as HH; rewrite HH in *; cbn in *; try discriminate; try congruence end.

Ltac absurd_hyp := match goal with H : true = false |- _ => discriminate H | H : false = true |- _ => discriminate H end.
Ltac fin2 := dk; unfold L2; unf; cbn; gifs; cbn; repeat split; try assumption; intros;
  spec; conj; try assumption; try absurd_hyp; try exact I;
  b2p; subst; cbn in *; rewrite ?orb_true_r in *; spec; conj; try exact I; try assumption; try absurd_hyp; try zl;
  try (apply not_holds_not_wadd; assumption); try hcc;
  try (match goal with |- ?b = _ => is_var b; destruct b; try reflexivity; exfalso; spec; conj; try absurd_hyp; try zl end).

Lemma L2_step_io p s r res s' l : L0 s -> L2 s -> step_io p s r res = Some (s', l) -> L2 s'.
Proof.
  intros H0 H E. ds s. unfold L2 in H. unfold L0 in H0. cbn in H, H0.
  destruct H0 as (Ho & Hc & Hx & _).
  destruct H as (H1 & H2 & H3 & H4 & H5 & H6 & H7 & H8 & H9).
  unfold step_io in E. cbn [ChanFlow.io] in E.
  destruct io0; cbn in H2, H3, H7, H8, Ho, Hc, Hx.
  all: cbn in E; unf; cbn in E.
  all: split_ifs E; try discriminate; try inv_some.
  all: fin2.
Qed.

Lemma L2_step_w p s r s' l : L0 s -> L2 s -> step_w p s r = Some (s', l) -> L2 s'.
Proof.
  intros H0 H E. ds s. unfold L2 in H. unfold L0 in H0. cbn in H, H0.
  destruct H0 as (Ho & Hc & Hx & _).
  destruct H as (H1 & H2 & H3 & H4 & H5 & H6 & H7 & H8 & H9).
  unfold step_w in E. cbn [ChanFlow.wk] in E.
  destruct wk0; cbn in H6, H9, Ho, Hc, Hx.
  all: cbn in E; unf; cbn in E.
  all: split_ifs E; try discriminate; try inv_some.
  all: fin2.
Qed.

Lemma L2_step p s c s' l : L0 s -> L2 s -> step p s c = Some (s', l) -> L2 s'.
Proof.
  destruct c as [r res|r|n|a]; cbn [step].
  - apply L2_step_io.
  - apply L2_step_w.
  - intros _ H E. ds s. unfold step_tail in E. destruct n as [|[|[|[|[|[|n]]]]]]; cbn in E; try discriminate.
    all: split_ifs E; try discriminate; inv_some; exact H.
  - intros _ H E. ds s. destruct a; cbn in E; split_ifs E; try discriminate; inv_some; exact H.
Qed.

Definition L02 (s : state) : Prop := L0 s /\ L2 s.

Theorem L2_all p sched : L2 (run p sched).
Proof.
  assert (H : L02 (run p sched)).
  { unfold run. apply invariant_rule. split. apply L0_init. apply L2_init.
    intros s c s' l [A B] E. split. eapply L0_step; eauto. eapply L2_step; eauto. }
  apply H.
Qed.
