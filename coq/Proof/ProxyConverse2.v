(* C16 extension, part 2: writing the selection into the environ in closed form,
   and the exact characterisation of a trusted peer's request: refused exactly
   when Spec.refusal_reason says so (with the header it names), otherwise handed
   on with exactly the environ Spec.spec_out describes, key by key. *)
From Coq Require Import String.
From Coq Require Import List NArith ZArith Bool Lia.
From WV Require Import Lib.PyBytes Lib.PyStrProxy Lib.Regex Gen.GenRegex Spec.Grammar Model.Proxy
  Spec.ProxySpec Proof.ProxyDict Proof.ProxyStr Proof.ProxyStages Proof.ProxyTotal Proof.ProxyHops
  Proof.ProxyCats Proof.ProxyConverse1.
Import ListNotations.
Local Open Scope N_scope.

Definition cstr (o : option str) : str := match o with Some c => c | None => [] end.
Definition sel_of (s : pst) : selection :=
  {| sel_client := cstr (client s); sel_host := fhost s; sel_proto := fproto s; sel_port := fport s |}.

(* ---- the selection of the model's state is the specification's ----------------------------------- *)
Lemma pure_by_proj tph s : client (pure_by tph s) = client s /\ fhost (pure_by tph s) = fhost s /\
  fproto (pure_by tph s) = fproto s /\ fport (pure_by tph s) = fport s.
Proof. unfold pure_by. destruct (has tph n_xfby); auto. Qed.
Lemma pure_port_proj tph s : client (pure_port tph s) = client s /\ fhost (pure_port tph s) = fhost s /\
  fproto (pure_port tph s) = fproto s.
Proof. unfold pure_port. destruct (has tph n_xfport); auto. Qed.
Lemma pure_proto_proj tph s : client (pure_proto tph s) = client s /\ fhost (pure_proto tph s) = fhost s /\
  fport (pure_proto tph s) = fport s.
Proof. unfold pure_proto. destruct (has tph n_xfproto); auto. Qed.
Lemma pure_xfh_proj p tph s : client (pure_xfh p tph s) = client s /\ fproto (pure_xfh p tph s) = fproto s /\
  fport (pure_xfh p tph s) = fport s.
Proof. unfold pure_xfh. destruct (has tph n_xfh); [|auto]. destruct (lookup k_xfh (env s)); auto. Qed.
Lemma pure_xff_proj p tph s : fhost (pure_xff p tph s) = fhost s /\ fproto (pure_xff p tph s) = fproto s /\
  fport (pure_xff p tph s) = fport s.
Proof. unfold pure_xff. destruct (has tph n_xff); [|auto]. destruct (lookup k_xff (env s)); auto. Qed.

Lemma pre_fwd_client p tph e : cstr (client (pre_fwd p tph e)) = xf_client tph (Pos.to_nat p) e.
Proof.
  unfold pre_fwd.
  destruct (pure_by_proj tph (pure_port tph (pure_proto tph (pure_xfh p tph (pure_xff p tph (init_pst e)))))) as (-> & _).
  destruct (pure_port_proj tph (pure_proto tph (pure_xfh p tph (pure_xff p tph (init_pst e))))) as (-> & _).
  destruct (pure_proto_proj tph (pure_xfh p tph (pure_xff p tph (init_pst e)))) as (-> & _).
  destruct (pure_xfh_proj p tph (pure_xff p tph (init_pst e))) as (-> & _).
  unfold pure_xff, xf_client. change (trusts tph nm_xff) with (has tph n_xff). change hk_xff with k_xff.
  cbn [init_pst env]. destruct (has tph n_xff); [|reflexivity]. destruct (lookup k_xff e); reflexivity.
Qed.

Lemma pre_fwd_host p tph e : fhost (pre_fwd p tph e) = xf_host tph (Pos.to_nat p) e.
Proof.
  assert (L : lookup k_xfh (env (pure_xff p tph (init_pst e))) = lookup k_xfh e) by (apply pure_xff_env; keq).
  destruct (pure_xff_proj p tph (init_pst e)) as (F & _). cbn [init_pst fhost] in F.
  unfold pre_fwd.
  destruct (pure_by_proj tph (pure_port tph (pure_proto tph (pure_xfh p tph (pure_xff p tph (init_pst e)))))) as (_ & -> & _).
  destruct (pure_port_proj tph (pure_proto tph (pure_xfh p tph (pure_xff p tph (init_pst e))))) as (_ & -> & _).
  destruct (pure_proto_proj tph (pure_xfh p tph (pure_xff p tph (init_pst e)))) as (_ & -> & _).
  unfold pure_xfh, xf_host. change (trusts tph nm_xfh) with (has tph n_xfh). change hk_xfh with k_xfh.
  rewrite L. destruct (has tph n_xfh); [|exact F]. destruct (lookup k_xfh e); [reflexivity|exact F].
Qed.

Lemma pre_fwd_proto p tph e : fproto (pre_fwd p tph e) = xf_single nm_xfproto hk_xfproto tph e.
Proof.
  set (s2 := pure_xfh p tph (pure_xff p tph (init_pst e))).
  assert (L : lookup k_xfproto (env s2) = lookup k_xfproto e).
  { unfold s2. rewrite pure_xfh_env, pure_xff_env by keq. reflexivity. }
  assert (F : fproto s2 = []).
  { unfold s2. destruct (pure_xfh_proj p tph (pure_xff p tph (init_pst e))) as (_ & -> & _).
    destruct (pure_xff_proj p tph (init_pst e)) as (_ & -> & _). reflexivity. }
  unfold pre_fwd. fold s2.
  destruct (pure_by_proj tph (pure_port tph (pure_proto tph s2))) as (_ & _ & -> & _).
  destruct (pure_port_proj tph (pure_proto tph s2)) as (_ & _ & ->).
  unfold pure_proto, xf_single.
  change (trusts tph nm_xfproto) with (has tph n_xfproto). change hk_xfproto with k_xfproto.
  destruct (has tph n_xfproto); [|exact F]. cbn [fproto]. rewrite (hdr_env _ _ _ L). reflexivity.
Qed.

Lemma pre_fwd_port p tph e : fport (pre_fwd p tph e) = xf_single nm_xfport hk_xfport tph e.
Proof.
  set (s2 := pure_xfh p tph (pure_xff p tph (init_pst e))).
  assert (L : lookup k_xfport (env s2) = lookup k_xfport e).
  { unfold s2. rewrite pure_xfh_env, pure_xff_env by keq. reflexivity. }
  assert (F : fport s2 = []).
  { unfold s2. destruct (pure_xfh_proj p tph (pure_xff p tph (init_pst e))) as (_ & _ & ->).
    destruct (pure_xff_proj p tph (init_pst e)) as (_ & _ & ->). reflexivity. }
  unfold pre_fwd. fold s2.
  destruct (pure_by_proj tph (pure_port tph (pure_proto tph s2))) as (_ & _ & _ & ->).
  destruct (pure_proto_proj tph s2) as (_ & _ & F3). rewrite F in F3.
  unfold pure_port, xf_single.
  change (trusts tph nm_xfport) with (has tph n_xfport). change hk_xfport with k_xfport.
  destruct (has tph n_xfport); [|exact F3]. cbn [fport]. rewrite pure_proto_env, (hdr_env _ _ _ L). reflexivity.
Qed.

Lemma sel_state_selection p tph e :
  sel_of (sel_state p tph e) = select tph (Pos.to_nat p) e /\
  opt_truthy (fwd (sel_state p tph e)) = fwd_active tph e.
Proof.
  unfold sel_state. fold (pre_fwd p tph e).
  pose proof (pre_fwd_env p tph e k_fwd eq_refl eq_refl) as L.
  pose proof (pre_fwd_fwd p tph e) as F.
  pose proof (pre_fwd_client p tph e) as Hc. pose proof (pre_fwd_host p tph e) as Hh.
  pose proof (pre_fwd_proto p tph e) as Hp. pose proof (pre_fwd_port p tph e) as Ho.
  unfold select, fwd_active, blk_fwd_get, pure_fwd, sel_of.
  change (trusts tph nm_fwd) with (has tph n_fwd). change hk_fwd with k_fwd.
  destruct (has tph n_fwd); cbn [andb fwd].
  - unfold hdr. rewrite L. destruct (lookup k_fwd e) as [[|c raw']|]; cbn [truthy client fhost fproto fport fwd opt_truthy].
    + rewrite Hc, Hh, Hp, Ho. split; reflexivity.
    + split; [|reflexivity]. f_equal. rewrite <- Hc.
      destruct (fwd_oldest t_for (c :: raw') (Pos.to_nat p)); reflexivity.
    + rewrite Hc, Hh, Hp, Ho. split; reflexivity.
  - rewrite F. cbn [opt_truthy truthy]. rewrite Hc, Hh, Hp, Ho. split; [reflexivity|rewrite F; reflexivity].
Qed.

(* ---- stage_proto ------------------------------------------------------------------------------------- *)
Lemma http_not_https l : beqb l s_http = true -> beqb l s_https = false.
Proof. intro H. apply beqb_eq in H. subst l. reflexivity. Qed.

Definition after_proto (s : pst) : pst :=
  if truthy (fproto s) then
    {| env := set k_url_scheme (lower_latin1 (fproto s)) (env s); client := client s; fhost := fhost s;
       fproto := lower_latin1 (fproto s); fport := port_before_host (sel_of s); fwd := fwd s; unt := unt s |}
  else s.

Lemma stage_proto_exact s :
  stage_proto s = if cat_scheme (fproto s) then Malformed (if opt_truthy (fwd s) then h_fwd_proto else h_xfproto)
                  else Ok (after_proto s).
Proof.
  unfold stage_proto, cat_scheme, after_proto, port_before_host. cbn [sel_of sel_proto sel_port]. cbv zeta.
  change t_http with s_http. change t_https with s_https.
  destruct (truthy (fproto s)); [|reflexivity]. cbn [andb].
  destruct (beqb (lower_latin1 (fproto s)) s_http || beqb (lower_latin1 (fproto s)) s_https) eqn:E; cbn [negb]; [|reflexivity].
  f_equal. f_equal. unfold default_port. change t_http with s_http. change t_https with s_https.
  destruct (truthy (fport s)) eqn:Ep; cbn [negb]; [reflexivity|].
  destruct (beqb (lower_latin1 (fproto s)) s_http) eqn:E1.
  - rewrite (http_not_https _ E1). reflexivity.
  - destruct (beqb (lower_latin1 (fproto s)) s_https); [reflexivity|]. apply truthy_false in Ep. exact Ep.
Qed.

(* ---- stage_host --------------------------------------------------------------------------------------- *)
Definition hh_value (h port : str) (sch : str) : str :=
  if has_port h then h
  else if truthy port && negb (port_is_default port (Some sch)) then h ++ colon :: port else h.

Lemma stage_host_exact s sch : lookup k_url_scheme (env s) = Some sch ->
  if empty_host (fhost s) then stage_host s = Malformed (if opt_truthy (fwd s) then h_fwd_host else h_xfh)
  else exists s', stage_host s = Ok s' /\ client s' = client s /\ fwd s' = fwd s /\ unt s' = unt s /\
         fport s' = (if truthy (fhost s) && has_port (fhost s) then after_last colon (fhost s) else fport s) /\
         forall key, lookup key (env s') =
           if truthy (fhost s) then
             if beqb key k_server_name then Some (server_name_value (fhost s))
             else if beqb key k_http_host then Some (hh_value (fhost s) (fport s) sch)
             else lookup key (env s)
           else lookup key (env s).
Proof.
  intro Hs. unfold stage_host. cbv zeta. destruct (truthy (fhost s)) eqn:Et.
  2:{ unfold empty_host. rewrite Et. cbn [andb]. exists s. repeat split; reflexivity. }
  destruct (last_opt_truthy _ Et) as [l El]. rewrite El.
  assert (Hhp : has_port (fhost s) = has_char c_colon (fhost s) && negb (l =? c_rbr)).
  { unfold has_port, ends_with_char. rewrite El. reflexivity. }
  rewrite (empty_host_model s l Et El). cbn [andb]. unfold server_name_value, hh_value. rewrite Hhp.
  destruct (has_char c_colon (fhost s) && negb (l =? c_rbr)) eqn:Ec.
  - pose proof Ec as Ec'. apply andb_true_iff in Ec' as [Ec' _]. unfold has_char in Ec'.
    rewrite (rsplit1_has _ _ Ec'). change c_colon with colon.
    destruct (negb (truthy (strip (before_last colon (fhost s))))); [reflexivity|].
    eexists. split; [reflexivity|]. cbn [client fwd unt fport env]. repeat split.
    + destruct (beqb (fport s) (after_last colon (fhost s))) eqn:Eb; cbn [negb]; [|reflexivity].
      apply beqb_eq in Eb. exact Eb.
    + intro key. rewrite !lookup_set. unfold host_text. rewrite Hhp.
      destruct (beqb key k_http_host) eqn:E1.
      * apply beqb_eq in E1. subst key. reflexivity.
      * destruct (beqb key k_server_name); reflexivity.
  - destruct (negb (truthy (strip (fhost s)))); [reflexivity|].
    assert (Hl2 : lookup k_url_scheme (set k_http_host (fhost s) (set k_server_name (fhost s) (env s))) = Some sch).
    { rewrite !lookup_set_other by keq. exact Hs. }
    rewrite Hl2. unfold port_is_default. change p80 with s_80. change p443 with s_443.
    change t_http with s_http. change t_https with s_https.
    assert (K : forall (b : bool) e3, (forall key, lookup key e3 =
                  if beqb key k_server_name then Some (fhost s)
                  else if beqb key k_http_host
                       then Some (if b then fhost s ++ colon :: fport s else fhost s)
                       else lookup key (env s)) ->
            exists s', Ok {| env := e3; client := client s; fhost := fhost s; fproto := fproto s; fport := fport s; fwd := fwd s; unt := unt s |} = Ok s' /\
              client s' = client s /\ fwd s' = fwd s /\ unt s' = unt s /\ fport s' = fport s /\
              forall key, lookup key (env s') =
                if beqb key k_server_name then Some (fhost s)
                else if beqb key k_http_host
                     then Some (if b then fhost s ++ colon :: fport s else fhost s)
                     else lookup key (env s)).
    { intros b e3 H3. eexists. split; [reflexivity|]. cbn [client fwd unt fport env]. repeat split. exact H3. }
    assert (Kplain : forall key, lookup key (set k_http_host (fhost s) (set k_server_name (fhost s) (env s))) =
                 if beqb key k_server_name then Some (fhost s)
                 else if beqb key k_http_host then Some (fhost s) else lookup key (env s)).
    { intro key. rewrite !lookup_set. destruct (beqb key k_http_host) eqn:E1.
      - apply beqb_eq in E1. subst key. reflexivity.
      - destruct (beqb key k_server_name); reflexivity. }
    assert (Kport : forall key, lookup key (set k_http_host (host_colon_port (fhost s) (fport s))
                                  (set k_http_host (fhost s) (set k_server_name (fhost s) (env s)))) =
                 if beqb key k_server_name then Some (fhost s)
                 else if beqb key k_http_host then Some (fhost s ++ colon :: fport s) else lookup key (env s)).
    { intro key. rewrite !lookup_set. destruct (beqb key k_http_host) eqn:E1.
      - apply beqb_eq in E1. subst key. reflexivity.
      - destruct (beqb key k_server_name); reflexivity. }
    destruct (truthy (fport s)) eqn:Ep; cbn [andb].
    2:{ cbn [bind]. apply (K false). exact Kplain. }
    destruct (beqb (fport s) s_80) eqn:E80.
    + assert (E443 : beqb (fport s) s_443 = false).
      { apply beqb_eq in E80. rewrite E80. reflexivity. }
      rewrite E443. cbn [orb negb andb].
      destruct (beqb sch s_http); cbn [negb bind orb andb]; [apply (K false); exact Kplain|apply (K true); exact Kport].
    + destruct (beqb (fport s) s_443) eqn:E443; cbn [orb negb andb].
      * destruct (beqb sch s_https); cbn [negb bind orb andb]; [apply (K false); exact Kplain|apply (K true); exact Kport].
      * cbn [bind]. apply (K true). exact Kport.
Qed.

(* ---- the whole of parse_apply --------------------------------------------------------------------------- *)
Lemma cat_scheme_lower p : cat_scheme p = false -> truthy p = true ->
  beqb (lower_latin1 p) t_http || beqb (lower_latin1 p) t_https = true.
Proof. unfold cat_scheme. intros H Ht. rewrite Ht in H. cbn [andb] in H. apply negb_false_iff in H. exact H. Qed.

Lemma meta_keys_distinct key :
  (beqb key k_remote_addr = true -> beqb key k_remote_host = false /\ beqb key k_remote_port = false /\
     beqb key k_server_name = false /\ beqb key k_server_port = false /\ beqb key k_http_host = false /\ beqb key k_url_scheme = false) /\
  (beqb key k_remote_host = true -> beqb key k_remote_port = false /\
     beqb key k_server_name = false /\ beqb key k_server_port = false /\ beqb key k_http_host = false /\ beqb key k_url_scheme = false) /\
  (beqb key k_remote_port = true ->
     beqb key k_server_name = false /\ beqb key k_server_port = false /\ beqb key k_http_host = false /\ beqb key k_url_scheme = false) /\
  (beqb key k_server_name = true -> beqb key k_server_port = false /\ beqb key k_http_host = false /\ beqb key k_url_scheme = false) /\
  (beqb key k_server_port = true -> beqb key k_http_host = false /\ beqb key k_url_scheme = false) /\
  (beqb key k_http_host = true -> beqb key k_url_scheme = false).
Proof.
  repeat match goal with |- _ /\ _ => split end; intro H; apply beqb_eq in H; subst key; repeat split; reflexivity.
Qed.

Theorem apply_exact s : has_key k_url_scheme (env s) ->
  match selection_reason (sel_of s) with
  | Some c => parse_apply s = Malformed (category_header (opt_truthy (fwd s)) c)
  | None => exists s', parse_apply s = Ok s' /\ unt s' = unt s /\
                       forall key, lookup key (env s') = meta_out (sel_of s) (env s) key
  end.
Proof.
  intro Hk. unfold selection_reason, parse_apply. cbn [sel_of sel_proto sel_host sel_client].
  rewrite stage_proto_exact. destruct (cat_scheme (fproto s)) eqn:Cs; [reflexivity|]. cbn [bind].
  set (s1 := after_proto s).
  assert (A1 : client s1 = client s /\ fhost s1 = fhost s /\ fwd s1 = fwd s /\ unt s1 = unt s /\
               fport s1 = port_before_host (sel_of s) /\
               lookup k_url_scheme (env s1) = final_scheme (sel_of s) (env s) /\
               forall key, beqb key k_url_scheme = false -> lookup key (env s1) = lookup key (env s)).
  { unfold s1, after_proto, final_scheme, port_before_host. cbn [sel_of sel_proto sel_port].
    change mk_url_scheme with k_url_scheme.
    destruct (truthy (fproto s)); cbn [client fhost fwd unt fport env andb]; repeat split; auto.
    - apply lookup_set_same.
    - intros key H. apply lookup_set_other. exact H. }
  destruct A1 as (A1c & A1h & A1f & A1u & A1o & A1s & A1e).
  assert (Hsch : exists sch, lookup k_url_scheme (env s1) = Some sch).
  { rewrite A1s. unfold final_scheme. cbn [sel_of sel_proto]. destruct (truthy (fproto s)); [eauto|].
    change mk_url_scheme with k_url_scheme. unfold has_key in Hk. destruct (lookup k_url_scheme (env s)); [eauto|congruence]. }
  destruct Hsch as [sch Hsch].
  pose proof (stage_host_exact s1 sch Hsch) as SH. rewrite A1h, A1f in SH.
  destruct (empty_host (fhost s)) eqn:Ch.
  { rewrite SH. reflexivity. }
  destruct SH as (s2 & -> & A2c & A2f & A2u & A2o & A2e). cbn [bind].
  rewrite stage_client_spec.
  destruct (stage_port_facts s2) as (A3c & A3f & A3u & A3e).
  rewrite A3c, A2c, A1c, A3f, A2f.
  assert (Bc : bad_client (cstr (client s)) = match client s with Some (c0 :: c') => bad_client (c0 :: c') | _ => false end).
  { destruct (client s) as [[|c0 c']|]; reflexivity. }
  rewrite Bc.
  (* the environ before the client stage *)
  assert (Fp : fport s2 = final_port (sel_of s)).
  { rewrite A2o, A1o. unfold final_port. cbn [sel_of sel_host]. reflexivity. }
  assert (E3 : forall key, lookup key (env (stage_port s2)) =
     if beqb key k_server_port then (if truthy (final_port (sel_of s)) then Some (final_port (sel_of s)) else lookup key (env s2))
     else lookup key (env s2)).
  { intro key. unfold stage_port. rewrite Fp. destruct (truthy (final_port (sel_of s))); cbn [env].
    - rewrite lookup_set. destruct (beqb key k_server_port); reflexivity.
    - destruct (beqb key k_server_port); reflexivity. }
  assert (HH : hh_value (fhost s) (fport s1) sch = http_host_value (sel_of s) (env s)).
  { unfold hh_value, http_host_value. cbn [sel_of sel_host]. cbv zeta. rewrite A1o.
    rewrite <- A1s, Hsch. reflexivity. }
  (* meta_out before the client stage, on every key *)
  assert (M : forall key, lookup key (env (stage_port s2)) =
     meta_out {| sel_client := []; sel_host := fhost s; sel_proto := fproto s; sel_port := fport s |} (env s) key).
  { intro key. rewrite E3, A2e. unfold meta_out. cbn [sel_client sel_host truthy port_text has_port memb existsb andb].
    change mk_remote_addr with k_remote_addr. change mk_remote_host with k_remote_host.
    change mk_remote_port with k_remote_port. change mk_server_name with k_server_name.
    change mk_server_port with k_server_port. change mk_http_host with k_http_host. change mk_url_scheme with k_url_scheme.
    destruct (meta_keys_distinct key) as (D1 & D2 & D3 & D4 & D5 & D6).
    change (final_port {| sel_client := []; sel_host := fhost s; sel_proto := fproto s; sel_port := fport s |})
      with (final_port (sel_of s)).
    change (http_host_value {| sel_client := []; sel_host := fhost s; sel_proto := fproto s; sel_port := fport s |} (env s))
      with (http_host_value (sel_of s) (env s)).
    change (final_scheme {| sel_client := []; sel_host := fhost s; sel_proto := fproto s; sel_port := fport s |} (env s))
      with (final_scheme (sel_of s) (env s)).
    destruct (beqb key k_remote_addr) eqn:K1.
    { destruct (D1 eq_refl) as (Q1 & Q2 & Q3 & Q4 & Q5 & Q6). rewrite ?Q1, ?Q2, ?Q3, ?Q4, ?Q5, ?Q6. cbn [orb]. destruct (truthy (fhost s)); apply A1e; apply D1; reflexivity. }
    destruct (beqb key k_remote_host) eqn:K2.
    { destruct (D2 eq_refl) as (Q2 & Q3 & Q4 & Q5 & Q6). rewrite ?Q2, ?Q3, ?Q4, ?Q5, ?Q6. cbn [orb]. destruct (truthy (fhost s)); apply A1e; apply D2; reflexivity. }
    cbn [orb].
    destruct (beqb key k_remote_port) eqn:K3.
    { destruct (D3 eq_refl) as (Q3 & Q4 & Q5 & Q6). rewrite ?Q3, ?Q4, ?Q5, ?Q6. destruct (truthy (fhost s)); apply A1e; apply D3; reflexivity. }
    destruct (beqb key k_server_name) eqn:K4.
    { destruct (D4 eq_refl) as (Q4 & Q5 & Q6). rewrite ?Q4, ?Q5, ?Q6. destruct (truthy (fhost s)); [reflexivity|]. apply A1e. apply D4. reflexivity. }
    destruct (beqb key k_server_port) eqn:K5.
    { destruct (D5 eq_refl) as (Q5 & Q6). rewrite ?Q5, ?Q6. destruct (truthy (final_port (sel_of s))); [reflexivity|].
      destruct (truthy (fhost s)); apply A1e; apply D5; reflexivity. }
    destruct (beqb key k_http_host) eqn:K6.
    { rewrite ?(D6 eq_refl). destruct (truthy (fhost s)); [rewrite HH; reflexivity|]. apply A1e. apply D6. reflexivity. }
    destruct (beqb key k_url_scheme) eqn:K7.
    { apply beqb_eq in K7. subst key. destruct (truthy (fhost s)); exact A1s. }
    destruct (truthy (fhost s)); apply A1e; exact K7. }
  destruct (client s) as [[|c0 c']|] eqn:Ec.
  - eexists. split; [reflexivity|]. split; [congruence|]. unfold sel_of. rewrite Ec. exact M.
  - cbv zeta. destruct (bad_client (c0 :: c')) eqn:Cb; [reflexivity|].
    eexists. split; [reflexivity|]. cbn [unt env]. split; [congruence|].
    intro key. unfold sel_of at 1. rewrite Ec. cbn [cstr].
    set (cl := c0 :: c').
    assert (Mk : forall key, lookup key (env (stage_port s2)) =
       meta_out {| sel_client := []; sel_host := fhost s; sel_proto := fproto s; sel_port := fport s |} (env s) key) by exact M.
    unfold meta_out. cbn [sel_client sel_host].
    change mk_remote_addr with k_remote_addr. change mk_remote_host with k_remote_host.
    change mk_remote_port with k_remote_port.
    change (final_port {| sel_client := cl; sel_host := fhost s; sel_proto := fproto s; sel_port := fport s |})
      with (final_port {| sel_client := []; sel_host := fhost s; sel_proto := fproto s; sel_port := fport s |}).
    change (http_host_value {| sel_client := cl; sel_host := fhost s; sel_proto := fproto s; sel_port := fport s |} (env s))
      with (http_host_value {| sel_client := []; sel_host := fhost s; sel_proto := fproto s; sel_port := fport s |} (env s)).
    change (final_scheme {| sel_client := cl; sel_host := fhost s; sel_proto := fproto s; sel_port := fport s |} (env s))
      with (final_scheme {| sel_client := []; sel_host := fhost s; sel_proto := fproto s; sel_port := fport s |} (env s)).
    change (truthy cl) with true. cbv iota.
    destruct (meta_keys_distinct key) as (D1 & D2 & D3 & _).
    destruct (beqb key k_remote_addr) eqn:K1.
    { cbn [orb]. destruct (D1 eq_refl) as (K2 & K3 & _).
      destruct (port_text cl); rewrite !lookup_set, ?K2, ?K3, K1; reflexivity. }
    destruct (beqb key k_remote_host) eqn:K2.
    { cbn [orb]. rewrite lookup_set, K2. reflexivity. }
    cbn [orb]. rewrite lookup_set, K2.
    destruct (beqb key k_remote_port) eqn:K3.
    { destruct (port_text cl) as [pt|].
      - rewrite lookup_set, K3. reflexivity.
      - rewrite lookup_set, K1. rewrite Mk. unfold meta_out. cbn [sel_client port_text has_port memb existsb andb].
        change mk_remote_addr with k_remote_addr. change mk_remote_host with k_remote_host.
        change mk_remote_port with k_remote_port. rewrite K1, K2, K3. reflexivity. }
    assert (R : lookup key (match port_text cl with
                            | Some p0 => set k_remote_port p0 (set k_remote_addr (unbracket (addr_text cl)) (env (stage_port s2)))
                            | None => set k_remote_addr (unbracket (addr_text cl)) (env (stage_port s2))
                            end) = lookup key (env (stage_port s2))).
    { destruct (port_text cl); rewrite !lookup_set, ?K3, K1; reflexivity. }
    rewrite R, Mk. unfold meta_out. cbn [sel_client sel_host].
    change mk_remote_addr with k_remote_addr. change mk_remote_host with k_remote_host.
    change mk_remote_port with k_remote_port. rewrite K1, K2, K3. reflexivity.
  - eexists. split; [reflexivity|]. split; [congruence|]. unfold sel_of. rewrite Ec. exact M.
Qed.

(* ---- the environ and the untrusted set after header parsing ------------------------------------------------ *)
Definition present (key : str) (e : environ) : bool := match lookup key e with Some _ => true | None => false end.

Lemma pure_fwd_env p s key : beqb key k_fwd = false -> lookup key (env (pure_fwd p s)) = lookup key (env s).
Proof.
  intro H. unfold pure_fwd. destruct (fwd s) as [[|c r]|]; try reflexivity. cbn [env]. apply lookup_set_other. exact H.
Qed.

Lemma fwd_get_env tph s : env (blk_fwd_get tph s) = env s.
Proof. unfold blk_fwd_get. destruct (has tph n_fwd); reflexivity. Qed.

Lemma sel_env_other p tph e key : beqb key k_xff = false -> beqb key k_xfh = false -> beqb key k_fwd = false ->
  lookup key (env (sel_state p tph e)) = lookup key e.
Proof.
  intros H1 H2 H3. unfold sel_state. rewrite pure_fwd_env by exact H3. rewrite fwd_get_env.
  apply (pre_fwd_env p tph e key H1 H2).
Qed.

Lemma sel_env_xff p tph e :
  lookup k_xff (env (sel_state p tph e)) =
  if has tph n_xff then match lookup k_xff e with Some raw => Some (pruned raw (Pos.to_nat p)) | None => None end
  else lookup k_xff e.
Proof.
  unfold sel_state. rewrite pure_fwd_env by keq. rewrite fwd_get_env, pure_by_env, pure_port_env, pure_proto_env.
  rewrite pure_xfh_env by keq. unfold pure_xff. cbn [init_pst env].
  destruct (has tph n_xff); [|reflexivity]. destruct (lookup k_xff e) eqn:E; cbn [env]; [apply lookup_set_same|exact E].
Qed.

Lemma sel_env_xfh p tph e :
  lookup k_xfh (env (sel_state p tph e)) =
  if has tph n_xfh then match lookup k_xfh e with Some raw => Some (pruned raw (Pos.to_nat p)) | None => None end
  else lookup k_xfh e.
Proof.
  unfold sel_state. rewrite pure_fwd_env by keq. rewrite fwd_get_env, pure_by_env, pure_port_env, pure_proto_env.
  assert (L : lookup k_xfh (env (pure_xff p tph (init_pst e))) = lookup k_xfh e) by (apply pure_xff_env; keq).
  unfold pure_xfh. rewrite L.
  destruct (has tph n_xfh); [|exact L]. destruct (lookup k_xfh e) eqn:E; cbn [env]; [apply lookup_set_same|exact L].
Qed.

Lemma sel_env_fwd p tph e :
  lookup k_fwd (env (sel_state p tph e)) =
  if fwd_active tph e then Some (pruned (hdr hk_fwd e) (Pos.to_nat p)) else lookup k_fwd e.
Proof.
  unfold sel_state. fold (pre_fwd p tph e).
  pose proof (pre_fwd_env p tph e k_fwd eq_refl eq_refl) as L. pose proof (pre_fwd_fwd p tph e) as F.
  unfold fwd_active, pure_fwd, blk_fwd_get. change (trusts tph nm_fwd) with (has tph n_fwd). change hk_fwd with k_fwd.
  destruct (has tph n_fwd); cbn [andb fwd env].
  - unfold hdr. rewrite L. destruct (lookup k_fwd e) as [[|c r]|] eqn:E; cbn [truthy env]; try exact L.
    apply lookup_set_same.
  - rewrite F. exact L.
Qed.

Lemma pure_fwd_unt p s : unt (pure_fwd p s) = unt s.
Proof. unfold pure_fwd. destruct (fwd s) as [[|c r]|]; reflexivity. Qed.

Lemma sel_unt p tph e :
  unt (sel_state p tph e) =
  if has tph n_fwd then u_all_but_fwd
  else {| u_for := negb (has tph n_xff && present k_xff e); u_host := negb (has tph n_xfh && present k_xfh e);
          u_proto := negb (has tph n_xfproto); u_port := negb (has tph n_xfport); u_by := negb (has tph n_xfby);
          u_fwd := true |}.
Proof.
  unfold sel_state. rewrite pure_fwd_unt. unfold blk_fwd_get. destruct (has tph n_fwd); [reflexivity|].
  assert (L : lookup k_xfh (env (pure_xff p tph (init_pst e))) = lookup k_xfh e) by (apply pure_xff_env; keq).
  unfold pure_by, pure_port, pure_proto, pure_xfh, present. rewrite L. unfold pure_xff. cbn [init_pst env].
  destruct (has tph n_xfby), (has tph n_xfport), (has tph n_xfproto), (has tph n_xfh), (lookup k_xfh e),
    (has tph n_xff), (lookup k_xff e); reflexivity.
Qed.

Lemma lookup_pop_if (b : bool) k key (e : environ) :
  lookup key (if b then pop k e else e) = if b && beqb key k then None else lookup key e.
Proof. destruct b; cbn [andb]; [apply lookup_pop|reflexivity]. Qed.

Lemma clear_lookup e u key :
  lookup key (clear_untrusted_headers e u) =
  if u_fwd u && beqb key k_fwd then None
  else if u_by u && beqb key k_xfby then None
  else if u_port u && beqb key k_xfport then None
  else if u_proto u && beqb key k_xfproto then None
  else if u_host u && beqb key k_xfh then None
  else if u_for u && beqb key k_xff then None
  else lookup key e.
Proof. unfold clear_untrusted_headers. rewrite !lookup_pop_if. reflexivity. Qed.

Lemma not_proxy_key key : is_proxy_key key = false ->
  beqb key k_xff = false /\ beqb key k_xfh = false /\ beqb key k_xfproto = false /\ beqb key k_xfport = false /\
  beqb key k_xfby = false /\ beqb key k_fwd = false.
Proof.
  unfold is_proxy_key, proxy_keys. cbn [existsb]. intro H.
  repeat (apply orb_false_iff in H as [? H]). repeat split; assumption.
Qed.

Lemma meta_out_proxy_key sl e key : is_proxy_key key = true -> meta_out sl e key = lookup key e.
Proof.
  unfold is_proxy_key, proxy_keys. cbn [existsb]. intro H.
  repeat (apply orb_true_iff in H as [H|H]); try discriminate; apply beqb_eq in H; subst key; reflexivity.
Qed.

Lemma meta_out_ext sl e1 e2 key :
  (forall k, is_proxy_key k = false -> lookup k e1 = lookup k e2) -> is_proxy_key key = false ->
  meta_out sl e1 key = meta_out sl e2 key.
Proof.
  intros H Hk. unfold meta_out, http_host_value, final_scheme.
  rewrite (H key Hk). rewrite (H mk_url_scheme eq_refl). reflexivity.
Qed.

Lemma list_reason_cat tph name key e c0 c : list_reason tph name key e c0 = Some c -> c = c0.
Proof.
  unfold list_reason. destruct (trusts tph name); [|discriminate]. destruct (lookup key e); [|discriminate].
  destruct (cat_list_quoting s); [|discriminate]. intro H. injection H as <-. reflexivity.
Qed.
Lemma single_reason_cat tph name key e c1 c2 c : single_reason tph name key e c1 c2 = Some c -> c = c1 \/ c = c2.
Proof.
  unfold single_reason. destruct (trusts tph name); [|discriminate].
  destruct (cat_single_quoting _); [intro H; injection H as <-; auto|].
  destruct (cat_several_values _); [intro H; injection H as <-; auto|discriminate].
Qed.

Lemma syntax_reason_header tph e c b : syntax_reason tph e = Some c -> category_header b c = syntax_header c.
Proof.
  unfold syntax_reason.
  destruct (list_reason tph nm_xff hk_xff e CatXffQuoting) eqn:E1; cbn [orelse].
  { intro H. injection H as <-. apply list_reason_cat in E1. subst. reflexivity. }
  destruct (list_reason tph nm_xfh hk_xfh e CatXfhQuoting) eqn:E2; cbn [orelse].
  { intro H. injection H as <-. apply list_reason_cat in E2. subst. reflexivity. }
  destruct (single_reason tph nm_xfproto hk_xfproto e CatProtoQuoting CatProtoSeveral) eqn:E3; cbn [orelse].
  { intro H. injection H as <-. apply single_reason_cat in E3 as [->| ->]; reflexivity. }
  destruct (single_reason tph nm_xfport hk_xfport e CatPortQuoting CatPortSeveral) eqn:E4; cbn [orelse].
  { intro H. injection H as <-. apply single_reason_cat in E4 as [->| ->]; reflexivity. }
  destruct (fwd_active tph e); [|discriminate].
  intro H. pose proof (forwarded_reason_header _ _ H) as Hh.
  destruct c; try reflexivity; vm_compute in Hh; discriminate.
Qed.

Lemma proxy_key_cases key : is_proxy_key key = true ->
  key = k_xff \/ key = k_xfh \/ key = k_xfproto \/ key = k_xfport \/ key = k_xfby \/ key = k_fwd.
Proof.
  unfold is_proxy_key, proxy_keys. cbn [existsb]. intro H.
  repeat (apply orb_true_iff in H as [H|H]); try discriminate; apply beqb_eq in H; subst key; auto 10.
Qed.

Ltac kb :=
  repeat match goal with
  | |- context [beqb ?a ?b] =>
    let v := eval vm_compute in (beqb a b) in
    match v with true => change (beqb a b) with true | false => change (beqb a b) with false end
  end.

(* ---- the main theorem ---------------------------------------------------------------------------------------------- *)
Theorem trusted_exact c e p :
  on_trusted_path c e = true -> has_key k_url_scheme e -> trusted_proxy_count c = Zpos p ->
  match refusal_reason (tph_of c) (Pos.to_nat p) e with
  | Some cat => middleware c e = Malformed (category_header (fwd_active (tph_of c) e) cat)
  | None => exists o, middleware c e = Ok o /\
                      forall key, lookup key o = spec_out (tph_of c) (Pos.to_nat p) (clear_untrusted c) e key
  end.
Proof.
  intros Hp Hk Hc. unfold middleware, on_trusted_path in *.
  destruct (lookup k_remote_addr e) as [peer|]; [|discriminate]. rewrite Hp.
  unfold parse_proxy_headers. fold (tph_of c). set (tph := tph_of c). rewrite Hc.
  pose proof (select_exact e p tph) as SE. unfold refusal_reason.
  destruct (syntax_reason tph e) as [cat|] eqn:Es; cbn [orelse answer] in *.
  { rewrite SE. cbn [bind]. rewrite (syntax_reason_header _ _ _ _ Es). reflexivity. }
  rewrite SE. cbn [bind].
  set (st := sel_state p tph e) in *.
  destruct (sel_state_selection p tph e) as [Hsel Hfw]. fold st in Hsel, Hfw.
  pose proof (apply_exact st (select_keys _ _ _ _ _ SE Hk)) as AE. rewrite Hsel, Hfw in AE.
  destruct (selection_reason (select tph (Pos.to_nat p) e)) as [cat|].
  { rewrite AE. reflexivity. }
  destruct AE as (s' & -> & Hu & He). cbn [bind]. eexists. split; [reflexivity|].
  intro key. unfold spec_out.
  assert (Hunt : unt s' = unt st) by exact Hu.
  destruct (is_proxy_key key) eqn:Ek.
  - (* a proxy header key *)
    assert (Hl : lookup key (env s') = lookup key (env st)) by (rewrite He; apply meta_out_proxy_key; exact Ek).
    pose proof (sel_unt p tph e) as SU. fold st in SU.
    pose proof (sel_env_xff p tph e) as X1. pose proof (sel_env_xfh p tph e) as X2. pose proof (sel_env_fwd p tph e) as X3.
    fold st in X1, X2, X3. change hk_fwd with k_fwd in X3.
    assert (Xo : forall k, beqb k k_xff = false -> beqb k k_xfh = false -> beqb k k_fwd = false ->
                 lookup k (env st) = lookup k e) by (intros; apply sel_env_other; assumption).
    unfold headers_out, header_out, kind_untrusted.
    change (trusts tph nm_fwd) with (has tph n_fwd). change (trusts tph nm_xff) with (has tph n_xff).
    change (trusts tph nm_xfh) with (has tph n_xfh). change (trusts tph nm_xfproto) with (has tph n_xfproto).
    change (trusts tph nm_xfport) with (has tph n_xfport). change (trusts tph nm_xfby) with (has tph n_xfby).
    change hk_xff with k_xff. change hk_xfh with k_xfh. change hk_xfproto with k_xfproto.
    change hk_xfport with k_xfport. change hk_xfby with k_xfby. change hk_fwd with k_fwd.
    assert (FA : fwd_active tph e = has tph n_fwd && truthy (hdr k_fwd e)) by reflexivity.
    apply proxy_key_cases in Ek.
    destruct (clear_untrusted c).
    + rewrite clear_lookup, Hunt, SU, Hl. cbn [andb].
      destruct Ek as [->|[->|[->|[->|[->| ->]]]]];
        kb; cbn [andb orb negb];
        rewrite ?X1, ?X2, ?X3, ?FA;
        try (rewrite Xo by reflexivity);
        unfold present, hdr;
        destruct (has tph n_fwd); cbn [u_for u_host u_proto u_port u_by u_fwd u_all_but_fwd andb orb negb];
        try reflexivity;
        repeat match goal with
        | |- context [has tph ?n] => destruct (has tph n); cbn [andb orb negb]
        | |- context [lookup ?k e] => destruct (lookup k e); cbn [andb orb negb]
        end; try reflexivity.
    + rewrite Hl. cbn [andb].
      destruct Ek as [->|[->|[->|[->|[->| ->]]]]];
        kb; cbn [andb orb negb];
        rewrite ?X1, ?X2, ?X3, ?FA;
        try (rewrite Xo by reflexivity);
        unfold hdr;
        repeat match goal with
        | |- context [has tph ?n] => destruct (has tph n); cbn [andb orb negb]
        | |- context [lookup ?k e] => destruct (lookup k e); cbn [andb orb negb truthy]
        end; try reflexivity.
  - (* any other key *)
    destruct (not_proxy_key key Ek) as (N1 & N2 & N3 & N4 & N5 & N6).
    assert (Hfin : lookup key (env s') = meta_out (select tph (Pos.to_nat p) e) e key).
    { rewrite He. apply meta_out_ext; [|exact Ek].
      intros k Hk'. destruct (not_proxy_key k Hk') as (M1 & M2 & _ & _ & _ & M6). apply sel_env_other; assumption. }
    destruct (clear_untrusted c); [|exact Hfin].
    rewrite clear_lookup, N1, N2, N3, N4, N5, N6, !andb_false_r. exact Hfin.
Qed.
