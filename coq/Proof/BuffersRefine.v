(* C17, layer 2: OverflowableBuffer refines the FIFO queue of Spec/Fifo.v,
   for every history, every STRBUF_LIMIT and every overflow threshold. *)
From Coq Require Import List NArith ZArith Bool Lia ZifyBool Arith.
From WV Require Import Lib.PyBytes Model.Buffers Spec.Fifo Proof.Buffers.
Import ListNotations.
Local Open Scope Z_scope.

(* representation invariant of the OverflowableBuffer object *)
Definition inv (o : obuf) : Prop :=
  match ob_buf o with
  | None => ob_overflowed o = false
  | Some b => ob_strbuf o = [] /\ fb_inv b /\
              (fb_kind b = KBio \/ fb_kind b = KTmp) /\
              (ob_overflowed o = true <-> fb_kind b = KTmp)
  end.

(* abstraction function: the queued bytes *)
Definition abs (o : obuf) : queue :=
  match ob_buf o with
  | None => ob_strbuf o
  | Some b => fb_abs b
  end.

(* the specification operation an implementation operation stands for *)
Definition spec_of (p : op) : option qop :=
  match p with
  | OAppend s => Some (QAppend s)
  | OGet n false => Some (QPeek n)
  | OGet n true => Some (QTake n)
  | OSkip n _ => Some (QConsume n)
  | OLen => Some QLength
  | OGetFile => Some QView
  | OClose => None
  end.

Definition live (p : op) : Prop := p <> OClose.

Definition q_next_op (q : queue) (p : op) : queue :=
  match spec_of p with Some sp => q_next q sp | None => q end.

(* what an output of the implementation must be, given the queue before the
   operation and the output of the specification *)
Definition out_refines (q : queue) (so : qout) (p : op) (r : out) : Prop :=
  match p, so, r with
  | OAppend _, QUnit, RUnit => True
  | OGet _ false, QBytes want, RBytes b => is_prefix b q /\ (length want <= length b)%nat
  | OGet _ true, QBytes want, RBytes b => b = want
  | OSkip _ _, QUnit, RUnit => True
  | OSkip _ _, QErr, RExn ValueErrorSkip => True
  | OLen, QNum n, RLen z => z = n
  | OGetFile, QBytes want, RFile f =>
      f_closed f = false /\ (f_pos f <= length (f_content f))%nat /\ skipn (f_pos f) (f_content f) = want
  | _, _, _ => False
  end.

Definition out_ok (q : queue) (p : op) (r : out) : Prop :=
  match spec_of p with
  | Some sp => out_refines q (snd (q_step q sp)) p r
  | None => True
  end.

Lemma inv_new : inv o_new.
Proof. reflexivity. Qed.

Lemma abs_len o : inv o -> o_len o = q_len (abs o).
Proof.
  unfold inv, abs, o_len. destruct (ob_buf o) as [b|]; [|reflexivity].
  intros (_ & Hb & _). now apply fb_abs_len.
Qed.

(* ------------------------------------------------- _create_buffer --- *)

Lemma create_buffer_spec ovf o : inv o -> ob_buf o = None ->
  exists o' b, o_create_buffer ovf o = (o', Ok b) /\ ob_buf o' = Some b /\
            inv o' /\ abs o' = ob_strbuf o /\
            ((fb_kind b = KTmp /\ Z.of_N ovf <= lenZ (ob_strbuf o)) \/
             (fb_kind b = KBio /\ lenZ (ob_strbuf o) < Z.of_N ovf)).
Proof.
  intros Hi Hn. destruct o as [ob sb ovd]. cbn in Hn. subst ob.
  unfold o_create_buffer, o_set_large_buffer, o_set_small_buffer.
  cbn [ob_buf ob_strbuf ob_overflowed]. rewrite !fb_init_none.
  destruct (lenZ sb >=? Z.of_N ovf) eqn:E.
  - destruct sb as [|x sb].
    + do 2 eexists; split; [reflexivity|]. unfold inv, abs, fb_inv, fb_abs. cbn.
      repeat split; auto; try lia. left. split; [reflexivity|]. unfold lenZ in *; cbn in *; lia.
    + destruct (fb_append_spec (mkfbuf KTmp newfile 0) (x :: sb) (fb_inv_fresh KTmp))
        as (b' & Ha & Hi' & Habs & Hk & Hp & Hc & Hr).
      cbn [ob_strbuf]. rewrite Ha. do 2 eexists; split; [reflexivity|].
      unfold inv, abs. cbn [ob_buf ob_strbuf ob_overflowed]. rewrite Hk. cbn [fb_kind].
      split; [reflexivity|]. split; [|split].
      * repeat split; auto; apply Hi'.
      * exact Habs.
      * left. split; [reflexivity | lia].
  - destruct sb as [|x sb].
    + do 2 eexists; split; [reflexivity|]. unfold inv, abs, fb_inv, fb_abs. cbn.
      repeat split; auto; try lia; try discriminate. right. split; [reflexivity|]. unfold lenZ in *; cbn in *; lia.
    + destruct (fb_append_spec (mkfbuf KBio newfile 0) (x :: sb) (fb_inv_fresh KBio))
        as (b' & Ha & Hi' & Habs & Hk & Hp & Hc & Hr).
      cbn [ob_strbuf]. rewrite Ha. do 2 eexists; split; [reflexivity|].
      unfold inv, abs. cbn [ob_buf ob_strbuf ob_overflowed]. rewrite Hk. cbn [fb_kind].
      split; [reflexivity|]. split; [|split].
      * repeat split; auto; try discriminate; apply Hi'.
      * exact Habs.
      * right. split; [reflexivity | lia].
Qed.

(* ------------------------------------------------------- the methods --- *)

Ltac inv_some Hi Hb := unfold inv in Hi; rewrite Hb in Hi; destruct Hi as (Hs & Hfb & Hk & Hov).

Lemma append_tail_spec ovf s o b : inv o -> ob_buf o = Some b ->
  exists o', o_append_tail ovf s o b = (o', Ok tt) /\ inv o' /\ abs o' = abs o ++ s /\ ob_buf o' <> None.
Proof.
  intros Hi Hb. assert (Habs0 : abs o = fb_abs b) by (unfold abs; now rewrite Hb).
  rewrite Habs0. inv_some Hi Hb.
  destruct (fb_append_spec b s Hfb) as (b' & Ha & Hi' & Habs & Hk' & Hp & Hc & Hr).
  unfold o_append_tail. rewrite Ha. cbn [ob_overflowed ob_strbuf].
  destruct (ob_overflowed o) eqn:Eo; cbn [negb].
  - eexists; split; [reflexivity|]. unfold inv, abs; cbn [ob_buf ob_strbuf ob_overflowed].
    rewrite Hk'. repeat split; auto; try apply Hi'; try apply Hov; try discriminate.
  - destruct (fb_len b' >=? Z.of_N ovf).
    + unfold o_set_large_buffer. cbn [ob_buf ob_strbuf]. rewrite (fb_init_copy KTmp b' Hi').
      eexists; split; [reflexivity|].
      unfold inv, abs; cbn [ob_buf ob_strbuf ob_overflowed fb_kind].
      split; [|split; [exact Habs | discriminate]].
      split; [auto|]. split; [exact Hi'|]. split; [auto|]. split; auto.
    + eexists; split; [reflexivity|]. unfold inv, abs; cbn [ob_buf ob_strbuf ob_overflowed].
      rewrite Hk'. repeat split; auto; try apply Hi'; try apply Hov; try discriminate.
Qed.

Lemma append_spec limit ovf o s : inv o ->
  exists o', o_append limit ovf o s = (o', Ok tt) /\ inv o' /\ abs o' = abs o ++ s.
Proof.
  intro Hi. unfold o_append. destruct (ob_buf o) as [b|] eqn:Hb.
  - destruct (append_tail_spec ovf s o b Hi Hb) as (o' & H1 & H2 & H3 & _). eauto.
  - destruct (lenZ (ob_strbuf o) + lenZ s <? Z.of_N limit).
    + eexists; split; [reflexivity|]. unfold inv, abs in *. rewrite Hb in *. cbn. auto.
    + destruct (create_buffer_spec ovf o Hi Hb) as (o1 & b & Hc & Hb1 & Hi1 & Ha1 & _).
      rewrite Hc. destruct (append_tail_spec ovf s o1 b Hi1 Hb1) as (o' & H1 & H2 & H3 & _).
      exists o'. repeat split; auto. rewrite H3, Ha1. unfold abs. now rewrite Hb.
Qed.

Lemma get_tail_noskip n o b : inv o -> ob_buf o = Some b ->
  o_get_tail n false o b = (o, Ok (q_peek n (abs o))).
Proof.
  intros Hi Hb. assert (Habs0 : abs o = fb_abs b) by (unfold abs; now rewrite Hb).
  inv_some Hi Hb. unfold o_get_tail. rewrite (fb_get_noskip b n Hfb), Habs0.
  destruct o as [ob sb ovd]; cbn in *. now subst.
Qed.

Lemma get_tail_skip n o b : inv o -> ob_buf o = Some b ->
  exists o', o_get_tail n true o b = (o', Ok (q_peek n (abs o))) /\ inv o' /\
             abs o' = skipn (length (q_peek n (abs o))) (abs o).
Proof.
  intros Hi Hb. assert (Habs0 : abs o = fb_abs b) by (unfold abs; now rewrite Hb).
  inv_some Hi Hb.
  destruct (fb_get_skip b n Hfb) as (b' & Hg & Hi' & Habs & Hk' & _).
  unfold o_get_tail. rewrite Hg, Habs0. eexists; split; [reflexivity|].
  unfold inv, abs; cbn [ob_buf ob_strbuf ob_overflowed]. rewrite Hk'.
  repeat split; auto; try apply Hi'; apply Hov.
Qed.

(* get(numbytes, skip=False): a prefix at least as long as requested, or everything; nothing changes
   except that nothing changes at all *)
Lemma get_noskip_spec ovf o n : inv o ->
  exists b, o_get ovf o n false = (o, Ok b) /\ (b = q_peek n (abs o) \/ b = abs o).
Proof.
  intro Hi. unfold o_get. destruct (ob_buf o) as [b|] eqn:Hb.
  - rewrite (get_tail_noskip n o b Hi Hb). eauto.
  - cbn [negb]. eexists; split; [reflexivity|]. right. unfold abs. now rewrite Hb.
Qed.

Lemma get_skip_spec ovf o n : inv o ->
  exists o', o_get ovf o n true = (o', Ok (q_peek n (abs o))) /\ inv o' /\
             abs o' = skipn (length (q_peek n (abs o))) (abs o).
Proof.
  intro Hi. unfold o_get. destruct (ob_buf o) as [b|] eqn:Hb.
  - exact (get_tail_skip n o b Hi Hb).
  - cbn [negb]. destruct (create_buffer_spec ovf o Hi Hb) as (o1 & b & Hc & Hb1 & Hi1 & Ha1 & _).
    rewrite Hc. destruct (get_tail_skip n o1 b Hi1 Hb1) as (o' & H1 & H2 & H3).
    assert (E : abs o = abs o1) by (rewrite Ha1; unfold abs; now rewrite Hb).
    rewrite E. eauto.
Qed.

Lemma skip_tail_ok n o b : inv o -> ob_buf o = Some b -> Z.of_N n <= q_len (abs o) ->
  exists o', o_skip_tail n o b = (o', Ok tt) /\ inv o' /\ abs o' = skipn (N.to_nat n) (abs o).
Proof.
  intros Hi Hb Hn. assert (Habs0 : abs o = fb_abs b) by (unfold abs; now rewrite Hb).
  inv_some Hi Hb. rewrite Habs0, <- (fb_abs_len b Hfb) in Hn.
  destruct (fb_skip_ok b n Hfb Hn) as (b' & Hg & Hi' & Habs & Hk' & _).
  unfold o_skip_tail. rewrite Hg, Habs0. eexists; split; [reflexivity|].
  unfold inv, abs; cbn [ob_buf ob_strbuf ob_overflowed]. rewrite Hk'.
  repeat split; auto; try apply Hi'; apply Hov.
Qed.

Lemma skip_tail_err n o b : inv o -> ob_buf o = Some b -> q_len (abs o) < Z.of_N n ->
  o_skip_tail n o b = (o, Exn ValueErrorSkip).
Proof.
  intros Hi Hb Hn. assert (Habs0 : abs o = fb_abs b) by (unfold abs; now rewrite Hb).
  inv_some Hi Hb. rewrite Habs0, <- (fb_abs_len b Hfb) in Hn.
  unfold o_skip_tail. now rewrite (fb_skip_err b n Hn).
Qed.

Lemma skip_ok_spec ovf o n ap : inv o -> Z.of_N n <= q_len (abs o) ->
  exists o', o_skip ovf o n ap = (o', Ok tt) /\ inv o' /\ abs o' = skipn (N.to_nat n) (abs o).
Proof.
  intros Hi Hn. unfold o_skip. destruct (ob_buf o) as [b|] eqn:Hb.
  - exact (skip_tail_ok n o b Hi Hb Hn).
  - destruct (ap && (Z.of_N n =? lenZ (ob_strbuf o))) eqn:E.
    + eexists; split; [reflexivity|]. unfold inv, abs in *. rewrite Hb in *. cbn [ob_buf ob_strbuf ob_overflowed].
      split; [auto|]. rewrite skipn_all2; [reflexivity|]. unfold lenZ in E. lia.
    + destruct (create_buffer_spec ovf o Hi Hb) as (o1 & b & Hc & Hb1 & Hi1 & Ha1 & _).
      rewrite Hc. assert (E1 : abs o = abs o1) by (rewrite Ha1; unfold abs; now rewrite Hb).
      rewrite E1 in *. exact (skip_tail_ok n o1 b Hi1 Hb1 Hn).
Qed.

(* the error branch of skip: ValueError, the queued bytes are untouched; a
   plain-bytes buffer has been migrated to a file representation on the way *)
Lemma skip_err_spec ovf o n ap : inv o -> q_len (abs o) < Z.of_N n ->
  exists o', o_skip ovf o n ap = (o', Exn ValueErrorSkip) /\ inv o' /\ abs o' = abs o /\
             (ob_buf o <> None -> o' = o) /\ ob_buf o' <> None.
Proof.
  intros Hi Hn. unfold o_skip. destruct (ob_buf o) as [b|] eqn:Hb.
  - rewrite (skip_tail_err n o b Hi Hb Hn). exists o. repeat split; auto. rewrite Hb; discriminate.
  - destruct (ap && (Z.of_N n =? lenZ (ob_strbuf o))) eqn:E.
    + exfalso. unfold abs in Hn. rewrite Hb in Hn. unfold q_len, lenZ in *. lia.
    + destruct (create_buffer_spec ovf o Hi Hb) as (o1 & b & Hc & Hb1 & Hi1 & Ha1 & _).
      rewrite Hc. assert (E1 : abs o = abs o1) by (rewrite Ha1; unfold abs; now rewrite Hb).
      rewrite E1 in Hn. rewrite (skip_tail_err n o1 b Hi1 Hb1 Hn).
      exists o1. repeat split; auto. * intro H; now elim H. * rewrite Hb1; discriminate.
Qed.

Lemma getfile_spec ovf o : inv o ->
  exists o' f, o_getfile ovf o = (o', Ok f) /\ inv o' /\ abs o' = abs o /\
               f_closed f = false /\ (f_pos f <= length (f_content f))%nat /\
               skipn (f_pos f) (f_content f) = abs o.
Proof.
  intro Hi. unfold o_getfile. destruct (ob_buf o) as [b|] eqn:Hb.
  - exists o, (fb_file b). assert (Habs0 : abs o = fb_abs b) by (unfold abs; now rewrite Hb).
    pose proof Hi as Hi0. inv_some Hi Hb. destruct Hfb as (H1 & H2 & H3).
    repeat split; auto.
  - destruct (create_buffer_spec ovf o Hi Hb) as (o1 & b & Hc & Hb1 & Hi1 & Ha1 & _).
    rewrite Hc. exists o1, (fb_file b).
    assert (E1 : abs o = abs o1) by (rewrite Ha1; unfold abs; now rewrite Hb).
    assert (Habs1 : abs o1 = fb_abs b) by (unfold abs; now rewrite Hb1).
    pose proof Hi1 as Hi2. inv_some Hi2 Hb1. destruct Hfb as (H1 & H2 & H3).
    repeat split; auto. rewrite E1, Habs1. reflexivity.
Qed.

(* --------------------------------------------------------- one step --- *)

Lemma is_prefix_refl (q : list N) : is_prefix q q.
Proof. exists []. now rewrite app_nil_r. Qed.

Lemma step_refines limit ovf o p : inv o -> live p ->
  inv (fst (step limit ovf o p)) /\
  abs (fst (step limit ovf o p)) = q_next_op (abs o) p /\
  out_ok (abs o) p (snd (step limit ovf o p)).
Proof.
  intros Hi Hl. destruct p as [s | n sk | n ap | | |]; unfold step, q_next_op, out_ok; cbn [spec_of].
  - destruct (append_spec limit ovf o s Hi) as (o' & H1 & H2 & H3). rewrite H1. cbn. auto.
  - destruct sk.
    + destruct (get_skip_spec ovf o n Hi) as (o' & H1 & H2 & H3). rewrite H1. cbn. auto.
    + destruct (get_noskip_spec ovf o n Hi) as (b & H1 & H2). rewrite H1. cbn.
      repeat split; auto; destruct H2 as [-> | ->].
      * apply q_peek_prefix. * apply is_prefix_refl. * lia. * apply q_peek_length_le.
  - unfold q_next, q_step. destruct (Z.of_N n <=? q_len (abs o)) eqn:E.
    + destruct (skip_ok_spec ovf o n ap Hi ltac:(lia)) as (o' & H1 & H2 & H3). rewrite H1. cbn. auto.
    + destruct (skip_err_spec ovf o n ap Hi ltac:(lia)) as (o' & H1 & H2 & H3 & _). rewrite H1. cbn. auto.
  - cbn. repeat split; auto. now apply abs_len.
  - destruct (getfile_spec ovf o Hi) as (o' & f & H1 & H2 & H3 & H4 & H5 & H6). rewrite H1. cbn. auto.
  - now elim Hl.
Qed.

(* ------------------------------------------------------- histories --- *)

Definition q_exec_op (q : queue) (ops : list op) : queue := fold_left q_next_op ops q.

Lemma exec_refines limit ovf ops : forall o, inv o -> Forall live ops ->
  inv (exec limit ovf o ops) /\ abs (exec limit ovf o ops) = q_exec_op (abs o) ops.
Proof.
  unfold exec, q_exec_op. induction ops as [|p ops IH]; intros o Hi Hl; cbn [fold_left].
  - auto.
  - inversion Hl as [|? ? Hp Hl']; subst.
    destruct (step_refines limit ovf o p Hi Hp) as (H1 & H2 & _).
    destruct (IH _ H1 Hl') as (H3 & H4). split; [exact H3|]. now rewrite H4, H2.
Qed.

(* outputs along a history: each output is judged against the queue the
   specification has reached before the operation *)
Fixpoint trace_ok (q : queue) (ops : list op) (outs : list out) : Prop :=
  match ops, outs with
  | [], [] => True
  | p :: ops', r :: outs' => out_ok q p r /\ trace_ok (q_next_op q p) ops' outs'
  | _, _ => False
  end.

Lemma run_refines limit ovf ops : forall o, inv o -> Forall live ops ->
  fst (run limit ovf o ops) = exec limit ovf o ops /\
  trace_ok (abs o) ops (snd (run limit ovf o ops)).
Proof.
  induction ops as [|p ops IH]; intros o Hi Hl; cbn [run].
  - cbn. auto.
  - inversion Hl as [|? ? Hp Hl']; subst.
    destruct (step_refines limit ovf o p Hi Hp) as (H1 & H2 & H3).
    destruct (step limit ovf o p) as [o1 r] eqn:Es. cbn [fst snd] in *.
    destruct (IH o1 H1 Hl') as (H4 & H5).
    destruct (run limit ovf o1 ops) as [o2 rs] eqn:Er. cbn [fst snd] in *.
    split.
    + unfold exec in *. cbn [fold_left]. now rewrite Es.
    + cbn [trace_ok]. split; [exact H3|]. now rewrite <- H2.
Qed.

Theorem history_refines limit ovf ops : Forall live ops ->
  let o := exec limit ovf o_new ops in
  inv o /\ abs o = q_exec_op q_empty ops /\
  o_len o = q_len (q_exec_op q_empty ops) /\
  (forall p, live p -> out_ok (q_exec_op q_empty ops) p (snd (step limit ovf o p))) /\
  fst (run limit ovf o_new ops) = o /\
  trace_ok q_empty ops (snd (run limit ovf o_new ops)).
Proof.
  intros Hl o. destruct (exec_refines limit ovf ops o_new inv_new Hl) as (H1 & H2).
  destruct (run_refines limit ovf ops o_new inv_new Hl) as (H3 & H4).
  fold o in H1, H2, H3. change (abs o_new) with q_empty in *.
  repeat split; auto.
  - rewrite <- H2. now apply abs_len.
  - intros p Hp. rewrite <- H2. now apply step_refines.
Qed.

(* no operation raises when skip is only asked for what is queued *)
Definition respects (q : queue) (p : op) : Prop :=
  match p with OSkip n _ => Z.of_N n <= q_len q | OClose => False | _ => True end.

Lemma step_no_exn limit ovf o p : inv o -> respects (abs o) p ->
  forall e, snd (step limit ovf o p) <> RExn e.
Proof.
  intros Hi Hr e. assert (Hl : live p) by (destruct p; cbn in Hr; try discriminate; tauto).
  destruct (step_refines limit ovf o p Hi Hl) as (_ & _ & H).
  destruct (snd (step limit ovf o p)) eqn:Es; try discriminate.
  unfold out_ok in H. destruct p as [s | n [|] | n ap | | |]; cbn in H, Hr; try tauto.
  unfold q_step in H. destruct (Z.of_N n <=? q_len (abs o)) eqn:E; [cbn in H; tauto | lia].
Qed.

(* the error branch, explicitly *)
Theorem skip_error_branch limit ovf ops n ap : Forall live ops ->
  let o := exec limit ovf o_new ops in
  q_len (abs o) < Z.of_N n ->
  snd (step limit ovf o (OSkip n ap)) = RExn ValueErrorSkip /\
  inv (fst (step limit ovf o (OSkip n ap))) /\
  abs (fst (step limit ovf o (OSkip n ap))) = abs o /\
  o_len (fst (step limit ovf o (OSkip n ap))) = o_len o /\
  (ob_buf o <> None -> fst (step limit ovf o (OSkip n ap)) = o) /\
  ob_buf (fst (step limit ovf o (OSkip n ap))) <> None.
Proof.
  intros Hl o Hn. destruct (exec_refines limit ovf ops o_new inv_new Hl) as (Hi & _). fold o in Hi.
  destruct (skip_err_spec ovf o n ap Hi Hn) as (o' & H1 & H2 & H3 & H4 & H5).
  unfold step. rewrite H1. cbn. repeat split; auto.
  rewrite (abs_len o' H2), (abs_len o Hi). now rewrite H3.
Qed.
