(* C17, layer 2: OverflowableBuffer refines the FIFO queue of Spec/Fifo.v,
   for every history, every STRBUF_LIMIT and every overflow threshold. *)
From Coq Require Import List NArith ZArith Bool Lia ZifyBool Arith.
From WV Require Import Lib.PyBytes Model.Buffers Spec.Fifo Proof.Buffers.
Import ListNotations.
Local Open Scope Z_scope.

(* representation invariant of the OverflowableBuffer object *)
Definition inv (o : obuf) : Prop :=
  match ob_buf o with
  | None => ob_overflowed o = false
  | Some b => ob_strbuf o = [] /\ fb_inv b /\
              (fb_kind b = KBio \/ fb_kind b = KTmp) /\
              (ob_overflowed o = true <-> fb_kind b = KTmp)
  end.

(* abstraction function: the queued bytes *)
Definition abs (o : obuf) : queue :=
  match ob_buf o with
  | None => ob_strbuf o
  | Some b => fb_abs b
  end.

(* the specification operation an implementation operation stands for *)
Definition spec_of (p : op) : option qop :=
  match p with
  | OAppend s => Some (QAppend s)
  | OGet n false => Some (QPeek n)
  | OGet n true => Some (QTake n)
  | OSkip n _ => Some (QConsume n)
  | OLen => Some QLength
  | OGetFile => Some QView
  | OClose => None
  end.

Definition live (p : op) : Prop := p <> OClose.

Definition q_next_op (q : queue) (p : op) : queue :=
  match spec_of p with Some sp => q_next q sp | None => q end.

(* what an output of the implementation must be, given the queue before the
   operation and the output of the specification *)
Definition out_refines (q : queue) (so : qout) (p : op) (r : out) : Prop :=
  match p, so, r with
  | OAppend _, QUnit, RUnit => True
  | OGet _ false, QBytes want, RBytes b => is_prefix b q /\ (length want <= length b)%nat
  | OGet _ true, QBytes want, RBytes b => b = want
  | OSkip _ _, QUnit, RUnit => True
  | OSkip _ _, QErr, RExn ValueErrorSkip => True
  | OLen, QNum n, RLen z => z = n
  | OGetFile, QBytes want, RFile f =>
      f_closed f = false /\ (f_pos f <= length (f_content f))%nat /\ skipn (f_pos f) (f_content f) = want
  | _, _, _ => False
  end.

Definition out_ok (q : queue) (p : op) (r : out) : Prop :=
  match spec_of p with
  | Some sp => out_refines q (snd (q_step q sp)) p r
  | None => True
  end.

Lemma inv_new : inv o_new.
Proof. reflexivity. Qed.

Lemma abs_len o : inv o -> o_len o = q_len (abs o).
Proof.
  unfold inv, abs, o_len. destruct (ob_buf o) as [b|]; [|reflexivity].
  intros (_ & Hb & _). now apply fb_abs_len.
Qed.

(* ------------------------------------------------- _create_buffer --- *)

Lemma create_buffer_spec ovf o : inv o -> ob_buf o = None ->
  exists o' b, o_create_buffer FNone ovf o = (o', Ok b) /\ ob_buf o' = Some b /\
            inv o' /\ abs o' = ob_strbuf o /\
            ((fb_kind b = KTmp /\ Z.of_N ovf <= lenZ (ob_strbuf o)) \/
             (fb_kind b = KBio /\ lenZ (ob_strbuf o) < Z.of_N ovf)).
Proof.
  intros Hi Hn. destruct o as [ob sb ovd]. cbn in Hn. subst ob.
  unfold o_create_buffer, o_set_large_buffer, o_set_small_buffer.
  cbn [ob_buf ob_strbuf ob_overflowed]. rewrite !fb_init_none.
  destruct (lenZ sb >=? Z.of_N ovf) eqn:E.
  - destruct sb as [|x sb].
    + do 2 eexists; split; [reflexivity|]. unfold inv, abs, fb_inv, fb_abs. cbn.
      repeat split; auto; try lia. left. split; [reflexivity|]. unfold lenZ in *; cbn in *; lia.
    + destruct (fb_append_spec (mkfbuf KTmp newfile 0) (x :: sb) (fb_inv_fresh KTmp))
        as (b' & Ha & Hi' & Habs & Hk & Hp & Hc & Hr).
      cbn [ob_strbuf is_create_write]. rewrite Ha. do 2 eexists; split; [reflexivity|].
      unfold inv, abs. cbn [ob_buf ob_strbuf ob_overflowed]. rewrite Hk. cbn [fb_kind].
      split; [reflexivity|]. split; [|split].
      * repeat split; auto; apply Hi'.
      * exact Habs.
      * left. split; [reflexivity | lia].
  - destruct sb as [|x sb].
    + do 2 eexists; split; [reflexivity|]. unfold inv, abs, fb_inv, fb_abs. cbn.
      repeat split; auto; try lia; try discriminate. right. split; [reflexivity|]. unfold lenZ in *; cbn in *; lia.
    + destruct (fb_append_spec (mkfbuf KBio newfile 0) (x :: sb) (fb_inv_fresh KBio))
        as (b' & Ha & Hi' & Habs & Hk & Hp & Hc & Hr).
      cbn [ob_strbuf is_create_write]. rewrite Ha. do 2 eexists; split; [reflexivity|].
      unfold inv, abs. cbn [ob_buf ob_strbuf ob_overflowed]. rewrite Hk. cbn [fb_kind].
      split; [reflexivity|]. split; [|split].
      * repeat split; auto; try discriminate; apply Hi'.
      * exact Habs.
      * right. split; [reflexivity | lia].
Qed.

(* ------------------------------------------------------- the methods --- *)

Ltac inv_some Hi Hb := unfold inv in Hi; rewrite Hb in Hi; destruct Hi as (Hs & Hfb & Hk & Hov).

Lemma append_tail_spec ovf s o b : inv o -> ob_buf o = Some b ->
  exists o', o_append_tail FNone ovf s o b = (o', Ok tt) /\ inv o' /\ abs o' = abs o ++ s /\ ob_buf o' <> None.
Proof.
  intros Hi Hb. assert (Habs0 : abs o = fb_abs b) by (unfold abs; now rewrite Hb).
  rewrite Habs0. inv_some Hi Hb.
  destruct (fb_append_spec b s Hfb) as (b' & Ha & Hi' & Habs & Hk' & Hp & Hc & Hr).
  unfold o_append_tail. cbn [is_append_write]. rewrite Ha. cbn [ob_overflowed ob_strbuf].
  destruct (ob_overflowed o) eqn:Eo; cbn [negb].
  - eexists; split; [reflexivity|]. unfold inv, abs; cbn [ob_buf ob_strbuf ob_overflowed].
    rewrite Hk'. repeat split; auto; try apply Hi'; try apply Hov; try discriminate.
  - destruct (fb_len b' >=? Z.of_N ovf).
    + unfold o_set_large_buffer. cbn [ob_buf ob_strbuf]. rewrite (fb_init_copy KTmp b' Hi').
      eexists; split; [reflexivity|].
      unfold inv, abs; cbn [ob_buf ob_strbuf ob_overflowed fb_kind].
      split; [|split; [exact Habs | discriminate]].
      split; [auto|]. split; [exact Hi'|]. split; [auto|]. split; auto.
    + eexists; split; [reflexivity|]. unfold inv, abs; cbn [ob_buf ob_strbuf ob_overflowed].
      rewrite Hk'. repeat split; auto; try apply Hi'; try apply Hov; try discriminate.
Qed.

Lemma append_spec limit ovf o s : inv o ->
  exists o', o_append FNone limit ovf o s = (o', Ok tt) /\ inv o' /\ abs o' = abs o ++ s.
Proof.
  intro Hi. unfold o_append. destruct (ob_buf o) as [b|] eqn:Hb.
  - destruct (append_tail_spec ovf s o b Hi Hb) as (o' & H1 & H2 & H3 & _). eauto.
  - destruct (lenZ (ob_strbuf o) + lenZ s <? Z.of_N limit).
    + eexists; split; [reflexivity|]. unfold inv, abs in *. rewrite Hb in *. cbn. auto.
    + destruct (create_buffer_spec ovf o Hi Hb) as (o1 & b & Hc & Hb1 & Hi1 & Ha1 & _).
      rewrite Hc. destruct (append_tail_spec ovf s o1 b Hi1 Hb1) as (o' & H1 & H2 & H3 & _).
      exists o'. repeat split; auto. rewrite H3, Ha1. unfold abs. now rewrite Hb.
Qed.

Lemma get_tail_noskip n o b : inv o -> ob_buf o = Some b ->
  o_get_tail n false o b = (o, Ok (q_peek n (abs o))).
Proof.
  intros Hi Hb. assert (Habs0 : abs o = fb_abs b) by (unfold abs; now rewrite Hb).
  inv_some Hi Hb. unfold o_get_tail. rewrite (fb_get_noskip b n Hfb), Habs0.
  destruct o as [ob sb ovd]; cbn in *. now subst.
Qed.

Lemma get_tail_skip n o b : inv o -> ob_buf o = Some b ->
  exists o', o_get_tail n true o b = (o', Ok (q_peek n (abs o))) /\ inv o' /\
             abs o' = skipn (length (q_peek n (abs o))) (abs o).
Proof.
  intros Hi Hb. assert (Habs0 : abs o = fb_abs b) by (unfold abs; now rewrite Hb).
  inv_some Hi Hb.
  destruct (fb_get_skip b n Hfb) as (b' & Hg & Hi' & Habs & Hk' & _).
  unfold o_get_tail. rewrite Hg, Habs0. eexists; split; [reflexivity|].
  unfold inv, abs; cbn [ob_buf ob_strbuf ob_overflowed]. rewrite Hk'.
  repeat split; auto; try apply Hi'; apply Hov.
Qed.

(* get(numbytes, skip=False): a prefix at least as long as requested, or everything; nothing changes
   except that nothing changes at all *)
Lemma get_noskip_spec ovf o n : inv o ->
  exists b, o_get FNone ovf o n false = (o, Ok b) /\ (b = q_peek n (abs o) \/ b = abs o).
Proof.
  intro Hi. unfold o_get. destruct (ob_buf o) as [b|] eqn:Hb.
  - rewrite (get_tail_noskip n o b Hi Hb). eauto.
  - cbn [negb]. eexists; split; [reflexivity|]. right. unfold abs. now rewrite Hb.
Qed.

Lemma get_skip_spec ovf o n : inv o ->
  exists o', o_get FNone ovf o n true = (o', Ok (q_peek n (abs o))) /\ inv o' /\
             abs o' = skipn (length (q_peek n (abs o))) (abs o).
Proof.
  intro Hi. unfold o_get. destruct (ob_buf o) as [b|] eqn:Hb.
  - exact (get_tail_skip n o b Hi Hb).
  - cbn [negb]. destruct (create_buffer_spec ovf o Hi Hb) as (o1 & b & Hc & Hb1 & Hi1 & Ha1 & _).
    rewrite Hc. destruct (get_tail_skip n o1 b Hi1 Hb1) as (o' & H1 & H2 & H3).
    assert (E : abs o = abs o1) by (rewrite Ha1; unfold abs; now rewrite Hb).
    rewrite E. eauto.
Qed.

Lemma skip_tail_ok n o b : inv o -> ob_buf o = Some b -> Z.of_N n <= q_len (abs o) ->
  exists o', o_skip_tail n o b = (o', Ok tt) /\ inv o' /\ abs o' = skipn (N.to_nat n) (abs o).
Proof.
  intros Hi Hb Hn. assert (Habs0 : abs o = fb_abs b) by (unfold abs; now rewrite Hb).
  inv_some Hi Hb. rewrite Habs0, <- (fb_abs_len b Hfb) in Hn.
  destruct (fb_skip_ok b n Hfb Hn) as (b' & Hg & Hi' & Habs & Hk' & _).
  unfold o_skip_tail. rewrite Hg, Habs0. eexists; split; [reflexivity|].
  unfold inv, abs; cbn [ob_buf ob_strbuf ob_overflowed]. rewrite Hk'.
  repeat split; auto; try apply Hi'; apply Hov.
Qed.

Lemma skip_tail_err n o b : inv o -> ob_buf o = Some b -> q_len (abs o) < Z.of_N n ->
  o_skip_tail n o b = (o, Exn ValueErrorSkip).
Proof.
  intros Hi Hb Hn. assert (Habs0 : abs o = fb_abs b) by (unfold abs; now rewrite Hb).
  inv_some Hi Hb. rewrite Habs0, <- (fb_abs_len b Hfb) in Hn.
  unfold o_skip_tail. now rewrite (fb_skip_err b n Hn).
Qed.

Lemma skip_ok_spec ovf o n ap : inv o -> Z.of_N n <= q_len (abs o) ->
  exists o', o_skip FNone ovf o n ap = (o', Ok tt) /\ inv o' /\ abs o' = skipn (N.to_nat n) (abs o).
Proof.
  intros Hi Hn. unfold o_skip. destruct (ob_buf o) as [b|] eqn:Hb.
  - exact (skip_tail_ok n o b Hi Hb Hn).
  - destruct (ap && (Z.of_N n =? lenZ (ob_strbuf o))) eqn:E.
    + eexists; split; [reflexivity|]. unfold inv, abs in *. rewrite Hb in *. cbn [ob_buf ob_strbuf ob_overflowed].
      split; [auto|]. rewrite skipn_all2; [reflexivity|]. unfold lenZ in E. lia.
    + destruct (create_buffer_spec ovf o Hi Hb) as (o1 & b & Hc & Hb1 & Hi1 & Ha1 & _).
      rewrite Hc. assert (E1 : abs o = abs o1) by (rewrite Ha1; unfold abs; now rewrite Hb).
      rewrite E1 in *. exact (skip_tail_ok n o1 b Hi1 Hb1 Hn).
Qed.

(* the error branch of skip: ValueError, the queued bytes are untouched; a
   plain-bytes buffer has been migrated to a file representation on the way *)
Lemma skip_err_spec ovf o n ap : inv o -> q_len (abs o) < Z.of_N n ->
  exists o', o_skip FNone ovf o n ap = (o', Exn ValueErrorSkip) /\ inv o' /\ abs o' = abs o /\
             (ob_buf o <> None -> o' = o) /\ ob_buf o' <> None.
Proof.
  intros Hi Hn. unfold o_skip. destruct (ob_buf o) as [b|] eqn:Hb.
  - rewrite (skip_tail_err n o b Hi Hb Hn). exists o. repeat split; auto. rewrite Hb; discriminate.
  - destruct (ap && (Z.of_N n =? lenZ (ob_strbuf o))) eqn:E.
    + exfalso. unfold abs in Hn. rewrite Hb in Hn. unfold q_len, lenZ in *. lia.
    + destruct (create_buffer_spec ovf o Hi Hb) as (o1 & b & Hc & Hb1 & Hi1 & Ha1 & _).
      rewrite Hc. assert (E1 : abs o = abs o1) by (rewrite Ha1; unfold abs; now rewrite Hb).
      rewrite E1 in Hn. rewrite (skip_tail_err n o1 b Hi1 Hb1 Hn).
      exists o1. repeat split; auto. * intro H; now elim H. * rewrite Hb1; discriminate.
Qed.

Lemma getfile_spec ovf o : inv o ->
  exists o' f, o_getfile FNone ovf o = (o', Ok f) /\ inv o' /\ abs o' = abs o /\
               f_closed f = false /\ (f_pos f <= length (f_content f))%nat /\
               skipn (f_pos f) (f_content f) = abs o.
Proof.
  intro Hi. unfold o_getfile. destruct (ob_buf o) as [b|] eqn:Hb.
  - exists o, (fb_file b). assert (Habs0 : abs o = fb_abs b) by (unfold abs; now rewrite Hb).
    pose proof Hi as Hi0. inv_some Hi Hb. destruct Hfb as (H1 & H2 & H3).
    repeat split; auto.
  - destruct (create_buffer_spec ovf o Hi Hb) as (o1 & b & Hc & Hb1 & Hi1 & Ha1 & _).
    rewrite Hc. exists o1, (fb_file b).
    assert (E1 : abs o = abs o1) by (rewrite Ha1; unfold abs; now rewrite Hb).
    assert (Habs1 : abs o1 = fb_abs b) by (unfold abs; now rewrite Hb1).
    pose proof Hi1 as Hi2. inv_some Hi2 Hb1. destruct Hfb as (H1 & H2 & H3).
    repeat split; auto. rewrite E1, Habs1. reflexivity.
Qed.

(* --------------------------------------------------------- one step --- *)

Lemma is_prefix_refl (q : list N) : is_prefix q q.
Proof. exists []. now rewrite app_nil_r. Qed.

Lemma step_refines limit ovf o p : inv o -> live p ->
  inv (fst (step limit ovf o p)) /\
  abs (fst (step limit ovf o p)) = q_next_op (abs o) p /\
  out_ok (abs o) p (snd (step limit ovf o p)).
Proof.
  intros Hi Hl. destruct p as [s | n sk | n ap | | |]; unfold step, step_f, q_next_op, out_ok; cbn [spec_of].
  - destruct (append_spec limit ovf o s Hi) as (o' & H1 & H2 & H3). rewrite H1. cbn. auto.
  - destruct sk.
    + destruct (get_skip_spec ovf o n Hi) as (o' & H1 & H2 & H3). rewrite H1. cbn. auto.
    + destruct (get_noskip_spec ovf o n Hi) as (b & H1 & H2). rewrite H1. cbn.
      repeat split; auto; destruct H2 as [-> | ->].
      * apply q_peek_prefix. * apply is_prefix_refl. * lia. * apply q_peek_length_le.
  - unfold q_next, q_step. destruct (Z.of_N n <=? q_len (abs o)) eqn:E.
    + destruct (skip_ok_spec ovf o n ap Hi ltac:(lia)) as (o' & H1 & H2 & H3). rewrite H1. cbn. auto.
    + destruct (skip_err_spec ovf o n ap Hi ltac:(lia)) as (o' & H1 & H2 & H3 & _). rewrite H1. cbn. auto.
  - cbn. repeat split; auto. now apply abs_len.
  - destruct (getfile_spec ovf o Hi) as (o' & f & H1 & H2 & H3 & H4 & H5 & H6). rewrite H1. cbn. auto.
  - now elim Hl.
Qed.

(* ------------------------------------------------------- histories --- *)

Definition q_exec_op (q : queue) (ops : list op) : queue := fold_left q_next_op ops q.

Lemma exec_refines limit ovf ops : forall o, inv o -> Forall live ops ->
  inv (exec limit ovf o ops) /\ abs (exec limit ovf o ops) = q_exec_op (abs o) ops.
Proof.
  unfold exec, q_exec_op. induction ops as [|p ops IH]; intros o Hi Hl; cbn [fold_left].
  - auto.
  - inversion Hl as [|? ? Hp Hl']; subst.
    destruct (step_refines limit ovf o p Hi Hp) as (H1 & H2 & _).
    destruct (IH _ H1 Hl') as (H3 & H4). split; [exact H3|]. now rewrite H4, H2.
Qed.

(* outputs along a history: each output is judged against the queue the
   specification has reached before the operation *)
Fixpoint trace_ok (q : queue) (ops : list op) (outs : list out) : Prop :=
  match ops, outs with
  | [], [] => True
  | p :: ops', r :: outs' => out_ok q p r /\ trace_ok (q_next_op q p) ops' outs'
  | _, _ => False
  end.

Lemma run_refines limit ovf ops : forall o, inv o -> Forall live ops ->
  fst (run limit ovf o ops) = exec limit ovf o ops /\
  trace_ok (abs o) ops (snd (run limit ovf o ops)).
Proof.
  induction ops as [|p ops IH]; intros o Hi Hl; cbn [run].
  - cbn. auto.
  - inversion Hl as [|? ? Hp Hl']; subst.
    destruct (step_refines limit ovf o p Hi Hp) as (H1 & H2 & H3).
    destruct (step limit ovf o p) as [o1 r] eqn:Es. cbn [fst snd] in *.
    destruct (IH o1 H1 Hl') as (H4 & H5).
    destruct (run limit ovf o1 ops) as [o2 rs] eqn:Er. cbn [fst snd] in *.
    split.
    + unfold exec in *. cbn [fold_left]. now rewrite Es.
    + cbn [trace_ok]. split; [exact H3|]. now rewrite <- H2.
Qed.

Theorem history_refines limit ovf ops : Forall live ops ->
  let o := exec limit ovf o_new ops in
  inv o /\ abs o = q_exec_op q_empty ops /\
  o_len o = q_len (q_exec_op q_empty ops) /\
  (forall p, live p -> out_ok (q_exec_op q_empty ops) p (snd (step limit ovf o p))) /\
  fst (run limit ovf o_new ops) = o /\
  trace_ok q_empty ops (snd (run limit ovf o_new ops)).
Proof.
  intros Hl o. destruct (exec_refines limit ovf ops o_new inv_new Hl) as (H1 & H2).
  destruct (run_refines limit ovf ops o_new inv_new Hl) as (H3 & H4).
  fold o in H1, H2, H3. change (abs o_new) with q_empty in *.
  repeat split; auto.
  - rewrite <- H2. now apply abs_len.
  - intros p Hp. rewrite <- H2. now apply step_refines.
Qed.

(* no operation raises when skip is only asked for what is queued *)
Definition respects (q : queue) (p : op) : Prop :=
  match p with OSkip n _ => Z.of_N n <= q_len q | OClose => False | _ => True end.

Lemma step_no_exn limit ovf o p : inv o -> respects (abs o) p ->
  forall e, snd (step limit ovf o p) <> RExn e.
Proof.
  intros Hi Hr e. assert (Hl : live p) by (destruct p; cbn in Hr; try discriminate; tauto).
  destruct (step_refines limit ovf o p Hi Hl) as (_ & _ & H).
  destruct (snd (step limit ovf o p)) eqn:Es; try discriminate.
  unfold out_ok in H. destruct p as [s | n [|] | n ap | | |]; cbn in H, Hr; try tauto.
  unfold q_step in H. destruct (Z.of_N n <=? q_len (abs o)) eqn:E; [cbn in H; tauto | lia].
Qed.

(* the error branch, explicitly *)
Theorem skip_error_branch limit ovf ops n ap : Forall live ops ->
  let o := exec limit ovf o_new ops in
  q_len (abs o) < Z.of_N n ->
  snd (step limit ovf o (OSkip n ap)) = RExn ValueErrorSkip /\
  inv (fst (step limit ovf o (OSkip n ap))) /\
  abs (fst (step limit ovf o (OSkip n ap))) = abs o /\
  o_len (fst (step limit ovf o (OSkip n ap))) = o_len o /\
  (ob_buf o <> None -> fst (step limit ovf o (OSkip n ap)) = o) /\
  ob_buf (fst (step limit ovf o (OSkip n ap))) <> None.
Proof.
  intros Hl o Hn. destruct (exec_refines limit ovf ops o_new inv_new Hl) as (Hi & _). fold o in Hi.
  destruct (skip_err_spec ovf o n ap Hi Hn) as (o' & H1 & H2 & H3 & H4 & H5).
  unfold step, step_f. rewrite H1. cbn. repeat split; auto.
  rewrite (abs_len o' H2), (abs_len o Hi). now rewrite H3.
Qed.

(* ------------------- exactly once, in order, unmodified: ghost accounting --- *)

Definition op_appended (p : op) : list N :=
  match spec_of p with Some sp => q_appended_by sp | None => [] end.
Definition op_consumed (q : queue) (p : op) : nat :=
  match spec_of p with Some sp => q_consumed_by q sp | None => 0%nat end.
(* all bytes appended by a history, in order *)
Fixpoint appended_of (ops : list op) : list N :=
  match ops with [] => [] | p :: ops' => op_appended p ++ appended_of ops' end.
(* the number of bytes consumed by a history that starts with queue q *)
Fixpoint consumed_of (q : queue) (ops : list op) : nat :=
  match ops with [] => 0%nat | p :: ops' => (op_consumed q p + consumed_of (q_next_op q p) ops')%nat end.

Lemma one_step_stream q p X :
  q_next_op q p ++ X = skipn (op_consumed q p) (q ++ op_appended p ++ X) /\
  (op_consumed q p <= length q)%nat.
Proof.
  unfold q_next_op, op_consumed, op_appended.
  destruct p as [s | n [|] | n ap | | |]; cbn [spec_of q_appended_by q_consumed_by app skipn];
    unfold q_next, q_step, q_append, q_consume; cbn [fst];
    try (split; [reflexivity | lia]).
  - split; [now rewrite app_assoc | lia].
  - pose proof (q_peek_length_le n q). split; [now rewrite skipn_app_le | lia].
  - unfold q_len. destruct (Z.of_N n <=? Z.of_nat (length q)) eqn:E; cbn [fst].
    + split; [rewrite skipn_app_le; [reflexivity | lia] | lia].
    + split; [reflexivity | lia].
Qed.

Lemma stream_position ops : forall q,
  q_exec_op q ops = skipn (consumed_of q ops) (q ++ appended_of ops) /\
  (consumed_of q ops <= length q + length (appended_of ops))%nat.
Proof.
  unfold q_exec_op. induction ops as [|p ops IH]; intro q; cbn [fold_left consumed_of appended_of].
  - rewrite app_nil_r. cbn. split; [reflexivity | lia].
  - destruct (IH (q_next_op q p)) as (H1 & H2).
    destruct (one_step_stream q p (appended_of ops)) as (H3 & H4).
    rewrite H1, H3, skipn_skipn. split.
    + f_equal. lia.
    + assert (L : length (q_next_op q p ++ appended_of ops) =
                  (length (q ++ op_appended p ++ appended_of ops) - op_consumed q p)%nat)
        by (rewrite H3; apply skipn_length).
      rewrite !app_length in *. lia.
Qed.

(* After any history: what is still queued is the appended stream minus its
   first [consumed] bytes; so every byte leaves at most once, in order and
   unmodified, and len = appended - consumed. *)
Theorem exactly_once limit ovf ops : Forall live ops ->
  let o := exec limit ovf o_new ops in
  let A := appended_of ops in
  let C := consumed_of q_empty ops in
  (C <= length A)%nat /\
  abs o = skipn C A /\
  o_len o = Z.of_nat (length A) - Z.of_nat C /\
  (forall p, live p -> out_ok (skipn C A) p (snd (step limit ovf o p))).
Proof.
  intros Hl o A C.
  destruct (history_refines limit ovf ops Hl) as (Hi & Ha & Hlen & Hout & _). fold o in Hi, Ha, Hlen, Hout.
  destruct (stream_position ops q_empty) as (H1 & H2). cbn [app q_empty length] in H1, H2.
  fold A C in H1, H2. rewrite H1 in *. repeat split; auto.
  rewrite Hlen. unfold q_len. rewrite skipn_length. lia.
Qed.

(* ------------------------------------------------------------- close --- *)

Lemma close_str o : ob_buf o = None -> o_close o = o.
Proof. intro H. unfold o_close. now rewrite H. Qed.

(* a buffer whose file representation has been closed *)
Definition dead (o : obuf) : Prop :=
  exists b, ob_buf o = Some b /\ f_closed (fb_file b) = true.

Lemma close_file o b : ob_buf o = Some b -> dead (o_close o) /\ o_len (o_close o) = 0.
Proof.
  intro H. unfold o_close, dead, o_len. rewrite H. cbn. split; [|reflexivity].
  eexists; split; reflexivity.
Qed.

(* after close() of a file representation nothing comes out any more *)
Lemma dead_step limit ovf o p : dead o ->
  dead (fst (step limit ovf o p)) /\ (forall b, snd (step limit ovf o p) <> RBytes b) /\
  (p <> OClose -> fst (step limit ovf o p) = o).
Proof.
  intros (b & Hb & Hc).
  destruct p as [s | n sk | n ap | | |]; unfold step, step_f.
  - unfold o_append, o_append_tail, fb_append. rewrite Hb, Hc. cbn.
    repeat split; try discriminate. exists b; auto.
  - unfold o_get, o_get_tail, fb_get. rewrite Hb, Hc. cbn.
    repeat split; try discriminate. exists b; auto.
  - unfold o_skip, o_skip_tail, fb_skip. rewrite Hb, Hc.
    destruct (fb_remain b <? Z.of_N n); cbn; (repeat split; try discriminate; exists b; auto).
  - cbn. repeat split; try discriminate. exists b; auto.
  - unfold o_getfile. rewrite Hb. cbn. repeat split; try discriminate. exists b; auto.
  - unfold o_close. rewrite Hb. cbn. repeat split; try discriminate; try tauto.
    eexists; split; reflexivity.
Qed.

(* ----------------------- which representation holds how many bytes --- *)

(* plain bytes hold fewer than STRBUF_LIMIT bytes; an in-memory file holds
   fewer than [overflow] bytes (otherwise it has been moved to a temporary file) *)
Definition inv_thr (limit ovf : N) (o : obuf) : Prop :=
  match ob_buf o with
  | None => ob_strbuf o = [] \/ lenZ (ob_strbuf o) < Z.of_N limit
  | Some b => fb_kind b = KBio -> fb_remain b < Z.of_N ovf
  end.

Lemma thr_new limit ovf : inv_thr limit ovf o_new.
Proof. left. reflexivity. Qed.

Lemma thr_create limit ovf o : inv o -> ob_buf o = None ->
  inv_thr limit ovf (fst (o_create_buffer FNone ovf o)).
Proof.
  intros Hi Hb. destruct (create_buffer_spec ovf o Hi Hb) as (o1 & b & Hc & Hb1 & Hi1 & Ha1 & Hk).
  rewrite Hc. cbn [fst]. unfold inv_thr. rewrite Hb1. intro Hkb.
  assert (Hr : fb_remain b = lenZ (ob_strbuf o)).
  { pose proof Hi1 as Hi2. unfold inv in Hi2. rewrite Hb1 in Hi2. destruct Hi2 as (_ & Hfb & _).
    rewrite (fb_abs_len b Hfb). unfold abs in Ha1. rewrite Hb1 in Ha1. now rewrite Ha1. }
  destruct Hk as [(Hk & _) | (_ & Hlt)]; [congruence | lia].
Qed.

Lemma thr_append_tail limit ovf s o b : inv o -> ob_buf o = Some b ->
  inv_thr limit ovf (fst (o_append_tail FNone ovf s o b)).
Proof.
  intros Hi Hb. inv_some Hi Hb.
  destruct (fb_append_spec b s Hfb) as (b' & Ha & Hi' & Habs & Hk' & Hp & Hc & Hr).
  unfold o_append_tail. cbn [is_append_write]. rewrite Ha. cbn [ob_overflowed ob_strbuf].
  destruct (ob_overflowed o) eqn:Eo; cbn [negb].
  - cbn [fst]. unfold inv_thr. cbn [ob_buf]. intro Hkb. rewrite Hk' in Hkb.
    assert (fb_kind b = KTmp) by now apply Hov. congruence.
  - destruct (fb_len b' >=? Z.of_N ovf) eqn:E.
    + unfold o_set_large_buffer. cbn [ob_buf ob_strbuf]. rewrite (fb_init_copy KTmp b' Hi').
      cbn [fst]. unfold inv_thr. cbn [ob_buf fb_kind]. discriminate.
    + cbn [fst]. unfold inv_thr. cbn [ob_buf]. intros _. unfold fb_len in E. lia.
Qed.

Lemma thr_get_tail limit ovf n sk o b : inv o -> inv_thr limit ovf o -> ob_buf o = Some b ->
  inv_thr limit ovf (fst (o_get_tail n sk o b)).
Proof.
  intros Hi Ht Hb. unfold inv_thr in Ht. rewrite Hb in Ht. pose proof Hi as Hi0. inv_some Hi Hb.
  destruct sk.
  - destruct (fb_get_skip b n Hfb) as (b' & Hg & Hi' & Habs & Hk' & _ & _ & Hr).
    unfold o_get_tail. rewrite Hg. cbn [fst]. unfold inv_thr. cbn [ob_buf]. rewrite Hk'. intro Hkb.
    specialize (Ht Hkb). unfold lenZ in Hr. lia.
  - rewrite (get_tail_noskip n o b Hi0 Hb). cbn [fst]. unfold inv_thr. now rewrite Hb.
Qed.

Lemma thr_skip_tail limit ovf n o b : inv o -> inv_thr limit ovf o -> ob_buf o = Some b ->
  inv_thr limit ovf (fst (o_skip_tail n o b)).
Proof.
  intros Hi Ht Hb. pose proof Ht as Ht0. unfold inv_thr in Ht. rewrite Hb in Ht. inv_some Hi Hb.
  unfold o_skip_tail. destruct (Z_le_gt_dec (Z.of_N n) (fb_remain b)) as [Hle | Hgt].
  - destruct (fb_skip_ok b n Hfb Hle) as (b' & Hg & Hi' & Habs & Hk' & _ & _ & Hr).
    rewrite Hg. cbn [fst]. unfold inv_thr. cbn [ob_buf]. rewrite Hk'. intro Hkb.
    specialize (Ht Hkb). lia.
  - rewrite (fb_skip_err b n ltac:(lia)). exact Ht0.
Qed.

Lemma thr_step limit ovf o p : inv o -> inv_thr limit ovf o -> live p ->
  inv_thr limit ovf (fst (step limit ovf o p)).
Proof.
  intros Hi Ht Hl. destruct p as [s | n sk | n ap | | |]; unfold step, step_f.
  - unfold o_append. destruct (ob_buf o) as [b|] eqn:Hb.
    + pose proof (thr_append_tail limit ovf s o b Hi Hb) as H.
      destruct (o_append_tail FNone ovf s o b); exact H.
    + destruct (lenZ (ob_strbuf o) + lenZ s <? Z.of_N limit) eqn:E.
      * cbn. unfold inv_thr. cbn [ob_buf ob_strbuf]. right. unfold lenZ in *. rewrite app_length. lia.
      * destruct (create_buffer_spec ovf o Hi Hb) as (o1 & b & Hc & Hb1 & Hi1 & _).
        rewrite Hc. pose proof (thr_append_tail limit ovf s o1 b Hi1 Hb1) as H.
        destruct (o_append_tail FNone ovf s o1 b); exact H.
  - unfold o_get. destruct (ob_buf o) as [b|] eqn:Hb.
    + pose proof (thr_get_tail limit ovf n sk o b Hi Ht Hb) as H.
      destruct (o_get_tail n sk o b) as [o' [r|e]]; exact H.
    + destruct sk; cbn [negb].
      * pose proof (thr_create limit ovf o Hi Hb) as Ht1.
        destruct (create_buffer_spec ovf o Hi Hb) as (o1 & b & Hc & Hb1 & Hi1 & _).
        rewrite Hc in *. cbn [fst] in Ht1.
        pose proof (thr_get_tail limit ovf n true o1 b Hi1 Ht1 Hb1) as H.
        destruct (o_get_tail n true o1 b) as [o' [r|e]]; exact H.
      * exact Ht.
  - unfold o_skip. destruct (ob_buf o) as [b|] eqn:Hb.
    + pose proof (thr_skip_tail limit ovf n o b Hi Ht Hb) as H.
      destruct (o_skip_tail n o b) as [o' [r|e]]; exact H.
    + destruct (ap && (Z.of_N n =? lenZ (ob_strbuf o))).
      * cbn. left. reflexivity.
      * pose proof (thr_create limit ovf o Hi Hb) as Ht1.
        destruct (create_buffer_spec ovf o Hi Hb) as (o1 & b & Hc & Hb1 & Hi1 & _).
        rewrite Hc in *. cbn [fst] in Ht1.
        pose proof (thr_skip_tail limit ovf n o1 b Hi1 Ht1 Hb1) as H.
        destruct (o_skip_tail n o1 b) as [o' [r|e]]; exact H.
  - exact Ht.
  - unfold o_getfile. destruct (ob_buf o) as [b|] eqn:Hb.
    + exact Ht.
    + pose proof (thr_create limit ovf o Hi Hb) as Ht1.
      destruct (create_buffer_spec ovf o Hi Hb) as (o1 & b & Hc & _).
      rewrite Hc in *. exact Ht1.
  - now elim Hl.
Qed.

Theorem representation_bounds limit ovf ops : Forall live ops ->
  let o := exec limit ovf o_new ops in
  match rep_of o with
  | Str s => ob_overflowed o = false /\ (s = [] \/ lenZ s < Z.of_N limit)
  | Bio f r => ob_overflowed o = false /\ r < Z.of_N ovf
  | Tmp f r => ob_overflowed o = true
  end.
Proof.
  intros Hl o.
  assert (H : inv o /\ inv_thr limit ovf o).
  { subst o. unfold exec. generalize inv_new (thr_new limit ovf). generalize o_new.
    induction ops as [|p ops IH]; intros o Hi Ht; cbn [fold_left]; [auto|].
    inversion Hl as [|? ? Hp Hl']; subst.
    destruct (step_refines limit ovf o p Hi Hp) as (H1 & _).
    apply IH; auto. now apply thr_step. }
  destruct H as (Hi & Ht). unfold inv, inv_thr, rep_of in *.
  destruct (ob_buf o) as [b|]; [|auto].
  destruct Hi as (_ & _ & Hk & Hov).
  destruct (fb_kind b) eqn:Ek.
  - split; [|auto]. destruct (ob_overflowed o); [|reflexivity]. destruct Hov as [Hov _]. now specialize (Hov eq_refl).
  - now apply Hov.
  - destruct Hk; discriminate.
Qed.

Theorem no_exception limit ovf ops p : Forall live ops ->
  let o := exec limit ovf o_new ops in
  respects (abs o) p -> forall e, snd (step limit ovf o p) <> RExn e.
Proof.
  intros Hl o Hr. destruct (exec_refines limit ovf ops o_new inv_new Hl) as (Hi & _).
  now apply step_no_exn.
Qed.

(* close(): a no-op on plain bytes (nothing to close); on a file representation
   the length drops to 0 and from then on no operation yields bytes or changes
   the state *)
Theorem after_close limit ovf ops more : Forall live ops ->
  let o := exec limit ovf o_new ops in
  let oc := o_close o in
  (ob_buf o = None -> oc = o) /\
  (ob_buf o <> None ->
     o_len oc = 0 /\
     let o' := exec limit ovf oc more in
     dead o' /\ o_len o' = 0 /\
     forall p b, snd (step limit ovf o' p) <> RBytes b).
Proof.
  intros Hl o oc. split; [apply close_str|].
  intro Hb. destruct (ob_buf o) as [b|] eqn:E; [|now elim Hb].
  destruct (close_file o b E) as (Hd & Hlen). fold oc in Hd, Hlen. split; [exact Hlen|].
  cbv zeta.
  assert (H : dead (exec limit ovf oc more) /\ o_len (exec limit ovf oc more) = 0).
  { unfold exec. revert Hd Hlen. generalize oc. induction more as [|p more IH]; intros x Hd Hlen; cbn [fold_left]; [auto|].
    destruct (dead_step limit ovf x p Hd) as (H1 & _ & H3).
    apply IH; [exact H1|]. destruct p; try (rewrite H3 by discriminate; exact Hlen).
    unfold step, step_f. cbn [fst]. destruct Hd as (bb & Hbb & _). unfold o_close, o_len. rewrite Hbb. reflexivity. }
  destruct H as (H1 & H2). repeat split; auto.
  intros p bb. now apply dead_step.
Qed.

(* the way the channel drains an output buffer (channel._flush_some):
   chunk = get(n); m = send(chunk) <= len(chunk); skip(m, True).
   The peek changes nothing, the skip never raises, and what is removed is
   exactly the part of the chunk that was sent. *)
Theorem flush_pattern limit ovf ops n m ap chunk : Forall live ops ->
  let o := exec limit ovf o_new ops in
  snd (step limit ovf o (OGet n false)) = RBytes chunk ->
  (N.to_nat m <= length chunk)%nat ->
  fst (step limit ovf o (OGet n false)) = o /\
  snd (step limit ovf o (OSkip m ap)) = RUnit /\
  inv (fst (step limit ovf o (OSkip m ap))) /\
  abs o = firstn (N.to_nat m) chunk ++ abs (fst (step limit ovf o (OSkip m ap))).
Proof.
  intros Hl o Hg Hm. destruct (exec_refines limit ovf ops o_new inv_new Hl) as (Hi & _). fold o in Hi.
  destruct (get_noskip_spec ovf o n Hi) as (b & H1 & H2).
  unfold step, step_f in Hg |- *. rewrite H1 in *. cbn in Hg. injection Hg as ->. cbn [fst].
  assert (Hp : is_prefix chunk (abs o)) by (destruct H2 as [-> | ->]; [apply q_peek_prefix | apply is_prefix_refl]).
  destruct Hp as (rest & Hr).
  assert (Hlen : Z.of_N m <= q_len (abs o)) by (unfold q_len; rewrite Hr, app_length; lia).
  destruct (skip_ok_spec ovf o m ap Hi Hlen) as (o' & H3 & H4 & H5). rewrite H3. cbn [fst snd lift].
  repeat split; auto. rewrite H5.
  replace (firstn (N.to_nat m) chunk) with (firstn (N.to_nat m) (abs o)); [now rewrite firstn_skipn|].
  rewrite Hr, firstn_app. replace (N.to_nat m - length chunk)%nat with 0%nat by lia.
  cbn [firstn]. now rewrite app_nil_r.
Qed.
