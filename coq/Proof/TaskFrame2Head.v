(* C03, widening: what the client finds in the head of a prepared task, for the
   classes of tasks the widened frame theorems need:
   - no Content-Length known (any status class),
   - a Content-Length header supplied by the application (status with a body). *)
From Coq Require Import String.
From Coq Require Import List NArith ZArith Bool Lia Arith Permutation.
From WV Require Import Lib.PyBytes Gen.GenTables Model.Task Spec.ClientParse
  Proof.TaskSort Proof.TaskLines Proof.TaskHead Proof.TaskStart Proof.TaskRun Proof.TaskChunk Proof.TaskClient
  Proof.TaskC08 Proof.TaskC09 Proof.TaskFrame Proof.TaskBody Proof.TaskSimple Proof.TaskFrameClient
  Proof.TaskFrameEnd.
Import ListNotations.
Local Open Scope N_scope.

Section Head2.
Variable cap : str -> str.
Variable lower : str -> str.
Hypothesis Hcap : forall s, clean s -> clean (cap s).
Hypothesis Hcap_conn : cap (lit "Connection") = lit "Connection".
Hypothesis Hcap_te : beqb (cap (lit "Transfer-Encoding")) (lit "Connection") = false.
Hypothesis Hcap_cl : beqb (cap (lit "Content-Length")) (lit "Connection") = false.
Variable c : cfg.
Hypothesis Hc : cfg_clean c.
Variable r : req.

Definition nocolon_rh (t : task) : Prop := Forall (fun h : str * str => no_colon (fst h)) (t_rh t).

(* the fields of the head as the client reads them *)
Definition cfields (t : task) : list (bytes * bytes) := map client_field (sort_hdrs (t_rh t)).

Lemma in_cfields t h : In h (t_rh t) -> In (client_field h) (cfields t).
Proof.
  intro H. unfold cfields. apply in_map. eapply Permutation_in; [apply Permutation_sym, sort_perm|exact H].
Qed.

Lemma cfields_in t x : In x (cfields t) -> exists h, In h (t_rh t) /\ client_field h = x.
Proof.
  unfold cfields. intro H. apply in_map_iff in H as (h & E & Hh). exists h. split; auto.
  eapply Permutation_in; [apply sort_perm|exact Hh].
Qed.

Lemma cfields_filter_nil t name :
  filter (field_is name) (map client_field (t_rh t)) = [] -> filter (field_is name) (cfields t) = [].
Proof. apply sorted_filter_nil. Qed.

(* ---- no Content-Length known -------------------------------------------------- *)

Lemma nolen_head_facts t1 :
  task_clean t1 ->
  t_cof t1 = false -> t_wrote_header t1 = false -> t_chunked t1 = false -> t_clen t1 = None ->
  plain_fields cap (t_rh t1) ->
  let tp := bh_prepare cap lower c r t1 in
  task_clean tp /\ nocolon_rh tp
  /\ t_status tp = t_status t1 /\ t_v11 tp = t_v11 t1
  /\ t_cof tp = true /\ t_chunked tp = t_v11 t1 && has_body t1
  /\ te_fields tp = (if t_v11 t1 && has_body t1 then [client_field f_chunked] else [])
  /\ cl_fields tp = []
  /\ (forall h, In h (t_rh t1) -> In (norm_field cap h) (t_rh tp))
  /\ In f_close (t_rh tp).
Proof.
  intros Hclean C W K L P. cbn zeta.
  pose proof (prepared_nolen cap lower Hcap_te c r t1 C W K L P) as Q. cbn zeta in Q.
  set (tp := bh_prepare cap lower c r t1) in *.
  split; [subst tp; apply bh_prepare_clean; auto|].
  unfold conn_table in Q. rewrite andb_false_r in Q.
  destruct (t_v11 t1) eqn:V.
  - set (cl1 := beqb (request_connection r) (lit "close") || r_connection_close r) in *.
    destruct Q as (tail & Prh & Ptail & Pcof & Pchk & Pst & Pv).
    split.
    { unfold nocolon_rh. rewrite Prh. apply Forall_app. split; [apply plain_no_colon; auto|]. apply Forall_app. split.
      - destruct cl1, (has_body t1); repeat constructor.
      - apply tail_no_colon; auto. }
    split; [exact Pst|]. split; [exact Pv|]. split; [exact Pcof|]. split; [exact Pchk|].
    split.
    { unfold te_fields. rewrite Prh, !map_app, !filter_app.
      rewrite (plain_not_named _ _ te_name (or_introl eq_refl) P).
      rewrite (tail_not_named tail te_name eq_refl eq_refl eq_refl Ptail).
      cbn [andb]. destruct cl1, (has_body t1); reflexivity. }
    split.
    { unfold cl_fields. rewrite Prh, !map_app, !filter_app.
      rewrite (plain_not_named _ _ cl_name (or_intror eq_refl) P).
      rewrite (tail_not_named tail cl_name eq_refl eq_refl eq_refl Ptail).
      destruct cl1, (has_body t1); reflexivity. }
    split.
    { intros h Hh. rewrite Prh. apply in_or_app. left. apply in_map. exact Hh. }
    rewrite Prh. apply in_or_app. right. apply in_or_app. left. destruct cl1, (has_body t1); cbn; auto.
  - destruct Q as (tail & Prh & Ptail & Pcof & Pchk & Pst & Pv).
    split.
    { unfold nocolon_rh. rewrite Prh. apply Forall_app. split; [apply plain_no_colon; auto|]. apply Forall_app. split.
      - repeat constructor.
      - apply tail_no_colon; auto. }
    split; [exact Pst|]. split; [exact Pv|]. split; [exact Pcof|]. split; [exact Pchk|].
    split.
    { unfold te_fields. rewrite Prh, !map_app, !filter_app.
      rewrite (plain_not_named _ _ te_name (or_introl eq_refl) P).
      rewrite (tail_not_named tail te_name eq_refl eq_refl eq_refl Ptail). reflexivity. }
    split.
    { unfold cl_fields. rewrite Prh, !map_app, !filter_app.
      rewrite (plain_not_named _ _ cl_name (or_intror eq_refl) P).
      rewrite (tail_not_named tail cl_name eq_refl eq_refl eq_refl Ptail). reflexivity. }
    split.
    { intros h Hh. rewrite Prh. apply in_or_app. left. apply in_map. exact Hh. }
    rewrite Prh. apply in_or_app. right. apply in_or_app. left. cbn; auto.
Qed.

(* ---- a Content-Length header supplied by the application ------------------------ *)

(* the persistence decision announced in the head when the length is known *)
Definition keep_of : bool :=
  if beqb (r_version r) (lit "1.1")
  then negb (beqb (request_connection r) (lit "close") || r_connection_close r)
  else beqb (request_connection r) (lit "keep-alive") && negb (r_connection_close r).

Lemma len_head_facts t1 l1 clname v l2 :
  task_clean t1 ->
  t_cof t1 = false -> t_wrote_header t1 = false -> t_chunked t1 = false ->
  t_v11 t1 = beqb (r_version r) (lit "1.1") ->
  t_rh t1 = l1 ++ (clname, v) :: l2 -> plain_fields cap l1 -> plain_fields cap l2 ->
  norm_name cap clname = lit "Content-Length" -> has_body t1 = true -> all_digits v = true ->
  let tp := bh_prepare cap lower c r t1 in
  task_clean tp /\ nocolon_rh tp
  /\ t_status tp = t_status t1 /\ t_v11 tp = t_v11 t1
  /\ t_cof tp = negb keep_of /\ t_chunked tp = false
  /\ te_fields tp = [] /\ cl_fields tp = [(lit "Content-Length", v)]
  /\ (forall h, In h (t_rh t1) -> In (norm_field cap h) (t_rh tp))
  /\ (keep_of = false -> In f_close (t_rh tp))
  /\ (keep_of = true -> ~ In (client_field f_close) (cfields tp)).
Proof.
  intros Hclean S6 S5 S7 S9 Erh1 Ppre Ppost Hnorm Hb1 Hdig. cbn zeta.
  assert (Hvne : snd (clname, v) <> []).
  { cbn [snd]. unfold all_digits in Hdig. destruct v; [discriminate|discriminate]. }
  pose proof (prepared_len cap lower Hcap_te c r Hcap_cl t1 l1 (clname, v) l2 S6 S5 S7 Erh1
                (conj Ppre (conj Ppost Hnorm)) Hb1 Hvne) as P.
  cbn zeta in P. rewrite S9 in P.
  pose proof (table_len_chk (beqb (r_version r) (lit "1.1")) (request_connection r) (r_connection_close r)) as Hchk.
  destruct (conn_table (beqb (r_version r) (lit "1.1")) (request_connection r) (r_connection_close r) true true)
    as [[add cof] chk] eqn:Etab. cbn [snd] in Hchk. subst chk.
  destruct P as (tail & Prh & Ptail & Pcof & Pchk & Pst & Pv).
  set (tp := bh_prepare cap lower c r t1) in *.
  assert (Hcof : cof = negb keep_of).
  { unfold keep_of. unfold conn_table in Etab. destruct (beqb (r_version r) (lit "1.1")).
    - injection Etab as _ <-. rewrite negb_involutive. reflexivity.
    - rewrite andb_true_r in Etab. destruct (_ && _); injection Etab as _ <-; reflexivity. }
  assert (Hadd : add = (if keep_of then (if beqb (r_version r) (lit "1.1") then [] else [f_keep]) else [f_close])).
  { unfold keep_of. unfold conn_table in Etab. destruct (beqb (r_version r) (lit "1.1")).
    - destruct (beqb (request_connection r) (lit "close") || r_connection_close r);
        injection Etab as <- _; reflexivity.
    - rewrite andb_true_r in Etab.
      destruct (beqb (request_connection r) (lit "keep-alive") && negb (r_connection_close r));
        injection Etab as <- _; reflexivity. }
  split; [subst tp; apply bh_prepare_clean; auto|].
  split.
  { unfold nocolon_rh. rewrite Prh, Erh1, map_app. cbn [map]. apply Forall_app. split.
    - apply Forall_app. split; [apply plain_no_colon; auto|]. constructor; [|apply plain_no_colon; auto].
      unfold norm_field. cbn [fst]. rewrite Hnorm. reflexivity.
    - apply Forall_app. split; [|apply tail_no_colon; auto].
      rewrite Hadd. destruct keep_of; [destruct (beqb (r_version r) _)|]; repeat constructor. }
  split; [exact Pst|]. split; [rewrite S9; exact Pv|]. split; [congruence|]. split; [exact Pchk|].
  assert (Hadd_te : filter (field_is te_name) (map client_field add) = []).
  { rewrite Hadd. destruct keep_of; [destruct (beqb (r_version r) _)|]; reflexivity. }
  assert (Hadd_cl : filter (field_is cl_name) (map client_field add) = []).
  { rewrite Hadd. destruct keep_of; [destruct (beqb (r_version r) _)|]; reflexivity. }
  split.
  { unfold te_fields. rewrite Prh, Erh1, !map_app. cbn [map]. rewrite !filter_app. cbn [filter].
    rewrite (plain_not_named _ _ te_name (or_introl eq_refl) Ppre), (plain_not_named _ _ te_name (or_introl eq_refl) Ppost).
    rewrite Hadd_te, (tail_not_named tail te_name eq_refl eq_refl eq_refl Ptail).
    unfold field_is, client_field, norm_field. cbn [fst]. rewrite Hnorm. reflexivity. }
  split.
  { unfold cl_fields. rewrite Prh, Erh1, !map_app. cbn [map]. rewrite !filter_app. cbn [filter].
    rewrite (plain_not_named _ _ cl_name (or_intror eq_refl) Ppre), (plain_not_named _ _ cl_name (or_intror eq_refl) Ppost).
    rewrite Hadd_cl, (tail_not_named tail cl_name eq_refl eq_refl eq_refl Ptail).
    unfold field_is, client_field, norm_field. cbn [fst snd]. rewrite Hnorm. cbn [List.app].
    rewrite (strip_digits v Hdig). reflexivity. }
  split.
  { intros h Hh. rewrite Prh. apply in_or_app. left. apply in_map. exact Hh. }
  split.
  - intro Hk. rewrite Prh. apply in_or_app. right. apply in_or_app. left. rewrite Hadd, Hk. left. reflexivity.
  - intros Hk Hin. apply cfields_in in Hin as (h & Hh & Eh). rewrite Prh in Hh.
    assert (Hcc : beqb (cap (fst h)) (lit "Connection") = true).
    { unfold client_field, f_close in Eh. injection Eh as E1 _. rewrite E1. rewrite Hcap_conn. reflexivity. }
    apply in_app_or in Hh as [Hh|Hh].
    + pose proof (noconn_cl cap Hcap_cl l1 (clname, v) l2 (conj Ppre (conj Ppost Hnorm))) as NC.
      rewrite <- Erh1 in NC. unfold NoConn in NC. rewrite Forall_forall in NC. rewrite (NC h Hh) in Hcc. discriminate.
    + apply in_app_or in Hh as [Hh|Hh].
      * rewrite Hadd, Hk in Hh. destruct (beqb (r_version r) _); [destruct Hh|].
        destruct Hh as [<-|[]]. unfold client_field, f_keep, f_close in Eh. discriminate.
      * rewrite Forall_forall in Ptail. destruct (Ptail h Hh) as [E|[E|E]];
          unfold client_field, f_close in Eh; injection Eh as E1 _; rewrite E in E1; discriminate.
Qed.

End Head2.
