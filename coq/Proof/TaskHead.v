(* The response head: what build_response_header emits, line by line (C08). *)
From Coq Require Import String.
From Coq Require Import List NArith ZArith Bool Lia Arith Permutation.
From WV Require Import Lib.PyBytes Gen.GenTables Model.Task Proof.TaskSort Proof.TaskLines.
Import ListNotations.
Local Open Scope N_scope.

Definition clean (s : str) : Prop := has_crlf s = false.
Definition clean_field (h : str * str) : Prop := clean (fst h) /\ clean (snd h).
Definition task_clean (t : task) : Prop := clean (t_status t) /\ Forall clean_field (t_rh t).
Definition cfg_clean (c : cfg) : Prop := clean (c_ident c) /\ clean (c_date c).

Lemma clean_app a b : clean (a ++ b) <-> clean a /\ clean b.
Proof. apply has_crlf_app. Qed.

Lemma clean_firstn n s : clean s -> clean (firstn n s).
Proof. intro H. rewrite <- (firstn_skipn n s) in H. apply clean_app in H. tauto. Qed.
Lemma clean_skipn n s : clean s -> clean (skipn n s).
Proof. intro H. rewrite <- (firstn_skipn n s) in H. apply clean_app in H. tauto. Qed.

Lemma split_fuel_clean fuel s sep : clean s -> Forall clean (split_fuel fuel s sep).
Proof.
  revert s; induction fuel as [|f IH]; intros s H; cbn [split_fuel].
  - constructor; auto.
  - destruct (find s sep); [|constructor; auto].
    constructor. apply clean_firstn; auto. apply IH. apply clean_skipn; auto.
Qed.

Lemma join_clean sep l : clean sep -> Forall clean l -> clean (join sep l).
Proof.
  intros Hs H. induction H as [|x l Hx Hl IH]; [reflexivity|].
  destruct l as [|y l]; [exact Hx|].
  change (join sep (x :: y :: l)) with (x ++ sep ++ join sep (y :: l)).
  apply clean_app; split; auto. apply clean_app; split; auto.
Qed.

Lemma z_to_dec_clean z : clean (z_to_dec z).
Proof.
  assert (Hd : forall fuel n acc, clean acc -> clean (to_dec_fuel fuel n acc)).
  { induction fuel as [|f IH]; intros n acc Ha; cbn [to_dec_fuel]; auto.
    assert (Hc : clean ((48 + n mod 10) :: acc)).
    { apply has_crlf_cons. unfold CR, LF. generalize (n mod 10). intro m. repeat split; try exact Ha; lia. }
    destruct (n <? 10); auto. }
  unfold z_to_dec, to_dec. destruct z as [|p|p].
  - apply Hd. reflexivity.
  - apply Hd. reflexivity.
  - apply has_crlf_cons. unfold CR, LF. repeat split; try lia. apply Hd. reflexivity.
Qed.

Section Oracle.
Variable cap : str -> str.
Variable lower : str -> str.
Hypothesis Hcap : forall s, clean s -> clean (cap s).

Lemma norm_name_clean n : clean n -> clean (norm_name cap n).
Proof.
  intro H. unfold norm_name. apply join_clean. reflexivity.
  apply Forall_forall. intros x Hx. apply in_map_iff in Hx as (y & <- & Hy).
  apply Hcap. unfold split in Hy.
  pose proof (split_fuel_clean (S (length n)) n [45] H) as HF.
  rewrite Forall_forall in HF. auto.
Qed.

(* the application fields as they appear in the head: names normalised in letter
   case only; a Content-Length field is dropped for a status without body *)
Definition norm_field (h : str * str) : str * str := (norm_name cap (fst h), snd h).
Definition kept (hb : bool) (h : str * str) : bool :=
  negb (beqb (norm_name cap (fst h)) (lit "Content-Length") && negb hb).
Definition norm_fields (hb : bool) (l : list (str * str)) : list (str * str) :=
  map norm_field (filter (kept hb) l).

Lemma bh_fold_rh hb l a :
  ac_rh (fold_left (bh_step cap hb) l a) = ac_rh a ++ norm_fields hb l.
Proof.
  revert a; induction l as [|h l IH]; intro a; cbn [fold_left].
  - unfold norm_fields. simpl. rewrite app_nil_r. auto.
  - rewrite IH. unfold norm_fields. cbn [filter]. unfold bh_step, kept.
    destruct (beqb (norm_name cap (fst h)) _ && negb hb); cbn [negb].
    + reflexivity.
    + cbn [ac_rh map]. rewrite <- app_assoc. reflexivity.
Qed.

Lemma norm_fields_clean hb l : Forall clean_field l -> Forall clean_field (norm_fields hb l).
Proof.
  intro H. unfold norm_fields. apply Forall_forall. intros x Hx.
  apply in_map_iff in Hx as (y & <- & Hy). apply filter_In in Hy as [Hy _].
  rewrite Forall_forall in H. destruct (H y Hy). split; auto. apply norm_name_clean; auto.
Qed.

(* the fields the server adds on its own *)
Definition server_field (c : cfg) (h : str * str) : Prop :=
  (fst h = lit "Content-Length" /\ exists z, snd h = z_to_dec z)
  \/ h = (lit "Connection", lit "close")
  \/ h = (lit "Connection", lit "Keep-Alive")
  \/ h = (lit "Transfer-Encoding", lit "chunked")
  \/ h = (lit "Server", c_ident c)
  \/ h = (lit "Via", c_ident c)
  \/ h = (lit "Via", lit "waitress")
  \/ h = (lit "Date", c_date c).

Lemma server_field_clean c h : cfg_clean c -> server_field c h -> clean_field h.
Proof.
  intros [Hi Hd] H. unfold server_field in H.
  destruct H as [[Hn [z Hz]]|[H|[H|[H|[H|[H|[H|H]]]]]]]; subst; split; try reflexivity; auto.
  - rewrite Hn. reflexivity.
  - rewrite Hz. apply z_to_dec_clean.
Qed.

(* t' extends t by server fields only *)
Definition ext (c : cfg) (t t' : task) : Prop :=
  (exists sf, t_rh t' = t_rh t ++ sf /\ Forall (server_field c) sf)
  /\ t_status t' = t_status t /\ t_v11 t' = t_v11 t.

Lemma ext_refl c t : ext c t t.
Proof. split; auto. exists []. rewrite app_nil_r. auto. Qed.

Lemma ext_trans c t1 t2 t3 : ext c t1 t2 -> ext c t2 t3 -> ext c t1 t3.
Proof.
  intros [(s1 & E1 & F1) [A1 B1]] [(s2 & E2 & F2) [A2 B2]]. split; [|split; congruence].
  exists (s1 ++ s2). rewrite E2, E1, app_assoc. split; auto. apply Forall_app; auto.
Qed.

Lemma ext_append c t h : server_field c h -> ext c t (set_rh (t_rh t ++ [h]) t).
Proof. intro H. split; auto. exists [h]. auto. Qed.

Lemma ext_same c t t' : t_rh t' = t_rh t -> t_status t' = t_status t -> t_v11 t' = t_v11 t -> ext c t t'.
Proof. intros H1 H2 H3. split; auto. exists []. rewrite app_nil_r. auto. Qed.
Lemma ext_set_cof c t b : ext c t (set_cof b t).
Proof. apply ext_same; reflexivity. Qed.
Lemma ext_set_chunked c t b : ext c t (set_chunked b t).
Proof. apply ext_same; reflexivity. Qed.

Lemma ext_scof c t : ext c t (set_close_on_finish cap lower t).
Proof.
  unfold set_close_on_finish. eapply ext_trans; [|apply ext_set_cof].
  destruct (negb (t_wrote_header t)); [|apply ext_refl].
  destruct (fold_left _ (t_rh t) None); [apply ext_refl|].
  apply ext_append. unfold server_field. tauto.
Qed.

Lemma ext_bh_conn c conn fc clh t : ext c t (bh_conn cap lower conn fc clh t).
Proof.
  unfold bh_conn.
  destruct (negb (t_v11 t)).
  - destruct (beqb conn _ && negb fc && negb (t_cof t)); [|apply ext_scof].
    destruct (negb (truthy clh)); [apply ext_scof|]. apply ext_append. unfold server_field. tauto.
  - set (t1 := if beqb conn _ || fc then _ else t).
    assert (E1 : ext c t t1) by (subst t1; destruct (beqb conn _ || fc); [apply ext_scof|apply ext_refl]).
    destruct (negb (truthy clh)); auto.
    set (t2 := if has_body t1 then _ else t1).
    assert (E2 : ext c t1 t2).
    { subst t2. destruct (has_body t1); [|apply ext_refl].
      eapply ext_trans; [|apply ext_set_chunked]. apply ext_append. unfold server_field. tauto. }
    destruct (negb (t_cof t2)).
    + eapply ext_trans; [exact E1|]. eapply ext_trans; [exact E2|]. apply ext_scof.
    + eapply ext_trans; eauto.
Qed.

Lemma ext_bh_clen c a t : ext c t (snd (bh_clen a t)).
Proof.
  unfold bh_clen. destruct (ac_cl a); [apply ext_refl|].
  destruct (t_clen t); [|apply ext_refl].
  destruct (has_body t); [|apply ext_refl].
  cbn [snd]. apply ext_append. left. split; [reflexivity|]. eexists. reflexivity.
Qed.

Lemma ext_bh_server c a t : ext c t (bh_server c a t).
Proof.
  unfold bh_server. destruct (negb (truthy (ac_server a))).
  - destruct (c_ident c) eqn:E; [apply ext_refl|]. apply ext_append. rewrite <- E. unfold server_field. tauto.
  - destruct (c_ident c) eqn:E; apply ext_append; unfold server_field; rewrite ?E; tauto.
Qed.

Lemma ext_bh_date c a t : ext c t (bh_date c a t).
Proof.
  unfold bh_date. destruct (negb (truthy (ac_date a))); [|apply ext_refl].
  apply ext_append. unfold server_field. tauto.
Qed.

(* the fields of the head: normalised application fields, then server fields *)
Theorem bh_prepare_fields c r t :
  exists sf, t_rh (bh_prepare cap lower c r t) = norm_fields (has_body t) (t_rh t) ++ sf
             /\ Forall (server_field c) sf
             /\ t_status (bh_prepare cap lower c r t) = t_status t
             /\ t_v11 (bh_prepare cap lower c r t) = t_v11 t.
Proof.
  unfold bh_prepare.
  set (a := bh_loop cap t).
  set (t0 := set_rh (ac_rh a) t).
  assert (E0 : t_rh t0 = norm_fields (has_body t) (t_rh t)).
  { subst t0 a. unfold bh_loop. cbn [t_rh set_rh]. rewrite bh_fold_rh. reflexivity. }
  pose proof (ext_bh_clen c a t0) as E1.
  destruct (bh_clen a t0) as [clh t1]. cbn [snd] in E1.
  pose proof (ext_bh_conn c (request_connection r) (r_connection_close r) clh t1) as E2.
  set (t2 := bh_conn cap lower (request_connection r) (r_connection_close r) clh t1) in *.
  pose proof (ext_bh_server c a t2) as E3.
  pose proof (ext_bh_date c a (bh_server c a t2)) as E4.
  pose proof (ext_trans _ _ _ _ (ext_trans _ _ _ _ (ext_trans _ _ _ _ E1 E2) E3) E4) as [(sf & Es & Fs) [As Bs]].
  exists sf. rewrite Es, E0. repeat split; auto.
Qed.

Definition head_lines (t : task) : list str := first_line t :: map header_line (sort_hdrs (t_rh t)).

Lemma header_line_clean h : clean_field h -> clean (header_line h).
Proof.
  intros [H1 H2]. unfold header_line. apply clean_app; split; [exact H1|].
  apply clean_app; split; [reflexivity|exact H2].
Qed.

Lemma first_line_clean t : clean (t_status t) -> clean (first_line t).
Proof.
  intro H. unfold first_line, version_str. destruct (t_v11 t);
    (apply clean_app; split; [reflexivity|]; apply clean_app; split; [reflexivity|];
     apply clean_app; split; [reflexivity|auto]).
Qed.

Lemma head_lines_clean t : task_clean t -> Forall clean (head_lines t).
Proof.
  intros [Hs Hf]. unfold head_lines. constructor. apply first_line_clean; auto.
  apply Forall_forall. intros x Hx. apply in_map_iff in Hx as (h & <- & Hh).
  apply header_line_clean. rewrite Forall_forall in Hf. apply Hf.
  eapply Permutation_in. apply sort_perm. exact Hh.
Qed.

Lemma bh_prepare_clean c r t : cfg_clean c -> task_clean t -> task_clean (bh_prepare cap lower c r t).
Proof.
  intros Hc [Hs Hf]. destruct (bh_prepare_fields c r t) as (sf & E & F & S1 & _).
  split. rewrite S1; auto. rewrite E. apply Forall_app. split.
  apply norm_fields_clean; auto.
  eapply Forall_impl; [|exact F]. intros h. apply server_field_clean; auto.
Qed.

Lemma encode_latin1_ok s b : encode_latin1 s = Ok b -> b = s.
Proof. unfold encode_latin1. destruct (forallb _ s); intro H; inversion H; auto. Qed.

(* C08, accepted case: the emitted head, split on CRLF, is exactly the status
   line, the stable-sorted normalised application fields and server fields,
   and two empty strings; no line contains CR or LF. *)
Theorem head_lines_exact c r t t' b :
  cfg_clean c -> task_clean t ->
  build_response_header cap lower c r t = (t', Ok b) ->
  exists sf,
    Forall (server_field c) sf /\
    let fields := norm_fields (has_body t) (t_rh t) ++ sf in
    split b CRLF =
      (lit "HTTP/" ++ version_str t ++ [32] ++ t_status t)
        :: map header_line (sort_hdrs fields) ++ [[]; []]
    /\ Forall clean (firstn (S (length fields)) (split b CRLF))
    /\ Permutation (sort_hdrs fields) fields
    /\ (forall n, filter (same_name n) (sort_hdrs fields) = filter (same_name n) fields).
Proof.
  intros Hc Ht H. unfold build_response_header in H. inversion H as [[Ht' Hb]]. clear H.
  apply encode_latin1_ok in Hb. subst b.
  destruct (bh_prepare_fields c r t) as (sf & E & F & S1 & V1).
  pose proof (bh_prepare_clean c r t Hc Ht) as Hcl.
  set (tp := bh_prepare cap lower c r t) in *.
  exists sf. split; auto. cbn zeta.
  assert (Hsplit : split (head_text tp) CRLF = head_lines tp ++ [[]; []]).
  { unfold head_text. apply split_head. apply head_lines_clean; auto. }
  rewrite Hsplit. unfold head_lines at 1. rewrite E. unfold first_line, version_str. rewrite S1, V1.
  split; [reflexivity|]. split.
  - replace (S (length (norm_fields (has_body t) (t_rh t) ++ sf))) with (length (head_lines tp)).
    + rewrite firstn_app, Nat.sub_diag, firstn_all. cbn [firstn]. rewrite app_nil_r.
      apply head_lines_clean; auto.
    + unfold head_lines. cbn [length]. rewrite map_length, E.
      f_equal. apply Permutation_length. apply sort_perm.
  - split. apply sort_perm. intro n. apply sort_stable.
Qed.

End Oracle.
