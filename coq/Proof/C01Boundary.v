(* T4a -- where the head ends.  The reference reads lines one at a time and
   stops at the first empty line that follows at least one line; the model
   (Parser.received) searches the first CRLF CRLF (find_double_newline).  Both
   put the end of the head at the same offset and leave the same rest: this is
   the "byte after one message starts the next" half for heads. *)
From Coq Require Import List NArith ZArith Bool Lia Arith.
From WV Require Import Lib.PyBytes Model.Receiver Spec.Ref9112 Proof.C01Lib Proof.C01Body.
Import ListNotations.
Local Open Scope N_scope.

(* the control skeleton of read_head: [e] = "a CRLF here ends the head" *)
Fixpoint scan (fuel : nat) (e : bool) (s : bytes) (n : N) : option (bytes * N) :=
  match fuel with
  | O => None
  | S f =>
    match s with
    | x :: y :: r' =>
      if (x =? 13) && (y =? 10) then (if e then Some (r', n + 2) else scan f true r' (n + 2))
      else scan f false (y :: r') (n + 1)
    | _ => None
    end
  end.

Definition ends_head (cur : bytes) (acc : list bytes) : bool :=
  match cur, acc with [], _ :: _ => true | _, _ => false end.

Lemma read_head_scan : forall fuel s cur acc n, (length s < fuel)%nat ->
  match read_head s cur acc n with
  | Some (_, rest, k) => scan fuel (ends_head cur acc) s n = Some (rest, k)
  | None => scan fuel (ends_head cur acc) s n = None
  end.
Proof.
  induction fuel as [|f IH]; intros s cur acc n Hl; [lia|].
  destruct s as [|x [|y r']]; cbn [read_head scan]; auto.
  destruct ((x =? 13) && (y =? 10)).
  - destruct cur as [|c cur'].
    + destruct acc as [|a acc']; cbn [ends_head].
      * apply (IH r' [] [rev []] (n + 2)). cbn [length] in Hl. lia.
      * reflexivity.
    + cbn [ends_head]. apply (IH r' [] (rev (c :: cur') :: acc) (n + 2)). cbn [length] in Hl. lia.
  - apply (IH (y :: r') (x :: cur) acc (n + 1)). cbn [length] in *. lia.
Qed.

Lemma scan_true fuel s n : (length s < fuel)%nat ->
  scan (S fuel) true s n =
  if startswith s CRLF then Some (skipn 2 s, n + 2) else scan (S fuel) false s n.
Proof.
  intro Hl. rewrite startswith_crlf. destruct s as [|x [|y r']]; cbn [scan]; auto.
  destruct ((x =? 13) && (y =? 10)); reflexivity.
Qed.

Lemma scan_fuel : forall f1 f2 e s n, (length s < f1)%nat -> (length s < f2)%nat ->
  scan f1 e s n = scan f2 e s n.
Proof.
  induction f1 as [|f1 IH]; intros f2 e s n H1 H2; [lia|]. destruct f2 as [|f2]; [lia|].
  destruct s as [|x [|y r']]; cbn [scan]; auto. cbn [length] in *.
  destruct ((x =? 13) && (y =? 10)).
  - destruct e; auto. apply IH; lia.
  - apply IH; cbn [length]; lia.
Qed.

Lemma adc_cons x r n : after_double_crlf (x :: r) n =
  if (x =? 13) && lf_cr_lf r then Some (n + 4) else after_double_crlf r (n + 1).
Proof. reflexivity. Qed.

Lemma scan_adc : forall k s n fuel, (length s <= k)%nat -> (length s < fuel)%nat ->
  scan fuel false s n =
  match after_double_crlf s n with
  | Some p => Some (skipn (N.to_nat (p - n)) s, p)
  | None => None
  end.
Proof.
  induction k as [|k IH]; intros s n fuel Hk Hf.
  { destruct s; [|cbn in Hk; lia]. destruct fuel; reflexivity. }
  destruct fuel as [|f]; [lia|].
  destruct s as [|x [|y r']].
  - reflexivity.
  - cbn [scan after_double_crlf lf_cr_lf]. rewrite andb_false_r. reflexivity.
  - cbn [scan]. rewrite adc_cons. cbn [length] in *.
    destruct ((x =? 13) && (y =? 10)) eqn:E.
    + apply andb_true_iff in E as [E1 E2]. rewrite E1, lf_cr_lf_cons, E2. cbn [andb].
      destruct f as [|f']; [lia|]. rewrite scan_true by lia.
      destruct (startswith r' CRLF).
      * f_equal. f_equal; [|lia]. replace (N.to_nat (n + 4 - n)) with 4%nat by lia. reflexivity.
      * rewrite (IH r' (n + 2) (S f')) by lia.
        apply N.eqb_eq in E2. subst y. rewrite adc_cons. cbn [N.eqb Pos.eqb andb].
        replace (n + 1 + 1) with (n + 2) by lia.
        pose proof (adc_fdn r' (n + 2)) as A.
        destruct (after_double_crlf r' (n + 2)) as [p|]; [|reflexivity].
        destruct (find_double_newline r'); cbn [option_map] in A; [|discriminate]. injection A as ->.
        f_equal. f_equal.
        replace (N.to_nat (n + 2 + N.of_nat n0 - n)) with (2 + N.to_nat (n + 2 + N.of_nat n0 - (n + 2)))%nat by lia.
        reflexivity.
    + assert (E' : (x =? 13) && lf_cr_lf (y :: r') = false).
      { rewrite lf_cr_lf_cons. destruct (x =? 13), (y =? 10); cbn in *; auto; discriminate. }
      rewrite E'. rewrite (IH (y :: r') (n + 1) f) by (cbn [length]; lia).
      pose proof (adc_fdn (y :: r') (n + 1)) as A.
      destruct (after_double_crlf (y :: r') (n + 1)) as [p|]; [|reflexivity].
      destruct (find_double_newline (y :: r')); cbn [option_map] in A; [|discriminate]. injection A as ->.
      f_equal. f_equal.
      replace (N.to_nat (n + 1 + N.of_nat n0 - n)) with (S (N.to_nat (n + 1 + N.of_nat n0 - (n + 1)))) by lia.
      reflexivity.
Qed.

(* the head of the reference ends where find_double_newline says *)
Theorem head_boundary : forall s,
  match read_head s [] [] 0, find_double_newline s with
  | Some (_, rest, n), Some i => n = N.of_nat i /\ rest = skipn i s
  | None, None => True
  | _, _ => False
  end.
Proof.
  intro s. pose proof (read_head_scan (S (length s)) s [] [] 0 ltac:(lia)) as R.
  cbn [ends_head] in R.
  pose proof (scan_adc (length s) s 0 (S (length s)) ltac:(lia) ltac:(lia)) as A.
  pose proof (adc_fdn s 0) as F.
  destruct (read_head s [] [] 0) as [[[ls rest] n]|]; rewrite R in A.
  - destruct (after_double_crlf s 0) as [p|]; [|discriminate]. injection A as -> ->.
    destruct (find_double_newline s) as [i|]; cbn [option_map] in F; [|discriminate].
    injection F as ->. split; [lia|]. f_equal. lia.
  - destruct (after_double_crlf s 0); [discriminate|].
    destruct (find_double_newline s); cbn [option_map] in F; [discriminate|exact I].
Qed.

Example head_boundary_example :
  read_head [13;10; 71;69;84;32;47;13;10; 72;58;49;13;10; 13;10; 88;89] [] [] 0
  = Some ([[]; [71;69;84;32;47]; [72;58;49]], [88;89], 16).
Proof. reflexivity. Qed.
