(* str(n) for a non-negative int: decimal digits, read back to n (used for the
   Content-Length the server itself adds: error responses, file wrappers). *)
From Coq Require Import List NArith ZArith Bool Lia ZifyBool.
From WV Require Import Lib.PyBytes Model.Task Spec.ClientParse.
Import ListNotations.
Local Open Scope N_scope.

Lemma dec_rt_fuel : forall fuel n acc,
  n < 2 ^ N.of_nat fuel -> dec_value_acc (to_dec_fuel fuel n acc) 0 = dec_value_acc acc n.
Proof.
  induction fuel as [|f IH]; intros n acc H.
  - cbn in H. assert (n = 0) by lia. subst. reflexivity.
  - cbn [to_dec_fuel]. destruct (n <? 10) eqn:E.
    + apply N.ltb_lt in E. cbn [dec_value_acc]. rewrite N.mod_small by exact E.
      f_equal. lia.
    + apply N.ltb_ge in E. rewrite IH.
      * cbn [dec_value_acc]. f_equal. pose proof (N.div_mod n 10 ltac:(lia)) as DM.
        set (q := n / 10) in *. set (m := n mod 10) in *. clearbody q m. lia.
      * rewrite Nat2N.inj_succ, N.pow_succ_r' in H.
        pose proof (N.mul_div_le n 10). assert (10 * (n / 10) <= n) by lia.
        assert (n / 10 < 2 ^ N.of_nat f \/ 2 ^ N.of_nat f <= n / 10) as [L|G] by lia; [exact L|lia].
Qed.

Lemma dec_rt n : dec_value (to_dec n) = n.
Proof.
  unfold dec_value, to_dec. rewrite dec_rt_fuel; [reflexivity|].
  rewrite Nat2N.inj_succ, N2Nat.id. pose proof (N.size_gt n).
  rewrite N.pow_succ_r'. lia.
Qed.

Lemma to_dec_fuel_digits fuel : forall n acc, forallb is_digit acc = true ->
  forallb is_digit (to_dec_fuel fuel n acc) = true.
Proof.
  induction fuel as [|f IH]; intros n acc Ha; cbn [to_dec_fuel]; auto.
  assert (Hd : n mod 10 < 10) by (apply N.mod_lt; lia).
  assert (Hc : forallb is_digit ((48 + n mod 10) :: acc) = true).
  { cbn [forallb]. rewrite Ha, andb_true_r. unfold is_digit. generalize dependent (n mod 10). intros m Hm.
    destruct (48 <=? 48 + m) eqn:E1; destruct (48 + m <=? 57) eqn:E2; lia. }
  destruct (n <? 10); auto.
Qed.

Lemma to_dec_fuel_nonempty fuel n acc : to_dec_fuel (S fuel) n acc <> [].
Proof.
  revert n acc. induction fuel as [|f IH]; intros n acc; cbn [to_dec_fuel].
  - destruct (n <? 10); discriminate.
  - destruct (n <? 10); [discriminate|]. apply IH.
Qed.

Lemma to_dec_nonempty n : to_dec n <> [].
Proof. unfold to_dec. apply to_dec_fuel_nonempty. Qed.

Lemma to_dec_digits n : all_digits (to_dec n) = true.
Proof.
  unfold all_digits. pose proof (to_dec_nonempty n) as Hne.
  destruct (to_dec n) eqn:E; [congruence|]. rewrite <- E. unfold to_dec. apply to_dec_fuel_digits. reflexivity.
Qed.

(* str(z) for z >= 0 *)
Lemma z_to_dec_nonneg z : (0 <= z)%Z -> z_to_dec z = to_dec (Z.to_N z).
Proof. intro H. unfold z_to_dec. destruct z; auto. lia. Qed.

Lemma z_to_dec_truthy z : (0 <= z)%Z -> truthy (Some (z_to_dec z)) = true.
Proof.
  intro H. rewrite z_to_dec_nonneg by auto. pose proof (to_dec_nonempty (Z.to_N z)).
  cbn [truthy]. destruct (to_dec (Z.to_N z)); congruence.
Qed.
