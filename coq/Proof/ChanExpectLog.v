(* Proof/ChanExpectLog.v -- second invariant of Model/ChanExpect.v: the output log
   is ordered by (request id, interim before final). *)
From Coq Require Import List Arith Bool Lia.
From RecordUpdate Require Import RecordUpdate.
From WV Require Import Model.ChanExpect Proof.ChanExpectBase.
Import ListNotations.

Definition ub (s : state) : nat :=
  match requests s with
  | r :: _ => 2 * rid r + 2
  | [] => match request s with Some q => 2 * rid q + 1 | None => 2 * next_id s end
  end.

Record InvB (s : state) : Prop := {
  B_ord : ordered (outlog s);
  B_ub : Forall (fun t => key t < ub s) (outlog s)
}.

Lemma InvB_init : InvB init.
Proof. constructor; simpl; auto. Qed.

Lemma InvB_mono : forall s s', InvB s -> outlog s' = outlog s -> ub s <= ub s' -> InvB s'.
Proof.
  intros s s' [B1 B2] E Hle. constructor; rewrite E; auto.
  eapply Forall_impl; [|exact B2]. simpl. intros; lia.
Qed.

Lemma InvB_append : forall s s' t, InvB s -> outlog s' = outlog s ++ [t] ->
  ub s <= key t + 1 -> key t < ub s' -> InvB s'.
Proof.
  intros s s' t [B1 B2] E H1 H2. constructor; rewrite E.
  - apply ordered_snoc; auto. eapply Forall_impl; [|exact B2]. simpl. intros; lia.
  - apply Forall_app. split.
    + eapply Forall_impl; [|exact B2]. simpl. intros; lia.
    + constructor; [assumption|constructor].
Qed.

Lemma ub_same : forall s s', requests s' = requests s -> next_id s' = next_id s ->
  (request s' = request s \/ exists q q', request s = Some q /\ request s' = Some q' /\ rid q' = rid q) ->
  ub s' = ub s.
Proof.
  intros s s' E1 E2 E3. unfold ub. rewrite E1, E2.
  destruct E3 as [->|(q & q' & -> & -> & ->)]; reflexivity.
Qed.

(* dropping the head of the queue (or all of it) only raises the bound *)
Lemma ub_pop : forall s s', InvA s -> next_id s' = next_id s ->
  (request s' = request s \/ exists q q', request s = Some q /\ request s' = Some q' /\ rid q' = rid q) ->
  (requests s' = tl (requests s) \/ requests s' = []) -> ub s <= ub s'.
Proof.
  intros s s' HA E2 E3 E1. pose proof (A_ids s HA) as I. unfold ub. rewrite E2.
  destruct (requests s) as [|r rest] eqn:Er.
  - assert (requests s' = []) by (destruct E1 as [->| ->]; reflexivity). rewrite H.
    destruct E3 as [->|(q & q' & -> & -> & ->)]; lia.
  - assert (Hr : forall hi, asc (r :: rest) hi -> rid r < hi /\ Forall (fun x => rid r < rid x) rest).
    { intros hi Ha. apply asc_tail in Ha. tauto. }
    assert (Hlt : rid r < match request s' with Some q => rid q | None => next_id s end).
    { destruct E3 as [->|(q & q' & E & -> & ->)].
      - destruct (request s); [destruct I as [I1 I2]; apply Hr in I1; tauto|apply Hr in I; tauto].
      - rewrite E in I. destruct I as [I1 I2]. apply Hr in I1. tauto. }
    assert (Hrest : Forall (fun x => rid r < rid x) rest).
    { destruct (request s); [destruct I as [I1 I2]; apply Hr in I1; tauto|apply Hr in I; tauto]. }
    destruct E1 as [->| ->]; simpl.
    + destruct rest as [|r2 ?]; [destruct (request s'); lia|]. inversion Hrest; subst. lia.
    + destruct (request s'); lia.
Qed.

Lemma InvB_step : forall s c s' l, InvA s -> InvB s -> step s c = Some (s', l) -> InvB s'.
Proof.
  intros s c s' l HA HB H. destruct c.
  - (* CIOEnter *)
    simpl in H. destruct (io s); try discriminate. destruct (rlock s); try discriminate.
    destruct (will_close s || close_when_flushed s); inv_some; auto.
    eapply InvB_mono; eauto; try (rewrite (ub_same s); auto).
  - (* CIOParse *)
    destruct (step_parse_inv _ _ _ _ _ H) as (Eio & q0 & fresh & q1 & Hq0 & Ha & Hcase). clear H.
    pose proof (astep_rid _ _ _ Ha) as Hrid.
    pose proof (after_parse_fields s q1 fresh) as F. cbv zeta in F, Hcase.
    set (s1 := after_parse s q1 fresh) in *.
    destruct F as (F1 & F2 & F3 & F4 & F5 & F6 & F7 & F8 & F9 & F10 & F11 & F13 & F14).
    pose proof (A_ids s HA) as I.
    assert (Hq1 : rid q1 < next_id s1 /\ asc (requests s) (rid q1)).
    { rewrite F13. destruct (request s) as [q|]; destruct Hq0 as [E1 E2]; rewrite E2, Hrid, E1.
      - tauto.
      - simpl. split; [lia|assumption]. }
    assert (U1 : ub s <= ub s1).
    { unfold ub. rewrite F1, F2, ?F13. destruct (requests s); [|lia].
      destruct (request s) as [q|]; destruct Hq0 as [E1 E2]; rewrite Hrid, E1; simpl; lia. }
    assert (B1 : InvB s1) by (eapply InvB_mono; eauto).
    destruct Hcase as [[Hw ->]|[Hw [l' Hc]]].
    + eapply InvB_mono; [exact B1|reflexivity|]. unfold ub. simpl. rewrite F1. simpl. lia.
    + pose proof (io_complete_spec _ _ _ _ Hc) as S.
      destruct S as (S1 & S2 & S3 & S4 & S5 & S6 & S8 & S9 & S10 & S11).
      eapply InvB_mono; [exact B1|assumption|].
      destruct S11 as [(q & Sq & Sc & Se & Sr & Ssc & Srs & Sqd)|[(q & Sq & Sc & Se & Sr & Ssc & Srs & Sqd)|(Sc & Sr & Ssc & Srs & Sqd)]].
      * rewrite F1 in Sq. inv_some. unfold ub. rewrite Srs, F1, F2.
        destruct (requests s); simpl; lia.
      * rewrite F1 in Sq. inv_some. unfold ub. rewrite Srs, Sr, F1, F2, S6.
        destruct (requests s); simpl; lia.
      * unfold ub. rewrite Srs, Sr, S6. lia.
  - (* CIOSend *)
    simpl in H. destruct (io s) as [| |more] eqn:Eio; try discriminate.
    destruct (do_send s false) as [s1 l1] eqn:Ed.
    destruct (io_complete s1 more) as [s2 l2] eqn:Ec. inv_some.
    destruct (A_iosend s HA more Eio) as [Ers [q Eq]].
    pose proof (do_send_spec _ _ _ _ Ed q Eq) as D.
    destruct D as (D1 & D2 & D3 & D4 & D5 & D6 & D7 & D8 & D9 & D10 & D11 & D12 & D13 & D14).
    pose proof (io_complete_spec _ _ _ _ Ec) as S.
    destruct S as (S1 & S2 & S3 & S4 & S5 & S6 & S8 & S9 & S10 & S11).
    assert (B1 : InvB s1).
    { eapply InvB_append; [exact HB|exact D11| |]; unfold ub; rewrite ?D1, ?D13, Ers, ?Eq; simpl; lia. }
    eapply InvB_mono; [exact B1|assumption|].
    destruct S11 as [(q' & Sq & Sc & Se & Sr & Ssc & Srs & Sqd)|[(q' & Sq & Sc & Se & Sr & Ssc & Srs & Sqd)|(Sc & Sr & Ssc & Srs & Sqd)]].
    + rewrite D13 in Sq. inv_some. unfold ub. rewrite Srs, D1, D13, Ers. simpl. lia.
    + rewrite D13 in Sq. inv_some. unfold ub. rewrite Srs, Sr, D1, D13, Ers, S6, D9.
      pose proof (A_ids s HA) as I. rewrite Eq in I. simpl. lia.
    + unfold ub. rewrite Srs, Sr, S6. lia.
  - (* CTake *)
    simpl in H. destruct (queued s); try discriminate. inv_some.
    eapply InvB_mono; eauto; try (rewrite (ub_same s); auto).
  - (* CWBegin *)
    simpl in H. destruct (nth_error (active s) i) as [w|]; try discriminate.
    destruct w; try discriminate. destruct (requests s) eqn:Er; inv_some;
      (eapply InvB_mono; [exact HB|reflexivity|apply le_n]).
  - (* CWWrite *)
    simpl in H. destruct (nth_error (active s) i) as [w|] eqn:En; try discriminate.
    destruct w; try discriminate. inv_some.
    destruct (worker_at _ _ _ HA En) as (Hact & -> & Hq).
    pose proof (A_wk s HA (WTask id)) as W. rewrite Hact in W. specialize (W (or_introl eq_refl)).
    simpl in W. destruct W as (r & rest & E & Hid).
    eapply InvB_append; [exact HB|reflexivity| |]; unfold ub; simpl; rewrite E, Hid; simpl; lia.
  - (* CWEnd *)
    simpl in H. destruct (nth_error (active s) i) as [w|]; try discriminate.
    destruct w; try discriminate. inv_some.
    eapply InvB_mono; eauto; try (rewrite (ub_same s); auto).
  - (* CWClose *)
    simpl in H. destruct (nth_error (active s) i) as [w|]; try discriminate.
    destruct w; try discriminate. destruct (rlock s); try discriminate. inv_some.
    eapply InvB_mono; [exact HB|reflexivity|]. apply ub_pop; auto.
  - (* CWKeep *)
    simpl in H. destruct (nth_error (active s) i) as [w|]; try discriminate.
    destruct w; try discriminate. destruct (rlock s); try discriminate.
    destruct (requests s) as [|r rest] eqn:Er.
    { inv_some. eapply InvB_mono; eauto; try (rewrite (ub_same s); auto). }
    cbn [connected requests request sent_continue set eta_state] in H.
    destruct (connected s && negb (is_nil rest)) eqn:Ec.
    + inv_some. eapply InvB_mono; [exact HB|reflexivity|]. apply ub_pop; simpl; auto. rewrite Er. auto.
    + destruct (connected s && wants_continue (s <| requests := rest |>)) eqn:Ew.
      * destruct (request s) as [q|] eqn:Eq; try discriminate. inv_some.
        eapply InvB_mono; [exact HB|reflexivity|]. apply ub_pop; simpl; auto.
        -- right. exists q. eexists. split; [assumption|]. split; reflexivity.
        -- rewrite Er. auto.
      * inv_some. eapply InvB_mono; [exact HB|reflexivity|]. apply ub_pop; simpl; auto. rewrite Er. auto.
  - (* CWSend *)
    simpl in H. destruct (nth_error (active s) i) as [w|] eqn:En; try discriminate.
    destruct w; try discriminate.
    destruct (do_send s true) as [s1 l1] eqn:Ed. inv_some.
    destruct (worker_at _ _ _ HA En) as (Hact & -> & Hq).
    pose proof (A_wk s HA WSend) as W. rewrite Hact in W. specialize (W (or_introl eq_refl)).
    simpl in W. destruct W as (Ers & Erl & Eio & q & Eq).
    pose proof (do_send_spec _ _ _ _ Ed q Eq) as D.
    destruct D as (D1 & D2 & D3 & D4 & D5 & D6 & D7 & D8 & D9 & D10 & D11 & D12 & D13 & D14).
    eapply InvB_append; [exact HB|simpl; exact D11| |]; unfold ub; simpl; rewrite ?D1, ?D13, Ers, ?Eq; simpl; lia.
  - simpl in H. destruct (io s); try discriminate. inv_some.
    eapply InvB_mono; eauto; try (rewrite (ub_same s); auto).
  - simpl in H. inv_some. eapply InvB_mono; eauto; try (rewrite (ub_same s); auto).
Qed.
