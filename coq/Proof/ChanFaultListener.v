(* Proof/ChanFaultListener.v -- C13_listener.

   The listening socket and its trigger leave the socket map only through
   BaseWSGIServer.close(), which in the loop is reached only from
   handle_error()/handle_close() OF THE LISTENER, i.e. when an exception escapes
   the listener's handle_read_event into wasyncore.read's (or readwrite's)
   catch-all.  Everything handle_accept does is covered by its own
   `except OSError` -- except the construction of the channel.  So: in every
   execution in which getsockopt(SO_SNDBUF) and setblocking do not fail
   ([no_setup_fault]), whatever else the environment answers and however the
   threads interleave, the listener and the trigger stay in the map
   ([listener_partial]).  With such a fault they are gone ([listener_refuted],
   finding F17). *)
From Coq Require Import List Arith Bool Lia.
From WV Require Import Lib.Conc Model.ChanFault Proof.ChanFaultSpec Proof.ChanFaultBase Proof.ChanFaultStep.
Import ListNotations.

Definition srv (s : state) := (lst_in_map s, trg_in_map s, lst_open s, trg_open s).

Definition is_lst_fd (f : fdt) : bool := match f with FC _ => false | _ => true end.
Definition is_lst (d : option fdt) : bool := match d with Some f => is_lst_fd f | None => false end.
Definition is_ca (i : instr) : bool := match i with KWasyn _ | KReadwrite _ => true | _ => false end.
Definition ca_fd (i : instr) : option fdt := match i with KWasyn f | KReadwrite f => Some f | _ => None end.
Definition dl (i : instr) : bool :=
  match i with IPoll | ISelect _ _ _ | ISelWait _ _ _ | IDisp _ _ | IDisp2 _ _ _ _ _ => true | _ => false end.

(* instructions that must never be on the I/O thread's stack while the listener is to stay *)
Definition bad (i : instr) : bool :=
  match i with
  | ITrigClose | ILstClose => true
  | IRwClose f => is_lst_fd f
  | IDisp2 f _ _ pri hup => (pri || hup) && is_lst_fd f
  | _ => false
  end.

(* the instructions of the listener's own handler (handle_accept and the channel constructor) *)
Definition acc (i : instr) : bool :=
  match i with
  | IAccept | ISetOpts _ | KAccTry _ | IInitGso _ | IInitSbl _ | IAddChan _ => true
  | _ => false
  end.
Definition next_is_acctry (r : list instr) : bool :=
  match drop_to_frame r with KAccTry _ :: _ => true | _ => false end.
Definition acc_ok (g : cfg) (i : instr) (r : list instr) : bool :=
  match i with
  | ISetOpts _ => next_is_acctry r
  | IInitGso _ | IInitSbl _ => if init_guarded g then next_is_acctry r else true
  | _ => acc i
  end.
(* instructions whose OSError is caught by handle_accept's own try *)
Definition in_try (g : cfg) (i : instr) : bool :=
  match i with ISetOpts _ => true | IInitGso _ | IInitSbl _ => init_guarded g | _ => false end.

(* the first catch-all frame of a stack, [d] if there is none *)
Fixpoint fca (d : option fdt) (l : list instr) : option fdt :=
  match l with
  | [] => d
  | i :: r => match ca_fd i with Some f => Some f | None => fca d r end
  end.

(* under a listener catch-all there are only instructions of the listener's handler *)
Fixpoint uok (g : cfg) (d : option fdt) (l : list instr) : bool :=
  match l with
  | [] => true
  | i :: r => (if is_lst (fca d r) then acc_ok g i r else true) && uok g d r
  end.

(* below a dispatch-level instruction or a catch-all frame there are only dispatch-level instructions *)
Fixpoint dlb (l : list instr) : bool :=
  match l with
  | [] => true
  | i :: r => (if dl i || is_ca i then forallb dl r else true) && dlb r
  end.

(* instructions a worker may hold: nothing that leads to the server's close *)
Definition wsafe (i : instr) : bool :=
  match i with
  | ITrigClose | ILstClose | IPoll | ISelect _ _ _ | ISelWait _ _ _ | IDisp _ _ | IDisp2 _ _ _ _ _ => false
  | IRwClose f | KWasyn f | KReadwrite f => negb (is_lst_fd f)
  | _ => true
  end.

Record ioL (g : cfg) (th : thread_st) : Prop := {
  l_bad : forallb (fun i => negb (bad i)) (stk th) = true;
  l_uok : uok g None (stk th) = true;
  l_dlb : dlb (stk th) = true;
  l_raise : forall x, raising th = Some x ->
      is_lst (fca None (stk th)) = true ->
      match drop_to_frame (stk th) with KAccTry _ :: _ => is_oserror x = true | _ => False end
}.

Definition LInv (g : cfg) (s : state) (tr : list label) : Prop :=
  no_setup_fault tr \/ init_guarded g = true ->
  listener_ok s /\ ioL g (getth s IO) /\ forall c, forallb wsafe (stk (getth s (W c))) = true.

(* ---- list lemmas ------------------------------------------------------------ *)
Lemma fca_app : forall d p r, fca d (p ++ r) = fca (fca d r) p.
Proof. induction p as [|i p IH]; simpl; intros; auto. destruct (ca_fd i); auto. Qed.

Lemma fca_dl : forall d l, forallb dl l = true -> fca d l = d.
Proof.
  induction l as [|i l IH]; simpl; intro H; auto. apply andb_true_iff in H. destruct H as [Hi Hl].
  destruct i; simpl in *; try discriminate; auto.
Qed.

Lemma next_is_acctry_app : forall r rest, next_is_acctry r = true -> next_is_acctry (r ++ rest) = true.
Proof.
  unfold next_is_acctry. induction r as [|k r IH]; simpl; intros rest H; [discriminate|].
  destruct (is_frame k) eqn:F; simpl; auto.
Qed.
Lemma acc_ok_app : forall g i r rest, acc_ok g i r = true -> acc_ok g i (r ++ rest) = true.
Proof.
  intros g i r rest H. destruct i; simpl in *; auto; try (apply next_is_acctry_app; auto);
  destruct (init_guarded g); auto; apply next_is_acctry_app; auto.
Qed.

Lemma uok_app : forall g p rest, uok g (fca None rest) p = true -> uok g None rest = true -> uok g None (p ++ rest) = true.
Proof.
  intro g. induction p as [|i p IH]; simpl; intros rest Hp Hr; auto.
  apply andb_true_iff in Hp. destruct Hp as [Hi Hp].
  rewrite fca_app. rewrite IH by auto. rewrite andb_true_r.
  destruct (is_lst (fca (fca None rest) p)); auto. apply acc_ok_app. auto.
Qed.

Lemma uok_tail : forall g d i r, uok g d (i :: r) = true -> uok g d r = true.
Proof. simpl; intros g d i r H. apply andb_true_iff in H. tauto. Qed.

Lemma uok_suffix : forall g d p r, uok g d (p ++ r) = true -> uok g d r = true.
Proof. intros g d. induction p; simpl; intros; auto. apply andb_true_iff in H. destruct H. eauto. Qed.

Lemma uok_dl : forall g d l, is_lst d = false -> forallb dl l = true -> uok g d l = true.
Proof.
  intros g d. induction l as [|i l IH]; simpl; intros Hd H; auto. apply andb_true_iff in H. destruct H as [Hi Hl].
  rewrite (fca_dl d l Hl), Hd, IH by auto. reflexivity.
Qed.

Lemma dlb_app : forall p r, dlb p = true -> dlb r = true ->
  (existsb (fun i => dl i || is_ca i) p = true -> forallb dl r = true) -> dlb (p ++ r) = true.
Proof.
  induction p as [|i p IH]; simpl; intros r Hp Hr Hx; auto.
  apply andb_true_iff in Hp. destruct Hp as [Hi Hp].
  rewrite IH; auto.
  - rewrite andb_true_r. destruct (dl i || is_ca i) eqn:E; auto.
    rewrite forallb_app, Hi. simpl. apply Hx. reflexivity.
  - intro H. apply Hx. rewrite H. apply orb_true_r.
Qed.

Lemma dlb_suffix : forall p r, dlb (p ++ r) = true -> dlb r = true.
Proof. induction p; simpl; intros; auto. apply andb_true_iff in H. destruct H. eauto. Qed.

Lemma dlb_all_dl : forall l, forallb dl l = true -> dlb l = true.
Proof.
  induction l as [|i l IH]; simpl; intro H; auto. apply andb_true_iff in H. destruct H as [Hi Hl].
  rewrite IH, Hl by auto. destruct (dl i || is_ca i); reflexivity.
Qed.

Lemma fca_drop : forall d l, fca d (drop_to_frame l) = fca d l.
Proof.
  induction l as [|i l IH]; simpl; auto. destruct (is_frame i) eqn:F; auto.
  destruct i; simpl in *; try discriminate; auto.
Qed.

Lemma p2_ok_not_bad : forall r w e l, p2_ok r w e l = true -> forallb (fun i => negb (bad i)) (map p2_instr l) = true.
Proof.
  unfold p2_ok. induction l as [|p l IH]; simpl; intro H; auto. apply andb_true_iff in H. destruct H as [Hp Hl].
  rewrite IH by auto. rewrite andb_true_r.
  destruct p as [[f [rd wr]] [pri hup]]. simpl. unfold p2_entry_ok in Hp.
  repeat (apply andb_true_iff in Hp; destruct Hp as [Hp ?]).
  destruct (pri || hup); simpl in *; auto. destruct f; simpl in *; auto; discriminate.
Qed.

Lemma map_dl : forall (f : fdt -> instr) l, (forall x, dl (f x) = true) -> forallb dl (map f l) = true.
Proof. induction l; simpl; intros; auto. rewrite H, IHl; auto. Qed.
Lemma map_p2_dl : forall l, forallb dl (map p2_instr l) = true.
Proof. induction l as [|p l IH]; simpl; auto. destruct p as [[f [rd wr]] [pri hup]]. simpl. auto. Qed.
Lemma map_not_bad : forall k l, forallb (fun i => negb (bad i)) (map (IDisp k) l) = true.
Proof. induction l; simpl; auto. Qed.

(* ---- what one instruction does, as far as the listener is concerned ------------ *)
Definition has_sfault (ls : list label) : bool :=
  existsb (fun l => match l with LSetupFault _ => true | _ => false end) ls.

Lemma exec_lsn : forall g t i a s d,
  bad i = false ->
  (is_lst d = true -> acc i = true) ->
  match exec g t i a s with
  | Blocked => True
  | Norm s' push ls =>
      srv s' = srv s /\ forallb (fun i => negb (bad i)) push = true /\ uok g d push = true /\
      dlb push = true /\ (dl i = false -> existsb (fun i => dl i || is_ca i) push = false)
  | Raise s' x ls =>
      srv s' = srv s /\
      (is_lst d = true -> (has_sfault ls = true /\ init_guarded g = false) \/ (is_oserror x = true /\ in_try g i = true))
  end.
Proof.
  intros g t i a s d Hb Hd.
  destruct i; try discriminate Hb;
  try match goal with f : fdt |- _ => destruct f as [| |cc] end;
  try match goal with k : evk |- _ => destruct k end;
  cbn [exec event chan_event hclose_fd herror hclose server_close]; repeat split_innermost;
  unfold srv;
  repeat match goal with
  | |- context [lst_in_map (setc ?s ?c ?v)] => destruct (srv_setc s c v) as (-> & -> & -> & -> & _)
  | |- context [lst_in_map (setth ?s ?c ?v)] => destruct (srv_setth s c v) as (-> & -> & -> & -> & _)
  end; auto.
  all: try (simpl in Hb; discriminate Hb).
  all: destruct (is_lst d) eqn:Ed; [specialize (Hd eq_refl); try discriminate Hd|clear Hd].
  all: destruct (init_guarded g) eqn:Eg; try discriminate.
  all: simpl; unfold next_is_acctry; simpl; rewrite ?Eg; repeat split; auto.
  all: try (intro; discriminate).
  all: try (rewrite ?Ed; simpl; auto; fail).
  all: try (left; split; reflexivity).
  all: try (right; split; reflexivity).
  all: try (apply uok_dl; [assumption|]).
  all: try (apply dlb_all_dl).
  all: rewrite ?forallb_app, ?map_p2_dl, ?map_not_bad; simpl; auto.
  all: try (erewrite p2_ok_not_bad by eauto; reflexivity).
  all: rewrite ?map_dl by (intros; reflexivity); auto.
Qed.

Lemma frame_lsn : forall t k x s,
  match ca_fd k with Some f => is_lst_fd f = false | None => True end ->
  match frame t k x s with
  | FCatch s' push ls =>
      srv s' = srv s /\ forallb (fun i => negb (bad i)) push = true /\
      (forall g d, is_lst d = false -> uok g d push = true) /\ dlb push = true /\
      existsb (fun i => dl i || is_ca i) push = false /\ has_sfault ls = false
  | FPass s' => srv s' = srv s
  end.
Proof.
  intros t k x s Hk.
  destruct k; simpl in Hk;
  try match goal with f : fdt |- _ => destruct f as [| |cc]; try discriminate Hk end;
  cbn [frame herror hclose_fd hclose]; repeat split_innermost; unfold srv;
  repeat match goal with
  | |- context [lst_in_map (setc ?s ?c ?v)] => destruct (srv_setc s c v) as (-> & -> & -> & -> & _)
  | |- context [lst_in_map (setth ?s ?c ?v)] => destruct (srv_setth s c v) as (-> & -> & -> & -> & _)
  end; auto.
  all: simpl; repeat split; auto.
  all: intros g d Hd; simpl; rewrite ?Hd; auto.
Qed.

(* a worker's instructions: closed under execution, and the server's flags are not touched *)
Lemma exec_wsafe : forall g t i a s,
  wsafe i = true ->
  match exec g t i a s with
  | Blocked => True
  | Norm s' push ls => srv s' = srv s /\ forallb wsafe push = true
  | Raise s' x ls => srv s' = srv s
  end.
Proof.
  intros g t i a s Hw.
  destruct i; try discriminate Hw;
  try match goal with f : fdt |- _ => destruct f as [| |cc]; try discriminate Hw end;
  cbn [exec herror hclose_fd hclose]; repeat split_innermost; unfold srv;
  repeat match goal with
  | |- context [lst_in_map (setc ?s ?c ?v)] => destruct (srv_setc s c v) as (-> & -> & -> & -> & _)
  | |- context [lst_in_map (setth ?s ?c ?v)] => destruct (srv_setth s c v) as (-> & -> & -> & -> & _)
  end; auto.
Qed.

Lemma frame_wsafe : forall t k x s,
  wsafe k = true ->
  match frame t k x s with
  | FCatch s' push ls => srv s' = srv s /\ forallb wsafe push = true
  | FPass s' => srv s' = srv s
  end.
Proof.
  intros t k x s Hw.
  destruct k; try discriminate Hw;
  try match goal with f : fdt |- _ => destruct f as [| |cc]; try discriminate Hw end;
  cbn [frame herror hclose_fd hclose]; repeat split_innermost; unfold srv;
  repeat match goal with
  | |- context [lst_in_map (setc ?s ?c ?v)] => destruct (srv_setc s c v) as (-> & -> & -> & -> & _)
  | |- context [lst_in_map (setth ?s ?c ?v)] => destruct (srv_setth s c v) as (-> & -> & -> & -> & _)
  end; auto.
Qed.

(* ---- the invariant step --------------------------------------------------------- *)
Lemma listener_ok_srv : forall s s', srv s' = srv s -> listener_ok s -> listener_ok s'.
Proof. unfold srv, listener_ok. intros s s' E H. injection E as -> -> -> ->. auto. Qed.

Lemma has_sfault_no : forall l, no_setup_fault l -> has_sfault l = false.
Proof.
  unfold no_setup_fault, has_sfault. induction l as [|x l IH]; simpl; intro H; auto.
  rewrite IH by (intros c Hin; apply (H c); auto).
  destruct x; auto. exfalso. apply (H c). auto.
Qed.

Lemma acc_ok_acc : forall g i r, acc_ok g i r = true -> acc i = true.
Proof. destruct i; simpl; auto. Qed.

Lemma srv_set_dead : forall s, srv (set_dead s) = srv s.
Proof. reflexivity. Qed.
Lemma srv_setth_eq : forall s t v, srv (setth s t v) = srv s.
Proof. intros. unfold srv. destruct (srv_setth s t v) as (-> & -> & -> & -> & _). reflexivity. Qed.
Lemma srv_setc_eq : forall s c v, srv (setc s c v) = srv s.
Proof. intros. unfold srv. destruct (srv_setc s c v) as (-> & -> & -> & -> & _). reflexivity. Qed.

Lemma ioL_empty : forall g lx ls lc, ioL g (mkTh [] None lx ls lc).
Proof. intros. constructor; simpl; auto. intros; discriminate. Qed.

Lemma LInv_step : forall g s tr c s' l, LInv g s tr -> step g s c = Some (s', l) -> LInv g s' (tr ++ l).
Proof.
  intros g s tr [t a] s' l Inv H Hns.
  assert (Hn1 : no_setup_fault tr \/ init_guarded g = true).
  { destruct Hns as [Hns|Hns]; auto. apply no_setup_fault_app in Hns. tauto. }
  assert (Hsf : has_sfault l = false \/ init_guarded g = true).
  { destruct Hns as [Hns|Hns]; auto. apply no_setup_fault_app in Hns. left. apply has_sfault_no. tauto. }
  destruct (Inv Hn1) as (Hl & Hio & Hw). clear Inv.
  assert (Hother : forall u, t <> u -> getth s' u = getth s u) by (intros; eapply step_other_thread; eauto).
  destruct t as [|c].
  - (* the I/O thread moves *)
    assert (HW : forall c, forallb wsafe (stk (getth s' (W c))) = true).
    { intro c. rewrite Hother by discriminate. apply Hw. }
    destruct Hio as [Lbad Luok Ldlb Lraise].
    unfold step in H.
    destruct (raising (getth s IO)) as [x|] eqn:R.
    + destruct (drop_to_frame (stk (getth s IO))) as [|k rest] eqn:D.
      * injection H as Es El. subst s' l.
        split; [|split; auto].
        -- eapply listener_ok_srv; [|eauto]. rewrite srv_set_dead, srv_setth_eq. reflexivity.
        -- rewrite getth_set_dead, getth_setth_same. apply ioL_empty.
      * assert (Hbad' : forallb (fun i => negb (bad i)) (k :: rest) = true).
        { rewrite <- D. apply forallb_drop_to_frame. auto. }
        destruct (drop_to_frame_suffix (stk (getth s IO))) as [pre Epre]. rewrite D in Epre.
        assert (Huok' : uok g None (k :: rest) = true) by (eapply uok_suffix; rewrite <- Epre; eauto).
        assert (Hdlb' : dlb (k :: rest) = true) by (eapply dlb_suffix; rewrite <- Epre; eauto).
        assert (Hfca : fca None (stk (getth s IO)) = fca None (k :: rest)) by (rewrite <- D, fca_drop; auto).
        specialize (Lraise x eq_refl). rewrite Hfca in Lraise. rewrite ?D in Lraise.
        assert (Hk : match ca_fd k with Some f => is_lst_fd f = false | None => True end).
        { destruct (ca_fd k) as [f|] eqn:Ek; auto. destruct (is_lst_fd f) eqn:Ef; auto.
          exfalso. simpl in Lraise. rewrite Ek in Lraise. simpl in Lraise. specialize (Lraise Ef).
          destruct k; simpl in Ek; try discriminate; auto. }
        (* what is below a catch-all frame is dispatch level *)
        assert (Hrest : ca_fd k <> None -> fca None rest = None).
        { intros Ek. simpl in Hdlb'. replace (dl k || is_ca k) with true in Hdlb'
            by (destruct k; simpl in Ek; try congruence; reflexivity).
          apply andb_true_iff in Hdlb'. destruct Hdlb' as [Hd _]. apply fca_dl. auto. }
        pose proof (frame_lsn IO k x s Hk) as FL.
        destruct (frame IO k x s) as [s1 push ls|s1] eqn:F; injection H as Es El; subst s' l.
        -- destruct FL as (Esrv & Pbad & Puok & Pdlb & Pex & _).
           split; [|split; auto].
           ++ eapply listener_ok_srv; [|eauto]. rewrite srv_setth_eq. auto.
           ++ rewrite getth_setth_same. unfold set_raising. constructor; simpl.
              ** rewrite forallb_app, Pbad. simpl. eapply forallb_tail; eauto.
              ** apply uok_app; [|eapply uok_tail; eauto].
                 destruct (is_lst (fca None rest)) eqn:El; [|apply Puok; auto].
                 (* a listener frame is next: then k is handle_accept's try, which pushes nothing *)
                 assert (Ek : ca_fd k = None).
                 { destruct (ca_fd k) eqn:Ek; auto. rewrite Hrest in El by discriminate. discriminate. }
                 simpl in Lraise. rewrite Ek in Lraise. specialize (Lraise El).
                 destruct k; try contradiction. cbn [frame] in F. rewrite Lraise in F.
                 injection F as _ Ep _. subst push. reflexivity.
              ** apply dlb_app; auto; [eapply dlb_suffix with (p := [k]); eauto|].
                 rewrite Pex. discriminate.
              ** intros; discriminate.
        -- split; [|split; auto].
           ++ eapply listener_ok_srv; [|eauto]. rewrite srv_setth_eq. auto.
           ++ rewrite getth_setth_same. unfold set_raising. constructor; simpl.
              ** eapply forallb_tail; eauto.
              ** eapply uok_tail; eauto.
              ** eapply dlb_suffix with (p := [k]); eauto.
              ** intros y Ey El. injection Ey as Ey. subst y. exfalso.
                 assert (Ek : ca_fd k = None).
                 { destruct (ca_fd k) eqn:Ek; auto. rewrite Hrest in El by discriminate. discriminate. }
                 simpl in Lraise. rewrite Ek in Lraise. specialize (Lraise El).
                 destruct k; try contradiction. cbn [frame] in F. rewrite Lraise in F. discriminate.
    + destruct (stk (getth s IO)) as [|i rest] eqn:S; [discriminate|].
      simpl in Lbad. apply andb_true_iff in Lbad. destruct Lbad as [Hbi Hbr].
      apply negb_true_iff in Hbi.
      assert (Hd : is_lst (fca None rest) = true -> acc i = true).
      { intro El. simpl in Luok. rewrite El in Luok. apply andb_true_iff in Luok. destruct Luok as [Ha _].
        eapply acc_ok_acc; eauto. }
      pose proof (exec_lsn g IO i a s (fca None rest) Hbi Hd) as EL.
      pose proof (exec_own_stack g IO i a s) as OS.
      destruct (exec g IO i a s) as [|s1 push ls|s1 x ls] eqn:E; [discriminate| |]; injection H as Es El; subst s' l.
      * destruct EL as (Esrv & Pbad & Puok & Pdlb & Pex). destruct OS as [_ OR].
        split; [|split; auto].
        -- eapply listener_ok_srv; [|eauto]. rewrite srv_setth_eq. auto.
        -- rewrite getth_setth_same. unfold set_stk. constructor; simpl.
           ++ rewrite forallb_app, Pbad, Hbr. reflexivity.
           ++ apply uok_app; auto. eapply uok_tail; eauto.
           ++ apply dlb_app; auto; [eapply dlb_suffix with (p := [i]); eauto|].
              intro Hx. destruct (dl i) eqn:Edl.
              ** simpl in Ldlb. rewrite Edl in Ldlb. simpl in Ldlb. apply andb_true_iff in Ldlb. tauto.
              ** rewrite Pex in Hx by auto. discriminate.
           ++ intros y Ey. congruence.
      * destruct EL as (Esrv & Praise).
        split; [|split; auto].
        -- eapply listener_ok_srv; [|eauto]. rewrite srv_setth_eq. auto.
        -- rewrite getth_setth_same. unfold set_raising. constructor; simpl.
           ++ auto.
           ++ eapply uok_tail; eauto.
           ++ eapply dlb_suffix with (p := [i]); eauto.
           ++ intros y Ey El. injection Ey as Ey. subst y.
              destruct (Praise El) as [[Hf Hg]|[Hos Hin]]; [destruct Hsf; congruence|].
              simpl in Luok. rewrite El in Luok. apply andb_true_iff in Luok. destruct Luok as [Ha _].
              assert (Hn : next_is_acctry rest = true).
              { destruct i; simpl in Hin; try discriminate; simpl in Ha; auto; rewrite Hin in Ha; auto. }
              unfold next_is_acctry in Hn. destruct (drop_to_frame rest) as [|k r']; [discriminate|].
              destruct k; try discriminate. auto.
  - (* worker c moves *)
    assert (Hio' : getth s' IO = getth s IO) by (apply Hother; discriminate).
    assert (HWo : forall d, d <> c -> forallb wsafe (stk (getth s' (W d))) = true).
    { intros d Hd. rewrite Hother by congruence. apply Hw. }
    specialize (Hw c) as Hwc.
    unfold step in H.
    destruct (raising (getth s (W c))) as [x|] eqn:R.
    + destruct (drop_to_frame (stk (getth s (W c)))) as [|k rest] eqn:D.
      * injection H as Es El. subst s' l. split; [|split].
        -- eapply listener_ok_srv; [|eauto]. rewrite srv_setth_eq. reflexivity.
        -- rewrite getth_setth_other by discriminate. auto.
        -- intro d. destruct (chan_dec d c); [subst; rewrite getth_setth_same; reflexivity|auto].
      * assert (Hkr : forallb wsafe (k :: rest) = true) by (rewrite <- D; apply forallb_drop_to_frame; auto).
        simpl in Hkr. apply andb_true_iff in Hkr. destruct Hkr as [Hk Hr].
        pose proof (frame_wsafe (W c) k x s Hk) as FW.
        destruct (frame (W c) k x s) as [s1 push ls|s1] eqn:F; injection H as Es El; subst s' l.
        -- destruct FW as [Esrv Pw]. split; [|split].
           ++ eapply listener_ok_srv; [|eauto]. rewrite srv_setth_eq. auto.
           ++ rewrite Hio'. exact Hio.
           ++ intro d. destruct (chan_dec d c); [subst; rewrite getth_setth_same; simpl; rewrite forallb_app, Pw, Hr; reflexivity|auto].
        -- split; [|split].
           ++ eapply listener_ok_srv; [|eauto]. rewrite srv_setth_eq. auto.
           ++ rewrite Hio'. exact Hio.
           ++ intro d. destruct (chan_dec d c); [subst; rewrite getth_setth_same; simpl; auto|auto].
    + destruct (stk (getth s (W c))) as [|i rest] eqn:S.
      * destruct (queued (getc s c)); [|discriminate]. injection H as Es El. subst s' l. split; [|split].
        -- eapply listener_ok_srv; [|eauto]. rewrite srv_setth_eq, srv_setc_eq. reflexivity.
        -- rewrite Hio'. exact Hio.
        -- intro d. destruct (chan_dec d c); [subst; rewrite getth_setth_same; reflexivity|auto].
      * simpl in Hwc. apply andb_true_iff in Hwc. destruct Hwc as [Hi Hr].
        pose proof (exec_wsafe g (W c) i a s Hi) as EW.
        destruct (exec g (W c) i a s) as [|s1 push ls|s1 x ls] eqn:E; [discriminate| |]; injection H as Es El; subst s' l.
        -- destruct EW as [Esrv Pw]. split; [|split].
           ++ eapply listener_ok_srv; [|eauto]. rewrite srv_setth_eq. auto.
           ++ rewrite Hio'. exact Hio.
           ++ intro d. destruct (chan_dec d c); [subst; rewrite getth_setth_same; simpl; rewrite forallb_app, Pw, Hr; reflexivity|auto].
        -- split; [|split].
           ++ eapply listener_ok_srv; [|eauto]. rewrite srv_setth_eq. auto.
           ++ rewrite Hio'. exact Hio.
           ++ intro d. destruct (chan_dec d c); [subst; rewrite getth_setth_same; simpl; auto|auto].
Qed.

(* C13_listener outside finding F17: every schedule, every fault placement except an errno
   from getsockopt(SO_SNDBUF) / setblocking in HTTPChannel.__init__ *)
Lemma LInv_all : forall g sched, LInv g (ChanFault.run g sched) (ChanFault.trace g sched).
Proof.
  intros g sched.
  pose proof (inv_rule_tr g (LInv g)) as R.
  assert (I0 : LInv g init []).
  { intros _. split; [|split].
    - repeat split; reflexivity.
    - constructor; simpl; auto. intros; discriminate.
    - intros [|]; reflexivity. }
  exact (R I0 (LInv_step g) sched).
Qed.

Theorem listener_partial : forall g sched,
  no_setup_fault (ChanFault.trace g sched) -> listener_ok (ChanFault.run g sched).
Proof. intros g sched H. destruct (LInv_all g sched (or_introl H)). auto. Qed.

(* with the repair of F17 (the channel is constructed inside handle_accept's try): every execution *)
Theorem listener_repaired : forall g sched,
  init_guarded g = true -> listener_ok (ChanFault.run g sched).
Proof. intros g sched H. destruct (LInv_all g sched (or_intror H)). auto. Qed.
