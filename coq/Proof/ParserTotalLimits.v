(* C06: the limit theorems (header size, declared body length, running body
   count) with their exact boundaries, the closing channel consumes nothing, and
   the carry state of an open request is bounded. *)
From Coq Require Import List NArith ZArith Bool Lia Arith.
From RecordUpdate Require Import RecordUpdate.
From WV Require Import Lib.PyBytes Lib.Regex Gen.GenRegex Model.Receiver Model.UrlSplit Model.Parser Model.ChanSeq
  Proof.PyBytesFacts Proof.ReceiverTotal Proof.ParserTotal Proof.ParserTotalChan.
Import ListNotations.
Local Open Scope N_scope.

(* errors raised by parse_header are never the two limit errors *)
Definition limit_err (e : perr) : bool :=
  match e with EHeaderTooLarge | EBodyTooLarge => true | _ => false end.

Lemma header_lines_go_err lines r e : header_lines_go lines r = inl e -> limit_err e = false.
Proof.
  revert r; induction lines as [|l rest IH]; intros r; cbn [header_lines_go]; [discriminate|].
  destruct l as [|c l']; [apply IH|].
  destruct (has_cr_or_lf _); [intros H; injection H as <-; reflexivity|].
  destruct (_ || _).
  - destruct r; [intros H; injection H as <-; reflexivity | apply IH].
  - apply IH.
Qed.

Lemma add_header_lines_err h lines e h' : add_header_lines h lines = inl (e, h') -> limit_err e = false.
Proof.
  revert h; induction lines as [|l rest IH]; intros h; cbn [add_header_lines]; [discriminate|].
  destruct (add_header_line h l) as [e0|h1] eqn:E; [|apply IH].
  intros H; injection H as <- <-. revert E. unfold add_header_line.
  destruct (negb _); [intros H; injection H as <-; reflexivity|].
  destruct (partition l [58]) as [[name x] rest0].
  destruct (memb 95 name); [discriminate|].
  destruct (hget h (header_key name)); [|discriminate].
  destruct (is_singleton _); [intros H; injection H as <-; reflexivity | discriminate].
Qed.

Lemma ph_v11_err p h1 ver c p1 e : ph_v11 p h1 ver c = (p1, Some e) -> limit_err e = false.
Proof.
  unfold ph_v11. repeat ph_step; intros H; try discriminate; injection H as <- <-; reflexivity.
Qed.

Lemma ph_tail_err p p1 e : ph_tail p = (p1, PSError e) -> limit_err e = false.
Proof.
  unfold ph_tail. repeat ph_step; intros H; try discriminate; injection H as <- <-; reflexivity.
Qed.

Lemma parse_header_err a p h p1 e : parse_header a p h = (p1, PSError e) -> limit_err e = false.
Proof.
  rewrite parse_header_eq.
  destruct (find h CRLF); [|intros H; injection H as <- <-; reflexivity]. cbv zeta.
  destruct (has_cr_or_lf _); [intros H; injection H as <- <-; reflexivity|].
  destruct (get_header_lines _) as [e0|lines] eqn:G.
  { intros H; injection H as <- <-. unfold get_header_lines in G. eapply header_lines_go_err; eauto. }
  destruct (add_header_lines _ lines) as [[e0 h0]|h1] eqn:A.
  { intros H; injection H as <- <-. eapply add_header_lines_err; eauto. }
  destruct (crack_first_line _) as [[[cmd uri] ver]|]; [|intros H; injection H as <- <-; reflexivity].
  destruct (beqb cmd [] && beqb uri [] && beqb ver []); [intros H; injection H as <- <-; reflexivity|].
  unfold ph_mid. destruct (split_uri uri) as [sc nl pa qu fr| | |]; try discriminate;
    [|intros H; injection H as <- <-; reflexivity].
  cbv zeta. destruct (ph_v11 _ h1 ver _) as [p2 [e2|]] eqn:V.
  - intros H; injection H as <- <-. eapply ph_v11_err; eauto.
  - apply ph_tail_err.
Qed.

(* ------------------------------------------------------------------ *)
(* the limits *)

(* size of the head seen so far: position just after the first CRLFCRLF, or
   all bytes when there is none yet *)
Definition head_pos (s : bytes) : N :=
  match find_double_newline s with Some i => N.of_nat i | None => lenN s end.

Lemma received_head_cases a hp data p' n :
  received a (P0 hp) data = ROk p' n ->
  (max_request_header_size a <= head_pos (hp ++ data) /\
   completed p' = true /\ error p' = Some EHeaderTooLarge)
  \/
  (head_pos (hp ++ data) < max_request_header_size a /\
   error p' <> Some EHeaderTooLarge /\
   (error p' = Some EBodyTooLarge ->
      completed p' = true /\ 0 < content_length p' /\ max_request_body_size a <= content_length p') /\
   (error p' = None ->
      content_length p' = 0 \/ content_length p' < max_request_body_size a)).
Proof.
  unfold received, head_pos. change (completed (P0 hp)) with false. change (body (P0 hp)) with (@None body_rcv).
  cbv iota. change (header_plus (P0 hp)) with hp. change (header_bytes_received (P0 hp)) with (lenN hp).
  cbv zeta.
  destruct (find_double_newline (hp ++ data)) as [i|] eqn:Hi; cbv beta iota zeta.
  - set (p0 := P0 hp <| header_bytes_received := N.of_nat i |>).
    destruct (max_request_header_size a <=? N.of_nat i) eqn:Hmax.
    + apply N.leb_le in Hmax.
      destruct (parse_header a p0 fake_head_431) as [p1 [| | |]]; try discriminate.
      intros H; injection H as <- <-. left. psimpl. auto.
    + apply N.leb_gt in Hmax.
      destruct (lstrip_by _ _) as [|h0 hs].
      * intros H; injection H as <- <-. right. psimpl. cbn.
        split; [exact Hmax|]. split; [discriminate|]. split; [discriminate | auto].
      * pose proof (parse_header_frame a p0 (h0 :: hs)) as Fr.
        pose proof (parse_header_err a p0 (h0 :: hs)) as Er.
        destruct (parse_header a p0 (h0 :: hs)) as [p1 st]. cbn [fst] in Fr.
        destruct Fr as (F1 & F2 & F3 & F4 & F5 & F6 & F7).
        destruct st as [|e| |]; try discriminate.
        -- intros H; injection H as <- <-. right. split; [exact Hmax|].
           destruct (body p1); psimpl.
           ++ destruct ((0 <? content_length p1) && (max_request_body_size a <=? content_length p1)) eqn:Hb; psimpl.
              ** apply andb_true_iff in Hb as [Hb1 Hb2]. apply N.ltb_lt in Hb1. apply N.leb_le in Hb2.
                 split; [discriminate|]. split; [auto | discriminate].
              ** rewrite F7. cbn. split; [discriminate|]. split; [discriminate|]. intros _.
                 apply andb_false_iff in Hb as [Hb|Hb]; [apply N.ltb_ge in Hb; lia | apply N.leb_gt in Hb; lia].
           ++ destruct ((0 <? content_length p1) && (max_request_body_size a <=? content_length p1)) eqn:Hb; psimpl.
              ** apply andb_true_iff in Hb as [Hb1 Hb2]. apply N.ltb_lt in Hb1. apply N.leb_le in Hb2.
                 split; [discriminate|]. split; [auto | discriminate].
              ** rewrite F7. cbn. split; [discriminate|]. split; [discriminate|]. intros _.
                 apply andb_false_iff in Hb as [Hb|Hb]; [apply N.ltb_ge in Hb; lia | apply N.leb_gt in Hb; lia].
        -- specialize (Er p1 e eq_refl). intros H; injection H as <- <-. right. psimpl.
           split; [exact Hmax|]. split; [intros H; injection H as ->; discriminate|].
           split; [intros H; injection H as ->; discriminate | discriminate].
  - destruct (max_request_header_size a <=? lenN hp + lenN data) eqn:Hmax.
    + apply N.leb_le in Hmax.
      destruct (parse_header a _ fake_head_431) as [p1 [| | |]]; try discriminate.
      intros H; injection H as <- <-. left. psimpl. rewrite lenN_app. auto.
    + apply N.leb_gt in Hmax. intros H; injection H as <- <-. right. psimpl. cbn. rewrite lenN_app.
      split; [exact Hmax|]. split; [discriminate|]. split; [discriminate | auto].
Qed.

(* C06_header_limit: once the head seen so far reaches max_request_header_size
   the message is completed with error 431 -- and only then *)
Theorem header_limit a hp data p' n :
  received a (P0 hp) data = ROk p' n ->
  (max_request_header_size a <= head_pos (hp ++ data) <->
   (completed p' = true /\ error p' = Some EHeaderTooLarge)).
Proof.
  intros H. destruct (received_head_cases a hp data p' n H) as [(A & B & C)|(A & B & _)].
  - tauto.
  - split; [lia | intros (_ & E); congruence].
Qed.

(* C06_body_limit_declared: a declared Content-Length >= max_request_body_size
   (and > 0) is refused with 413 at the end of the head; a request that leaves the
   head phase without error has content_length = 0 or < max_request_body_size *)
Theorem body_limit_declared a hp data p' n :
  received a (P0 hp) data = ROk p' n ->
  (error p' = Some EBodyTooLarge ->
     completed p' = true /\ 0 < content_length p' /\ max_request_body_size a <= content_length p') /\
  (error p' = None ->
     content_length p' = 0 \/ content_length p' < max_request_body_size a).
Proof.
  intros H. destruct (received_head_cases a hp data p' n H) as [(A & B & C)|(A & B & C & D)].
  - split; intros E; congruence.
  - auto.
Qed.

(* C06_body_limit_chunked (and fixed): in the body phase the running count of
   wire bytes decides: count >= max_request_body_size <=> 413 *)
Theorem body_limit_running a p br data p' n :
  wf_p a p -> body p = Some br -> received a p data = ROk p' n ->
  body_bytes_received p' = (body_bytes_received p + n)%Z /\
  ((Z.of_N (max_request_body_size a) <= body_bytes_received p + n)%Z <->
     (completed p' = true /\ error p' = Some EBodyTooLarge)).
Proof.
  intros (Hc & He & Wb & _) Hb. unfold wf_body in Wb. rewrite Hb in Wb.
  unfold received. rewrite Hc, Hb. cbv iota.
  assert (G : forall (br' : body_rcv) (m : Z) (brerr : option perr) (done : bool) q,
    (brerr = Some EBodyTooLarge -> False) ->
    (forall x, body_bytes_received (q x) = body_bytes_received x /\ error (q x) = error x) ->
    (if (Z.of_N (max_request_body_size a) <=? body_bytes_received p + m)%Z
     then ROk (p <| body := Some br' |> <| body_bytes_received := (body_bytes_received p + m)%Z |>
                 <| error := Some EBodyTooLarge |> <| completed := true |>) m
     else match brerr with
          | Some e => ROk (p <| body := Some br' |> <| body_bytes_received := (body_bytes_received p + m)%Z |>
                             <| error := Some e |> <| completed := true |>) m
          | None => if done then ROk (q (p <| body := Some br' |> <| body_bytes_received := (body_bytes_received p + m)%Z |>
                                        <| completed := true |>)) m
                    else ROk (p <| body := Some br' |> <| body_bytes_received := (body_bytes_received p + m)%Z |>) m
          end) = ROk p' n ->
    body_bytes_received p' = (body_bytes_received p + n)%Z /\
    ((Z.of_N (max_request_body_size a) <= body_bytes_received p + n)%Z <->
       (completed p' = true /\ error p' = Some EBodyTooLarge))).
  { intros br' m brerr done q Hne Q.
    destruct (Z.of_N (max_request_body_size a) <=? body_bytes_received p + m)%Z eqn:Hmax.
    - apply Z.leb_le in Hmax. intros H; injection H as <- <-. psimpl.
      split; [reflexivity|]. tauto.
    - apply Z.leb_gt in Hmax. destruct brerr as [e|].
      + intros H; injection H as <- <-. psimpl. split; [reflexivity|].
        split; [lia|]. intros (_ & E). injection E as ->. exfalso; auto.
      + destruct done.
        * intros H; injection H as <- <-.
          destruct (Q (p <| body := Some br' |> <| body_bytes_received := (body_bytes_received p + m)%Z |>
                                        <| completed := true |>)) as (Q1 & Q2).
          rewrite Q1, Q2. psimpl. split; [reflexivity|]. split; [lia|]. rewrite He. intros (_ & E); discriminate.
        * intros H; injection H as <- <-. psimpl. split; [reflexivity|]. split; [lia|].
          rewrite He. intros (_ & E); discriminate. }
  destruct br as [f|c].
  - destruct (fixed_received f data) as [f' m]. cbv beta iota zeta.
    apply (G (BFixed f') m None (f_completed f')
             (fun p2 => if chunked p2 then p2 <| headers := hset (headers p2) s_CONTENT_LENGTH (to_dec (body_len (BFixed f'))) |> else p2)).
    + discriminate.
    + intros x. destruct (chunked x); psimpl; auto.
  - destruct Wb as (_ & _ & _ & Hce & _).
    destruct (chunked_received c data) as [[c' m]|] eqn:E; [|discriminate]. cbv beta iota zeta.
    assert (Hne : c_error c' = Some EBodyTooLarge -> False).
    { intros X. pose proof (chunked_received_err c data c' m) as Y. rewrite Hce, X in Y. apply Y; [exact I | exact E]. }
    apply (G (BChunked c') m (c_error c') (c_completed c')
             (fun p2 => if chunked p2 then p2 <| headers := hset (headers p2) s_CONTENT_LENGTH (to_dec (body_len (BChunked c'))) |> else p2)).
    + exact Hne.
    + intros x. destruct (chunked x); psimpl; auto.
Qed.

(* C06_stop (sequential part): once the channel is closing it consumes nothing *)
Theorem chan_stop a c data : will_close c || close_when_flushed c = true -> chan_received a c data = COk c.
Proof. intros H. unfold chan_received. destruct data; [reflexivity|]. now rewrite H. Qed.

(* memory boundedness: what an open (not completed) request holds *)
Theorem carry_bounded a p : wf_p a p ->
  (header_plus p = [] \/ lenN (header_plus p) < max_request_header_size a) /\
  (forall c, body p = Some (BChunked c) ->
     (Z.of_nat (length (control_line c) + length (chunk_end c) + length (trailer c)) <= body_bytes_received p)%Z /\
     (body_bytes_received p = 0 \/ body_bytes_received p < Z.of_N (max_request_body_size a))%Z).
Proof.
  intros (_ & _ & Wb & Wh & Wbb). split; [exact Wh|].
  intros c Hb. unfold wf_body in Wb. rewrite Hb in Wb. destruct Wb as (_ & _ & _ & _ & Hphi & _).
  split; [exact Hphi | exact Wbb].
Qed.
