(* C17, layer 3: ReadOnlyFileBasedBuffer (wsgi.file_wrapper).  After
   prepare(size) the buffer is a FIFO queue whose initial content is the window
   of at most [size] bytes that starts at the wrapped file's position; nothing
   outside that window is ever yielded, a peek restores the file position, and
   after consuming k bytes the file is positioned at start + k. *)
From Coq Require Import List NArith ZArith Bool Lia ZifyBool Arith.
From WV Require Import Lib.PyBytes Model.Buffers Spec.Fifo Proof.Buffers.
Import ListNotations.
Local Open Scope Z_scope.

(* c: content of the wrapped file, p0: its position when prepare() ran, P: what prepare() returned *)
Definition ro_inv (c : list N) (p0 : nat) (P : Z) (b : fbuf) : Prop :=
  f_closed (fb_file b) = false /\ f_content (fb_file b) = c /\
  0 <= fb_remain b /\ (p0 <= f_pos (fb_file b))%nat /\
  Z.of_nat (f_pos (fb_file b)) + fb_remain b = Z.of_nat p0 + P /\
  Z.of_nat p0 + P <= Z.of_nat (length c).

(* the bytes still to be yielded *)
Definition ro_abs (b : fbuf) : queue :=
  firstn (Z.to_nat (fb_remain b)) (skipn (f_pos (fb_file b)) (f_content (fb_file b))).

Definition ro_window (c : list N) (p0 : nat) (P : Z) : queue := firstn (Z.to_nat P) (skipn p0 c).

Lemma ro_abs_len c p0 P b : ro_inv c p0 P b -> q_len (ro_abs b) = fb_remain b.
Proof.
  intros (Hc & Hct & Hr & Hp & Hs & Hw). unfold ro_abs, q_len.
  rewrite firstn_length_le; [lia|]. rewrite skipn_length, Hct. lia.
Qed.

(* how far the file has advanced = how much of the window is gone *)
Lemma ro_position c p0 P b : ro_inv c p0 P b ->
  Z.of_nat (f_pos (fb_file b)) = Z.of_nat p0 + (P - q_len (ro_abs b)) /\ q_len (ro_abs b) <= P.
Proof.
  intro Hi. rewrite (ro_abs_len c p0 P b Hi). destruct Hi as (Hc & Hct & Hr & Hp & Hs & Hw). lia.
Qed.

Definition size_ok (size : option Z) : Prop := match size with None => True | Some sz => 0 <= sz end.

Lemma ro_prepare_spec c p0 cl size :
  cl = false -> (p0 <= length c)%nat -> size_ok size ->
  let f := mkfile c p0 cl in
  let P := match size with
           | None => Z.of_nat (length c) - Z.of_nat p0
           | Some sz => Z.min (Z.of_nat (length c) - Z.of_nat p0) sz
           end in
  ro_prepare (ro_init f) size = Ok (mkfbuf KRo f P, P) /\
  ro_inv c p0 P (mkfbuf KRo f P) /\
  ro_abs (mkfbuf KRo f P) = ro_window c p0 P /\
  (forall sz, size = Some sz -> P <= sz).
Proof.
  intros -> Hp Hs f P. unfold ro_prepare, ro_init, f_seek_end, f_tell, f_seek_set.
  cbn [fb_file fb_kind f_closed f_pos f_content]. fold P. split; [reflexivity|].
  assert (0 <= P) by (subst P; destruct size; cbn in Hs; lia).
  assert (Z.of_nat p0 + P <= Z.of_nat (length c)) by (subst P; destruct size; lia).
  split; [|split].
  - unfold ro_inv. cbn. repeat split; auto; lia.
  - reflexivity.
  - intros sz ->. subst P. lia.
Qed.

Definition ro_valid (p : ro_op) : Prop := match p with ROGet n _ => -1 <= n | _ => True end.

Definition ro_spec_of (p : ro_op) : qop :=
  match p with
  | ROGet n false => QPeek n
  | ROGet n true => QTake n
  | ROSkip n => QConsume n
  | ROLen => QLength
  end.

(* outputs are exactly the specification's *)
Definition ro_out_ok (so : qout) (r : out) : Prop :=
  match so, r with
  | QBytes want, RBytes b => b = want
  | QUnit, RUnit => True
  | QErr, RExn ValueErrorSkip => True
  | QNum n, RLen z => z = n
  | _, _ => False
  end.

Lemma ro_read_is_peek c p0 P b n : ro_inv c p0 P b -> -1 <= n ->
  let m := if (n =? -1) || (n >? fb_remain b) then fb_remain b else n in
  firstn (Z.to_nat m) (skipn (f_pos (fb_file b)) (f_content (fb_file b))) = q_peek n (ro_abs b) /\
  0 <= m <= fb_remain b /\ lenZ (q_peek n (ro_abs b)) = m.
Proof.
  intros Hi Hn m. pose proof (ro_abs_len c p0 P b Hi) as Hlen.
  destruct Hi as (Hc & Hct & Hr & Hp & Hs & Hw).
  assert (Hm : 0 <= m <= fb_remain b).
  { subst m. destruct ((n =? -1) || (n >? fb_remain b)) eqn:E; lia. }
  assert (E1 : firstn (Z.to_nat m) (skipn (f_pos (fb_file b)) (f_content (fb_file b))) = q_peek n (ro_abs b)).
  { unfold q_peek, ro_abs in *. subst m.
    destruct (n <? 0) eqn:En.
    - replace n with (-1) by lia. reflexivity.
    - destruct ((n =? -1) || (n >? fb_remain b)) eqn:E.
      + symmetry. apply firstn_all2. unfold q_len in Hlen. lia.
      + rewrite firstn_firstn. f_equal. lia. }
  split; [exact E1|]. split; [exact Hm|].
  rewrite <- E1. unfold lenZ. rewrite firstn_length_le; [lia|]. rewrite skipn_length, Hct. lia.
Qed.

Lemma ro_step_refines c p0 P b p : ro_inv c p0 P b -> ro_valid p ->
  ro_inv c p0 P (fst (ro_step b p)) /\
  ro_abs (fst (ro_step b p)) = q_next (ro_abs b) (ro_spec_of p) /\
  ro_out_ok (snd (q_step (ro_abs b) (ro_spec_of p))) (snd (ro_step b p)) /\
  (* a peek leaves the buffer, hence the file position, untouched *)
  (match p with ROGet _ false | ROLen => fst (ro_step b p) = b | _ => True end).
Proof.
  intros Hi Hv. pose proof (ro_abs_len c p0 P b Hi) as Hlen.
  destruct p as [n sk | n |]; unfold ro_step.
  - cbn in Hv. destruct (ro_read_is_peek c p0 P b n Hi Hv) as (Hrd & Hm & Hml).
    destruct Hi as (Hc & Hct & Hr & Hp & Hs & Hw).
    destruct b as [k [cc p cl] r]. cbn [fb_file fb_kind fb_remain f_closed f_content f_pos] in *. subst cl cc.
    unfold ro_get, f_read, f_read_n, f_tell, f_seek_set.
    cbn [fb_file fb_kind fb_remain f_closed f_content f_pos].
    set (m := if (n =? -1) || (n >? r) then r else n) in *.
    destruct (m <? 0) eqn:Em; [lia|]. rewrite Hrd.
    destruct sk; cbn [fst snd ro_spec_of q_step].
    + unfold q_next; cbn [q_step fst]. split; [|split; [|split]]; auto; [| |reflexivity].
      * unfold ro_inv, lenZ in *. cbn [fb_file fb_kind fb_remain f_closed f_content f_pos]. repeat split; auto; lia.
      * unfold ro_abs, q_consume, lenZ in *. cbn [fb_file fb_kind fb_remain f_closed f_content f_pos].
        rewrite skipn_firstn_comm, skipn_skipn. f_equal; [lia | f_equal; lia].
    + unfold q_next; cbn [q_step fst]. repeat split; auto.
  - destruct (Z_le_gt_dec (Z.of_N n) (fb_remain b)) as [Hle | Hgt].
    + destruct Hi as (Hc & Hct & Hr & Hp & Hs & Hw).
      destruct b as [k [cc p cl] r]. cbn [fb_file fb_kind fb_remain f_closed f_content f_pos] in *. subst cl cc.
      unfold fb_skip, f_seek_cur, f_seek_set. cbn [fb_file fb_kind fb_remain f_closed f_content f_pos].
      destruct (r <? Z.of_N n) eqn:E; [lia|]. cbn [fst snd ro_spec_of].
      unfold q_next, q_step. rewrite Hlen. destruct (Z.of_N n <=? r) eqn:E2; [|lia]. cbn [fst snd].
      split; [|split; [|split]]; auto; cbn; auto.
      * unfold ro_inv. cbn [fb_file fb_kind fb_remain f_closed f_content f_pos]. repeat split; auto; lia.
      * unfold ro_abs, q_consume. cbn [fb_file fb_kind fb_remain f_closed f_content f_pos].
        rewrite skipn_firstn_comm, skipn_skipn. f_equal; [lia | f_equal; lia].
    + rewrite (fb_skip_err b n ltac:(lia)). cbn [fst snd ro_spec_of].
      unfold q_next, q_step. rewrite Hlen. destruct (Z.of_N n <=? fb_remain b) eqn:E2; [lia|]. cbn. auto.
  - cbn [fst snd ro_spec_of]. unfold q_next, q_step, fb_len. cbn [fst snd ro_out_ok]. rewrite Hlen. repeat split; auto; apply Hi.
Qed.

Theorem ro_history c p0 P ops : forall b, ro_inv c p0 P b -> Forall ro_valid ops ->
  let b' := ro_exec b ops in
  ro_inv c p0 P b' /\
  ro_abs b' = q_exec (ro_abs b) (map ro_spec_of ops) /\
  (forall p, ro_valid p -> ro_out_ok (snd (q_step (ro_abs b') (ro_spec_of p))) (snd (ro_step b' p))).
Proof.
  unfold ro_exec, q_exec. induction ops as [|p ops IH]; intros b Hi Hv; cbn [fold_left map]; cbv zeta.
  - split; [exact Hi|]. split; [reflexivity|].
    intros p Hp. now apply ro_step_refines with (c := c) (p0 := p0) (P := P).
  - inversion Hv as [|? ? Hp Hv']; subst.
    destruct (ro_step_refines c p0 P b p Hi Hp) as (H1 & H2 & _).
    rewrite <- H2. apply (IH _ H1 Hv').
Qed.

(* The statement of the property for the read-only buffer, from prepare() on. *)
Theorem ro_clamp c p0 size ops :
  (p0 <= length c)%nat -> size_ok size -> Forall ro_valid ops ->
  exists b0 P,
    ro_prepare (ro_init (mkfile c p0 false)) size = Ok (b0, P) /\
    fb_file b0 = mkfile c p0 false /\                      (* prepare leaves the file where it was *)
    0 <= P <= Z.of_nat (length c) - Z.of_nat p0 /\
    (forall sz, size = Some sz -> P <= sz) /\
    let b := ro_exec b0 ops in
    let left := q_exec (ro_window c p0 P) (map ro_spec_of ops) in
    ro_abs b = left /\ fb_len b = q_len left /\ q_len left <= P /\
    f_content (fb_file b) = c /\ f_closed (fb_file b) = false /\
    (* after consuming k = P - len bytes the wrapped file is at start + k *)
    Z.of_nat (f_pos (fb_file b)) = Z.of_nat p0 + (P - q_len left) /\
    (forall p, ro_valid p -> ro_out_ok (snd (q_step left (ro_spec_of p))) (snd (ro_step b p))) /\
    (forall n, -1 <= n -> fst (ro_step b (ROGet n false)) = b).
Proof.
  intros Hp Hs Hv.
  destruct (ro_prepare_spec c p0 false size eq_refl Hp Hs) as (H1 & H2 & H3 & H4).
  cbv zeta in H1, H2, H3, H4.
  set (P := match size with None => Z.of_nat (length c) - Z.of_nat p0
            | Some sz => Z.min (Z.of_nat (length c) - Z.of_nat p0) sz end) in *.
  exists (mkfbuf KRo (mkfile c p0 false) P), P.
  split; [exact H1|]. split; [reflexivity|].
  split; [destruct H2 as (_ & _ & Ha & _ & Hb & Hc); cbn in *; lia|].
  split; [exact H4|].
  destruct (ro_history c p0 P ops _ H2 Hv) as (H5 & H6 & H7). cbv zeta in H5, H6, H7.
  rewrite H3 in H6. cbv zeta. rewrite <- H6.
  destruct (ro_position c p0 P _ H5) as (H8 & H9).
  pose proof (ro_abs_len c p0 P _ H5) as H10.
  destruct H5 as (Hc & Hct & Hr & Hpp & Hss & Hw).
  repeat split; auto.
  intros n Hn.
  destruct (ro_step_refines c p0 P (ro_exec (mkfbuf KRo (mkfile c p0 false) P) ops) (ROGet n false)) as (_ & _ & _ & E); auto.
  repeat split; auto.
Qed.
