(* Composition of the task model with the byte-level output queue.

   Model/Task.v records what a task hands to channel.write_soon (o_writes: byte strings and
   handed-over file buffers, in order) and the C03 theorems read [wire (o_writes res)] as a client
   reads it.  Model/ChanOut.v is what the channel does with those calls.  Here: for every list of
   write_soon arguments and every socket behaviour during each of them, what the socket accepts
   followed by what is still queued is exactly [wire ws] -- so the framing theorems of C03 are
   statements about the bytes the output queue delivers, not only about the arguments of write_soon. *)
From Coq Require Import List NArith ZArith Bool Lia ZifyBool Arith.
From WV Require Import Lib.PyBytes Model.Buffers Spec.Fifo Proof.Buffers Proof.BuffersRefine Proof.BuffersRo
  Model.ChanOut Proof.ChanOut.
From WV Require Model.Task.
Import ListNotations.
Local Open Scope Z_scope.

Module T := WV.Model.Task.

(* the ReadOnlyFileBasedBuffer the channel is handed for T.WFile: a prepared buffer that yields exactly
   [content] (that prepare() clamps to the declared size and leaves the file in place is C17_readonly_clamp) *)
Definition ro_of (content : bytes) : fbuf := mkfbuf KRo (mkfile content 0 false) (lenZ content).

Definition cop_of (w : T.witem) (ans : list answer) : cop :=
  match w with
  | T.WBytes b => CWrite (WBytes b) ans
  | T.WFile _ content => CWrite (WFile (ro_of content)) ans
  end.

Fixpoint cops_of (ws : list T.witem) (anss : list (list answer)) : list cop :=
  match ws with
  | [] => []
  | w :: ws' => cop_of w (hd [] anss) :: cops_of ws' (tl anss)
  end.

Lemma ro_of_ok content : bok (RO (ro_of content)).
Proof.
  cbn [bok]. exists content, 0%nat, (lenZ content). unfold ro_inv, ro_of, lenZ; cbn. repeat split; lia.
Qed.

Lemma written_by_cop w ans : written_by (cop_of w ans) = T.witem_bytes w.
Proof.
  destruct w as [b | r content]; cbn [cop_of written_by T.witem_bytes]; [reflexivity|].
  unfold ro_of; cbn [fb_remain fb_file f_pos f_content skipn]. unfold lenZ. rewrite Nat2Z.id. apply firstn_all.
Qed.

Lemma cops_ok ws : forall anss, Forall cop_ok (cops_of ws anss).
Proof.
  induction ws as [|w ws IH]; intro anss; cbn [cops_of]; constructor; [|apply IH].
  destruct w; cbn [cop_of cop_ok wdata_ok]; [exact I | apply ro_of_ok].
Qed.

Lemma cops_written ws : forall anss, concat (map written_by (cops_of ws anss)) = T.wire ws.
Proof.
  induction ws as [|w ws IH]; intro anss; cbn [cops_of map concat]; [reflexivity|].
  rewrite written_by_cop, IH. reflexivity.
Qed.

Theorem writes_reach_socket c ws anss : cfg_ok c ->
  let r := crun c chan_new (cops_of ws anss) in
  snd r ++ cabs (fst r) = T.wire ws /\
  total_outbufs_len (fst r) = q_len (cabs (fst r)).
Proof.
  intro Hc. destruct (out_fifo_new c (cops_of ws anss) Hc (cops_ok ws anss)) as (E & Ht & _).
  cbv zeta in *. rewrite cops_written in E. split; [now symmetry | exact Ht].
Qed.

(* when the socket takes everything in the end, the client holds exactly [wire ws] *)
Corollary drained_socket_is_wire c ws anss : cfg_ok c ->
  let r := crun c chan_new (cops_of ws anss) in
  cabs (fst r) = [] -> snd r = T.wire ws.
Proof.
  intros Hc r Hq. destruct (writes_reach_socket c ws anss Hc) as (E & _). fold r in E.
  rewrite Hq, app_nil_r in E. exact E.
Qed.

Theorem writes_reach_socket_both c ws anss : cfg_ok c ->
  let r := crun c chan_new (cops_of ws anss) in
  snd r ++ cabs (fst r) = T.wire ws /\ (cabs (fst r) = [] -> snd r = T.wire ws).
Proof.
  intro Hc. split.
  - exact (proj1 (writes_reach_socket c ws anss Hc)).
  - exact (drained_socket_is_wire c ws anss Hc).
Qed.
