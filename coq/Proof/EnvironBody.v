(* CONTENT_LENGTH against the bytes behind wsgi.input for the three body
   paths; the fixed receiver delivers exactly the first content-length bytes;
   the request-line entries of the environ for every accepted run. *)
From Coq Require Import List NArith ZArith Bool Lia.
From RecordUpdate Require Import RecordUpdate.
From WV Require Import Lib.PyBytes Lib.Regex Gen.GenRegex Model.Receiver Model.UrlSplit Model.Parser
  Model.Environ Spec.Pep3333 Proof.EnvironDict Proof.EnvironParse Proof.EnvironRun Proof.EnvironFields
  Proof.EnvironTarget Proof.EnvironLatin1.
Import ListNotations.
Local Open Scope N_scope.

(* ------------------------------------------------------------------ *)
(* str(n) read back *)

Lemma dec_value_to_dec_fuel : forall fuel n acc,
  n < 2 ^ N.of_nat fuel -> dec_value_acc (to_dec_fuel fuel n acc) 0 = dec_value_acc acc n.
Proof.
  induction fuel as [|f IH]; intros n acc H.
  - cbn in H. assert (n = 0) by lia. subst. reflexivity.
  - cbn [to_dec_fuel]. destruct (n <? 10) eqn:E.
    + apply N.ltb_lt in E. cbn [dec_value_acc]. rewrite N.mod_small by exact E.
      f_equal. lia.
    + apply N.ltb_ge in E. rewrite IH.
      * cbn [dec_value_acc]. f_equal. pose proof (N.div_mod n 10 ltac:(lia)) as DM. set (q := n / 10) in *. set (r := n mod 10) in *. clearbody q r. lia.
      * rewrite Nat2N.inj_succ, N.pow_succ_r' in H.
        pose proof (N.mul_div_le n 10). assert (10 * (n / 10) <= n) by lia.
        assert (n / 10 < 2 ^ N.of_nat f \/ 2 ^ N.of_nat f <= n / 10) as [L|G] by lia; [exact L|lia].
Qed.

Lemma dec_value_to_dec n : dec_value (to_dec n) = n.
Proof.
  unfold dec_value, to_dec. rewrite dec_value_to_dec_fuel; [reflexivity|].
  rewrite Nat2N.inj_succ, N2Nat.id. pose proof (N.size_gt n).
  rewrite N.pow_succ_r'. lia.
Qed.

(* ------------------------------------------------------------------ *)
(* the fixed receiver delivers exactly the first cl bytes of what it is offered *)

Definition fixed_feed (f : fixed_rcv) (ds : list bytes) : fixed_rcv :=
  fold_left (fun f d => fst (fixed_received f d)) ds f.

Lemma fixed_feed_exact cl ds :
  0 < cl ->
  let f := fixed_feed (fixed_init cl) ds in
  f_buf f = firstn (N.to_nat cl) (concat ds) /\
  f_remain f + lenN (f_buf f) = cl /\
  (f_completed f = true <-> cl <= lenN (concat ds)).
Proof.
  intro Hpos. cbv zeta. induction ds as [|d ds IH] using rev_ind.
  - cbn. split; [destruct (N.to_nat cl); reflexivity|]. split; [unfold lenN; cbn; lia|].
    unfold lenN; cbn. split; [discriminate|lia].
  - unfold fixed_feed in *. rewrite fold_left_app. cbn [fold_left].
    set (f := fold_left (fun f d => fst (fixed_received f d)) ds (fixed_init cl)) in *.
    destruct IH as (Hb & Hs & Hc).
    rewrite concat_app. cbn [concat]. rewrite app_nil_r.
    unfold fixed_received.
    assert (Lb : lenN (f_buf f) = N.min cl (lenN (concat ds))).
    { rewrite Hb. unfold lenN. rewrite firstn_length. lia. }
    destruct (f_remain f <? 1) eqn:E1; cbn [fst f_buf f_remain f_completed].
    + apply N.ltb_lt in E1.
      assert (Hlen : cl <= lenN (concat ds)) by lia.
      split.
      { rewrite Hb. unfold lenN in Hlen. rewrite firstn_app.
        replace (N.to_nat cl - length (concat ds))%nat with 0%nat by lia.
        cbn [firstn]. rewrite app_nil_r. reflexivity. }
      split; [exact Hs|]. unfold lenN in *. rewrite app_length. split; [lia|reflexivity].
    + apply N.ltb_ge in E1.
      assert (Hlt : lenN (concat ds) < cl) by lia.
      assert (Hbuf : f_buf f = concat ds).
      { rewrite Hb. apply firstn_all2. unfold lenN in Hlt. lia. }
      assert (Hrem : f_remain f = cl - lenN (concat ds)) by (rewrite Hbuf in Hs; lia).
      destruct (f_remain f <=? lenN d) eqn:E2; cbn [fst f_buf f_remain f_completed].
      * apply N.leb_le in E2. split.
        { rewrite Hbuf. unfold lenN in *. rewrite firstn_app.
          rewrite (@firstn_all2 N (N.to_nat cl) (concat ds)) by lia. f_equal. f_equal. lia. }
        split.
        { unfold lenN in *. rewrite app_length, firstn_length. lia. }
        unfold lenN in *. rewrite app_length. split; [lia|reflexivity].
      * apply N.leb_gt in E2. split.
        { rewrite Hbuf. unfold lenN in *. rewrite firstn_all2; [reflexivity|]. rewrite app_length. lia. }
        split.
        { unfold lenN in *. rewrite app_length. lia. }
        unfold lenN in *. rewrite app_length. rewrite Hc. unfold lenN. lia.
Qed.

(* ------------------------------------------------------------------ *)
(* CONTENT_LENGTH and wsgi.input *)

Lemma eget_wsgi_input c p :
  eget (get_environment c p) k_wsgi_input = Some (VInput (get_body_stream p)).
Proof.
  rewrite no_override by (unfold server_keys; cbn; tauto). reflexivity.
Qed.

Lemma eget_content_length c p :
  eget (get_environment c p) s_CONTENT_LENGTH = option_map VStr (hget (headers p) s_CONTENT_LENGTH).
Proof. rewrite environ_header_entry by reflexivity. reflexivity. Qed.

Lemma eget_transfer_encoding c p :
  eget (get_environment c p) c_HTTP_TRANSFER_ENCODING =
  option_map VStr (hget (headers p) s_TRANSFER_ENCODING).
Proof. rewrite environ_header_entry by reflexivity. reflexivity. Qed.

Definition body_statement (c : config) (p : parser) : Prop :=
  let env := get_environment c p in
  let data := get_body_stream p in
  eget env k_wsgi_input = Some (VInput data) /\
  match eget env s_CONTENT_LENGTH with
  | Some (VStr cl) =>
    matches gate_content_length cl = true /\
    dec_value cl = lenN data /\
    (chunked p = true -> cl = to_dec (lenN data))
  | Some _ => False
  | None => data = [] /\ chunked p = false
  end /\
  (version p = s_1_1 -> eget env c_HTTP_TRANSFER_ENCODING = None) /\
  (chunked p = true -> version p = s_1_1).

Lemma digit_in m : in_ranges (48 + m mod 10) [(48, 57)] = true.
Proof.
  unfold in_ranges. pose proof (N.mod_lt m 10 ltac:(lia)) as H.
  set (r := m mod 10) in *. clearbody r. rewrite orb_false_r.
  apply andb_true_iff. split; apply N.leb_le; lia.
Qed.

Lemma gate_content_length_to_dec n : matches gate_content_length (to_dec n) = true.
Proof.
  apply matches_correct. unfold gate_content_length.
  assert (D : forall fuel m acc, Lang (Star (Cls [(48, 57)])) acc ->
              Lang (Cat (Cls [(48, 57)]) (Star (Cls [(48, 57)]))) (to_dec_fuel (S fuel) m acc)).
  { induction fuel as [|f IH]; intros m acc Hacc.
    - cbn [to_dec_fuel].
      assert (C : Lang (Cls [(48, 57)]) [48 + m mod 10]).
      { constructor. apply digit_in. }
      destruct (m <? 10); change (?x :: acc) with ([x] ++ acc); constructor; auto.
    - cbn [to_dec_fuel].
      assert (C : Lang (Cls [(48, 57)]) [48 + m mod 10]).
      { constructor. apply digit_in. }
      destruct (m <? 10).
      + change ((48 + m mod 10) :: acc) with ([48 + m mod 10] ++ acc). constructor; auto.
      + apply IH. change ((48 + m mod 10) :: acc) with ([48 + m mod 10] ++ acc). apply LStarS; auto. }
  unfold p_ONLY_DIGIT_RE, Plus, Opt, Sym.
  rewrite <- (app_nil_r (to_dec n)). constructor.
  - unfold to_dec. apply D. constructor.
  - apply LAltL. constructor.
Qed.

Theorem body_image a c ds p :
  feed_all a ds = Some p -> completed p = true -> error p = None -> empty p = false ->
  body_statement c p.
Proof.
  intros H Hc He Hm.
  destruct (run_accepted _ _ _ H Hc He Hm) as (p0 & p1 & hp & AR).
  destruct (parse_header_ok _ _ _ _ (ar_parse _ _ _ _ _ _ AR)) as (fl & lines & h1 & AH).
  unfold body_statement. cbv zeta.
  rewrite eget_wsgi_input, eget_content_length, eget_transfer_encoding.
  split; [reflexivity|].
  pose proof (final_headers _ _ _ _ _ _ _ _ _ AR AH) as FH.
  destruct AR as [F _ _ R C L B]. destruct AH as [_ _ AL _ _ _ _ _ AF].
  destruct F as (Fh & Fb & Fc & Fl & _).
  assert (V : version p = version p1) by (unfold reqline in R; congruence).
  assert (TE : version p = s_1_1 -> option_map VStr (hget (headers p) s_TRANSFER_ENCODING) = None).
  { intro E. rewrite (FH s_TRANSFER_ENCODING), E. reflexivity. }
  unfold get_body_stream.
  destruct AF as [(Ac & Av & Ab & Ah & _)|(Ac & Ah & Acl)].
  - (* chunked *)
    destruct (body p) as [[f|cr]|].
    + destruct B as (X & _). congruence.
    + destruct B as (_ & Bh).
      split; [|split; [exact TE|congruence]].
      rewrite Bh, hget_hset, beqb_refl. cbn [option_map body_bytes].
      split; [apply gate_content_length_to_dec|]. split; [apply dec_value_to_dec|reflexivity].
    + destruct B as (X & _). congruence.
  - specialize (Acl Fc). cbv zeta in Acl. destruct Acl as (Am & Al & Ab).
    assert (Cf : chunked p = false) by congruence.
    assert (Bh : headers p = headers p1).
    { destruct (body p) as [[f|cr]|]; [tauto| |tauto]. destruct B as (X & _). congruence. }
    split; [|split; [exact TE|congruence]].
    rewrite Bh. unfold hget_default in *.
    destruct (body p) as [[f|cr]|].
    + destruct B as (_ & _ & Blen & Bpos). cbn [body_bytes].
      destruct (hget (headers p1) s_CONTENT_LENGTH) as [cl|]; cbn [option_map].
      * split; [exact Am|]. split; [congruence|]. congruence.
      * rewrite Al in Bpos. cbn in Bpos. lia.
    + destruct B as (X & _). congruence.
    + destruct B as (Bn & _). rewrite Bn in Ab.
      destruct (hget (headers p1) s_CONTENT_LENGTH) as [cl|]; cbn [option_map].
      * split; [exact Am|]. split; [|congruence].
        destruct (0 <? dec_value cl) eqn:E; [discriminate|]. apply N.ltb_ge in E. unfold lenN. cbn. lia.
      * auto.
Qed.

(* ------------------------------------------------------------------ *)
(* the request-line entries *)

Definition target_statement (c : config) (p : parser) : Prop :=
  let env := get_environment c p in
  eget env k_REQUEST_METHOD = Some (VStr (command p)) /\
  eget env k_REQUEST_URI = Some (VStr (request_uri p)) /\
  eget env k_SCRIPT_NAME = Some (VStr (url_prefix c)) /\
  (version p = s_1_0 \/ version p = s_1_1 ->
   eget env k_SERVER_PROTOCOL = Some (VStr (k_HTTPslash ++ version p))) /\
  (wf_target (request_uri p) ->
   eget env k_PATH_INFO =
     Some (VStr (path_info (url_prefix c) (collapse (pct_decode (raw_path (request_uri p)))))) /\
   eget env k_QUERY_STRING = Some (VStr (raw_query (request_uri p)))).

(* how the pieces sit in the request line: method, SP, target and then nothing
   or SP and the version token *)
Definition request_line_pieces (fl cmd uri ver : bytes) : Prop :=
  cmd = until (N.eqb 32) fl /\ cmd <> [] /\
  Forall (fun x => 33 <= x <= 126 /\ ~ (97 <= x <= 122)) cmd /\
  ((fl = cmd ++ [32] ++ uri /\ ver = []) \/
   (exists v, fl = cmd ++ [32] ++ uri ++ [32] ++ v /\ ver = skipn 5 v)).

Theorem target_image a c ds p :
  Forall ok ds ->
  feed_all a ds = Some p -> completed p = true -> error p = None -> empty p = false ->
  target_statement c p /\
  exists hp fl lines, head_of ds hp /\ head_lines hp fl lines /\
                      request_line_pieces fl (command p) (request_uri p) (version p).
Proof.
  intros Hds H Hc He Hm.
  destruct (run_accepted _ _ _ H Hc He Hm) as (p0 & p1 & hp & AR).
  destruct (parse_header_ok _ _ _ _ (ar_parse _ _ _ _ _ _ AR)) as (fl & lines & h1 & AH).
  pose proof (ok_head_of _ _ Hds (ar_head _ _ _ _ _ _ AR)) as Hhp.
  pose proof (ar_reqline _ _ _ _ _ _ AR) as R. unfold reqline in R. injection R as R1 R2 R3 R4 R5 R6.
  assert (Hfl : ok fl).
  { destruct (ah_find _ _ _ _ _ _ _ AH) as (index & _ & -> & _). apply ok_rstrip, ok_firstn, Hhp. }
  destruct (crack_first_line_method _ _ _ _ Hfl (ah_crack _ _ _ _ _ _ _ AH) (ah_crack_ne _ _ _ _ _ _ _ AH))
    as (M1 & M2 & M3).
  split.
  - unfold target_statement. cbv zeta.
    rewrite !no_override by (unfold server_keys; cbn; tauto).
    split. { cbn. rewrite R1. rewrite upper_str_identity by exact M3. reflexivity. }
    split; [reflexivity|]. split; [reflexivity|]. split.
    + intros [E|E]; cbn; unfold task_version; rewrite E; reflexivity.
    + intro W. cbn. rewrite environ_path_spec.
      destruct (ah_split _ _ _ _ _ _ _ AH) as (sc & nl & fr & SP).
      rewrite R3 in W. destruct (split_uri_spec _ _ _ _ _ _ W SP) as (P & Q).
      rewrite R4, R5, R3, P, Q. split; reflexivity.
  - exists hp, fl, lines. split; [exact (ar_head _ _ _ _ _ _ AR)|]. split; [exact (ah_find _ _ _ _ _ _ _ AH)|].
    unfold request_line_pieces. rewrite R1, R2, R3. split; [exact M1|]. split; [exact M2|]. split; [exact M3|].
    exact (crack_first_line_shape _ _ _ _ (ah_crack _ _ _ _ _ _ _ AH) (ah_crack_ne _ _ _ _ _ _ _ AH)).
Qed.
