(* Proof/ChanCloseInv.v -- the invariant of Model/ChanClose.v holds initially and is preserved
   by every step, hence in every reachable state, for every schedule and every lookahead;
   the monitor (the executable form of C11) accepts every trace of the model for the
   decisions of covered kinds. *)
From Coq Require Import List Arith Bool Lia.
From WV Require Import Lib.Conc Model.ChanClose Proof.ChanCloseBase Proof.ChanCloseTok
  Proof.ChanCloseTok2 Proof.ChanCloseSafe.
Import ListNotations.

Lemma Inv_init : forall L, Inv (init L).
Proof.
  intro L. constructor; simpl; unfold tokio; simpl; try tauto; try congruence; try lia;
  try (intros; split; intros; discriminate); try (intros; intuition discriminate).
Qed.

Lemma Inv_step : forall s c s' l, Inv s -> step s c = Some (s', l) -> Inv s'.
Proof.
  intros s c s' l I H. constructor.
  - eapply pres_lock_io; eauto.
  - eapply pres_lock_wk; eauto.
  - eapply pres_lock_sd; eauto.
  - eapply pres_q1; eauto.
  - eapply pres_q_excl; eauto.
  - eapply pres_act_uniq; eauto.
  - eapply pres_act_excl; eauto.
  - eapply pres_tok_sd; eauto.
  - eapply pres_reqs_q; eauto.
  - eapply pres_reqs_io; eauto.
  - eapply pres_reqs_wk; eauto.
  - eapply pres_reqs_sd; eauto.
  - eapply pres_m2; eauto.
  - eapply pres_appx; eauto.
  - eapply pres_mret; eauto.
  - eapply pres_cwf; eauto.
  - eapply pres_safe; eauto.
  - eapply pres_late; eauto.
  - eapply pres_late_b; eauto.
Qed.

Theorem Inv_run : forall L sched, Inv (run step (init L) sched).
Proof.
  intros L sched. apply (invariant_rule _ _ _ step Inv).
  - apply Inv_init.
  - intros; eapply Inv_step; eauto.
Qed.

(* ---- the monitor ------------------------------------------------------------------------ *)
Definition early_sid (p : wpc) : option (nat * bool) :=
  match p with
  | WSvc0 k lt => Some (k, lt)
  | WSvc1 k lt _ => Some (k, lt)
  | WSvc1b k lt _ => Some (k, lt)
  | _ => None
  end.

Definition mrun (good : dkind -> bool) (tr : list label) (m : mon) : mon := fold_left (mon_step good) tr m.

Record TInv (s : state) (m : mon) : Prop := mkTInv {
  t_dec : m_dec m = gdec s;
  t_ok : m_ok m = true;
  t_notlate : forall w k, early_sid (wk s w) = Some (k, false) -> mem k (m_late m) = false;
  t_started : forall w k lt, early_sid (wk s w) = Some (k, lt) -> mem k (m_started m) = true;
  t_fresh : forall k, mem k (m_started m) = true -> k < nsvc s;
  t_late_fresh : forall k, mem k (m_late m) = true -> k < nsvc s
}.

Lemma mem_cons : forall k x l, mem k (x :: l) = (k =? x) || mem k l.
Proof. reflexivity. Qed.
Local Arguments mem : simpl never.

Lemma TInv_init : forall L, TInv (init L) mon0.
Proof. intro L. constructor; simpl; intros; try reflexivity; try discriminate. Qed.

Lemma mem_fresh_false : forall n l, (forall k, mem k l = true -> k < n) -> mem n l = false.
Proof.
  intros n l F. destruct (mem n l) eqn:E; auto. apply F in E. lia.
Qed.

(* a step of worker w that emits neither ServiceStart nor AppCall and leaves w outside the
   early phase, or in it with the same invocation id *)
Ltac t_generic TD TO TN TS TF TL w :=
  constructor; simpl;
  [ first [reflexivity | rewrite TD; reflexivity | exact TD]
  | exact TO
  | let w1 := fresh "w1" in let k1 := fresh "k1" in
    intros w1 k1; destruct (Nat.eqb_spec w1 w); simpl; [subst w1; try discriminate | apply TN]
  | let w1 := fresh "w1" in let k1 := fresh "k1" in let lt1 := fresh "lt1" in
    intros w1 k1 lt1; destruct (Nat.eqb_spec w1 w); simpl; [subst w1; try discriminate | apply TS]
  | exact TF
  | exact TL ].

Lemma TInv_step : forall s m c s' l, Inv s -> TInv s m -> step s c = Some (s', l) ->
  TInv s' (mrun covered l m).
Proof.
  intros s m c s' l I T H. destruct T as [TD TO TN TS TF TL].
  destruct c as [e|w e|]; simpl in H.
  - io_cases H; unfold mrun; unf; simpl; orbs; constructor; simpl; auto; rewrite TD; reflexivity.
  - pose proof (i_late_b s I w) as LT.
    pose proof (mem_fresh_false _ _ TF) as FR. pose proof (mem_fresh_false _ _ TL) as FRL.
    pose proof (TN w) as TNw. pose proof (TS w) as TSw.
    wk_cases H; unfold mrun; unf; simpl; orbs; rewrite ?Heqw0 in *; simpl in *.
    all: try solve [t_generic TD TO TN TS TF TL w].
    all: try solve [constructor; auto].
    + (* WPopped: service() is entered *)
      constructor; simpl.
      * exact TD.
      * rewrite TO, FR. reflexivity.
      * intros w1 k1. destruct (Nat.eqb_spec w1 w); simpl.
        -- intro E. injection E as <- G. rewrite TD, G. exact FRL.
        -- intro E. pose proof (TN w1 k1 E) as A. pose proof (TF k1 (TS w1 k1 false E)) as B.
           destruct (m_dec m); auto. rewrite mem_cons, A.
           destruct (Nat.eqb_spec k1 (nsvc s)); [lia|reflexivity].
      * intros w1 k1 lt1. rewrite mem_cons. destruct (Nat.eqb_spec w1 w); simpl.
        -- intro E. injection E as <- _. rewrite Nat.eqb_refl. reflexivity.
        -- intro E. rewrite (TS w1 k1 lt1 E). apply orb_true_r.
      * intros k Hk. rewrite mem_cons in Hk. destruct (Nat.eqb_spec k (nsvc s)); [lia|].
        simpl in Hk. apply TF in Hk. lia.
      * intros k Hk. destruct (m_dec m); [|apply TL in Hk; lia].
        rewrite mem_cons in Hk. destruct (Nat.eqb_spec k (nsvc s)); [lia|].
        simpl in Hk. apply TL in Hk. lia.
    + (* WSvc0 -> WSvc1: same invocation *)
      constructor; simpl; auto.
      * intros w1 k1. destruct (Nat.eqb_spec w1 w); simpl; [subst w1; apply TNw | apply TN].
      * intros w1 k1 lt1. destruct (Nat.eqb_spec w1 w); simpl; [subst w1; apply TSw | apply TS].
    + (* WSvc1 -> WSvc1b: same invocation *)
      constructor; simpl; auto.
      * intros w1 k1. destruct (Nat.eqb_spec w1 w); simpl; [subst w1; apply TNw | apply TN].
      * intros w1 k1 lt1. destruct (Nat.eqb_spec w1 w); simpl; [subst w1; apply TSw | apply TS].
    + (* WSvc1b, will_close not set, a valid request: the application is called *)
      assert (late = false) by (destruct late; auto; simpl in LT; specialize (LT eq_refl); congruence).
      subst late.
      constructor; simpl; auto.
      * rewrite TO, (TSw sid false eq_refl), (TNw sid eq_refl). reflexivity.
      * intros w1 k1. destruct (Nat.eqb_spec w1 w); simpl; [discriminate | apply TN].
      * intros w1 k1 lt1. destruct (Nat.eqb_spec w1 w); simpl; [discriminate | apply TS].
  - sd_cases H; unfold mrun; unf; simpl; orbs; constructor; simpl; auto; rewrite TD; reflexivity.
Qed.

Lemma mrun_app : forall good a b m, mrun good (a ++ b) m = mrun good b (mrun good a m).
Proof. intros. unfold mrun. apply fold_left_app. Qed.

Theorem monitor_accepts : forall L sched,
  monitor covered (trace step (init L) sched) = true.
Proof.
  intros L sched.
  pose proof (invariant_rule_tr _ _ _ step
    (fun s tr => Inv s /\ TInv s (mrun covered tr mon0)) (init L)) as R.
  destruct (R (conj (Inv_init L) (TInv_init L))) with (sched := sched) as [_ T].
  - intros s tr c s' l [I T] H. split.
    + eapply Inv_step; eauto.
    + rewrite mrun_app. eapply TInv_step; eauto.
  - apply (t_ok _ _ T).
Qed.

(* ---- what an accepted trace means, by positions ----------------------------------------- *)
Section MonitorSound.
  Variable good : dkind -> bool.

  Lemma ok_step_false : forall m x, m_ok m = false -> m_ok (mon_step good m x) = false.
  Proof. intros m x H. destruct x; simpl; auto; rewrite H; reflexivity. Qed.

  Lemma ok_sticky : forall tr m, m_ok m = false -> m_ok (mrun good tr m) = false.
  Proof.
    induction tr as [|x tr IH]; intros m H; simpl; auto.
    apply IH. destruct x; simpl; auto; rewrite H; reflexivity.
  Qed.

  Lemma dec_mono : forall tr m, m_dec m = true -> m_dec (mrun good tr m) = true.
  Proof.
    induction tr as [|x tr IH]; intros m H; simpl; auto.
    apply IH. destruct x; simpl; auto; rewrite H; reflexivity.
  Qed.

  Lemma started_mono : forall tr m k, mem k (m_started m) = true -> mem k (m_started (mrun good tr m)) = true.
  Proof.
    induction tr as [|x tr IH]; intros m k H; simpl; auto.
    apply IH. destruct x; simpl; auto. rewrite mem_cons, H. apply orb_true_r.
  Qed.

  Lemma late_mono : forall tr m k, mem k (m_late m) = true -> mem k (m_late (mrun good tr m)) = true.
  Proof.
    induction tr as [|x tr IH]; intros m k H; simpl; auto.
    apply IH. destruct x; simpl; auto. destruct (m_dec m); auto. rewrite mem_cons, H. apply orb_true_r.
  Qed.

  Lemma mem_refl : forall k l, mem k (k :: l) = true.
  Proof. intros. rewrite mem_cons, Nat.eqb_refl. reflexivity. Qed.

  (* an application call of invocation k somewhere in tr, processed from m, with k late *)
  Lemma app_late_fails : forall tr m k r,
    In (LAppCall k r) tr -> mem k (m_late m) = true -> m_ok (mrun good tr m) = false.
  Proof.
    intros tr m k r HI HL. apply in_split in HI. destruct HI as (t1 & t2 & ->).
    rewrite mrun_app. simpl. apply ok_sticky. simpl.
    rewrite (late_mono t1 m k HL). simpl. apply andb_false_r.
  Qed.

  (* an application call of invocation k before invocation k is started *)
  Lemma mrun_cons : forall x t m, mrun good (x :: t) m = mrun good t (mon_step good m x).
  Proof. reflexivity. Qed.

  (* an application call of invocation k before invocation k is started *)
  Lemma app_before_start_fails : forall t1 t2 m k r,
    In (LAppCall k r) t1 -> m_ok (mrun good (t1 ++ LServiceStart k :: t2) m) = false.
  Proof.
    intros t1 t2 m k r HI. apply in_split in HI. destruct HI as (a & b & ->).
    rewrite <- app_assoc, mrun_app. rewrite <- app_comm_cons, mrun_cons, mrun_app, mrun_cons.
    set (m0 := mrun good a m).
    destruct (mem k (m_started m0)) eqn:E.
    - (* k was started before: the second start is refused *)
      set (m1 := mon_step good m0 (LAppCall k r)).
      assert (E1 : mem k (m_started m1) = true) by (unfold m1; simpl; exact E).
      pose proof (started_mono b m1 k E1) as E2.
      apply ok_sticky. simpl. rewrite E2. simpl. apply andb_false_r.
    - apply ok_sticky.
      assert (F : m_ok (mrun good b (mon_step good m0 (LAppCall k r))) = false).
      { apply ok_sticky. simpl. rewrite E. rewrite andb_false_r. reflexivity. }
      apply ok_step_false. exact F.
  Qed.

  Theorem monitor_sound : forall tr, monitor good tr = true ->
    forall i j kd k, nth_error tr i = Some (LDecide kd) -> good kd = true ->
      nth_error tr j = Some (LServiceStart k) -> i < j ->
      forall r, ~ In (LAppCall k r) tr.
  Proof.
    intros tr M i j kd k Hi G Hj Lt r HA.
    unfold monitor in M. fold (mrun good tr mon0) in M.
    apply nth_error_split in Hi. destruct Hi as (a & b & -> & La).
    assert (Hj' : nth_error b (j - i - 1) = Some (LServiceStart k)).
    { rewrite nth_error_app2 in Hj by lia. rewrite La in Hj.
      replace (j - i) with (S (j - i - 1)) in Hj by lia. exact Hj. }
    apply nth_error_split in Hj'. destruct Hj' as (b1 & b2 & -> & _).
    (* tr = a ++ D :: b1 ++ S :: b2 *)
    assert (HA' : In (LAppCall k r) (a ++ LDecide kd :: b1) \/ In (LAppCall k r) b2).
    { apply in_app_or in HA. destruct HA as [HA|[HA|HA]]; [left; apply in_or_app; auto | discriminate |].
      apply in_app_or in HA. destruct HA as [HA|[HA|HA]]; [| discriminate | right; exact HA].
      left. apply in_or_app. right. right. exact HA. }
    replace (a ++ LDecide kd :: b1 ++ LServiceStart k :: b2)
      with ((a ++ LDecide kd :: b1) ++ LServiceStart k :: b2) in M
      by (rewrite <- app_assoc; reflexivity).
    destruct HA' as [HA'|HA'].
    - rewrite (app_before_start_fails _ _ _ _ _ HA') in M. discriminate.
    - rewrite mrun_app, mrun_cons in M.
      assert (D : m_dec (mrun good (a ++ LDecide kd :: b1) mon0) = true).
      { rewrite mrun_app, mrun_cons. apply dec_mono. simpl. rewrite G. apply orb_true_r. }
      erewrite app_late_fails in M; [discriminate | exact HA' |].
      simpl. rewrite D. apply mem_refl.
  Qed.
End MonitorSound.

(* C11 for the decisions of covered kinds, by positions in the trace *)
Theorem C11_partial_positions : forall L sched i j kd k,
  let tr := trace step (init L) sched in
  nth_error tr i = Some (LDecide kd) -> covered kd = true ->
  nth_error tr j = Some (LServiceStart k) -> i < j ->
  forall r, ~ In (LAppCall k r) tr.
Proof.
  intros L sched i j kd k tr. apply (monitor_sound covered tr (monitor_accepts L sched)).
Qed.

(* ---- the supporting invariants, as statements about every reachable state ----------------- *)
Theorem one_worker_in_service : forall L sched w1 w2,
  let s := run step (init L) sched in
  active (wk s w1) = true -> active (wk s w2) = true -> w1 = w2.
Proof. intros L sched w1 w2 s. apply (i_act_uniq s (Inv_run L sched)). Qed.

Theorem entry_excludes_service : forall L sched,
  let s := run step (init L) sched in
  queue s <= 1 /\
  (queue s = 1 -> reqs s <> [] /\ (forall w, active (wk s w) = false) /\ ~ tokio s /\ sd s = SdIdle).
Proof.
  intros L sched s. pose proof (Inv_run L sched) as I. fold s in I. split.
  - apply (i_q1 s I).
  - intro Q. split; [apply (i_reqs_q s I Q) | apply (i_q_excl s I Q)].
Qed.

Theorem requests_lock_exclusive : forall L sched,
  let s := run step (init L) sched in
  (rlock s = Some ByIO <-> io_holds (io s) = true) /\
  (forall w, rlock s = Some (ByW w) <-> wk_holds (wk s w) = true).
Proof.
  intros L sched s. pose proof (Inv_run L sched) as I. fold s in I. split.
  - apply (i_lock_io s I).
  - apply (i_lock_wk s I).
Qed.
