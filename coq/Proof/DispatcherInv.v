(* Proof/DispatcherInv.v -- the inductive invariant of Model/Dispatcher.v.
   Three groups, each preserved by every step:
     InvA  structure: threads = live workers, waiter list = workers at WWait,
           lock held iff shutdown is in its cancel loop, xwait iff SdWaiting
     InvB  counting: stop/notify protocol, requested count, active_count
     InvC  ledger: queue = [taken, next), per-task class/counters, snapshot *)
From Coq Require Import List Arith ZArith Bool Lia.
From WV Require Import Model.Dispatcher Proof.DispatcherLib.
Import ListNotations.

Record InvA (s : state) : Prop := {
  A_ths : map fst (workers s) = threads s;
  A_nodup : NoDup (threads s);
  A_qw_nodup : NoDup (qwait s);
  A_qw : forall w, In w (qwait s) <-> In (w, WWait) (workers s);
  A_lock1 : sd s = SdCancel -> lock s = Some OShutdown;
  A_lock2 : sd s <> SdCancel -> lock s = None;
  A_xw : xwait s = true <-> sd s = SdWaiting
}.

Lemma InvA_init : InvA init.
Proof.
  constructor; simpl; auto; try constructor; try tauto; try discriminate.
Qed.

Lemma nodup_ws : forall s, InvA s -> NoDup (map fst (workers s)).
Proof. intros s H. rewrite (A_ths s H). apply (A_nodup s H). Qed.

Lemma free_true : forall s, free s = true -> lock s = None.
Proof. unfold free. intros s. destruct (lock s); auto; discriminate. Qed.

Ltac inv H := inversion H; subst; clear H.

(* ---- group A ------------------------------------------------------------------- *)

Lemma notify_q_A : forall k s s' l, InvA s -> notify_q k s = Some (s', l) -> InvA s'.
Proof.
  intros k s s' l I H. unfold notify_q in H.
  destruct (qwait s) as [|q0 qr] eqn:Eq.
  - inv H. auto.
  - destruct (nth_error (q0 :: qr) k) as [w|] eqn:En; [|discriminate]. inv H.
    rewrite <- Eq in *.
    destruct I. constructor; simpl; auto.
    + rewrite map_fst_set_pc; auto.
    + apply NoDup_remove_nth; auto.
    + intros v. rewrite (In_remove_nth (qwait s) k w v A_qw_nodup0 En).
      rewrite In_set_pc. rewrite A_qw0. split.
      * intros [Hne Hin]. right; auto.
      * intros [[_ [Hd _]]|[Hne Hin]]; [discriminate|auto].
Qed.

Lemma with_queue_ledger_A : forall s q led,
  InvA s ->
  InvA (mkState q (threads s) (stop_count s) (active_count s) (lock s) (qwait s) (xwait s)
          (workers s) (sd s) (sd_cancel s) led (requested s) (taken s) (sd_snap s)).
Proof. intros s q led I. destruct I. constructor; simpl; auto. Qed.

Lemma do_add_A : forall b k s s' l, InvA s -> do_add b k s = Some (s', l) -> InvA s'.
Proof.
  intros b k s s' l I H. unfold do_add in H.
  match type of H with match notify_q k ?s1 with _ => _ end = _ =>
    destruct (notify_q k s1) as [[s2 l2]|] eqn:E; [|discriminate];
    inv H; eapply notify_q_A; [|exact E] end.
  apply with_queue_ledger_A; auto.
Qed.

Lemma do_resize_A : forall n s s' l, InvA s -> do_resize n s = (s', l) -> InvA s'.
Proof.
  intros n s s' l I H. unfold do_resize in H.
  destruct (length (threads s) - stop_count s <? n) eqn:E1.
  - destruct (spawn (n - (length (threads s) - stop_count s)) 0 (threads s) (workers s) (active_count s) [])
      as [[[ths ws] act] ls] eqn:Es.
    inv H. apply spawn_spec in Es; [|apply (A_nodup s I)].
    destruct Es as [new [H1 [H2 [H3 [H4 [H5 H6]]]]]]. subst.
    destruct I. constructor; simpl; auto.
    + rewrite map_app, map_map. simpl. rewrite map_id. congruence.
    + intros w. rewrite A_qw0. rewrite in_app_iff. split; auto.
      intros [Hin|Hin]; auto. apply in_map_iff in Hin. destruct Hin as [x [Hx _]]. discriminate.
  - destruct (n <? length (threads s) - stop_count s) eqn:E2; inv H.
    + destruct I. constructor; simpl; auto.
      * rewrite map_fst_wake_all; auto.
      * constructor.
      * intros w. rewrite In_wake_all. split; [tauto|].
        intros [[Hd _]|[Hd _]]; [discriminate|congruence].
    + destruct I. constructor; simpl; auto.
Qed.

Lemma do_resize_frame : forall n s s' l, do_resize n s = (s', l) ->
  sd s' = sd s /\ lock s' = lock s /\ xwait s' = xwait s /\ queue s' = queue s /\
  ledger s' = ledger s /\ taken s' = taken s /\ sd_snap s' = sd_snap s /\
  sd_cancel s' = sd_cancel s /\ requested s' = n.
Proof.
  intros n s s' l H. unfold do_resize in H.
  destruct (length (threads s) - stop_count s <? n).
  - destruct (spawn (n - (length (threads s) - stop_count s)) 0 (threads s) (workers s) (active_count s) [])
      as [[[ths ws] act] ls]. inv H. simpl. repeat split; auto.
  - destruct (n <? length (threads s) - stop_count s); inv H; simpl; repeat split; auto.
Qed.

Definition exit_state (w : nat) (act : Z) (st : nat) (s : state) : state :=
  mkState (queue s) (discard w (threads s)) st act (lock s)
    (qwait s) false (del_w w (workers s))
    (if xwait s then SdAcq else sd s) (sd_cancel s) (ledger s) (requested s) (taken s) (sd_snap s).

Lemma exit_A : forall w pc act st s,
  InvA s -> In (w, pc) (workers s) -> pc <> WWait -> lock s = None -> InvA (exit_state w act st s).
Proof.
  intros w pc act st s I Hin Hpc Hfree.
  pose proof (nodup_ws s I) as Hnd.
  assert (Hnw : ~ In w (qwait s)).
  { rewrite (A_qw s I). intro Hc. apply Hpc. eapply In_unique; eauto. }
  destruct I. unfold exit_state. constructor; simpl.
  - rewrite map_fst_del_w. congruence.
  - apply NoDup_discard; auto.
  - auto.
  - intros v. rewrite In_del_w, A_qw0. split.
    + intros Hv. split; auto. intro; subst. apply Hnw. apply A_qw0; auto.
    + tauto.
  - destruct (xwait s) eqn:Ex; [discriminate|auto].
  - intros _. exact Hfree.
  - split; [discriminate|]. destruct (xwait s) eqn:Ex; [discriminate|].
    intros Hs. apply A_xw0 in Hs. discriminate.
Qed.

Lemma do_work_A : forall w pc s s' l,
  InvA s -> In (w, pc) (workers s) -> pc <> WWait -> lock s = None ->
  do_work w pc s = Some (s', l) -> InvA s'.
Proof.
  intros w pc s s' l I Hin Hpc Hfree H. unfold do_work in H.
  pose proof (nodup_ws s I) as Hnd.
  assert (Hnw : ~ In w (qwait s)).
  { rewrite (A_qw s I). intro Hc. apply Hpc. eapply In_unique; eauto. }
  destruct (stop_count s) as [|st] eqn:Est.
  - destruct (queue s) as [|t q] eqn:Eq; inv H.
    + (* park *)
      destruct I. constructor; simpl; auto.
      * rewrite map_fst_set_pc; auto.
      * apply NoDup_snoc; auto.
      * intros v. rewrite in_app_iff, In_set_pc, A_qw0. simpl. split.
        -- intros [Hv|[Hv|[]]].
           ++ right. split; auto. intro; subst. apply Hnw. apply A_qw0; auto.
           ++ subst. left. repeat split; auto. eapply In_fst; eauto.
        -- intros [[Hv _]|[Hne Hv]]; subst; auto.
    + (* pop *)
      destruct I. constructor; simpl; auto.
      * rewrite map_fst_set_pc; auto.
      * intros v. rewrite In_set_pc, A_qw0. split.
        -- intros Hv. right. split; auto. intro; subst. apply Hnw. apply A_qw0; auto.
        -- intros [[_ [Hd _]]|[_ Hv]]; [discriminate|auto].
  - assert (E : s' = exit_state w (match pc with WNotified => (active_count s + 1)%Z | _ => active_count s end - 1)%Z st s).
    { destruct (queue s) eqn:Eq; inv H; unfold exit_state; rewrite Eq; reflexivity. }
    subst s'. eapply exit_A; eauto.
Qed.

Lemma do_finish_A : forall w t r s s' l,
  InvA s -> In (w, WRun t) (workers s) -> do_finish w t r s = (s', l) -> InvA s'.
Proof.
  intros w t r s s' l I Hin H. unfold do_finish in H. inv H.
  pose proof (nodup_ws s I) as Hnd.
  destruct I. constructor; simpl; auto.
  - rewrite map_fst_set_pc; auto.
  - intros v. rewrite In_set_pc, A_qw0. split.
    + intros Hv. right. split; auto. intro; subst.
      assert (WWait = WRun t) by (eapply In_unique; eauto). discriminate.
    + intros [[_ [Hd _]]|[_ Hv]]; [discriminate|auto].
Qed.

Lemma set_sd_A : forall s pc lk xw snap, InvA s ->
  (pc = SdCancel -> lk = Some OShutdown) -> (pc <> SdCancel -> lk = None) ->
  (xw = true <-> pc = SdWaiting) ->
  InvA (set_sd s pc lk xw snap).
Proof.
  intros s pc lk xw snap I H1 H2 H3. destruct I. unfold set_sd. constructor; simpl; auto.
Qed.

Lemma do_sd_A : forall e s s' l, InvA s -> do_sd e s = Some (s', l) -> InvA s'.
Proof.
  intros e s s' l I H. unfold do_sd in H.
  destruct (sd s) eqn:Esd; try discriminate.
  - (* SdAcq *)
    destruct (free s) eqn:Ef; [|discriminate]. apply free_true in Ef.
    assert (L : forall ls r, (if sd_cancel s
                 then Some (set_sd s SdCancel (Some OShutdown) false (queue s), ls)
                 else Some (set_sd s (SdDone false) None false (sd_snap s), ls ++ [LSdReturn false])) = Some r ->
                 InvA (fst r)).
    { intros ls r Hr. destruct (sd_cancel s); inv Hr; simpl; apply set_sd_A; auto;
        try (intros; discriminate); try (split; discriminate); try congruence. }
    destruct (threads s) eqn:Et.
    + apply L in H. auto.
    + destruct e.
      * apply L in H. auto.
      * inv H. apply set_sd_A; auto; try (intros; discriminate). tauto.
  - (* SdWaiting *)
    inv H. apply set_sd_A; auto; try (intros; discriminate).
    + intros _. apply (A_lock2 s I). congruence.
    + split; discriminate.
  - (* SdCancel *)
    destruct (queue s) eqn:Eq; inv H.
    + destruct I. constructor; simpl.
      * rewrite map_fst_wake_all; auto.
      * auto.
      * constructor.
      * intros w. rewrite In_wake_all. split; [tauto|].
        intros [[Hd _]|[Hd _]]; [discriminate|congruence].
      * discriminate.
      * auto.
      * rewrite A_xw0. rewrite Esd. split; discriminate.
    + destruct I. constructor; simpl; auto.
      rewrite A_xw0. rewrite Esd. split; discriminate.
Qed.

Theorem step_A : forall s c s' l, InvA s -> step s c = Some (s', l) -> InvA s'.
Proof.
  intros s c s' l I H. pose proof (nodup_ws s I) as Hnd.
  destruct c; simpl in H.
  - destruct (free s); [|discriminate]. eapply do_add_A; eauto.
  - destruct (free s); [|discriminate]. inv H. eapply do_resize_A; eauto.
  - destruct (free s) eqn:Ef; [|discriminate]. apply free_true in Ef.
    destruct (get_pc w (workers s)) as [pc|] eqn:Eg; [|discriminate].
    apply get_pc_In in Eg; auto.
    destruct pc; try discriminate; eapply do_work_A; eauto; discriminate.
  - destruct (free s); [|discriminate].
    destruct (get_pc w (workers s)) as [[]|]; try discriminate. eapply do_add_A; eauto.
  - destruct (get_pc w (workers s)) as [pc|] eqn:Eg; [|discriminate].
    apply get_pc_In in Eg; auto. destruct pc; try discriminate. inv H.
    eapply (do_finish_A w t raised s); eauto. reflexivity.
  - destruct (free s) eqn:Ef; [|discriminate]. destruct (sd s) eqn:Esd; try discriminate.
    destruct (do_resize 0 s) as [s1 ls] eqn:Er. inv H.
    destruct (do_resize_frame _ _ _ _ Er) as [F1 [F2 [F3 _]]].
    apply do_resize_A in Er; auto.
    destruct Er. constructor; simpl; auto; try discriminate.
    + intros _. rewrite F2. apply free_true; auto.
    + rewrite F3. rewrite (A_xw s I). rewrite Esd. split; discriminate.
  - eapply do_sd_A; eauto.
Qed.

(* ---- group B ------------------------------------------------------------------- *)

Record InvB (s : state) : Prop := {
  B_stop : stop_count s > 0 -> qwait s = [];
  B_wake : qwait s <> [] -> length (queue s) <= cnt is_notified (workers s);
  B_req : length (threads s) = requested s + stop_count s;
  B_act : active_count s = Z.of_nat (cnt is_active (workers s))
}.

Lemma InvB_init : InvB init.
Proof. constructor; simpl; auto. Qed.

Lemma cnt_new : forall p (new : list nat),
  cnt p (map (fun x => (x, WAcq)) new) = if p WAcq then length new else 0.
Proof.
  induction new; simpl. destruct (p WAcq); auto.
  rewrite cnt_cons. rewrite IHnew. destruct (p WAcq); simpl; auto.
Qed.

Lemma do_add_B : forall b k s s' l, InvA s -> InvB s -> do_add b k s = Some (s', l) -> InvB s'.
Proof.
  intros b k s s' l IA IB H. unfold do_add, notify_q in H. simpl in H.
  destruct (qwait s) as [|q0 qr] eqn:Eq.
  - inv H. destruct IB. constructor; simpl; auto. congruence.
  - destruct (nth_error (q0 :: qr) k) as [w|] eqn:En; [|discriminate]. inv H.
    rewrite <- Eq in *.
    assert (Hw : In (w, WWait) (workers s)).
    { apply (A_qw s IA). eapply nth_error_In; eauto. }
    pose proof (nodup_ws s IA) as Hnd.
    pose proof (cnt_set_pc is_notified w WNotified WWait (workers s) Hnd Hw) as C1.
    pose proof (cnt_set_pc is_active w WNotified WWait (workers s) Hnd Hw) as C2.
    simpl in C1, C2.
    assert (Hne : qwait s <> []) by (rewrite Eq; discriminate).
    destruct IB. constructor; simpl; auto.
    + intros Hs. apply B_stop0 in Hs. congruence.
    + intros _. rewrite app_length. simpl. specialize (B_wake0 Hne). lia.
    + rewrite B_act0. f_equal. lia.
Qed.

Lemma do_resize_B : forall n s s' l, InvA s -> InvB s -> do_resize n s = (s', l) -> InvB s'.
Proof.
  intros n s s' l IA IB H. unfold do_resize in H.
  destruct (length (threads s) - stop_count s <? n) eqn:E1.
  - destruct (spawn (n - (length (threads s) - stop_count s)) 0 (threads s) (workers s) (active_count s) [])
      as [[[ths ws] act] ls] eqn:Es.
    inv H. apply spawn_spec in Es; [|apply (A_nodup s IA)].
    destruct Es as [new [H1 [H2 [H3 [H4 [H5 H6]]]]]]. subst.
    apply Nat.ltb_lt in E1.
    destruct IB. constructor; simpl; auto.
    + intros Hq. rewrite cnt_app, cnt_new. simpl. specialize (B_wake0 Hq). lia.
    + rewrite app_length. lia.
    + rewrite cnt_app, cnt_new. simpl. rewrite B_act0. rewrite Nat2Z.inj_add. rewrite H3. reflexivity.
  - apply Nat.ltb_ge in E1.
    destruct (n <? length (threads s) - stop_count s) eqn:E2; inv H.
    + apply Nat.ltb_lt in E2. destruct IB. constructor; simpl; auto.
      * intros Hc. congruence.
      * lia.
      * rewrite cnt_wake_all_active. auto.
    + apply Nat.ltb_ge in E2. destruct IB. constructor; simpl; auto. lia.
Qed.

Lemma do_work_B : forall w pc s s' l,
  InvA s -> InvB s -> In (w, pc) (workers s) -> pc = WAcq \/ pc = WNotified ->
  do_work w pc s = Some (s', l) -> InvB s'.
Proof.
  intros w pc s s' l IA IB Hin Hpc H. unfold do_work in H.
  pose proof (nodup_ws s IA) as Hnd.
  assert (Hth : In w (threads s)).
  { rewrite <- (A_ths s IA). eapply In_fst; eauto. }
  destruct IB.
  destruct (stop_count s) as [|st] eqn:Est.
  - destruct (queue s) as [|t q] eqn:Eq; inv H.
    + (* park *)
      pose proof (cnt_set_pc is_active w WWait pc (workers s) Hnd Hin) as C2. simpl in C2.
      constructor; simpl.
      * lia.
      * intros _. lia.
      * lia.
      * rewrite B_act0. destruct Hpc; subst pc; simpl in C2; lia.
    + (* pop *)
      pose proof (cnt_set_pc is_active w (WRun t) pc (workers s) Hnd Hin) as C2.
      pose proof (cnt_set_pc is_notified w (WRun t) pc (workers s) Hnd Hin) as C1.
      simpl in C1, C2.
      constructor; simpl.
      * lia.
      * intros Hq. specialize (B_wake0 Hq). simpl in B_wake0.
        destruct Hpc; subst pc; simpl in C1; lia.
      * lia.
      * rewrite B_act0. destruct Hpc; subst pc; simpl in C2; lia.
  - assert (E : s' = exit_state w (match pc with WNotified => (active_count s + 1)%Z | _ => active_count s end - 1)%Z st s).
    { destruct (queue s) eqn:Eq; inv H; unfold exit_state; rewrite Eq; reflexivity. }
    subst s'. clear H.
    pose proof (cnt_del_w is_active w pc (workers s) Hnd Hin) as C2.
    pose proof (discard_length w (threads s) (A_nodup s IA) Hth) as C3.
    assert (Hq : qwait s = []) by (apply B_stop0; lia).
    unfold exit_state. constructor; simpl.
    + intros _. exact Hq.
    + intros Hc. congruence.
    + lia.
    + rewrite B_act0. destruct Hpc; subst pc; simpl in C2; lia.
Qed.

Lemma do_finish_B : forall w t r s s' l,
  InvA s -> InvB s -> In (w, WRun t) (workers s) -> do_finish w t r s = (s', l) -> InvB s'.
Proof.
  intros w t r s s' l IA IB Hin H. unfold do_finish in H. inv H.
  pose proof (nodup_ws s IA) as Hnd.
  pose proof (cnt_set_pc is_active w WAcq (WRun t) (workers s) Hnd Hin) as C2.
  pose proof (cnt_set_pc is_notified w WAcq (WRun t) (workers s) Hnd Hin) as C1.
  simpl in C1, C2.
  destruct IB. constructor; simpl; auto.
  - intros Hq. specialize (B_wake0 Hq). lia.
  - rewrite B_act0. f_equal. lia.
Qed.

Lemma set_sd_B : forall s pc lk xw snap, InvB s -> InvB (set_sd s pc lk xw snap).
Proof. intros s pc lk xw snap I. destruct I. unfold set_sd. constructor; simpl; auto. Qed.

Lemma do_sd_B : forall e s s' l, InvB s -> do_sd e s = Some (s', l) -> InvB s'.
Proof.
  intros e s s' l I H. unfold do_sd in H.
  destruct (sd s) eqn:Esd; try discriminate.
  - destruct (free s); [|discriminate].
    assert (L : forall ls r, (if sd_cancel s
                 then Some (set_sd s SdCancel (Some OShutdown) false (queue s), ls)
                 else Some (set_sd s (SdDone false) None false (sd_snap s), ls ++ [LSdReturn false])) = Some r ->
                 InvB (fst r)).
    { intros ls r Hr. destruct (sd_cancel s); inv Hr; simpl; apply set_sd_B; auto. }
    destruct (threads s) eqn:Et.
    + apply L in H. auto.
    + destruct e.
      * apply L in H. auto.
      * inv H. apply set_sd_B; auto.
  - inv H. apply set_sd_B; auto.
  - destruct (queue s) eqn:Eq; inv H.
    + destruct I. constructor; simpl; auto.
      * intros Hc. congruence.
      * rewrite cnt_wake_all_active. auto.
    + destruct I. constructor; simpl; auto.
      intros Hq. specialize (B_wake0 Hq). rewrite Eq in B_wake0. simpl in B_wake0. lia.
Qed.

Theorem step_B : forall s c s' l, InvA s -> InvB s -> step s c = Some (s', l) -> InvB s'.
Proof.
  intros s c s' l IA IB H. pose proof (nodup_ws s IA) as Hnd.
  destruct c; simpl in H.
  - destruct (free s); [|discriminate]. eapply do_add_B; eauto.
  - destruct (free s); [|discriminate]. inv H. eapply do_resize_B; eauto.
  - destruct (free s) eqn:Ef; [|discriminate].
    destruct (get_pc w (workers s)) as [pc|] eqn:Eg; [|discriminate].
    apply get_pc_In in Eg; auto.
    destruct pc; try discriminate; eapply do_work_B; eauto.
  - destruct (free s); [|discriminate].
    destruct (get_pc w (workers s)) as [[]|]; try discriminate. eapply do_add_B; eauto.
  - destruct (get_pc w (workers s)) as [pc|] eqn:Eg; [|discriminate].
    apply get_pc_In in Eg; auto. destruct pc; try discriminate. inv H.
    eapply (do_finish_B w t raised s); eauto. reflexivity.
  - destruct (free s) eqn:Ef; [|discriminate]. destruct (sd s) eqn:Esd; try discriminate.
    destruct (do_resize 0 s) as [s1 ls] eqn:Er. inv H.
    apply do_resize_B in Er; auto.
    destruct Er. constructor; simpl; auto.
  - eapply do_sd_B; eauto.
Qed.

(* ---- group C: the ledger --------------------------------------------------------- *)

Definition linfo (s : state) (t : task) : tinfo := nth t (ledger s) ti0.

Definition led_ok_at (led : list tinfo) (tk : nat) (ws : list (nat * wpc)) (t : task) : Prop :=
  let i := nth t led ti0 in
  match ti_st i with
  | Queued => tk <= t /\ ti_svc i = 0 /\ ti_cnc i = 0
  | Running w => t < tk /\ In (w, WRun t) ws /\ ti_svc i = 1 /\ ti_cnc i = 0
  | Done => t < tk /\ ti_svc i = 1 /\ ti_cnc i = 0
  | Cancelled => t < tk /\ ti_svc i = 0 /\ ti_cnc i = 1
  end.

Definition led_ok (s : state) (t : task) : Prop := led_ok_at (ledger s) (taken s) (workers s) t.

Record InvC (s : state) : Prop := {
  C_taken : taken s <= length (ledger s);
  C_queue : queue s = seq (taken s) (length (ledger s) - taken s);
  C_led : forall t, t < length (ledger s) -> led_ok s t;
  C_run : forall w t, In (w, WRun t) (workers s) ->
            t < length (ledger s) /\ ti_st (linfo s t) = Running w
}.

Lemma InvC_init : InvC init.
Proof.
  constructor; simpl; auto.
  - intros t H. lia.
  - intros w t [].
Qed.

Definition same_runs (ws ws' : list (nat * wpc)) : Prop :=
  forall v t, In (v, WRun t) ws <-> In (v, WRun t) ws'.

Lemma same_runs_refl : forall ws, same_runs ws ws.
Proof. intros ws v t. tauto. Qed.

Lemma same_runs_set_pc : forall ws w old pc,
  NoDup (map fst ws) -> In (w, old) ws -> (forall t, old <> WRun t) -> (forall t, pc <> WRun t) ->
  same_runs ws (set_pc w pc ws).
Proof.
  intros ws w old pc Hnd Hin Ho Hp v t. rewrite In_set_pc. split.
  - intros Hv. right. split; auto. intro; subst v.
    apply (Ho t). eapply In_unique; eauto.
  - intros [[_ [Hd _]]|[_ Hv]]; auto. exfalso. eapply Hp; eauto.
Qed.

Lemma same_runs_del_w : forall ws w old,
  NoDup (map fst ws) -> In (w, old) ws -> (forall t, old <> WRun t) -> same_runs ws (del_w w ws).
Proof.
  intros ws w old Hnd Hin Ho v t. rewrite In_del_w. split.
  - intros Hv. split; auto. intro; subst v. apply (Ho t). eapply In_unique; eauto.
  - tauto.
Qed.

Lemma same_runs_wake_all : forall ws, same_runs ws (wake_all ws).
Proof.
  intros ws v t. rewrite In_wake_all. split.
  - intros Hv. right. split; auto. discriminate.
  - intros [[Hd _]|[_ Hv]]; auto. discriminate.
Qed.

Lemma same_runs_new : forall ws (new : list nat), same_runs ws (ws ++ map (fun x => (x, WAcq)) new).
Proof.
  intros ws new v t. rewrite in_app_iff. split; auto.
  intros [Hv|Hv]; auto. apply in_map_iff in Hv. destruct Hv as [x [Hx _]]. discriminate.
Qed.

Lemma InvC_frame : forall s s',
  InvC s -> ledger s' = ledger s -> taken s' = taken s -> queue s' = queue s ->
  same_runs (workers s) (workers s') -> InvC s'.
Proof.
  intros s s' I Hl Ht Hq Hr. destruct I.
  constructor; unfold led_ok, linfo in *; rewrite ?Hl, ?Ht, ?Hq; auto.
  - intros t Hlt. specialize (C_led0 t Hlt). unfold led_ok_at in *.
    destruct (ti_st (nth t (ledger s) ti0)); auto.
    destruct C_led0 as [H1 [H2 H3]]. split; auto. split; auto. apply Hr; auto.
  - intros w t Hin. apply Hr in Hin. auto.
Qed.

Lemma notify_q_frame : forall k s s' l, InvA s -> notify_q k s = Some (s', l) ->
  ledger s' = ledger s /\ taken s' = taken s /\ queue s' = queue s /\
  same_runs (workers s) (workers s') /\ sd s' = sd s /\ sd_snap s' = sd_snap s.
Proof.
  intros k s s' l IA H. unfold notify_q in H.
  destruct (qwait s) as [|q0 qr] eqn:Eq.
  - inv H. refine (conj eq_refl (conj eq_refl (conj eq_refl (conj _ (conj eq_refl eq_refl))))).
    apply same_runs_refl.
  - destruct (nth_error (q0 :: qr) k) as [w|] eqn:En; [|discriminate]. inv H. simpl.
    refine (conj eq_refl (conj eq_refl (conj eq_refl (conj _ (conj eq_refl eq_refl))))).
    eapply same_runs_set_pc with (old := WWait).
    + apply nodup_ws; auto.
    + apply (A_qw s IA). rewrite Eq. eapply nth_error_In; eauto.
    + discriminate.
    + discriminate.
Qed.

Lemma seq_snoc : forall a n, seq a (S n) = seq a n ++ [a + n].
Proof. intros. apply seq_S. Qed.

Definition add_state (s : state) : state :=
  mkState (queue s ++ [length (ledger s)]) (threads s) (stop_count s) (active_count s) (lock s)
    (qwait s) (xwait s) (workers s) (sd s) (sd_cancel s)
    (ledger s ++ [ti0]) (requested s) (taken s) (sd_snap s).

Lemma add_state_C : forall s, InvC s -> InvC (add_state s).
Proof.
  intros s I. destruct I. unfold add_state. constructor; unfold led_ok, linfo in *; simpl.
  - rewrite app_length. simpl. lia.
  - rewrite app_length. simpl.
    replace (length (ledger s) + 1 - taken s) with (S (length (ledger s) - taken s)) by lia.
    rewrite seq_snoc. rewrite <- C_queue0. f_equal. f_equal. lia.
  - intros t Hlt. rewrite app_length in Hlt. simpl in Hlt.
    unfold led_ok_at. destruct (Nat.eq_dec t (length (ledger s))) as [E|E].
    + subst t. rewrite app_nth2; [|lia]. rewrite Nat.sub_diag. simpl. repeat split; auto.
    + assert (Hlt' : t < length (ledger s)) by lia. rewrite app_nth1; auto.
      apply (C_led0 t Hlt').
  - intros w t Hin. destruct (C_run0 w t Hin) as [H1 H2]. rewrite app_length. simpl.
    split; [lia|]. rewrite app_nth1; auto.
Qed.

Lemma do_add_eq : forall b k s, do_add b k s =
  match notify_q k (add_state s) with
  | None => None
  | Some (s2, l) => Some (s2, LSubmit b (length (ledger s)) :: l)
  end.
Proof. reflexivity. Qed.

Lemma add_state_A : forall s, InvA s -> InvA (add_state s).
Proof. intros s I. unfold add_state. apply with_queue_ledger_A; auto. Qed.

Lemma do_add_C : forall b k s s' l, InvA s -> InvC s -> do_add b k s = Some (s', l) -> InvC s'.
Proof.
  intros b k s s' l IA IC H. rewrite do_add_eq in H.
  destruct (notify_q k (add_state s)) as [[s2 l2]|] eqn:E; [|discriminate]. inv H.
  destruct (notify_q_frame _ _ _ _ (add_state_A s IA) E) as [F1 [F2 [F3 [F4 _]]]].
  apply (InvC_frame (add_state s) s'); auto. apply add_state_C; auto.
Qed.

Lemma do_resize_runs : forall n s s' l, InvA s -> do_resize n s = (s', l) ->
  same_runs (workers s) (workers s').
Proof.
  intros n s s' l IA H. unfold do_resize in H.
  destruct (length (threads s) - stop_count s <? n).
  - destruct (spawn (n - (length (threads s) - stop_count s)) 0 (threads s) (workers s) (active_count s) [])
      as [[[ths ws] act] ls] eqn:Es.
    inv H. apply spawn_spec in Es; [|apply (A_nodup s IA)].
    destruct Es as [new [H1 [H2 _]]]. subst. simpl. apply same_runs_new.
  - destruct (n <? length (threads s) - stop_count s); inv H; simpl.
    + apply same_runs_wake_all.
    + apply same_runs_refl.
Qed.

Lemma do_resize_C : forall n s s' l, InvA s -> InvC s -> do_resize n s = (s', l) -> InvC s'.
Proof.
  intros n s s' l IA IC H.
  destruct (do_resize_frame _ _ _ _ H) as [_ [_ [_ [F4 [F5 [F6 _]]]]]].
  eapply InvC_frame; eauto. eapply do_resize_runs; eauto.
Qed.

Lemma seq_head : forall a n t q, seq a n = t :: q -> t = a /\ q = seq (S a) (n - 1) /\ 0 < n.
Proof.
  intros a n t q H. destruct n; simpl in H; [discriminate|]. inv H.
  replace (S n - 1) with n by lia. repeat split; auto. lia.
Qed.

(* removing the head t of the queue: the ledger entry of t changes from Queued
   to [st'], the workers change from ws to ws' *)
Lemma take_head_C : forall s s' t q (f : tinfo -> tinfo),
  InvC s -> queue s = t :: q ->
  queue s' = q -> ledger s' = upd t f (ledger s) -> taken s' = S (taken s) ->
  (forall i, ti_st i = Queued -> ti_svc i = 0 -> ti_cnc i = 0 ->
     led_ok_at (upd t f (ledger s)) (S (taken s)) (workers s') t) ->
  (forall v u, u <> t -> In (v, WRun u) (workers s) -> In (v, WRun u) (workers s')) ->
  (forall v u, In (v, WRun u) (workers s') ->
      (u = t /\ ti_st (f (linfo s t)) = Running v) \/ In (v, WRun u) (workers s)) ->
  InvC s'.
Proof.
  intros s s' t q f I Hq Hq' Hl' Ht' Hnew Hkeep Hback.
  destruct I. rewrite Hq in C_queue0. symmetry in C_queue0.
  apply seq_head in C_queue0. destruct C_queue0 as [Et [Eq Hpos]]. subst t.
  assert (Hlt : taken s < length (ledger s)) by lia.
  assert (Hold : ti_st (linfo s (taken s)) = Queued /\ ti_svc (linfo s (taken s)) = 0 /\ ti_cnc (linfo s (taken s)) = 0).
  { specialize (C_led0 (taken s) Hlt). unfold led_ok, led_ok_at, linfo in *.
    destruct (ti_st (nth (taken s) (ledger s) ti0)); try (destruct C_led0; lia).
    tauto. }
  destruct Hold as [O1 [O2 O3]].
  constructor; unfold led_ok, linfo in *; rewrite ?Hq', ?Hl', ?Ht'; rewrite ?upd_length.
  - lia.
  - rewrite Eq. f_equal. lia.
  - intros u Hu. destruct (Nat.eq_dec u (taken s)) as [E|E].
    + subst u. eapply Hnew; eauto.
    + specialize (C_led0 u Hu). unfold led_ok_at in *. rewrite upd_nth_other; auto.
      destruct (ti_st (nth u (ledger s) ti0)).
      * destruct C_led0 as [H1 H2]. split; auto. lia.
      * destruct C_led0 as [H1 [H2 H3]]. split; [lia|]. split; auto.
      * destruct C_led0 as [H1 H2]. split; auto.
      * destruct C_led0 as [H1 H2]. split; auto.
  - intros v u Hin. apply Hback in Hin. destruct Hin as [[Eu Hr]|Hin].
    + subst u. split; auto. rewrite upd_nth_same; auto.
    + destruct (C_run0 v u Hin) as [H1 H2]. split; auto.
      rewrite upd_nth_other; auto. intro; subst u. congruence.
Qed.

Lemma do_work_C : forall w pc s s' l,
  InvA s -> InvC s -> In (w, pc) (workers s) -> pc = WAcq \/ pc = WNotified ->
  do_work w pc s = Some (s', l) -> InvC s'.
Proof.
  intros w pc s s' l IA IC Hin Hpc H. unfold do_work in H.
  pose proof (nodup_ws s IA) as Hnd.
  assert (Hnr : forall t, pc <> WRun t) by (intros t; destruct Hpc; subst; discriminate).
  destruct (stop_count s) as [|st] eqn:Est.
  - destruct (queue s) as [|t q] eqn:Eq; inv H.
    + (* park *)
      eapply InvC_frame; eauto. simpl.
      eapply same_runs_set_pc; eauto. discriminate.
    + (* pop *)
      eapply (take_head_C s _ t q); simpl; eauto; simpl.
      * intros i I1 I2 I3. unfold led_ok_at. rewrite upd_nth_same.
        2:{ destruct IC. rewrite Eq in C_queue0. symmetry in C_queue0.
            apply seq_head in C_queue0. lia. }
        simpl. destruct IC. rewrite Eq in C_queue0. symmetry in C_queue0.
        apply seq_head in C_queue0. destruct C_queue0 as [Et [_ Hpos]]. subst t.
        assert (Hlt : taken s < length (ledger s)) by lia.
        specialize (C_led0 _ Hlt). unfold led_ok, led_ok_at in C_led0.
        destruct (ti_st (nth (taken s) (ledger s) ti0)) eqn:Est'; try (destruct C_led0; lia).
        destruct C_led0 as [_ [S1 S2]].
        split; [lia|]. split; [apply In_set_pc; left; repeat split; auto; eapply In_fst; eauto|].
        split; [rewrite S1; auto|auto].
      * intros v u Hu Hv. apply In_set_pc. right. split; auto.
        intro; subst v. apply (Hnr u). eapply In_unique; eauto.
      * intros v u Hv. apply In_set_pc in Hv. destruct Hv as [[Ev [Eu _]]|[_ Hv]]; auto.
        inv Eu. left. split; auto.
  - assert (E : s' = exit_state w (match pc with WNotified => (active_count s + 1)%Z | _ => active_count s end - 1)%Z st s).
    { destruct (queue s) eqn:Eq; inv H; unfold exit_state; rewrite Eq; reflexivity. }
    subst s'. eapply InvC_frame; eauto. simpl.
    eapply same_runs_del_w; eauto.
Qed.

Lemma do_finish_C : forall w t r s s' l,
  InvA s -> InvC s -> In (w, WRun t) (workers s) -> do_finish w t r s = (s', l) -> InvC s'.
Proof.
  intros w t r s s' l IA IC Hin H. unfold do_finish in H. inv H.
  pose proof (nodup_ws s IA) as Hnd.
  destruct IC. destruct (C_run0 w t Hin) as [Ht Hst].
  pose proof (C_led0 t Ht) as Hok. unfold led_ok, led_ok_at, linfo in *. rewrite Hst in Hok.
  destruct Hok as [K1 [K2 [K3 K4]]].
  constructor; unfold led_ok, linfo; simpl; rewrite ?upd_length; auto.
  - intros u Hu. unfold led_ok_at. destruct (Nat.eq_dec u t) as [E|E].
    + subst u. rewrite upd_nth_same; auto. simpl. auto.
    + rewrite upd_nth_other; auto. specialize (C_led0 u Hu).
      destruct (ti_st (nth u (ledger s) ti0)) eqn:Eu; auto.
      destruct C_led0 as [H1 [H2 H3]]. split; auto. split; auto.
      apply In_set_pc. right. split; auto. intro; subst w0.
      assert (WRun u = WRun t) by (eapply In_unique; eauto). congruence.
  - intros v u Hv. apply In_set_pc in Hv. destruct Hv as [[_ [Hd _]]|[Hne Hv]]; [discriminate|].
    destruct (C_run0 v u Hv) as [H1 H2]. split; auto.
    rewrite upd_nth_other; auto. intro; subst u. rewrite Hst in H2. congruence.
Qed.

Lemma set_sd_C : forall s pc lk xw snap, InvC s -> InvC (set_sd s pc lk xw snap).
Proof. intros. eapply InvC_frame; eauto. apply same_runs_refl. Qed.

Lemma do_sd_C : forall e s s' l, InvC s -> do_sd e s = Some (s', l) -> InvC s'.
Proof.
  intros e s s' l I H. unfold do_sd in H.
  destruct (sd s) eqn:Esd; try discriminate.
  - destruct (free s); [|discriminate].
    assert (L : forall ls r, (if sd_cancel s
                 then Some (set_sd s SdCancel (Some OShutdown) false (queue s), ls)
                 else Some (set_sd s (SdDone false) None false (sd_snap s), ls ++ [LSdReturn false])) = Some r ->
                 InvC (fst r)).
    { intros ls r Hr. destruct (sd_cancel s); inv Hr; simpl; apply set_sd_C; auto. }
    destruct (threads s) eqn:Et.
    + apply L in H. auto.
    + destruct e.
      * apply L in H. auto.
      * inv H. apply set_sd_C; auto.
  - inv H. apply set_sd_C; auto.
  - destruct (queue s) as [|t q] eqn:Eq; inv H.
    + eapply InvC_frame; eauto. simpl. apply same_runs_wake_all.
    + eapply (take_head_C s _ t q); simpl; eauto; simpl.
      * intros i I1 I2 I3. unfold led_ok_at.
        destruct I. rewrite Eq in C_queue0. symmetry in C_queue0.
        apply seq_head in C_queue0. destruct C_queue0 as [Et [_ Hpos]]. subst t.
        assert (Hlt : taken s < length (ledger s)) by lia.
        rewrite upd_nth_same; auto. simpl.
        specialize (C_led0 _ Hlt). unfold led_ok, led_ok_at in C_led0.
        destruct (ti_st (nth (taken s) (ledger s) ti0)) eqn:Est'; destruct C_led0; lia.
Qed.

Theorem step_C : forall s c s' l, InvA s -> InvC s -> step s c = Some (s', l) -> InvC s'.
Proof.
  intros s c s' l IA IC H. pose proof (nodup_ws s IA) as Hnd.
  destruct c; simpl in H.
  - destruct (free s); [|discriminate]. eapply do_add_C; eauto.
  - destruct (free s); [|discriminate]. inv H. eapply do_resize_C; eauto.
  - destruct (free s) eqn:Ef; [|discriminate].
    destruct (get_pc w (workers s)) as [pc|] eqn:Eg; [|discriminate].
    apply get_pc_In in Eg; auto.
    destruct pc; try discriminate; eapply do_work_C; eauto.
  - destruct (free s); [|discriminate].
    destruct (get_pc w (workers s)) as [[]|]; try discriminate. eapply do_add_C; eauto.
  - destruct (get_pc w (workers s)) as [pc|] eqn:Eg; [|discriminate].
    apply get_pc_In in Eg; auto. destruct pc; try discriminate. inv H.
    eapply (do_finish_C w t raised s); eauto. reflexivity.
  - destruct (free s) eqn:Ef; [|discriminate]. destruct (sd s) eqn:Esd; try discriminate.
    destruct (do_resize 0 s) as [s1 ls] eqn:Er. inv H.
    apply do_resize_C in Er; auto.
    eapply InvC_frame; eauto. apply same_runs_refl.
  - eapply do_sd_C; eauto.
Qed.

(* ---- group D: the shutdown snapshot ------------------------------------------------ *)

Definition cancelled (s : state) (t : task) : Prop :=
  t < length (ledger s) /\ ti_st (linfo s t) = Cancelled.

Record InvD (s : state) : Prop := {
  D_cancel : sd s = SdCancel -> forall t, In t (sd_snap s) -> In t (queue s) \/ cancelled s t;
  D_done : sd s = SdDone true -> forall t, In t (sd_snap s) -> cancelled s t
}.

Lemma InvD_init : InvD init.
Proof. constructor; simpl; intros; discriminate. Qed.

Lemma cancelled_taken : forall s t, InvC s -> cancelled s t -> t < taken s.
Proof.
  intros s t IC [H1 H2]. pose proof (C_led s IC t H1) as H. unfold led_ok, led_ok_at, linfo in *.
  rewrite H2 in H. tauto.
Qed.

Lemma cancelled_same : forall s s' t, ledger s' = ledger s -> cancelled s t -> cancelled s' t.
Proof. intros s s' t H [H1 H2]. unfold cancelled, linfo in *. rewrite H. auto. Qed.

Lemma cancelled_upd : forall s s' t t0 f, ledger s' = upd t0 f (ledger s) -> t <> t0 ->
  cancelled s t -> cancelled s' t.
Proof.
  intros s s' t t0 f H Hne [H1 H2]. unfold cancelled, linfo in *. rewrite H.
  rewrite upd_length. rewrite upd_nth_other; auto.
Qed.

Lemma queue_head_taken : forall s t q, InvC s -> queue s = t :: q -> t = taken s /\ t < length (ledger s).
Proof.
  intros s t q IC Hq. destruct IC. rewrite Hq in C_queue0. symmetry in C_queue0.
  apply seq_head in C_queue0. destruct C_queue0 as [E [_ Hp]]. split; auto. lia.
Qed.

Lemma do_add_frame : forall b k s s' l, InvA s -> do_add b k s = Some (s', l) ->
  ledger s' = ledger s ++ [ti0] /\ taken s' = taken s /\ queue s' = queue s ++ [length (ledger s)] /\
  sd s' = sd s /\ sd_snap s' = sd_snap s.
Proof.
  intros b k s s' l IA H. rewrite do_add_eq in H.
  destruct (notify_q k (add_state s)) as [[s2 l2]|] eqn:E; [|discriminate]. inv H.
  destruct (notify_q_frame _ _ _ _ (add_state_A s IA) E) as [F1 [F2 [F3 [_ [F5 F6]]]]].
  simpl in *. auto.
Qed.

Lemma do_add_cancelled : forall b k s s' l t, InvA s -> do_add b k s = Some (s', l) ->
  cancelled s t -> cancelled s' t.
Proof.
  intros b k s s' l t IA H [H1 H2].
  destruct (do_add_frame _ _ _ _ _ IA H) as [F1 _]. unfold cancelled, linfo in *.
  rewrite F1. rewrite app_length. simpl. split; [lia|]. rewrite app_nth1; auto.
Qed.

Lemma do_work_frame : forall w pc s s' l, do_work w pc s = Some (s', l) ->
  sd_snap s' = sd_snap s /\ (sd s' = sd s \/ sd s' = SdAcq).
Proof.
  intros w pc s s' l H. unfold do_work in H.
  destruct (queue s); destruct (stop_count s); inv H; simpl; split; auto;
    destruct (xwait s); auto.
Qed.

Lemma do_work_cancelled : forall w pc s s' l t, InvC s -> do_work w pc s = Some (s', l) ->
  cancelled s t -> cancelled s' t.
Proof.
  intros w pc s s' l t IC H Hc. pose proof (cancelled_taken s t IC Hc) as Ht.
  unfold do_work in H.
  destruct (queue s) as [|t0 q] eqn:Eq; destruct (stop_count s); inv H;
    try (eapply cancelled_same; eauto; reflexivity).
  destruct (queue_head_taken s t0 q IC Eq) as [E _].
  eapply (cancelled_upd s _ t t0); [simpl; reflexivity | lia | auto].
Qed.

Lemma do_sd_cancelled : forall e s s' l t, InvC s -> do_sd e s = Some (s', l) ->
  cancelled s t -> cancelled s' t.
Proof.
  intros e s s' l t IC H Hc. pose proof (cancelled_taken s t IC Hc) as Ht.
  unfold do_sd in H. destruct (sd s); try discriminate.
  - destruct (free s); [|discriminate].
    destruct (threads s); [|destruct e]; destruct (sd_cancel s); inv H;
      eapply cancelled_same; eauto; reflexivity.
  - inv H. eapply cancelled_same; eauto; reflexivity.
  - destruct (queue s) as [|t0 q] eqn:Eq; inv H.
    + eapply cancelled_same; eauto; reflexivity.
    + destruct (queue_head_taken s t0 q IC Eq) as [E _].
      eapply (cancelled_upd s _ t t0); [simpl; reflexivity | lia | auto].
Qed.

Theorem step_cancelled : forall s c s' l t, InvA s -> InvC s -> step s c = Some (s', l) ->
  cancelled s t -> cancelled s' t.
Proof.
  intros s c s' l t IA IC H Hc. pose proof (nodup_ws s IA) as Hnd.
  destruct c; simpl in H.
  - destruct (free s); [|discriminate]. eapply do_add_cancelled; eauto.
  - destruct (free s); [|discriminate]. inv H.
    destruct (do_resize_frame _ _ _ _ H1) as [_ [_ [_ [_ [F5 _]]]]].
    eapply cancelled_same; eauto.
  - destruct (free s); [|discriminate].
    destruct (get_pc w (workers s)) as [[]|]; try discriminate; eapply do_work_cancelled; eauto.
  - destruct (free s); [|discriminate].
    destruct (get_pc w (workers s)) as [[]|]; try discriminate. eapply do_add_cancelled; eauto.
  - destruct (get_pc w (workers s)) as [pc|] eqn:Eg; [|discriminate].
    apply get_pc_In in Eg; auto. destruct pc; try discriminate. inv H.
    destruct (C_run s IC w t0 Eg) as [_ Hr].
    eapply (cancelled_upd s _ t t0); [simpl; reflexivity | | auto].
    intro; subst t0. destruct Hc as [_ Hc]. unfold linfo in *. congruence.
  - destruct (free s); [|discriminate]. destruct (sd s); try discriminate.
    destruct (do_resize 0 s) as [s1 ls] eqn:Er. inv H.
    destruct (do_resize_frame _ _ _ _ Er) as [_ [_ [_ [_ [F5 _]]]]].
    eapply cancelled_same; eauto.
  - eapply do_sd_cancelled; eauto.
Qed.

Lemma not_free_cancel : forall s, InvA s -> free s = true -> sd s <> SdCancel.
Proof.
  intros s IA Hf Hc. apply (A_lock1 s IA) in Hc. unfold free in Hf. rewrite Hc in Hf. discriminate.
Qed.

(* D is preserved whenever sd_snap is unchanged, the step does not enter or
   stay in the cancel loop, and SdDone true can only come from SdDone true *)
Lemma InvD_outside : forall s s', InvD s ->
  sd_snap s' = sd_snap s -> sd s <> SdCancel -> (sd s' = sd s \/ sd s' = SdAcq) ->
  (forall t, cancelled s t -> cancelled s' t) -> InvD s'.
Proof.
  intros s s' ID Hs Hn Hsd Hst. destruct ID. constructor; rewrite Hs.
  - intros Hc. destruct Hsd as [E|E]; congruence.
  - intros Hd t Hin. apply Hst. apply D_done0; auto. destruct Hsd as [E|E]; congruence.
Qed.

Theorem step_D : forall s c s' l, InvA s -> InvC s -> InvD s -> step s c = Some (s', l) -> InvD s'.
Proof.
  intros s c s' l IA IC ID H. pose proof (nodup_ws s IA) as Hnd.
  assert (Hst : forall t, cancelled s t -> cancelled s' t).
  { intros t. eapply step_cancelled; eauto. }
  destruct c; simpl in H.
  - destruct (free s) eqn:Ef; [|discriminate].
    destruct (do_add_frame _ _ _ _ _ IA H) as [_ [_ [_ [F4 F5]]]].
    eapply InvD_outside; eauto. apply not_free_cancel; auto.
  - destruct (free s) eqn:Ef; [|discriminate]. inv H.
    destruct (do_resize_frame _ _ _ _ H1) as [F1 [_ [_ [_ [_ [_ [F7 _]]]]]]].
    eapply InvD_outside; eauto. apply not_free_cancel; auto.
  - destruct (free s) eqn:Ef; [|discriminate].
    destruct (get_pc w (workers s)) as [[]|]; try discriminate;
      destruct (do_work_frame _ _ _ _ _ H) as [F1 F2];
      eapply InvD_outside; eauto; apply not_free_cancel; auto.
  - destruct (free s) eqn:Ef; [|discriminate].
    destruct (get_pc w (workers s)) as [[]|]; try discriminate.
    destruct (do_add_frame _ _ _ _ _ IA H) as [_ [_ [_ [F4 F5]]]].
    eapply InvD_outside; eauto. apply not_free_cancel; auto.
  - destruct (get_pc w (workers s)) as [[]|]; try discriminate. inv H.
    destruct ID. constructor; simpl.
    + intros Hc t0 Hin. destruct (D_cancel0 Hc t0 Hin) as [Hq|Hq]; auto.
    + intros Hc t0 Hin. apply Hst. auto.
  - destruct (free s) eqn:Ef; [|discriminate]. destruct (sd s); try discriminate.
    destruct (do_resize 0 s) as [s1 ls] eqn:Er. inv H.
    constructor; simpl; intros; discriminate.
  - unfold do_sd in H. destruct (sd s) eqn:Esd; try discriminate.
    + destruct (free s); [|discriminate].
      assert (L : forall ls r, (if sd_cancel s
                 then Some (set_sd s SdCancel (Some OShutdown) false (queue s), ls)
                 else Some (set_sd s (SdDone false) None false (sd_snap s), ls ++ [LSdReturn false])) = Some r ->
                 InvD (fst r)).
      { intros ls r Hr. destruct (sd_cancel s); inv Hr; simpl; constructor; simpl; intros; try discriminate.
        left. auto. }
      destruct (threads s) eqn:Et.
      * apply L in H. auto.
      * destruct expired.
        -- apply L in H. auto.
        -- inv H. constructor; simpl; intros; discriminate.
    + inv H. constructor; simpl; intros; discriminate.
    + destruct (queue s) as [|t0 q] eqn:Eq.
      * inv H. destruct ID. constructor; simpl; [intros; discriminate|].
        intros _ t Hin. apply Hst. destruct (D_cancel0 Esd t Hin) as [Hq|Hc]; auto.
        rewrite Eq in Hq. destruct Hq.
      * assert (Hs' : sd s' = SdCancel /\ sd_snap s' = sd_snap s /\ queue s' = q /\
                       ledger s' = upd t0 (fun i => mkTi Cancelled (ti_svc i) (S (ti_cnc i))) (ledger s)).
        { inv H. simpl. auto. }
        destruct Hs' as [S1 [S2 [S3 S4]]].
        destruct (queue_head_taken s t0 q IC Eq) as [E0 Hlt].
        destruct ID. constructor; rewrite S1, S2; [|intros; discriminate].
        intros _ t Hin. rewrite S3. destruct (D_cancel0 Esd t Hin) as [Hq|Hc].
        -- rewrite Eq in Hq. destruct Hq as [Hq|Hq]; auto. subst t. right.
           unfold cancelled, linfo. rewrite S4. rewrite upd_length. split; auto.
           rewrite upd_nth_same; auto.
        -- right. auto.
Qed.

(* ---- everything together ------------------------------------------------------------ *)

Record Inv (s : state) : Prop := {
  inv_A : InvA s; inv_B : InvB s; inv_C : InvC s; inv_D : InvD s
}.

Theorem Inv_init : Inv init.
Proof. constructor. apply InvA_init. apply InvB_init. apply InvC_init. apply InvD_init. Qed.

Theorem Inv_step : forall s c s' l, Inv s -> step s c = Some (s', l) -> Inv s'.
Proof.
  intros s c s' l [IA IB IC ID] H. constructor.
  - eapply step_A; eauto.
  - eapply step_B; eauto.
  - eapply step_C; eauto.
  - eapply step_D; eauto.
Qed.
