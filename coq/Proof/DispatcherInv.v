(* Proof/DispatcherInv.v -- the inductive invariant of Model/Dispatcher.v.
   Three groups, each preserved by every step:
     InvA  structure: threads = live workers, waiter list = workers at WWait,
           lock held iff shutdown is in its cancel loop, xwait iff SdWaiting
     InvB  counting: stop/notify protocol, requested count, active_count
     InvC  ledger: queue = [taken, next), per-task class/counters, snapshot *)
From Coq Require Import List Arith ZArith Bool Lia.
From WV Require Import Model.Dispatcher Proof.DispatcherLib.
Import ListNotations.

Record InvA (s : state) : Prop := {
  A_ths : map fst (workers s) = threads s;
  A_nodup : NoDup (threads s);
  A_qw_nodup : NoDup (qwait s);
  A_qw : forall w, In w (qwait s) <-> In (w, WWait) (workers s);
  A_lock1 : sd s = SdCancel -> lock s = Some OShutdown;
  A_lock2 : sd s <> SdCancel -> lock s = None;
  A_xw : xwait s = true <-> sd s = SdWaiting
}.

Lemma InvA_init : InvA init.
Proof.
  constructor; simpl; auto; try constructor; try tauto; try discriminate.
Qed.

Lemma nodup_ws : forall s, InvA s -> NoDup (map fst (workers s)).
Proof. intros s H. rewrite (A_ths s H). apply (A_nodup s H). Qed.

Lemma free_true : forall s, free s = true -> lock s = None.
Proof. unfold free. intros s. destruct (lock s); auto; discriminate. Qed.

Ltac inv H := inversion H; subst; clear H.

(* ---- group A ------------------------------------------------------------------- *)

Lemma notify_q_A : forall k s s' l, InvA s -> notify_q k s = Some (s', l) -> InvA s'.
Proof.
  intros k s s' l I H. unfold notify_q in H.
  destruct (qwait s) as [|q0 qr] eqn:Eq.
  - inv H. auto.
  - destruct (nth_error (q0 :: qr) k) as [w|] eqn:En; [|discriminate]. inv H.
    rewrite <- Eq in *.
    destruct I. constructor; simpl; auto.
    + rewrite map_fst_set_pc; auto.
    + apply NoDup_remove_nth; auto.
    + intros v. rewrite (In_remove_nth (qwait s) k w v A_qw_nodup0 En).
      rewrite In_set_pc. rewrite A_qw0. split.
      * intros [Hne Hin]. right; auto.
      * intros [[_ [Hd _]]|[Hne Hin]]; [discriminate|auto].
Qed.

Lemma with_queue_ledger_A : forall s q led,
  InvA s ->
  InvA (mkState q (threads s) (stop_count s) (active_count s) (lock s) (qwait s) (xwait s)
          (workers s) (sd s) (sd_cancel s) led (requested s) (taken s) (sd_snap s)).
Proof. intros s q led I. destruct I. constructor; simpl; auto. Qed.

Lemma do_add_A : forall b k s s' l, InvA s -> do_add b k s = Some (s', l) -> InvA s'.
Proof.
  intros b k s s' l I H. unfold do_add in H.
  match type of H with match notify_q k ?s1 with _ => _ end = _ =>
    destruct (notify_q k s1) as [[s2 l2]|] eqn:E; [|discriminate];
    inv H; eapply notify_q_A; [|exact E] end.
  apply with_queue_ledger_A; auto.
Qed.

Lemma do_resize_A : forall n s s' l, InvA s -> do_resize n s = (s', l) -> InvA s'.
Proof.
  intros n s s' l I H. unfold do_resize in H.
  destruct (length (threads s) - stop_count s <? n) eqn:E1.
  - destruct (spawn (n - (length (threads s) - stop_count s)) 0 (threads s) (workers s) (active_count s) [])
      as [[[ths ws] act] ls] eqn:Es.
    inv H. apply spawn_spec in Es; [|apply (A_nodup s I)].
    destruct Es as [new [H1 [H2 [H3 [H4 [H5 H6]]]]]]. subst.
    destruct I. constructor; simpl; auto.
    + rewrite map_app, map_map. simpl. rewrite map_id. congruence.
    + intros w. rewrite A_qw0. rewrite in_app_iff. split; auto.
      intros [Hin|Hin]; auto. apply in_map_iff in Hin. destruct Hin as [x [Hx _]]. discriminate.
  - destruct (n <? length (threads s) - stop_count s) eqn:E2; inv H.
    + destruct I. constructor; simpl; auto.
      * rewrite map_fst_wake_all; auto.
      * constructor.
      * intros w. rewrite In_wake_all. split; [tauto|].
        intros [[Hd _]|[Hd _]]; [discriminate|congruence].
    + destruct I. constructor; simpl; auto.
Qed.

Lemma do_resize_frame : forall n s s' l, do_resize n s = (s', l) ->
  sd s' = sd s /\ lock s' = lock s /\ xwait s' = xwait s /\ queue s' = queue s /\
  ledger s' = ledger s /\ taken s' = taken s /\ sd_snap s' = sd_snap s /\
  sd_cancel s' = sd_cancel s /\ requested s' = n.
Proof.
  intros n s s' l H. unfold do_resize in H.
  destruct (length (threads s) - stop_count s <? n).
  - destruct (spawn (n - (length (threads s) - stop_count s)) 0 (threads s) (workers s) (active_count s) [])
      as [[[ths ws] act] ls]. inv H. simpl. repeat split; auto.
  - destruct (n <? length (threads s) - stop_count s); inv H; simpl; repeat split; auto.
Qed.

Definition exit_state (w : nat) (act : Z) (st : nat) (s : state) : state :=
  mkState (queue s) (discard w (threads s)) st act (lock s)
    (qwait s) false (del_w w (workers s))
    (if xwait s then SdAcq else sd s) (sd_cancel s) (ledger s) (requested s) (taken s) (sd_snap s).

Lemma exit_A : forall w pc act st s,
  InvA s -> In (w, pc) (workers s) -> pc <> WWait -> lock s = None -> InvA (exit_state w act st s).
Proof.
  intros w pc act st s I Hin Hpc Hfree.
  pose proof (nodup_ws s I) as Hnd.
  assert (Hnw : ~ In w (qwait s)).
  { rewrite (A_qw s I). intro Hc. apply Hpc. eapply In_unique; eauto. }
  destruct I. unfold exit_state. constructor; simpl.
  - rewrite map_fst_del_w. congruence.
  - apply NoDup_discard; auto.
  - auto.
  - intros v. rewrite In_del_w, A_qw0. split.
    + intros Hv. split; auto. intro; subst. apply Hnw. apply A_qw0; auto.
    + tauto.
  - destruct (xwait s) eqn:Ex; [discriminate|auto].
  - intros _. exact Hfree.
  - split; [discriminate|]. destruct (xwait s) eqn:Ex; [discriminate|].
    intros Hs. apply A_xw0 in Hs. discriminate.
Qed.

Lemma do_work_A : forall w pc s s' l,
  InvA s -> In (w, pc) (workers s) -> pc <> WWait -> lock s = None ->
  do_work w pc s = Some (s', l) -> InvA s'.
Proof.
  intros w pc s s' l I Hin Hpc Hfree H. unfold do_work in H.
  pose proof (nodup_ws s I) as Hnd.
  assert (Hnw : ~ In w (qwait s)).
  { rewrite (A_qw s I). intro Hc. apply Hpc. eapply In_unique; eauto. }
  destruct (stop_count s) as [|st] eqn:Est.
  - destruct (queue s) as [|t q] eqn:Eq; inv H.
    + (* park *)
      destruct I. constructor; simpl; auto.
      * rewrite map_fst_set_pc; auto.
      * apply NoDup_snoc; auto.
      * intros v. rewrite in_app_iff, In_set_pc, A_qw0. simpl. split.
        -- intros [Hv|[Hv|[]]].
           ++ right. split; auto. intro; subst. apply Hnw. apply A_qw0; auto.
           ++ subst. left. repeat split; auto. eapply In_fst; eauto.
        -- intros [[Hv _]|[Hne Hv]]; subst; auto.
    + (* pop *)
      destruct I. constructor; simpl; auto.
      * rewrite map_fst_set_pc; auto.
      * intros v. rewrite In_set_pc, A_qw0. split.
        -- intros Hv. right. split; auto. intro; subst. apply Hnw. apply A_qw0; auto.
        -- intros [[_ [Hd _]]|[_ Hv]]; [discriminate|auto].
  - assert (E : s' = exit_state w (match pc with WNotified => (active_count s + 1)%Z | _ => active_count s end - 1)%Z st s).
    { destruct (queue s) eqn:Eq; inv H; unfold exit_state; rewrite Eq; reflexivity. }
    subst s'. eapply exit_A; eauto.
Qed.

Lemma do_finish_A : forall w t r s s' l,
  InvA s -> In (w, WRun t) (workers s) -> do_finish w t r s = (s', l) -> InvA s'.
Proof.
  intros w t r s s' l I Hin H. unfold do_finish in H. inv H.
  pose proof (nodup_ws s I) as Hnd.
  destruct I. constructor; simpl; auto.
  - rewrite map_fst_set_pc; auto.
  - intros v. rewrite In_set_pc, A_qw0. split.
    + intros Hv. right. split; auto. intro; subst.
      assert (WWait = WRun t) by (eapply In_unique; eauto). discriminate.
    + intros [[_ [Hd _]]|[_ Hv]]; [discriminate|auto].
Qed.

Lemma set_sd_A : forall s pc lk xw snap, InvA s ->
  (pc = SdCancel -> lk = Some OShutdown) -> (pc <> SdCancel -> lk = None) ->
  (xw = true <-> pc = SdWaiting) ->
  InvA (set_sd s pc lk xw snap).
Proof.
  intros s pc lk xw snap I H1 H2 H3. destruct I. unfold set_sd. constructor; simpl; auto.
Qed.

Lemma do_sd_A : forall e s s' l, InvA s -> do_sd e s = Some (s', l) -> InvA s'.
Proof.
  intros e s s' l I H. unfold do_sd in H.
  destruct (sd s) eqn:Esd; try discriminate.
  - (* SdAcq *)
    destruct (free s) eqn:Ef; [|discriminate]. apply free_true in Ef.
    assert (L : forall ls r, (if sd_cancel s
                 then Some (set_sd s SdCancel (Some OShutdown) false (queue s), ls)
                 else Some (set_sd s (SdDone false) None false (sd_snap s), ls ++ [LSdReturn false])) = Some r ->
                 InvA (fst r)).
    { intros ls r Hr. destruct (sd_cancel s); inv Hr; simpl; apply set_sd_A; auto;
        try (intros; discriminate); try (split; discriminate); try congruence. }
    destruct (threads s) eqn:Et.
    + apply L in H. auto.
    + destruct e.
      * apply L in H. auto.
      * inv H. apply set_sd_A; auto; try (intros; discriminate). tauto.
  - (* SdWaiting *)
    inv H. apply set_sd_A; auto; try (intros; discriminate).
    + intros _. apply (A_lock2 s I). congruence.
    + split; discriminate.
  - (* SdCancel *)
    destruct (queue s) eqn:Eq; inv H.
    + destruct I. constructor; simpl.
      * rewrite map_fst_wake_all; auto.
      * auto.
      * constructor.
      * intros w. rewrite In_wake_all. split; [tauto|].
        intros [[Hd _]|[Hd _]]; [discriminate|congruence].
      * discriminate.
      * auto.
      * rewrite A_xw0. rewrite Esd. split; discriminate.
    + destruct I. constructor; simpl; auto.
      rewrite A_xw0. rewrite Esd. split; discriminate.
Qed.

Theorem step_A : forall s c s' l, InvA s -> step s c = Some (s', l) -> InvA s'.
Proof.
  intros s c s' l I H. pose proof (nodup_ws s I) as Hnd.
  destruct c; simpl in H.
  - destruct (free s); [|discriminate]. eapply do_add_A; eauto.
  - destruct (free s); [|discriminate]. inv H. eapply do_resize_A; eauto.
  - destruct (free s) eqn:Ef; [|discriminate]. apply free_true in Ef.
    destruct (get_pc w (workers s)) as [pc|] eqn:Eg; [|discriminate].
    apply get_pc_In in Eg; auto.
    destruct pc; try discriminate; eapply do_work_A; eauto; discriminate.
  - destruct (free s); [|discriminate].
    destruct (get_pc w (workers s)) as [[]|]; try discriminate. eapply do_add_A; eauto.
  - destruct (get_pc w (workers s)) as [pc|] eqn:Eg; [|discriminate].
    apply get_pc_In in Eg; auto. destruct pc; try discriminate. inv H.
    eapply (do_finish_A w t raised s); eauto. reflexivity.
  - destruct (free s) eqn:Ef; [|discriminate]. destruct (sd s) eqn:Esd; try discriminate.
    destruct (do_resize 0 s) as [s1 ls] eqn:Er. inv H.
    destruct (do_resize_frame _ _ _ _ Er) as [F1 [F2 [F3 _]]].
    apply do_resize_A in Er; auto.
    destruct Er. constructor; simpl; auto; try discriminate.
    + intros _. rewrite F2. apply free_true; auto.
    + rewrite F3. rewrite (A_xw s I). rewrite Esd. split; discriminate.
  - eapply do_sd_A; eauto.
Qed.

(* ---- group B ------------------------------------------------------------------- *)

Record InvB (s : state) : Prop := {
  B_stop : stop_count s > 0 -> qwait s = [];
  B_wake : qwait s <> [] -> length (queue s) <= cnt is_notified (workers s);
  B_req : length (threads s) = requested s + stop_count s;
  B_act : active_count s = Z.of_nat (cnt is_active (workers s))
}.

Lemma InvB_init : InvB init.
Proof. constructor; simpl; auto. Qed.

Lemma cnt_new : forall p (new : list nat),
  cnt p (map (fun x => (x, WAcq)) new) = if p WAcq then length new else 0.
Proof.
  induction new; simpl. destruct (p WAcq); auto.
  rewrite cnt_cons. rewrite IHnew. destruct (p WAcq); simpl; auto.
Qed.

Lemma do_add_B : forall b k s s' l, InvA s -> InvB s -> do_add b k s = Some (s', l) -> InvB s'.
Proof.
  intros b k s s' l IA IB H. unfold do_add, notify_q in H. simpl in H.
  destruct (qwait s) as [|q0 qr] eqn:Eq.
  - inv H. destruct IB. constructor; simpl; auto. congruence.
  - destruct (nth_error (q0 :: qr) k) as [w|] eqn:En; [|discriminate]. inv H.
    rewrite <- Eq in *.
    assert (Hw : In (w, WWait) (workers s)).
    { apply (A_qw s IA). eapply nth_error_In; eauto. }
    pose proof (nodup_ws s IA) as Hnd.
    pose proof (cnt_set_pc is_notified w WNotified WWait (workers s) Hnd Hw) as C1.
    pose proof (cnt_set_pc is_active w WNotified WWait (workers s) Hnd Hw) as C2.
    simpl in C1, C2.
    assert (Hne : qwait s <> []) by (rewrite Eq; discriminate).
    destruct IB. constructor; simpl; auto.
    + intros Hs. apply B_stop0 in Hs. congruence.
    + intros _. rewrite app_length. simpl. specialize (B_wake0 Hne). lia.
    + rewrite B_act0. f_equal. lia.
Qed.

Lemma do_resize_B : forall n s s' l, InvA s -> InvB s -> do_resize n s = (s', l) -> InvB s'.
Proof.
  intros n s s' l IA IB H. unfold do_resize in H.
  destruct (length (threads s) - stop_count s <? n) eqn:E1.
  - destruct (spawn (n - (length (threads s) - stop_count s)) 0 (threads s) (workers s) (active_count s) [])
      as [[[ths ws] act] ls] eqn:Es.
    inv H. apply spawn_spec in Es; [|apply (A_nodup s IA)].
    destruct Es as [new [H1 [H2 [H3 [H4 [H5 H6]]]]]]. subst.
    apply Nat.ltb_lt in E1.
    destruct IB. constructor; simpl; auto.
    + intros Hq. rewrite cnt_app, cnt_new. simpl. specialize (B_wake0 Hq). lia.
    + rewrite app_length. lia.
    + rewrite cnt_app, cnt_new. simpl. rewrite B_act0. rewrite Nat2Z.inj_add. rewrite H3. reflexivity.
  - apply Nat.ltb_ge in E1.
    destruct (n <? length (threads s) - stop_count s) eqn:E2; inv H.
    + apply Nat.ltb_lt in E2. destruct IB. constructor; simpl; auto.
      * intros Hc. congruence.
      * lia.
      * rewrite cnt_wake_all_active. auto.
    + apply Nat.ltb_ge in E2. destruct IB. constructor; simpl; auto. lia.
Qed.

Lemma do_work_B : forall w pc s s' l,
  InvA s -> InvB s -> In (w, pc) (workers s) -> pc = WAcq \/ pc = WNotified ->
  do_work w pc s = Some (s', l) -> InvB s'.
Proof.
  intros w pc s s' l IA IB Hin Hpc H. unfold do_work in H.
  pose proof (nodup_ws s IA) as Hnd.
  assert (Hth : In w (threads s)).
  { rewrite <- (A_ths s IA). eapply In_fst; eauto. }
  destruct IB.
  destruct (stop_count s) as [|st] eqn:Est.
  - destruct (queue s) as [|t q] eqn:Eq; inv H.
    + (* park *)
      pose proof (cnt_set_pc is_active w WWait pc (workers s) Hnd Hin) as C2. simpl in C2.
      constructor; simpl.
      * lia.
      * intros _. lia.
      * lia.
      * rewrite B_act0. destruct Hpc; subst pc; simpl in C2; lia.
    + (* pop *)
      pose proof (cnt_set_pc is_active w (WRun t) pc (workers s) Hnd Hin) as C2.
      pose proof (cnt_set_pc is_notified w (WRun t) pc (workers s) Hnd Hin) as C1.
      simpl in C1, C2.
      constructor; simpl.
      * lia.
      * intros Hq. specialize (B_wake0 Hq). simpl in B_wake0.
        destruct Hpc; subst pc; simpl in C1; lia.
      * lia.
      * rewrite B_act0. destruct Hpc; subst pc; simpl in C2; lia.
  - assert (E : s' = exit_state w (match pc with WNotified => (active_count s + 1)%Z | _ => active_count s end - 1)%Z st s).
    { destruct (queue s) eqn:Eq; inv H; unfold exit_state; rewrite Eq; reflexivity. }
    subst s'. clear H.
    pose proof (cnt_del_w is_active w pc (workers s) Hnd Hin) as C2.
    pose proof (discard_length w (threads s) (A_nodup s IA) Hth) as C3.
    assert (Hq : qwait s = []) by (apply B_stop0; lia).
    unfold exit_state. constructor; simpl.
    + intros _. exact Hq.
    + intros Hc. congruence.
    + lia.
    + rewrite B_act0. destruct Hpc; subst pc; simpl in C2; lia.
Qed.

Lemma do_finish_B : forall w t r s s' l,
  InvA s -> InvB s -> In (w, WRun t) (workers s) -> do_finish w t r s = (s', l) -> InvB s'.
Proof.
  intros w t r s s' l IA IB Hin H. unfold do_finish in H. inv H.
  pose proof (nodup_ws s IA) as Hnd.
  pose proof (cnt_set_pc is_active w WAcq (WRun t) (workers s) Hnd Hin) as C2.
  pose proof (cnt_set_pc is_notified w WAcq (WRun t) (workers s) Hnd Hin) as C1.
  simpl in C1, C2.
  destruct IB. constructor; simpl; auto.
  - intros Hq. specialize (B_wake0 Hq). lia.
  - rewrite B_act0. f_equal. lia.
Qed.

Lemma set_sd_B : forall s pc lk xw snap, InvB s -> InvB (set_sd s pc lk xw snap).
Proof. intros s pc lk xw snap I. destruct I. unfold set_sd. constructor; simpl; auto. Qed.

Lemma do_sd_B : forall e s s' l, InvB s -> do_sd e s = Some (s', l) -> InvB s'.
Proof.
  intros e s s' l I H. unfold do_sd in H.
  destruct (sd s) eqn:Esd; try discriminate.
  - destruct (free s); [|discriminate].
    assert (L : forall ls r, (if sd_cancel s
                 then Some (set_sd s SdCancel (Some OShutdown) false (queue s), ls)
                 else Some (set_sd s (SdDone false) None false (sd_snap s), ls ++ [LSdReturn false])) = Some r ->
                 InvB (fst r)).
    { intros ls r Hr. destruct (sd_cancel s); inv Hr; simpl; apply set_sd_B; auto. }
    destruct (threads s) eqn:Et.
    + apply L in H. auto.
    + destruct e.
      * apply L in H. auto.
      * inv H. apply set_sd_B; auto.
  - inv H. apply set_sd_B; auto.
  - destruct (queue s) eqn:Eq; inv H.
    + destruct I. constructor; simpl; auto.
      * intros Hc. congruence.
      * rewrite cnt_wake_all_active. auto.
    + destruct I. constructor; simpl; auto.
      intros Hq. specialize (B_wake0 Hq). rewrite Eq in B_wake0. simpl in B_wake0. lia.
Qed.

Theorem step_B : forall s c s' l, InvA s -> InvB s -> step s c = Some (s', l) -> InvB s'.
Proof.
  intros s c s' l IA IB H. pose proof (nodup_ws s IA) as Hnd.
  destruct c; simpl in H.
  - destruct (free s); [|discriminate]. eapply do_add_B; eauto.
  - destruct (free s); [|discriminate]. inv H. eapply do_resize_B; eauto.
  - destruct (free s) eqn:Ef; [|discriminate].
    destruct (get_pc w (workers s)) as [pc|] eqn:Eg; [|discriminate].
    apply get_pc_In in Eg; auto.
    destruct pc; try discriminate; eapply do_work_B; eauto.
  - destruct (free s); [|discriminate].
    destruct (get_pc w (workers s)) as [[]|]; try discriminate. eapply do_add_B; eauto.
  - destruct (get_pc w (workers s)) as [pc|] eqn:Eg; [|discriminate].
    apply get_pc_In in Eg; auto. destruct pc; try discriminate. inv H.
    eapply (do_finish_B w t raised s); eauto. reflexivity.
  - destruct (free s) eqn:Ef; [|discriminate]. destruct (sd s) eqn:Esd; try discriminate.
    destruct (do_resize 0 s) as [s1 ls] eqn:Er. inv H.
    apply do_resize_B in Er; auto.
    destruct Er. constructor; simpl; auto.
  - eapply do_sd_B; eauto.
Qed.
