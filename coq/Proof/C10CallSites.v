(* C10, call-site layer: the verdict the CODE AROUND each gate computes on the
   bytes of a line (Model/Receiver.v, Model/Parser.v -- transliterations of
   receiver.py / parser.py, tied to the code by the K-recv / K-parse
   correspondences) equals membership in the RFC grammar of the whole line. *)
From Coq Require Import List NArith Bool Lia.
From WV Require Import Lib.Regex Lib.RegexDec Lib.PyBytes Gen.GenRegex Spec.Grammar
  Proof.C10Gates Proof.RegexFacts Model.Receiver Model.Parser.
Import ListNotations.
Local Open Scope N_scope.

(* ------------------------------------------------------------------ *)
(* chunk-size [chunk-ext] control line *)

Definition no_semi : re := Star (Cls [(0, 58); (60, 255)]).
Definition starts_semi : re := Cat (Sym 59) any_bytes.
(* what the code computes, written as a language: split at the first ';' *)
Definition site_chunk_line : re :=
  Alt (And no_semi gate_chunk_size)
      (Cat (And no_semi gate_chunk_size) (And starts_semi gate_chunk_ext)).
(* chunk-size [ chunk-ext ]   (RFC 9112 7.1, extensions as stated in C10) *)
Definition spec_chunk_line : re := Cat spec_chunk_size spec_chunk_ext.

Lemma site_chunk_line_is_grammar : forall s, bytes_ok s ->
  (Lang site_chunk_line s <-> Lang spec_chunk_line s).
Proof. apply equiv_check_sound. vm_compute. reflexivity. Qed.

Definition chunk_line_accepts (line : bytes) : bool :=
  match control_line_verdict line with LVSize _ => true | _ => false end.

Lemma in_no_semi x : x < 256 -> (in_ranges x [(0, 58); (60, 255)] = true <-> x <> 59).
Proof.
  intro Hx. simpl. rewrite orb_false_r, orb_true_iff, !andb_true_iff, !N.leb_le. lia.
Qed.

Lemma Lang_no_semi s : bytes_ok s -> (Lang no_semi s <-> Forall (fun x => x <> 59) s).
Proof.
  intro Hs. unfold no_semi. rewrite Lang_star_cls. unfold bytes_ok in Hs.
  rewrite !Forall_forall in *. split; intros H x Hx; apply (in_no_semi x (Hs x Hx)); auto.
Qed.

Lemma Lang_any_bytes s : bytes_ok s -> Lang any_bytes s.
Proof.
  intro Hs. unfold any_bytes. apply Lang_star_cls. unfold bytes_ok in Hs.
  rewrite Forall_forall in *. intros x Hx. specialize (Hs x Hx). simpl.
  rewrite orb_false_r, andb_true_iff, !N.leb_le. lia.
Qed.

Lemma Lang_starts_semi s : bytes_ok s -> (Lang starts_semi s <-> exists t, s = 59 :: t).
Proof.
  intro Hs. unfold starts_semi. rewrite Lang_Cat. split.
  - intros (u & v & -> & Hu & _). apply Lang_Sym in Hu. subst. simpl. eauto.
  - intros (t & ->). exists [59], t. repeat split; auto.
    + apply Lang_Sym; auto.
    + apply Lang_any_bytes. inversion Hs; auto.
Qed.

Lemma chunk_line_accepts_site line : bytes_ok line ->
  (chunk_line_accepts line = true <-> Lang site_chunk_line line).
Proof.
  intro Hl. unfold chunk_line_accepts, control_line_verdict, site_chunk_line.
  rewrite Lang_Alt, Lang_And, Lang_Cat.
  pose proof (find_char line 59) as F.
  destruct (find line [59]) as [j|].
  - destruct F as (a & b & -> & Ha & ->).
    rewrite firstn_app_exact, skipn_app_exact.
    apply bytes_ok_app in Hl as [Hla Hlb].
    assert (NS : ~ Lang no_semi (a ++ 59 :: b)).
    { rewrite Lang_no_semi by (apply bytes_ok_app; auto). rewrite Forall_forall.
      intro H. apply (H 59); auto. apply in_or_app; right; left; auto. }
    split.
    + intro H. right. exists a, (59 :: b).
      destruct (matches gate_chunk_ext (59 :: b)) eqn:E1; simpl in H; [|discriminate].
      destruct (matches gate_chunk_size a) eqn:E2; simpl in H; [|discriminate].
      rewrite Lang_And, Lang_And. repeat split; auto.
      * apply Lang_no_semi; auto.
      * apply matches_correct; auto.
      * apply Lang_starts_semi; eauto.
      * apply matches_correct; auto.
    + intros [[H _]|(u & v & E & Hu & Hv)]; [contradiction|].
      apply Lang_And in Hu as [Hu1 Hu2]. apply Lang_And in Hv as [Hv1 Hv2].
      assert (Huv : bytes_ok (u ++ v)) by (rewrite <- E; apply bytes_ok_app; auto).
      apply bytes_ok_app in Huv as [Hbu Hbv].
      apply Lang_starts_semi in Hv1 as (t & ->); auto.
      apply Lang_no_semi in Hu1; auto.
      assert (L : length a = length u).
      { pose proof (find_char_unique a b 59 Ha) as F1.
        pose proof (find_char_unique u t 59 Hu1) as F2. rewrite E in F1. congruence. }
      assert (a = u).
      { rewrite <- (firstn_app_exact a (59 :: b)), E, L, firstn_app_exact; auto. }
      subst u. apply app_inv_head in E. subst.
      apply matches_correct in Hu2, Hv2. injection E as <-. rewrite Hu2, Hv2. reflexivity.
  - assert (NR : forall u v, line = u ++ v -> ~ (exists t, v = 59 :: t)).
    { intros u v -> (t & ->). rewrite Forall_forall in F. apply (F 59); auto.
      apply in_or_app; right; left; auto. }
    split.
    + intro H. left. destruct (matches gate_chunk_size line) eqn:E; simpl in H; [|discriminate].
      split; [apply Lang_no_semi; auto | apply matches_correct; auto].
    + intros [[_ H]|(u & v & E & _ & Hv)].
      * apply matches_correct in H. rewrite H. reflexivity.
      * exfalso. apply Lang_And in Hv as [Hv1 _].
        assert (Huv : bytes_ok (u ++ v)) by (rewrite <- E; auto).
        apply bytes_ok_app in Huv as [_ Hbv].
        apply Lang_starts_semi in Hv1; auto. eapply NR; eauto.
Qed.

(* C10 for the chunk control line as the receiver applies it: a line (the
   bytes between two CRLFs where a chunk is expected) is accepted iff it is
   chunk-size [chunk-ext] *)
Theorem chunk_line_callsite : forall line, bytes_ok line ->
  (chunk_line_accepts line = true <-> Lang spec_chunk_line line).
Proof.
  intros line Hl. rewrite chunk_line_accepts_site by auto.
  apply site_chunk_line_is_grammar; auto.
Qed.

(* the numeric value used after the gate is the positional hexadecimal value *)
Lemma hex_value_acc_app s x acc :
  hex_value_acc (s ++ [x]) acc =
  16 * hex_value_acc s acc + match hexval x with Some v => v | None => 0 end.
Proof. revert acc; induction s as [|y s IH]; intro acc; cbn [hex_value_acc app]; [reflexivity | apply IH]. Qed.

Theorem chunk_size_value_positional s x :
  hex_value (s ++ [x]) = 16 * hex_value s + match hexval x with Some v => v | None => 0 end.
Proof. apply hex_value_acc_app. Qed.

Lemma dec_value_acc_app s x acc :
  dec_value_acc (s ++ [x]) acc = 10 * dec_value_acc s acc + (x - 48).
Proof. revert acc; induction s as [|y s IH]; intro acc; cbn [dec_value_acc app]; [reflexivity | apply IH]. Qed.

Theorem content_length_value_positional s x :
  dec_value (s ++ [x]) = 10 * dec_value s + (x - 48).
Proof. apply dec_value_acc_app. Qed.

(* ------------------------------------------------------------------ *)
(* header lines: what reaches the gate has no CR / LF, and the verdict is the gate's *)

Lemma has_cr_or_lf_false s : bytes_ok s -> has_cr_or_lf s = false -> Lang no_crlf s.
Proof.
  intros Hs H. unfold has_cr_or_lf in H. apply orb_false_iff in H as [H1 H2].
  apply memb_false_forall in H1, H2. unfold no_crlf. apply Lang_star_cls.
  unfold bytes_ok in Hs. rewrite Forall_forall in *. intros x Hx.
  specialize (Hs x Hx). specialize (H1 x Hx). specialize (H2 x Hx). simpl.
  rewrite orb_false_r, !orb_true_iff, !andb_true_iff, !N.leb_le. lia.
Qed.

Lemma has_cr_or_lf_app a b : has_cr_or_lf (a ++ b) = has_cr_or_lf a || has_cr_or_lf b.
Proof.
  unfold has_cr_or_lf, memb. rewrite !existsb_app.
  destruct (existsb (N.eqb 13) a), (existsb (N.eqb 13) b), (existsb (N.eqb 10) a), (existsb (N.eqb 10) b); reflexivity.
Qed.

Lemma header_lines_go_clean lines r out :
  Forall (fun l => has_cr_or_lf l = false) r ->
  header_lines_go lines r = inr out ->
  Forall (fun l => has_cr_or_lf l = false) out.
Proof.
  revert r; induction lines as [|line rest IH]; intros r Hr H; simpl in H.
  - injection H as <-. apply Forall_rev; auto.
  - destruct line as [|c line']; [eauto|].
    destruct (has_cr_or_lf (c :: line')) eqn:E; [discriminate|].
    destruct ((c =? 32) || (c =? 9)).
    + destruct r as [|last r']; [discriminate|].
      inversion Hr; subst. eapply IH; [|exact H]. constructor; auto.
      rewrite has_cr_or_lf_app. rewrite E. rewrite H2. reflexivity.
    + eapply IH; [|exact H]. constructor; auto.
Qed.

Lemma get_header_lines_clean header lines :
  get_header_lines header = inr lines -> Forall (fun l => has_cr_or_lf l = false) lines.
Proof. unfold get_header_lines. apply header_lines_go_clean. constructor. Qed.

Definition header_line_accepts (line : bytes) : bool := matches gate_header_field line.

Lemma add_header_line_verdict h line :
  (exists e, add_header_line h line = inl e /\ e = EInvalidHeader) <-> header_line_accepts line = false.
Proof.
  unfold add_header_line, header_line_accepts. destruct (matches gate_header_field line); simpl.
  - split; [|discriminate]. intros (e & H & ->).
    destruct (partition line [58]) as [[name sep] rest].
    destruct (memb 95 name); [discriminate|].
    destruct (hget h (header_key name)); [|discriminate].
    destruct (is_singleton (header_key name)); discriminate.
  - split; auto. intros _. eauto.
Qed.

(* C10 for header lines as the parser applies the gate: every (unfolded) line
   handed to the gate is free of CR and LF, and for those the gate is
   token ":" OWS field-value OWS *)
Theorem header_line_callsite header lines :
  get_header_lines header = inr lines ->
  forall line, In line lines -> bytes_ok line ->
  (header_line_accepts line = true <-> Lang spec_header_field line).
Proof.
  intros H line Hin Hb. apply get_header_lines_clean in H.
  rewrite Forall_forall in H. specialize (H line Hin).
  unfold header_line_accepts. rewrite matches_correct.
  apply header_field_exact; auto. apply has_cr_or_lf_false; auto.
Qed.

(* Content-Length value as the parser applies the gate: the value of a header
   field contains no CR / LF (it is a piece of a clean line) *)
Theorem content_length_callsite v : bytes_ok v -> has_cr_or_lf v = false ->
  (matches gate_content_length v = true <-> Lang spec_content_length v).
Proof.
  intros Hb Hc. rewrite matches_correct. apply content_length_exact; auto.
  apply has_cr_or_lf_false; auto.
Qed.

(* non-vacuity *)
Example chunk_line_ok : chunk_line_accepts [49; 97; 59; 120; 61; 34; 121; 34] = true.   (* 1a;x="y" *)
Proof. vm_compute. reflexivity. Qed.
Example chunk_line_lf : chunk_line_accepts [53; 10] = false.
Proof. vm_compute. reflexivity. Qed.
Example chunk_line_sp : chunk_line_accepts [53; 32; 59; 97] = false.                  (* "5 ;a" *)
Proof. vm_compute. reflexivity. Qed.
