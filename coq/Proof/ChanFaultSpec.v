(* Proof/ChanFaultSpec.v -- what C13 demands, stated over the states and label
   traces of Model/ChanFault.v independently of how it is proved.  Every
   statement has a Prop form (used by the theorems) and a bool form (run by the
   model explorer and by the monitor on the traces of the real code). *)
From Coq Require Import List Arith Bool.
From WV Require Import Model.ChanFault.
Import ListNotations.

(* ---- C13_loop: the I/O loop never dies ---------------------------------- *)
(* no step of the I/O thread ends in an escaped exception other than the three
   that wasyncore re-raises on purpose *)
Definition loop_ok (tr : list label) : Prop :=
  forall x, In (LLoopDied x) tr -> is_reraised x = true.
Definition loop_okb (tr : list label) : bool :=
  forallb (fun l => match l with LLoopDied x => is_reraised x | _ => true end) tr.

(* ---- C13_workers: no worker thread is killed ------------------------------ *)
Definition workers_ok (tr : list label) : Prop := forall c, ~ In (LWorkerDied c) tr.
Definition workers_okb (tr : list label) : bool :=
  forallb (fun l => match l with LWorkerDied _ => false | _ => true end) tr.

(* ---- C13_listener: the listening socket and its trigger stay polled -------- *)
Definition listener_ok (s : state) : Prop :=
  lst_in_map s = true /\ trg_in_map s = true /\ lst_open s = true /\ trg_open s = true.
Definition listener_okb (s : state) : bool :=
  lst_in_map s && trg_in_map s && lst_open s && trg_open s.

(* ---- C13_once: torn down once, by the I/O thread only ---------------------- *)
Definition is_close_of (c : chan) (l : label) : bool :=
  match l with LClose _ d => chan_eqb c d | _ => false end.
Definition closes (c : chan) (tr : list label) : nat := length (filter (is_close_of c) tr).

(* a label that tears something down or alters the polled set names its thread *)
Definition teardown_thread (l : label) : option tid :=
  match l with
  | LClose t _ | LMapDel t _ | LActDel t _ | LBufsClosed t _ => Some t
  | _ => None
  end.
Definition io_only (tr : list label) : Prop :=
  forall l t, In l tr -> teardown_thread l = Some t -> t = IO.
Definition io_onlyb (tr : list label) : bool :=
  forallb (fun l => match teardown_thread l with Some (W _) => false | _ => true end) tr.

(* after the close the descriptor is out of the socket map and of
   active_channels and every output buffer has been closed *)
Definition released (s : state) (c : chan) : Prop :=
  nclose (getc s c) <> 0 ->
  in_map (getc s c) = false /\ in_act (getc s c) = false /\ bufc (getc s c) = true.
Definition releasedb (s : state) (c : chan) : bool :=
  (nclose (getc s c) =? 0) || (negb (in_map (getc s c)) && negb (in_act (getc s c)) && bufc (getc s c)).

Definition once_ok (s : state) (tr : list label) : Prop :=
  io_only tr /\ forall c, closes c tr <= 1 /\ released s c.
Definition once_okb (s : state) (tr : list label) : bool :=
  io_onlyb tr && (closes A tr <=? 1) && (closes B tr <=? 1) && releasedb s A && releasedb s B.

(* ---- the classes of the two known findings --------------------------------- *)
(* F18: executions in which a worker reaches send_continue() at the end of service() *)
Definition no_wcont (tr : list label) : Prop := forall c, ~ In (LWCont c) tr.
Definition no_wcontb (tr : list label) : bool :=
  forallb (fun l => match l with LWCont _ => false | _ => true end) tr.
(* F17: executions in which getsockopt(SO_SNDBUF) or setblocking fails in HTTPChannel.__init__ *)
Definition no_setup_fault (tr : list label) : Prop := forall c, ~ In (LSetupFault c) tr.
Definition no_setup_faultb (tr : list label) : bool :=
  forallb (fun l => match l with LSetupFault _ => false | _ => true end) tr.

(* ---- bool forms agree with the Prop forms ----------------------------------- *)
Lemma loop_okb_spec : forall tr, loop_okb tr = true <-> loop_ok tr.
Proof.
  intro tr. unfold loop_okb, loop_ok. rewrite forallb_forall. split.
  - intros H x Hin. exact (H _ Hin).
  - intros H l Hin. destruct l; auto.
Qed.

Lemma workers_okb_spec : forall tr, workers_okb tr = true <-> workers_ok tr.
Proof.
  intro tr. unfold workers_okb, workers_ok. rewrite forallb_forall. split.
  - intros H c Hin. specialize (H _ Hin). discriminate.
  - intros H l Hin. destruct l; auto. exfalso. eapply H; eauto.
Qed.

Lemma no_wcontb_spec : forall tr, no_wcontb tr = true <-> no_wcont tr.
Proof.
  intro tr. unfold no_wcontb, no_wcont. rewrite forallb_forall. split.
  - intros H c Hin. specialize (H _ Hin). discriminate.
  - intros H l Hin. destruct l; auto. exfalso. eapply H; eauto.
Qed.

Lemma no_setup_faultb_spec : forall tr, no_setup_faultb tr = true <-> no_setup_fault tr.
Proof.
  intro tr. unfold no_setup_faultb, no_setup_fault. rewrite forallb_forall. split.
  - intros H c Hin. specialize (H _ Hin). discriminate.
  - intros H l Hin. destruct l; auto. exfalso. eapply H; eauto.
Qed.

Lemma io_onlyb_spec : forall tr, io_onlyb tr = true <-> io_only tr.
Proof.
  intro tr. unfold io_onlyb, io_only. rewrite forallb_forall. split.
  - intros H l t Hin E. specialize (H _ Hin). rewrite E in H. destruct t; auto. discriminate.
  - intros H l Hin. destruct (teardown_thread l) as [[|c]|] eqn:E; auto.
    specialize (H _ _ Hin E). discriminate.
Qed.

Lemma no_wcont_app : forall a b, no_wcont (a ++ b) <-> no_wcont a /\ no_wcont b.
Proof.
  unfold no_wcont. intros a b. split.
  - intro H. split; intros c Hin; apply (H c); apply in_or_app; auto.
  - intros [Ha Hb] c Hin. apply in_app_or in Hin. destruct Hin; [eapply Ha|eapply Hb]; eauto.
Qed.

Lemma no_setup_fault_app : forall a b, no_setup_fault (a ++ b) <-> no_setup_fault a /\ no_setup_fault b.
Proof.
  unfold no_setup_fault. intros a b. split.
  - intro H. split; intros c Hin; apply (H c); apply in_or_app; auto.
  - intros [Ha Hb] c Hin. apply in_app_or in Hin. destruct Hin; [eapply Ha|eapply Hb]; eauto.
Qed.
