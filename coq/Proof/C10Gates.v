(* Language equality between each gate, as applied at its call site in the
   source today (Gen/GenRegex.v, regenerated on every run), and the RFC grammar
   (Spec/Grammar.v).  Each lemma is decided reflectively: equiv_check explores
   the product of derivative automata over the 256-symbol alphabet inside the
   kernel (vm_compute) and equiv_check_sound lifts the verdict to all byte
   strings of every length. *)
From Coq Require Import List NArith.
From WV Require Import Lib.Regex Lib.RegexDec Gen.GenRegex Spec.Grammar.
Import ListNotations.
Local Open Scope N_scope.

Definition any_bytes : re := Star (Cls [(0, 255)]).
(* crack_first_line additionally refuses methods containing lower-case letters *)
Definition upper_method_prefix : re := Cat (Plus method_char) (Cat SP any_bytes).

Lemma chunk_size_exact : forall s, bytes_ok s ->
  (Lang gate_chunk_size s <-> Lang spec_chunk_size s).
Proof. apply equiv_check_sound. vm_compute. reflexivity. Qed.

Lemma chunk_ext_exact : forall s, bytes_ok s ->
  (Lang gate_chunk_ext s <-> Lang spec_chunk_ext s).
Proof. apply equiv_check_sound. vm_compute. reflexivity. Qed.

(* The header splitter refuses lines containing CR or LF before they reach
   these two gates (get_header_lines); the statement is for exactly those
   strings.  Without the side condition the '$' anchors would also admit a
   final LF. *)
Lemma content_length_exact : forall s, bytes_ok s -> Lang no_crlf s ->
  (Lang gate_content_length s <-> Lang spec_content_length s).
Proof.
  intros s Hs Hn.
  assert (E : equiv_check (And no_crlf gate_content_length) (And no_crlf spec_content_length) = true)
    by (vm_compute; reflexivity).
  pose proof (equiv_check_sound _ _ E s Hs) as G. rewrite !Lang_And in G. tauto.
Qed.

Lemma header_field_exact : forall s, bytes_ok s -> Lang no_crlf s ->
  (Lang gate_header_field s <-> Lang spec_header_field s).
Proof.
  intros s Hs Hn.
  assert (E : equiv_check (And no_crlf gate_header_field) (And no_crlf spec_header_field) = true)
    by (vm_compute; reflexivity).
  pose proof (equiv_check_sound _ _ E s Hs) as G. rewrite !Lang_And in G. tauto.
Qed.

Lemma request_line_exact : forall s, bytes_ok s -> Lang no_crlf s ->
  (Lang gate_request_line s /\ Lang upper_method_prefix s <-> Lang spec_request_line s).
Proof.
  intros s Hs Hn.
  assert (E : equiv_check (And no_crlf (And gate_request_line upper_method_prefix))
                          (And no_crlf spec_request_line) = true)
    by (vm_compute; reflexivity).
  pose proof (equiv_check_sound _ _ E s Hs) as G. rewrite !Lang_And in G. tauto.
Qed.

Lemma quoted_string_exact : forall s, bytes_ok s ->
  (Lang gate_quoted_string s <-> Lang quoted_string s).
Proof. apply equiv_check_sound. vm_compute. reflexivity. Qed.

(* non-vacuity: each language is inhabited by a non-trivial string, and the
   classic near-misses are outside *)
Example chunk_size_some : matches gate_chunk_size [49; 97; 70] = true.   (* "1aF" *)
Proof. vm_compute. reflexivity. Qed.
Example chunk_size_no_lf : matches gate_chunk_size [53; 10] = false.     (* "5\n" *)
Proof. vm_compute. reflexivity. Qed.
Example chunk_size_no_0x : matches gate_chunk_size [48; 120; 53] = false. (* "0x5" *)
Proof. vm_compute. reflexivity. Qed.
Example content_length_no_plus : matches gate_content_length [43; 53] = false. (* "+5" *)
Proof. vm_compute. reflexivity. Qed.
Example header_field_some :
  matches gate_header_field [72;111;115;116;58;32;97;32;98;9] = true.    (* "Host: a b\t" *)
Proof. vm_compute. reflexivity. Qed.
Example header_field_no_ws_before_colon :
  matches gate_header_field [72;111;115;116;32;58;97] = false.           (* "Host :a" *)
Proof. vm_compute. reflexivity. Qed.
Example request_line_some :
  matches gate_request_line [71;69;84;32;47;32;72;84;84;80;47;49;46;49] = true. (* "GET / HTTP/1.1" *)
Proof. vm_compute. reflexivity. Qed.
