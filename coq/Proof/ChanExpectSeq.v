(* Proof/ChanExpectSeq.v -- C19, the sequential layer: what HTTPChannel.received
   (Model/ChanSeq.v, the model K-chanseq compares with the real channel) does with
   expecting requests, and how it relates to the interleaving model
   Model/ChanExpect.v:
     abs_sim        every call of the transliterated parser is an event of the abstract parser
     seq_refines    every sequential run is a run of the I/O thread of the interleaving model
     seq_no_interim no parser state with version 1.1 + Expect: 100-continue => nothing logged
     flag_only_11   the flag is set only by an HTTP/1.1 head with Expect: 100-continue
     turn_cases / seq_wf_turn / seq_wf_run      the turn of `while data`: the object under
                    construction stays well-formed (one header block per object)
     ex_former_F5 / ex_former_F6                the pipelines of the former findings F5/F6 *)
From Coq Require Import List NArith ZArith Bool Lia.
From RecordUpdate Require Import RecordUpdate.
From WV Require Import Model.ChanExpect.
From WV Require Import Lib.PyBytes Model.Receiver Model.Parser Model.ChanSeq.
From WV Require Import Proof.ChanExpectParse.
From WV Require Proof.ChanExpectBase Proof.ChanExpect.
Import ListNotations.
Local Open Scope N_scope.

Module CE := WV.Model.ChanExpect.
Module CP := WV.Proof.ChanExpect.
Module CB := WV.Proof.ChanExpectBase.

Definition is_some {A} (o : option A) : bool := match o with Some _ => true | None => false end.

(* the flags of the abstract object agree with the parser record *)
Definition flags_eq (q : CE.areq) (p : parser) : Prop :=
  CE.a_completed q = completed p /\ CE.a_expect q = expect_continue p /\
  CE.a_hf q = headers_finished p /\ CE.a_body q = is_some (body p) /\ CE.a_empty q = empty p.

Definition se_of (old new : bool) : option bool := if Bool.eqb old new then None else Some new.

Lemma set_expect_flags : forall old new q,
  CE.a_expect q = old -> CE.a_expect (CE.set_expect (se_of old new) q) = new /\
  CE.a_completed (CE.set_expect (se_of old new) q) = CE.a_completed q /\
  CE.a_hf (CE.set_expect (se_of old new) q) = CE.a_hf q /\
  CE.a_body (CE.set_expect (se_of old new) q) = CE.a_body q /\
  CE.a_empty (CE.set_expect (se_of old new) q) = CE.a_empty q /\
  CE.g_heads (CE.set_expect (se_of old new) q) = CE.g_heads q /\
  CE.rid (CE.set_expect (se_of old new) q) = CE.rid q.
Proof.
  intros old new q H. unfold se_of. destruct (Bool.eqb old new) eqn:E; simpl.
  - apply eqb_prop in E. subst. auto 10.
  - auto 10.
Qed.

Lemma se_asks : forall a p hp p' st, parse_header a p hp = (p', st) ->
  se_of (expect_continue p) (expect_continue p') = Some true ->
  version p' = s_1_1 /\ expect_value p' = true.
Proof.
  intros a p hp p' st H Hse. destruct (parse_header_flags _ _ _ _ _ H) as (_ & _ & _ & [E|[E1 E2]]).
  - unfold se_of in Hse. rewrite E, Bool.eqb_reflx in Hse. discriminate.
  - unfold se_of in Hse. destruct (Bool.eqb (expect_continue p) (expect_continue p')); [discriminate|].
    inversion Hse as [E3]. split; [assumption|]. congruence.
Qed.

Definition sim_goal (q : CE.areq) (p p' : parser) : Prop :=
  exists ev q', CE.astep q ev = Some q' /\ flags_eq q' p' /\ CE.rid q' = CE.rid q /\
    (CP.ev_asks ev = true -> version p' = s_1_1 /\ expect_value p' = true) /\
    (headers_finished p = false -> headers_finished p' = true -> empty p' = false ->
       CE.g_heads q' = S (CE.g_heads q)).

Lemma sim_431 : forall a p x p1 q,
  completed p = false -> body p = None -> flags_eq q p ->
  parse_header a (p <| header_bytes_received := x |>) fake_head_431 = (p1, PSOk) ->
  sim_goal q p (p1 <| error := Some EHeaderTooLarge |> <| completed := true |>).
Proof.
  intros a p x p1 q Ec Eb (Fc & Fe & Fh & Fb & Fem) Ep.
  destruct (parse_header_flags _ _ _ _ _ Ep) as (Hc1 & Hh1 & He1 & _).
  pose proof (se_asks _ _ _ _ _ Ep) as Hse. simpl in Hc1, Hh1, He1, Hse.
  exists (CE.EvHead431 (se_of (expect_continue p) (expect_continue p1)) (is_some (body p1))).
  eexists. unfold CE.astep. rewrite Fc, Fb, Ec, Eb. simpl. split; [reflexivity|].
  destruct (set_expect_flags (expect_continue p) (expect_continue p1) q Fe) as (S1 & S2 & S3 & S4 & S5 & S6 & S7).
  unfold flags_eq, expect_value. simpl. rewrite S1, S3, S5, S7.
  repeat split; auto; try congruence.
  all: try (destruct (se_of (expect_continue p) (expect_continue p1)) as [[]|] eqn:E; simpl in *; try discriminate; apply Hse; reflexivity).
Qed.

(* every call of the transliterated HTTPRequestParser.received is matched by an
   event of the abstract parser, and an event that sets the flag comes from an
   HTTP/1.1 head whose Expect field is "100-continue" (case-insensitively) *)
Theorem abs_sim : forall a p data p' n q,
  Parser.received a p data = ROk p' n -> flags_eq q p -> sim_goal q p p'.
Proof.
  intros a p data p' n q H F. pose proof F as (Fc & Fe & Fh & Fb & Fem).
  unfold Parser.received in H. unfold sim_goal.
  destruct (completed p) eqn:Ec.
  { inversion H; subst. exists CE.EvNone, q. unfold CE.astep. rewrite Fc.
    repeat split; auto; try discriminate; try congruence. }
  destruct (body p) as [br|] eqn:Eb.
  - (* in body *)
    destruct (match br with
              | BFixed f => let '(f', n0) := fixed_received f data in Some (BFixed f', n0, None, f_completed f')
              | BChunked c => match chunked_received c data with
                              | Some (c', n0) => Some (BChunked c', n0, c_error c', c_completed c')
                              | None => None end end) as [[[[br' cons] brerr] brdone]|] eqn:Es;
      [|discriminate].
    assert (Hex : exists compl, completed p' = compl /\ expect_continue p' = expect_continue p /\
                    headers_finished p' = headers_finished p /\ is_some (body p') = true /\ empty p' = empty p).
    { destruct (Z.of_N (max_request_body_size a) <=? body_bytes_received p + cons)%Z;
        [inversion H; subst; eexists; simpl; repeat split; reflexivity|].
      destruct brerr; [inversion H; subst; eexists; simpl; repeat split; reflexivity|].
      destruct brdone; [|inversion H; subst; eexists; simpl; repeat split; reflexivity].
      destruct (chunked (p <| body := Some br' |> <| body_bytes_received := (body_bytes_received p + cons)%Z |> <| completed := true |>));
        inversion H; subst; eexists; simpl; repeat split; reflexivity. }
    destruct Hex as (compl & X1 & X2 & X3 & X4 & X5).
    exists (CE.EvBody compl). eexists. unfold CE.astep. rewrite Fc, Fb. simpl.
    split; [reflexivity|]. unfold flags_eq. simpl.
    repeat split; auto; try congruence; try discriminate.
    all: try (intros Hf1 Hf2; congruence).
    rewrite X4. exact Fb.
  - (* in header *)
    destruct (find_double_newline (header_plus p ++ data)) as [i|] eqn:Ef.
    + set (p0 := p <| header_bytes_received := N.of_nat i |>) in *.
      destruct (max_request_header_size a <=? N.of_nat i).
      * (* 431 *)
        destruct (parse_header a p0 fake_head_431) as [p1 st] eqn:Ep.
        destruct st; try discriminate. inversion H; subst. clear H.
        eapply sim_431; eauto.
      * (* whatever the stripping of leading blank lines / whitespace is: only the case split matters *)
        match type of H with context[match ?hpx with [] => _ | _ :: _ => _ end] => destruct hpx as [|c0 hp] eqn:El end.
        -- (* empty *)
           inversion H; subst. clear H. exists CE.EvHeadEmpty. eexists.
           unfold CE.astep. rewrite Fc, Fb. split; [reflexivity|]. unfold flags_eq. simpl.
           rewrite Eb. repeat split; auto; try discriminate.
        -- destruct (parse_header a p0 (c0 :: hp)) as [p1 st] eqn:Ep.
           destruct (parse_header_flags _ _ _ _ _ Ep) as (Hc1 & Hh1 & He1 & _).
           pose proof (se_asks _ _ _ _ _ Ep) as Hse. simpl in Hc1, Hh1, He1, Hse.
           destruct (set_expect_flags (expect_continue p) (expect_continue p1) q Fe) as (S1 & S2 & S3 & S4 & S5 & S6 & S7).
           destruct st; try discriminate.
           ++ (* parsed *)
              inversion H; subst. clear H.
              set (p2 := match body p1 with None => p1 <| completed := true |> | Some _ => p1 end) in *.
              set (p3 := if (0 <? content_length p2) && (max_request_body_size a <=? content_length p2)
                         then p2 <| error := Some EBodyTooLarge |> <| completed := true |> else p2) in *.
              assert (P2 : expect_continue p2 = expect_continue p1 /\ body p2 = body p1 /\ empty p2 = empty p1 /\
                           version p2 = version p1 /\ headers p2 = headers p1 /\
                           (is_some (body p1) = false -> completed p2 = true)).
              { unfold p2. destruct (body p1) eqn:Eb1; simpl; repeat split; auto; intros; discriminate. }
              destruct P2 as (A1 & A2 & A3 & A4 & A5 & A6).
              assert (P3 : expect_continue p3 = expect_continue p1 /\ body p3 = body p1 /\ empty p3 = empty p1 /\
                           version p3 = version p1 /\ headers p3 = headers p1 /\
                           (is_some (body p1) = false -> completed p3 = true)).
              { unfold p3. destruct ((0 <? content_length p2) && (max_request_body_size a <=? content_length p2));
                  simpl; repeat split; auto. }
              destruct P3 as (B1 & B2 & B3 & B4 & B5 & B6).
              exists (CE.EvHead (se_of (expect_continue p) (expect_continue p1)) (is_some (body p1)) (completed p3)).
              eexists. unfold CE.astep. rewrite Fc, Fb.
              assert (Hbc : is_some (body p1) || completed p3 = true).
              { destruct (is_some (body p1)) eqn:E; [reflexivity|]. simpl. apply B6. reflexivity. }
              cbv iota. rewrite Hbc. split; [reflexivity|].
              unfold flags_eq, expect_value. simpl. rewrite S1, S5, S7, B1, B2, B3.
              repeat split; auto; try congruence.
              all: try (destruct (se_of (expect_continue p) (expect_continue p1)) as [[]|] eqn:E; simpl in *; try discriminate; rewrite B4; apply Hse; reflexivity).
              all: try (destruct (se_of (expect_continue p) (expect_continue p1)) as [[]|] eqn:E; simpl in *; try discriminate; rewrite B5; apply Hse; reflexivity).
           ++ (* ParsingError / TransferEncodingNotImplemented *)
              inversion H; subst. clear H.
              exists (CE.EvHead (se_of (expect_continue p) (expect_continue p1)) (is_some (body p1)) true).
              eexists. unfold CE.astep. rewrite Fc, Fb. cbv iota. rewrite orb_true_r.
              split; [reflexivity|]. unfold flags_eq, expect_value. simpl. rewrite S1, S5, S7.
              repeat split; auto; try congruence.
              all: try (destruct (se_of (expect_continue p) (expect_continue p1)) as [[]|] eqn:E; simpl in *; try discriminate;  apply Hse; reflexivity).
              all: try (destruct (se_of (expect_continue p) (expect_continue p1)) as [[]|] eqn:E; simpl in *; try discriminate;  apply Hse; reflexivity).
    + destruct (max_request_header_size a <=? header_bytes_received p + lenN data).
      * destruct (parse_header a (p <| header_bytes_received := header_bytes_received p + lenN data |>) fake_head_431)
          as [p1 st] eqn:Ep.
        destruct st; try discriminate. inversion H; subst. clear H.
        eapply sim_431; eauto.
      * (* header not finished *)
        inversion H; subst. clear H. exists CE.EvNone, q. unfold CE.astep. rewrite Fc, Fb.
        split; [reflexivity|]. unfold flags_eq. simpl. rewrite ?Eb.
        repeat split; auto; try discriminate; try congruence.
Qed.

(* ---- HTTPChannel.received (Model/ChanSeq.v), one turn of `while data` ------- *)

Definition cur (c : chan) : parser := match request c with Some r => r | None => parser_init end.

Definition trigger (c : chan) (r1 : parser) : bool :=
  expect_continue r1 && headers_finished r1
  && (match requests c with [] => true | _ => false end) && negb (sent_continue c).

Definition turn (c : chan) (r1 : parser) : chan :=
  let c := c <| request := Some r1 |> in
  let '(c, r2) := if trigger c r1 then send_continue c r1 else (c, r1) in
  let c := c <| request := Some r2 |> in
  if completed r2 then
    let c := c <| sent_continue := false |> in
    let c :=
      if negb (empty r2) then
        let c := c <| requests := requests c ++ [r2] |> in
        if (length (requests c) =? 1)%nat
        then c <| add_task_calls := S (add_task_calls c) |> else c
      else c in
    c <| request := None |>
  else c.

Lemma loop_unfold : forall f a c data,
  received_loop (S f) a c data =
  match Parser.received a (cur c) data with
  | REscapes => CEscapes
  | ROutOfFuel => COutOfFuel
  | RUnmodelled => CUnmodelled
  | ROk r1 n =>
    if (Z.of_nat (length data) <=? n)%Z then COk (turn c r1)
    else received_loop f a (turn c r1) (skipn (Z.to_nat n) data)
  end.
Proof.
  intros. cbn [received_loop]. fold (cur c).
  destruct (Parser.received a (cur c) data) as [r1 n| | |]; try reflexivity.
  unfold turn, trigger. cbn [requests sent_continue set eta_chan].
  destruct (expect_continue r1 && headers_finished r1 &&
            match requests c with [] => true | _ :: _ => false end && negb (sent_continue c)); reflexivity.
Qed.

(* the same loop, also returning the parser states produced by the calls *)
Fixpoint loop_obs (fuel : nat) (a : adj) (c : chan) (data : bytes) : chan_res * list parser :=
  match fuel with
  | O => (COutOfFuel, [])
  | S f =>
    match Parser.received a (cur c) data with
    | REscapes => (CEscapes, [])
    | ROutOfFuel => (COutOfFuel, [])
    | RUnmodelled => (CUnmodelled, [])
    | ROk r1 n =>
      if (Z.of_nat (length data) <=? n)%Z then (COk (turn c r1), [r1])
      else let '(res, l) := loop_obs f a (turn c r1) (skipn (Z.to_nat n) data) in (res, r1 :: l)
    end
  end.

Definition received_obs (a : adj) (c : chan) (data : bytes) : chan_res * list parser :=
  match data with
  | [] => (COk c, [])
  | _ => if will_close c || close_when_flushed c then (COk c, [])
         else loop_obs (S (length data)) a c data
  end.

Fixpoint feed_obs (a : adj) (c : chan) (reads : list bytes) : chan_res * list parser :=
  match reads with
  | [] => (COk c, [])
  | d :: rest =>
    match received_obs a c d with
    | (COk c', l) => let '(res, l') := feed_obs a c' rest in (res, l ++ l')
    | (r, l) => (r, l)
    end
  end.

Lemma loop_obs_fst : forall fuel a c data, fst (loop_obs fuel a c data) = received_loop fuel a c data.
Proof.
  induction fuel as [|f IH]; intros; [reflexivity|].
  rewrite loop_unfold. cbn [loop_obs].
  destruct (Parser.received a (cur c) data) as [r1 n| | |]; try reflexivity.
  destruct (Z.of_nat (length data) <=? n)%Z; [reflexivity|].
  specialize (IH a (turn c r1) (skipn (Z.to_nat n) data)).
  destruct (loop_obs f a (turn c r1) (skipn (Z.to_nat n) data)). exact IH.
Qed.

Lemma received_obs_fst : forall a c d, fst (received_obs a c d) = chan_received a c d.
Proof.
  intros. unfold received_obs, chan_received. destruct d; [reflexivity|].
  destruct (will_close c || close_when_flushed c); [reflexivity|]. apply loop_obs_fst.
Qed.

Theorem feed_obs_fst : forall a reads c, fst (feed_obs a c reads) = feed a c reads.
Proof.
  induction reads as [|d rest IH]; intros; [reflexivity|].
  cbn [feed_obs feed]. rewrite <- received_obs_fst.
  destruct (received_obs a c d) as [[c'| | |] l]; try reflexivity.
  cbn [fst]. specialize (IH c'). destruct (feed_obs a c' rest). exact IH.
Qed.

(* ---- the sequential model is the I/O thread of Model/ChanExpect.v ----------- *)

Definition execs (s : CE.state) (sched : list CE.choice) : CE.state :=
  fold_left (fun s c => match CE.step s c with Some (s', _) => s' | None => s end) sched s.

Lemma exec1_fst : forall l s tr, fst (fold_left CE.exec1 l (s, tr)) = execs s l.
Proof.
  induction l as [|c l IH]; intros; [reflexivity|].
  cbn [fold_left execs]. unfold CE.exec1 at 2. cbn [fst snd].
  destruct (CE.step s c) as [[s' lab]|]; apply IH.
Qed.

Lemma run_app : forall l1 l2, CE.run (l1 ++ l2) = execs (CE.run l1) l2.
Proof.
  intros. unfold CE.run, CE.run_tr. rewrite fold_left_app.
  destruct (fold_left CE.exec1 l1 (CE.init, [])) as [s tr]. apply exec1_fst.
Qed.

Lemma execs_app : forall s l1 l2, execs s (l1 ++ l2) = execs (execs s l1) l2.
Proof. intros. unfold execs. apply fold_left_app. Qed.

Definition tok_bytes (t : CE.tok) : bytes :=
  match t with CE.TInterim _ _ => continue_bytes | CE.TFinal _ => [] end.

Record mrel (c : chan) (s : CE.state) : Prop := {
  m_req : match request c, CE.request s with
          | Some r, Some q => flags_eq q r
          | None, None => True
          | _, _ => False
          end;
  m_reqs : length (requests c) = length (CE.requests s);
  m_sc : sent_continue c = CE.sent_continue s;
  m_wc : will_close c = false /\ close_when_flushed c = false /\
         CE.will_close s = false /\ CE.close_when_flushed s = false;
  m_out : outlog c = concat (map tok_bytes (CE.outlog s));
  m_tasks : add_task_calls c = CE.queued s;
  m_act : CE.active s = []
}.

Lemma mrel_init : mrel chan_init CE.init.
Proof. constructor; simpl; auto. Qed.

Lemma flags_fresh : forall i, flags_eq (CE.fresh_req i) parser_init.
Proof. intros. unfold flags_eq. simpl. auto. Qed.

Lemma is_nil_len : forall {A B} (l : list A) (l' : list B), length l = length l' ->
  (match l with [] => true | _ => false end) = CE.is_nil l'.
Proof. intros A B l l' H. destruct l, l'; simpl in *; auto; discriminate. Qed.

(* the end of a turn: `if self.request.completed: ...` *)
Definition finish (c : chan) (r2 : parser) : chan :=
  if completed r2 then
    let c := c <| sent_continue := false |> in
    let c :=
      if negb (empty r2) then
        let c := c <| requests := requests c ++ [r2] |> in
        if (length (requests c) =? 1)%nat
        then c <| add_task_calls := S (add_task_calls c) |> else c
      else c in
    c <| request := None |>
  else c.

Lemma turn_finish : forall c r1,
  turn c r1 =
  let c1 := c <| request := Some r1 |> in
  if trigger c1 r1
  then finish (c1 <| outlog := outlog c1 ++ continue_bytes |> <| sent_continue := true |>
                  <| request := Some (r1 <| expect_continue := false |>) |>)
              (r1 <| expect_continue := false |>)
  else finish c1 r1.
Proof.
  intros. unfold turn, finish. cbv zeta.
  destruct (trigger (c <| request := Some r1 |>) r1); [unfold send_continue; cbn|];
    destruct c; reflexivity.
Qed.

Lemma finish_sim : forall c s r2 q2 more s' l',
  mrel c s -> request c = Some r2 -> CE.request s = Some q2 ->
  CE.io_complete s more = (s', l') ->
  mrel (finish c r2) s' /\ CE.io s' = (if more then CE.IOLoop else CE.IOIdle) /\
  CE.rlock s' = (if more then CE.rlock s else false).
Proof.
  intros c s r2 q2 more s' l' M Hr Hq Ec.
  destruct M as [M1 M2 M3 (M4a & M4b & M4c & M4d) M5 M6 M7].
  rewrite Hr, Hq in M1. destruct M1 as (Fc & Fe & Fh & Fb & Fem).
  pose proof (CB.io_complete_spec _ _ _ _ Ec) as S.
  destruct S as (S1 & S2 & S3 & S4 & S5 & S6 & S8 & S9 & S10 & S11).
  split; [|split; assumption].
  unfold finish. rewrite <- Fc, <- Fem.
  destruct S11 as [(q & Sq & Sc & Se & Sr & Ssc & Srs & Sqd)|[(q & Sq & Sc & Se & Sr & Ssc & Srs & Sqd)|(Sc & Sr & Ssc & Srs & Sqd)]].
  - rewrite Hq in Sq. inversion Sq; subst q. rewrite Sc, Se. cbn [negb].
    assert (El : (length (requests c ++ [r2]) =? 1)%nat = CE.is_nil (CE.requests s)).
    { rewrite app_length. cbn. destruct (requests c), (CE.requests s); simpl in *; try discriminate; auto.
      rewrite Nat.add_comm. reflexivity. }
    cbn [requests set eta_chan]. rewrite El.
    constructor; destruct (CE.is_nil (CE.requests s)); cbn; rewrite ?Sr, ?Ssc, ?Srs, ?Sqd, ?S1, ?S2, ?S4, ?S5; auto;
      try (rewrite !app_length; cbn; congruence).
  - rewrite Hq in Sq. inversion Sq; subst q. rewrite Sc, Se. cbn [negb].
    constructor; cbn; rewrite ?Sr, ?Ssc, ?Srs, ?Sqd, ?S1, ?S2, ?S4, ?S5; auto.
  - rewrite (Sc q2 Hq).
    constructor; cbn; rewrite ?Sr, ?Ssc, ?Srs, ?Sqd, ?S1, ?S2, ?S4, ?S5, ?Hr, ?Hq; auto.
    unfold flags_eq; auto.
Qed.

Lemma turn_sim : forall a c s data r1 n more,
  mrel c s -> CE.io s = CE.IOLoop -> CE.rlock s = true ->
  Parser.received a (cur c) data = ROk r1 n ->
  exists ev sched1,
    (sched1 = [CE.CIOParse ev more] \/ sched1 = [CE.CIOParse ev more; CE.CIOSend]) /\
    mrel (turn c r1) (execs s sched1) /\
    CE.io (execs s sched1) = (if more then CE.IOLoop else CE.IOIdle) /\
    CE.rlock (execs s sched1) = more /\
    (CP.ev_asks ev = true -> version r1 = s_1_1 /\ expect_value r1 = true).
Proof.
  intros a c s data r1 n more M Hio Hrl Hrecv.
  pose proof M as [M1 M2 M3 (M4a & M4b & M4c & M4d) M5 M6 M7].
  set (q0 := match CE.request s with Some q => q | None => CE.fresh_req (CE.next_id s) end).
  assert (F0 : flags_eq q0 (cur c)).
  { unfold q0, cur. destruct (request c), (CE.request s); try tauto. apply flags_fresh. }
  destruct (abs_sim _ _ _ _ _ _ Hrecv F0) as (ev & q1 & Ha & F1 & Hrid & Hask & _).
  exists ev.
  pose proof F1 as (Fc & Fe & Fh & Fb & Fem).
  assert (Hnil : (match requests c with [] => true | _ => false end) = CE.is_nil (CE.requests s))
    by (apply is_nil_len; assumption).
  assert (Estep : CE.step s (CE.CIOParse ev more) =
    let s1 := (let s0 := s <| CE.request := Some q1 |> in
               let s0 := match CE.request s with Some _ => s0 | None => s0 <| CE.next_id := S (CE.next_id s0) |> end in
               if CE.g_asked q1 then s0 <| CE.askers := CE.rid q1 :: CE.askers s0 |> else s0) in
    let lnew := match CE.request s with Some _ => [] | None => [CE.LNew (CE.rid q1)] end in
    if CE.wants_continue s1 && CE.is_nil (CE.requests s1)
    then Some (s1 <| CE.request := Some (q1 <| CE.a_expect := false |>) |> <| CE.io := CE.IOSend more |>, lnew)
    else let '(s', l) := CE.io_complete s1 more in Some (s', lnew ++ l)).
  { cbn [CE.step]. rewrite Hio. unfold q0 in Ha. destruct (CE.request s); rewrite Ha; reflexivity. }
  cbv zeta in Estep.
  match type of Estep with _ = (if CE.wants_continue ?x && _ then _ else _) => set (s1 := x) in * end.
  assert (S1 : CE.request s1 = Some q1 /\ CE.requests s1 = CE.requests s /\
               CE.sent_continue s1 = CE.sent_continue s /\ CE.outlog s1 = CE.outlog s /\
               CE.queued s1 = CE.queued s /\ CE.active s1 = CE.active s /\
               CE.will_close s1 = CE.will_close s /\ CE.close_when_flushed s1 = CE.close_when_flushed s /\
               CE.rlock s1 = CE.rlock s).
  { unfold s1. destruct (CE.request s); destruct (CE.g_asked q1); simpl; repeat split; reflexivity. }
  destruct S1 as (T1 & T2 & T3 & T4 & T5 & T6 & T7 & T8 & T9).
  set (c1 := c <| request := Some r1 |>).
  assert (M1' : mrel c1 s1).
  { constructor; unfold c1; cbn [request requests sent_continue will_close close_when_flushed outlog add_task_calls set eta_chan];
      rewrite ?T1, ?T2, ?T3, ?T4, ?T5, ?T6, ?T7, ?T8; auto. }
  assert (Etrig : trigger c1 r1 = CE.wants_continue s1 && CE.is_nil (CE.requests s1)).
  { unfold trigger, CE.wants_continue, c1. rewrite T1, T2, T3. cbn [requests sent_continue set eta_chan].
    rewrite Hnil, M3, Fe, Fh.
    destruct (expect_continue r1), (headers_finished r1), (CE.is_nil (CE.requests s)), (CE.sent_continue s); reflexivity. }
  rewrite turn_finish. cbv zeta. fold c1. rewrite Etrig.
  destruct (CE.wants_continue s1 && CE.is_nil (CE.requests s1)) eqn:Ew.
  - (* send_continue *)
    exists [CE.CIOParse ev more; CE.CIOSend]. split; [right; reflexivity|].
    cbn [execs fold_left]. rewrite Estep.
    match goal with |- context[CE.step ?x CE.CIOSend] => set (s2 := x) end.
    set (q2 := q1 <| CE.a_expect := false |>).
    set (r2 := r1 <| expect_continue := false |>).
    assert (Eq2 : CE.request s2 = Some q2) by reflexivity.
    cbn [CE.step]. change (CE.io s2) with (CE.IOSend more). cbv iota.
    destruct (CE.do_send s2 false) as [s3 l3] eqn:Ed.
    destruct (CE.io_complete s3 more) as [s4 l4] eqn:Ec.
    pose proof (CB.do_send_spec _ _ _ _ Ed q2 Eq2) as D.
    destruct D as (D1 & D2 & D3 & D4 & D5 & D6 & D7 & D8 & D9 & D10 & D11 & D12 & D13 & D14).
    set (c2 := c1 <| outlog := outlog c1 ++ continue_bytes |> <| sent_continue := true |> <| request := Some r2 |>).
    assert (U : CE.requests s2 = CE.requests s /\ CE.will_close s2 = CE.will_close s /\
                CE.close_when_flushed s2 = CE.close_when_flushed s /\ CE.outlog s2 = CE.outlog s /\
                CE.queued s2 = CE.queued s /\ CE.active s2 = CE.active s /\ CE.rlock s2 = CE.rlock s).
    { change (CE.requests s2) with (CE.requests s1). change (CE.will_close s2) with (CE.will_close s1).
      change (CE.close_when_flushed s2) with (CE.close_when_flushed s1). change (CE.outlog s2) with (CE.outlog s1).
      change (CE.queued s2) with (CE.queued s1). change (CE.active s2) with (CE.active s1).
      change (CE.rlock s2) with (CE.rlock s1). auto 10. }
    destruct U as (U1 & U2 & U3 & U4 & U5 & U6 & U7).
    assert (M2' : mrel c2 s3).
    { constructor; unfold c2, c1; cbn [request requests sent_continue will_close close_when_flushed outlog add_task_calls set eta_chan];
        rewrite ?D1, ?D2, ?D3, ?D8, ?D7, ?D11, ?D12, ?D13, ?U1, ?U2, ?U3, ?U4, ?U5, ?U6; auto.
      - unfold flags_eq, q2, r2. cbn. repeat split; auto.
      - rewrite map_app, concat_app. cbn. rewrite ?app_nil_r, <- M5. reflexivity. }
    destruct (finish_sim c2 s3 r2 q2 more s4 l4 M2' eq_refl D13 Ec) as (R1 & R2 & R3).
    cbn [fst]. split; [exact R1|]. split; [exact R2|]. split; [|assumption].
    rewrite R3, D5, U7, Hrl. destruct more; reflexivity.
  - exists [CE.CIOParse ev more]. split; [left; reflexivity|].
    cbn [execs fold_left]. rewrite Estep.
    destruct (CE.io_complete s1 more) as [s' l'] eqn:Ec.
    destruct (finish_sim c1 s1 r1 q1 more s' l' M1' eq_refl T1 Ec) as (R1 & R2 & R3).
    split; [exact R1|]. split; [exact R2|]. split; [|assumption].
    rewrite R3, T9, Hrl. destruct more; reflexivity.
Qed.

Definition justified (rs : list parser) (sched : list CE.choice) : Prop :=
  forall ev more, In (CE.CIOParse ev more) sched -> CP.ev_asks ev = true ->
    exists r, In r rs /\ version r = s_1_1 /\ expect_value r = true.

Lemma justified_app : forall rs1 rs2 l1 l2, justified rs1 l1 -> justified rs2 l2 ->
  justified (rs1 ++ rs2) (l1 ++ l2).
Proof.
  intros rs1 rs2 l1 l2 J1 J2 ev more Hin Ha. apply in_app_or in Hin. destruct Hin as [Hin|Hin].
  - destruct (J1 ev more Hin Ha) as (r & Hr & Hv). exists r. split; [apply in_or_app; left; assumption|assumption].
  - destruct (J2 ev more Hin Ha) as (r & Hr & Hv). exists r. split; [apply in_or_app; right; assumption|assumption].
Qed.

Lemma loop_sim : forall fuel a c data c' rs s,
  loop_obs fuel a c data = (COk c', rs) -> mrel c s -> CE.io s = CE.IOLoop -> CE.rlock s = true ->
  exists sched, mrel c' (execs s sched) /\ CE.io (execs s sched) = CE.IOIdle /\
                CE.rlock (execs s sched) = false /\ justified rs sched.
Proof.
  induction fuel as [|f IH]; intros a c data c' rs s H M Hio Hrl; [discriminate|].
  cbn [loop_obs] in H.
  destruct (Parser.received a (cur c) data) as [r1 n| | |] eqn:Er; try discriminate.
  destruct (Z.of_nat (length data) <=? n)%Z eqn:El.
  - inversion H; subst. clear H.
    destruct (turn_sim a c s data r1 n false M Hio Hrl Er) as (ev & sched1 & Hs & M' & Hio' & Hrl' & Hask).
    exists sched1. split; [assumption|split; [assumption|split; [assumption|]]].
    intros ev' more' Hin Ha. exists r1. split; [left; reflexivity|].
    apply Hask. destruct Hs as [-> | ->]; simpl in Hin.
    + destruct Hin as [Hin|[]]. inversion Hin; subst. assumption.
    + destruct Hin as [Hin|[Hin|[]]]; [|discriminate]. inversion Hin; subst. assumption.
  - destruct (loop_obs f a (turn c r1) (skipn (Z.to_nat n) data)) as [res l] eqn:Eo.
    inversion H; subst. clear H.
    destruct (turn_sim a c s data r1 n true M Hio Hrl Er) as (ev & sched1 & Hs & M' & Hio' & Hrl' & Hask).
    destruct (IH a _ _ _ _ _ Eo M' Hio' Hrl') as (sched2 & M2 & Hio2 & Hrl2 & J2).
    exists (sched1 ++ sched2). rewrite execs_app. split; [assumption|split; [assumption|split; [assumption|]]].
    change (r1 :: l) with ([r1] ++ l). apply justified_app; [|assumption].
    intros ev' more' Hin Ha. exists r1. split; [left; reflexivity|].
    apply Hask. destruct Hs as [-> | ->]; simpl in Hin.
    + destruct Hin as [Hin|[]]. inversion Hin; subst. assumption.
    + destruct Hin as [Hin|[Hin|[]]]; [|discriminate]. inversion Hin; subst. assumption.
Qed.

Lemma received_sim : forall a c d c' rs s,
  received_obs a c d = (COk c', rs) -> mrel c s -> CE.io s = CE.IOIdle -> CE.rlock s = false ->
  exists sched, mrel c' (execs s sched) /\ CE.io (execs s sched) = CE.IOIdle /\
                CE.rlock (execs s sched) = false /\ justified rs sched.
Proof.
  intros a c d c' rs s H M Hio Hrl. unfold received_obs in H.
  assert (Hnone : forall rs0, exists sched, mrel c (execs s sched) /\ CE.io (execs s sched) = CE.IOIdle /\
                      CE.rlock (execs s sched) = false /\ justified rs0 sched).
  { intros rs0. exists []. simpl. split; [assumption|split; [assumption|split; [assumption|]]]. intros ev more []. }
  destruct d as [|b d]; [inversion H; subst; apply Hnone|].
  destruct M as [M1 M2 M3 (M4a & M4b & M4c & M4d) M5 M6 M7].
  rewrite M4a, M4b in H. cbn [orb] in H.
  set (s1 := s <| CE.rlock := true |> <| CE.io := CE.IOLoop |>).
  assert (E1 : CE.step s CE.CIOEnter = Some (s1, [])).
  { cbn [CE.step]. rewrite Hio, Hrl, M4c, M4d. reflexivity. }
  assert (M' : mrel c s1) by (constructor; auto).
  destruct (loop_sim _ _ _ _ _ _ s1 H M' eq_refl eq_refl) as (sched & Q1 & Q2 & Q3 & Q4).
  exists (CE.CIOEnter :: sched). cbn [execs fold_left]. rewrite E1. fold (execs s1 sched).
  split; [assumption|split; [assumption|split; [assumption|]]].
  intros ev more [Hin|Hin] Ha; [discriminate|]. apply (Q4 ev more Hin Ha).
Qed.

(* every sequential run of HTTPChannel.received (Model/ChanSeq.v: the model that
   K-chanseq compares with the real channel) is a run of the I/O thread of the
   interleaving model, and every event of that run that sets the flag is
   justified by a parser state with version "1.1" and Expect = 100-continue *)
Theorem seq_refines : forall a reads c rs,
  feed_obs a chan_init reads = (COk c, rs) ->
  exists sched, mrel c (CE.run sched) /\ CE.io (CE.run sched) = CE.IOIdle /\
                CE.rlock (CE.run sched) = false /\ justified rs sched.
Proof.
  intros a reads.
  assert (G : forall reads c0 c rs sched0,
    feed_obs a c0 reads = (COk c, rs) -> mrel c0 (CE.run sched0) ->
    CE.io (CE.run sched0) = CE.IOIdle -> CE.rlock (CE.run sched0) = false ->
    exists sched1, mrel c (CE.run (sched0 ++ sched1)) /\ CE.io (CE.run (sched0 ++ sched1)) = CE.IOIdle /\
                   CE.rlock (CE.run (sched0 ++ sched1)) = false /\ justified rs sched1).
  { clear reads. induction reads as [|d rest IH]; intros c0 c rs sched0 H M Hio Hrl.
    - inversion H; subst. exists []. rewrite app_nil_r. split; [assumption|split; [assumption|split; [assumption|]]]. intros ev more [].
    - cbn [feed_obs] in H. destruct (received_obs a c0 d) as [[c1| | |] l1] eqn:Er; try discriminate.
      destruct (feed_obs a c1 rest) as [res l2] eqn:Ef. inversion H; subst. clear H.
      destruct (received_sim _ _ _ _ _ _ Er M Hio Hrl) as (sched1 & Q1 & Q2 & Q3 & Q4).
      rewrite <- run_app in Q1, Q2, Q3.
      destruct (IH _ _ _ _ Ef Q1 Q2 Q3) as (sched2 & R1 & R2 & R3 & R4).
      exists (sched1 ++ sched2). rewrite app_assoc. split; [assumption|split; [assumption|split; [assumption|]]].
      apply justified_app; assumption. }
  intros c rs H.
  destruct (G reads chan_init c rs [] H mrel_init eq_refl eq_refl) as (sched & Q). exists sched. exact Q.
Qed.

(* ---- consequences for the sequential model -------------------------------- *)

Lemma no_interim_bytes : forall l, (forall i w, ~ In (CE.TInterim i w) l) -> concat (map tok_bytes l) = [].
Proof.
  induction l as [|t l IH]; intros H; [reflexivity|].
  destruct t as [i w|i]; [exfalso; apply (H i w); left; reflexivity|].
  simpl. apply IH. intros i' w' Hin. apply (H i' w'). right. assumption.
Qed.

(* HTTP/1.0 requests and requests that did not ask never get an interim
   response: if no parser state produced while the stream is fed has version
   "1.1" together with Expect = "100-continue", nothing is logged *)
Theorem seq_no_interim : forall a reads c rs,
  feed_obs a chan_init reads = (COk c, rs) ->
  (forall r, In r rs -> version r = s_1_1 -> expect_value r = true -> False) ->
  outlog c = [].
Proof.
  intros a reads c rs H Hno.
  destruct (seq_refines _ _ _ _ H) as (sched & M & _ & _ & J).
  rewrite (m_out _ _ M). apply no_interim_bytes.
  apply CP.no_interim_unless_asked. intros ev more Hin.
  destruct (CP.ev_asks ev) eqn:E; [|reflexivity]. exfalso.
  destruct (J ev more Hin E) as (r & Hr & Hv & He). eapply Hno; eauto.
Qed.

(* the flag itself: set only by an HTTP/1.1 head with Expect: 100-continue *)
Theorem flag_only_11 : forall a p data p' n,
  Parser.received a p data = ROk p' n ->
  expect_continue p = false -> expect_continue p' = true ->
  version p' = s_1_1 /\ expect_value p' = true /\ body p = None /\ completed p = false.
Proof.
  intros a p data p' n H E0 E1.
  set (q := CE.mkReq 0 (completed p) (expect_continue p) (headers_finished p) (is_some (body p)) (empty p) false 0).
  assert (F : flags_eq q p) by (unfold flags_eq, q; simpl; auto).
  destruct (abs_sim _ _ _ _ _ _ H F) as (ev & q' & Ha & (Fc & Fe & Fh & Fb & Fem) & _ & Hask & _).
  unfold CE.astep in Ha. unfold q in Ha. cbn [CE.a_completed CE.a_body] in Ha.
  destruct (completed p) eqn:Ec.
  { destruct ev; try discriminate. inversion Ha; subst. simpl in Fe. congruence. }
  destruct (body p) eqn:Eb; cbn [is_some] in Ha.
  { destruct ev; try discriminate. inversion Ha; subst. simpl in Fe. congruence. }
  assert (Hev : CP.ev_asks ev = true).
  { destruct ev as [|[[]|] b| |[[]|] b c0|c0]; try discriminate; try reflexivity;
      simpl in Ha; try (destruct (b || c0)); inversion Ha; subst; simpl in Fe; congruence. }
  destruct (Hask Hev). auto.
Qed.

(* what one turn of `while data` does, by cases *)
Theorem turn_cases : forall c r1,
  let c1 := c <| request := Some r1 |> in
  let r2 := r1 <| expect_continue := false |> in
  (* the interim response is due and the request is still incomplete: it stays *)
  (trigger c1 r1 = true -> completed r1 = false ->
     turn c r1 = c <| outlog := outlog c ++ continue_bytes |> <| sent_continue := true |>
                   <| request := Some r2 |>) /\
  (* due, but the request was complete (or refused) at the end of its header block:
     interim response, then queued at once, flag consumed, latch cleared *)
  (trigger c1 r1 = true -> completed r1 = true -> empty r1 = false ->
     requests (turn c r1) = [r2] /\ request (turn c r1) = None /\
     sent_continue (turn c r1) = false /\ outlog (turn c r1) = outlog c ++ continue_bytes /\
     add_task_calls (turn c r1) = S (add_task_calls c)) /\
  (* not due: a completed request is queued as the parser produced it *)
  (trigger c1 r1 = false -> completed r1 = true -> empty r1 = false ->
     requests (turn c r1) = requests c ++ [r1] /\ request (turn c r1) = None /\
     sent_continue (turn c r1) = false /\ outlog (turn c r1) = outlog c) /\
  (trigger c1 r1 = false -> completed r1 = false ->
     turn c r1 = c <| request := Some r1 |>).
Proof.
  intros c r1 c1 r2. rewrite turn_finish. cbv zeta. fold c1. unfold finish.
  assert (Hnil : trigger c1 r1 = true -> requests c = []).
  { intros H. unfold trigger in H. destruct (ChanSeq.requests c1) eqn:E; [|rewrite andb_false_r in H; discriminate].
    exact E. }
  repeat split; intros.
  all: try (rewrite (Hnil H)).
  all: rewrite ?H; cbn [completed empty set eta_parser]; rewrite ?H0, ?H1; cbn.
  all: try (rewrite (Hnil H)); cbn.
  all: try (destruct (length (requests c ++ [r1]) =? 1)%nat); try reflexivity.
  all: destruct c; reflexivity.
Qed.

(* the parser object under construction is well-formed: not completed, and once its
   header block is finished it has a body receiver (so it never parses a second
   header block); before that it carries no header field, no body receiver and no flag *)
Definition wf_cur (c : chan) : Prop :=
  forall r, request c = Some r ->
    completed r = false /\ (headers_finished r = true -> body r <> None) /\
    (headers_finished r = false -> headers r = [] /\ body r = None /\ expect_continue r = false).

Lemma wf_parser_init : completed parser_init = false /\ headers_finished parser_init = false /\
  headers parser_init = [] /\ body parser_init = None /\ expect_continue parser_init = false.
Proof. repeat split. Qed.

Lemma received_wf : forall a p data p' n,
  Parser.received a p data = ROk p' n ->
  completed p = false -> (headers_finished p = true -> body p <> None) ->
  (headers_finished p = false -> headers p = [] /\ body p = None /\ expect_continue p = false) ->
  completed p' = false ->
  (headers_finished p' = true -> body p' <> None) /\
  (headers_finished p' = false -> headers p' = [] /\ body p' = None /\ expect_continue p' = false).
Proof.
  intros a p data p' n H Ec W1 W2 Ec'. unfold Parser.received in H. rewrite Ec in H.
  destruct (body p) as [br|] eqn:Eb.
  - assert (Hhf : headers_finished p = true).
    { destruct (headers_finished p) eqn:E; [reflexivity|]. destruct (W2 eq_refl) as (_ & W & _). discriminate. }
    destruct (match br with
              | BFixed f => let '(f', n0) := fixed_received f data in Some (BFixed f', n0, None, f_completed f')
              | BChunked c => match chunked_received c data with
                              | Some (c', n0) => Some (BChunked c', n0, c_error c', c_completed c')
                              | None => None end end) as [[[[br' cons] brerr] brdone]|]; [|discriminate].
    destruct (Z.of_N (max_request_body_size a) <=? body_bytes_received p + cons)%Z;
      [inversion H; subst; simpl in Ec'; discriminate|].
    destruct brerr; [inversion H; subst; simpl in Ec'; discriminate|].
    destruct brdone.
    + destruct (chunked _); inversion H; subst; simpl in Ec'; discriminate.
    + inversion H; subst. simpl. split; [intros _; discriminate|]. intros E. congruence.
  - destruct (find_double_newline (header_plus p ++ data)) as [i|].
    + destruct (max_request_header_size a <=? N.of_nat i).
      { destruct (parse_header a _ fake_head_431) as [p1 st]. destruct st; try discriminate.
        inversion H; subst. simpl in Ec'. discriminate. }
      match type of H with context[match ?hpx with [] => _ | _ :: _ => _ end] => destruct hpx as [|c0 hp] end.
      { inversion H; subst. simpl in Ec'. discriminate. }
      destruct (parse_header a _ (c0 :: hp)) as [p1 st]. destruct st; try discriminate.
      * inversion H; subst. clear H.
        destruct (body p1) eqn:Eb1.
        -- destruct ((0 <? content_length p1) && (max_request_body_size a <=? content_length p1));
             simpl in *; [discriminate|]. rewrite Eb1. split; [intros _; discriminate|intros; discriminate].
        -- destruct ((0 <? content_length (p1 <| completed := true |>)) &&
                     (max_request_body_size a <=? content_length (p1 <| completed := true |>)));
             simpl in Ec'; discriminate.
      * inversion H; subst. simpl in Ec'. discriminate.
    + destruct (max_request_header_size a <=? header_bytes_received p + lenN data).
      { destruct (parse_header a _ fake_head_431) as [p1 st]. destruct st; try discriminate.
        inversion H; subst. simpl in Ec'. discriminate. }
      inversion H; subst. simpl. rewrite Eb. split.
      * intros E. specialize (W1 E). congruence.
      * intros E. apply W2. assumption.
Qed.

Lemma finish_request : forall c r2,
  (completed r2 = true -> request (finish c r2) = None) /\
  (completed r2 = false -> finish c r2 = c).
Proof.
  intros c r2. unfold finish. split; intros H; rewrite H; [|reflexivity].
  destruct (negb (empty r2)); [destruct (length _ =? 1)%nat|]; reflexivity.
Qed.

(* C19 (sequential part): the object under construction stays well-formed over every
   turn of `while data` -- so exactly one header block is parsed into it, from an
   empty headers dict: a queued request has only its own header fields.  (Before
   fix e3537e2 this failed for requests complete or refused at the end of their
   header block: findings F5/F6.) *)
Theorem seq_wf_turn : forall a c data r1 n,
  wf_cur c -> Parser.received a (cur c) data = ROk r1 n -> wf_cur (turn c r1).
Proof.
  intros a c data r1 n W H.
  assert (P0 : completed (cur c) = false /\ (headers_finished (cur c) = true -> body (cur c) <> None) /\
               (headers_finished (cur c) = false -> headers (cur c) = [] /\ body (cur c) = None /\ expect_continue (cur c) = false)).
  { unfold cur. destruct (request c) as [r|] eqn:Er; [apply W; assumption|].
    split; [reflexivity|]. split; [discriminate|]. intros _. repeat split. }
  destruct P0 as (P1 & P2 & P3).
  pose proof (received_wf _ _ _ _ _ H P1 P2 P3) as R.
  rewrite turn_finish. cbv zeta.
  destruct (trigger (c <| request := Some r1 |>) r1) eqn:Et.
  - set (r2 := r1 <| expect_continue := false |>).
    destruct (finish_request (c <| request := Some r1 |> <| outlog := outlog (c <| request := Some r1 |>) ++ continue_bytes |>
                                <| sent_continue := true |> <| request := Some r2 |>) r2) as [F1 F2].
    destruct (completed r1) eqn:Ec.
    + intros r Hr. rewrite (F1 Ec) in Hr. discriminate.
    + rewrite (F2 Ec). intros r Hr. cbn in Hr. inversion Hr; subst. clear Hr.
      destruct (R eq_refl) as (R1 & R2). cbn. split; [assumption|]. split; [assumption|].
      intros E. unfold trigger in Et. rewrite E in Et. rewrite andb_false_r in Et. discriminate.
  - destruct (finish_request (c <| request := Some r1 |>) r1) as [F1 F2].
    destruct (completed r1) eqn:Ec.
    + intros r Hr. rewrite (F1 eq_refl) in Hr. discriminate.
    + rewrite (F2 eq_refl). intros r Hr. cbn in Hr. inversion Hr; subst.
      destruct (R eq_refl) as (R1 & R2). auto.
Qed.

Lemma wf_cur_init : wf_cur chan_init.
Proof. intros r H. discriminate. Qed.

Lemma loop_wf : forall fuel a c data c',
  received_loop fuel a c data = COk c' -> wf_cur c -> wf_cur c'.
Proof.
  induction fuel as [|f IH]; intros a c data c' H W; [discriminate|].
  rewrite loop_unfold in H.
  destruct (Parser.received a (cur c) data) as [r1 n| | |] eqn:Er; try discriminate.
  pose proof (seq_wf_turn _ _ _ _ _ W Er) as W'.
  destruct (Z.of_nat (length data) <=? n)%Z.
  - inversion H; subst. assumption.
  - eapply IH; eauto.
Qed.

(* for all pipelines and all segmentations *)
Theorem seq_wf_run : forall a reads c0 c,
  feed a c0 reads = COk c -> wf_cur c0 -> wf_cur c.
Proof.
  induction reads as [|d rest IH]; intros c0 c H W.
  - inversion H; subst. assumption.
  - cbn [feed] in H.
    destruct (chan_received a c0 d) as [c1| | |] eqn:Ec; try discriminate.
    apply (IH c1 c H).
    unfold chan_received in Ec. destruct d as [|b d]; [inversion Ec; subst; assumption|].
    destruct (will_close c0 || close_when_flushed c0); [inversion Ec; subst; assumption|].
    eapply loop_wf; eauto.
Qed.

(* ---- the pipelines of the former findings F5 and F6, now ------------------------ *)

Definition adj_default : adj :=
  {| max_request_header_size := 262144; max_request_body_size := 1073741824;
     adj_url_scheme := [104;116;116;112] |}.
Definition adj_small_body : adj :=
  {| max_request_header_size := 262144; max_request_body_size := 50;
     adj_url_scheme := [104;116;116;112] |}.

(* b"GET /a HTTP/1.1\r\nExpect: 100-continue\r\n\r\n" *)
Definition req_a_expect_nobody : bytes :=
  [71;69;84;32;47;97;32;72;84;84;80;47;49;46;49;13;10;
   69;120;112;101;99;116;58;32;49;48;48;45;99;111;110;116;105;110;117;101;13;10;13;10].
(* b"GET /b HTTP/1.1\r\nX: 1\r\n\r\n" *)
Definition req_b_plain : bytes :=
  [71;69;84;32;47;98;32;72;84;84;80;47;49;46;49;13;10;88;58;32;49;13;10;13;10].
(* b"POST /a HTTP/1.1\r\nExpect: 100-continue\r\nContent-Length: 100\r\n\r\n" *)
Definition req_a_expect_big : bytes :=
  [80;79;83;84;32;47;97;32;72;84;84;80;47;49;46;49;13;10;
   69;120;112;101;99;116;58;32;49;48;48;45;99;111;110;116;105;110;117;101;13;10;
   67;111;110;116;101;110;116;45;76;101;110;103;116;104;58;32;49;48;48;13;10;13;10].

(* the body-less expecting request /a gets one 100 Continue and is queued; /b is a
   request of its own, without /a's Expect field; add_task once (for /a) *)
Example ex_former_F5 : exists c,
  feed adj_default chan_init [req_a_expect_nobody ++ req_b_plain] = COk c /\
  outlog c = continue_bytes /\
  map path (requests c) = [[47;97]; [47;98]] /\
  map (fun r => hget (headers r) s_EXPECT) (requests c) = [Some s_100_continue; None] /\
  add_task_calls c = 1%nat /\ request c = None /\ sent_continue c = false.
Proof. eexists. vm_compute. repeat split. Qed.

(* Content-Length >= max_request_body_size with Expect: 100-continue: 100 Continue,
   then the request is queued with its 413 error (it is answered and the
   connection closes); nothing is left under construction *)
Example ex_former_F6 : exists c r,
  feed adj_small_body chan_init [req_a_expect_big] = COk c /\
  outlog c = continue_bytes /\ requests c = [r] /\ add_task_calls c = 1%nat /\
  request c = None /\ error r = Some EBodyTooLarge /\ completed r = true.
Proof. eexists. eexists. vm_compute. repeat split. Qed.
