(* Proof/ChanWake.v -- C05: the combined invariant holds in every reachable state, and in a
   quiescent state it leaves no room for undelivered output, an
   unserviced request, a producer parked with space, or an unfinished close. *)
From Coq Require Import List ZArith Bool Arith Lia.
From WV Require Import Lib.Conc Model.ChanWake Proof.ChanWakeInv Proof.ChanWakeBase Proof.ChanWakeL1 Proof.ChanWakeL1b
  Proof.ChanWakeL2 Proof.ChanWakeL3 Proof.ChanWakeL4 Proof.ChanWakeL5 Proof.ChanWakeL6.
Import ListNotations.
Open Scope Z_scope.

Definition Inv (c : cfg) (s : state) : Prop :=
  Inv1 s /\ Inv2 s /\ Inv3 s /\ Inv4 c s /\ Inv5 c s /\ G6 c s /\ Inv1b s.

Definition runc (c : cfg) (nw : nat) (sched : list choice) : state := run (step c) (init nw) sched.

Lemma inv_init : forall c nw, (0 < nw)%nat -> Inv c (init nw).
Proof.
  intros. unfold Inv.
  split; [apply inv1_init|]. split; [apply inv2_init; auto|]. split; [apply inv3_init|].
  split; [apply inv4_init|]. split; [apply inv5_init|]. split; [apply g6_init|apply inv1b_init].
Qed.

Lemma inv_step : forall c s ch s' l,
  0 <= hw c -> Inv c s -> step c s ch = Some (s', l) -> Inv c s'.
Proof.
  intros c s ch s' l Hhw (H1 & H2 & H3 & H4 & H5 & H6 & H7) H. unfold Inv.
  split; [eapply inv1_step; eauto|]. split; [eapply inv2_step; eauto|]. split; [eapply inv3_step; eauto|].
  split; [eapply inv4_step; eauto|]. split; [eapply inv5_step; eauto|]. split; [eapply g6_step; eauto|eapply inv1b_step; eauto].
Qed.

Theorem inv_reachable : forall c nw sched,
  0 <= hw c -> (0 < nw)%nat -> Inv c (runc c nw sched).
Proof.
  intros c nw sched Hhw Hnw. unfold runc.
  apply (invariant_rule _ _ _ (step c) (Inv c)).
  - apply inv_init; auto.
  - intros s ch s' l IH H. eapply inv_step; eauto.
Qed.

Lemma forallb_nth : forall A (f : A -> bool) l j p,
  forallb f l = true -> nth_error l j = Some p -> f p = true.
Proof. intros. rewrite forallb_forall in H. apply H. eapply nth_error_In; eauto. Qed.

Lemma existsb_false_nth : forall A (f : A -> bool) l j p,
  existsb f l = false -> nth_error l j = Some p -> f p = false.
Proof.
  intros. destruct (f p) eqn:E; auto. rewrite (existsb_nth _ _ _ _ _ H0 E) in H. discriminate.
Qed.

Lemma forallb_intro : forall A (f : A -> bool) l,
  (forall j p, nth_error l j = Some p -> f p = true) -> forallb f l = true.
Proof.
  intros. apply forallb_forall. intros x Hx. apply In_nth_error in Hx. destruct Hx as [j Hj]. eauto.
Qed.

Lemma existsb_intro_false : forall A (f : A -> bool) l,
  (forall j p, nth_error l j = Some p -> f p = false) -> existsb f l = false.
Proof.
  intros. destruct (existsb f l) eqn:E; auto. apply existsb_ex in E. destruct E as (j & p & Hj & Hp).
  rewrite (H _ _ Hj) in Hp. discriminate.
Qed.

(* the predicate of C05 in a quiescent state, from the invariant *)
Lemma quiescent_ok : forall c s,
  0 <= hw c -> Inv c s -> quiescent_parked s = true -> c05_ok s = true.
Proof.
  intros c s Hhw (H1 & H2 & H3 & H4 & (HJw & HJr) & _) Hq.
  unfold quiescent_parked in Hq. destruct (io s) eqn:Eio; try discriminate.
  apply andb_true_iff in Hq. destruct Hq as [Hsel Hall]. apply negb_true_iff in Hsel.
  unfold sel_enabled in Hsel. apply orb_false_iff in Hsel. destruct Hsel as [Hsel Hrd].
  apply orb_false_iff in Hsel. destruct Hsel as [Hpull Hw]. subst w.
  assert (Hwp : existsb will_pull (ws s) = false).
  { apply existsb_intro_false. intros j p Hj. pose proof (forallb_nth _ _ _ _ _ Hall Hj) as Hp.
    destruct p; simpl in Hp; try discriminate; reflexivity. }
  (* the wake-up invariant, read backwards: nothing is writable *)
  assert (HnoW : closed s = false -> total s <= 0 /\ wc s = false /\ cwf s = false).
  { intros Hc. unfold Jw in HJw. rewrite Eio, Hpull, Hwp in HJw. simpl in HJw.
    destruct (Z_lt_dec 0 (total s)) as [Hlt|Hge].
    - destruct (HJw Hc (or_introl Hlt)) as [Hx|[[Hx|[Hx|Hx]]|Hx]]; try discriminate; destruct Hx; discriminate.
    - destruct (wc s) eqn:Ewc.
      + destruct (HJw Hc (or_intror (or_introl eq_refl))) as [Hx|[[Hx|[Hx|Hx]]|Hx]]; try discriminate; destruct Hx; discriminate.
      + destruct (cwf s) eqn:Ecwf.
        * destruct (HJw Hc (or_intror (or_intror eq_refl))) as [Hx|[[Hx|[Hx|Hx]]|Hx]]; try discriminate; destruct Hx; discriminate.
        * repeat split; auto. lia. }
  (* no producer is parked *)
  assert (Hnp : forall j p, nth_error (ws s) j = Some p -> parked_o p = false).
  { intros j p Hj. destruct (parked_o p) eqn:Pp; auto. exfalso.
    pose proof (H4 _ _ Hj) as Hp4.
    destruct p; simpl in Pp; try discriminate; simpl in Hp4.
    - (* exception branch *)
      destruct Hp4 as (Hwc & _ & Hcn). rewrite Eio in Hcn. simpl in Hcn.
      destruct Hcn as [Hcn'|Hx]; [|discriminate].
      assert (Hc : closed s = false).
      { destruct (closed s) eqn:E; auto. rewrite (i3_c2 _ H3 E) in Hcn'. discriminate. }
      destruct (HnoW Hc) as (_ & Hx & _). congruence.
    - (* watermark loop *)
      destruct Hp4 as (Hns & Hcn). rewrite Eio in Hcn. simpl in Hcn. unfold notif_soon in Hns. rewrite Eio in Hns.
      simpl in Hns. destruct Hcn as [Hcn'|Hx]; [|discriminate].
      assert (Hc : closed s = false).
      { destruct (closed s) eqn:E; auto. rewrite (i3_c2 _ H3 E) in Hcn'. discriminate. }
      destruct (HnoW Hc) as (Hx & _ & _). destruct Hns as [Hns|[Hns|Hns]]; try discriminate. lia. }
  assert (Hidle : forall j p, nth_error (ws s) j = Some p -> w_idle p = true).
  { intros j p Hj. pose proof (forallb_nth _ _ _ _ _ Hall Hj) as Hp. simpl in Hp. rewrite (Hnp _ _ Hj) in Hp.
    rewrite orb_false_r in Hp. exact Hp. }
  unfold c05_ok. repeat (apply andb_true_iff; split).
  - (* no pending output *)
    unfold no_pending_output. destruct (closed s) eqn:Ec; auto. simpl.
    destruct (HnoW eq_refl) as (Ht0 & _ & _).
    assert (Hcn : conn s = true).
    { destruct (conn s) eqn:E; auto. destruct (i3_c3 _ H3 E) as [Hx|Hx]; [congruence|].
      rewrite Eio in Hx. discriminate. }
    pose proof (i3_tot _ H3) as Htp. unfold tot_ok in Htp. rewrite Eio in Htp. specialize (Htp Hcn).
    pose proof (i3_pend _ H3). apply andb_true_iff. split; apply Z.eqb_eq; lia.
  - (* no unserviced request *)
    unfold no_unserved_request. destruct (closed s) eqn:Ec; auto. simpl.
    destruct (HnoW eq_refl) as (Ht0 & Hwc & Hcwf).
    assert (Hcn : conn s = true).
    { destruct (conn s) eqn:E; auto. destruct (i3_c3 _ H3 E) as [Hx|Hx]; [congruence|].
      rewrite Eio in Hx. discriminate. }
    assert (Hq0 : queue s = 0%nat).
    { destruct (queue s) eqn:E; auto. exfalso.
      destruct (i2_q1 _ H2) as (j & p & Hj & Hp); [lia|]. rewrite (Hidle _ _ Hj) in Hp. discriminate. }
    assert (Hnb : existsb w_busy (ws s) = false).
    { apply existsb_intro_false. intros j p Hj. pose proof (Hidle _ _ Hj). destruct p; try discriminate; reflexivity. }
    assert (Hn0 : nreq s = 0%nat).
    { destruct (nreq s) eqn:E; auto. exfalso.
      destruct (i2_s1 _ H2) as [Hx|[Hx|[Hx|Hx]]]; try lia; try congruence.
      unfold pendadd in Hx. rewrite Eio in Hx. discriminate. }
    rewrite Hn0, Hq0. simpl.
    assert (Htot0 : total s = 0).
    { pose proof (i3_tot _ H3) as Htp. unfold tot_ok in Htp. rewrite Eio in Htp. specialize (Htp Hcn).
      pose proof (i3_pend _ H3). lia. }
    unfold Jr in HJr. rewrite Eio, Hpull, Hwp in HJr. simpl in HJr.
    assert (Hrdy : wc s = false /\ cwf s = false /\ (nreq s <= lookahead c)%nat /\ total s = 0)
      by (repeat split; auto; rewrite Hn0; lia).
    destruct (HJr Ec Hrdy) as [Hx|[Hx|Hx]]; try discriminate.
    destruct r; [|discriminate]. simpl in Hrd. unfold read_ready in Hrd. destruct (rx s); auto.
  - (* no producer parked *)
    unfold no_producer_parked. apply forallb_intro. intros j p Hj. rewrite (Hnp _ _ Hj). reflexivity.
  - (* closing -> closed *)
    unfold closing_closed. destruct (closed s) eqn:Ec; [apply orb_true_r|].
    destruct (HnoW eq_refl) as (_ & Hwc & Hcwf). rewrite Hwc, Hcwf. reflexivity.
Qed.

(* no deadlock: if no thread of the server can move then every worker is parked on a
   condition and the I/O thread sleeps in select (nobody is stuck on a lock) *)
Lemma io_holder_enabled : forall s, io_holds_o (io s) = true -> io_enabled s = true.
Proof. intros s H. unfold io_enabled. destruct (io s); simpl in *; try discriminate; auto. Qed.
Lemma w_holder_enabled : forall s p, w_holds_o p = true -> w_enabled s p = true.
Proof. intros s p H. destruct p; simpl in *; try discriminate; auto. Qed.
Lemma io_rholder_enabled : forall s, olock s = None -> io_holds_r (io s) = true -> io_enabled s = true.
Proof. intros s Ho H. unfold io_enabled. destruct (io s); simpl in *; try discriminate; auto; rewrite Ho; reflexivity. Qed.
Lemma w_rholder_enabled : forall s p, olock s = None -> w_holds_r p = true -> w_enabled s p = true.
Proof. intros s p Ho H. destruct p; simpl in *; try discriminate; auto; rewrite Ho; reflexivity. Qed.

Lemma quiescent_is_parked : forall c s, Inv c s -> quiescent s = true -> quiescent_parked s = true.
Proof.
  intros c s (_ & _ & _ & _ & _ & _ & (Ho & Hr)) Hq. unfold quiescent in Hq.
  apply andb_true_iff in Hq. destruct Hq as [Hio Hws]. apply negb_true_iff in Hio.
  assert (Hwd : forall j p, nth_error (ws s) j = Some p -> w_enabled s p = false).
  { intros j p Hj. pose proof (forallb_nth _ _ _ _ _ Hws Hj) as Hx. simpl in Hx. apply negb_true_iff in Hx. exact Hx. }
  assert (Hol : olock s = None).
  { destruct (olock s) as [[|j]|] eqn:E; auto; simpl in Ho.
    - rewrite (io_holder_enabled s Ho) in Hio. discriminate.
    - destruct Ho as (p & Hj & Hh). pose proof (Hwd _ _ Hj) as Hx. rewrite (w_holder_enabled s p Hh) in Hx. discriminate. }
  assert (Hrl : rlock s = None).
  { destruct (rlock s) as [[|j]|] eqn:E; auto; simpl in Hr.
    - rewrite (io_rholder_enabled s Hol Hr) in Hio. discriminate.
    - destruct Hr as (p & Hj & Hh). pose proof (Hwd _ _ Hj) as Hx. rewrite (w_rholder_enabled s p Hol Hh) in Hx. discriminate. }
  unfold quiescent_parked. apply andb_true_iff. split.
  - unfold io_enabled in Hio. destruct (io s); try discriminate; try (rewrite ?Hol, ?Hrl in Hio; discriminate).
    rewrite Hio. reflexivity.
  - apply forallb_intro. intros j p Hj. specialize (Hwd _ _ Hj).
    destruct p; simpl in *; try discriminate; try reflexivity; rewrite ?Hol, ?Hrl in Hwd; discriminate.
Qed.

(* the same for quiescent states in which workers may also sit in the application *)
Lemma quiescent_app_ok : forall c s,
  0 <= hw c -> Inv c s -> quiescent_app s = true -> app_ok c s = true.
Proof.
  intros c s Hhw (H1 & H2 & H3 & H4 & (HJw & _) & H6 & _) Hq.
  unfold quiescent_app in Hq. destruct (io s) eqn:Eio; try discriminate.
  apply andb_true_iff in Hq. destruct Hq as [Hsel Hall]. apply negb_true_iff in Hsel.
  unfold sel_enabled in Hsel. apply orb_false_iff in Hsel. destruct Hsel as [Hsel Hrd].
  apply orb_false_iff in Hsel. destruct Hsel as [Hpull Hw]. subst w.
  assert (Hact : existsb act_tot (ws s) = false /\ existsb act_wc (ws s) = false /\ existsb act_cwf (ws s) = false).
  { repeat split; apply existsb_intro_false; intros j p Hj; pose proof (forallb_nth _ _ _ _ _ Hall Hj) as Hp;
      destruct p; simpl in Hp; try discriminate; reflexivity. }
  destruct Hact as (A1 & A2 & A3).
  assert (HnoW : closed s = false -> ~ (0 < total s /\ sb c <= total s) /\ wc s = false /\ cwf s = false).
  { intros Hc. destruct (H6 Hc) as (G1 & G2 & G3). rewrite Eio, Hpull in *. simpl in *. rewrite A1 in G1. rewrite A2 in G2. rewrite A3 in G3.
    repeat split.
    - intros Hx. destruct (G1 Hx) as [?|[?|?]]; discriminate.
    - destruct (wc s); auto. destruct (G2 eq_refl) as [?|[?|?]]; discriminate.
    - destruct (cwf s); auto. destruct (G3 eq_refl) as [?|[?|?]]; discriminate. }
  (* a parked producer serves requests[0], so nobody else is inside the application; then the
     wake-up invariant of layer 5 applies as in the narrow case *)
  assert (Hnp : forall j p, nth_error (ws s) j = Some p -> parked_o p = false).
  { intros j p Hj. destruct (parked_o p) eqn:Pp; auto. exfalso.
    assert (Hb : w_busy p = true) by (destruct p; simpl in Pp; try discriminate; reflexivity).
    destruct (busy_exclusive s j p (i2_tok _ H2) Hj Hb) as (_ & _ & _ & Hoth).
    assert (Hwp : existsb will_pull (ws s) = false).
    { apply existsb_intro_false. intros k q Hk. destruct (Nat.eq_dec k j) as [->|Hne].
      - rewrite Hj in Hk. inversion Hk; subst. destruct q; simpl in Pp; try discriminate; reflexivity.
      - pose proof (Hoth _ _ Hne Hk) as Hnb. pose proof (forallb_nth _ _ _ _ _ Hall Hk) as Hq.
        destruct q; simpl in Hq, Hnb; try discriminate; reflexivity. }
    pose proof (H4 _ _ Hj) as Hp4.
    assert (Hconn : conn s = true /\ (0 < total s \/ wc s = true)).
    { destruct p; simpl in Pp; try discriminate; simpl in Hp4.
      - destruct Hp4 as (Hwc & _ & Hcn). rewrite Eio in Hcn. simpl in Hcn. destruct Hcn as [Hcn|Hcn]; [|discriminate]. auto.
      - destruct Hp4 as (Hns & Hcn). rewrite Eio in Hcn. simpl in Hcn. destruct Hcn as [Hcn|Hcn]; [|discriminate].
        unfold notif_soon in Hns. rewrite Eio in Hns. simpl in Hns. destruct Hns as [Hns|[Hns|Hns]]; try discriminate.
        split; auto. left. lia. }
    destruct Hconn as (Hcn & Hwr).
    assert (Hc : closed s = false).
    { destruct (closed s) eqn:E; auto. rewrite (i3_c2 _ H3 E) in Hcn. discriminate. }
    unfold Jw in HJw. rewrite Eio, Hpull, Hwp in HJw. simpl in HJw.
    assert (Hpre : 0 < total s \/ wc s = true \/ cwf s = true) by tauto.
    destruct (HJw Hc Hpre) as [Hx|[[Hx|[Hx|Hx]]|Hx]]; try discriminate; destruct Hx; discriminate. }
  unfold app_ok. repeat (apply andb_true_iff; split).
  - destruct (closed s) eqn:Ec; auto. simpl.
    destruct (HnoW eq_refl) as (Ht0 & _ & _).
    assert (Hcn : conn s = true).
    { destruct (conn s) eqn:E; auto. destruct (i3_c3 _ H3 E) as [Hx|Hx]; [congruence|].
      rewrite Eio in Hx. discriminate. }
    pose proof (i3_tot _ H3) as Htp. unfold tot_ok in Htp. rewrite Eio in Htp. specialize (Htp Hcn).
    apply negb_true_iff. apply andb_false_iff.
    destruct (Z.ltb_spec 0 (pend s)); auto. destruct (Z.leb_spec (sb c) (pend s)); auto.
    exfalso. apply Ht0. lia.
  - unfold no_producer_parked. apply forallb_intro. intros j p Hj. rewrite (Hnp _ _ Hj). reflexivity.
  - unfold closing_closed. destruct (closed s) eqn:Ec; [apply orb_true_r|].
    destruct (HnoW eq_refl) as (_ & Hwc & Hcwf). rewrite Hwc, Hcwf. reflexivity.
Qed.

(* ---- the theorems of C05 ------------------------------------------------------------- *)
Theorem c05_full : forall c nw sched,
  0 <= hw c -> (0 < nw)%nat ->
  quiescent_parked (runc c nw sched) = true ->
  c05_ok (runc c nw sched) = true.
Proof.
  intros c nw sched Hhw Hnw Hq. apply (quiescent_ok c); auto. apply inv_reachable; auto.
Qed.

(* stated for the widest notion of quiescence: no thread of the server is enabled *)
Theorem c05_stuck : forall c nw sched,
  0 <= hw c -> (0 < nw)%nat ->
  quiescent (runc c nw sched) = true ->
  quiescent_parked (runc c nw sched) = true /\ c05_ok (runc c nw sched) = true.
Proof.
  intros c nw sched Hhw Hnw Hq.
  assert (HI : Inv c (runc c nw sched)) by (apply inv_reachable; auto).
  pose proof (quiescent_is_parked c _ HI Hq) as Hp. split; auto. apply (quiescent_ok c); auto.
Qed.

Theorem c05_app : forall c nw sched,
  0 <= hw c -> (0 < nw)%nat ->
  quiescent_app (runc c nw sched) = true ->
  app_ok c (runc c nw sched) = true.
Proof.
  intros c nw sched Hhw Hnw Hq. apply (quiescent_app_ok c); auto. apply inv_reachable; auto.
Qed.

(* the same, conjunct by conjunct, in words of the model *)
Theorem c05_unfolded : forall c nw sched s,
  0 <= hw c -> (0 < nw)%nat -> s = runc c nw sched ->
  quiescent_parked s = true ->
  (closed s = false -> total s = 0 /\ pend s = 0) /\
  (closed s = false -> nreq s = 0%nat /\ queue s = 0%nat /\ rx s = []) /\
  (forall j p, nth_error (ws s) j = Some p -> parked_o p = false) /\
  (wc s = true \/ cwf s = true -> closed s = true).
Proof.
  intros c nw sched s Hhw Hnw -> Hq.
  pose proof (c05_full c nw sched Hhw Hnw Hq) as H. unfold c05_ok in H.
  repeat (apply andb_true_iff in H; destruct H as [H ?]).
  repeat split.
  - unfold no_pending_output in H. rewrite H3 in H. simpl in H. apply andb_true_iff in H. destruct H. apply Z.eqb_eq; auto.
  - unfold no_pending_output in H. rewrite H3 in H. simpl in H. apply andb_true_iff in H. destruct H. apply Z.eqb_eq; auto.
  - unfold no_unserved_request in H2. rewrite H3 in H2. simpl in H2.
    repeat (apply andb_true_iff in H2; destruct H2 as [H2 ?]). apply Nat.eqb_eq; auto.
  - unfold no_unserved_request in H2. rewrite H3 in H2. simpl in H2.
    repeat (apply andb_true_iff in H2; destruct H2 as [H2 ?]). apply Nat.eqb_eq; auto.
  - unfold no_unserved_request in H2. rewrite H3 in H2. simpl in H2.
    repeat (apply andb_true_iff in H2; destruct H2 as [H2 ?]). destruct (rx (runc c nw sched)); auto; discriminate.
  - intros j p Hj. unfold no_producer_parked in H1. pose proof (forallb_nth _ _ _ _ _ H1 Hj) as Hx.
    simpl in Hx. apply negb_true_iff in Hx. exact Hx.
  - intros Hcl. unfold closing_closed in H0. destruct (closed (runc c nw sched)); auto.
    rewrite orb_false_r in H0. apply negb_true_iff in H0. apply orb_false_iff in H0. destruct H0. destruct Hcl; congruence.
Qed.
