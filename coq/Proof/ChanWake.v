(* Proof/ChanWake.v -- C05: the combined invariant holds in every reachable state outside
   the F18 class, and in a quiescent state it leaves no room for undelivered output, an
   unserviced request, a producer parked with space, or an unfinished close. *)
From Coq Require Import List ZArith Bool Arith Lia.
From WV Require Import Lib.Conc Model.ChanWake Proof.ChanWakeInv Proof.ChanWakeBase Proof.ChanWakeL1
  Proof.ChanWakeL2 Proof.ChanWakeL3 Proof.ChanWakeL4 Proof.ChanWakeL5.
Import ListNotations.
Open Scope Z_scope.

Definition Inv (c : cfg) (s : state) : Prop :=
  Inv1 s /\ Inv2 s /\ Inv3 s /\ Inv4 c s /\ Inv5 c s.

Definition runc (c : cfg) (nw : nat) (sched : list choice) : state := run (step c) (init nw) sched.

Lemma inv_init : forall c nw, (0 < nw)%nat -> Inv c (init nw).
Proof.
  intros. repeat split; try apply inv1_init; try apply inv2_init; try apply inv3_init; try apply inv4_init; auto;
    apply inv5_init.
Qed.

(* the ghost flag is never reset *)
Lemma taint_mono : forall c s ch s' l, step c s ch = Some (s', l) -> taint s = true -> taint s' = true.
Proof.
  intros c s ch s' l H Ht. unfold step in H. destruct ch.
  1-4: unfold step_io in H; step_cases H; unfold after_read, turn_start, hc_return, goio, add_task;
       repeat match goal with |- context [if ?b then _ else _] => destruct b end;
       repeat match goal with |- context [match ?b with [] => _ | _ :: _ => _ end] => destruct b end;
       simpl; auto.
  1-3: unfold step_w in H; destruct (getw s i); [|discriminate]; step_cases H; unfold setw, add_task;
       repeat match goal with |- context [if ?b then _ else _] => destruct b end;
       repeat match goal with |- context [match ?b with [] => _ | _ :: _ => _ end] => destruct b end;
       simpl; auto.
  - destruct (gone s); [discriminate|]. inversion H; subst. simpl. auto.
  - destruct (gone s); [discriminate|]. inversion H; subst. simpl. auto.
Qed.

Lemma inv_step : forall c s ch s' l,
  0 <= hw c -> Inv c s -> step c s ch = Some (s', l) -> taint s' = false -> Inv c s'.
Proof.
  intros c s ch s' l Hhw (H1 & H2 & H3 & H4 & H5) H Ht. repeat split.
  - eapply inv1_step; eauto.
  - eapply inv2_step; eauto.
  - eapply inv3_step; eauto.
  - eapply inv4_step; eauto.
  - eapply inv5_step; eauto.
  - eapply inv5_step; eauto.
Qed.

Theorem inv_reachable : forall c nw sched,
  0 <= hw c -> (0 < nw)%nat -> taint (runc c nw sched) = false -> Inv c (runc c nw sched).
Proof.
  intros c nw sched Hhw Hnw. unfold runc.
  apply (invariant_rule _ _ _ (step c) (fun s => taint s = false -> Inv c s)).
  - intros _. apply inv_init; auto.
  - intros s ch s' l IH H Ht. eapply inv_step; eauto. apply IH.
    destruct (taint s) eqn:E; auto. rewrite (taint_mono _ _ _ _ _ H E) in Ht. discriminate.
Qed.
