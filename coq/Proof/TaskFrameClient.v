(* The client parses what the task wrote (C03_frame). *)
From Coq Require Import String.
From Coq Require Import List NArith ZArith Bool Lia Arith Permutation.
From WV Require Import Lib.PyBytes Gen.GenTables Model.Task Spec.ClientParse
  Proof.TaskSort Proof.TaskLines Proof.TaskHead Proof.TaskChunk Proof.TaskClient Proof.TaskFrame.
Import ListNotations.
Local Open Scope N_scope.

Lemma filter_perm {A} (P : A -> bool) l l' : Permutation l l' -> Permutation (filter P l) (filter P l').
Proof.
  induction 1; cbn [filter]; auto.
  - destruct (P x); auto.
  - destruct (P x), (P y); auto. apply perm_swap.
  - eapply perm_trans; eauto.
Qed.

Lemma filter_perm_singleton {A} (P : A -> bool) l l' x :
  Permutation l l' -> filter P l = [x] -> filter P l' = [x].
Proof.
  intros Hp Hf. pose proof (filter_perm P l l' Hp) as H. rewrite Hf in H.
  apply Permutation_length_1_inv in H. exact H.
Qed.

Lemma filter_perm_nil {A} (P : A -> bool) l l' :
  Permutation l l' -> filter P l = [] -> filter P l' = [].
Proof.
  intros Hp Hf. pose proof (filter_perm P l l' Hp) as H. rewrite Hf in H.
  apply Permutation_nil in H. exact H.
Qed.

Lemma terminated_length lines : (length lines <= length (terminated lines))%nat.
Proof.
  induction lines as [|l ls IH]; [simpl; lia|].
  change (terminated (l :: ls)) with ((l ++ CRLF) ++ terminated ls).
  rewrite !app_length. cbn [length CRLF]. lia.
Qed.

(* status-code as the client extracts it from "HTTP/1.x " ++ status *)
Lemma status_code_first_line t : status_code (first_line t) = firstn 3 (t_status t).
Proof.
  unfold status_code, first_line, version_str.
  destruct (t_v11 t).
  - change (lit "HTTP/" ++ lit "1.1" ++ [32] ++ t_status t) with (lit "HTTP/1.1" ++ 32 :: t_status t).
    rewrite find_first by reflexivity. cbn [length skipn List.app]. reflexivity.
  - change (lit "HTTP/" ++ lit "1.0" ++ [32] ++ t_status t) with (lit "HTTP/1.0" ++ 32 :: t_status t).
    rewrite find_first by reflexivity. cbn [length skipn List.app]. reflexivity.
Qed.

Lemma startswith_firstn s p : startswith s p = beqb (firstn (length p) s) p.
Proof.
  revert s; induction p as [|x p IH]; intro s; [destruct s; reflexivity|].
  destruct s as [|y s]; [reflexivity|]. cbn [startswith length firstn beqb].
  rewrite IH. rewrite N.eqb_sym. reflexivity.
Qed.

Lemma no_body_status_has_body t : no_body_status (firstn 3 (t_status t)) = negb (has_body t).
Proof.
  unfold has_body, no_body_status. rewrite negb_involutive.
  rewrite !startswith_firstn. cbn [length].
  assert (H : match firstn 3 (t_status t) with x :: _ => x =? 49 | [] => false end = beqb (firstn 1 (t_status t)) (lit "1")).
  { destruct (t_status t) as [|a rest]; [reflexivity|]. cbn [firstn beqb]. rewrite andb_true_r. reflexivity. }
  rewrite H. reflexivity.
Qed.

Lemma nonempty_encode_chunks cs :
  flat_map encode_chunk cs = flat_map encode_chunk (filter (fun d => match d with [] => false | _ => true end) cs)
  /\ concat cs = concat (filter (fun d => match d with [] => false | _ => true end) cs)
  /\ (length (filter (fun d => match d with [] => false | _ => true end) cs)
      <= length (flat_map encode_chunk cs))%nat.
Proof.
  induction cs as [|d cs (IH1 & IH2 & IH3)]; [simpl; auto|].
  destruct d as [|x d]; cbn [filter flat_map concat encode_chunk List.app].
  - auto.
  - rewrite IH1 at 1. rewrite IH2 at 1. repeat split; auto.
    rewrite !app_length. cbn [length CRLF]. rewrite app_length. cbn [length]. lia.
Qed.

Section ClientFrame.

(* the client reads the head of a prepared clean task back, line by line and field by field *)
Lemma client_head tp rest :
  task_clean tp -> Forall (fun h => no_colon (fst h)) (t_rh tp) ->
  read_lines (S (length (head_text tp ++ rest))) (head_text tp ++ rest)
    = Some (first_line tp :: map header_line (sort_hdrs (t_rh tp)), rest)
  /\ parse_fields (map header_line (sort_hdrs (t_rh tp))) = Some (map client_field (sort_hdrs (t_rh tp))).
Proof.
  intros Hcl Hnc. split.
  - rewrite head_text_terminated, <- app_assoc.
    fold (head_lines tp).
    apply read_lines_terminated.
    + pose proof (head_lines_clean tp Hcl) as Hc. unfold head_lines in *.
      rewrite Forall_forall in Hc. apply Forall_forall. intros l Hl. split; [apply Hc; auto|].
      destruct Hl as [<-|Hl].
      * unfold first_line. discriminate.
      * apply in_map_iff in Hl as (h & <- & _). unfold header_line. destruct (fst h); discriminate.
    + rewrite !app_length. pose proof (terminated_length (head_lines tp)). lia.
  - apply parse_header_lines. apply Forall_forall. intros h Hh.
    rewrite Forall_forall in Hnc. apply Hnc. eapply Permutation_in; [apply sort_perm|exact Hh].
Qed.

Definition te_fields (tp : task) := filter (field_is te_name) (map client_field (t_rh tp)).
Definition cl_fields (tp : task) := filter (field_is cl_name) (map client_field (t_rh tp)).

Lemma sorted_filter_singleton tp name x :
  filter (field_is name) (map client_field (t_rh tp)) = [x] ->
  filter (field_is name) (map client_field (sort_hdrs (t_rh tp))) = [x].
Proof.
  apply filter_perm_singleton. apply Permutation_map. apply Permutation_sym, sort_perm.
Qed.

Lemma sorted_filter_nil tp name :
  filter (field_is name) (map client_field (t_rh tp)) = [] ->
  filter (field_is name) (map client_field (sort_hdrs (t_rh tp))) = [].
Proof.
  apply filter_perm_nil. apply Permutation_map. apply Permutation_sym, sort_perm.
Qed.

(* C03_frame, chunked: status line, fields and exactly the application's bytes *)
Theorem parse_chunked tp chunks rest :
  task_clean tp -> Forall (fun h => no_colon (fst h)) (t_rh tp) ->
  has_body tp = true -> te_fields tp = [client_field f_chunked] ->
  parse_one false (head_text tp ++ encode_chunked chunks ++ rest)
  = Some (mkResponse (first_line tp) (map client_field (sort_hdrs (t_rh tp))) FChunked (concat chunks), rest).
Proof.
  intros Hcl Hnc Hb Hte. unfold parse_one.
  destruct (client_head tp (encode_chunked chunks ++ rest) Hcl Hnc) as [-> ->].
  unfold decide_framing. cbn [orb]. rewrite status_code_first_line, no_body_status_has_body, Hb. cbn [negb].
  rewrite (sorted_filter_singleton tp te_name _ Hte).
  cbn [snd client_field f_chunked].
  assert (Hv : beqb (lower_ascii (strip_by is_sp_htab (lit "chunked"))) chunked_tok = true) by reflexivity.
  rewrite Hv.
  destruct (nonempty_encode_chunks chunks) as (E1 & E2 & E3).
  assert (Ee : encode_chunked chunks = encode_chunked (filter (fun d => match d with [] => false | _ => true end) chunks))
    by (unfold encode_chunked; rewrite <- E1; reflexivity).
  rewrite Ee. rewrite E1 in E3.
  rewrite chunk_roundtrip.
  - rewrite <- E2. reflexivity.
  - unfold encode_chunked. rewrite !app_length. eapply Nat.le_lt_trans; [exact E3|]. lia.
Qed.

(* C03_frame, close-delimited: everything after the head is the body *)
Theorem parse_eof tp body :
  task_clean tp -> Forall (fun h => no_colon (fst h)) (t_rh tp) ->
  has_body tp = true -> te_fields tp = [] -> cl_fields tp = [] ->
  parse_one false (head_text tp ++ body)
  = Some (mkResponse (first_line tp) (map client_field (sort_hdrs (t_rh tp))) FEof body, []).
Proof.
  intros Hcl Hnc Hb Hte Hcf. unfold parse_one.
  destruct (client_head tp body Hcl Hnc) as [-> ->].
  unfold decide_framing. cbn [orb]. rewrite status_code_first_line, no_body_status_has_body, Hb. cbn [negb].
  rewrite (sorted_filter_nil tp te_name Hte), (sorted_filter_nil tp cl_name Hcf). reflexivity.
Qed.

(* C03_frame, no body: HEAD, 1xx, 204, 304 *)
Theorem parse_nobody tp is_head rest :
  task_clean tp -> Forall (fun h => no_colon (fst h)) (t_rh tp) ->
  is_head = true \/ has_body tp = false ->
  parse_one is_head (head_text tp ++ rest)
  = Some (mkResponse (first_line tp) (map client_field (sort_hdrs (t_rh tp))) FNoBody [], rest).
Proof.
  intros Hcl Hnc Hb. unfold parse_one.
  destruct (client_head tp rest Hcl Hnc) as [-> ->].
  unfold decide_framing. rewrite status_code_first_line, no_body_status_has_body.
  assert (H : is_head || negb (has_body tp) = true) by (destruct Hb as [->| ->]; [reflexivity|apply orb_true_r]).
  rewrite H. reflexivity.
Qed.

End ClientFrame.

(* C03_frame, Content-Length: exactly n bytes are the body, the rest is left *)
Theorem parse_length tp v body rest :
  task_clean tp -> Forall (fun h => no_colon (fst h)) (t_rh tp) ->
  has_body tp = true -> te_fields tp = [] ->
  cl_fields tp = [(lit "Content-Length", v)] -> all_digits v = true ->
  lenN body = dec_value v ->
  parse_one false (head_text tp ++ body ++ rest)
  = Some (mkResponse (first_line tp) (map client_field (sort_hdrs (t_rh tp))) (FLength (dec_value v)) body, rest).
Proof.
  intros Hcl Hnc Hb Hte Hcf Hd Hlen. unfold parse_one.
  destruct (client_head tp (body ++ rest) Hcl Hnc) as [-> ->].
  unfold decide_framing. cbn [orb]. rewrite status_code_first_line, no_body_status_has_body, Hb. cbn [negb].
  rewrite (sorted_filter_nil tp te_name Hte).
  rewrite (sorted_filter_singleton tp cl_name _ Hcf).
  cbn [snd forallb]. rewrite Hd. cbn [andb].
  assert (Hlt : lenN (body ++ rest) <? dec_value v = false).
  { rewrite <- Hlen. unfold lenN. rewrite app_length. apply N.ltb_ge. lia. }
  rewrite Hlt. rewrite <- Hlen. unfold lenN. rewrite Nat2N.id.
  rewrite firstn_app, firstn_all, Nat.sub_diag. cbn [firstn]. rewrite app_nil_r.
  rewrite skipn_app, skipn_all, Nat.sub_diag. cbn [skipn List.app]. reflexivity.
Qed.

(* a value made of digits is not touched by OWS stripping *)
Lemma lstrip_digits v : all_digits v = true -> lstrip_by is_sp_htab v = v.
Proof.
  unfold all_digits. destruct v as [|x v]; [discriminate|]. cbn [forallb lstrip_by]. intro H.
  apply andb_true_iff in H as [Hx _]. unfold is_digit in Hx. unfold is_sp_htab.
  destruct (x =? 32) eqn:E1; [apply N.eqb_eq in E1; subst; discriminate|].
  destruct (x =? 9) eqn:E2; [apply N.eqb_eq in E2; subst; discriminate|]. reflexivity.
Qed.

Lemma strip_digits v : all_digits v = true -> strip_by is_sp_htab v = v.
Proof.
  intro H. unfold strip_by, rstrip_by. rewrite (lstrip_digits v H).
  assert (Hr : all_digits (rev v) = true).
  { unfold all_digits in *. destruct v as [|x v]; [discriminate|].
    assert (Hf : forallb is_digit (rev (x :: v)) = true).
    { rewrite forallb_forall in *. intros y Hy. apply H. apply in_rev. exact Hy. }
    destruct (rev (x :: v)) eqn:E; [|exact Hf].
    apply (f_equal (@length N)) in E. rewrite rev_length in E. discriminate. }
  rewrite (lstrip_digits _ Hr). apply rev_involutive.
Qed.
