(* The head block as bytes.  A head written as  request-line CRLF
   *( field-line CRLF ) CRLF  is cut by the model (find / split on CRLF) into
   exactly the lines it was written from. *)
From Coq Require Import List NArith ZArith Bool Lia Arith.
From WV Require Import Lib.PyBytes Model.Receiver Model.Parser Spec.Ref9112 Proof.C01Lib Proof.C01Body.
Import ListNotations.
Local Open Scope N_scope.

(* no CRLF inside the line, also not across its end when a CR follows *)
Fixpoint crlf_free (l : bytes) : bool :=
  match l with
  | x :: r => negb ((x =? 13) && match r with y :: _ => y =? 10 | [] => false end) && crlf_free r
  | [] => true
  end.

Lemma no_crlf_byte_crlf_free l : has_crlf_byte l = false -> crlf_free l = true.
Proof.
  unfold has_crlf_byte. induction l as [|x l IH]; cbn [existsb crlf_free]; auto.
  intro H. apply orb_false_iff in H as [H1 H2]. apply orb_false_iff in H1 as [H1 _].
  rewrite H1, IH; auto.
Qed.

Lemma startswith_crlf_cons x s :
  startswith (x :: s) CRLF = (x =? 13) && match s with y :: _ => y =? 10 | [] => false end.
Proof. rewrite startswith_crlf. destruct s; [rewrite andb_false_r|]; reflexivity. Qed.

Lemma head_is_lf l r :
  match l ++ CRLF ++ r with y :: _ => y =? 10 | [] => false end
  = match l with y :: _ => y =? 10 | [] => false end.
Proof. destruct l; reflexivity. Qed.

Lemma find_line l r : crlf_free l = true -> find (l ++ CRLF ++ r) CRLF = Some (length l).
Proof.
  induction l as [|x l IH]; intro H.
  - cbn [app length]. apply find_crlf_zero. rewrite startswith_crlf. reflexivity.
  - cbn [crlf_free] in H. apply andb_true_iff in H as [H1 H2].
    change ((x :: l) ++ CRLF ++ r) with (x :: (l ++ CRLF ++ r)).
    rewrite find_cons, startswith_crlf_cons, head_is_lf.
    apply negb_true_iff in H1. rewrite H1. rewrite IH by exact H2. reflexivity.
Qed.

Definition block_of (ls : list bytes) : bytes := concat (map (fun l => l ++ CRLF) ls).

Lemma split_fuel_lines : forall ls tail fuel,
  forallb crlf_free ls = true -> (length (block_of ls ++ tail) < fuel)%nat ->
  split_fuel fuel (block_of ls ++ tail) CRLF = ls ++ split_fuel (fuel - length ls) tail CRLF.
Proof.
  induction ls as [|l ls IH]; intros tail fuel Hf Hl.
  - cbn. rewrite Nat.sub_0_r. reflexivity.
  - cbn [forallb] in Hf. apply andb_true_iff in Hf as [Hf1 Hf2].
    destruct fuel as [|f]; [lia|].
    unfold block_of. cbn [map concat]. fold (block_of ls).
    rewrite <- !app_assoc. cbn [split_fuel].
    rewrite (find_line l (block_of ls ++ tail) Hf1).
    rewrite firstn_length_app.
    replace (length l + length CRLF)%nat with (length (l ++ CRLF)) by (rewrite app_length; reflexivity).
    rewrite (app_assoc l CRLF), skipn_length_app.
    cbn [app length Nat.sub]. f_equal. apply IH; auto.
    unfold block_of in Hl. cbn [map concat] in Hl. rewrite !app_length in Hl. cbn [length CRLF] in Hl.
    rewrite app_length. fold (block_of ls) in Hl. lia.
Qed.

Lemma split_lines ls : forallb crlf_free ls = true ->
  split (block_of ls ++ CRLF) CRLF = ls ++ [[]; []].
Proof.
  intro Hf. unfold split. rewrite split_fuel_lines; auto.
  assert (L : (length ls <= length (block_of ls))%nat).
  { clear. induction ls as [|l ls IH]; cbn; auto. unfold block_of in *. cbn [map concat].
    rewrite !app_length. cbn [length CRLF]. lia. }
  rewrite app_length. cbn [length CRLF].
  destruct (S (length (block_of ls) + 2) - length ls)%nat as [|[|k]] eqn:E; try lia.
  reflexivity.
Qed.

(* trailing empty lines are skipped by get_header_lines *)
Lemma header_lines_go_empties ls r : header_lines_go (ls ++ [[]; []]) r = header_lines_go ls r.
Proof.
  revert r; induction ls as [|l ls IH]; intro r; cbn [app header_lines_go]; [reflexivity|].
  destruct l as [|c l']; auto.
  destruct (has_cr_or_lf (c :: l')); auto.
  destruct ((c =? 32) || (c =? 9)); auto. destruct r; auto.
Qed.

Lemma rstrip_id f l : (forall x, last l x = x -> True) ->
  match rev l with x :: _ => f x = false | [] => True end -> rstrip_by f l = l.
Proof.
  intros _ H. unfold rstrip_by. destruct (rev l) as [|x r] eqn:E.
  - apply (f_equal (@rev N)) in E. rewrite rev_involutive in E. subst. reflexivity.
  - cbn [lstrip_by]. rewrite H. rewrite <- E. apply rev_involutive.
Qed.

(* the head block written from a request line and field lines *)
Definition head_block (rl : bytes) (flines : list bytes) : bytes :=
  rl ++ CRLF ++ block_of flines ++ CRLF.

Lemma head_block_cut rl flines :
  crlf_free rl = true -> forallb crlf_free flines = true ->
  find (head_block rl flines) CRLF = Some (length rl)
  /\ firstn (length rl) (head_block rl flines) = rl
  /\ get_header_lines (skipn (length rl + 2) (head_block rl flines)) = header_lines_go flines [].
Proof.
  intros Hr Hf. unfold head_block. repeat split.
  - apply find_line. exact Hr.
  - apply firstn_length_app.
  - replace (length rl + 2)%nat with (length (rl ++ CRLF)) by (rewrite app_length; reflexivity).
    rewrite (app_assoc rl CRLF), skipn_length_app.
    unfold get_header_lines. rewrite split_lines by exact Hf. apply header_lines_go_empties.
Qed.

(* ---------------------------------------------------------------- *)
(* the lines the reference reads are the lines the block is written from *)

Lemma crlf_free_snoc l x :
  crlf_free l = true ->
  match rev l with c :: _ => negb ((c =? 13) && (x =? 10)) = true | [] => True end ->
  crlf_free (l ++ [x]) = true.
Proof.
  induction l as [|a l IH]; intros H1 H2.
  - cbn. rewrite andb_false_r. reflexivity.
  - cbn [crlf_free app] in *. apply andb_true_iff in H1 as [A B].
    destruct l as [|b l'].
    + cbn [app rev] in *. rewrite H2. cbn. rewrite andb_false_r. reflexivity.
    + cbn [app]. cbn [app] in IH. rewrite A. cbn [andb]. apply IH; auto.
      cbn [rev] in *. destruct (rev l' ++ [b]) eqn:E; [destruct (rev l'); discriminate|].
      cbn [app] in H2. exact H2.
Qed.

Lemma block_of_app a b : block_of (a ++ b) = block_of a ++ block_of b.
Proof. unfold block_of. rewrite map_app, concat_app. reflexivity. Qed.

Lemma block_of_snoc ls l : block_of (ls ++ [l]) = block_of ls ++ l ++ CRLF.
Proof. rewrite block_of_app. unfold block_of at 2. cbn [map concat]. rewrite app_nil_r. reflexivity. Qed.

Lemma read_head_block : forall n0 s, (length s <= n0)%nat ->
  forall cur acc n lines rest k,
  read_head s cur acc n = Some (lines, rest, k) ->
  crlf_free (rev cur) = true -> forallb crlf_free (rev acc) = true ->
  (match cur, s with c :: _, y :: _ => negb ((c =? 13) && (y =? 10)) = true | _, _ => True end) ->
  exists pre, s = pre ++ rest
              /\ block_of (rev acc) ++ rev cur ++ pre = block_of lines ++ CRLF
              /\ forallb crlf_free lines = true.
Proof.
  induction n0 as [|n0 IH]; intros s Hn cur acc n lines rest k.
  { destruct s; [discriminate|cbn in Hn; lia]. }
  destruct s as [|x [|y r']]; try discriminate. cbn [read_head].
  destruct ((x =? 13) && (y =? 10)) eqn:E.
  - apply andb_true_iff in E as [E1 E2]. apply N.eqb_eq in E1, E2. subst x y.
    intros H Hc Ha Hb.
    assert (Hrec : read_head r' [] (rev cur :: acc) (n + 2) = Some (lines, rest, k) ->
                   exists pre, 13 :: 10 :: r' = pre ++ rest
                     /\ block_of (rev acc) ++ rev cur ++ pre = block_of lines ++ CRLF
                     /\ forallb crlf_free lines = true).
    { intro H0.
      destruct (IH r' ltac:(cbn [length] in Hn; lia) [] (rev cur :: acc) (n + 2) lines rest k H0) as (pre' & P1 & P2 & P3).
      - reflexivity.
      - cbn [rev]. rewrite forallb_app. cbn [forallb]. rewrite Ha, Hc. reflexivity.
      - exact I.
      - exists (13 :: 10 :: pre'). split; [rewrite P1; reflexivity|]. split; auto.
        rewrite <- P2. cbn [rev app]. rewrite block_of_snoc. rewrite <- !app_assoc. reflexivity. }
    destruct cur as [|c cur'].
    + destruct acc as [|a0 acc'].
      * apply Hrec. exact H.
      * injection H as <- <- <-. exists [13; 10]. split; [reflexivity|]. split; auto.
    + apply Hrec. exact H.
  - intros H Hc Ha Hb.
    destruct (IH (y :: r') ltac:(cbn [length] in *; lia) (x :: cur) acc (n + 1) lines rest k H) as (pre' & P1 & P2 & P3).
    + cbn [rev]. apply crlf_free_snoc; auto. rewrite rev_involutive. destruct cur; auto.
    + exact Ha.
    + rewrite E. reflexivity.
    + exists (x :: pre'). split; [rewrite P1; reflexivity|]. split; auto.
      rewrite <- P2. cbn [rev]. rewrite <- !app_assoc. reflexivity.
Qed.

(* the head of a stream, as the reference reads it, is the block of its lines *)
Theorem read_head_lines : forall s lines rest n,
  read_head s [] [] 0 = Some (lines, rest, n) ->
  s = (block_of lines ++ CRLF) ++ rest /\ forallb crlf_free lines = true.
Proof.
  intros s lines rest n H.
  destruct (read_head_block (length s) s ltac:(lia) [] [] 0 lines rest n H eq_refl eq_refl I) as (pre & P1 & P2 & P3).
  cbn [rev block_of map concat app] in P2. rewrite <- P2. auto.
Qed.
