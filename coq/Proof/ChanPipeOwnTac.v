(* Proof/ChanPipeOwnTac.v -- tactics for the preservation proof of layer L1. *)
From Coq Require Import List Arith Bool ZArith Lia.
From WV Require Import Model.ChanPipe Proof.ChanPipeBase Proof.ChanPipeOwn.
Import ListNotations.


Ltac l0_facts HL0 :=
  destruct HL0 as [[R1 R2] [O1 O2] [D1 D2]]; cbn [sh io wk] in *.

Ltac list_simp :=
  repeat match goal with
  | H : ?l ++ [_] = [] |- _ => exfalso; exact (app_one_nonnil _ _ _ H)
  | H : length (_ ++ [_]) = 1 |- _ => apply len1_app_one in H
  | |- _ ++ [_] <> [] => apply app_one_nonnil
  | H : context [length (_ ++ [_])] |- _ => rewrite len_app_one in H
  | |- context [length (_ ++ [_])] => rewrite len_app_one
  end.

Definition lockmark (j : nat) := True.

Ltac inst_locks :=
  repeat match goal with
  | H : context [wpc (?w ?j)] |- _ =>
      is_var j;
      lazymatch goal with
      | _ : lockmark j |- _ => fail
      | R2 : forall j : nat, rlock _ = Some (TW j) <-> _, O2 : forall j : nat, olock _ = Some (TW j) <-> _,
        D2 : forall j : nat, dlock _ = Some (TW j) <-> _ |- _ =>
          pose proof (R2 j); pose proof (O2 j); pose proof (D2 j); assert (lockmark j) by exact I
      end
  end.

Ltac rew_pcs :=
  repeat match goal with
  | H : wpc (?w ?j) = _ |- _ => rewrite H in *
  | E : requests _ = _ :: _ |- _ => rewrite E in *
  | E : requests _ = [] |- _ => rewrite E in *
  | E : queue _ = _ |- _ => rewrite E in *
  | E : connected _ = _ |- _ => rewrite E in *
  end.

Ltac slv := solve [ intuition (eauto; try discriminate; try congruence; try lia) ].

(* forward chaining: discharge premises that are immediate *)
Ltac fwd :=
  repeat match goal with
  | H : ?A -> _ |- _ =>
      match type of A with
      | Prop => let HA := fresh in
                assert (HA : A) by (first [ assumption | reflexivity | lia | discriminate | congruence ]);
                specialize (H HA); clear HA
      end
  end.

Ltac owner_contra :=
  repeat match goal with
  | H : ?x <> ?x |- _ => exfalso; apply H; reflexivity
  | Hx : forall j : nat, wk_owner (wpc (?w j)) = false, Hw : ?w ?me = _ |- _ =>
      let X := fresh in pose proof (Hx me) as X; rewrite Hw in X; discriminate X
  | Hx : forall j : nat, wk_owner (wpc (?w j)) = false, H : wk_owner (wpc (?w ?k)) = true |- _ =>
      rewrite (Hx k) in H; discriminate H
  | Hx : forall j : nat, j <> ?me -> wk_owner (wpc (?w j)) = false, H : wk_owner (wpc (?w ?k)) = true, N : ?k <> ?me |- _ =>
      rewrite (Hx k N) in H; discriminate H
  end.

Definition rlmark (b : bool) := True.

(* program-point facts: who must hold requests_lock *)
Ltac pc_facts :=
  repeat match goal with
  | H : is_c2 (wpc ?x) = true |- _ =>
      lazymatch goal with _ : wk_rl (wpc x) = true |- _ => fail | _ => pose proof (is_c2_rl _ H) end
  | H : is_sc (wpc ?x) = true |- _ =>
      lazymatch goal with _ : wk_rl (wpc x) = true |- _ => fail | _ => pose proof (is_sc_rl _ H) end
  | H : postpop (wpc ?x) = true |- _ =>
      lazymatch goal with _ : wk_rl (wpc x) = true |- _ => fail | _ => pose proof (postpop_rl _ H) end
  | H : io_handing ?i = true |- _ =>
      lazymatch goal with _ : io_rl (ipc i) = true |- _ => fail | _ => pose proof (handing_rl _ H) end
  | H : is_atacq ?pc = true |- _ =>
      lazymatch goal with _ : io_rl pc = true |- _ => fail | _ => pose proof (atacq_rl _ H) end
  end.

Ltac iff_fwd :=
  repeat match goal with
  | H : ?A <-> ?B |- _ =>
      first [ let HB := fresh in assert (HB : B) by (first [assumption | reflexivity]); apply (proj2 H) in HB; clear H
            | let HA := fresh in assert (HA : A) by (first [assumption | reflexivity]); apply (proj1 H) in HA; clear H
            | match B with
              | false = true => let HN := fresh in assert (HN : ~ A) by (let X := fresh in intro X; apply (proj1 H) in X; discriminate X); clear H
              end ]
  end.

Ltac fin0 :=
  bool_hyps; cbn in *; list_simp;
  try solve [ eauto ];
  try slv.

Ltac uniq_goal :=
  try match goal with
  | |- wk_owner (wpc (?w ?j)) = false => destruct (wk_owner (wpc (w j))) eqn:?; [exfalso|reflexivity]
  end;
  try match goal with
  | Hu : forall k, true = true -> wk_owner (wpc (?w k)) = true -> ?me = k,
    X : wk_owner (wpc (?w ?j)) = true, N : ?j <> ?me |- _ =>
      exfalso; apply N; symmetry; apply Hu; [reflexivity|exact X]
  end.

Ltac fin1 :=
  pc_facts; inst_locks; rew_pcs; cbn in *; iff_fwd; fwd; owner_contra; list_simp;
  try solve [ eauto ];
  try slv;
  uniq_goal.

Ltac fin :=
  fin0;
  try solve [ fin1 ];
  match goal with
  | s : shared |- _ =>
      destruct (queue s) as [|[|?]] eqn:?; try solve [ fin1 ];
      destruct (requests s) as [|? [|? ?]] eqn:?; fin1
  end.


Ltac upd_hyps :=
  repeat match goal with
  | H : forall j : nat, _ (wpc (upd _ _ _ j)) = _ |- _ =>
      apply (upd_forall_elim (fun y => wk_owner (wpc y) = false)) in H; destruct H
  end.

Ltac upd_goal me :=
  unfold upd in *;
  repeat match goal with
  | |- context [Nat.eqb ?j me] => destruct (Nat.eqb_spec j me); [subst j|]
  | H : context [Nat.eqb ?j me] |- _ => destruct (Nat.eqb_spec j me); [subst j|]
  end.

(* try the frame lemma: all side conditions by computation *)
Ltac frame_io HL1 :=
  apply (L1_frame _ _) with (7 := HL1); cbn; try reflexivity; intro; reflexivity.
Ltac frame_wk HL1 me Hw :=
  apply (L1_frame _ _) with (7 := HL1); cbn; try reflexivity;
  let j := fresh "j" in intro j; unfold upd; destruct (Nat.eqb_spec j me); [subst j; rewrite Hw|]; reflexivity.

