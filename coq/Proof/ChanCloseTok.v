(* Proof/ChanCloseTok.v -- preservation of the lock and "token" parts of the invariant of
   Model/ChanClose.v: requests_lock is owned exactly at the program points inside its `with`
   blocks; at most one of {a dispatcher entry, an active worker, the I/O thread about to call
   add_task, a cancel() in progress} exists at any time. *)
From Coq Require Import List Arith Bool Lia.
From WV Require Import Model.ChanClose Proof.ChanCloseBase.
Import ListNotations.

Lemma no_active_of_tokio : forall s, Inv s -> tokio s -> forall w, active (wk s w) = false.
Proof.
  intros s I T w. destruct (active (wk s w)) eqn:A; auto.
  destruct (i_act_excl s I w A) as [X _]. contradiction.
Qed.

Lemma no_other_active : forall s w, Inv s -> active (wk s w) = true ->
  forall w', w' <> w -> active (wk s w') = false.
Proof.
  intros s w I A w' N. destruct (active (wk s w')) eqn:A'; auto.
  exfalso. apply N. eapply i_act_uniq; eauto.
Qed.

Lemma pres_lock_io : forall s c s' l, Inv s -> step s c = Some (s', l) ->
  (rlock s' = Some ByIO <-> io_holds (io s') = true).
Proof.
  intros s c s' l I H. pose proof (i_lock_io s I) as L.
  destruct c as [e|w e|]; simpl in H.
  - destruct (i_mret s I); io_cases H; close2.
  - pose proof (i_lock_wk s I w) as LW. wk_cases H; close2.
  - sd_cases H; close2.
Qed.

Lemma pres_lock_wk : forall s c s' l, Inv s -> step s c = Some (s', l) ->
  forall w', (rlock s' = Some (ByW w') <-> wk_holds (wk s' w') = true).
Proof.
  intros s c s' l I H w'. pose proof (i_lock_wk s I w') as L'. pose proof (i_lock_io s I) as L.
  destruct c as [e|w e|]; simpl in H.
  - destruct (i_mret s I); io_cases H; close2.
  - pose proof (i_lock_wk s I w) as LW. wk_cases H; simpl; wsplit w' w; close2.
  - sd_cases H; close2.
Qed.

Lemma pres_lock_sd : forall s c s' l, Inv s -> step s c = Some (s', l) -> rlock s' <> Some BySD.
Proof.
  intros s c s' l I H. pose proof (i_lock_sd s I) as L.
  destruct c as [e|w e|]; simpl in H.
  - io_cases H; close2.
  - wk_cases H; close2.
  - sd_cases H; close2.
Qed.

Lemma pres_q1 : forall s c s' l, Inv s -> step s c = Some (s', l) -> queue s' <= 1.
Proof.
  intros s c s' l I H. pose proof (i_q1 s I) as Q1. pose proof (i_q_excl s I) as QX.
  destruct c as [e|w e|]; simpl in H.
  - io_cases H; close2.
  - wk_cases H; close2.
  - sd_cases H; close2.
Qed.

Ltac cheap_qx QX :=
  let Q := fresh "Q" in let A := fresh "A" in let B := fresh "B" in let C := fresh "C" in let X := fresh "X" in
  (intro Q; destruct (QX Q) as (A & B & C);
   split; [exact A | split; [ intros [X|X]; try discriminate X; try (destruct X as [X ?]; discriminate X); apply B; auto | exact C]]).

Lemma pres_q_excl : forall s c s' l, Inv s -> step s c = Some (s', l) ->
  queue s' = 1 -> (forall w, active (wk s' w) = false) /\ ~ tokio s' /\ sd s' = SdIdle.
Proof.
  intros s c s' l I H. pose proof (i_q_excl s I) as QX.
  pose proof (i_reqs_q s I) as RQ; pose proof (no_active_of_tokio s I) as NA; pose proof (i_tok_sd s I) as TS.
  pose proof (i_appx s I) as AX0.
  destruct c as [e|w e|]; simpl in H.
  - destruct (i_mret s I) as [MR|MR]; io_cases H; close3 ltac:(cheap_qx QX).
  - pose proof (i_act_excl s I w) as AX; pose proof (no_other_active s w I) as NO.
    wk_cases H; close3 ltac:(cheap_qx QX).
  - sd_cases H; close3 ltac:(cheap_qx QX).
Qed.

Lemma pres_act_uniq : forall s c s' l, Inv s -> step s c = Some (s', l) ->
  forall w1 w2, active (wk s' w1) = true -> active (wk s' w2) = true -> w1 = w2.
Proof.
  intros s c s' l I H w1 w2. pose proof (i_act_uniq s I w1 w2) as U.
  destruct c as [e|w e|]; simpl in H.
  - io_cases H; prep; exact U.
  - pose proof (i_act_uniq s I w1 w) as U1. pose proof (i_act_uniq s I w w2) as U2.
    pose proof (i_q_excl s I) as QX.
    wk_cases H; simpl; wsplit w1 w; wsplit w2 w; close2.
  - sd_cases H; prep; exact U.
Qed.
