(* C10, call-site layer for the request line.  What parse_header does with the
   first line (Model/Parser.v): first_line = line.rstrip(b" \t\x0b\x0c\r"); refuse if it
   contains CR or LF; crack_first_line = fullmatch + "method is upper-case".
   Proved here: for a line WITHOUT trailing whitespace the verdict is exactly
   the request-line grammar.  Lines with surrounding whitespace are the open
   known finding kf_c10_reqline_ws (refuted below). *)
From Coq Require Import List NArith Bool Lia.
From WV Require Import Lib.Regex Lib.RegexDec Lib.PyBytes Gen.GenRegex Spec.Grammar
  Proof.C10Gates Proof.RegexFacts Proof.C10CallSites Model.Receiver Model.Parser.
Import ListNotations.
Local Open Scope N_scope.

Definition request_line_accepts (line : bytes) : bool :=
  let fl := rstrip_by is_reqline_ws line in
  negb (has_cr_or_lf fl) &&
  match crack_first_line fl with
  | None => false
  | Some (c, u, v) => negb (beqb c [] && beqb u [] && beqb v [])
  end.

(* ---- split on a single byte ---- *)
Fixpoint count (c : N) (s : bytes) : nat :=
  match s with [] => O | x :: s' => if x =? c then S (count c s') else count c s' end.

Lemma count_app c a b : count c (a ++ b) = (count c a + count c b)%nat.
Proof. induction a as [|x a IH]; simpl; auto. destruct (x =? c); simpl; auto. Qed.

Lemma count_zero c a : Forall (fun x => x <> c) a -> count c a = O.
Proof.
  induction 1 as [|x a Hx Ha IH]; simpl; auto.
  destruct (x =? c) eqn:E; auto. apply N.eqb_eq in E. congruence.
Qed.

Lemma split_fuel_char fuel s c : (length s < fuel)%nat ->
  exists first rest, split_fuel fuel s [c] = first :: rest /\
    length rest = count c s /\
    Forall (fun x => x <> c) first /\
    (count c s = O -> first = s) /\
    (forall a b, s = a ++ c :: b -> Forall (fun x => x <> c) a -> first = a /\ rest = split_fuel (pred fuel) b [c]).
Proof.
  revert s; induction fuel as [|f IH]; intros s Hf; [lia|].
  cbn [split_fuel]. pose proof (find_char s c) as F.
  destruct (find s [c]) as [j|].
  - destruct F as (a & b & -> & Ha & ->).
    rewrite firstn_app_exact.
    replace (length a + length [c])%nat with (length (a ++ [c])) by (rewrite app_length; reflexivity).
    replace (a ++ c :: b) with ((a ++ [c]) ++ b) by (rewrite <- app_assoc; reflexivity).
    rewrite skipn_app_exact.
    assert (Hb : (length b < f)%nat).
    { rewrite app_length in Hf. simpl in Hf. lia. }
    destruct (IH b Hb) as (fb & rb & E & L & _).
    exists a, (split_fuel f b [c]).
    split; [reflexivity|]. split; [|split; [exact Ha|split]].
    + rewrite E. simpl. rewrite L. rewrite <- app_assoc. rewrite count_app. simpl.
      rewrite N.eqb_refl. rewrite (count_zero c a Ha). reflexivity.
    + intro Hz. exfalso. rewrite <- app_assoc in Hz. rewrite count_app in Hz. simpl in Hz.
      rewrite N.eqb_refl in Hz. lia.
    + intros a' b' E' Ha'. rewrite <- app_assoc in E'. simpl in E'.
      assert (L' : length a = length a').
      { pose proof (find_char_unique a b c Ha) as F1.
        pose proof (find_char_unique a' b' c Ha') as F2. rewrite E' in F1. congruence. }
      assert (a = a').
      { rewrite <- (firstn_app_exact a (c :: b)), E', L', firstn_app_exact; auto. }
      subst a'. apply app_inv_head in E'. injection E' as <-. split; reflexivity.
  - exists s, []. split; [reflexivity|]. split; [|split; [exact F|split; [auto|]]].
    + simpl. symmetry. apply count_zero; auto.
    + intros a b -> _. exfalso. rewrite Forall_forall in F. apply (F c); auto.
      apply in_or_app; right; left; auto.
Qed.

(* ---- regex side facts, decided reflectively on the generated gate ---- *)
Definition no_sp : re := Star (Cls [(0, 31); (33, 255)]).
Definition one_or_two_sp : re := Cat no_sp (Cat SP (Cat no_sp (Opt (Cat SP no_sp)))).
Definition tchar_prefix : re := Cat (Plus tchar) (Cat SP any_bytes).

Lemma gate_sp_count : forall s, bytes_ok s -> Lang gate_request_line s -> Lang one_or_two_sp s.
Proof. apply incl_check_sound. vm_compute. reflexivity. Qed.

Lemma gate_tchar_prefix : forall s, bytes_ok s -> Lang gate_request_line s -> Lang tchar_prefix s.
Proof. apply incl_check_sound. vm_compute. reflexivity. Qed.

Lemma spec_no_crlf : forall s, bytes_ok s -> Lang spec_request_line s -> Lang no_crlf s.
Proof. apply incl_check_sound. vm_compute. reflexivity. Qed.

Lemma Lang_Plus_cls rs a :
  Lang (Plus (Cls rs)) a <-> a <> [] /\ Forall (fun x => in_ranges x rs = true) a.
Proof.
  unfold Plus. rewrite Lang_Cat. split.
  - intros (u & v & -> & Hu & Hv). apply Lang_Cls in Hu as (x & -> & Hx).
    apply Lang_star_cls in Hv. split; [discriminate|]. constructor; auto.
  - intros [Hne H]. destruct a as [|x a]; [congruence|]. inversion H; subst.
    exists [x], a. repeat split; auto. + constructor; auto. + apply Lang_star_cls; auto.
Qed.

Lemma in_no_sp x : x < 256 -> (in_ranges x [(0, 31); (33, 255)] = true <-> x <> 32).
Proof. intro Hx. simpl. rewrite orb_false_r, orb_true_iff, !andb_true_iff, !N.leb_le. lia. Qed.

Lemma Lang_no_sp s : bytes_ok s -> (Lang no_sp s <-> Forall (fun x => x <> 32) s).
Proof.
  intro Hs. unfold no_sp. rewrite Lang_star_cls. unfold bytes_ok in Hs.
  rewrite !Forall_forall in *. split; intros H x Hx; apply (in_no_sp x (Hs x Hx)); auto.
Qed.

Lemma count_sp_of_shape s : bytes_ok s -> Lang one_or_two_sp s -> count 32 s = 1%nat \/ count 32 s = 2%nat.
Proof.
  intros Hs H. unfold one_or_two_sp in H.
  apply Lang_Cat in H as (a & r1 & -> & Ha & H).
  apply Lang_Cat in H as (sp & r2 & -> & Hsp & H). apply Lang_Sym in Hsp; subst sp.
  apply Lang_Cat in H as (b & r3 & -> & Hb & H).
  apply bytes_ok_app in Hs as [Hsa Hs]. apply bytes_ok_app in Hs as [_ Hs].
  apply bytes_ok_app in Hs as [Hsb Hs3].
  apply Lang_no_sp in Ha, Hb; auto.
  rewrite !count_app. rewrite (count_zero 32 a Ha), (count_zero 32 b Hb). simpl.
  apply Lang_Alt in H as [H|H].
  - apply Lang_Eps in H; subst. simpl. left. reflexivity.
  - apply Lang_Cat in H as (sp & c & -> & Hsp & Hc). apply Lang_Sym in Hsp; subst sp.
    apply bytes_ok_app in Hs3 as [_ Hsc]. apply Lang_no_sp in Hc; auto.
    rewrite count_app, (count_zero 32 c Hc). simpl. right. reflexivity.
Qed.

(* tchar that is its own upper-case image = method_char *)
Lemma tchar_upper_pointwise x :
  in_ranges x [(33,33); (35,35); (36,36); (37,37); (38,38); (39,39); (42,42); (43,43);
               (45,45); (46,46); (94,94); (95,95); (96,96); (124,124); (126,126);
               (48,57); (65,90); (97,122)] = true ->
  (upper_ascii_b x = x <->
   in_ranges x [(33,33); (35,39); (42,43); (45,46); (48,57); (65,90); (94,96); (124,124); (126,126)] = true).
Proof.
  unfold upper_ascii_b. simpl. rewrite !orb_false_r.
  rewrite !orb_true_iff, !andb_true_iff, !N.leb_le.
  intro H. destruct ((97 <=? x) && (x <=? 122)) eqn:E.
  - apply andb_true_iff in E as [E1 E2]. apply N.leb_le in E1, E2. split; intro G; lia.
  - apply andb_false_iff in E. rewrite !N.leb_gt in E. split; intro G; [lia | reflexivity].
Qed.

Lemma upper_fixed_iff a :
  Forall (fun x => in_ranges x [(33,33); (35,35); (36,36); (37,37); (38,38); (39,39); (42,42); (43,43);
               (45,45); (46,46); (94,94); (95,95); (96,96); (124,124); (126,126);
               (48,57); (65,90); (97,122)] = true) a ->
  (beqb a (upper_ascii a) = true <->
   Forall (fun x => in_ranges x [(33,33); (35,39); (42,43); (45,46); (48,57); (65,90); (94,96); (124,124); (126,126)] = true) a).
Proof.
  induction 1 as [|x a Hx Ha IH].
  - simpl. split; auto.
  - cbn [upper_ascii map beqb]. rewrite andb_true_iff, N.eqb_eq.
    fold (upper_ascii a). rewrite IH. pose proof (tchar_upper_pointwise x Hx) as P.
    split.
    + intros [E F]. constructor; auto. apply P. congruence.
    + intro F. inversion F; subst. split; auto. symmetry. apply P; auto.
Qed.

Lemma tchar_no_sp a :
  Forall (fun x => in_ranges x [(33,33); (35,35); (36,36); (37,37); (38,38); (39,39); (42,42); (43,43);
               (45,45); (46,46); (94,94); (95,95); (96,96); (124,124); (126,126);
               (48,57); (65,90); (97,122)] = true) a -> Forall (fun x => x <> 32) a.
Proof.
  apply Forall_impl. intros x H E. subst. vm_compute in H. discriminate.
Qed.

Lemma method_no_sp a :
  Forall (fun x => in_ranges x [(33,33); (35,39); (42,43); (45,46); (48,57); (65,90); (94,96); (124,124); (126,126)] = true) a ->
  Forall (fun x => x <> 32) a.
Proof.
  apply Forall_impl. intros x H E. subst. vm_compute in H. discriminate.
Qed.

Lemma method_is_tchar a :
  Forall (fun x => in_ranges x [(33,33); (35,39); (42,43); (45,46); (48,57); (65,90); (94,96); (124,124); (126,126)] = true) a ->
  Forall (fun x => in_ranges x [(33,33); (35,35); (36,36); (37,37); (38,38); (39,39); (42,42); (43,43);
               (45,45); (46,46); (94,94); (95,95); (96,96); (124,124); (126,126);
               (48,57); (65,90); (97,122)] = true) a.
Proof.
  apply Forall_impl. intros x. simpl. rewrite !orb_false_r.
  rewrite !orb_true_iff, !andb_true_iff, !N.leb_le. lia.
Qed.

(* decomposition of a line that starts with a token / method followed by SP *)
Lemma prefix_decomp cls s : bytes_ok s ->
  Lang (Cat (Plus (Cls cls)) (Cat SP any_bytes)) s <->
  exists a b, s = a ++ 32 :: b /\ a <> [] /\ Forall (fun x => in_ranges x cls = true) a.
Proof.
  intro Hs. rewrite Lang_Cat. split.
  - intros (a & r & -> & Ha & Hr). apply Lang_Cat in Hr as (sp & b & -> & Hsp & _).
    apply Lang_Sym in Hsp; subst. apply Lang_Plus_cls in Ha as [Hne Ha]. exists a, b. auto.
  - intros (a & b & -> & Hne & Ha). exists a, (32 :: b). split; [reflexivity|]. split.
    + apply Lang_Plus_cls; auto.
    + apply Lang_Cat. exists [32], b. repeat split; auto. apply Lang_Sym; auto.
      apply Lang_any_bytes. apply bytes_ok_app in Hs as [_ Hs]. inversion Hs; auto.
Qed.

Theorem request_line_callsite_partial : forall line, bytes_ok line ->
  rstrip_by is_reqline_ws line = line ->          (* no trailing whitespace: outside kf_c10_reqline_ws *)
  (request_line_accepts line = true <-> Lang spec_request_line line).
Proof.
  intros line Hb Hr. unfold request_line_accepts. rewrite Hr.
  unfold crack_first_line.
  split.
  - intro H. apply andb_true_iff in H as [H1 H2]. apply negb_true_iff in H1.
    destruct (matches gate_request_line line) eqn:G; cbn [negb] in H2; [|discriminate].
    apply matches_correct in G.
    apply request_line_exact; auto. { apply has_cr_or_lf_false; auto. }
    split; auto.
    pose proof (gate_tchar_prefix line Hb G) as T. unfold tchar_prefix, tchar in T.
    apply prefix_decomp in T as (a & b & E & Hne & Ha); auto.
    unfold upper_method_prefix, method_char. apply prefix_decomp; auto.
    exists a, b. repeat split; auto.
    assert (Hf : (length line < S (length line))%nat) by lia.
    destruct (split_fuel_char (S (length line)) line 32 Hf) as (m & rest & Es & _ & _ & _ & Hd).
    destruct (Hd a b E (tchar_no_sp a Ha)) as [-> _].
    unfold split in H2. rewrite Es in H2.
    apply upper_fixed_iff; auto.
    destruct rest as [|u [|v [|w rest]]]; try discriminate H2.
    + destruct (beqb a (upper_ascii a)); auto; discriminate.
    + destruct (beqb a (upper_ascii a)); auto; discriminate.
  - intro S0.
    pose proof (spec_no_crlf line Hb S0) as NC.
    apply (request_line_exact line Hb NC) in S0 as [G U].
    assert (C : has_cr_or_lf line = false).
    { unfold no_crlf in NC. apply Lang_star_cls in NC. unfold has_cr_or_lf.
      apply orb_false_iff. split; apply memb_false_forall; eapply Forall_impl; try exact NC;
        intros x Hx E; subst; vm_compute in Hx; discriminate. }
    rewrite C. cbn [negb andb].
    pose proof G as G'. apply matches_correct in G'. rewrite G'. cbn [negb].
    unfold upper_method_prefix, method_char in U.
    apply prefix_decomp in U as (a & b & E & Hne & Ha); auto.
    assert (Hf : (length line < S (length line))%nat) by lia.
    destruct (split_fuel_char (S (length line)) line 32 Hf) as (m & rest & Es & Lr & _ & _ & Hd).
    destruct (Hd a b E (method_no_sp a Ha)) as [-> _].
    unfold split. rewrite Es.
    pose proof (count_sp_of_shape line Hb (gate_sp_count line Hb G)) as Cn.
    assert (Up : beqb a (upper_ascii a) = true).
    { apply upper_fixed_iff; auto. apply method_is_tchar; auto. }
    destruct rest as [|u [|v [|w rest]]]; simpl in Lr.
    + lia.
    + rewrite Up. destruct a; [congruence|]. reflexivity.
    + rewrite Up. destruct a; [congruence|]. reflexivity.
    + lia.
Qed.

Example request_line_ok :
  request_line_accepts [71;69;84;32;47;32;72;84;84;80;47;49;46;49] = true.
Proof. vm_compute. reflexivity. Qed.
Example request_line_lower_method :
  request_line_accepts [103;101;116;32;47] = false.
Proof. vm_compute. reflexivity. Qed.
