(* C16 (e): the categories of uninterpretable proxy headers give a 400
   (MalformedProxyHeader), including the empty host (repaired by 11c18eb,
   formerly finding F20) and the empty client address (12a41a9, formerly F19). *)
From Coq Require Import String.
From Coq Require Import List NArith ZArith Bool Lia.
From WV Require Import Lib.PyBytes Lib.PyStrProxy Lib.Regex Lib.RegexDec Gen.GenRegex Spec.Grammar Model.Proxy
  Spec.ProxySpec Proof.ProxyDict Proof.ProxyStr Proof.ProxyStages Proof.ProxyTotal Proof.ProxyHops.
Import ListNotations.
Local Open Scope N_scope.

(* ---- the generated quoted-string gate is the RFC quoted-string, for every string --------- *)
Fixpoint ranges_bounded (rs : list (N * N)) : bool :=
  match rs with [] => true | (_, hi) :: rs' => (hi <? 256) && ranges_bounded rs' end.
Fixpoint re_bounded (r : re) : bool :=
  match r with
  | Emp | Eps => true
  | Cls rs => ranges_bounded rs
  | Cat a b | Alt a b | And a b => re_bounded a && re_bounded b
  | Star a => re_bounded a
  end.

Lemma in_ranges_bounded x rs : ranges_bounded rs = true -> in_ranges x rs = true -> x < 256.
Proof.
  induction rs as [|[lo hi] rs IH]; simpl; [discriminate|].
  intros Hb Hi. apply andb_true_iff in Hb as [Hh Hb]. apply N.ltb_lt in Hh.
  apply orb_true_iff in Hi as [Hi|Hi]; auto.
  apply andb_true_iff in Hi as [_ Hi]. apply N.leb_le in Hi. lia.
Qed.

Lemma Lang_bounded r s : Lang r s -> re_bounded r = true -> bytes_ok s.
Proof.
  unfold bytes_ok. induction 1; simpl; intro Hb; try (apply andb_true_iff in Hb as [Hb1 Hb2]); auto.
  - constructor; [|constructor]. eapply in_ranges_bounded; eauto.
  - apply Forall_app. auto.
  - apply Forall_app. split; auto.
Qed.

Definition bytes_okb (s : list N) : bool := forallb (fun b => b <? 256) s.
Lemma bytes_okb_ok s : bytes_okb s = true <-> bytes_ok s.
Proof.
  unfold bytes_okb, bytes_ok. rewrite forallb_forall, Forall_forall.
  split; intros H x Hx; specialize (H x Hx); [apply N.ltb_lt|apply N.ltb_lt]; auto.
Qed.

Lemma quoted_string_gate_exact : forall s, bytes_ok s ->
  (Lang gate_quoted_string s <-> Lang quoted_string s).
Proof. apply equiv_check_sound. vm_compute. reflexivity. Qed.

Lemma gate_is_rfc v : matches gate_quoted_string v = matches quoted_string v.
Proof.
  destruct (bytes_okb v) eqn:E.
  - apply bytes_okb_ok in E. pose proof (quoted_string_gate_exact v E) as H.
    rewrite <- !matches_correct in H.
    destruct (matches gate_quoted_string v), (matches quoted_string v); auto;
      [symmetry; apply H; reflexivity|apply H; reflexivity].
  - destruct (matches gate_quoted_string v) eqn:E1.
    + apply matches_correct in E1. apply Lang_bounded in E1; [|vm_compute; reflexivity].
      apply bytes_okb_ok in E1. congruence.
    + destruct (matches quoted_string v) eqn:E2; auto.
      apply matches_correct in E2. apply Lang_bounded in E2; [|vm_compute; reflexivity].
      apply bytes_okb_ok in E2. congruence.
Qed.

(* ---- undquote against the specification -------------------------------------------------------- *)
Lemma last_opt_app s x : last_opt (s ++ [x]) = Some x.
Proof.
  induction s as [|y s IH]; [reflexivity|]. cbn [app last_opt].
  destruct (s ++ [x]) eqn:E; [destruct s; discriminate|]. exact IH.
Qed.

Lemma endswith_char s c : endswith s [c] = match last_opt s with Some x => c =? x | None => false end.
Proof.
  unfold endswith. cbn [rev app]. rewrite startswith_char.
  destruct s as [|y s] using rev_ind; [reflexivity|].
  rewrite rev_app_distr, last_opt_app. reflexivity.
Qed.

Lemma starts_dq_spec v : startswith v [c_dquote] = starts_dq v.
Proof. rewrite startswith_char. unfold starts_dq. destruct v; auto. apply N.eqb_sym. Qed.

Lemma ends_dq_spec v : endswith v [c_dquote] = ends_dq v.
Proof. rewrite endswith_char. unfold ends_dq. destruct (last_opt v); auto. apply N.eqb_sym. Qed.

Lemma quoted_string_shape v : matches quoted_string v = true -> starts_dq v = true /\ ends_dq v = true.
Proof.
  intro H. apply matches_correct in H. unfold quoted_string in H.
  apply Lang_Cat in H as (u & w & -> & Hu & Hw). apply Lang_Sym in Hu. subst u.
  apply Lang_Cat in Hw as (m & z & -> & _ & Hz). apply Lang_Sym in Hz. subst z.
  split; [reflexivity|]. unfold ends_dq. change ([34] ++ m ++ [34]) with ((34 :: m) ++ [34]).
  rewrite last_opt_app. reflexivity.
Qed.

Lemma undquote_spec v :
  undquote v = if bad_quoting v then Exn ValueError
               else Ok (if starts_dq v then unescape (mid v) else v).
Proof.
  unfold undquote, bad_quoting. rewrite starts_dq_spec, ends_dq_spec, gate_is_rfc.
  destruct (matches quoted_string v) eqn:Em.
  - destruct (quoted_string_shape v Em) as [-> ->]. reflexivity.
  - destruct (starts_dq v), (ends_dq v); reflexivity.
Qed.

Lemma undquote_ok_good v u : undquote v = Ok u -> bad_quoting v = false.
Proof. rewrite undquote_spec. destruct (bad_quoting v); [discriminate|reflexivity]. Qed.

(* ---- "several values": a comma survives unquoting ------------------------------------------------ *)
Lemma quoted_pair_first x c : matches p_QUOTED_PAIR_RE [x; c] = true -> x = 92.
Proof.
  intro H. apply matches_correct in H.
  assert (E : exists rs, p_QUOTED_PAIR_RE = Cat (Sym 92) (Cls rs)) by (eexists; reflexivity).
  destruct E as [rs E]. rewrite E in H.
  apply Lang_Cat in H as (u & w & Huw & Hu & Hw). apply Lang_Sym in Hu. subst u.
  injection Huw as ->. reflexivity.
Qed.

Lemma memb_unescape_aux c n : c <> 92 -> forall s, (List.length s <= n)%nat -> memb c (unescape s) = memb c s.
Proof.
  intros Hc. induction n as [|n IH]; intros s Hl.
  - destruct s; [reflexivity|simpl in Hl; lia].
  - destruct s as [|x [|y s']]; try reflexivity.
    assert (L1 : (List.length s' <= n)%nat) by (cbn [List.length] in Hl; lia).
    assert (L2 : (List.length (y :: s') <= n)%nat) by (cbn [List.length] in *; lia).
    pose proof (IH s' L1) as I1. pose proof (IH (y :: s') L2) as I2.
    change (unescape (x :: y :: s')) with
      (if matches p_QUOTED_PAIR_RE [x; y] then y :: unescape s' else x :: unescape (y :: s')).
    destruct (matches p_QUOTED_PAIR_RE [x; y]) eqn:E.
    + apply quoted_pair_first in E. subst x.
      rewrite (memb_cons c y), (memb_cons c 92), (memb_cons c y s'), I1.
      destruct (c =? 92) eqn:E2; [apply N.eqb_eq in E2; congruence|]. reflexivity.
    + rewrite (memb_cons c x), (memb_cons c x (y :: s')), I2. reflexivity.
Qed.

Lemma memb_unescape c s : c <> 92 -> memb c (unescape s) = memb c s.
Proof. intro H. eapply memb_unescape_aux; eauto. Qed.

Lemma memb_app c a b : memb c (a ++ b) = memb c a || memb c b.
Proof. unfold memb. apply existsb_app. Qed.

Lemma comma_survives v u : undquote v = Ok u -> has_char c_comma u = memb comma v.
Proof.
  rewrite undquote_spec. destruct (bad_quoting v) eqn:Eb; [discriminate|]. intro H. injection H as <-.
  unfold has_char. change c_comma with comma. destruct (starts_dq v) eqn:Es; [|reflexivity].
  rewrite memb_unescape by (vm_compute; discriminate).
  (* a well quoted value: v = DQUOTE m DQUOTE *)
  unfold bad_quoting in Eb. rewrite Es in Eb. cbn [orb andb] in Eb. apply negb_false_iff in Eb.
  apply matches_correct in Eb. unfold quoted_string in Eb.
  apply Lang_Cat in Eb as (a & w & -> & Ha & Hw). apply Lang_Sym in Ha. subst a.
  apply Lang_Cat in Hw as (m & z & -> & _ & Hz). apply Lang_Sym in Hz. subst z.
  unfold mid. cbn [app tl]. rewrite removelast_last.
  rewrite memb_cons, memb_app. cbn. rewrite orb_false_r. reflexivity.
Qed.

(* ---- list-valued headers ----------------------------------------------------------------------------- *)
Lemma xff_hop_ok_good h c : xff_hop h = Ok c -> bad_quoting (strip h) = false.
Proof. unfold xff_hop. intro H. apply bind_ok in H as (u & Hu & _). eapply undquote_ok_good; eauto. Qed.

Lemma xfh_hop_ok_good h c : xfh_hop h = Ok c -> bad_quoting (strip h) = false.
Proof. unfold xfh_hop. apply undquote_ok_good. Qed.

Lemma list_quoting_blocks {f : str -> result str} raw cs :
  (forall h c, f h = Ok c -> bad_quoting (strip h) = false) ->
  mapM f (split raw [c_comma]) = Ok cs -> cat_list_quoting raw = false.
Proof.
  intros Hf Hm. unfold cat_list_quoting. change comma with c_comma.
  destruct (existsb _ _) eqn:E; auto. apply existsb_exists in E as (h & Hin & Hb).
  destruct (mapM_ok_forall _ _ _ Hm h Hin) as [c Hc]. rewrite (Hf _ _ Hc) in Hb. discriminate.
Qed.

(* ---- single-valued headers ---------------------------------------------------------------------------- *)
Definition header_or_empty (key : str) (e : environ) : str :=
  match lookup key e with Some v => v | None => [] end.

Lemma single_value_ok_good key e v : single_value key e = Ok v ->
  cat_single_quoting (header_or_empty key e) = false /\ cat_several_values (header_or_empty key e) = false.
Proof.
  unfold single_value, header_or_empty, cat_single_quoting, cat_several_values. intro H.
  apply bind_ok in H as (u & Hu & H). split; [eapply undquote_ok_good; eauto|].
  rewrite <- (comma_survives _ _ Hu). destruct (has_char c_comma u); [discriminate|reflexivity].
Qed.

(* ---- Forwarded -------------------------------------------------------------------------------------------- *)
Lemma foldM_ok_forall {A B} (f : A -> B -> result A) l a r :
  foldM f a l = Ok r -> forall x, In x l -> exists a' r', f a' x = Ok r'.
Proof.
  revert a. induction l as [|y l IH]; intros a H x Hin; [destruct Hin|].
  cbn [foldM] in H. apply bind_ok in H as (a1 & H1 & H2).
  destruct Hin as [<-|Hin]; eauto.
Qed.

Lemma fwd_pair_ok_good acc p r : fwd_pair acc p = Ok r -> pair_bad (lower_latin1 p) = false.
Proof.
  unfold fwd_pair, pair_bad, cat_pair_no_eq, cat_pair_padded, cat_pair_quoting, pair_token, pair_value.
  set (q := lower_latin1 p). destruct (truthy q) eqn:Et; cbn [negb].
  2:{ intros _. apply truthy_false in Et. rewrite Et. reflexivity. }
  rewrite partition_char. change c_eq with eqc. destruct (memb eqc q) eqn:Em.
  2:{ cbn. discriminate. }
  rewrite beqb_refl. cbn [negb andb orb].
  destruct (beqb (strip (take_until eqc q)) (take_until eqc q)); cbn [negb]; [|discriminate].
  destruct (beqb (strip (drop_through eqc q)) (drop_through eqc q)); cbn [negb orb]; [|discriminate].
  unfold known_token. change t_by with s_by. change t_for with s_for. change t_host with s_host. change t_proto with s_proto.
  destruct (beqb (take_until eqc q) s_by).
  { intro H. apply bind_ok in H as (u & Hu & _). rewrite (undquote_ok_good _ _ Hu). reflexivity. }
  destruct (beqb (take_until eqc q) s_for).
  { intro H. apply bind_ok in H as (u & Hu & _). rewrite (undquote_ok_good _ _ Hu). reflexivity. }
  destruct (beqb (take_until eqc q) s_host).
  { intro H. apply bind_ok in H as (u & Hu & _). rewrite (undquote_ok_good _ _ Hu). reflexivity. }
  destruct (beqb (take_until eqc q) s_proto).
  { intro H. apply bind_ok in H as (u & Hu & _). rewrite (undquote_ok_good _ _ Hu). reflexivity. }
  reflexivity.
Qed.

Lemma fwd_element_ok_good el r : fwd_element el = Ok r -> element_bad el = false.
Proof.
  unfold fwd_element, element_bad. change semi with c_semi. intro H.
  destruct (existsb _ _) eqn:E; auto. apply existsb_exists in E as (p & Hin & Hb).
  destruct (foldM_ok_forall _ _ _ _ H p Hin) as (a' & r' & Hp).
  rewrite (fwd_pair_ok_good _ _ _ Hp) in Hb. discriminate.
Qed.

Lemma forwarded_blocks raw ps : mapM fwd_element (split raw [c_comma]) = Ok ps -> cat_forwarded raw = false.
Proof.
  intro Hm. unfold cat_forwarded. change comma with c_comma.
  destruct (existsb _ _) eqn:E; auto. apply existsb_exists in E as (el & Hin & Hb).
  destruct (mapM_ok_forall _ _ _ Hm el Hin) as [r Hr]. rewrite (fwd_element_ok_good _ _ Hr) in Hb. discriminate.
Qed.

(* ---- the categories, at the level of the request -------------------------------------------------------- *)
Definition malformed_syntax (tph : list str) (e : environ) : Prop :=
  (has tph n_xff = true /\ exists raw, lookup k_xff e = Some raw /\ cat_list_quoting raw = true) \/
  (has tph n_xfh = true /\ exists raw, lookup k_xfh e = Some raw /\ cat_list_quoting raw = true) \/
  (has tph n_xfproto = true /\
     (cat_single_quoting (header_or_empty k_xfproto e) = true \/ cat_several_values (header_or_empty k_xfproto e) = true)) \/
  (has tph n_xfport = true /\
     (cat_single_quoting (header_or_empty k_xfport e) = true \/ cat_several_values (header_or_empty k_xfport e) = true)) \/
  (has tph n_fwd = true /\ exists raw, lookup k_fwd e = Some raw /\ truthy raw = true /\ cat_forwarded raw = true).

Lemma header_or_empty_env key e1 e2 : lookup key e1 = lookup key e2 -> header_or_empty key e1 = header_or_empty key e2.
Proof. unfold header_or_empty. intros ->. reflexivity. Qed.

Lemma select_ok_wellformed e k tph s : parse_select e k tph = Ok s -> ~ malformed_syntax tph e.
Proof.
  intros H Hm. apply select_ok_inv in H as (s1 & s2 & s3 & s4 & s5 & E1 & E2 & E3 & E4 & E5 & E6).
  assert (K1 : forall key, beqb key k_xff = false -> lookup key (env s1) = lookup key e).
  { intros key H1. pose proof E1 as E1'. apply blk_xff_ok in E1' as [[-> _]|(? & ? & ? & ? & _ & _ & _ & _ & _ & ->)]; auto.
    cbn [env init_pst]. apply lookup_set_other. exact H1. }
  assert (K2 : forall key, beqb key k_xff = false -> beqb key k_xfh = false -> lookup key (env s2) = lookup key e).
  { intros key H1 H2. rewrite <- K1 by exact H1.
    pose proof E2 as E2'. apply blk_xfh_ok in E2' as [[-> _]|(? & ? & ? & ? & _ & _ & _ & _ & _ & ->)]; auto.
    cbn [env]. apply lookup_set_other. exact H2. }
  destruct Hm as [(Ht & raw & Hl & Hc)|[(Ht & raw & Hl & Hc)|[(Ht & Hc)|[(Ht & Hc)|(Ht & raw & Hl & Htr & Hc)]]]].
  - apply blk_xff_ok in E1 as [[_ [Hx|Hx]]|(raw' & cs & c & u & _ & Hl' & Hmm & _)]; try (cbn [env init_pst] in *; congruence).
    cbn [env init_pst] in Hl'. rewrite Hl in Hl'. injection Hl' as <-.
    rewrite (list_quoting_blocks raw cs xff_hop_ok_good Hmm) in Hc. discriminate.
  - assert (Hl1 : lookup k_xfh (env s1) = Some raw) by (rewrite K1 by keq; exact Hl).
    apply blk_xfh_ok in E2 as [[_ [Hx|Hx]]|(raw' & cs & c & u & _ & Hl' & Hmm & _)]; try congruence.
    rewrite Hl1 in Hl'. injection Hl' as <-.
    rewrite (list_quoting_blocks raw cs xfh_hop_ok_good Hmm) in Hc. discriminate.
  - apply blk_proto_ok in E3 as [[_ Hx]|(v & u & _ & Hv & _)]; [congruence|].
    apply single_value_ok_good in Hv as [G1 G2].
    assert (Kp : lookup k_xfproto (env s2) = lookup k_xfproto e) by (apply K2; keq).
    rewrite (header_or_empty_env _ _ e Kp) in G1, G2. destruct Hc; congruence.
  - apply blk_port_ok in E4 as [[_ Hx]|(v & u & _ & Hv & _)]; [congruence|].
    apply single_value_ok_good in Hv as [G1 G2].
    rewrite (blk_proto_env _ _ _ E3) in G1, G2.
    assert (Kp : lookup k_xfport (env s2) = lookup k_xfport e) by (apply K2; keq).
    rewrite (header_or_empty_env _ _ e Kp) in G1, G2. destruct Hc; congruence.
  - assert (Hl5 : lookup k_fwd (env s5) = Some raw).
    { apply blk_by_ok in E5 as (-> & _). rewrite (blk_port_env _ _ _ E4), (blk_proto_env _ _ _ E3), K2 by keq. exact Hl. }
    unfold blk_fwd_get in E6. rewrite Ht in E6.
    apply blk_forwarded_ok in E6 as [[_ Hx]|(raw' & ps & Hf & _ & Hmm & _)].
    + cbn [fwd] in Hx. rewrite Hl5 in Hx. cbn in Hx. congruence.
    + cbn [fwd] in Hf. rewrite Hl5 in Hf. injection Hf as <-.
      rewrite (forwarded_blocks raw ps Hmm) in Hc. discriminate.
Qed.

(* categories decided on the selected values *)
Definition malformed_selection (s : pst) : Prop :=
  cat_scheme (fproto s) = true \/ empty_host (fhost s) = true \/
  (exists cl, client s = Some cl /\ bad_client cl = true).

Lemma apply_malformed s : has_key k_url_scheme (env s) -> malformed_selection s ->
  exists h, parse_apply s = Malformed h.
Proof.
  intros Hk Hm. unfold parse_apply.
  destruct (stage_proto s) as [s1| |] eqn:E1; cbn [bind]; eauto.
  2:{ exfalso. eapply stage_proto_no_exn; eauto. }
  pose proof (stage_proto_has_key _ _ _ E1 Hk) as Hk1.
  pose proof (stage_proto_ok _ _ E1) as (P1c & P1h & _ & _ & P1).
  destruct (stage_host s1) as [s2| |] eqn:E2; cbn [bind]; eauto.
  2:{ exfalso. eapply stage_host_no_exn; eauto. }
  pose proof (stage_host_ok _ _ E2) as (P2c & _ & _ & _ & _ & _ & _ & P2e).
  destruct Hm as [Hm|[Hm|(cl & Hc & Hb)]].
  - destruct P1 as [[_ Hp]|(_ & Hp & _)]; [rewrite Hp in Hm; discriminate|congruence].
  - rewrite P1h in P2e. congruence.
  - rewrite stage_client_spec. destruct (stage_port_facts s2) as (P3c & _). rewrite P3c, P2c, P1c, Hc.
    destruct cl as [|c0 c']; [discriminate|]. cbv zeta. rewrite Hb. eauto.
Qed.

Lemma trusted_malformed c e :
  on_trusted_path c e = true ->
  (malformed_syntax (tph_of c) e \/
   has_key k_url_scheme e /\
   exists s, parse_select e (trusted_proxy_count c) (tph_of c) = Ok s /\ malformed_selection s) ->
  exists h, middleware c e = Malformed h.
Proof.
  intros Hp Hm. unfold middleware, on_trusted_path in *.
  destruct (lookup k_remote_addr e) as [peer|]; [|discriminate]. rewrite Hp.
  unfold parse_proxy_headers. fold (tph_of c).
  destruct (parse_select e (trusted_proxy_count c) (tph_of c)) as [s| |] eqn:Es; cbn [bind].
  - destruct Hm as [Hm|(Hk & s' & Hs' & Hc)].
    + exfalso. eapply select_ok_wellformed; eauto.
    + injection Hs' as <-.
      destruct (apply_malformed s (select_keys _ _ _ _ _ Es Hk) Hc) as [h ->]. cbn. eauto.
  - eauto.
  - exfalso. eapply select_no_exn; eauto.
Qed.

(* and a request that is accepted has none of them *)
Lemma accepted_wellformed c e o :
  on_trusted_path c e = true -> has_key k_url_scheme e -> middleware c e = Ok o ->
  ~ malformed_syntax (tph_of c) e /\
  forall s, parse_select e (trusted_proxy_count c) (tph_of c) = Ok s -> ~ malformed_selection s.
Proof.
  intros Hp Hk Ho. split.
  - intro Hm. destruct (trusted_malformed c e Hp (or_introl Hm)) as [h Hh]. congruence.
  - intros s Hs Hm. destruct (trusted_malformed c e Hp (or_intror (conj Hk (ex_intro _ s (conj Hs Hm))))) as [h Hh].
    congruence.
Qed.

(* the former finding F20 *)
Definition f20_cfg : config :=
  {| trusted_proxy := Some (s2l "10.0.0.1"%string); trusted_proxy_count := 1%Z;
     trusted_proxy_headers := Some [n_xfh]; clear_untrusted := true |}.
Definition f20_env : environ :=
  [(k_remote_addr, s2l "10.0.0.1"%string); (k_url_scheme, s_http); (k_server_name, s2l "real.example"%string);
   (k_xfh, s2l ":80"%string)].

Example empty_host_is_400 : middleware f20_cfg f20_env = Malformed h_xfh.
Proof. vm_compute. reflexivity. Qed.
