(* Proof/ChanPipeQuietStep.v -- layer L4 is preserved by every step. *)
From Coq Require Import List Arith Bool ZArith Lia Permutation.
From WV Require Import Model.ChanPipe Proof.ChanPipeBase Proof.ChanPipeOwn Proof.ChanPipeLog Proof.ChanPipeQuiet.
Import ListNotations.

Section Step4.
Variable P : params.

Ltac frame4_io HL4 :=
  apply (L4_frame P _ _) with (7 := HL4); cbn; try reflexivity; intros; reflexivity.
Ltac frame4_wk HL4 me Hw Hme :=
  apply (L4_frame P _ _) with (7 := HL4); cbn; try reflexivity;
  [ let j := fresh "j" in intro j; unfold upd; destruct (Nat.eqb_spec j me); [subst j; rewrite Hw|]; reflexivity
  | let j := fresh "j" in let H := fresh in intros j H; unfold upd; destruct (Nat.eqb_spec j me);
    [ subst j; apply Nat.ltb_lt in Hme; lia | reflexivity ] ].

Lemma wwait_dl : forall pc, is_wwait pc = true -> wk_dl pc = true.
Proof. destruct pc; simpl; congruence. Qed.

Theorem L4_step : forall st c st' l, L0 st -> L1 st -> L4 P st -> step P st c = Some (st', l) -> L4 P st'.
Proof.
  intros st c st' l HL0 HL1 HL4 Hs.
  pose proof (l1_q _ HL1) as Hq1.
  destruct HL0 as [_ _ [D1 D2]].
  destruct c as [e | me e].
  - step_io Hs; cbn [sh io wk ipc] in *.
    all: try solve [frame4_io HL4].
    all: destruct HL4 as [QA QB QC QD QE QF]; cbn [sh io wk ipc] in *.
    + (* add_task: acquire + append *)
      apply free_none in E0.
      assert (Hnw : forall j, is_wwait (wpc (w j)) = false).
      { intro j. destruct (is_wwait (wpc (w j))) eqn:X; auto. apply wwait_dl in X. apply (proj2 (D2 j)) in X. congruence. }
      split; cbn [sh io wk ipc]; intros; eauto.
      all: try (rewrite Hnw in *; discriminate).
      all: try (right; right; reflexivity).
    + (* notify, nobody parked un-notified *)
      split; cbn [sh io wk ipc]; intros; eauto.
      specialize (QF H H0). destruct QF as [X|[X|X]]; auto.
      assert (Hn : 0 < p_nw P) by lia.
      destruct (awake (wpc (w 0))) eqn:Ea; [left; exists 0; auto|].
      destruct (is_wwait (wpc (w 0))) eqn:Ew.
      * rewrite (QB 0 Ew) in H0. lia.
      * assert (Ep : is_parked (wpc (w 0)) = true) by (destruct (wpc (w 0)); simpl in *; congruence).
        apply QD in Ep. rewrite E0 in Ep. simpl in Ep. right. left. intro Z. rewrite Z in Ep. contradiction.
    + (* notify: the longest waiter is moved to the notified list *)
      rewrite E0 in *.
      split; cbn [sh io wk ipc]; intros; eauto.
      * apply QC. eapply Permutation_in; [apply Permutation_sym; apply notify_perm | exact H].
      * eapply Permutation_in; [apply notify_perm | apply QD; exact H].
      * eapply Permutation_NoDup; [apply notify_perm | exact QE].
      * right. left. intro Z. apply app_eq_nil in Z. destruct Z. discriminate.
  - pose proof (q_wait _ _ HL4 me) as QBme. pose proof (q_w _ _ HL4 me) as QCme. pose proof (q_p _ _ HL4 me) as QDme.
    step_wk Hs; cbn [sh io wk ipc] in *.
    all: try solve [frame4_wk HL4 me Hw Hme].
    all: assert (Hlt : me < p_nw P) by (apply Nat.ltb_lt; exact Hme).
    all: destruct HL4 as [QA QB QC QD QE QF]; cbn [sh io wk ipc] in *.
    all: cbn in QBme, QCme, QDme.
    all: assert (QA' : forall j, p_nw P <= j -> j <> me) by (intros j X Y; subst j; lia).
    + (* WAcqD, queue empty -> about to wait *)
      split; cbn [sh io wk ipc]; intros; unfold upd in *; cbn [qwait qnotified queue set_qw set_dlock set_queue] in *.
      * destruct (Nat.eqb_spec j me); [exfalso; eapply QA'; eauto | auto].
      * destruct (Nat.eqb_spec j me); eauto.
      * destruct (Nat.eqb_spec j me); [subst j|eauto]. apply QC in H. destruct H as [_ H]. rewrite Hw in H. discriminate.
      * destruct (Nat.eqb_spec j me); [discriminate | eauto].
      * exact QE.
      * cbn in *. lia.
    + (* WAcqD, takes the entry *)
      assert (n = 0) by lia. subst n.
      split; cbn [sh io wk ipc]; intros; unfold upd in *; cbn [qwait qnotified queue set_qw set_dlock set_queue] in *.
      * destruct (Nat.eqb_spec j me); [exfalso; eapply QA'; eauto | auto].
      * destruct (Nat.eqb_spec j me); [discriminate|]. apply QB in H. congruence.
      * destruct (Nat.eqb_spec j me); [subst j|eauto]. apply QC in H. destruct H as [_ H]. rewrite Hw in H. discriminate.
      * destruct (Nat.eqb_spec j me); [discriminate | eauto].
      * exact QE.
      * cbn in *. lia.
    + (* WWait -> parked *)
      assert (Hq0 : queue s = 0) by (apply QBme; reflexivity).
      assert (Hnin : ~ In me (qwait s ++ qnotified s)).
      { intro X. apply QC in X. destruct X as [_ X]. rewrite Hw in X. discriminate. }
      split; cbn [sh io wk ipc]; intros; unfold upd in *; cbn [qwait qnotified queue set_qw set_dlock set_queue] in *.
      * destruct (Nat.eqb_spec j me); [exfalso; eapply QA'; eauto | auto].
      * destruct (Nat.eqb_spec j me); [discriminate | eauto].
      * destruct (Nat.eqb_spec j me); [subst j; split; auto|].
        apply QC. rewrite <- app_assoc in H. apply in_app_or in H. apply in_or_app. destruct H as [H|H]; auto.
        simpl in H. destruct H as [H|H]; [congruence | auto].
      * rewrite <- app_assoc. destruct (Nat.eqb_spec j me).
        -- subst j. apply in_or_app. right. left. reflexivity.
        -- apply QD in H. apply in_app_or in H. apply in_or_app. destruct H; auto. right. right. auto.
      * rewrite <- app_assoc. simpl. eapply Permutation_NoDup; [apply Permutation_middle|]. constructor; auto.
      * cbn in *. lia.
    + (* parked, notified, queue empty -> waits again *)
      apply andb_true_iff in E0. destruct E0 as [En Ef]. apply existsb_In in En.
      split; cbn [sh io wk ipc]; intros; unfold upd in *; cbn [qwait qnotified queue set_qw set_dlock set_queue] in *.
      * destruct (Nat.eqb_spec j me); [exfalso; eapply QA'; eauto | auto].
      * destruct (Nat.eqb_spec j me); eauto.
      * assert (Hj : In j (qwait s ++ qnotified s) /\ j <> me).
        { apply in_app_or in H. destruct H as [H|H].
          - split; [apply in_or_app; auto|]. intro; subst j. eapply NoDup_app_both; eauto.
          - apply In_filter_ne in H. destruct H. split; auto. apply in_or_app; auto. }
        destruct Hj as [Hj Hne]. destruct (Nat.eqb_spec j me); [contradiction | auto].
      * destruct (Nat.eqb_spec j me); [discriminate|]. apply QD in H. apply in_app_or in H. apply in_or_app.
        destruct H as [H|H]; auto. right. apply In_filter_ne. auto.
      * apply NoDup_app_filter. auto.
      * cbn in *. lia.
    + (* parked, notified, takes the entry *)
      assert (n = 0) by lia. subst n.
      apply andb_true_iff in E0. destruct E0 as [En Ef]. apply existsb_In in En.
      split; cbn [sh io wk ipc]; intros; unfold upd in *; cbn [qwait qnotified queue set_qw set_dlock set_queue] in *.
      * destruct (Nat.eqb_spec j me); [exfalso; eapply QA'; eauto | auto].
      * destruct (Nat.eqb_spec j me); [discriminate|]. apply QB in H. congruence.
      * assert (Hj : In j (qwait s ++ qnotified s) /\ j <> me).
        { apply in_app_or in H. destruct H as [H|H].
          - split; [apply in_or_app; auto|]. intro; subst j. eapply NoDup_app_both; eauto.
          - apply In_filter_ne in H. destruct H. split; auto. apply in_or_app; auto. }
        destruct Hj as [Hj Hne]. destruct (Nat.eqb_spec j me); [contradiction | auto].
      * destruct (Nat.eqb_spec j me); [discriminate|]. apply QD in H. apply in_app_or in H. apply in_or_app.
        destruct H as [H|H]; auto. right. apply In_filter_ne. auto.
      * apply NoDup_app_filter. auto.
      * cbn in *. lia.
    + (* add_task by the finishing worker *)
      apply free_none in E0.
      assert (Hnw : forall j, is_wwait (wpc (w j)) = false).
      { intro j. destruct (is_wwait (wpc (w j))) eqn:X; auto. apply wwait_dl in X. apply (proj2 (D2 j)) in X. congruence. }
      split; cbn [sh io wk ipc]; intros; unfold upd in *; cbn [qwait qnotified queue set_qw set_dlock set_queue] in *.
      * destruct (Nat.eqb_spec j me); [exfalso; eapply QA'; eauto | auto].
      * destruct (Nat.eqb_spec j me); [discriminate|]. rewrite Hnw in H. discriminate.
      * destruct (Nat.eqb_spec j me); [subst j|eauto]. apply QC in H. destruct H as [_ H]. rewrite Hw in H. discriminate.
      * destruct (Nat.eqb_spec j me); [discriminate | eauto].
      * exact QE.
      * left. exists me. rewrite Nat.eqb_refl. auto.
    + (* notify by the finishing worker *)
      rewrite E0 in *.
      split; cbn [sh io wk ipc]; intros; unfold upd in *; cbn [qwait qnotified queue set_qw set_dlock set_queue] in *.
      * destruct (Nat.eqb_spec j me); [exfalso; eapply QA'; eauto | auto].
      * destruct (Nat.eqb_spec j me); [discriminate | eauto].
      * assert (X : In j ((n :: l0) ++ qnotified s)) by (eapply Permutation_in; [apply Permutation_sym; apply notify_perm | exact H]).
        destruct (Nat.eqb_spec j me); [subst j|eauto]. apply QC in X. destruct X as [_ X]. rewrite Hw in X. discriminate.
      * destruct (Nat.eqb_spec j me); [discriminate|]. eapply Permutation_in; [apply notify_perm | apply QD; exact H].
      * eapply Permutation_NoDup; [apply notify_perm | exact QE].
      * left. exists me. rewrite Nat.eqb_refl. auto.
Qed.
End Step4.
