(* C16 (a): no exception escapes the middleware.  For a WSGI environ
   (REMOTE_ADDR and wsgi.url_scheme present -- task.get_environment always
   sets them) every header value and every configuration gives Ok or
   Malformed.  (Before the repair 12a41a9 strip_brackets("") raised IndexError
   for a client address with an empty address part: finding F19, now a 400.)
   Without those two keys the middleware raises KeyError; characterised too. *)
From Coq Require Import String.
From Coq Require Import List NArith ZArith Bool Lia.
From WV Require Import Lib.PyBytes Lib.PyStrProxy Lib.Regex Gen.GenRegex Model.Proxy Spec.ProxySpec
  Proof.ProxyDict Proof.ProxyStr Proof.ProxyStages.
Import ListNotations.
Local Open Scope N_scope.

(* ---- what the header blocks leave alone -------------------------------------------- *)
Record frame (s s' : pst) : Prop := {
  fr_fwd : fwd s' = fwd s;
  fr_proto : u_proto (unt s') = u_proto (unt s);
  fr_port : u_port (unt s') = u_port (unt s);
  fr_by : u_by (unt s') = u_by (unt s);
  fr_keys : forall k, has_key k (env s) -> has_key k (env s')
}.

Lemma frame_refl s : frame s s.
Proof. constructor; auto. Qed.

Lemma frame_trans s1 s2 s3 : frame s1 s2 -> frame s2 s3 -> frame s1 s3.
Proof. intros [] []. constructor; try congruence. auto. Qed.

Lemma rm_for_ok u u' : rm_for u = Ok u' ->
  u_for u' = false /\ u_host u' = u_host u /\ u_proto u' = u_proto u /\ u_port u' = u_port u /\ u_by u' = u_by u /\ u_fwd u' = u_fwd u.
Proof. unfold rm_for. destruct (u_for u); [|discriminate]. intro H. injection H as <-. cbn. auto 10. Qed.
Lemma rm_host_ok u u' : rm_host u = Ok u' ->
  u_host u' = false /\ u_for u' = u_for u /\ u_proto u' = u_proto u /\ u_port u' = u_port u /\ u_by u' = u_by u /\ u_fwd u' = u_fwd u.
Proof. unfold rm_host. destruct (u_host u); [|discriminate]. intro H. injection H as <-. cbn. auto 10. Qed.
Lemma rm_proto_ok u u' : rm_proto u = Ok u' ->
  u_proto u' = false /\ u_for u' = u_for u /\ u_host u' = u_host u /\ u_port u' = u_port u /\ u_by u' = u_by u /\ u_fwd u' = u_fwd u.
Proof. unfold rm_proto. destruct (u_proto u); [|discriminate]. intro H. injection H as <-. cbn. auto 10. Qed.
Lemma rm_port_ok u u' : rm_port u = Ok u' ->
  u_port u' = false /\ u_for u' = u_for u /\ u_host u' = u_host u /\ u_proto u' = u_proto u /\ u_by u' = u_by u /\ u_fwd u' = u_fwd u.
Proof. unfold rm_port. destruct (u_port u); [|discriminate]. intro H. injection H as <-. cbn. auto 10. Qed.

Lemma blk_xff_frame k tph s s' : blk_xff k tph s = Ok s' -> frame s s'.
Proof.
  intro H. apply blk_xff_ok in H as [[-> _]|(raw & cs & c & u & _ & _ & _ & _ & Hu & ->)]; [apply frame_refl|].
  apply rm_for_ok in Hu as (_ & _ & ? & ? & ? & _). constructor; cbn; auto.
  intros k0. apply has_key_set.
Qed.

Lemma blk_xfh_frame k tph s s' : blk_xfh k tph s = Ok s' -> frame s s'.
Proof.
  intro H. apply blk_xfh_ok in H as [[-> _]|(raw & cs & c & u & _ & _ & _ & _ & Hu & ->)]; [apply frame_refl|].
  apply rm_host_ok in Hu as (_ & _ & ? & ? & ? & _). constructor; cbn; auto.
  intros k0. apply has_key_set.
Qed.

(* ---- header parsing and hop selection never raise ------------------------------------ *)
Lemma fwd_get_precond tph s : fwd s = Some [] -> fwd_precond (blk_fwd_get tph s).
Proof.
  intros Hf. unfold blk_fwd_get, fwd_precond. destruct (has tph n_fwd); cbn.
  - destruct (lookup k_fwd (env s)); [discriminate|]. cbn. discriminate.
  - rewrite Hf. cbn. discriminate.
Qed.

Lemma select_no_exn e k tph : no_exn (parse_select e k tph).
Proof.
  intros x. unfold parse_select.
  destruct (blk_xff k tph (init_pst e)) as [s1| |] eqn:E1; cbn [bind]; try discriminate;
    [|exfalso; eapply blk_xff_no_exn; eauto].
  pose proof (blk_xff_frame _ _ _ _ E1) as F1.
  destruct (blk_xfh k tph s1) as [s2| |] eqn:E2; cbn [bind]; try discriminate;
    [|exfalso; eapply blk_xfh_no_exn; eauto].
  pose proof (frame_trans _ _ _ F1 (blk_xfh_frame _ _ _ _ E2)) as F2.
  destruct (blk_proto tph s2) as [s3| |] eqn:E3; cbn [bind]; try discriminate;
    [|exfalso; eapply (blk_proto_no_exn tph s2); eauto; rewrite (fr_proto _ _ F2); reflexivity].
  assert (F3 : fwd s3 = Some [] /\ u_port (unt s3) = true /\ u_by (unt s3) = true).
  { apply blk_proto_ok in E3 as [[-> _]|(v & u & _ & _ & Hu & ->)].
    - rewrite (fr_fwd _ _ F2), (fr_port _ _ F2), (fr_by _ _ F2). auto.
    - apply rm_proto_ok in Hu as (_ & _ & _ & Hp & Hb & _). cbn.
      rewrite Hp, Hb, (fr_fwd _ _ F2), (fr_port _ _ F2), (fr_by _ _ F2). auto. }
  destruct F3 as (F3a & F3b & F3c).
  destruct (blk_port tph s3) as [s4| |] eqn:E4; cbn [bind]; try discriminate;
    [|exfalso; eapply (blk_port_no_exn tph s3); eauto].
  assert (F4 : fwd s4 = Some [] /\ u_by (unt s4) = true).
  { apply blk_port_ok in E4 as [[-> _]|(v & u & _ & _ & Hu & ->)]; auto.
    apply rm_port_ok in Hu as (_ & _ & _ & _ & Hb & _). cbn. rewrite Hb. auto. }
  destruct F4 as (F4a & F4b).
  destruct (blk_by tph s4) as [s5| |] eqn:E5; cbn [bind]; try discriminate;
    [|exfalso; eapply (blk_by_no_exn tph s4); eauto].
  apply blk_by_ok in E5 as (_ & _ & _ & _ & _ & F5).
  apply blk_forwarded_no_exn. apply fwd_get_precond. congruence.
Qed.

(* every key of the request is still there after the header blocks *)
Lemma blk_proto_env tph s s' : blk_proto tph s = Ok s' -> env s' = env s.
Proof. intro H. apply blk_proto_ok in H as [[-> _]|(v & u & _ & _ & _ & ->)]; reflexivity. Qed.
Lemma blk_port_env tph s s' : blk_port tph s = Ok s' -> env s' = env s.
Proof. intro H. apply blk_port_ok in H as [[-> _]|(v & u & _ & _ & _ & ->)]; reflexivity. Qed.

Lemma blk_forwarded_keys k s s' key : blk_forwarded k s = Ok s' -> has_key key (env s) -> has_key key (env s').
Proof.
  intro H. apply blk_forwarded_ok in H as [[-> _]|(raw & ps & _ & _ & _ & ->)]; auto.
  cbn. apply has_key_set.
Qed.

Lemma select_keys e k tph s key : parse_select e k tph = Ok s -> has_key key e -> has_key key (env s).
Proof.
  unfold parse_select. intros H Hk.
  apply bind_ok in H as (s1 & E1 & H). apply bind_ok in H as (s2 & E2 & H).
  apply bind_ok in H as (s3 & E3 & H). apply bind_ok in H as (s4 & E4 & H).
  apply bind_ok in H as (s5 & E5 & H).
  eapply blk_forwarded_keys; eauto.
  assert (env (blk_fwd_get tph s5) = env s5) as -> by (unfold blk_fwd_get; destruct (has tph n_fwd); reflexivity).
  apply blk_by_ok in E5 as (-> & _). rewrite (blk_port_env _ _ _ E4), (blk_proto_env _ _ _ E3).
  apply (fr_keys _ _ (blk_xfh_frame _ _ _ _ E2)). apply (fr_keys _ _ (blk_xff_frame _ _ _ _ E1)). exact Hk.
Qed.

(* ---- writing the selection never raises ------------------------------------------------------- *)
Lemma apply_no_exn s : has_key k_url_scheme (env s) -> no_exn (parse_apply s).
Proof.
  intros Hk x. unfold parse_apply.
  destruct (stage_proto s) as [s1| |] eqn:E1; cbn [bind]; try discriminate.
  - pose proof (stage_proto_has_key _ _ _ E1 Hk) as Hk1.
    destruct (stage_host s1) as [s2| |] eqn:E2; cbn [bind]; try discriminate.
    + rewrite stage_client_spec. destruct (client (stage_port s2)) as [[|c0 c']|]; try discriminate.
      cbv zeta. destruct (bad_client (c0 :: c')); discriminate.
    + exfalso. eapply stage_host_no_exn; eauto.
  - exfalso. eapply stage_proto_no_exn; eauto.
Qed.

(* ---- the middleware ------------------------------------------------------------------------ *)
Definition env_ok (e : environ) : Prop := has_key k_remote_addr e /\ has_key k_url_scheme e.

Definition on_trusted_path (c : config) (e : environ) : bool :=
  match lookup k_remote_addr e with
  | Some peer => opt_str_eqb (trusted_proxy c) (Some s_star) || opt_str_eqb (Some peer) (trusted_proxy c)
  | None => false
  end.

Definition tph_of (c : config) : list str := match trusted_proxy_headers c with None => [] | Some t => t end.

Lemma total c e : env_ok e -> forall x, middleware c e <> Exn x.
Proof.
  intros [Hra Hus] x. unfold middleware.
  destruct (lookup k_remote_addr e) as [peer|] eqn:Ep; [|exfalso; apply Hra; exact Ep].
  destruct (opt_str_eqb (trusted_proxy c) (Some s_star) || opt_str_eqb (Some peer) (trusted_proxy c)).
  - unfold parse_proxy_headers. fold (tph_of c).
    destruct (parse_select e (trusted_proxy_count c) (tph_of c)) as [s| |] eqn:Es; cbn [bind]; try discriminate.
    + pose proof (select_keys _ _ _ _ _ Es Hus) as Hk.
      destruct (parse_apply s) as [s'| |] eqn:Ea; cbn [bind]; try discriminate.
      exfalso. eapply apply_no_exn; eauto.
    + exfalso. eapply select_no_exn; eauto.
  - cbn [bind]. destruct (clear_untrusted c); discriminate.
Qed.

(* outside WSGI environs: the only exception is the KeyError of the two
   unconditional subscripts environ["REMOTE_ADDR"] / environ["wsgi.url_scheme"] *)
Lemma no_remote_addr c e : lookup k_remote_addr e = None -> middleware c e = Exn KeyError.
Proof. intro H. unfold middleware. rewrite H. reflexivity. Qed.

(* non-vacuity, and the two former crash inputs *)
Definition f19_cfg : config :=
  {| trusted_proxy := Some (s2l "10.0.0.1"%string); trusted_proxy_count := 1%Z;
     trusted_proxy_headers := Some [n_fwd]; clear_untrusted := true |}.
Definition f19_env : environ :=
  [(k_remote_addr, s2l "10.0.0.1"%string); (k_url_scheme, s_http); (k_fwd, s2l "for=:80"%string)].
Definition f19_cfg2 : config :=
  {| trusted_proxy := Some s_star; trusted_proxy_count := 2%Z;
     trusted_proxy_headers := Some [n_xff]; clear_untrusted := false |}.
Definition f19_env2 : environ :=
  [(k_remote_addr, s2l "10.0.0.1"%string); (k_url_scheme, s_http); (k_xff, [34; 32; 34])].

Example former_crashes_are_400 :
  env_ok f19_env /\ middleware f19_cfg f19_env = Malformed h_fwd /\
  env_ok f19_env2 /\ middleware f19_cfg2 f19_env2 = Malformed h_xff.
Proof. repeat split; vm_compute; try discriminate; reflexivity. Qed.

Example total_nonvacuous :
  let e := [(k_remote_addr, s2l "10.0.0.1"%string); (k_url_scheme, s_http);
            (k_fwd, s2l "for=""[2001:db8::1]:4711"";host=example.com;proto=https, for=192.0.2.7"%string)] in
  env_ok e /\
  exists o, middleware f19_cfg e = Ok o /\ lookup k_remote_addr o = Some (s2l "192.0.2.7"%string).
Proof. cbv zeta. repeat split; try (vm_compute; discriminate). eexists. split; vm_compute; reflexivity. Qed.
