(* handle_write over the byte-level output queue: the flush selection and the close tail are the
   predicates REGENERATED from HTTPChannel.handle_write on every run (Gen/GenPreds.v: gen_hw_flush,
   gen_hw_after); the flush is _flush_some of Model/ChanOut.v (the I/O thread got outbuf_lock:
   _flush_some_if_lockable is _flush_some then); a socket error inside the flush makes
   _flush_exception set will_close.

   What is proved: handle_write closes a connection while bytes are still queued ONLY IF a close had
   already been decided (will_close was set before the call) or the socket failed during this very
   flush.  A deferred close (close_when_flushed) is carried out only once everything written has been
   accepted by the socket -- no byte of a response is dropped by the close that follows it -- and it
   IS carried out as soon as the queue is empty.  writable() stays true while bytes are queued or a
   close is pending, so the loop keeps calling handle_write until then (gen_chan_writable). *)
From Coq Require Import List NArith ZArith Bool Lia ZifyBool Arith.
From WV Require Import Lib.PyBytes Model.Buffers Spec.Fifo Proof.Buffers Proof.BuffersRefine Proof.BuffersRo
  Model.ChanOut Proof.ChanOut Gen.GenPreds.
Import ListNotations.
Local Open Scope Z_scope.

Record hw_result := mkhw {
  hw_chan : chan;
  hw_wire : bytes;              (* bytes the socket accepted during this handle_write *)
  hw_cwf : bool;                (* close_when_flushed afterwards *)
  hw_wc : bool;                 (* will_close afterwards *)
  hw_closed : bool;             (* handle_close() was called *)
  hw_raised : bool              (* socket.send raised inside the flush *)
}.

Definition handle_write_bytes (c : cfg) (len_requests : Z) (cwf wc : bool) (ch : chan) (ans : list answer) : hw_result :=
  let flush := match gen_hw_flush len_requests (total_outbufs_len ch) (c_send_bytes c) (c_high_watermark c) with
               | FlushNone => None
               | _ => Some (flush_some c ch ans)
               end in
  let ch' := match flush with Some f => f_chan f | None => ch end in
  let raised := match flush with Some f => match f_stop f with SockRaised => true | _ => false end | None => false end in
  let wc1 := wc || raised in                               (* _flush_exception: self.will_close = True *)
  let '(cwf', wc', closed) := gen_hw_after cwf wc1 (total_outbufs_len ch') in
  mkhw ch' (match flush with Some f => f_wire f | None => [] end) cwf' wc' closed raised.

Lemma gen_hw_after_eq cwf wc tot :
  gen_hw_after cwf wc tot = if cwf && (tot =? 0) then (false, true, true) else (cwf, wc, wc).
Proof.
  unfold gen_hw_after. destruct cwf, wc, (tot =? 0); reflexivity.
Qed.

Theorem handle_write_close_sound c n cwf wc ch ans : cfg_ok c -> cinv ch ->
  let r := handle_write_bytes c n cwf wc ch ans in
  cinv (hw_chan r) /\
  cabs ch = hw_wire r ++ cabs (hw_chan r) /\
  (hw_closed r = true -> wc = true \/ hw_raised r = true \/ (cwf = true /\ cabs (hw_chan r) = [] /\ hw_wire r = cabs ch)) /\
  (cwf = true -> cabs (hw_chan r) = [] -> hw_closed r = true) /\
  (gen_chan_writable (total_outbufs_len (hw_chan r)) (hw_wc r) (hw_cwf r) = false ->
     cabs (hw_chan r) = [] /\ hw_wc r = false /\ hw_cwf r = false).
Proof.
  intros Hc Hi. cbv zeta. unfold handle_write_bytes.
  set (sel := gen_hw_flush n (total_outbufs_len ch) (c_send_bytes c) (c_high_watermark c)).
  assert (Hfl : forall f, f = flush_some c ch ans ->
            cinv (f_chan f) /\ cabs ch = f_wire f ++ cabs (f_chan f)).
  { intros f ->. destruct (flush_some_spec c ch ans Hc Hi) as [S1 S2 S3 _ _ _ _ _ _]. cbn [app] in S3. auto. }
  assert (Hgen : forall ch' wire raised, cinv ch' -> cabs ch = wire ++ cabs ch' ->
     let wc1 := wc || raised in
     let '(cwf', wc', closed) := gen_hw_after cwf wc1 (total_outbufs_len ch') in
     let r := mkhw ch' wire cwf' wc' closed raised in
     cinv (hw_chan r) /\ cabs ch = hw_wire r ++ cabs (hw_chan r) /\
     (hw_closed r = true -> wc = true \/ hw_raised r = true \/ (cwf = true /\ cabs (hw_chan r) = [] /\ hw_wire r = cabs ch)) /\
     (cwf = true -> cabs (hw_chan r) = [] -> hw_closed r = true) /\
     (gen_chan_writable (total_outbufs_len (hw_chan r)) (hw_wc r) (hw_cwf r) = false ->
        cabs (hw_chan r) = [] /\ hw_wc r = false /\ hw_cwf r = false)).
  { intros ch' wire raised Hi' Hw. cbv zeta. rewrite gen_hw_after_eq.
    destruct Hi' as (Hf' & Hl' & Ht').
    assert (Hz : (total_outbufs_len ch' =? 0) = true <-> cabs ch' = []).
    { rewrite Ht'. unfold q_len. destruct (cabs ch'); cbn; split; intro H; try reflexivity; try discriminate; lia. }
    assert (Hi'' : cinv ch') by (repeat split; assumption).
    destruct cwf, (total_outbufs_len ch' =? 0) eqn:E; cbn [andb hw_chan hw_wire hw_closed hw_raised hw_wc hw_cwf];
      (split; [exact Hi''|]; split; [exact Hw|]).
    - (* deferred close carried out *)
      assert (Hq : cabs ch' = []) by (apply Hz; reflexivity).
      split; [intros _; right; right; split; [reflexivity|]; split; [exact Hq|]; rewrite Hw, Hq, app_nil_r; reflexivity|].
      split; [auto|]. unfold gen_chan_writable. cbn. rewrite !orb_true_r. discriminate.
    - split.
      + intro Hcl. destruct wc; [left; reflexivity|]. cbn [orb] in Hcl. right; left; exact Hcl.
      + split.
        * intros _ Hq. apply Hz in Hq. congruence.
        * unfold gen_chan_writable. rewrite orb_true_r. discriminate.
    - split.
      + intro Hcl. destruct wc; [left; reflexivity|]. cbn [orb] in Hcl. right; left; exact Hcl.
      + split; [discriminate|]. unfold gen_chan_writable. rewrite orb_false_r.
        intro Hw0. apply orb_false_iff in Hw0 as [_ Hwc]. split; [apply Hz; reflexivity | auto].
    - split.
      + intro Hcl. destruct wc; [left; reflexivity|]. cbn [orb] in Hcl. right; left; exact Hcl.
      + split; [discriminate|]. unfold gen_chan_writable. rewrite orb_false_r.
        intro Hw0. apply orb_false_iff in Hw0 as [Hgt _].
        assert (0 <= total_outbufs_len ch') by (rewrite Ht'; unfold q_len; lia).
        apply Z.eqb_neq in E. lia. }
  destruct sel; cbv beta iota zeta.
  - destruct (Hfl _ eq_refl) as (H1 & H2).
    specialize (Hgen _ _ (match f_stop (flush_some c ch ans) with SockRaised => true | _ => false end) H1 H2).
    cbv zeta in Hgen. destruct (gen_hw_after _ _ _) as [[a b] d]. exact Hgen.
  - destruct (Hfl _ eq_refl) as (H1 & H2).
    specialize (Hgen _ _ (match f_stop (flush_some c ch ans) with SockRaised => true | _ => false end) H1 H2).
    cbv zeta in Hgen. destruct (gen_hw_after _ _ _) as [[a b] d]. exact Hgen.
  - specialize (Hgen ch [] false Hi eq_refl).
    cbv zeta in Hgen. destruct (gen_hw_after _ _ _) as [[a b] d]. exact Hgen.
Qed.

(* a response written, then handle_write with a socket that takes everything: closed, all bytes out *)
Example hw_example :
  let ch := fst (crun ex_cfg chan_new [CWrite (WBytes [1;2;3;4;5]%N) []; CWrite (WFile ex_file) []]) in
  let r := handle_write_bytes ex_cfg 0 true false ch (repeat (Sent 100) 12) in
  hw_closed r = true /\ hw_wire r = [1;2;3;4;5;8;7;6;5]%N /\ cabs (hw_chan r) = [] /\ hw_wc r = true /\ hw_cwf r = false.
Proof. vm_compute. repeat split. Qed.
