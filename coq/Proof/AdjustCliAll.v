(* C20, command lines of any length: the model of getopt + Adjustments.parse_args
   + runner.run (Model/Adjust.v cli_construct) meets the specification
   Spec/AdjustCli.v cli_spec on EVERY argv.  Part 1: getopt = scan. *)
From Coq Require Import List NArith ZArith Bool Lia.
From WV Require Import Lib.PyBytes Gen.GenAdjust Model.Adjust Proof.AdjustSpec Proof.AdjustChecks
  Proof.AdjustLists Proof.AdjustCli Spec.AdjustCli.
Import ListNotations.
Local Open Scope N_scope.

(* ---- cut_eq is opt.index('=') / opt[:i] / opt[i+1:] ---- *)
Lemma cut_eq_no_eq : forall s, memb 61 (fst (cut_eq s)) = false.
Proof.
  induction s as [|x s IH]; [reflexivity|]. cbn [cut_eq].
  destruct (x =? 61) eqn:E; [reflexivity|]. cbn [fst memb existsb].
  rewrite N.eqb_sym, E. exact IH.
Qed.

Lemma cut_eq_parts : forall s,
  match snd (cut_eq s) with
  | None => fst (cut_eq s) = s
  | Some r => s = fst (cut_eq s) ++ 61 :: r
  end.
Proof.
  induction s as [|x s IH]; [reflexivity|]. cbn [cut_eq].
  destruct (x =? 61) eqn:E.
  - apply N.eqb_eq in E. subst x. reflexivity.
  - cbn [fst snd]. destruct (snd (cut_eq s)); cbn [app]; f_equal; exact IH.
Qed.

Lemma do_longs_cut : forall body lo args,
  do_longs body lo args =
  match long_has_args (fst (cut_eq body)) lo with
  | Exn e => Exn e
  | Ok (true, o) =>
    match snd (cut_eq body) with
    | Some v => Ok ((dashdash ++ o, v), args)
    | None => match args with [] => Exn GetoptError | a :: r => Ok ((dashdash ++ o, a), r) end
    end
  | Ok (false, o) =>
    match snd (cut_eq body) with
    | Some _ => Exn GetoptError
    | None => Ok ((dashdash ++ o, []), args)
    end
  end.
Proof.
  intros body lo args. pose proof (cut_eq_parts body) as P. pose proof (cut_eq_no_eq body) as N.
  destruct (snd (cut_eq body)) as [r|].
  - rewrite P at 1. rewrite do_longs_eq by exact N.
    destruct (long_has_args _ lo) as [[[] o]|e]; reflexivity.
  - rewrite <- P at 1. rewrite do_longs_plain by exact N.
    destruct (long_has_args _ lo) as [[[] o]|e]; reflexivity.
Qed.

(* ---- one step of getopt's loop, by the kind of word ---- *)
Lemma getopt_go_word : forall f a rest lo opts,
  getopt_go (S f) (a :: rest) lo opts =
  match classify_word a with
  | WTerminator => Ok (rev opts, rest)
  | WPositional => Ok (rev opts, a :: rest)
  | WShort => Exn GetoptError
  | WLong _ _ =>
    match do_longs (skipn 2 a) lo rest with
    | Exn e => Exn e
    | Ok (o, args') => getopt_go f args' lo (o :: opts)
    end
  end.
Proof.
  intros f a rest lo opts. unfold classify_word. cbn [getopt_go].
  destruct a as [|x [|y a]].
  - reflexivity.
  - unfold dashdash. cbn [startswith beqb andb]. rewrite (N.eqb_sym 45 x).
    destruct (x =? 45); cbn [andb negb]; reflexivity.
  - unfold dashdash. cbn [startswith beqb andb]. rewrite (N.eqb_sym 45 x), (N.eqb_sym 45 y).
    destruct (x =? 45); cbn [andb negb]; [|reflexivity].
    destruct (y =? 45); cbn [andb negb]; [|reflexivity].
    destruct a; reflexivity.
Qed.

(* ---- the option table against the long_opts list handed to getopt ---- *)
Definition lo_of (o : str * okind) : str := if takes_value (snd o) then fst o ++ [61] else fst o.

Lemma table_long_opts : map lo_of option_table = cli_long_opts.
Proof. vm_compute. reflexivity. Qed.

Definition entry_ok (o : str * okind) : bool :=
  negb (memb 61 (fst o))
  && lha_is (long_has_args (fst o) cli_long_opts) (takes_value (snd o)) (fst o)
  && Bool.eqb (endswith (lo_of o) [61]) (takes_value (snd o))
  && beqb (if takes_value (snd o) then removelast (lo_of o) else lo_of o) (fst o).

Lemma table_entries_ok : forallb entry_ok option_table = true.
Proof. vm_compute. reflexivity. Qed.

Lemma entry_facts : forall o, In o option_table ->
  memb 61 (fst o) = false
  /\ long_has_args (fst o) cli_long_opts = Ok (takes_value (snd o), fst o)
  /\ endswith (lo_of o) [61] = takes_value (snd o)
  /\ (if takes_value (snd o) then removelast (lo_of o) else lo_of o) = fst o.
Proof.
  intros o H. pose proof (proj1 (forallb_forall _ _) table_entries_ok o H) as K.
  unfold entry_ok in K.
  apply andb_true_iff in K as [K K4]. apply andb_true_iff in K as [K K3].
  apply andb_true_iff in K as [K1 K2].
  apply negb_true_iff in K1. apply lha_is_eq in K2. apply Bool.eqb_prop in K3. apply beqb_eq in K4.
  auto.
Qed.

Global Opaque option_table cli_long_opts.

Lemma startswith_app_eq : forall t n, memb 61 t = false ->
  startswith (n ++ [61]) t = startswith n t.
Proof.
  induction t as [|x t IH]; intros n H.
  - destruct n; reflexivity.
  - cbn [memb existsb] in H. apply orb_false_iff in H as [Hx H].
    destruct n as [|y n]; cbn [app startswith].
    + rewrite N.eqb_sym, Hx. reflexivity.
    + rewrite IH by exact H. reflexivity.
Qed.

Lemma filter_map_comm : forall {A B} (g : A -> B) (f : B -> bool) l,
  filter f (map g l) = map g (filter (fun a => f (g a)) l).
Proof.
  induction l as [|a l IH]; [reflexivity|]. cbn [map filter].
  destruct (f (g a)); cbn [map]; rewrite IH; reflexivity.
Qed.

Lemma filter_ext_in : forall {A} (f g : A -> bool) l, (forall a, In a l -> f a = g a) ->
  filter f l = filter g l.
Proof.
  induction l as [|a l IH]; intro H; [reflexivity|]. cbn [filter].
  rewrite (H a) by (left; reflexivity). rewrite IH by (intros; apply H; right; assumption). reflexivity.
Qed.

Lemma memstr_in : forall x l, memstr x l = true <-> In x l.
Proof.
  intros x l. unfold memstr. rewrite existsb_exists. split.
  - intros [y [H1 H2]]. apply beqb_eq in H2. subst. exact H1.
  - intro H. exists x. split; [exact H|apply beqb_eq; reflexivity].
Qed.

Lemma memb_app_last : forall t, memb 61 (t ++ [61]) = true.
Proof. intro t. rewrite memb_app. cbn. apply orb_true_r. Qed.

(* the candidates getopt computes are the table entries whose name starts with typed *)
Lemma possibilities : forall t, memb 61 t = false ->
  filter (fun o => startswith o t) cli_long_opts
  = map lo_of (filter (fun o => startswith (fst o) t) option_table).
Proof.
  intros t H. rewrite <- table_long_opts, filter_map_comm.
  rewrite (filter_ext_in (fun a => startswith (lo_of a) t) (fun o => startswith (fst o) t) option_table);
    [reflexivity|].
  intros o Ho. unfold lo_of.
  destruct (takes_value (snd o)); [|reflexivity]. apply startswith_app_eq. exact H.
Qed.

Lemma find_none_all : forall {A} (f : A -> bool) l, List.find f l = None -> forall a, In a l -> f a = false.
Proof. intros A f l H a Ha. exact (List.find_none f l H a Ha). Qed.

Theorem long_has_args_resolve : forall t, memb 61 t = false ->
  long_has_args t cli_long_opts =
  match resolve t with
  | Found n k => Ok (takes_value k, n)
  | _ => Exn GetoptError
  end.
Proof.
  intros t Ht. unfold resolve.
  destruct (List.find (fun o => beqb (fst o) t) option_table) as [[n k]|] eqn:F.
  - apply List.find_some in F as [Hin Hn]. cbn [fst] in Hn. apply beqb_eq in Hn. subst n.
    destruct (entry_facts _ Hin) as [_ [L _]]. exact L.
  - pose proof (find_none_all _ _ F) as NF. unfold long_has_args. cbv zeta.
    rewrite (possibilities t Ht).
    set (P := filter (fun o => startswith (fst o) t) option_table).
    assert (PT : forall o, In o P -> In o option_table) by (intros o H; apply filter_In in H; tauto).
    assert (M1 : memstr t (map lo_of P) = false).
    { destruct (memstr t (map lo_of P)) eqn:E; [|reflexivity]. exfalso.
      apply memstr_in in E. apply in_map_iff in E as [o [E Ho]].
      specialize (NF o (PT o Ho)). cbn beta in NF. unfold lo_of in E.
      destruct (takes_value (snd o)).
      - subst t. rewrite memb_app_last in Ht. discriminate.
      - subst t. rewrite (proj2 (beqb_eq _ _) eq_refl) in NF. discriminate. }
    assert (M2 : memstr (t ++ [61]) (map lo_of P) = false).
    { destruct (memstr (t ++ [61]) (map lo_of P)) eqn:E; [|reflexivity]. exfalso.
      apply memstr_in in E. apply in_map_iff in E as [o [E Ho]].
      pose proof (NF o (PT o Ho)) as NFo. cbn beta in NFo. unfold lo_of in E.
      destruct (takes_value (snd o)).
      - apply app_inj_tail in E as [E _]. rewrite <- E in NFo.
        rewrite (proj2 (beqb_eq _ _) eq_refl) in NFo. discriminate.
      - destruct (entry_facts _ (PT o Ho)) as [K _]. rewrite E, memb_app_last in K. discriminate. }
    destruct P as [|o1 [|o2 P']] eqn:EP.
    + reflexivity.
    + cbn [map]. cbn [map] in M1, M2. rewrite M1, M2.
      destruct (entry_facts o1 (PT o1 (or_introl eq_refl))) as [_ [_ [E1 E2]]].
      rewrite E1. destruct o1 as [n k]. cbn [fst snd] in *.
      destruct (takes_value k); rewrite E2; reflexivity.
    + cbn [map] in *. rewrite M1, M2. destruct o1 as [n1 k1]. reflexivity.
Qed.

(* a resolved option is an entry of the table *)
Lemma resolve_in_table : forall t n k, resolve t = Found n k -> In (n, k) option_table.
Proof.
  intros t n k. unfold resolve.
  destruct (List.find (fun o => beqb (fst o) t) option_table) as [[n' k']|] eqn:F.
  - intro H. injection H as <- <-. apply List.find_some in F. tauto.
  - destruct (filter (fun o => startswith (fst o) t) option_table) as [|[n1 k1] [|o2 P']] eqn:EP;
      intro H; try discriminate.
    injection H as <- <-.
    assert (In (n1, k1) (filter (fun o => startswith (fst o) t) option_table)) by (rewrite EP; left; reflexivity).
    apply filter_In in H. tauto.
Qed.

(* ---- getopt = scan ---- *)
Definition opt_of (o : occ) : str * str := (dashdash ++ fst (fst o), snd o).

Definition getopt_spec (acc : list (str * str)) (r : scanned) : outcome (list (str * str) * list str) :=
  match r with
  | Refused _ => Exn GetoptError
  | Scanned occs pos => Ok (rev acc ++ map opt_of occs, pos)
  end.

Lemma getopt_spec_push : forall acc o r,
  getopt_spec (opt_of o :: acc) r = getopt_spec acc (push o r).
Proof.
  intros acc o [w|occs pos]; [reflexivity|]. cbn [getopt_spec push rev map].
  rewrite <- app_assoc. reflexivity.
Qed.

Lemma getopt_go_scan : forall fuel argv acc, (length argv < fuel)%nat ->
  getopt_go fuel argv cli_long_opts acc = getopt_spec acc (scan argv).
Proof.
  induction fuel as [|f IH]; intros argv acc Hf; [lia|].
  destruct argv as [|a rest].
  - cbn. rewrite app_nil_r. reflexivity.
  - rewrite getopt_go_word. cbn [scan].
    destruct (classify_word a) as [| | |typed inline] eqn:CW.
    + cbn. rewrite app_nil_r. reflexivity.
    + cbn. rewrite app_nil_r. reflexivity.
    + reflexivity.
    + assert (CE : typed = fst (cut_eq (skipn 2 a)) /\ inline = snd (cut_eq (skipn 2 a))).
      { unfold classify_word in CW. destruct (beqb a [45;45]); [discriminate|].
        destruct (startswith a [45;45]).
        - injection CW as <- <-. auto.
        - destruct (beqb a [45]); [discriminate|]. destruct (startswith a [45]); discriminate. }
      destruct CE as [-> ->].
      rewrite do_longs_cut. rewrite long_has_args_resolve by apply cut_eq_no_eq.
      cbn [length] in Hf.
      destruct (resolve (fst (cut_eq (skipn 2 a)))) as [| |n k]; try reflexivity.
      destruct (takes_value k) eqn:TV.
      * destruct (snd (cut_eq (skipn 2 a))) as [v|].
        -- rewrite IH by lia. apply (getopt_spec_push acc (n, k, v)).
        -- destruct rest as [|v rest']; [reflexivity|].
           rewrite IH by (cbn [length] in Hf; lia). apply (getopt_spec_push acc (n, k, v)).
      * destruct (snd (cut_eq (skipn 2 a))) as [v|]; [reflexivity|].
        rewrite IH by lia. apply (getopt_spec_push acc (n, k, [])).
Qed.

Theorem getopt_scan : forall argv,
  getopt argv cli_long_opts =
  match scan argv with
  | Refused _ => Exn GetoptError
  | Scanned occs pos => Ok (map opt_of occs, pos)
  end.
Proof. intro argv. unfold getopt. rewrite getopt_go_scan by lia. reflexivity. Qed.

(* every recognised occurrence is an entry of the table *)
Lemma push_scanned : forall o r occs pos, push o r = Scanned occs pos ->
  exists occs', r = Scanned occs' pos /\ occs = o :: occs'.
Proof. intros o [w|os p] occs pos H; [discriminate|]. injection H as <- <-. eauto. Qed.

Lemma scan_in_table_fuel : forall fuel argv occs pos, (length argv < fuel)%nat ->
  scan argv = Scanned occs pos -> Forall (fun o => In (fst o) option_table) occs.
Proof.
  induction fuel as [|f IH]; intros argv occs pos Hf; [lia|].
  destruct argv as [|a rest]; cbn [scan].
  - intro H. injection H as <- <-. constructor.
  - cbn [length] in Hf. destruct (classify_word a) as [| | |typed inline].
    + intro H. injection H as <- <-. constructor.
    + intro H. injection H as <- <-. constructor.
    + discriminate.
    + destruct (resolve typed) as [| |n k] eqn:R; try discriminate.
      apply resolve_in_table in R.
      destruct (takes_value k).
      * destruct inline as [v|].
        -- intro H. apply push_scanned in H as [occs' [H ->]]. constructor; [exact R|].
           apply (IH rest occs' pos); [lia|exact H].
        -- destruct rest as [|v rest']; [discriminate|].
           intro H. apply push_scanned in H as [occs' [H ->]]. constructor; [exact R|].
           apply (IH rest' occs' pos); [cbn [length] in Hf; lia|exact H].
      * destruct inline as [v|]; [discriminate|].
        intro H. apply push_scanned in H as [occs' [H ->]]. constructor; [exact R|].
        apply (IH rest occs' pos); [lia|exact H].
Qed.

Lemma scan_in_table : forall argv occs pos, scan argv = Scanned occs pos ->
  Forall (fun o => In (fst o) option_table) occs.
Proof. intros argv occs pos. apply (scan_in_table_fuel (S (length argv))). lia. Qed.
