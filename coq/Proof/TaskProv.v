(* C08 for applications that SWALLOW a refusal of start_response and carry on
   (action ATryStart): what a refused call leaves behind in the task, and the
   provenance of every string of the head -- the status passed the status check
   of some start_response call of the script (or is the default), every field
   was passed in a call that start_response ACCEPTED (or is a server field).
   A refused string never reaches the wire, whether the refusal propagates
   (the ladder's 500) or is swallowed. *)
From Coq Require Import String.
From Coq Require Import List NArith ZArith Bool Lia Arith Permutation.
From WV Require Import Lib.PyBytes Gen.GenTables Model.Task Proof.TaskSort Proof.TaskLines Proof.TaskHead Proof.TaskStart
  Proof.TaskRun Proof.TaskOracle Proof.TaskC08.
Import ListNotations.
Local Open Scope N_scope.

(* ---- what a start_response call that raises leaves behind ---------------- *)

Section Residue.
Variable lower : str -> str.

(* Every raise site of start_response.  Either the call was refused at the door
   (second call without exc_info; exc_info once output has begun) and the task
   is untouched, or: complete is True; the fields are the old ones, or [] when
   exc_info was given; the status is the old one, or the call's own status once
   it passed the isinstance and CR/LF checks; content_length is the old one, or
   None when exc_info cleared the headers -- never a length declared by the
   refused call (before /repo fix 5926e3b it could be the int() of a
   Content-Length pair of the refused list).  response_headers is never
   extended by a call that raises. *)
Theorem start_response_residue t status headers exc t' e :
  start_response lower t status headers exc = (t', Exn e) ->
  t' = t
  \/ (t_complete t' = true
      /\ t_rh t' = match exc with Some _ => [] | None => t_rh t end
      /\ (exc <> None -> t_wrote_header t = false)
      /\ t_clen t' = match exc with Some _ => None | None => t_clen t end
      /\ ((bad_obj status = true /\ t_status t' = t_status t)
          \/ (exists s, status = PStr s /\ has_crlf s = false /\ t_status t' = s))).
Proof.
  unfold start_response. intro H.
  destruct (t_complete t && _); [left; inversion H; auto|].
  destruct exc as [e0|].
  - destruct (t_wrote_header t) eqn:Ew; [left; inversion H; auto|]. right.
    cbn zeta in H. destruct status as [s|]; [|inversion H; subst; cbn; repeat split; auto].
    destruct (has_crlf s) eqn:Es; [inversion H; subst; cbn; repeat split; auto|].
    pose proof (sr_headers_frame lower headers (set_status s (set_complete true (set_clen None (set_rh [] t)))) []) as F.
    cbn zeta in F. destruct (sr_headers lower _ headers []) as [t4 [hs|e1]]; [discriminate|].
    inversion H; subst. cbn [fst] in *. destruct F as (F1 & F2 & F3 & _). cbn in F1, F2, F3.
    repeat split; auto. right. exists s. repeat split; auto.
  - right. cbn zeta in H. destruct status as [s|]; [|inversion H; subst; cbn; repeat split; auto; intro X; congruence].
    destruct (has_crlf s) eqn:Es; [inversion H; subst; cbn; repeat split; auto; intro X; congruence|].
    pose proof (sr_headers_frame lower headers (set_status s (set_complete true t)) []) as F.
    cbn zeta in F. destruct (sr_headers lower _ headers []) as [t4 [hs|e1]]; [discriminate|].
    inversion H; subst. cbn [fst] in *. destruct F as (F1 & F2 & F3 & _). cbn in F1, F2, F3.
    repeat split; auto; try (intro X; congruence). right. exists s. repeat split; auto.
Qed.

(* ---- provenance: P = admissible status strings, Q = admissible fields ---- *)

Section Prov.
Variable P : str -> Prop.
Variable Q : str * str -> Prop.

Definition task_from (t : task) : Prop := P (t_status t) /\ Forall Q (t_rh t).

(* a call contributes its status once the status passes its own checks, and its
   pairs only when the whole call is acceptable *)
Definition call_ok (status : pyobj) (headers : list (pyobj * pyobj)) : Prop :=
  (forall s, status = PStr s -> has_crlf s = false -> P s)
  /\ (offending lower status headers = false -> Forall Q (strs_of headers)).

(* whether start_response returns or raises (at any raise site) *)
Theorem start_response_prov t status headers exc :
  task_from t -> call_ok status headers ->
  task_from (fst (start_response lower t status headers exc)).
Proof.
  intros [Hs Hf] [Cs Cf].
  destruct (start_response lower t status headers exc) as [t' [[]|e]] eqn:E; cbn [fst].
  - apply start_response_ok in E as (Hoff & Est & Erh & _). split.
    + rewrite Est. unfold offending in Hoff. apply orb_false_iff in Hoff as [Hb _].
      destruct status as [s|]; [|discriminate]. cbn in Hb. cbn [str_of]. apply Cs; auto.
    + rewrite Erh. apply Forall_app. split; [destruct exc; [constructor|exact Hf]|auto].
  - apply start_response_residue in E as [->|(_ & Erh & _ & _ & Hst)]; [split; auto|]. split.
    + destruct Hst as [(_ & ->)|(s & -> & Hcl & ->)]; auto.
    + rewrite Erh. destruct exc; [constructor|exact Hf].
Qed.

End Prov.
End Residue.

(* ---- whole runs ---------------------------------------------------------- *)

Section Run.
Variable cap : str -> str.
Variable lower : str -> str.
Variable c : cfg.
Variable r : req.
Variable disc : option nat.
Variable P : str -> Prop.
Variable Q : str * str -> Prop.
(* close_on_finish may be decided before the head is built (a body shorter than
   the declared Content-Length, an ErrorTask): the field it adds is admissible *)
Hypothesis HQ : forall h, server_field c h -> Q h.

Notation task_from := (task_from P Q).
Notation call_ok := (call_ok lower P Q).

(* h is the serialisation of a task whose strings are all admissible *)
Definition HeadFrom (h : bytes) : Prop :=
  exists t0 t1, task_from t0 /\ build_response_header cap lower c r t0 = (t1, Ok h).

(* the channel side: nothing precedes the head *)
Definition InvW (s : st) : Prop :=
  (t_wrote_header (fst s) = false -> ch_writes (snd s) = [])
  /\ (t_wrote_header (fst s) = true ->
      exists h rest, ch_writes (snd s) = rest ++ [WBytes h] /\ HeadFrom h).
(* the task side, while the head is still to be built *)
Definition InvT (s : st) : Prop := t_wrote_header (fst s) = false -> task_from (fst s).
Definition GoodP (s : st) : Prop := InvW s /\ InvT s.
(* after an exception only the channel side matters: the exception leaves the
   script (only start_response's own exceptions can be swallowed, and those
   keep InvT: start_response_prov) *)
Definition PostP (s' : st) (o : outcome unit) : Prop := InvW s' /\ (o = Ok tt -> InvT s').

Lemma PostP_GoodP s u : PostP s (Ok u) -> GoodP s.
Proof. destruct u. intros [H1 H2]. split; auto. Qed.

Lemma GoodP_PostP s o : GoodP s -> PostP s o.
Proof. intros [H1 H2]. split; auto. Qed.

Lemma InvW_same t ch t' ch' :
  t_wrote_header t' = t_wrote_header t -> ch_writes ch' = ch_writes ch -> InvW (t, ch) -> InvW (t', ch').
Proof. intros Hw Hc [I1 I2]. split; cbn [fst snd] in *; rewrite Hw, Hc; auto. Qed.

Lemma InvW_grow t1 ch1 t2 ch2 :
  InvW (t1, ch1) -> t_wrote_header t1 = true -> t_wrote_header t2 = true ->
  (exists pre, ch_writes ch2 = pre ++ ch_writes ch1) -> InvW (t2, ch2).
Proof.
  intros [_ I2] W1 W2 [pre Hp]. split; cbn [fst snd]; rewrite W2; [discriminate|]. intros _.
  destruct (I2 W1) as (h & rest & Hr & Hok). cbn [snd] in Hr.
  exists h, (pre ++ rest). rewrite Hp, Hr, app_assoc. auto.
Qed.

Lemma GoodP_task_only t t' ch :
  t_wrote_header t' = t_wrote_header t -> (task_from t -> task_from t') -> GoodP (t, ch) -> GoodP (t', ch).
Proof.
  intros Hw Hf [I T]. split. eapply InvW_same; eauto.
  unfold InvT in *. cbn [fst] in *. rewrite Hw. auto.
Qed.

Lemma scof_from t : task_from t -> task_from (set_close_on_finish cap lower t).
Proof.
  intros [H1 H2]. destruct (ext_scof cap lower c t) as [(sf & E & F) [S1 _]].
  split. rewrite S1; auto. rewrite E. apply Forall_app. split; auto.
  eapply Forall_impl; [|exact F]. exact HQ.
Qed.

Lemma GoodP_scof t ch : GoodP (t, ch) -> GoodP (set_close_on_finish cap lower t, ch).
Proof. apply GoodP_task_only. apply scof_wrote. apply scof_from. Qed.

Lemma GoodP_set_clen z t ch : GoodP (t, ch) -> GoodP (set_clen z t, ch).
Proof. apply GoodP_task_only; auto. Qed.

Lemma GoodP_remove_cl t ch : GoodP (t, ch) -> GoodP (remove_content_length_header lower t, ch).
Proof.
  apply GoodP_task_only; try reflexivity. intros [H1 H2]. split; auto.
  unfold remove_content_length_header. cbn [t_rh set_rh].
  apply Forall_forall. intros x Hx. apply filter_In in Hx as [Hx _]. rewrite Forall_forall in H2. auto.
Qed.

(* Task.write: the head *)
Lemma PW_write_header s s1 o1 :
  write_header cap lower c r disc s = (s1, o1) -> GoodP s ->
  InvW s1 /\ (o1 = Ok tt -> t_wrote_header (fst s1) = true).
Proof.
  destruct s as [t ch]. unfold write_header. intros E [I T].
  destruct (t_wrote_header t) eqn:Ew; cbn [negb] in E.
  - inversion E; subst. split; auto.
  - destruct I as [I1 _]. specialize (I1 Ew). specialize (T Ew). cbn [fst snd] in *.
    destruct (build_response_header cap lower c r t) as [t1 [rh|e]] eqn:Eb.
    + assert (Ht1 : t1 = bh_prepare cap lower c r t) by (unfold build_response_header in Eb; inversion Eb; auto).
      destruct (write_soon disc ch (WBytes rh)) as [ch1 [[]|e]] eqn:Ews.
      * inversion E; subst s1 o1. split; [|reflexivity].
        split; cbn [fst snd t_wrote_header set_wrote]; [discriminate|]. intros _.
        assert (Hne : exists x b', rh = x :: b').
        { unfold build_response_header, head_text in Eb. injection Eb as _ Hrh.
          eapply encode_nonempty; eauto. }
        destruct Hne as (x & b' & ->).
        apply write_soon_ok_nonempty in Ews.
        exists (x :: b'), []. rewrite Ews, I1. split; [reflexivity|]. exists t, t1. split; auto.
      * inversion E; subst s1 o1. split; [|discriminate].
        split; cbn [fst snd]; rewrite Ht1, bh_prepare_wrote, Ew; [intros _|discriminate].
        apply write_soon_writes in Ews as [_ Hs]. rewrite (Hs e eq_refl). auto.
    + inversion E; subst s1 o1. split; [|discriminate].
      assert (Ht1 : t1 = bh_prepare cap lower c r t) by (unfold build_response_header in Eb; inversion Eb; auto).
      split; cbn [fst snd]; rewrite Ht1, bh_prepare_wrote, Ew; [intros _; auto|discriminate].
Qed.

(* Task.write: afterwards the head is out, or an exception left the script *)
Lemma PP_task_write s data s' o :
  task_write cap lower c r disc s data = (s', o) -> GoodP s ->
  InvW s' /\ (o = Ok tt -> t_wrote_header (fst s') = true).
Proof.
  unfold task_write. destruct (negb (t_complete (fst s))); [intro H; inversion H; subst; intros [I _]; split; [auto|discriminate]|].
  intros H G.
  destruct (write_header cap lower c r disc s) as [s1 [[]|e]] eqn:E.
  - destruct (PW_write_header _ _ _ E G) as [I1 W1]. specialize (W1 eq_refl).
    destruct (write_body_frame _ _ _ _ _ H) as (F1 & _ & _ & F4 & _).
    destruct s1 as [t1 ch1], s' as [t2 ch2]. cbn [fst snd] in *.
    split; [|intros _; congruence]. eapply InvW_grow; eauto; congruence.
  - destruct (PW_write_header _ _ _ E G) as [I1 _]. inversion H; subst. split; [auto|discriminate].
Qed.

Lemma PostP_task_write s data s' o :
  task_write cap lower c r disc s data = (s', o) -> GoodP s -> PostP s' o.
Proof.
  intros H G. destruct (PP_task_write _ _ _ _ H G) as [I W]. split; auto.
  intros Ho Hw. rewrite (W Ho) in Hw. discriminate.
Qed.

(* the admissibility of a script: each start_response call, swallowed or not *)
Definition act_prov (a : action) : Prop :=
  match a with
  | AStart status headers _ | ATryStart status headers _ => call_ok status headers
  | _ => True
  end.
Definition step_prov (s : istep) : Prop := Forall act_prov (s_acts s).
Definition app_prov (a : app) : Prop := Forall act_prov (a_call a) /\ Forall step_prov (a_steps a).

Lemma sr_GoodP s status headers exc : call_ok status headers -> GoodP s ->
  GoodP (fst (start_response lower (fst s) status headers exc), snd s).
Proof.
  intros Hc G. destruct s as [t ch]. cbn [fst snd] in *.
  pose proof (start_response_frame lower t status headers exc) as F. cbn zeta in F.
  destruct F as (F1 & _). revert G. apply GoodP_task_only; auto.
  intro Hf. apply start_response_prov; auto.
Qed.

Lemma PostP_run_action s a s' o : act_prov a ->
  run_action cap lower c r disc s a = (s', o) -> GoodP s -> PostP s' o.
Proof.
  intros Ha H G. destruct a as [status headers exc|data|e|i isv v|status headers exc]; cbn [run_action] in H.
  - pose proof (sr_GoodP s status headers exc Ha G) as G1.
    destruct (start_response lower (fst s) status headers exc) as [t o1]. inversion H; subst.
    apply GoodP_PostP. exact G1.
  - eapply PostP_task_write; eauto.
  - inversion H; subst. destruct G. split; auto; discriminate.
  - inversion H; subst. apply GoodP_PostP; auto.
  - (* the refusal is swallowed: the residue of the refused call is admissible *)
    pose proof (sr_GoodP s status headers exc Ha G) as G1.
    destruct (start_response lower (fst s) status headers exc) as [t o1]. inversion H; subst.
    apply GoodP_PostP. exact G1.
Qed.

Lemma PostP_run_actions l : forall s s' o, Forall act_prov l ->
  run_actions cap lower c r disc s l = (s', o) -> GoodP s -> PostP s' o.
Proof.
  induction l as [|a l IH]; intros s s' o Hl H G; cbn [run_actions] in H.
  - inversion H; subst. apply GoodP_PostP; auto.
  - inversion Hl; subst.
    destruct (run_action cap lower c r disc s a) as [s1 [u|e]] eqn:E.
    + eapply IH; eauto. eapply PostP_GoodP. eapply PostP_run_action; eauto.
    + inversion H; subst. eapply PostP_run_action; eauto.
Qed.

Lemma PostP_iterate steps : forall is_file len1 first s s' o, Forall step_prov steps ->
  iterate cap lower c r disc is_file len1 first s steps = (s', o) -> GoodP s -> PostP s' o.
Proof.
  induction steps as [|sp steps IH]; intros is_file len1 first s s' o Hs H G; cbn [iterate] in H.
  - inversion H; subst. apply GoodP_PostP; auto.
  - inversion Hs as [|? ? Hsp Hrest]; subst.
    destruct (run_actions cap lower c r disc s (s_acts sp)) as [s1 [u|e]] eqn:E;
      [|inversion H; subst; eapply PostP_run_actions; eauto].
    assert (G1 : GoodP s1) by (eapply PostP_GoodP; eapply PostP_run_actions; eauto).
    destruct (s_res sp) as [chunk|e]; [|inversion H; subst; destruct G1; split; auto; discriminate].
    destruct (is_file && _); [inversion H; subst; apply GoodP_PostP; auto|].
    destruct s1 as [t ch].
    set (t1 := if first then _ else t) in H.
    assert (G2 : GoodP (t1, ch)).
    { subst t1. destruct first; auto. destruct (t_clen t); auto. destruct len1; auto; apply GoodP_set_clen; auto. }
    destruct chunk as [|x chunk].
    + eapply IH; eauto.
    + destruct (task_write cap lower c r disc (t1, ch) (x :: chunk)) as [s2 [u2|e]] eqn:Ew.
      * eapply IH; eauto. eapply PostP_GoodP. eapply PostP_task_write; eauto.
      * inversion H; subst. eapply PostP_task_write; eauto.
Qed.

Lemma PostP_task_finish s s' o : task_finish cap lower c r disc s = (s', o) -> GoodP s -> PostP s' o.
Proof.
  unfold task_finish. intros H G.
  set (r1 := if negb (t_wrote_header (fst s)) then _ else _) in H.
  assert (P1 : InvW (fst r1) /\ (snd r1 = Ok tt -> t_wrote_header (fst (fst r1)) = true)).
  { subst r1. destruct (t_wrote_header (fst s)) eqn:Ew; cbn [negb].
    - destruct G. split; auto.
    - destruct (task_write cap lower c r disc s []) as [s1 o1] eqn:E. eapply PP_task_write; eauto. }
  destruct r1 as [[t ch] [[]|e]]; cbn [fst snd] in P1; destruct P1 as [I1 W1];
    [|inversion H; subst; split; [exact I1|intro X; discriminate X]].
  specialize (W1 eq_refl).
  assert (T1 : InvT (t, ch)) by (intro X; cbn [fst] in X; congruence).
  destruct (t_chunked t && negb (r_head r)); [|inversion H; subst; split; auto].
  destruct (write_soon disc ch (WBytes chunk_terminator)) as [ch1 o1] eqn:Ews. inversion H; subst. clear H.
  split.
  - eapply InvW_grow; eauto. eapply write_soon_grows; eauto.
  - intros _ X. cbn [fst] in X. congruence.
Qed.

Lemma PostP_execute_body s a s' o cc : Forall step_prov (a_steps a) ->
  execute_body cap lower c r disc s a = (s', o, cc) -> GoodP s -> PostP s' o.
Proof.
  intros Hs H G. unfold execute_body in H.
  set (ho := match a_kind a with KFile _ => _ | _ => None end) in H.
  assert (Hho : match ho with Some (s1, o1, _) => PostP s1 o1 | None => True end).
  { subst ho. destruct (a_kind a) as [n| |seekable]; auto.
    destruct s as [t ch].
    set (size := if seekable then _ else 0%Z).
    destruct (size =? 0)%Z; auto.
    destruct (t_wrote_header t) eqn:Ewh0; auto.
    destruct (negb (has_body t)); auto.
    set (t1 := if match t_clen t with Some n => negb (n =? size)%Z | None => true end then _ else t).
    assert (G1 : GoodP (t1, ch)).
    { subst t1. destruct (match t_clen t with Some n => negb (n =? size)%Z | None => true end); auto.
      apply GoodP_set_clen. destruct (t_clen t); auto. apply GoodP_remove_cl; auto. }
    destruct (task_write cap lower c r disc (t1, ch) []) as [s1 [u|e]] eqn:Ew.
    - destruct (PP_task_write _ _ _ _ Ew G1) as [I1 W1]. destruct u. specialize (W1 eq_refl).
      destruct s1 as [t2 ch2]. cbn [fst] in W1.
      destruct (write_soon disc ch2 _) as [ch3 [u3|e]] eqn:Ews.
      + split.
        * apply (InvW_grow t2 ch2 t2 ch3 I1); auto. eapply write_soon_grows; eauto.
        * intros _ X. cbn [fst] in X. congruence.
      + split; [|intro X; discriminate X].
        apply write_soon_writes in Ews as [_ Hx]. specialize (Hx e eq_refl).
        revert I1. apply InvW_same; auto.
    - destruct s1. eapply PostP_task_write; eauto. }
  destruct ho as [[[s1 o1] c1]|].
  - inversion H; subst. exact Hho.
  - destruct (iterate cap lower c r disc _ _ true s (a_steps a)) as [s1 [u|e]] eqn:Ei.
    + pose proof (PostP_iterate _ _ _ _ _ _ _ Hs Ei G) as P1. apply PostP_GoodP in P1.
      destruct s1 as [t ch]. inversion H; subst. clear H.
      apply GoodP_PostP.
      destruct (t_clen t); auto. destruct (_ && _); auto. apply GoodP_scof; auto.
    + destruct s1. inversion H; subst. eapply PostP_iterate; eauto.
Qed.

Lemma PostP_wsgi_execute s a : app_prov a -> GoodP s ->
  let x := wsgi_execute cap lower c r disc s a in PostP (x_st x) (x_out x).
Proof.
  intros [Ha Hs] G. cbn zeta. unfold wsgi_execute.
  destruct (run_actions cap lower c r disc s (a_call a)) as [s1 [u|e]] eqn:E.
  - pose proof (PostP_run_actions _ _ _ _ Ha E G) as P1. apply PostP_GoodP in P1.
    destruct (execute_body cap lower c r disc s1 a) as [[s2 o] cc] eqn:Eb.
    pose proof (PostP_execute_body _ _ _ _ _ Hs Eb P1) as P2.
    destruct (cc && a_has_close a); [destruct (a_close_exn a)|]; cbn [x_st x_out]; auto.
    destruct P2. split; auto. intro X; discriminate X.
  - cbn [x_st x_out]. eapply PostP_run_actions; eauto.
Qed.

(* an ErrorTask carries the strings of the parser's error: admissible by hypothesis *)
Definition err_prov (e : (str * str) * str) : Prop :=
  P (fst (fst e) ++ [32] ++ snd (fst e)) /\ Q err_header.

Lemma PostP_error_execute s e : err_prov e -> GoodP s ->
  let x := error_execute cap lower c r disc s e in PostP (fst x) (snd x).
Proof.
  intros [E1 E2] G. cbn zeta. unfold error_execute. destruct e as [[code reason] body]. destruct s as [t ch].
  cbn [fst snd] in E1, E2.
  match goal with |- context [task_write cap lower c r disc ?s1 ?d] =>
    destruct (task_write cap lower c r disc s1 d) as [s2 o2] eqn:Ew;
    assert (G1 : GoodP s1) end.
  2: { cbn [fst snd]. eapply PostP_task_write; eauto. }
  apply GoodP_set_clen. apply GoodP_scof.
  revert G. apply GoodP_task_only; try reflexivity.
  intros [H1 H2]. split; cbn [t_status t_rh set_rh set_status]; auto.
  apply Forall_app. split; [exact H2|]. constructor; [exact E2|constructor].
Qed.

Lemma PostP_task_run s job :
  match job with inl a => app_prov a | inr e => err_prov e end -> GoodP s ->
  let x := task_run cap lower c r disc s job in PostP (x_st x) (x_out x).
Proof.
  intros Hj G. cbn zeta. unfold task_run.
  set (x := match job with inl a => _ | inr e => _ end).
  assert (P1 : PostP (x_st x) (x_out x)).
  { subst x. destruct job as [a|e].
    - apply PostP_wsgi_execute; auto.
    - pose proof (PostP_error_execute s e Hj G) as X. cbn zeta in X.
      destruct (error_execute cap lower c r disc s e). exact X. }
  destruct (x_out x) as [u|e] eqn:Eo; [|rewrite Eo; exact P1].
  apply PostP_GoodP in P1.
  destruct (task_finish cap lower c r disc (x_st x)) as [s2 o2] eqn:Ef. cbn [x_st x_out].
  eapply PostP_task_finish; eauto.
Qed.

Lemma InvW_task_service s job :
  match job with inl a => app_prov a | inr e => err_prov e end -> GoodP s ->
  InvW (x_st (task_service cap lower c r disc s job)).
Proof.
  intros Hj G. unfold task_service.
  pose proof (PostP_task_run s job Hj G) as [I _]. cbn zeta in I.
  destruct (x_out (task_run cap lower c r disc s job)) as [u|e]; auto.
  destruct (is_OSError e); auto.
Qed.

End Run.

(* ---- HTTPChannel.service: what reaches the wire -------------------------- *)

Section Service.
Variable cap : str -> str.
Variable lower : str -> str.
Variable c : cfg.
Variable r : req.
Variable disc : option nat.

(* TaskC08.service_first without its (unused) side condition on r_error *)
Lemma service_first_any a :
  let res := channel_service cap lower c r a disc in
  o_writes1 res = rev (ch_writes (snd (first_state cap lower c r disc a)))
  /\ o_wrote_header1 res = t_wrote_header (fst (first_state cap lower c r disc a)).
Proof.
  cbn zeta. unfold channel_service, first_state. destruct (connected disc 0); unfold ladder;
  repeat match goal with
         | |- context [match ?x with _ => _ end] => destruct x eqn:?
         | |- context [if ?x then _ else _] => destruct x eqn:?
         end; cbn; auto.
Qed.

Section Generic.
Variable P : str -> Prop.
Variable Q : str * str -> Prop.
Hypothesis HQ : forall h, server_field c h -> Q h.
Hypothesis HP0 : P (lit "200 OK").

Lemma GoodP_init v e n : GoodP cap lower c r P Q (new_task v e, mkChan [] n).
Proof.
  split; [split|]; cbn [fst snd new_task t_wrote_header ch_writes]; try discriminate; auto.
  intros _. split; [exact HP0|constructor].
Qed.

Theorem wire_prov a :
  match r_error r with Some e => err_prov P Q e | None => app_prov lower P Q a end ->
  let res := channel_service cap lower c r a disc in
  o_wrote_header1 res = true ->
  exists h rest, o_writes1 res = WBytes h :: rest /\ HeadFrom cap lower c r P Q h.
Proof.
  intro Hj. cbn zeta. destruct (service_first_any a) as (E1 & E2). cbn zeta in *.
  rewrite E1, E2.
  assert (I : InvW cap lower c r P Q (first_state cap lower c r disc a)).
  { unfold first_state. destruct (connected disc 0).
    - apply InvW_task_service; auto. destruct (r_error r); auto. apply GoodP_init.
    - cbn [x_st]. destruct (GoodP_init (r_version r) (match r_error r with Some _ => true | None => false end) 0) as [I _].
      exact I. }
  destruct I as [_ I2]. intro W.
  destruct (I2 W) as (h & rest & Hw & Hok). exists h, (rev rest). rewrite Hw, rev_app_distr. auto.
Qed.

End Generic.

(* ---- the closed form: strings vetted by the script's own calls ----------- *)

Definition app_actions (a : app) : list action := a_call a ++ flat_map s_acts (a_steps a).

(* the arguments of a start_response call, swallowed or not *)
Definition call_of (x : action) : option (pyobj * list (pyobj * pyobj)) :=
  match x with
  | AStart status headers _ | ATryStart status headers _ => Some (status, headers)
  | _ => None
  end.

(* s is the default status, or the status argument of a call of the script, and
   it passed start_response's checks on a status (a str without CR/LF) *)
Definition status_vetted (a : app) (s : str) : Prop :=
  s = lit "200 OK"
  \/ exists headers x, In x (app_actions a) /\ call_of x = Some (PStr s, headers) /\ has_crlf s = false.

(* f is a pair of a call of the script that start_response accepts as a whole *)
Definition field_vetted (a : app) (f : str * str) : Prop :=
  exists status headers x, In x (app_actions a) /\ call_of x = Some (status, headers)
    /\ offending lower status headers = false /\ In f (strs_of headers).

Definition field_ok (a : app) (f : str * str) : Prop := field_vetted a f \/ server_field c f.

Lemma act_prov_vetted a x : In x (app_actions a) -> act_prov lower (status_vetted a) (field_ok a) x.
Proof.
  intro Hin. destruct x as [status headers exc|data|e|i isv v|status headers exc]; cbn [act_prov]; auto.
  - split.
    + intros s -> Hcl. right. exists headers, (AStart (PStr s) headers exc). auto.
    + intro Hoff. apply Forall_forall. intros f Hf. left. exists status, headers, (AStart status headers exc). auto.
  - split.
    + intros s -> Hcl. right. exists headers, (ATryStart (PStr s) headers exc). auto.
    + intro Hoff. apply Forall_forall. intros f Hf. left. exists status, headers, (ATryStart status headers exc). auto.
Qed.

Lemma app_prov_vetted a : app_prov lower (status_vetted a) (field_ok a) a.
Proof.
  split.
  - apply Forall_forall. intros x Hx. apply act_prov_vetted. unfold app_actions. apply in_or_app. auto.
  - apply Forall_forall. intros sp Hsp. apply Forall_forall. intros x Hx. apply act_prov_vetted.
    unfold app_actions. apply in_or_app. right. apply in_flat_map. exists sp. auto.
Qed.

Lemma status_vetted_clean a s : status_vetted a s -> clean s.
Proof. intros [->|(h & x & _ & _ & H)]; [reflexivity|exact H]. Qed.

Lemma field_vetted_clean a f : field_vetted a f -> clean_field f.
Proof.
  intros (status & headers & x & _ & _ & Hoff & Hin).
  unfold offending in Hoff. apply orb_false_iff in Hoff as [_ Hb].
  pose proof (strs_of_clean lower headers Hb) as F. rewrite Forall_forall in F. auto.
Qed.

(* Every run of every script, swallowed refusals included: the head is the
   serialisation of a task whose status passed the status check of one of the
   script's start_response calls (or is the default) and whose fields were
   passed in calls start_response accepts as a whole (or are server fields). *)
Theorem wire_accepted a :
  r_error r = None ->
  let res := channel_service cap lower c r a disc in
  o_wrote_header1 res = true ->
  exists h rest t0 t1,
    o_writes1 res = WBytes h :: rest
    /\ status_vetted a (t_status t0) /\ Forall (field_ok a) (t_rh t0)
    /\ build_response_header cap lower c r t0 = (t1, Ok h).
Proof.
  intros He. cbn zeta. intro W.
  destruct (wire_prov (status_vetted a) (field_ok a) (fun h H => or_intror H) (or_introl eq_refl) a) as (h & rest & Hw & t0 & t1 & [Hs Hf] & Hb); auto.
  - rewrite He. apply app_prov_vetted.
  - exists h, rest, t0, t1. auto.
Qed.

(* ... hence, line by line (head_lines_exact): *)
Hypothesis Hcap : forall s, clean s -> clean (cap s).
Hypothesis Hc : cfg_clean c.

Theorem wire_accepted_lines a :
  r_error r = None ->
  let res := channel_service cap lower c r a disc in
  o_wrote_header1 res = true ->
  exists h rest t0 sf,
    o_writes1 res = WBytes h :: rest
    /\ status_vetted a (t_status t0) /\ Forall (field_ok a) (t_rh t0)
    /\ Forall (server_field c) sf
    /\ let fields := norm_fields cap (has_body t0) (t_rh t0) ++ sf in
       split h CRLF =
         (lit "HTTP/" ++ version_str t0 ++ [32] ++ t_status t0)
           :: map header_line (sort_hdrs fields) ++ [[]; []]
       /\ Forall clean (firstn (S (length fields)) (split h CRLF)).
Proof.
  intros He. cbn zeta. intro W.
  destruct (wire_accepted a He W) as (h & rest & t0 & t1 & Hw & Hs & Hf & Hb).
  assert (Hcl : task_clean t0).
  { split. eapply status_vetted_clean; eauto.
    eapply Forall_impl; [|exact Hf]. intros f [Hv|Hv]; [eapply field_vetted_clean; eauto|apply (server_field_clean c); auto]. }
  destruct (head_lines_exact cap lower Hcap c r t0 t1 h Hc Hcl Hb) as (sf & Fs & L1 & L2 & _).
  exists h, rest, t0, sf. repeat split; auto.
Qed.

End Service.

Lemma vetted_clean lower c a : cfg_clean c ->
  (forall s, status_vetted a s -> clean s) /\ (forall f, field_ok lower c a f -> clean_field f).
Proof.
  intro Hc. split. apply status_vetted_clean.
  intros f [H|H]; [eapply field_vetted_clean; eauto|apply (server_field_clean c); auto].
Qed.

(* a swallowed call never raises and never touches the channel *)
Lemma try_start_silent cap lower c r disc s status headers exc :
  exists t, run_action cap lower c r disc s (ATryStart status headers exc) = ((t, snd s), Ok tt)
            /\ t = fst (start_response lower (fst s) status headers exc).
Proof.
  cbn [run_action]. destruct (start_response lower (fst s) status headers exc) as [t o]. exists t. auto.
Qed.

(* ---- closed instances ----------------------------------------------------- *)

Definition evil_status : str :=
  lit "200 OK" ++ CRLF ++ lit "Set-Cookie: session=attacker" ++ CRLF ++ lit "X-Injected: yes".
Definition ct_plain : pyobj * pyobj := (PStr (lit "Content-Type"), PStr (lit "text/plain")).

(* the refusal of the FIRST call is swallowed, a body is returned *)
Definition swallow_first_app : app :=
  mkApp [ATryStart (PStr evil_status) [ct_plain] None]
        (KSized 1) [mkStep [] (SYield (lit "hello"))] false None.
(* a valid first call, then a refused exc_info re-call made by an error handler *)
Definition swallow_excinfo_app : app :=
  mkApp [AStart (PStr (lit "200 OK")) [ct_plain; (PStr (lit "X-First"), PStr (lit "1"))] None;
         ATryStart (PStr (lit "500 Oops" ++ CRLF ++ lit "X-Injected: yes")) [ct_plain] (Some AppException)]
        (KSized 1) [mkStep [] (SYield (lit "sorry"))] false None.
(* a refused exc_info re-call followed by write() obtained from the first call *)
Definition swallow_write_app : app :=
  mkApp [AStart (PStr (lit "200 OK")) [ct_plain] None;
         ATryStart (PStr (lit "200 OK" ++ [LF] ++ lit "X-Injected: yes")) [] (Some AppException);
         AWrite (lit "data")]
        (KSized 0) [] false None.

Definition head_lines_of (a : app) : option (list str) :=
  match o_writes (run_task sample_cfg sample_req a None) with
  | WBytes h :: _ => Some (split h CRLF)
  | _ => None
  end.

Lemma swallowed_refusals_instances :
  head_lines_of swallow_first_app =
    Some [lit "HTTP/1.1 200 OK"; lit "Content-Length: 5";
          lit "Date: Thu, 01 Jan 2026 00:00:00 GMT"; lit "Server: waitress"; []; []]
  /\ head_lines_of swallow_excinfo_app =
    Some [lit "HTTP/1.1 200 OK"; lit "Content-Length: 5";
          lit "Date: Thu, 01 Jan 2026 00:00:00 GMT"; lit "Server: waitress"; []; []]
  /\ head_lines_of swallow_write_app =
    Some [lit "HTTP/1.1 200 OK"; lit "Connection: close";
          lit "Date: Thu, 01 Jan 2026 00:00:00 GMT"; lit "Server: waitress";
          lit "Transfer-Encoding: chunked"; []; []].
Proof. vm_compute. repeat split; reflexivity. Qed.

(* What a refused call leaves behind is NOT nothing: a status that passed its
   own checks stays in the task when a pair of the same call is refused (the
   int() of a Content-Length pair of the refused call stayed too, and cut the
   body to "hel", until /repo fix 5926e3b).  The stricter reading "the status on
   the wire belongs to a call that start_response accepted as a whole (or is
   the default)" is false of the code as it is: *)
Definition residue_app : app :=
  mkApp [ATryStart (PStr (lit "404 Not Found"))
           [(PStr (lit "Content-Length"), PStr (lit "3")); (PStr (lit "X-Bad" ++ [LF]), PStr (lit "v"))] None]
        (KSized 1) [mkStep [] (SYield (lit "hello"))] false None.

Definition status_returned (a : app) (s : str) : Prop :=
  s = lit "200 OK"
  \/ exists headers x, In x (app_actions a) /\ call_of x = Some (PStr s, headers)
                       /\ offending py_lower (PStr s) headers = false.

Definition strict_status_statement : Prop :=
  forall c r disc a, cfg_clean c -> r_error r = None ->
    let res := run_task c r a disc in
    o_wrote_header1 res = true ->
    exists h rest s, o_writes1 res = WBytes h :: rest /\ status_returned a s
      /\ hd [] (split h CRLF) =
           lit "HTTP/" ++ (if beqb (r_version r) (lit "1.1") then lit "1.1" else lit "1.0") ++ [32] ++ s.

Lemma residue_instance :
  o_writes (run_task sample_cfg sample_req residue_app None) =
    [WBytes (lit "HTTP/1.1 404 Not Found" ++ CRLF ++ lit "Content-Length: 5" ++ CRLF
             ++ lit "Date: Thu, 01 Jan 2026 00:00:00 GMT" ++ CRLF ++ lit "Server: waitress" ++ CRLF ++ CRLF);
     WBytes (lit "hello")].
Proof. vm_compute. reflexivity. Qed.

Lemma strict_status_refuted : ~ strict_status_statement.
Proof.
  intro H. specialize (H sample_cfg sample_req None residue_app sample_cfg_clean eq_refl).
  cbn zeta in H. specialize (H ltac:(vm_compute; reflexivity)).
  destruct H as (h & rest & s & Hw & Hs & Hl).
  vm_compute in Hw. injection Hw as <- _. 
  destruct Hs as [->|(headers & x & Hin & Hc & Hoff)].
  - vm_compute in Hl. discriminate Hl.
  - destruct Hin as [<-|[]]. cbn [call_of] in Hc. injection Hc as <- <-.
    vm_compute in Hoff. discriminate Hoff.
Qed.
