(* "for every list length": a header value is the join of its elements, and
   splitting it gives the elements back -- every n >= 1 arises.  And the
   indexing law itself. *)
From Coq Require Import List NArith ZArith Bool Lia Arith.
From WV Require Import Lib.PyBytes Lib.PyStrProxy Model.Proxy Spec.ProxySpec Proof.ProxyDict Proof.ProxyStr.
Import ListNotations.
Local Open Scope N_scope.

Lemma split_fuel_char c f s :
  split_fuel (S f) s [c] =
  if memb c s then take_until c s :: split_fuel f (drop_through c s) [c] else [s].
Proof.
  cbn [split_fuel]. unfold find. rewrite find_from_char. destruct (memb c s) eqn:E; auto.
  pose proof (take_drop c s E) as H. cbn [Nat.add List.length].
  assert (H1 : firstn (List.length (take_until c s)) s = take_until c s).
  { rewrite H at 2. rewrite firstn_app, Nat.sub_diag, firstn_all. simpl. apply app_nil_r. }
  assert (H2 : skipn (List.length (take_until c s) + 1) s = drop_through c s).
  { rewrite H at 2. rewrite skipn_app.
    replace (List.length (take_until c s) + 1 - List.length (take_until c s))%nat with 1%nat by lia.
    rewrite skipn_all2 by lia. reflexivity. }
  rewrite H1, H2. reflexivity.
Qed.

Lemma take_until_app c x r : memb c x = false -> take_until c (x ++ c :: r) = x.
Proof.
  induction x as [|y x IH]; cbn [app take_until].
  - rewrite N.eqb_refl. reflexivity.
  - rewrite memb_cons. intro H. apply orb_false_iff in H as [H1 H2]. rewrite (N.eqb_sym y c), H1. f_equal. auto.
Qed.

Lemma drop_through_app c x r : memb c x = false -> drop_through c (x ++ c :: r) = r.
Proof.
  induction x as [|y x IH]; cbn [app drop_through].
  - rewrite N.eqb_refl. reflexivity.
  - rewrite memb_cons. intro H. apply orb_false_iff in H as [H1 H2]. rewrite (N.eqb_sym y c), H1. auto.
Qed.

Lemma memb_app_mid c x r : memb c (x ++ c :: r) = true.
Proof. induction x as [|y x IH]; cbn [app]; rewrite memb_cons; [rewrite N.eqb_refl|rewrite IH, orb_true_r]; reflexivity. Qed.

Lemma split_join_fuel c l : l <> [] -> (forall x, In x l -> memb c x = false) ->
  forall f, (List.length (join [c] l) < f)%nat -> split_fuel f (join [c] l) [c] = l.
Proof.
  induction l as [|x l IH]; [congruence|]. intros _ Hx f Hf.
  destruct l as [|y l].
  - cbn [join] in *. destruct f as [|f]; [lia|]. rewrite split_fuel_char, (Hx x) by (left; reflexivity). reflexivity.
  - change (join [c] (x :: y :: l)) with (x ++ c :: join [c] (y :: l)) in *.
    destruct f as [|f]; [lia|]. rewrite split_fuel_char, memb_app_mid.
    rewrite take_until_app, drop_through_app by (apply Hx; left; reflexivity).
    f_equal. apply IH; [discriminate|intros z Hz; apply Hx; right; exact Hz|].
    rewrite app_length in Hf. cbn [List.length] in Hf. lia.
Qed.

Lemma split_join c l : l <> [] -> (forall x, In x l -> memb c x = false) -> split (join [c] l) [c] = l.
Proof. intros H1 H2. unfold split. apply split_join_fuel; auto. Qed.

(* the indexing law, for every list length n >= 1 and every count k >= 1 *)
Lemma hop_index_law {A} (l : list A) (p : positive) :
  l <> [] ->
  hd_error (py_lastk l (Zpos p)) = nth_error l (List.length l - Nat.min (Pos.to_nat p) (List.length l)) /\
  exists x, hd_error (py_lastk l (Zpos p)) = Some x.
Proof.
  intro H. rewrite py_lastk_pos, suffix_hd. split; [reflexivity|].
  apply pick_some; [exact H|lia].
Qed.

(* every hop list of every length arises from a header value, and the k-th
   element from the right of the header's elements is the k-th hop *)
Lemma hop_index_header (hops : list str) (p : positive) :
  hops <> [] -> (forall h, In h hops -> memb c_comma h = false) ->
  pick (split (join [c_comma] hops) [c_comma]) (Pos.to_nat p) =
  nth_error hops (List.length hops - Nat.min (Pos.to_nat p) (List.length hops)).
Proof. intros H1 H2. rewrite split_join by auto. reflexivity. Qed.
