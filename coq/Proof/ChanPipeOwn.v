(* Proof/ChanPipeOwn.v -- layer L1: the queue / ownership discipline.
   At most one dispatcher entry, at most one worker owning the connection, the
   entry exists iff requests are pending and nobody owns the connection. *)
From Coq Require Import List Arith Bool ZArith Lia.
From WV Require Import Model.ChanPipe Proof.ChanPipeBase.
Import ListNotations.

Definition postpop (pc : wkpc) : bool :=
  match pc with WKbConn | WKbReq | WKbConn2 | WKbSc _ => true | _ => false end.
Definition is_c2 (pc : wkpc) : bool := match pc with WKbConn2 => true | _ => false end.
Definition is_sc (pc : wkpc) : bool := match pc with WKbSc _ => true | _ => false end.
Definition is_atacq (pc : iopc) : bool := match pc with IoRcAt AtAcq => true | _ => false end.

(* what L1 sees of a worker's program point *)
Definition wa1 (pc : wkpc) : bool * bool * bool * bool := (wk_owner pc, postpop pc, is_c2 pc, is_sc pc).

Record L1 (st : state) : Prop := {
  l1_uniq : forall j k, wk_owner (wpc (wk st j)) = true -> wk_owner (wpc (wk st k)) = true -> j = k;
  l1_q : queue (sh st) <= 1;
  l1_qown : queue (sh st) = 1 -> forall j, wk_owner (wpc (wk st j)) = false;
  l1_qreq : queue (sh st) = 1 -> requests (sh st) <> [];
  l1_ownreq : forall j, wk_owner (wpc (wk st j)) = true -> postpop (wpc (wk st j)) = false -> requests (sh st) <> [];
  l1_cover : connected (sh st) = true -> (forall j, wk_owner (wpc (wk st j)) = false) -> requests (sh st) <> [] ->
             (io_handing (io st) = true -> 2 <= length (requests (sh st))) -> queue (sh st) = 1;
  l1_c2 : forall j, is_c2 (wpc (wk st j)) = true -> requests (sh st) <> [] -> connected (sh st) = false;
  l1_sc : forall j, is_sc (wpc (wk st j)) = true -> requests (sh st) = [];
  l1_at : is_atacq (ipc (io st)) = true -> length (requests (sh st)) = 1;
  l1_hand : io_handing (io st) = true -> length (requests (sh st)) = 1 ->
            queue (sh st) = 0 /\ forall j, wk_owner (wpc (wk st j)) = false
}.

Lemma L1_init : L1 init.
Proof.
  split; simpl; intros; try discriminate; try lia; try congruence; auto.
Qed.

Lemma app_one_nonnil : forall (A : Type) (l : list A) x, l ++ [x] <> [].
Proof. intros A l x H. apply app_eq_nil in H. destruct H. discriminate. Qed.
Lemma len_app_one : forall (A : Type) (l : list A) x, length (l ++ [x]) = S (length l).
Proof. intros. rewrite app_length. simpl. lia. Qed.
Lemma len1_app_one : forall (A : Type) (l : list A) x, length (l ++ [x]) = 1 -> l = [].
Proof. intros A l x H. rewrite len_app_one in H. destruct l; simpl in *; auto. lia. Qed.

Lemma postpop_rl : forall pc, postpop pc = true -> wk_rl pc = true.
Proof. destruct pc; simpl; congruence. Qed.

(* while the I/O thread is inside received() and the request list is empty, nothing
   is queued and no worker owns the connection *)
Lemma io_rl_empty_no_owner : forall st, L0 st -> L1 st ->
  io_rl (ipc (io st)) = true -> requests (sh st) = [] ->
  queue (sh st) = 0 /\ forall j, wk_owner (wpc (wk st j)) = false.
Proof.
  intros st HL0 HL1 Hio Hreq. split.
  - pose proof (l1_q _ HL1). pose proof (l1_qreq _ HL1).
    destruct (queue (sh st)) as [|[|q]]; auto; try lia. exfalso. apply H0; auto.
  - intro j. destruct (wk_owner (wpc (wk st j))) eqn:Eo; auto.
    destruct (postpop (wpc (wk st j))) eqn:Ep.
    + apply postpop_rl in Ep. pose proof (lock_ok_io_excl _ _ _ _ (l0_r _ HL0) Hio j). congruence.
    + exfalso. eapply (l1_ownreq _ HL1); eauto.
Qed.

(* ---- frame: a step that changes nothing L1 looks at *)
Lemma L1_frame : forall st st',
  requests (sh st') = requests (sh st) -> queue (sh st') = queue (sh st) ->
  connected (sh st') = connected (sh st) ->
  io_handing (io st') = io_handing (io st) -> is_atacq (ipc (io st')) = is_atacq (ipc (io st)) ->
  (forall j, wa1 (wpc (wk st' j)) = wa1 (wpc (wk st j))) ->
  L1 st -> L1 st'.
Proof.
  intros st st' Hr Hq Hc Hh Ha Hw [Hu Hq1 Hqo Hqr Hor Hcv Hc2 Hsc Hat Hhd].
  assert (Ho : forall j, wk_owner (wpc (wk st' j)) = wk_owner (wpc (wk st j))) by (intro j; specialize (Hw j); unfold wa1 in Hw; congruence).
  assert (Hp : forall j, postpop (wpc (wk st' j)) = postpop (wpc (wk st j))) by (intro j; specialize (Hw j); unfold wa1 in Hw; congruence).
  assert (H2 : forall j, is_c2 (wpc (wk st' j)) = is_c2 (wpc (wk st j))) by (intro j; specialize (Hw j); unfold wa1 in Hw; congruence).
  assert (H3 : forall j, is_sc (wpc (wk st' j)) = is_sc (wpc (wk st j))) by (intro j; specialize (Hw j); unfold wa1 in Hw; congruence).
  split; rewrite ?Hr, ?Hq, ?Hc, ?Hh, ?Ha; intros;
    repeat match goal with H : context [wk st' _] |- _ => rewrite ?Ho, ?Hp, ?H2, ?H3 in H end;
    rewrite ?Ho, ?Hp, ?H2, ?H3; eauto.
  all: try (apply Hcv; auto; intro j; rewrite <- Ho; auto).
  all: try (destruct (Hhd H H0) as [A B]; split; auto; intro j; rewrite Ho; auto).
Qed.

Lemma is_c2_rl : forall pc, is_c2 pc = true -> wk_rl pc = true.
Proof. destruct pc; simpl; congruence. Qed.
Lemma is_sc_rl : forall pc, is_sc pc = true -> wk_rl pc = true.
Proof. destruct pc; simpl; congruence. Qed.
Lemma handing_rl : forall i, io_handing i = true -> io_rl (ipc i) = true.
Proof. intros [pc ? ? ? ? ? ?]; unfold io_handing; simpl. destruct pc; try congruence; auto. Qed.
Lemma atacq_rl : forall pc, is_atacq pc = true -> io_rl pc = true.
Proof. destruct pc; simpl; try congruence. Qed.

Lemma upd_forall_elim : forall (Q : wkst -> Prop) w me x,
  (forall j, Q (upd w me x j)) -> Q x /\ forall j, j <> me -> Q (w j).
Proof.
  intros Q w me x H. split.
  - specialize (H me). rewrite upd_same in H. exact H.
  - intros j Hj. specialize (H j). rewrite upd_other in H; auto.
Qed.

(* the worker cases are proved in three groups (three files, compiled in parallel) *)
Definition grp1 (pc : wkpc) : nat :=
  match pc with
  | WKbPop | WKbConn | WKbReq | WKbAt _ => 1
  | WKbConn2 | WKbSc _ => 2
  | _ => 0
  end.
