(* Proof/ChanPipeOwn.v -- layer L1: the queue / ownership discipline.
   At most one dispatcher entry, at most one worker owning the connection, the
   entry exists iff requests are pending and nobody owns the connection. *)
From Coq Require Import List Arith Bool ZArith Lia.
From WV Require Import Model.ChanPipe Proof.ChanPipeBase.
Import ListNotations.

Definition postpop (pc : wkpc) : bool :=
  match pc with WKbConn | WKbReq | WKbConn2 | WKbSc _ => true | _ => false end.

Record L1 (st : state) : Prop := {
  l1_uniq : forall j k, wk_owner (wpc (wk st j)) = true -> wk_owner (wpc (wk st k)) = true -> j = k;
  l1_q : queue (sh st) <= 1;
  l1_qown : queue (sh st) = 1 -> forall j, wk_owner (wpc (wk st j)) = false;
  l1_qreq : queue (sh st) = 1 -> requests (sh st) <> [];
  l1_ownreq : forall j, wk_owner (wpc (wk st j)) = true -> postpop (wpc (wk st j)) = false -> requests (sh st) <> [];
  l1_cover : connected (sh st) = true -> (forall j, wk_owner (wpc (wk st j)) = false) -> requests (sh st) <> [] ->
             (io_handing (io st) = true -> 2 <= length (requests (sh st))) -> queue (sh st) = 1;
  l1_c2 : forall j, wpc (wk st j) = WKbConn2 -> requests (sh st) <> [] -> connected (sh st) = false;
  l1_sc : forall j c, wpc (wk st j) = WKbSc c -> requests (sh st) = [];
  l1_at : ipc (io st) = IoRcAt AtAcq -> length (requests (sh st)) = 1;
  l1_hand : io_handing (io st) = true -> length (requests (sh st)) = 1 ->
            queue (sh st) = 0 /\ forall j, wk_owner (wpc (wk st j)) = false
}.

Lemma L1_init : L1 init.
Proof.
  split; simpl; intros; try discriminate; try lia; try congruence; auto.
Qed.

Lemma app_one_nonnil : forall (A : Type) (l : list A) x, l ++ [x] <> [].
Proof. intros A l x H. apply app_eq_nil in H. destruct H. discriminate. Qed.

Lemma len_app_one : forall (A : Type) (l : list A) x, length (l ++ [x]) = S (length l).
Proof. intros. rewrite app_length. simpl. lia. Qed.

Lemma len1_app_one : forall (A : Type) (l : list A) x, length (l ++ [x]) = 1 -> l = [].
Proof. intros A l x H. rewrite len_app_one in H. destruct l; simpl in *; auto. lia. Qed.

Lemma nonnil_len : forall (A : Type) (l : list A), l <> [] -> 1 <= length l.
Proof. destruct l; simpl; intros; try congruence; lia. Qed.

Section Step.
Variable P : params.

(* the lock facts of L0, as plain hypotheses about the stepping thread *)
Ltac l0_facts HL0 :=
  destruct HL0 as [[R1 R2] [O1 O2] [D1 D2]]; cbn [sh io wk] in *.

Ltac list_simp :=
  repeat match goal with
  | H : ?l ++ [_] = [] |- _ => exfalso; exact (app_one_nonnil _ _ _ H)
  | H : length (_ ++ [_]) = 1 |- _ => apply len1_app_one in H
  | |- _ ++ [_] <> [] => apply app_one_nonnil
  | H : context [length (_ ++ [_])] |- _ => rewrite len_app_one in H
  | |- context [length (_ ++ [_])] => rewrite len_app_one
  end.

Ltac fin :=
  bool_hyps; cbn in *; list_simp;
  try solve [ intuition (try discriminate; try congruence; try lia) ].

Theorem L1_step : forall st c st' l, L0 st -> L1 st -> step P st c = Some (st', l) -> L1 st'.
Proof.
  intros st c st' l HL0 [Hu Hq Hqo Hqr Hor Hcv Hc2 Hsc Hat Hh] Hs.
  destruct c as [e | me e].
  - step_io Hs; l0_facts HL0; cbn [sh io wk ipc] in *.
    all: split; cbn [sh io wk ipc io_handing]; intros.
    all: fin.
    all: match goal with |- ?G => idtac "IOGOAL" G end.
    all: admit.
  - admit.
Admitted.
End Step.
