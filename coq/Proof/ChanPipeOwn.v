(* Proof/ChanPipeOwn.v -- layer L1: the queue / ownership discipline.
   At most one dispatcher entry, at most one worker owning the connection, the
   entry exists iff requests are pending and nobody owns the connection. *)
From Coq Require Import List Arith Bool ZArith Lia.
From WV Require Import Model.ChanPipe Proof.ChanPipeBase.
Import ListNotations.

Definition postpop (pc : wkpc) : bool :=
  match pc with WKbConn | WKbReq | WKbConn2 | WKbSc _ => true | _ => false end.
Definition is_c2 (pc : wkpc) : bool := match pc with WKbConn2 => true | _ => false end.
Definition is_sc (pc : wkpc) : bool := match pc with WKbSc _ => true | _ => false end.
Definition is_atacq (pc : iopc) : bool := match pc with IoRcAt AtAcq => true | _ => false end.

(* what L1 sees of a worker's program point *)
Definition wa1 (pc : wkpc) : bool * bool * bool * bool := (wk_owner pc, postpop pc, is_c2 pc, is_sc pc).

Record L1 (st : state) : Prop := {
  l1_uniq : forall j k, wk_owner (wpc (wk st j)) = true -> wk_owner (wpc (wk st k)) = true -> j = k;
  l1_q : queue (sh st) <= 1;
  l1_qown : queue (sh st) = 1 -> forall j, wk_owner (wpc (wk st j)) = false;
  l1_qreq : queue (sh st) = 1 -> requests (sh st) <> [];
  l1_ownreq : forall j, wk_owner (wpc (wk st j)) = true -> postpop (wpc (wk st j)) = false -> requests (sh st) <> [];
  l1_cover : connected (sh st) = true -> (forall j, wk_owner (wpc (wk st j)) = false) -> requests (sh st) <> [] ->
             (io_handing (io st) = true -> 2 <= length (requests (sh st))) -> queue (sh st) = 1;
  l1_c2 : forall j, is_c2 (wpc (wk st j)) = true -> requests (sh st) <> [] -> connected (sh st) = false;
  l1_sc : forall j, is_sc (wpc (wk st j)) = true -> requests (sh st) = [];
  l1_at : is_atacq (ipc (io st)) = true -> length (requests (sh st)) = 1;
  l1_hand : io_handing (io st) = true -> length (requests (sh st)) = 1 ->
            queue (sh st) = 0 /\ forall j, wk_owner (wpc (wk st j)) = false
}.

Lemma L1_init : L1 init.
Proof.
  split; simpl; intros; try discriminate; try lia; try congruence; auto.
Qed.

Lemma app_one_nonnil : forall (A : Type) (l : list A) x, l ++ [x] <> [].
Proof. intros A l x H. apply app_eq_nil in H. destruct H. discriminate. Qed.
Lemma len_app_one : forall (A : Type) (l : list A) x, length (l ++ [x]) = S (length l).
Proof. intros. rewrite app_length. simpl. lia. Qed.
Lemma len1_app_one : forall (A : Type) (l : list A) x, length (l ++ [x]) = 1 -> l = [].
Proof. intros A l x H. rewrite len_app_one in H. destruct l; simpl in *; auto. lia. Qed.

Lemma postpop_rl : forall pc, postpop pc = true -> wk_rl pc = true.
Proof. destruct pc; simpl; congruence. Qed.

(* while the I/O thread is inside received() and the request list is empty, nothing
   is queued and no worker owns the connection *)
Lemma io_rl_empty_no_owner : forall st, L0 st -> L1 st ->
  io_rl (ipc (io st)) = true -> requests (sh st) = [] ->
  queue (sh st) = 0 /\ forall j, wk_owner (wpc (wk st j)) = false.
Proof.
  intros st HL0 HL1 Hio Hreq. split.
  - pose proof (l1_q _ HL1). pose proof (l1_qreq _ HL1).
    destruct (queue (sh st)) as [|[|q]]; auto; try lia. exfalso. apply H0; auto.
  - intro j. destruct (wk_owner (wpc (wk st j))) eqn:Eo; auto.
    destruct (postpop (wpc (wk st j))) eqn:Ep.
    + apply postpop_rl in Ep. pose proof (lock_ok_io_excl _ _ _ _ (l0_r _ HL0) Hio j). congruence.
    + exfalso. eapply (l1_ownreq _ HL1); eauto.
Qed.

(* ---- frame: a step that changes nothing L1 looks at *)
Lemma L1_frame : forall st st',
  requests (sh st') = requests (sh st) -> queue (sh st') = queue (sh st) ->
  connected (sh st') = connected (sh st) ->
  io_handing (io st') = io_handing (io st) -> is_atacq (ipc (io st')) = is_atacq (ipc (io st)) ->
  (forall j, wa1 (wpc (wk st' j)) = wa1 (wpc (wk st j))) ->
  L1 st -> L1 st'.
Proof.
  intros st st' Hr Hq Hc Hh Ha Hw [Hu Hq1 Hqo Hqr Hor Hcv Hc2 Hsc Hat Hhd].
  assert (Ho : forall j, wk_owner (wpc (wk st' j)) = wk_owner (wpc (wk st j))) by (intro j; specialize (Hw j); unfold wa1 in Hw; congruence).
  assert (Hp : forall j, postpop (wpc (wk st' j)) = postpop (wpc (wk st j))) by (intro j; specialize (Hw j); unfold wa1 in Hw; congruence).
  assert (H2 : forall j, is_c2 (wpc (wk st' j)) = is_c2 (wpc (wk st j))) by (intro j; specialize (Hw j); unfold wa1 in Hw; congruence).
  assert (H3 : forall j, is_sc (wpc (wk st' j)) = is_sc (wpc (wk st j))) by (intro j; specialize (Hw j); unfold wa1 in Hw; congruence).
  split; rewrite ?Hr, ?Hq, ?Hc, ?Hh, ?Ha; intros;
    repeat match goal with H : context [wk st' _] |- _ => rewrite ?Ho, ?Hp, ?H2, ?H3 in H end;
    rewrite ?Ho, ?Hp, ?H2, ?H3; eauto.
  all: try (apply Hcv; auto; intro j; rewrite <- Ho; auto).
  all: try (destruct (Hhd H H0) as [A B]; split; auto; intro j; rewrite Ho; auto).
Qed.

Lemma is_c2_rl : forall pc, is_c2 pc = true -> wk_rl pc = true.
Proof. destruct pc; simpl; congruence. Qed.
Lemma is_sc_rl : forall pc, is_sc pc = true -> wk_rl pc = true.
Proof. destruct pc; simpl; congruence. Qed.
Lemma handing_rl : forall i, io_handing i = true -> io_rl (ipc i) = true.
Proof. intros [pc ? ? ? ? ? ?]; unfold io_handing; simpl. destruct pc; try congruence; auto. Qed.
Lemma atacq_rl : forall pc, is_atacq pc = true -> io_rl pc = true.
Proof. destruct pc; simpl; try congruence. Qed.

Section Step.
Variable P : params.

Ltac l0_facts HL0 :=
  destruct HL0 as [[R1 R2] [O1 O2] [D1 D2]]; cbn [sh io wk] in *.

Ltac list_simp :=
  repeat match goal with
  | H : ?l ++ [_] = [] |- _ => exfalso; exact (app_one_nonnil _ _ _ H)
  | H : length (_ ++ [_]) = 1 |- _ => apply len1_app_one in H
  | |- _ ++ [_] <> [] => apply app_one_nonnil
  | H : context [length (_ ++ [_])] |- _ => rewrite len_app_one in H
  | |- context [length (_ ++ [_])] => rewrite len_app_one
  end.

Definition lockmark (j : nat) := True.

Ltac inst_locks :=
  repeat match goal with
  | H : context [wpc (?w ?j)] |- _ =>
      is_var j;
      lazymatch goal with
      | _ : lockmark j |- _ => fail
      | R2 : forall j : nat, rlock _ = Some (TW j) <-> _, O2 : forall j : nat, olock _ = Some (TW j) <-> _,
        D2 : forall j : nat, dlock _ = Some (TW j) <-> _ |- _ =>
          pose proof (R2 j); pose proof (O2 j); pose proof (D2 j); assert (lockmark j) by exact I
      end
  end.

Ltac rew_pcs :=
  repeat match goal with
  | H : wpc (?w ?j) = _ |- _ => rewrite H in *
  | E : requests _ = _ :: _ |- _ => rewrite E in *
  | E : requests _ = [] |- _ => rewrite E in *
  | E : queue _ = _ |- _ => rewrite E in *
  | E : connected _ = _ |- _ => rewrite E in *
  end.

Ltac slv := solve [ intuition (eauto; try discriminate; try congruence; try lia) ].

(* forward chaining: discharge premises that are immediate *)
Ltac fwd :=
  repeat match goal with
  | H : ?A -> _ |- _ =>
      match type of A with
      | Prop => let HA := fresh in
                assert (HA : A) by (first [ assumption | reflexivity | lia | discriminate | congruence ]);
                specialize (H HA); clear HA
      end
  end.

Ltac owner_contra :=
  repeat match goal with
  | H : ?x <> ?x |- _ => exfalso; apply H; reflexivity
  | Hx : forall j : nat, wk_owner (wpc (?w j)) = false, Hw : ?w ?me = _ |- _ =>
      let X := fresh in pose proof (Hx me) as X; rewrite Hw in X; discriminate X
  | Hx : forall j : nat, wk_owner (wpc (?w j)) = false, H : wk_owner (wpc (?w ?k)) = true |- _ =>
      rewrite (Hx k) in H; discriminate H
  | Hx : forall j : nat, j <> ?me -> wk_owner (wpc (?w j)) = false, H : wk_owner (wpc (?w ?k)) = true, N : ?k <> ?me |- _ =>
      rewrite (Hx k N) in H; discriminate H
  end.

Definition rlmark (b : bool) := True.

(* program-point facts: who must hold requests_lock *)
Ltac pc_facts :=
  repeat match goal with
  | H : is_c2 (wpc ?x) = true |- _ =>
      lazymatch goal with _ : wk_rl (wpc x) = true |- _ => fail | _ => pose proof (is_c2_rl _ H) end
  | H : is_sc (wpc ?x) = true |- _ =>
      lazymatch goal with _ : wk_rl (wpc x) = true |- _ => fail | _ => pose proof (is_sc_rl _ H) end
  | H : postpop (wpc ?x) = true |- _ =>
      lazymatch goal with _ : wk_rl (wpc x) = true |- _ => fail | _ => pose proof (postpop_rl _ H) end
  | H : io_handing ?i = true |- _ =>
      lazymatch goal with _ : io_rl (ipc i) = true |- _ => fail | _ => pose proof (handing_rl _ H) end
  | H : is_atacq ?pc = true |- _ =>
      lazymatch goal with _ : io_rl pc = true |- _ => fail | _ => pose proof (atacq_rl _ H) end
  end.

Ltac iff_fwd :=
  repeat match goal with
  | H : ?A <-> ?B |- _ =>
      first [ let HB := fresh in assert (HB : B) by (first [assumption | reflexivity]); apply (proj2 H) in HB; clear H
            | let HA := fresh in assert (HA : A) by (first [assumption | reflexivity]); apply (proj1 H) in HA; clear H
            | match B with
              | false = true => let HN := fresh in assert (HN : ~ A) by (let X := fresh in intro X; apply (proj1 H) in X; discriminate X); clear H
              end ]
  end.

Ltac fin0 :=
  bool_hyps; cbn in *; list_simp;
  try solve [ eauto ];
  try slv.

Ltac uniq_goal :=
  try match goal with
  | |- wk_owner (wpc (?w ?j)) = false => destruct (wk_owner (wpc (w j))) eqn:?; [exfalso|reflexivity]
  end;
  try match goal with
  | Hu : forall k, true = true -> wk_owner (wpc (?w k)) = true -> ?me = k,
    X : wk_owner (wpc (?w ?j)) = true, N : ?j <> ?me |- _ =>
      exfalso; apply N; symmetry; apply Hu; [reflexivity|exact X]
  end.

Ltac fin1 :=
  pc_facts; inst_locks; rew_pcs; cbn in *; iff_fwd; fwd; owner_contra; list_simp;
  try solve [ eauto ];
  try slv;
  uniq_goal.

Ltac fin :=
  fin0;
  try solve [ fin1 ];
  match goal with
  | s : shared |- _ =>
      destruct (queue s) as [|[|?]] eqn:?; try solve [ fin1 ];
      destruct (requests s) as [|? [|? ?]] eqn:?; fin1
  end.

Lemma upd_forall_elim : forall (Q : wkst -> Prop) w me x,
  (forall j, Q (upd w me x j)) -> Q x /\ forall j, j <> me -> Q (w j).
Proof.
  intros Q w me x H. split.
  - specialize (H me). rewrite upd_same in H. exact H.
  - intros j Hj. specialize (H j). rewrite upd_other in H; auto.
Qed.

Ltac upd_hyps :=
  repeat match goal with
  | H : forall j : nat, _ (wpc (upd _ _ _ j)) = _ |- _ =>
      apply (upd_forall_elim (fun y => wk_owner (wpc y) = false)) in H; destruct H
  end.

Ltac upd_goal me :=
  unfold upd in *;
  repeat match goal with
  | |- context [Nat.eqb ?j me] => destruct (Nat.eqb_spec j me); [subst j|]
  | H : context [Nat.eqb ?j me] |- _ => destruct (Nat.eqb_spec j me); [subst j|]
  end.

(* try the frame lemma: all side conditions by computation *)
Ltac frame_io HL1 :=
  apply (L1_frame _ _) with (7 := HL1); cbn; try reflexivity; intro; reflexivity.
Ltac frame_wk HL1 me Hw :=
  apply (L1_frame _ _) with (7 := HL1); cbn; try reflexivity;
  let j := fresh "j" in intro j; unfold upd; destruct (Nat.eqb_spec j me); [subst j; rewrite Hw|]; reflexivity.

Theorem L1_step : forall st c st' l, L0 st -> L1 st -> step P st c = Some (st', l) -> L1 st'.
Proof.
  intros st c st' l HL0 HL1 Hs.
  pose proof (io_rl_empty_no_owner st HL0 HL1) as Hemp.
  destruct c as [e | me e].
  - step_io Hs; cbn [sh io wk ipc] in *.
    all: try (frame_io HL1).
    all: destruct HL1 as [Hu Hq Hqo Hqr Hor Hcv Hc2 Hsc Hat Hh]; l0_facts HL0; cbn [sh io wk ipc] in *.
    all: split; cbn [sh io wk ipc io_handing is_atacq]; intros.
    all: fin.
  - step_wk Hs; cbn [sh io wk ipc] in *.
    all: try (frame_wk HL1 me Hw).
    all: destruct HL1 as [Hu Hq Hqo Hqr Hor Hcv Hc2 Hsc Hat Hh].
    all: pose proof (Hu me) as Hu_me; pose proof (fun k => Hu k me) as Hu_me';
         pose proof (Hor me) as Hor_me; pose proof (Hc2 me) as Hc2_me; pose proof (Hsc me) as Hsc_me.
    all: destruct HL0 as [[R1 R2] [O1 O2] [D1 D2]].
    all: pose proof (R2 me) as R2m; pose proof (O2 me) as O2m; pose proof (D2 me) as D2m.
    all: cbn [sh io wk ipc] in *; rewrite Hw in *; cbn [wpc] in *.
    all: split; cbn [sh io wk ipc io_handing is_atacq]; intros.
    all: upd_hyps; upd_goal me.
    all: fin.
Qed.
End Step.
