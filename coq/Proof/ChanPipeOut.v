(* Proof/ChanPipeOut.v -- layer L3: the output buffers and the wire (for the code as it is:
   p_unlocked = false, every flush runs under outbuf_lock).
   Transport: wire ++ pending = produced with the segment discarded by handle_close cut out
              (nothing duplicated, lost, reordered between the buffers and the wire)
   Production: produced = the units in order; the response units are the executed requests in
   order; every response unit but the one being written is complete. *)
From Coq Require Import List Arith Bool ZArith Lia.
From WV Require Import Model.ChanPipe Proof.ChanPipeBase Proof.ChanPipeOwn Proof.ChanPipeLog.
Import ListNotations.

(* ------------------------------------------------------------ list facts *)

Lemma concat_hd : forall (A : Type) (l : list (list A)), l <> [] -> concat l = hd [] l ++ concat (tl l).
Proof. destruct l; simpl; intros; congruence. Qed.

Lemma skipn_app_le : forall (A : Type) n (a b : list A), n <= length a -> skipn n (a ++ b) = skipn n a ++ b.
Proof.
  intros A n a b H. rewrite skipn_app. replace (n - length a) with 0 by lia. reflexivity.
Qed.

Lemma firstn_skipn_app : forall (A : Type) n (a b : list A), n <= length a ->
  firstn n a ++ skipn n (a ++ b) = a ++ b.
Proof. intros. rewrite skipn_app_le by auto. rewrite app_assoc, firstn_skipn. reflexivity. Qed.

Lemma concat_set_hd : forall (l : list (list tok)) x, l <> [] -> concat (set_hd l x) = x ++ concat (tl l).
Proof. destruct l; simpl; intros; congruence. Qed.

Lemma app_last_cons2 : forall (b b' : list tok) r x, app_last (b :: b' :: r) x = b :: app_last (b' :: r) x.
Proof. reflexivity. Qed.

Lemma concat_app_last : forall (l : list (list tok)) x, concat (app_last l x) = concat l ++ x.
Proof.
  induction l as [|b r IH]; intro x.
  - simpl. rewrite app_nil_r. reflexivity.
  - destruct r as [|b' r'].
    + simpl. rewrite !app_nil_r. reflexivity.
    + rewrite app_last_cons2. cbn [concat]. rewrite IH. cbn [concat]. rewrite <- !app_assoc. reflexivity.
Qed.

Lemma app_last_nonnil : forall (l : list (list tok)) x, app_last l x <> [].
Proof. destruct l as [|b [|b' r]]; simpl; intros; discriminate. Qed.

Lemma concat_snoc_nil : forall (l : list (list tok)), concat (l ++ [[]]) = concat l.
Proof. intro l. rewrite concat_app. simpl. rewrite app_nil_r. reflexivity. Qed.

Lemma concat_map_nil : forall (l : list (list tok)), concat (map (fun _ => @nil tok) l) = [].
Proof. induction l; simpl; auto. Qed.

Lemma length_zero_nil : forall (A : Type) (l : list A), length l = 0 -> l = [].
Proof. destruct l; simpl; intros; auto; discriminate. Qed.

Lemma resp_toks_app : forall id a b, resp_toks id 0 (a + b) = resp_toks id 0 a ++ resp_toks id a b.
Proof. intros. unfold resp_toks. rewrite seq_app, map_app. reflexivity. Qed.

Lemma bump_last : forall id m us n, bump id m (us ++ [UResp id n]) = us ++ [UResp id (n + m)].
Proof.
  induction us as [|u r IH]; intro n; simpl.
  - rewrite Nat.eqb_refl. reflexivity.
  - destruct (r ++ [UResp id n]) eqn:E.
    + destruct r; discriminate.
    + rewrite <- E. rewrite IH. destruct u; reflexivity.
Qed.

Lemma resp_ids_app : forall a b, resp_ids (a ++ b) = resp_ids a ++ resp_ids b.
Proof. intros. unfold resp_ids. rewrite flat_map_app. reflexivity. Qed.

(* ------------------------------------------------------------ the flush *)

Definition FlInv (s : shared) (f : flst) : Prop :=
  match fpc f with
  | FlLoad => infl s = 0
  | FlGet => infl s = 0 /\ f_olen f = length (hd [] (obs s))
  | FlSend => infl s = 0 /\ f_olen f = length (hd [] (obs s)) /\ f_chunk f = hd [] (obs s)
  | FlSkip => infl s = f_n f /\ f_olen f = length (hd [] (obs s)) /\ f_n f <= length (hd [] (obs s))
  | FlTotR | FlTotW => infl s = 0 /\ f_olen f = length (hd [] (obs s))
  | FlLen => infl s = 0 /\ hd [] (obs s) = []
  | FlPop => infl s = 0 /\ hd [] (obs s) = [] /\ 1 < length (obs s)
  end.

(* what the client has received plus what is pending *)
Definition tr_l (s : shared) : list tok := wire s ++ skipn (infl s) (concat (obs s)).

Definition transport (s : shared) : Prop :=
  tr_l s = kept s /\
  discarded s = firstn (length (discarded s)) (skipn (cut s) (produced s)).

(* the fields a flush step does not touch *)
Definition same_rest (s s' : shared) : Prop :=
  produced s' = produced s /\ discarded s' = discarded s /\ units s' = units s /\ execs s' = execs s /\
  requests s' = requests s /\ connected s' = connected s /\ cut s' = cut s.

Lemma FlInv_fl0 : forall s, infl s = 0 -> FlInv s fl0.
Proof. intros. unfold FlInv. simpl. auto. Qed.

Section Fl.
Variable P : params.

Lemma fl_step_ok : forall s f e s' r l,
  fl_step s f e = Some (s', r, l) ->
  obs s <> [] -> FlInv s f ->
  obs s' <> [] /\ tr_l s' = tr_l s /\ same_rest s s' /\
  match r with FCont f' => FlInv s' f' | FDone _ => infl s' = 0 | FExc => False end.
Proof.
  intros s f e s' r l Hs Hne HI. unfold fl_step in Hs. unfold FlInv in HI. unfold tr_l in *.
  destruct f as [pc olen chunk n tmp sent]. cbn [fpc f_olen f_chunk f_n f_tmp f_sent] in *.
  destruct pc.
  - (* FlLoad *)
    destruct (obs s) as [|b rest] eqn:Eo; [congruence|].
    inv_some Hs. repeat split; auto; try congruence.
    destruct (Nat.ltb 0 (length b)) eqn:El; unfold FlInv; cbn [fpc f_olen f_chunk f_n]; rewrite ?Eo; cbn [hd]; split; auto.
    apply Nat.ltb_ge in El. apply length_zero_nil. lia.
  - (* FlGet *)
    inv_some Hs. destruct HI as [Hi Ho]. repeat split; auto.
  - (* FlSend *)
    destruct e; try discriminate.
    destruct ((n0 <=? len) && (len <=? length chunk) && ((0 <? len) || (length chunk =? 0)))%bool eqn:Ec; [|discriminate].
    destruct HI as [Hi [Ho Hc]]. subst chunk.
    apply andb_true_iff in Ec. destruct Ec as [Ec _]. apply andb_true_iff in Ec. destruct Ec as [E1 E2].
    apply Nat.leb_le in E1. apply Nat.leb_le in E2.
    assert (Hw : (wire s ++ firstn n0 (hd [] (obs s))) ++ skipn (infl s + n0) (concat (obs s)) =
                 wire s ++ skipn (infl s) (concat (obs s))).
    { rewrite Hi in *. cbn [Nat.add skipn].
      rewrite (concat_hd _ (obs s) Hne). rewrite <- app_assoc. f_equal.
      rewrite firstn_skipn_app by lia. reflexivity. }
    destruct (Nat.eqb n0 0) eqn:E0; inv_some Hs; cbn.
    + apply Nat.eqb_eq in E0. subst n0. repeat split; auto. lia.
    + repeat split; auto. unfold FlInv; cbn. repeat split; auto; try lia. eapply Nat.le_trans; eauto.
  - (* FlSkip *)
    destruct HI as [Hi [Ho Hn]].
    destruct (Nat.ltb (length (hd [] (obs s))) n) eqn:El.
    + apply Nat.ltb_lt in El. lia.
    + injection Hs as Hs1 Hs2 Hs3; subst s' r l. cbn. rewrite Hi. replace (n - n) with 0 by lia.
      assert (Hc : concat (set_hd (obs s) (skipn n (hd [] (obs s)))) = skipn n (concat (obs s))).
      { rewrite concat_set_hd by auto. rewrite (concat_hd _ (obs s) Hne). rewrite skipn_app_le by auto. reflexivity. }
      assert (Hl : length (hd [] (set_hd (obs s) (skipn n (hd [] (obs s))))) = olen - n).
      { destruct (obs s) as [|b rest]; [congruence|]. cbn in *. rewrite skipn_length. lia. }
      assert (Hne' : set_hd (obs s) (skipn n (hd [] (obs s))) <> []) by (destruct (obs s); simpl; discriminate).
      assert (HT' : wire s ++ concat (set_hd (obs s) (skipn n (hd [] (obs s)))) = wire s ++ skipn n (concat (obs s))).
      { rewrite Hc. reflexivity. }
      unfold FlInv; cbn. repeat split; auto.
  - (* FlTotR *)
    inv_some Hs. destruct HI as [Hi Ho]. repeat split; auto.
  - (* FlTotW *)
    inv_some Hs. destruct HI as [Hi Ho]. cbn. repeat split; auto.
    destruct olen as [|olen']; unfold FlInv, fl_set; cbn; split; auto.
    apply length_zero_nil. auto.
  - (* FlLen *)
    destruct HI as [Hi Hh].
    destruct (Nat.ltb 1 (length (obs s))) eqn:El; inv_some Hs; repeat split; auto.
    unfold FlInv, fl_set; cbn. apply Nat.ltb_lt in El. auto.
  - (* FlPop *)
    destruct HI as [Hi [Hh Hl]].
    destruct (obs s) as [|b rest] eqn:Eo; [congruence|].
    inv_some Hs. cbn in *. subst b. unfold FlInv, fl_set; cbn.
    assert (rest <> []) by (destruct rest; simpl in *; [lia|discriminate]).
    repeat split; auto.
Qed.
End Fl.

(* ------------------------------------------------------------ L3 *)

Definition io_fl (pc : iopc) : option flst :=
  match pc with IoHwFlU f | IoHwFlL f | IoRcSc (ScFl f) => Some f | _ => None end.
Definition wk_fl (pc : wkpc) : option flst :=
  match pc with WWsFl f | WKbSc (ScFl f) => Some f | _ => None end.
Definition io_unl (pc : iopc) : bool := match pc with IoHwFlU _ => true | _ => false end.
Definition is_iosc (pc : iopc) : bool := match pc with IoRcSc _ => true | _ => false end.
Definition is_relx (pc : wkpc) : bool := match pc with WWsRelX => true | _ => false end.
(* about to append to the output buffers *)
Definition app_pc (pc : wkpc) : bool := match pc with WWsRot | WWsApp => true | _ => false end.
(* handle_close has emptied the buffers / has released outbuf_lock again *)
Definition io_closed (pc : iopc) : bool :=
  match pc with
  | IoHc h _ => match h with HcAcq | HcBufs => false | _ => true end
  | IoHrWConn | IoDead => true
  | _ => false
  end.
Definition io_after_close (pc : iopc) : bool :=
  match pc with
  | IoHc h _ => match h with HcNotify | HcRel | HcConn2 => true | _ => false end
  | IoHrWConn | IoDead => true
  | _ => false
  end.

(* inside task.service(): between the application call and the return of the last write_soon *)
Definition in_task (pc : wkpc) : bool :=
  match pc with
  | WWsConn | WWsAcq | WWsHw | WWsConn2 | WWsRelX | WWsRot | WWsApp | WWsTotR | WWsTotW _
  | WWsChk | WWsFl _ | WWsExcW | WWsChk2 | WWsTrig | WWsRel => true
  | _ => false
  end.
(* ... and the data of the current write_soon call is in the buffer already *)
Definition appended (pc : wkpc) : bool :=
  match pc with
  | WWsTotR | WWsTotW _ | WWsChk | WWsFl _ | WWsExcW | WWsChk2 | WWsTrig | WWsRel => true
  | _ => false
  end.

Section L3.
Variable P : params.

Definition writes (w : wkst) : list nat := r_writes (desc P (w_cur w)).
Definition off_now (w : wkst) : nat := if appended (wpc w) then w_off w + wsize P w else w_off w.
Definition complete (u : unit_) : Prop := match u with UResp id n => n = resp_len P id | UCont _ => True end.

Record L3' (st : state) : Prop := {
  o_ne : obs (sh st) <> [];
  o_unl : io_unl (ipc (io st)) = false;
  o_iosc : is_iosc (ipc (io st)) = true -> requests (sh st) = [];
  o_fio : forall f, io_fl (ipc (io st)) = Some f -> FlInv (sh st) f;
  o_fwk : forall j f, wk_fl (wpc (wk st j)) = Some f -> FlInv (sh st) f;
  o_infl : io_fl (ipc (io st)) = None -> (forall j, wk_fl (wpc (wk st j)) = None) -> infl (sh st) = 0;
  o_wire : transport (sh st);
  o_cut : cut (sh st) + length (discarded (sh st)) <= length (produced (sh st));
  o_prod : produced (sh st) = flat_map (utoks P) (units (sh st));
  o_ids : resp_ids (units (sh st)) = execs (sh st);
  o_task : forall j, in_task (wpc (wk st j)) = true ->
           w_idx (wk st j) < length (writes (wk st j)) /\
           w_off (wk st j) = list_sum (firstn (w_idx (wk st j)) (writes (wk st j))) /\
           exists us, units (sh st) = us ++ [UResp (w_cur (wk st j)) (off_now (wk st j))] /\
                      (connected (sh st) = true -> Forall complete us);
  o_done : (forall j, in_task (wpc (wk st j)) = false) -> connected (sh st) = true -> Forall complete (units (sh st));
  o_relx : forall j, is_relx (wpc (wk st j)) = true -> connected (sh st) = false;
  o_disc : discarded (sh st) <> [] -> io_closed (ipc (io st)) = true
}.

Lemma L3_init : L3' init.
Proof.
  split; simpl; intros; try discriminate; auto; try congruence.
  all: try (unfold transport, tr_l, kept; simpl; auto).
Qed.
End L3.
