(* C02 at the channel level: HTTPChannel.received (sequential model) produces the
   same events -- "100 Continue sent", "request completed with this observation" --
   up to and including the first refused request, however the byte stream is
   divided into reads.  Proof: (1) the loop on b :: s is, up to the cut, the loop
   on [b] followed by the loop on s (from the parser-level split lemma);
   (2) states that differ only in dead carry fields behave alike; (3) hence every
   read is equivalent to its byte-wise delivery, and so is every list of reads. *)
From Coq Require Import List NArith ZArith Bool Lia Arith.
From RecordUpdate Require Import RecordUpdate.
From WV Require Import Lib.PyBytes Lib.Regex Gen.GenRegex Model.Receiver Model.UrlSplit Model.Parser Model.ChanSeq
  Proof.PyBytesFacts Proof.ReceiverTotal Proof.ReceiverSplit Proof.ParserTotal Proof.ParserTotalChan
  Proof.ParserTotalLimits Proof.SplitParser.
Import ListNotations.
Local Open Scope N_scope.

(* ------------------------------------------------------------------ *)
(* the observable events of the I/O side *)
Inductive event :=
| EvContinue                 (* b"HTTP/1.1 100 Continue\r\n\r\n" appended to the output *)
| EvDone (o : parser).       (* a request completed (queued unless empty); o = its observation *)

Definition send_cond (c : chan) (r1 : parser) : bool :=
  expect_continue r1 && headers_finished r1
  && (match requests c with [] => true | _ => false end) && negb (sent_continue c).

Definition post_ev (ab : bool) (c : chan) (r1 : parser) : list event :=
  (if send_cond c r1 then [EvContinue] else []) ++
  (if completed r1
   then [EvDone (obs ab (if send_cond c r1 then r1 <| expect_continue := false |> else r1))]
   else []).

Fixpoint loop_tr (ab : bool) (fuel : nat) (a : adj) (c : chan) (data : bytes) : chan_res * list event :=
  match fuel with
  | O => (COutOfFuel, [])
  | S f =>
    let r0 := match request c with Some r => r | None => parser_init end in
    match Parser.received a r0 data with
    | REscapes => (CEscapes, [])
    | ROutOfFuel => (COutOfFuel, [])
    | RUnmodelled => (CUnmodelled, [])
    | ROk r1 n =>
      if (Z.of_nat (length data) <=? n)%Z then (COk (post c r1), post_ev ab c r1)
      else let '(res, t) := loop_tr ab f a (post c r1) (skipn (Z.to_nat n) data) in
           (res, post_ev ab c r1 ++ t)
    end
  end.

(* the trace-producing loop computes the model's loop *)
Lemma loop_tr_fst ab fuel : forall a c data, fst (loop_tr ab fuel a c data) = received_loop fuel a c data.
Proof.
  induction fuel as [|f IH]; intros a c data; [reflexivity|].
  rewrite received_loop_eq. cbn [loop_tr]. cbv zeta.
  destruct (received a _ data) as [r1 n| | |]; try reflexivity.
  destruct (_ <=? _)%Z; [reflexivity|].
  specialize (IH a (post c r1) (skipn (Z.to_nat n) data)).
  destruct (loop_tr ab f a (post c r1) (skipn (Z.to_nat n) data)). exact IH.
Qed.

(* HTTPChannel.received with its events *)
Definition chan_tr (ab : bool) (a : adj) (c : chan) (data : bytes) : chan_res * list event :=
  match data with
  | [] => (COk c, [])
  | _ => if will_close c || close_when_flushed c then (COk c, [])
         else loop_tr ab (S (length data)) a c data
  end.

Lemma chan_tr_fst ab a c data : fst (chan_tr ab a c data) = chan_received a c data.
Proof.
  unfold chan_tr, chan_received. destruct data; [reflexivity|].
  destruct (_ || _); [reflexivity|]. apply loop_tr_fst.
Qed.

Definition bind (x : chan_res * list event) (k : chan -> chan_res * list event) : chan_res * list event :=
  match x with
  | (COk c1, t1) => let '(r2, t2) := k c1 in (r2, t1 ++ t2)
  | other => other
  end.

Fixpoint feed_tr (ab : bool) (a : adj) (c : chan) (reads : list bytes) : chan_res * list event :=
  match reads with
  | [] => (COk c, [])
  | d :: rest => bind (chan_tr ab a c d) (fun c1 => feed_tr ab a c1 rest)
  end.

Lemma feed_tr_fst ab a : forall reads c, fst (feed_tr ab a c reads) = feed a c reads.
Proof.
  induction reads as [|d rest IH]; intros c; [reflexivity|].
  cbn [feed_tr feed]. rewrite <- (chan_tr_fst ab).
  destruct (chan_tr ab a c d) as [[c1| | |] t1]; cbn [bind fst]; try reflexivity.
  specialize (IH c1). destruct (feed_tr ab a c1 rest). exact IH.
Qed.

(* ------------------------------------------------------------------ *)
(* cutting the trace after the first refused request *)
Definition poison (e : event) : bool :=
  match e with
  | EvDone o => match error o with Some _ => true | None => false end
  | EvContinue => false
  end.

Fixpoint cut (t : list event) : list event :=
  match t with
  | [] => []
  | e :: t' => if poison e then [e] else e :: cut t'
  end.

Definition clean (t : list event) : bool := forallb (fun e => negb (poison e)) t.

Lemma cut_app t1 t2 : cut (t1 ++ t2) = if clean t1 then t1 ++ cut t2 else cut t1.
Proof.
  induction t1 as [|e t1 IH]; [reflexivity|]. cbn [app cut clean forallb].
  destruct (poison e); cbn [negb andb]; [reflexivity|]. fold (clean t1). rewrite IH.
  destruct (clean t1); reflexivity.
Qed.

Lemma clean_app t1 t2 : clean (t1 ++ t2) = clean t1 && clean t2.
Proof. unfold clean. apply forallb_app. Qed.

Lemma cut_clean t : clean t = true -> cut t = t.
Proof.
  induction t as [|e t IH]; [reflexivity|]. cbn [clean forallb cut].
  destruct (poison e); cbn [negb andb]; [discriminate|]. intros H. now rewrite IH.
Qed.

Lemma clean_cut t : clean (cut t) = clean t.
Proof.
  induction t as [|e t IH]; [reflexivity|]. cbn [cut]. destruct (poison e) eqn:P.
  - cbn [clean forallb]. rewrite P. reflexivity.
  - cbn [clean forallb]. rewrite P. cbn [negb andb]. exact IH.
Qed.

Lemma cut_eq_clean t t' : cut t = cut t' -> clean t' = true -> t = t'.
Proof.
  intros H C. assert (C2 : clean t = true) by (rewrite <- clean_cut, H, clean_cut; exact C).
  rewrite <- (cut_clean t C2), <- (cut_clean t' C). exact H.
Qed.

(* ------------------------------------------------------------------ *)
(* the channel invariant *)
Definition cur (c : chan) : parser := match request c with Some r => r | None => parser_init end.

Definition ichan (c : chan) : Prop :=
  match request c with
  | None => sent_continue c = false
  | Some r => (headers_finished r = false -> sent_continue c = false) /\
              (headers_finished r = true -> expect_continue r = true -> requests c <> [])
  end.

Definition inv (a : adj) (c : chan) : Prop :=
  wf_chan a c /\ ichan c /\ will_close c = false /\ close_when_flushed c = false.

Lemma inv_init a : inv a chan_init.
Proof. repeat split. Qed.

Lemma wf_cur a c : wf_chan a c -> wf_p a (cur c).
Proof. unfold wf_chan, cur. destruct (request c); [auto | intros _; apply wf_p_init]. Qed.

Lemma wf_hf a p : wf_p a p -> (body p = None <-> headers_finished p = false).
Proof.
  intros (_ & _ & Wb & _). unfold wf_body in Wb. destruct (body p) as [[f|c]|].
  - destruct Wb as (H & _). split; [discriminate | congruence].
  - destruct Wb as (H & _). split; [discriminate | congruence].
  - destruct Wb as (hp & -> & _). split; reflexivity.
Qed.

Lemma body_fin_keeps a p br' n e d q m : body_fin a p br' n e d = ROk q m ->
  headers_finished q = headers_finished p /\ expect_continue q = expect_continue p.
Proof.
  unfold body_fin. cbv zeta. destruct (_ <=? _)%Z; [intros H; injection H as <- <-; split; reflexivity|].
  destruct e; [intros H; injection H as <- <-; split; reflexivity|].
  destruct d; [|intros H; injection H as <- <-; split; reflexivity].
  psimpl. destruct (chunked p); intros H; injection H as <- <-; split; reflexivity.
Qed.

Lemma received_body_keeps a p br d q m : completed p = false -> body p = Some br ->
  received a p d = ROk q m ->
  headers_finished q = headers_finished p /\ expect_continue q = expect_continue p.
Proof.
  intros Hc Hb. rewrite (received_body_eq a p br d Hc Hb). destruct br as [f|c].
  - destruct (fixed_received f d). apply body_fin_keeps.
  - destruct (chunked_received c d) as [[c' n]|]; [apply body_fin_keeps | discriminate].
Qed.

(* post, in a form convenient for reasoning *)
Definition post' (c : chan) (r1 : parser) : chan :=
  let sc := send_cond c r1 in
  let r2 := if sc then r1 <| expect_continue := false |> else r1 in
  let c1 := if sc then c <| outlog := outlog c ++ continue_bytes |> <| sent_continue := true |> else c in
  if completed r1 then
    let c2 := c1 <| sent_continue := false |> in
    let c3 := if negb (empty r1)
              then (let c4 := c2 <| requests := requests c ++ [r2] |> in
                    if (length (requests c ++ [r2]) =? 1)%nat
                    then c4 <| add_task_calls := S (add_task_calls c) |> else c4)
              else c2 in
    c3 <| request := None |>
  else c1 <| request := Some r2 |>.

Lemma post_eq c r1 : post c r1 = post' c r1.
Proof.
  unfold post, post', send_cond, send_continue. csimpl.
  destruct (expect_continue r1 && headers_finished r1 && _ && _); cbv beta iota zeta; psimpl; csimpl;
    destruct (completed r1); [destruct (negb (empty r1)); [destruct (_ =? _)%nat|]| |
                              destruct (negb (empty r1)); [destruct (_ =? _)%nat|]|]; reflexivity.
Qed.

Lemma post_request c x r : post (c <| request := x |>) r = post c r.
Proof. reflexivity. Qed.

Lemma post_flags c r : will_close (post c r) = will_close c /\ close_when_flushed (post c r) = close_when_flushed c.
Proof.
  rewrite post_eq. unfold post'. cbv zeta.
  destruct (send_cond c r); destruct (completed r); [destruct (negb (empty r)); [destruct (_ =? _)%nat|]| |
                              destruct (negb (empty r)); [destruct (_ =? _)%nat|]|]; split; reflexivity.
Qed.

Lemma post_inv a c d r1 n : inv a c -> received a (cur c) d = ROk r1 n ->
  (completed r1 = true \/ wf_p a r1) -> inv a (post c r1).
Proof.
  intros (W & I & F1 & F2) E Hr.
  split; [apply post_wf; exact Hr|]. split; [|destruct (post_flags c r1) as (-> & ->); auto].
  pose proof (wf_cur a c W) as W0.
  assert (K : headers_finished (cur c) = true ->
              headers_finished r1 = true /\ expect_continue r1 = expect_continue (cur c)).
  { intros Hhf. destruct (body (cur c)) as [br|] eqn:Hb.
    - destruct W0 as (Wc & _). destruct (received_body_keeps a (cur c) br d r1 n Wc Hb E) as (K1 & K2).
      split; congruence.
    - apply (wf_hf a _ W0) in Hb. congruence. }
  rewrite post_eq. unfold post'. cbv zeta.
  destruct (completed r1) eqn:Hc1.
  { unfold ichan. destruct (send_cond c r1); destruct (negb (empty r1)); try destruct (_ =? _)%nat; reflexivity. }
  destruct (send_cond c r1) eqn:Hs.
  - unfold ichan. csimpl. psimpl.
    unfold send_cond in Hs. apply andb_true_iff in Hs as [Hs _]. apply andb_true_iff in Hs as [Hs _].
    apply andb_true_iff in Hs as [_ Hhf]. split; [congruence | discriminate].
  - unfold ichan, cur in *. csimpl.
    split.
    + intros Hhf1. destruct (request c) as [r0|]; [|exact I].
      destruct I as (I1 & I2). destruct (headers_finished r0) eqn:Hhf0; [|auto].
      destruct (K eq_refl) as (K1 & _). congruence.
    + intros Hhf1 He1 Hreq. unfold send_cond in Hs. rewrite He1, Hhf1, Hreq in Hs. cbn in Hs.
      apply negb_false_iff in Hs.
      destruct (request c) as [r0|]; [|congruence].
      destruct I as (I1 & I2). destruct (headers_finished r0) eqn:Hhf0; [|rewrite I1 in Hs; auto; discriminate].
      destruct (K eq_refl) as (_ & K2). apply I2; auto. congruence.
Qed.

(* ------------------------------------------------------------------ *)
(* fuel does not matter once it exceeds the length of the data *)
Lemma loop_tr_fuel ab a f1 : forall f2 c data, inv a c -> data <> [] ->
  (length data < f1)%nat -> (length data < f2)%nat ->
  loop_tr ab f1 a c data = loop_tr ab f2 a c data.
Proof.
  induction f1 as [|f1 IH]; intros f2 c data I Hd L1 L2; [lia|].
  destruct f2 as [|f2]; [lia|]. cbn [loop_tr]. fold (cur c).
  destruct I as (W & I).
  destruct (received_total a (cur c) data (wf_cur a c W) Hd) as [E|(r1 & n & E & Bn & Hr)]; rewrite E; [reflexivity|].
  destruct (Z.of_nat (length data) <=? n)%Z eqn:Hn; [reflexivity|]. apply Z.leb_gt in Hn.
  rewrite (IH f2 (post c r1) (skipn (Z.to_nat n) data)); [reflexivity| | | |].
  - eapply post_inv; eauto. split; auto.
  - intros E0. assert (L : length (skipn (Z.to_nat n) data) = 0%nat) by (rewrite E0; reflexivity).
    rewrite skipn_length in L. lia.
  - rewrite skipn_length. lia.
  - rewrite skipn_length. lia.
Qed.

Definition step (ab : bool) (a : adj) (c : chan) (data : bytes) : chan_res * list event :=
  loop_tr ab (S (length data)) a c data.

Definition step_body (ab : bool) (a : adj) (c : chan) (data : bytes) : chan_res * list event :=
    match Parser.received a (cur c) data with
    | REscapes => (CEscapes, [])
    | ROutOfFuel => (COutOfFuel, [])
    | RUnmodelled => (CUnmodelled, [])
    | ROk r1 n =>
      if (Z.of_nat (length data) <=? n)%Z then (COk (post c r1), post_ev ab c r1)
      else let '(res, t) := step ab a (post c r1) (skipn (Z.to_nat n) data) in
           (res, post_ev ab c r1 ++ t)
    end.

Lemma step_unfold ab a c data : inv a c -> data <> [] -> step ab a c data = step_body ab a c data.
Proof.
  intros I Hd. unfold step, step_body. cbn [loop_tr]. fold (cur c).
  destruct I as (W & I).
  destruct (received_total a (cur c) data (wf_cur a c W) Hd) as [E|(r1 & n & E & Bn & Hr)]; rewrite E; [reflexivity|].
  destruct (Z.of_nat (length data) <=? n)%Z eqn:Hn; [reflexivity|]. apply Z.leb_gt in Hn.
  unfold step. rewrite (loop_tr_fuel ab a (length data) (S (length (skipn (Z.to_nat n) data)))); [reflexivity| | | |].
  - eapply post_inv; eauto. split; auto.
  - intros E0. assert (L : length (skipn (Z.to_nat n) data) = 0%nat) by (rewrite E0; reflexivity).
    rewrite skipn_length in L. lia.
  - rewrite skipn_length. lia.
  - lia.
Qed.

(* ------------------------------------------------------------------ *)
(* channel states that differ only in dead carry fields behave alike *)
Lemma peq_refl r : peq r r.
Proof. left; reflexivity. Qed.

Lemma peq_sym r r' : peq r r' -> peq r' r.
Proof.
  intros [->|(H & x & ->)]; [left; reflexivity|].
  right. split; [exact H|]. exists (header_plus r'). rewrite hp_set_hp_set. symmetry. apply hp_set_id.
Qed.

Lemma peq_trans r1 r2 r3 : peq r1 r2 -> peq r2 r3 -> peq r1 r3.
Proof.
  intros [->|(H & x & ->)] [->|(H' & y & ->)]; try (left; reflexivity).
  - right. split; eauto.
  - right. split; eauto.
  - right. split; [exact H'|]. exists x. reflexivity.
Qed.

Definition prel (ab : bool) (r r' : parser) : Prop :=
  obs ab r = obs ab r' /\ (completed r = false -> peq r r').

Lemma obs_fields ab r r' : obs ab r = obs ab r' ->
  completed r = completed r' /\ empty r = empty r' /\ expect_continue r = expect_continue r' /\
  headers_finished r = headers_finished r' /\ (error r = None <-> error r' = None).
Proof.
  intros H.
  pose proof (f_equal completed H) as H1. pose proof (f_equal empty H) as H2.
  pose proof (f_equal expect_continue H) as H3. pose proof (f_equal headers_finished H) as H4.
  pose proof (f_equal error H) as H5. cbn in H1, H2, H3, H4, H5.
  repeat split; auto; destruct ab; destruct (error r), (error r'); cbn in H5; congruence.
Qed.

Definition sim (c c' : chan) : Prop :=
  match request c, request c' with
  | None, None => True
  | Some r, Some r' => peq r r'
  | _, _ => False
  end /\
  length (requests c) = length (requests c') /\
  sent_continue c = sent_continue c' /\ will_close c = will_close c' /\
  close_when_flushed c = close_when_flushed c' /\ outlog c = outlog c' /\
  add_task_calls c = add_task_calls c'.

Lemma sim_refl c : sim c c.
Proof. unfold sim. destruct (request c); repeat split; auto. apply peq_refl. Qed.

Lemma sim_sym c c' : sim c c' -> sim c' c.
Proof.
  unfold sim. intros (H & H1 & H2 & H3 & H4 & H5 & H6).
  split; [|repeat split; congruence].
  destruct (request c), (request c'); auto. apply peq_sym; auto.
Qed.

Lemma sim_trans c1 c2 c3 : sim c1 c2 -> sim c2 c3 -> sim c1 c3.
Proof.
  unfold sim. intros (H & H1 & H2 & H3 & H4 & H5 & H6) (K & K1 & K2 & K3 & K4 & K5 & K6).
  split; [|repeat split; congruence].
  destruct (request c1), (request c2), (request c3); try tauto. eapply peq_trans; eauto.
Qed.

Definition relres (r r' : chan_res) : Prop :=
  match r, r' with
  | COk c, COk c' => sim c c'
  | CEscapes, CEscapes | COutOfFuel, COutOfFuel | CUnmodelled, CUnmodelled => True
  | _, _ => False
  end.

Lemma relres_refl r : relres r r.
Proof. destruct r; cbn; auto. apply sim_refl. Qed.

Lemma relres_sym r r' : relres r r' -> relres r' r.
Proof. destruct r, r'; cbn; auto. apply sim_sym. Qed.

Lemma relres_trans r1 r2 r3 : relres r1 r2 -> relres r2 r3 -> relres r1 r3.
Proof. destruct r1, r2, r3; cbn; try tauto. apply sim_trans. Qed.

Lemma send_cond_sim c c' r r' : sim c c' -> expect_continue r = expect_continue r' ->
  headers_finished r = headers_finished r' -> send_cond c r = send_cond c' r'.
Proof.
  intros (_ & L & S & _) E H. unfold send_cond. rewrite E, H, S.
  destruct (requests c), (requests c'); cbn in L; try discriminate; reflexivity.
Qed.

Lemma post_sim ab c c' r r' : sim c c' -> prel ab r r' ->
  sim (post c r) (post c' r') /\ post_ev ab c r = post_ev ab c' r'.
Proof.
  intros S (O & P). destruct (obs_fields ab r r' O) as (Hc & Hem & Hex & Hhf & _).
  pose proof (send_cond_sim c c' r r' S Hex Hhf) as Hs.
  pose proof S as (Sr & Sl & Ss & Sw & Sf & So & Sa).
  split.
  - rewrite !post_eq. unfold post'. cbv zeta. rewrite <- Hs, <- Hc, <- Hem.
    destruct (completed r) eqn:Hcr.
    + unfold sim. destruct (send_cond c r); destruct (negb (empty r)); csimpl;
        rewrite ?app_length, ?Sl, ?Sa; try (destruct (_ =? _)%nat); csimpl;
        repeat split; try congruence; rewrite ?app_length; cbn [length]; congruence.
    + specialize (P eq_refl). unfold sim. destruct (send_cond c r); csimpl.
      * split; [|repeat split; congruence].
        destruct P as [->|(H & x & ->)]; [apply peq_refl|]. right. split; [exact H | exists x; reflexivity].
      * split; [exact P | repeat split; congruence].
  - unfold post_ev. rewrite <- Hs, <- Hc. destruct (send_cond c r); destruct (completed r); try reflexivity.
    + f_equal. f_equal. f_equal.
      change (obs ab (r <| expect_continue := false |>)) with ((obs ab r) <| expect_continue := false |>).
      change (obs ab (r' <| expect_continue := false |>)) with ((obs ab r') <| expect_continue := false |>).
      now rewrite O.
    + cbn [app]. now rewrite O.
Qed.

Lemma body_fin_hp a x p br' n e d :
  body_fin a (hp_set x p) br' n e d = rmap (hp_set x) (body_fin a p br' n e d).
Proof.
  unfold body_fin. cbv zeta. unfold hp_set. psimpl.
  destruct (_ <=? _)%Z; [reflexivity|]. destruct e; [reflexivity|]. destruct d; [|reflexivity].
  destruct (chunked p); reflexivity.
Qed.

Lemma received_hp_body a x p br d : completed p = false -> body p = Some br ->
  received a (hp_set x p) d = rmap (hp_set x) (received a p d).
Proof.
  intros Hc Hb. rewrite (received_body_eq a (hp_set x p) br d Hc Hb), (received_body_eq a p br d Hc Hb).
  destruct br as [f|c].
  - destruct (fixed_received f d). apply body_fin_hp.
  - destruct (chunked_received c d) as [[c' n]|]; [apply body_fin_hp | reflexivity].
Qed.

(* one received() on parsers related by peq *)
Lemma received_peq ab a r r' d : wf_p a r' -> peq r r' ->
  match received a r d, received a r' d with
  | ROk q n, ROk q' n' => n = n' /\ prel ab q q'
  | REscapes, REscapes | ROutOfFuel, ROutOfFuel | RUnmodelled, RUnmodelled => True
  | _, _ => False
  end.
Proof.
  intros W [->|(Hhf & x & ->)].
  - destruct (received a r' d); auto. split; [reflexivity|]. split; [reflexivity | intros _; apply peq_refl].
  - destruct (body r') as [br|] eqn:Hb.
    + destruct W as (Wc & _). rewrite (received_hp_body a x r' br d Wc Hb).
      pose proof (received_body_keeps a r' br d) as K.
      destruct (received a r' d) as [q n| | |]; cbn [rmap]; auto.
      split; [reflexivity|]. split; [apply obs_hp_set|]. intros _. right.
      destruct (K q n Wc Hb eq_refl) as (K1 & _). split; [congruence | eexists; reflexivity].
    + apply (wf_hf a r' W) in Hb. congruence.
Qed.

Lemma sim_cur c c' : sim c c' -> peq (cur c) (cur c').
Proof.
  intros (H & _). unfold cur. destruct (request c), (request c'); try tauto. apply peq_refl.
Qed.

(* the loop from similar states on the same data: same events, similar results *)
Lemma step_sim ab a : forall m c c' data, (length data <= m)%nat -> inv a c -> inv a c' -> sim c c' ->
  data <> [] ->
  snd (step ab a c data) = snd (step ab a c' data) /\
  relres (fst (step ab a c data)) (fst (step ab a c' data)).
Proof.
  induction m as [|m IH]; intros c c' data L I I' S Hd.
  { destruct data; [congruence | simpl in L; lia]. }
  rewrite (step_unfold ab a c data I Hd), (step_unfold ab a c' data I' Hd). unfold step_body.
  pose proof I as (W & _). pose proof I' as (W' & _).
  pose proof (received_peq ab a (cur c) (cur c') data (wf_cur a c' W') (sim_cur c c' S)) as R.
  destruct (received_total a (cur c) data (wf_cur a c W) Hd) as [E|(r1 & n & E & Bn & Hr)];
  destruct (received_total a (cur c') data (wf_cur a c' W') Hd) as [E'|(r1' & n' & E' & Bn' & Hr')];
    rewrite E, E' in *; try contradiction; [cbn; auto|].
  destruct R as (<- & P).
  destruct (post_sim ab c c' r1 r1' S P) as (S1 & Ev).
  rewrite <- Ev.
  destruct (Z.of_nat (length data) <=? n)%Z eqn:Hn; [cbn [fst snd relres]; auto|].
  apply Z.leb_gt in Hn.
  assert (Hd2 : skipn (Z.to_nat n) data <> []).
  { intros E0. assert (L0 : length (skipn (Z.to_nat n) data) = 0%nat) by (rewrite E0; reflexivity).
    rewrite skipn_length in L0. lia. }
  destruct (IH (post c r1) (post c' r1') (skipn (Z.to_nat n) data)) as (T & Rr); auto.
  - rewrite skipn_length. lia.
  - eapply post_inv; eauto.
  - eapply post_inv; eauto.
  - destruct (step ab a (post c r1) _) as [res t]. destruct (step ab a (post c' r1') _) as [res' t'].
    cbn [fst snd] in *. subst t'. auto.
Qed.

(* ------------------------------------------------------------------ *)
(* runs compared up to the first refused request *)
Definition approx (x y : chan_res * list event) : Prop :=
  cut (snd x) = cut (snd y) /\ (clean (snd y) = true -> relres (fst x) (fst y)).

Lemma approx_refl x : approx x x.
Proof. split; [reflexivity | intros _; apply relres_refl]. Qed.

Lemma approx_trans x y z : approx x y -> approx y z -> approx x z.
Proof.
  intros (C1 & R1) (C2 & R2). split; [congruence|]. intros Cz.
  assert (Cy : clean (snd y) = true) by (rewrite <- clean_cut, C2, clean_cut; exact Cz).
  eapply relres_trans; eauto.
Qed.

Lemma approx_sym x y : approx x y -> approx y x.
Proof.
  intros (C1 & R1). split; [congruence|]. intros Cx. apply relres_sym. apply R1.
  rewrite <- clean_cut, <- C1, clean_cut. exact Cx.
Qed.

(* good: the state reached satisfies the invariant (or the run failed) *)
Definition good (a : adj) (x : chan_res * list event) : Prop :=
  match fst x with COk c => inv a c | _ => True end.

Lemma bind_approx a x x' k k' :
  approx x x' -> good a x -> good a x' ->
  (forall c1 c1', sim c1 c1' -> inv a c1 -> inv a c1' -> approx (k c1) (k' c1')) ->
  approx (bind x k) (bind x' k').
Proof.
  intros (C & R) G G' K. destruct x as [r t], x' as [r' t']. cbn [fst snd] in *.
  destruct (clean t') eqn:Ct'.
  - pose proof (cut_eq_clean t t' C Ct') as ->. specialize (R eq_refl).
    destruct r as [c1| | |], r' as [c1'| | |]; cbn [relres] in R; try contradiction;
      cbn [bind]; try (split; [reflexivity | intros _; exact I]).
    unfold good in G, G'. cbn [fst] in G, G'.
    destruct (K c1 c1' R G G') as (C2 & R2).
    destruct (k c1) as [r2 t2], (k' c1') as [r2' t2']. unfold approx. cbn [fst snd] in *.
    split.
    + rewrite !cut_app, Ct'. now rewrite C2.
    + rewrite clean_app, Ct'. cbn [andb]. exact R2.
  - assert (Ct : clean t = false) by (rewrite <- clean_cut, C, clean_cut; exact Ct').
    assert (X : forall r0 (t0 : list event) k0, cut (snd (bind (r0, t0) k0)) = cut t0 \/ clean t0 = true).
    { intros r0 t0 k0. destruct r0; cbn [bind snd]; auto.
      destruct (k0 c) as [r2 t2]. cbn [snd]. rewrite cut_app. destruct (clean t0); auto. }
    assert (Y : forall r0 (t0 : list event) k0, clean t0 = false -> clean (snd (bind (r0, t0) k0)) = false).
    { intros r0 t0 k0 H0. destruct r0; cbn [bind snd]; auto.
      destruct (k0 c) as [r2 t2]. cbn [snd]. rewrite clean_app, H0. reflexivity. }
    split.
    + destruct (X r t k) as [-> | ?]; [|congruence]. destruct (X r' t' k') as [-> | ?]; [|congruence]. exact C.
    + intros H. rewrite (Y r' t' k' Ct') in H. discriminate.
Qed.

Lemma post_ev_poison c r : completed r = true -> error r <> None -> clean (post_ev true c r) = false.
Proof.
  intros Hc He. unfold post_ev. rewrite Hc. rewrite clean_app.
  destruct (error r) as [e|] eqn:E; [|congruence].
  destruct (send_cond c r); cbn [clean forallb poison]; unfold obs; psimpl; rewrite E; reflexivity.
Qed.

Lemma cut_unclean ev t : clean ev = false -> cut (ev ++ t) = cut ev.
Proof. intros H. rewrite cut_app, H. reflexivity. Qed.

Lemma clean_unclean ev t : clean ev = false -> clean (ev ++ t) = false.
Proof. intros H. rewrite clean_app, H. reflexivity. Qed.

Lemma send_cond_request c x r : send_cond (c <| request := x |>) r = send_cond c r.
Proof. reflexivity. Qed.

Lemma post_ev_request ab c x r : post_ev ab (c <| request := x |>) r = post_ev ab c r.
Proof. reflexivity. Qed.

Lemma cur_request c r : cur (c <| request := Some r |>) = r.
Proof. reflexivity. Qed.

Lemma length_cons_le b (s : bytes) n : s <> [] -> (Z.of_nat (length (b :: s)) <=? 1 + n)%Z = (Z.of_nat (length s) <=? n)%Z.
Proof.
  intros _. cbn [length]. destruct (Z.of_nat (length s) <=? n)%Z eqn:E.
  - apply Z.leb_le in E. apply Z.leb_le. lia.
  - apply Z.leb_gt in E. apply Z.leb_gt. lia.
Qed.

Lemma unclean_if (cond : bool) ev (res1 : chan_res) (k : chan_res * list event) :
  clean ev = false ->
  cut (snd (if cond then (res1, ev) else let '(res, t) := k in (res, ev ++ t))) = cut ev /\
  clean (snd (if cond then (res1, ev) else let '(res, t) := k in (res, ev ++ t))) = false.
Proof.
  intros H. destruct cond; cbn [snd]; [auto|]. destruct k as [res t]. cbn [snd].
  split; [apply cut_unclean | apply clean_unclean]; exact H.
Qed.

Lemma bind_nil c1 k : bind (COk c1, []) k = k c1.
Proof. unfold bind. destruct (k c1). reflexivity. Qed.

(* HTTPChannel.received: one byte and then the rest versus everything at once *)
Lemma chan_one_byte a c b s : inv a c -> s <> [] ->
  approx (step true a c (b :: s)) (bind (step true a c [b]) (fun c1 => step true a c1 s)).
Proof.
  intros I Hs. pose proof I as (W & Ic & F1 & F2).
  rewrite (step_unfold true a c (b :: s) I ltac:(discriminate)).
  rewrite (step_unfold true a c [b] I ltac:(discriminate)). unfold step_body.
  assert (L1 : (Z.of_nat (length [b]) <=? 1)%Z = true) by reflexivity.
  assert (L2 : (Z.of_nat (length (b :: s)) <=? 1)%Z = false).
  { apply Z.leb_gt. destruct s; [congruence | cbn [length]; lia]. }
  destruct (parser_split a (cur c) b s (wf_cur a c W) Hs) as [U Uw | r1 E1 Ew | r1 E1 Hc1 W1 Q CR | r1 r1' n' E1 Hc1 He1 Ew Hc1' O].
  - rewrite U, Uw. apply approx_refl.
  - rewrite E1, Ew, L1, L2. cbn [bind]. change (Z.to_nat 1) with 1%nat. cbn [skipn]. apply approx_refl.
  - (* the byte does not end anything *)
    rewrite E1, L1.
    assert (Sc : send_cond c r1 = false).
    { unfold send_cond. destruct Q as [Q|(Q0 & Q1 & Q2)]; [rewrite Q, andb_false_r; reflexivity|].
      destruct (expect_continue r1) eqn:Ex; [|reflexivity]. rewrite Q1. cbn [andb].
      unfold ichan, cur in *. destruct (request c) as [r0|]; [|discriminate Q0].
      destruct Ic as (_ & I2). specialize (I2 Q0 ltac:(congruence)).
      destruct (requests c); [congruence | reflexivity]. }
    assert (Pc : post c r1 = c <| request := Some r1 |>).
    { rewrite post_eq. unfold post'. cbv zeta. rewrite Sc, Hc1. reflexivity. }
    assert (Pe : post_ev true c r1 = []).
    { unfold post_ev. rewrite Sc, Hc1. reflexivity. }
    rewrite Pe, Pc, bind_nil.
    assert (I1 : inv a (c <| request := Some r1 |>)).
    { rewrite <- Pc. eapply post_inv; eauto. }
    rewrite (step_unfold true a _ s I1 Hs). unfold step_body. rewrite cur_request.
    unfold cont_rel in CR.
    destruct (received_total a r1 s W1 Hs) as [E2|(r2 & n2 & E2 & Bn2 & Hr2)]; rewrite E2 in *.
    + rewrite CR. apply approx_refl.
    + destruct CR as (r2' & nw & Ew & Ot & Cc & Hnone). rewrite Ew.
      rewrite post_request, post_ev_request.
      assert (P : prel true r2 r2').
      { split; [exact Ot|]. intros Hnc. destruct Hr2 as [Hr2|Hr2]; [congruence|].
        destruct Hr2 as (_ & He2 & _). destruct (Hnone He2) as (_ & _ & Hp). auto. }
      destruct (post_sim true c c r2 r2' (sim_refl c) P) as (S2 & Ev).
      destruct (error r2) as [e|] eqn:He2.
      * (* refused: both traces are cut right after this request *)
        assert (Hc2 : completed r2 = true).
        { destruct Hr2 as [Hr2|Hr2]; [exact Hr2|]. destruct Hr2 as (_ & X & _). congruence. }
        assert (Un : clean (post_ev true c r2) = false) by (apply post_ev_poison; [exact Hc2 | congruence]).
        rewrite <- Ev.
        split.
        -- destruct (unclean_if (Z.of_nat (length (b :: s)) <=? nw)%Z (post_ev true c r2) (COk (post c r2'))
                       (step true a (post c r2') (skipn (Z.to_nat nw) (b :: s))) Un) as (X1 & _).
           destruct (unclean_if (Z.of_nat (length s) <=? n2)%Z (post_ev true c r2) (COk (post c r2))
                       (step true a (post c r2) (skipn (Z.to_nat n2) s)) Un) as (X2 & _).
           rewrite X1, X2. reflexivity.
        -- destruct (unclean_if (Z.of_nat (length s) <=? n2)%Z (post_ev true c r2) (COk (post c r2))
                       (step true a (post c r2) (skipn (Z.to_nat n2) s)) Un) as (_ & X2).
           rewrite X2. discriminate.
      * destruct (Hnone eq_refl) as (-> & _ & _).
        rewrite (length_cons_le b s n2 Hs). rewrite <- Ev.
        destruct (Z.of_nat (length s) <=? n2)%Z eqn:Hn.
        -- split; [reflexivity|]. intros _. cbn [fst relres]. apply sim_sym. exact S2.
        -- apply Z.leb_gt in Hn.
           replace (Z.to_nat (1 + n2)) with (S (Z.to_nat n2)) by lia. cbn [skipn].
           assert (Hd2 : skipn (Z.to_nat n2) s <> []).
           { intros E0. assert (L0 : length (skipn (Z.to_nat n2) s) = 0%nat) by (rewrite E0; reflexivity).
             rewrite skipn_length in L0. lia. }
           assert (I2 : inv a (post c r2)).
           { rewrite <- (post_request c (Some r1) r2). eapply post_inv; [exact I1 | rewrite cur_request; exact E2 | exact Hr2]. }
           assert (I2' : inv a (post c r2')).
           { eapply post_inv; [exact I | exact Ew|].
             destruct Hr2 as [Hr2|Hr2]; [left; congruence|].
             destruct (received_total a (cur c) (b :: s) (wf_cur a c W) ltac:(discriminate)) as [X|(q & m & X & _ & Y)];
               [congruence|]. assert (q = r2') by congruence. subst q. exact Y. }
           destruct (step_sim true a (length s) (post c r2') (post c r2) (skipn (Z.to_nat n2) s)) as (T & Rr); auto.
           ++ rewrite skipn_length. lia.
           ++ apply sim_sym; exact S2.
           ++ destruct (step true a (post c r2') _) as [res' t']. destruct (step true a (post c r2) _) as [res t].
              cbn [fst snd] in *. subst t'. split; [reflexivity | intros _; exact Rr].
  - (* the byte completes the message with an error *)
    rewrite E1, Ew, L1. cbn [bind].
    assert (P : prel true r1 r1') by (split; [exact O | intros X; congruence]).
    destruct (post_sim true c c r1 r1' (sim_refl c) P) as (_ & Ev). rewrite <- Ev.
    assert (Un : clean (post_ev true c r1) = false) by (apply post_ev_poison; auto).
    split.
    + destruct (step true a (post c r1) s) as [res2 t2]. cbn [snd]. rewrite (cut_unclean _ t2 Un).
      exact (proj1 (unclean_if (Z.of_nat (length (b :: s)) <=? n')%Z (post_ev true c r1) (COk (post c r1'))
                  (step true a (post c r1') (skipn (Z.to_nat n') (b :: s))) Un)).
    + intros Cl. exfalso. revert Cl. destruct (step true a (post c r1) s) as [res2 t2]. cbn [snd].
      rewrite (clean_unclean _ t2 Un). discriminate.
Qed.

(* ------------------------------------------------------------------ *)
(* byte-wise delivery as the normal form *)
Fixpoint BW (a : adj) (c : chan) (d : bytes) : chan_res * list event :=
  match d with
  | [] => (COk c, [])
  | b :: s => bind (step true a c [b]) (fun c1 => BW a c1 s)
  end.

Lemma step_good ab a : forall m c data, (length data <= m)%nat -> inv a c -> data <> [] ->
  good a (step ab a c data).
Proof.
  induction m as [|m IH]; intros c data L I Hd.
  { destruct data; [congruence | simpl in L; lia]. }
  rewrite (step_unfold ab a c data I Hd). unfold step_body. pose proof I as (W & _).
  destruct (received_total a (cur c) data (wf_cur a c W) Hd) as [E|(r1 & n & E & Bn & Hr)]; rewrite E; [exact Logic.I|].
  pose proof (post_inv a c data r1 n I E Hr) as I1.
  destruct (Z.of_nat (length data) <=? n)%Z eqn:Hn; [exact I1|]. apply Z.leb_gt in Hn.
  assert (G : good a (step ab a (post c r1) (skipn (Z.to_nat n) data))).
  { apply IH; auto.
    - rewrite skipn_length. lia.
    - intros E0. assert (L0 : length (skipn (Z.to_nat n) data) = 0%nat) by (rewrite E0; reflexivity).
      rewrite skipn_length in L0. lia. }
  destruct (step ab a (post c r1) _) as [res t]. exact G.
Qed.

Lemma bind_good a x k : good a x -> (forall c1, inv a c1 -> good a (k c1)) -> good a (bind x k).
Proof.
  destruct x as [[c1| | |] t1]; cbn [bind]; intros G K; try exact Logic.I.
  specialize (K c1 G). destruct (k c1) as [r2 t2]. exact K.
Qed.

Lemma BW_good a : forall d c, inv a c -> good a (BW a c d).
Proof.
  induction d as [|b s IH]; intros c I; [exact I|].
  cbn [BW]. apply bind_good; [eapply step_good; eauto; discriminate | intros c1 I1; apply IH; exact I1].
Qed.

Lemma bind_ret x : bind x (fun c1 => (COk c1, [])) = x.
Proof. destruct x as [[c1| | |] t1]; cbn [bind]; try reflexivity. now rewrite app_nil_r. Qed.

Lemma bind_assoc x k k' : bind (bind x k) k' = bind x (fun c => bind (k c) k').
Proof.
  destruct x as [[c1| | |] t1]; cbn [bind]; try reflexivity.
  destruct (k c1) as [[c2| | |] t2]; cbn [bind]; try reflexivity.
  destruct (k' c2) as [r3 t3]. now rewrite app_assoc.
Qed.

Lemma bind_ext x k k' : (forall c, k c = k' c) -> bind x k = bind x k'.
Proof. intros H. destruct x as [[c1| | |] t1]; cbn [bind]; try reflexivity. now rewrite H. Qed.

Lemma BW_app a : forall d1 d2 c, BW a c (d1 ++ d2) = bind (BW a c d1) (fun c1 => BW a c1 d2).
Proof.
  induction d1 as [|b s IH]; intros d2 c.
  - cbn [app BW]. now rewrite bind_nil.
  - cbn [app BW]. rewrite bind_assoc. apply bind_ext. intros c1. apply IH.
Qed.

(* the loop on a read is the byte-wise run of that read *)
Lemma step_BW a : forall d c, inv a c -> d <> [] -> approx (step true a c d) (BW a c d).
Proof.
  induction d as [|b s IH]; intros c Iv Hd; [congruence|].
  destruct s as [|b2 s'].
  - cbn [BW]. rewrite bind_ret. apply approx_refl.
  - eapply approx_trans; [apply chan_one_byte; [exact Iv | discriminate]|].
    cbn [BW]. apply (bind_approx a).
    + apply approx_refl.
    + eapply step_good; eauto; discriminate.
    + eapply step_good; eauto; discriminate.
    + intros c1 c1' S I1 I1'.
      eapply approx_trans; [|apply IH; [exact I1' | discriminate]].
      destruct (step_sim true a (length (b2 :: s')) c1 c1' (b2 :: s') (le_n _) I1 I1' S ltac:(discriminate)) as (T & R).
      split; [now rewrite T | intros _; exact R].
Qed.

Lemma BW_sim a : forall d c c', sim c c' -> inv a c -> inv a c' -> approx (BW a c d) (BW a c' d).
Proof.
  induction d as [|b s IH]; intros c c' S Iv Iv'.
  - split; [reflexivity | intros _; exact S].
  - cbn [BW]. apply (bind_approx a).
    + destruct (step_sim true a 1 c c' [b] (le_n _) Iv Iv' S ltac:(discriminate)) as (T & R).
      split; [now rewrite T | intros _; exact R].
    + eapply step_good; eauto; discriminate.
    + eapply step_good; eauto; discriminate.
    + intros c1 c1' S1 I1 I1'. apply IH; auto.
Qed.

Lemma chan_tr_step ab a c d : inv a c -> d <> [] -> chan_tr ab a c d = step ab a c d.
Proof.
  intros (_ & _ & F1 & F2) Hd. unfold chan_tr. destruct d; [congruence|]. now rewrite F1, F2.
Qed.

Lemma feed_good a : forall reads c, inv a c -> good a (feed_tr true a c reads).
Proof.
  induction reads as [|d rest IH]; intros c Iv; [exact Iv|].
  cbn [feed_tr]. apply bind_good; [|intros c1 I1; apply IH; exact I1].
  destruct d as [|x d']; [exact Iv|]. rewrite chan_tr_step by (auto; discriminate).
  eapply step_good; eauto; discriminate.
Qed.

(* any sequence of reads is, up to the cut, the byte-wise run of its concatenation *)
Theorem feed_BW a : forall reads c, inv a c ->
  approx (feed_tr true a c reads) (BW a c (concat reads)).
Proof.
  induction reads as [|d rest IH]; intros c Iv.
  - apply approx_refl.
  - cbn [feed_tr concat]. rewrite BW_app.
    destruct d as [|x d'].
    + cbn [chan_tr BW]. rewrite !bind_nil. apply IH; exact Iv.
    + rewrite chan_tr_step by (auto; discriminate).
      apply (bind_approx a).
      * apply step_BW; [exact Iv | discriminate].
      * eapply step_good; eauto; discriminate.
      * apply BW_good; exact Iv.
      * intros c1 c1' S I1 I1'. eapply approx_trans; [apply IH; exact I1 | apply BW_sim; auto].
Qed.

(* C02 for the sequential channel model: the events, cut after the first
   refused request, do not depend on how the stream was divided into reads *)
Theorem split_independent a reads1 reads2 : concat reads1 = concat reads2 ->
  cut (snd (feed_tr true a chan_init reads1)) = cut (snd (feed_tr true a chan_init reads2)).
Proof.
  intros E.
  destruct (feed_BW a reads1 chan_init (inv_init a)) as (C1 & _).
  destruct (feed_BW a reads2 chan_init (inv_init a)) as (C2 & _).
  rewrite C1, C2, E. reflexivity.
Qed.

Corollary split_vs_whole a reads :
  cut (snd (feed_tr true a chan_init reads)) = cut (snd (feed_tr true a chan_init [concat reads])).
Proof. apply split_independent. cbn [concat]. now rewrite app_nil_r. Qed.

(* ------------------------------------------------------------------ *)
(* the events are what the model's state records: the bytes the I/O side put
   on the wire and the requests it queued, in order *)
Definition ev_out (e : event) : bytes :=
  match e with EvContinue => continue_bytes | EvDone _ => [] end.
Definition ev_reqs (e : event) : list parser :=
  match e with EvDone o => if empty o then [] else [o] | EvContinue => [] end.

Definition tr_state (ab : bool) (c c' : chan) (t : list event) : Prop :=
  outlog c' = outlog c ++ flat_map ev_out t /\
  map (obs ab) (requests c') = map (obs ab) (requests c) ++ flat_map ev_reqs t.

Lemma tr_state_refl ab c : tr_state ab c c [].
Proof. split; cbn; now rewrite app_nil_r. Qed.

Lemma tr_state_trans ab c1 c2 c3 t1 t2 :
  tr_state ab c1 c2 t1 -> tr_state ab c2 c3 t2 -> tr_state ab c1 c3 (t1 ++ t2).
Proof.
  intros (A1 & A2) (B1 & B2). split; rewrite flat_map_app.
  - rewrite B1, A1. now rewrite app_assoc.
  - rewrite B2, A2. now rewrite app_assoc.
Qed.

Lemma empty_obs ab r : empty (obs ab r) = empty r.
Proof. reflexivity. Qed.

Lemma post'_outlog c r1 : outlog (post' c r1) = outlog c ++ (if send_cond c r1 then continue_bytes else []).
Proof.
  unfold post'. cbv zeta.
  destruct (send_cond c r1); destruct (completed r1); try destruct (negb (empty r1)); try destruct (_ =? _)%nat;
    csimpl; rewrite ?app_nil_r; reflexivity.
Qed.

Lemma post'_requests c r1 :
  requests (post' c r1) = requests c ++
    (if completed r1 && negb (empty r1)
     then [if send_cond c r1 then r1 <| expect_continue := false |> else r1] else []).
Proof.
  unfold post'. cbv zeta.
  destruct (send_cond c r1); destruct (completed r1); try destruct (negb (empty r1)); try destruct (_ =? _)%nat;
    csimpl; cbn [andb]; rewrite ?app_nil_r; reflexivity.
Qed.

Lemma ev_reqs_done o (r : parser) : empty o = empty r ->
  flat_map ev_reqs [EvDone o] = if negb (empty r) then [o] else [].
Proof. intros E. cbn [flat_map ev_reqs]. rewrite E. destruct (empty r); reflexivity. Qed.

Lemma post_trace ab c r1 : tr_state ab c (post c r1) (post_ev ab c r1).
Proof.
  rewrite post_eq. unfold tr_state. rewrite post'_outlog, post'_requests, map_app. unfold post_ev.
  rewrite !flat_map_app.
  split.
  - f_equal. destruct (send_cond c r1); destruct (completed r1); reflexivity.
  - f_equal.
    set (r2 := if send_cond c r1 then r1 <| expect_continue := false |> else r1).
    assert (E : empty (obs ab r2) = empty r1).
    { rewrite empty_obs. subst r2. destruct (send_cond c r1); reflexivity. }
    set (o := obs ab r2) in *.
    assert (Eo : map (obs ab) [r2] = [o]) by reflexivity.
    clearbody o. clearbody r2.
    destruct (completed r1); cbn [andb].
    + rewrite (ev_reqs_done o r1 E).
      destruct (send_cond c r1); cbn [flat_map ev_reqs app]; destruct (negb (empty r1)); auto.
    + destruct (send_cond c r1); reflexivity.
Qed.

Lemma loop_trace ab a fuel : forall c data c' t,
  loop_tr ab fuel a c data = (COk c', t) -> tr_state ab c c' t.
Proof.
  induction fuel as [|f IH]; intros c data c' t; [discriminate|].
  cbn [loop_tr]. destruct (received a _ data) as [r1 n| | |]; try discriminate.
  destruct (_ <=? _)%Z.
  - intros H; injection H as <- <-. apply post_trace.
  - destruct (loop_tr ab f a (post c r1) _) as [res t2] eqn:E. intros H; injection H as -> <-.
    eapply tr_state_trans; [apply post_trace | eapply IH; eauto].
Qed.

Lemma chan_trace ab a c data c' t : chan_tr ab a c data = (COk c', t) -> tr_state ab c c' t.
Proof.
  unfold chan_tr. destruct data; [intros H; injection H as <- <-; apply tr_state_refl|].
  destruct (_ || _); [intros H; injection H as <- <-; apply tr_state_refl|]. apply loop_trace.
Qed.

Theorem feed_trace ab a : forall reads c c' t,
  feed_tr ab a c reads = (COk c', t) -> tr_state ab c c' t.
Proof.
  induction reads as [|d rest IH]; intros c c' t.
  - intros H; injection H as <- <-. apply tr_state_refl.
  - cbn [feed_tr]. destruct (chan_tr ab a c d) as [[c1| | |] t1] eqn:E; cbn [bind]; try discriminate.
    destruct (feed_tr ab a c1 rest) as [r2 t2] eqn:E2. intros H; injection H as -> <-.
    eapply tr_state_trans; [eapply chan_trace; eauto | eapply IH; eauto].
Qed.
