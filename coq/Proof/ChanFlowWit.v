(* Proof/ChanFlowWit.v -- witnesses: schedules of the model that reach the bad
   states (checked by vm_compute), and the lemma that a "spinning" poll turn of
   the I/O thread returns to the same state.  The same situations are reproduced
   on the real HTTPChannel by checks/C12.py (replay files). *)
From Coq Require Import List ZArith Bool Arith Lia.
From WV Require Import Lib.Conc Model.ChanFlow Proof.ChanFlow.
Import ListNotations.
Local Open Scope Z_scope.

Definition p_f23 : params := mkP 0 1 0 [([1;1], false)] false false true true.
Definition s_f23 : list choice :=
  [CIo SRBlock 0; CIo SRBlock 0; CIo SRBlock 0; CIo SRBlock 0; CIo SRBlock 0; CIo SRBlock 0; CIo SRBlock 0; CEnv EArrive; CIo SRBlock 0; CIo SRBlock 0; CIo SRBlock 0; CIo SRBlock 0; CIo SRBlock 0; CIo SRBlock 0; CIo SRBlock 0; CIo SRBlock 0; CIo SRBlock 0; CIo SRBlock 0; CW SRBlock; CW SRBlock; CW SRBlock; CW SRBlock; CW SRBlock; CW SRBlock; CIo SRBlock 0; CW SRBlock; CW SRBlock; CW SRBlock; CW SRBlock; CW SRBlock; CW SRBlock; CW SRBlock; CIo SRBlock 0; CIo SRBlock 0; CIo SRBlock 0; CW SRBlock; CIo SRBlock 0; CIo (SR 1) 0; CIo SRBlock 0; CIo SRBlock 0; CIo SRBlock 0; CIo SRBlock 0; CIo SRBlock 0; CIo SRBlock 0; CIo SRBlock 0; CIo SRBlock 0; CIo SRBlock 0; CIo SRBlock 0].

Definition p_spin : params := mkP 1 3 0 [([2;1], false)] false true false true.
Definition s_spin : list choice :=
  [CIo SRBlock 0; CIo SRBlock 0; CIo SRBlock 0; CIo SRBlock 0; CIo SRBlock 0; CIo SRBlock 0; CIo SRBlock 0; CEnv EStall; CEnv EArrive; CIo SRBlock 0; CIo SRBlock 0; CIo SRBlock 0; CIo SRBlock 0; CIo SRBlock 0; CIo SRBlock 0; CIo SRBlock 0; CIo SRBlock 0; CIo SRBlock 0; CIo SRBlock 0; CW SRBlock; CW SRBlock; CW SRBlock; CW SRBlock; CW SRBlock; CW SRBlock; CIo SRBlock 0; CW SRBlock; CW SRBlock; CW SRBlock; CW SRBlock; CW SRBlock; CIo SRBlock 0; CIo SRBlock 0; CIo SRBlock 0; CIo SRBlock 0; CIo SRBlock 0; CW SRBlock; CEnv EResume].

Definition p_eq : params := mkP 2 3 0 [([3;1], false)] false false true true.
Definition s_eq : list choice :=
  [CIo SRBlock 0; CIo SRBlock 0; CIo SRBlock 0; CIo SRBlock 0; CIo SRBlock 0; CIo SRBlock 0; CIo SRBlock 0; CEnv EArrive; CIo SRBlock 0; CIo SRBlock 0; CIo SRBlock 0; CIo SRBlock 0; CIo SRBlock 0; CIo SRBlock 0; CIo SRBlock 0; CIo SRBlock 0; CIo SRBlock 0; CIo SRBlock 0; CW SRBlock; CW SRBlock; CW SRBlock; CW SRBlock; CW SRBlock; CW SRBlock; CIo SRBlock 0; CW SRBlock; CW SRBlock; CW SRBlock; CW SRBlock; CW SRBlock; CW SRBlock; CW SRBlock; CIo SRBlock 0; CIo SRBlock 0; CIo SRBlock 0; CW SRBlock; CIo SRBlock 0; CIo (SR 1) 0; CIo SRBlock 0; CIo SRBlock 0; CIo SRBlock 0; CIo SRBlock 0; CIo SRBlock 0; CIo SRBlock 0; CIo SRBlock 0; CIo SRBlock 0; CIo SRBlock 0].

Definition p_tail : params := mkP 2 1 1 [([3], false); ([1], true)] true true true false.
Definition s_tail : list choice :=
  [CIo SRBlock 0; CIo SRBlock 0; CIo SRBlock 0; CIo SRBlock 0; CIo SRBlock 0; CIo SRBlock 0; CIo SRBlock 0; CEnv EArrive; CIo SRBlock 0; CIo SRBlock 0; CIo SRBlock 0; CIo SRBlock 0; CIo SRBlock 0; CIo SRBlock 0; CIo SRBlock 0; CIo SRBlock 0; CIo SRBlock 0; CIo SRBlock 0; CIo SRBlock 0; CW SRBlock; CW SRBlock; CW SRBlock; CW SRBlock; CW SRBlock; CW SRBlock; CIo SRBlock 0; CW SRBlock; CW SRBlock; CW SRBlock; CEnv EArrive; CIo SRBlock 0; CIo SRBlock 0; CIo SRBlock 0; CIo SRBlock 0; CIo SRBlock 0; CIo SRBlock 0; CIo SRBlock 0; CIo SRBlock 0; CIo SRBlock 0; CIo SRBlock 0; CIo SRGone 0; CW SRBlock; CW SRBlock; CIo SRBlock 3; CIo SRBlock 0; CIo SRBlock 0; CIo SRBlock 0; CIo SRBlock 0; CIo SRBlock 0; CIo SRBlock 0; CIo SRBlock 0; CIo SRBlock 0; CIo SRBlock 0; CW SRBlock; CW SRBlock; CW SRBlock; CW SRBlock; CIo SRBlock 0; CIo SRBlock 0].


(* OLD SHAPE fx_notify_le = false (before 6aba4bf), F23: high_watermark = 0.  The producer is parked with total_outbufs_len = 0, the
   client reads, the I/O thread is blocked in select (writable() is false), the
   trigger is not pulled: nobody will ever notify. *)
Lemma wit_hw_zero :
  let s := run p_f23 s_f23 in
  hw p_f23 = 0 /\ quiescent s = true /\ io_blocked s = true /\ client_reads s = true /\ w_parked s = true
  /\ total s = 0 /\ pending s = 0 /\ connected s = true /\ in_map s = true.
Proof. vm_compute. repeat split; try reflexivity; try (intro; discriminate). Qed.

(* OLD SHAPE fx_drain = false (before daf1a85): high_watermark < total < send_bytes: the producer is parked, the socket is
   writable, handle_write selects no flush (a task is running and total <
   send_bytes): the I/O thread spins, nothing is ever sent *)
Lemma wit_below_send_bytes :
  let s := run p_spin s_spin in
  1 <= hw p_spin /\ io_spinning p_spin s = true /\ client_reads s = true /\ w_parked s = true
  /\ hw p_spin < total s /\ total s < sb p_spin /\ connected s = true.
Proof. vm_compute. repeat split; try reflexivity; try (intro; discriminate). Qed.

(* OLD SHAPE fx_notify_le = false: the drain stops exactly at the mark (1 <= total = high_watermark < send_bytes): the
   consumer's test "total < high_watermark" fails, so no notify, although the
   producer's loop condition "total > high_watermark" is false *)
Lemma wit_at_mark :
  let s := run p_eq s_eq in
  1 <= hw p_eq /\ io_spinning p_eq s = true /\ client_reads s = true /\ w_parked s = true
  /\ total s = hw p_eq /\ total s < sb p_eq /\ connected s = true.
Proof. vm_compute. repeat split; try reflexivity; try (intro; discriminate). Qed.

(* OLD SHAPE fx_recheck = false (before 7fa6a60), lookahead >= 1: service() reads total > high_watermark without the lock, the I/O
   thread closes the channel, the worker then flushes a closed channel whose first
   outbuf still reports bytes, takes the exception path and waits: connected =
   False, the channel has left the map, nobody will notify *)
Lemma wit_tail_race :
  let s := run p_tail s_tail in
  1 <= hw p_tail /\ sb p_tail <= hw p_tail /\ quiescent s = true /\ w_parked s = true
  /\ connected s = false /\ in_map s = false /\ wk s = WFbParkedE FS false /\ io s = IoSel false false.
Proof. vm_compute. repeat split; try reflexivity; try (intro; discriminate). Qed.


(* ---- examples: the hypotheses / conclusions of the theorems are met by reachable states ---- *)

Definition p_tight : params := mkP 2 100 0 [([2;3], false)] false true true true.
Definition s_tight : list choice :=
  [CIo SRBlock 0; CIo SRBlock 0; CIo SRBlock 0; CIo SRBlock 0; CIo SRBlock 0; CIo SRBlock 0; CIo SRBlock 0; CEnv EArrive; CIo SRBlock 0; CIo SRBlock 0; CIo SRBlock 0; CIo SRBlock 0; CIo SRBlock 0; CIo SRBlock 0; CIo SRBlock 0; CIo SRBlock 0; CIo SRBlock 0; CIo SRBlock 0; CW SRBlock; CW SRBlock; CW SRBlock; CW SRBlock; CW SRBlock; CW SRBlock; CW SRBlock; CW SRBlock; CW SRBlock; CW SRBlock].
(* the bound is attained: pending = high_watermark + last write *)
Example ex_bound_tight :
  let s := run p_tight s_tight in pending s = 5 /\ hw p_tight = 2 /\ last_write s = 3 /\ total s = 5.
Proof. vm_compute. repeat split. Qed.

Definition p_abort : params := mkP 2 1 0 [([3;1], false)] false true true true.
Definition s_abort : list choice :=
  [CIo SRBlock 0; CIo SRBlock 0; CIo SRBlock 0; CIo SRBlock 0; CIo SRBlock 0; CIo SRBlock 0; CIo SRBlock 0; CEnv EArrive; CIo SRBlock 0; CIo SRBlock 0; CIo SRBlock 0; CIo SRBlock 0; CIo SRBlock 0; CIo SRBlock 0; CIo SRBlock 0; CIo SRBlock 0; CIo SRBlock 0; CIo SRBlock 0; CW SRBlock; CW SRBlock; CW SRBlock; CW SRBlock; CW SRBlock; CW SRBlock; CW SRBlock; CW SRBlock; CW SRBlock; CW SRBlock; CW SRBlock; CW SRBlock; CW SRBlock; CEnv EGone; CIo SRBlock 0; CIo SRBlock 0; CIo SRBlock 0; CIo SRBlock 0; CIo SRBlock 0; CIo SRBlock 0; CIo SRBlock 0; CIo SRBlock 0; CIo SRBlock 0; CIo SRBlock 0; CIo SRBlock 0; CIo SRBlock 0; CIo SRBlock 0; CW SRBlock; CIo SRBlock 0; CIo SRBlock 0; CIo SRGone 0; CIo SRBlock 0; CIo SRBlock 0].
(* a producer parked above the mark while handle_close runs: the state C12_abort talks about *)
Example ex_abort_state :
  let s := run p_abort s_abort in
  w_parked s = true /\ connected s = false /\ io s = IoHcNotify KFlush /\ wk s = WFbParked FW false.
Proof. vm_compute. repeat split. Qed.
(* ... and what follows: notify, wake, ClientDisconnected, close branch *)
Example ex_abort_follow :
  let s := run p_abort (s_abort ++ [CIo SRBlock 0; CIo SRBlock 0; CIo SRBlock 0; CIo SRBlock 0; CW SRBlock; CW SRBlock]) in
  wk s = WCloseAcq /\ In LRaise (trace p_abort (s_abort ++ [CIo SRBlock 0; CIo SRBlock 0; CIo SRBlock 0; CIo SRBlock 0; CW SRBlock; CW SRBlock])) /\ appended s = 3.
Proof. vm_compute. split; [reflexivity|split; [|reflexivity]]. repeat (first [left; reflexivity | right]). Qed.

(* ---- a spinning poll turn changes nothing ----------------------------------- *)

Fixpoint steps_io (p : params) (s : state) (n : nat) : option state :=
  match n with
  | O => Some s
  | S m => match step_io p s SRBlock 0 with Some (s', _) => steps_io p s' m | None => None end
  end.

Lemma spin_cycle p s : io_spinning p s = true ->
  steps_io p s 9 = Some s \/ steps_io p s 10 = Some s \/ steps_io p s 11 = Some s.
Proof.
  intros H. ds s. unfold io_spinning in H. cbn in H.
  destruct io0; try discriminate. destruct r; try discriminate. destruct w; try discriminate.
  repeat (apply andb_true_iff in H; destruct H as [H ?]).
  b2p. subst.
  assert (Z1 : (0 <? total0) = true) by (apply Z.ltb_lt; assumption).
  assert (Z2 : (sb p <=? total0) = false) by (apply Z.leb_gt; assumption).
  assert (Z3 : (total0 =? 0) = false) by (apply Z.eqb_neq; lia).
  assert (Z4 : (nreq0 =? 0)%nat = false) by (apply Nat.eqb_neq; lia).
  assert (Z6 : fx_drain p = true -> (hw p <? total0) = false).
  { intros F. match goal with X : negb (fx_drain p) || _ = true |- _ => rewrite F in X; cbn in X; apply Z.leb_le in X end.
    apply Z.ltb_ge. assumption. }
  destruct (fx_drain p) eqn:Z7; [specialize (Z6 eq_refl)|clear Z6];
    (destruct (look p <? nreq0)%nat eqn:Z5).
  1: right; left. 2: right; right. 3: left. 4: right; left.
  all: cbn [steps_io].
  all: do 11 (try (unfold step_io at 1; cbn -[steps_io step_io]; unfold rdy_r, rdy_w, to_top; cbn -[steps_io step_io];
         rewrite ?Z1, ?Z2, ?Z3, ?Z4, ?Z5, ?Z6, ?Z7, ?orb_false_r, ?andb_false_r; cbn -[steps_io step_io])).
  all: reflexivity.
Qed.
