(* Dictionary lemmas for the environ and the no-override theorem: the keys
   produced by the header loop all have the protocol-specific form (HTTP_* or
   CONTENT_LENGTH / CONTENT_TYPE), no server-defined key has that form, hence
   the header loop never touches a server-defined entry. *)
From Coq Require Import List NArith Bool Lia.
From RecordUpdate Require Import RecordUpdate.
From WV Require Import Lib.PyBytes Model.Receiver Model.Parser Model.Environ.
Import ListNotations.
Local Open Scope N_scope.

Lemma beqb_refl a : beqb a a = true.
Proof. apply beqb_eq. reflexivity. Qed.

Lemma beqb_neq a b : a <> b -> beqb a b = false.
Proof. intro H. destruct (beqb a b) eqn:E; auto. apply beqb_eq in E. contradiction. Qed.

Lemma beqb_false a b : beqb a b = false -> a <> b.
Proof. intros H E. subst. rewrite beqb_refl in H. discriminate. Qed.

Lemma beqb_sym a b : beqb a b = beqb b a.
Proof.
  destruct (beqb a b) eqn:E.
  - apply beqb_eq in E. subst. symmetry. apply beqb_refl.
  - symmetry. apply beqb_neq. intro H. subst. rewrite beqb_refl in E. discriminate.
Qed.

(* ---- edict ---- *)
Lemma emem_eget e k : emem e k = match eget e k with Some _ => true | None => false end.
Proof.
  induction e as [|[k' v] e IH]; simpl; auto.
  destruct (beqb k k'); simpl; auto.
Qed.

Lemma eget_app e1 e2 k :
  eget (e1 ++ e2) k = match eget e1 k with Some v => Some v | None => eget e2 k end.
Proof.
  induction e1 as [|[k' v] e1 IH]; simpl; auto.
  destruct (beqb k k'); auto.
Qed.

Lemma eget_eset e k k' v :
  eget (eset e k' v) k = if beqb k k' then Some v else eget e k.
Proof.
  induction e as [|[k0 v0] e IH]; simpl.
  - reflexivity.
  - destruct (beqb k' k0) eqn:E0; simpl.
    + apply beqb_eq in E0. subst k0. destruct (beqb k k'); reflexivity.
    + destruct (beqb k k0) eqn:E1.
      * apply beqb_eq in E1. subst k0. rewrite beqb_sym, E0. reflexivity.
      * apply IH.
Qed.

(* ---- the key a header lands on ---- *)
Definition env_key (key : bytes) : bytes :=
  match rename_headers key with Some k => k | None => k_HTTP_ ++ key end.

Definition is_header_key (k : bytes) : bool :=
  startswith k k_HTTP_ || beqb k s_CONTENT_LENGTH || beqb k s_CONTENT_TYPE.

Lemma startswith_app p s : startswith (p ++ s) p = true.
Proof. induction p as [|a p IH]; cbn [startswith app]. - destruct s; reflexivity. - rewrite N.eqb_refl. exact IH. Qed.

Lemma env_key_header_form key : is_header_key (env_key key) = true.
Proof.
  unfold env_key, rename_headers, is_header_key.
  destruct (beqb key s_CONTENT_LENGTH) eqn:E1.
  - rewrite beqb_refl. rewrite orb_true_r. reflexivity.
  - destruct (beqb key s_CONTENT_TYPE) eqn:E2.
    + rewrite beqb_refl. rewrite !orb_true_r. reflexivity.
    + rewrite startswith_app. reflexivity.
Qed.

Lemma add_header_unfold e key value :
  add_header e (key, value) =
  if negb (emem e (env_key key)) then e ++ [(env_key key, VStr value)] else e.
Proof. reflexivity. Qed.

Lemma add_header_eget_other e kv k :
  is_header_key k = false -> eget (add_header e kv) k = eget e k.
Proof.
  intros Hk. destruct kv as [key value]. rewrite add_header_unfold.
  destruct (negb (emem e (env_key key))); auto.
  rewrite eget_app. destruct (eget e k); auto. simpl.
  destruct (beqb k (env_key key)) eqn:E; auto.
  apply beqb_eq in E. subst k. rewrite env_key_header_form in Hk. discriminate.
Qed.

Lemma fold_add_header_eget_other hs : forall e k,
  is_header_key k = false -> eget (fold_left add_header hs e) k = eget e k.
Proof.
  induction hs as [|kv hs IH]; intros e k Hk; simpl; auto.
  rewrite IH by assumption. apply add_header_eget_other. assumption.
Qed.

(* ---- the server-defined keys ---- *)
Definition server_keys : list bytes :=
  [ k_REMOTE_ADDR; k_REMOTE_HOST; k_REMOTE_PORT; k_REQUEST_METHOD; k_SERVER_PORT; k_SERVER_NAME;
    k_SERVER_SOFTWARE; k_SERVER_PROTOCOL; k_SCRIPT_NAME; k_PATH_INFO; k_REQUEST_URI; k_QUERY_STRING;
    k_wsgi_url_scheme; k_wsgi_version; k_wsgi_errors; k_wsgi_multithread; k_wsgi_multiprocess;
    k_wsgi_run_once; k_wsgi_input; k_wsgi_file_wrapper; k_wsgi_input_terminated ].

Lemma base_environ_keys c p : map fst (base_environ c p) = server_keys.
Proof. reflexivity. Qed.

(* the finite check: no server-defined key has the protocol-specific form, and
   they are pairwise distinct *)
Lemma server_keys_not_header_form :
  forallb (fun k => negb (is_header_key k)) (k_waitress_client_disconnected :: server_keys) = true.
Proof. vm_compute. reflexivity. Qed.

Lemma server_keys_distinct : NoDup (k_waitress_client_disconnected :: server_keys).
Proof.
  assert (D : forall (l : list bytes),
             (fix chk (l : list bytes) : bool :=
                match l with [] => true | x :: l' => negb (existsb (beqb x) l') && chk l' end) l = true -> NoDup l).
  { induction l as [|x l IH]; intro H; constructor.
    - apply andb_true_iff in H as [H _]. intro Hin.
      apply negb_true_iff in H. assert (existsb (beqb x) l = true).
      { apply existsb_exists. exists x. split; auto. apply beqb_refl. }
      congruence.
    - apply IH. apply andb_true_iff in H as [_ H]. exact H. }
  apply D. vm_compute. reflexivity.
Qed.

Lemma server_key_not_header k :
  In k (k_waitress_client_disconnected :: server_keys) -> is_header_key k = false.
Proof.
  intro H. pose proof server_keys_not_header_form as F.
  rewrite forallb_forall in F. apply F in H. apply negb_true_iff in H. exact H.
Qed.

(* the value the server put there survives the header loop *)
Lemma no_override c p k :
  In k server_keys -> eget (get_environment c p) k = eget (base_environ c p) k.
Proof.
  intro H. unfold get_environment. rewrite eget_eset.
  assert (Hne : beqb k k_waitress_client_disconnected = false).
  { apply beqb_neq. intro E. subst k.
    pose proof server_keys_distinct as D. inversion D; subst. contradiction. }
  rewrite Hne. apply fold_add_header_eget_other. apply server_key_not_header. right. exact H.
Qed.

Lemma base_environ_defines c p k : In k server_keys -> exists v, eget (base_environ c p) k = Some v.
Proof.
  intro H. unfold server_keys in H. simpl in H.
  repeat (destruct H as [H|H]; [subst k; eexists; vm_compute; reflexivity|]). contradiction.
Qed.

Lemma client_disconnected_defined c p :
  eget (get_environment c p) k_waitress_client_disconnected = Some VDisconnected.
Proof. unfold get_environment. rewrite eget_eset, beqb_refl. reflexivity. Qed.

(* whatever header dictionary the client managed to build *)
Lemma no_override_any_headers c p h k :
  In k server_keys ->
  eget (get_environment c (p <| headers := h |>)) k = eget (get_environment c p) k.
Proof.
  intro H. rewrite !no_override by assumption. unfold server_keys in H. simpl in H.
  repeat (destruct H as [H|H]; [subst k; reflexivity|]). contradiction.
Qed.
