(* C03, widening: (4) wsgi.file_wrapper around a seekable file that is handed
   over to the channel (no write() before, something to send): the length is
   reconciled with the declared Content-Length by prepare(size), the head is sent
   by write(b""), the file goes out raw. *)
From Coq Require Import String.
From Coq Require Import List NArith ZArith Bool Lia Arith Permutation.
From WV Require Import Lib.PyBytes Gen.GenTables Model.Task Spec.ClientParse
  Proof.TaskSort Proof.TaskLines Proof.TaskHead Proof.TaskStart Proof.TaskRun Proof.TaskChunk Proof.TaskClient
  Proof.TaskC08 Proof.TaskC09 Proof.TaskFrame Proof.TaskBody Proof.TaskSimple Proof.TaskFrameClient
  Proof.TaskFrameEnd Proof.TaskFrame2Sem Proof.TaskFrame2Run Proof.TaskFrame2Head Proof.TaskFrame2Dec
  Proof.TaskFrame2End.
Import ListNotations.
Local Open Scope N_scope.

Lemma chan_wire_push_file ws n z cnt : chan_wire (mkChan (WFile z cnt :: ws) n) = wire (rev ws) ++ cnt.
Proof. unfold chan_wire. cbn [ch_writes rev]. rewrite wire_app. cbn. rewrite app_nil_r. reflexivity. Qed.

Section File2.
Variable cap : str -> str.
Variable lower : str -> str.
Variable c : cfg.
Variable r : req.

(* prepare(size): what will be sent *)
Definition file_size (t : task) (content : bytes) : Z :=
  let fsize := Z.of_nat (length content) in
  match t_clen t with None => fsize | Some n => Z.min fsize n end.

(* the task after the length reconciliation *)
Definition reconciled (t : task) (content : bytes) : task :=
  let size := file_size t content in
  if match t_clen t with Some n => negb (n =? size)%Z | None => true end then
    set_clen (Some size) (match t_clen t with Some _ => remove_content_length_header lower t | None => t end)
  else t.

Lemma reconciled_fresh t content : t_complete t = true -> t_wrote_header t = false ->
  t_complete (reconciled t content) = true /\ t_wrote_header (reconciled t content) = false.
Proof.
  intros Hc Hw. unfold reconciled.
  destruct (match t_clen t with Some n => negb (n =? file_size t content)%Z | None => true end); auto.
  destruct (t_clen t); cbn; auto.
Qed.

Lemma execute_body_handover chunks t ch a s' o cc :
  a_kind a = KFile true -> a_steps a = plain_steps chunks ->
  t_complete t = true -> t_wrote_header t = false -> has_body t = true ->
  (0 < file_size t (file_content (plain_steps chunks)))%Z ->
  execute_body cap lower c r None (t, ch) a = (s', o, cc) -> o = Ok tt ->
  exists tp head, build_response_header cap lower c r (reconciled t (file_content (plain_steps chunks))) = (tp, Ok head)
    /\ fst s' = set_wrote true tp /\ cc = false
    /\ chan_wire (snd s') = chan_wire ch ++ head
                            ++ firstn (Z.to_nat (file_size t (file_content (plain_steps chunks)))) (file_content (plain_steps chunks)).
Proof.
  intros Ek Es Hc Hw Hhb Hsize. unfold execute_body. rewrite Ek, Es. cbn beta iota zeta.
  set (content := file_content (plain_steps chunks)) in *.
  change (match t_clen t with
          | Some n => Z.min (Z.of_nat (length content)) n
          | None => Z.of_nat (length content)
          end) with (file_size t content).
  set (size := file_size t content) in *.
  assert (E0 : (size =? 0)%Z = false) by (apply Z.eqb_neq; lia). rewrite E0, Hw, Hhb. cbn [negb].
  match goal with |- context [task_write cap lower c r None (?tt, ch) []] =>
    change tt with (reconciled t content) end.
  destruct (reconciled_fresh t content Hc Hw) as [Hc' Hw'].
  set (t' := reconciled t content) in *.
  unfold task_write. cbn [fst]. rewrite Hc'. cbn [negb].
  destruct (write_header cap lower c r None (t', ch)) as [[t1 ch1] o1] eqn:Eh.
  pose proof (write_header_fresh cap lower c r t' ch (t1, ch1) o1 Hw' Eh) as Hh.
  destruct (build_response_header cap lower c r t') as [tp [head|e]] eqn:Eb.
  2: { subst o1. intros H Ho. inversion H; subst. discriminate. }
  destruct Hh as (-> & Ht & Hwire). cbn [fst snd write_body] in *. subst t1.
  unfold write_soon. cbn [connected negb].
  assert (E1 : (size <? 0)%Z = false) by (apply Z.ltb_ge; lia). rewrite E1.
  intros H _. inversion H; subst s' o cc. clear H. cbn [fst snd].
  exists tp, head. split; [reflexivity|]. split; [reflexivity|]. split; [reflexivity|].
  destruct ch1 as [w n]. rewrite chan_wire_push_file. unfold chan_wire in Hwire at 1. cbn [ch_writes] in *.
  rewrite Hwire, <- app_assoc. reflexivity.
Qed.

(* a seekable file wrapper returned without any write() before *)
Definition fapp (status : str) (hs : list (pyobj * pyobj)) (chunks : list bytes) (hc : bool) : app :=
  wapp status hs [] (KFile true) chunks hc.

Theorem fapp_wire status hs chunks hc :
  r_error r = None ->
  (* the status has a body: after 1xx/204/304 nothing is handed over (fix d117733) *)
  startswith status (lit "1") || startswith status (lit "204") || startswith status (lit "304") = false ->
  (forall t1, start_response lower (new_task (r_version r) false) (PStr status) hs None = (t1, Ok tt) ->
              (0 < file_size t1 (file_content (plain_steps chunks)))%Z) ->
  let res := channel_service cap lower c r (fapp status hs chunks hc) None in
  o_raw res = None ->
  exists t1 tp head,
    start_response lower (new_task (r_version r) false) (PStr status) hs None = (t1, Ok tt)
    /\ build_response_header cap lower c r (reconciled t1 (file_content (plain_steps chunks))) = (tp, Ok head)
    /\ wire (o_writes res) = head ++ firstn (Z.to_nat (file_size t1 (file_content (plain_steps chunks))))
                                            (file_content (plain_steps chunks))
                             ++ (if t_chunked tp && negb (r_head r) then chunk_terminator else [])
    /\ o_close res = t_cof tp /\ o_next res = negb (t_cof tp)
    /\ o_handover res = true /\ o_closes res = 0%nat.
Proof.
  intros He Hst Hsz. cbn zeta. unfold channel_service. rewrite He. cbn [connected].
  set (t0 := new_task (r_version r) false).
  match goal with |- context [ladder cap lower c r None ?x0 ?raw0] =>
    destruct (ladder_fields cap lower c r None x0 raw0) as (_ & _ & _ & Eraw & _) end.
  cbn zeta in Eraw. rewrite Eraw. clear Eraw.
  unfold task_service.
  destruct (x_out (task_run cap lower c r None (t0, mkChan [] 0) (inl (fapp status hs chunks hc)))) as [[]|e] eqn:Eraw;
    [|intro X; discriminate X].
  intros _. unfold ladder. rewrite Eraw. cbn [o_writes o_close o_next o_escaped o_handover o_closes fst snd].
  revert Eraw. unfold task_run, wsgi_execute.
  change (a_call (fapp status hs chunks hc)) with [AStart (PStr status) hs None].
  rewrite run_actions_single. cbn [run_action fst snd].
  destruct (start_response lower t0 (PStr status) hs None) as [t1 [[]|e1]] eqn:Esr; cbn [fst snd];
    [|cbn; intro X; discriminate X].
  destruct (start_response_ok lower _ _ _ _ _ Esr) as (_ & Hst1 & _ & Hc1 & Hw1 & _).
  cbn [t_wrote_header new_task t0] in Hw1. cbn [str_of] in Hst1.
  assert (Hhb1 : has_body t1 = true) by (unfold has_body; rewrite Hst1, Hst; reflexivity).
  specialize (Hsz t1 Esr).
  destruct (execute_body cap lower c r None (t1, mkChan [] 0) (fapp status hs chunks hc)) as [[s2 o2] cc] eqn:Ex.
  destruct o2 as [[]|e2].
  2: { destruct (cc && a_has_close (fapp status hs chunks hc)); [destruct (a_close_exn (fapp status hs chunks hc))|];
       cbn; intro X; discriminate X. }
  destruct (execute_body_handover chunks t1 (mkChan [] 0) (fapp status hs chunks hc) s2 (Ok tt) cc
              eq_refl eq_refl Hc1 Hw1 Hhb1 Hsz Ex eq_refl) as (tp & head & Eb & Ef & Ecc & W2).
  subst cc. cbn [andb negb x_out x_st x_closes x_handover x_iter].
  destruct s2 as [t2 ch2]. cbn [fst snd] in *. subst t2.
  destruct (finish_after_head cap lower c r (set_wrote true tp) ch2 eq_refl) as (ch3 & Ef3 & W3). rewrite Ef3.
  cbn [x_out x_st x_closes x_handover fst snd]. intros _.
  exists t1, tp, head. split; [reflexivity|]. split; [exact Eb|].
  fold (chan_wire ch3). rewrite W3, W2. cbn [chan_wire ch_writes rev wire flat_map List.app t_chunked t_cof set_wrote].
  rewrite <- !app_assoc. auto.
Qed.

End File2.

(* ---- the head when the server itself adds Content-Length ------------------------ *)

Section SrvLen.
Variable cap : str -> str.
Variable lower : str -> str.
Hypothesis Hcap : forall s, clean s -> clean (cap s).
Hypothesis Hcap_conn : cap (lit "Connection") = lit "Connection".
Hypothesis Hcap_te : beqb (cap (lit "Transfer-Encoding")) (lit "Connection") = false.
Hypothesis Hcap_cl : beqb (cap (lit "Content-Length")) (lit "Connection") = false.
Variable c : cfg.
Hypothesis Hc : cfg_clean c.
Variable r : req.

Definition f_len (n : Z) : str * str := (lit "Content-Length", z_to_dec n).

Lemma prepared_srvlen t1 n :
  t_cof t1 = false -> t_wrote_header t1 = false -> t_chunked t1 = false ->
  plain_fields cap (t_rh t1) -> t_clen t1 = Some n -> (0 <= n)%Z -> has_body t1 = true ->
  let tp := bh_prepare cap lower c r t1 in
  let '(add, cof, chk) := conn_table (t_v11 t1) (request_connection r) (r_connection_close r) true true in
  exists tail, t_rh tp = map (norm_field cap) (t_rh t1) ++ [f_len n] ++ add ++ tail /\ Forall tail_field tail
               /\ t_cof tp = cof /\ t_chunked tp = chk /\ t_status tp = t_status t1 /\ t_v11 tp = t_v11 t1.
Proof.
  intros C W K P L Hn Hb. cbn zeta. unfold bh_prepare.
  destruct (bh_loop_plain cap t1 P) as [Erh Ecl].
  set (a := bh_loop cap t1) in *.
  set (t0 := set_rh (ac_rh a) t1).
  set (t0' := set_rh (t_rh t0 ++ [f_len n]) t0).
  assert (Eclen : bh_clen a t0 = (Some (z_to_dec n), t0')).
  { unfold bh_clen. rewrite Ecl. subst t0' t0. cbn [t_clen set_rh]. rewrite L.
    change (has_body (set_rh (ac_rh a) t1)) with (has_body t1). rewrite Hb. reflexivity. }
  rewrite Eclen.
  pose proof (bh_conn_table cap lower Hcap_te (request_connection r) (r_connection_close r) (Some (z_to_dec n)) t0') as T.
  cbn zeta in T. rewrite (z_to_dec_truthy n Hn) in T.
  assert (Hb0 : has_body t0' = true) by exact Hb.
  assert (Hv0 : t_v11 t0' = t_v11 t1) by reflexivity.
  rewrite Hb0, Hv0 in T.
  destruct (conn_table (t_v11 t1) (request_connection r) (r_connection_close r) true true) as [[add cof] chk].
  destruct T as (T1 & T2 & T3 & T4 & _ & _ & _ & T8 & _); auto.
  { subst t0' t0. cbn [t_rh set_rh]. rewrite Erh. apply noconn_app; [apply noconn_plain; auto|].
    constructor; [exact Hcap_cl|constructor]. }
  destruct (bh_tail c a (bh_conn cap lower (request_connection r) (r_connection_close r) (Some (z_to_dec n)) t0'))
    as (tail & E & F & A1 & A2 & A3 & A4).
  exists tail. split; [rewrite E, T1; subst t0' t0; cbn [t_rh set_rh]; rewrite Erh, <- !app_assoc; reflexivity|].
  subst t0' t0. cbn [t_status t_v11 set_rh] in T4, T8.
  split; [exact F|]. split; [rewrite A3; exact T2|]. split; [rewrite A2; exact T3|].
  split; [rewrite A1; exact T4|]. rewrite A4; exact T8.
Qed.

Lemma srvlen_head_facts t1 n :
  task_clean t1 ->
  t_cof t1 = false -> t_wrote_header t1 = false -> t_chunked t1 = false ->
  t_v11 t1 = beqb (r_version r) (lit "1.1") ->
  plain_fields cap (t_rh t1) -> t_clen t1 = Some n -> (0 <= n)%Z -> has_body t1 = true ->
  let tp := bh_prepare cap lower c r t1 in
  task_clean tp /\ nocolon_rh tp
  /\ t_status tp = t_status t1 /\ t_v11 tp = t_v11 t1
  /\ t_cof tp = negb (keep_of r) /\ t_chunked tp = false
  /\ te_fields tp = [] /\ cl_fields tp = [(lit "Content-Length", to_dec (Z.to_N n))]
  /\ (forall h, In h (t_rh t1) -> In (norm_field cap h) (t_rh tp))
  /\ (keep_of r = false -> In f_close (t_rh tp))
  /\ (keep_of r = true -> ~ In (client_field f_close) (cfields tp)).
Proof.
  intros Hclean S6 S5 S7 S9 Ppl L Hn Hb1. cbn zeta.
  pose proof (prepared_srvlen t1 n S6 S5 S7 Ppl L Hn Hb1) as P.
  cbn zeta in P. rewrite S9 in P.
  pose proof (table_len_chk (beqb (r_version r) (lit "1.1")) (request_connection r) (r_connection_close r)) as Hchk.
  destruct (conn_table (beqb (r_version r) (lit "1.1")) (request_connection r) (r_connection_close r) true true)
    as [[add cof] chk] eqn:Etab. cbn [snd] in Hchk. subst chk.
  destruct P as (tail & Prh & Ptail & Pcof & Pchk & Pst & Pv).
  set (tp := bh_prepare cap lower c r t1) in *.
  assert (Hcof : cof = negb (keep_of r)).
  { unfold keep_of. unfold conn_table in Etab. destruct (beqb (r_version r) (lit "1.1")).
    - injection Etab as _ <-. rewrite negb_involutive. reflexivity.
    - rewrite andb_true_r in Etab. destruct (_ && _); injection Etab as _ <-; reflexivity. }
  assert (Hadd : add = (if keep_of r then (if beqb (r_version r) (lit "1.1") then [] else [f_keep]) else [f_close])).
  { unfold keep_of. unfold conn_table in Etab. destruct (beqb (r_version r) (lit "1.1")).
    - destruct (beqb (request_connection r) (lit "close") || r_connection_close r);
        injection Etab as <- _; reflexivity.
    - rewrite andb_true_r in Etab.
      destruct (beqb (request_connection r) (lit "keep-alive") && negb (r_connection_close r));
        injection Etab as <- _; reflexivity. }
  split; [subst tp; apply bh_prepare_clean; auto|].
  split.
  { unfold nocolon_rh. rewrite Prh. apply Forall_app. split; [apply plain_no_colon; auto|].
    apply Forall_app. split; [repeat constructor|].
    apply Forall_app. split; [|apply tail_no_colon; auto].
    rewrite Hadd. destruct (keep_of r); [destruct (beqb (r_version r) _)|]; repeat constructor. }
  split; [exact Pst|]. split; [rewrite S9; exact Pv|]. split; [congruence|]. split; [exact Pchk|].
  assert (Hadd_te : filter (field_is te_name) (map client_field add) = []).
  { rewrite Hadd. destruct (keep_of r); [destruct (beqb (r_version r) _)|]; reflexivity. }
  assert (Hadd_cl : filter (field_is cl_name) (map client_field add) = []).
  { rewrite Hadd. destruct (keep_of r); [destruct (beqb (r_version r) _)|]; reflexivity. }
  split.
  { unfold te_fields. rewrite Prh, !map_app, !filter_app.
    rewrite (plain_not_named _ _ te_name (or_introl eq_refl) Ppl).
    rewrite Hadd_te, (tail_not_named tail te_name eq_refl eq_refl eq_refl Ptail). reflexivity. }
  split.
  { unfold cl_fields. rewrite Prh, !map_app, !filter_app.
    rewrite (plain_not_named _ _ cl_name (or_intror eq_refl) Ppl).
    rewrite Hadd_cl, (tail_not_named tail cl_name eq_refl eq_refl eq_refl Ptail).
    assert (E : filter (field_is cl_name) (map client_field [f_len n])
                = [(lit "Content-Length", strip_by is_sp_htab (z_to_dec n))]) by reflexivity.
    rewrite E, (z_to_dec_nonneg n Hn), (strip_digits _ (to_dec_digits _)). reflexivity. }
  split.
  { intros h Hh. rewrite Prh. apply in_or_app. left. apply in_map. exact Hh. }
  split.
  - intro Hk. rewrite Prh. apply in_or_app. right. apply in_or_app. right. apply in_or_app. left.
    rewrite Hadd, Hk. left. reflexivity.
  - intros Hk Hin. apply cfields_in in Hin as (h & Hh & Eh). rewrite Prh in Hh.
    assert (Hcc : beqb (cap (fst h)) (lit "Connection") = true).
    { unfold client_field, f_close in Eh. injection Eh as E1 _. rewrite E1. rewrite Hcap_conn. reflexivity. }
    apply in_app_or in Hh as [Hh|Hh].
    + pose proof (noconn_plain cap _ Ppl) as NC.
      unfold NoConn in NC. rewrite Forall_forall in NC. rewrite (NC h Hh) in Hcc. discriminate.
    + apply in_app_or in Hh as [Hh|Hh].
      * destruct Hh as [<-|[]]. cbn [fst f_len] in Hcc. rewrite Hcap_cl in Hcc. discriminate.
      * apply in_app_or in Hh as [Hh|Hh].
        -- rewrite Hadd, Hk in Hh. destruct (beqb (r_version r) _); [destruct Hh|].
           destruct Hh as [<-|[]]. unfold client_field, f_keep, f_close in Eh. discriminate.
        -- rewrite Forall_forall in Ptail. destruct (Ptail h Hh) as [E|[E|E]];
             unfold client_field, f_close in Eh; injection Eh as E1 _; rewrite E in E1; discriminate.
Qed.

End SrvLen.
