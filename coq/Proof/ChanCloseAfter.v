(* Proof/ChanCloseAfter.v -- after a worker's close decision (service(): close_when_flushed := True
   under requests_lock) the channel is Closed for good: requests is empty (or being emptied by
   that worker, which still holds the lock), received() appends nothing, no dispatcher entry is
   created and no service() is entered any more -- in every schedule, for every lookahead. *)
From Coq Require Import List Arith Bool Lia.
From WV Require Import Lib.Conc Model.ChanClose Proof.ChanCloseBase Proof.ChanCloseTok
  Proof.ChanCloseSafe Proof.ChanCloseInv.
Import ListNotations.

(* labels that must not occur after the decision *)
Definition loud (x : label) : bool :=
  match x with LQueued _ | LServiceStart _ | LAddTask _ => true | _ => false end.
Definition is_wclose (x : label) : bool :=
  match x with LDecide DWorkerClose => true | _ => false end.

(* a second monitor: (seen the decision, still fine) *)
Definition astep (m : bool * bool) (x : label) : bool * bool :=
  (fst m || is_wclose x, snd m && negb (fst m && loud x)).
Definition arun (tr : list label) (m : bool * bool) : bool * bool := fold_left astep tr m.

Lemma arun_app : forall a b m, arun (a ++ b) m = arun b (arun a m).
Proof. intros. unfold arun. apply fold_left_app. Qed.

Lemma arun_cons : forall x t m, arun (x :: t) m = arun t (astep m x).
Proof. reflexivity. Qed.

Lemma a_ok_sticky : forall tr m, snd m = false -> snd (arun tr m) = false.
Proof. induction tr as [|x tr IH]; intros m H; simpl; auto. apply IH. simpl. rewrite H. reflexivity. Qed.

Lemma a_seen_sticky : forall tr m, fst m = true -> fst (arun tr m) = true.
Proof. induction tr as [|x tr IH]; intros m H; simpl; auto. apply IH. simpl. rewrite H. reflexivity. Qed.

(* a step taken from a Closed state is quiet *)
Lemma closed_quiet : forall s c s' l, Inv s -> Closed s -> step s c = Some (s', l) ->
  forallb (fun x => negb (loud x)) l = true.
Proof.
  intros s c s' l I C H. destruct C as (_ & (N1 & N2 & N3 & N4 & N5) & Q & ST & _).
  destruct c as [e|w e|]; simpl in H.
  - io_cases H; try reflexivity; congruence.
  - pose proof (ST w) as STw. wk_cases H; try reflexivity; rewrite ?Heqw0 in *; simpl in *; try congruence.
  - sd_cases H; try reflexivity; congruence.
Qed.

(* the step that emits the decision leads to a Closed state *)
Lemma wclose_step_closes : forall s c s' l, Inv s -> step s c = Some (s', l) ->
  existsb is_wclose l = true -> Closed s'.
Proof.
  intros s c s' l I H E.
  destruct c as [e|w e|]; simpl in H.
  - io_cases H; simpl in E; try discriminate.
  - wk_cases H; simpl in E; try discriminate. apply worker_close_closes; auto.
  - sd_cases H; simpl in E; try discriminate.
Qed.

Lemma arun_quiet : forall l m, forallb (fun x => negb (loud x)) l = true -> snd (arun l m) = snd m.
Proof.
  induction l as [|x l IH]; intros m H; simpl in *; auto.
  apply andb_true_iff in H. destruct H as [H1 H2]. rewrite IH by exact H2. simpl.
  destruct (loud x); [discriminate|]. rewrite andb_false_r. simpl. apply andb_true_r.
Qed.

Lemma arun_seen_iff : forall l m, fst (arun l m) = fst m || existsb is_wclose l.
Proof.
  induction l as [|x l IH]; intros m; simpl.
  - rewrite orb_false_r. reflexivity.
  - rewrite IH. simpl. rewrite orb_assoc. reflexivity.
Qed.

(* labels of one step: at most one label, and the decision label comes alone *)
Lemma step_labels_short : forall s c s' l, step s c = Some (s', l) -> length l <= 1.
Proof.
  intros s c s' l H. destruct c as [e|w e|]; simpl in H.
  - io_cases H; simpl; lia.
  - wk_cases H; simpl; lia.
  - sd_cases H; simpl; lia.
Qed.

Theorem after_worker_close_monitor : forall L sched,
  let s := run step (init L) sched in
  let m := arun (trace step (init L) sched) (false, true) in
  snd m = true /\ (fst m = true -> Closed s).
Proof.
  intros L sched.
  pose proof (invariant_rule_tr _ _ _ step
    (fun s tr => Inv s /\ snd (arun tr (false, true)) = true /\
                 (fst (arun tr (false, true)) = true -> Closed s)) (init L)) as R.
  destruct R with (sched := sched) as (_ & A & B).
  - split; [apply Inv_init|]. simpl. split; [reflexivity | discriminate].
  - intros s tr c s' l (I & OK & CL) H.
    split; [eapply Inv_step; eauto|].
    rewrite arun_app. set (m := arun tr (false, true)) in *.
    pose proof (step_labels_short _ _ _ _ H) as SH.
    destruct (fst m) eqn:SEEN.
    + (* the decision was taken before: the state is Closed, the step is quiet *)
      pose proof (closed_quiet s c s' l I (CL eq_refl) H) as Q.
      split; [rewrite (arun_quiet l m Q); exact OK|].
      intros _. eapply closed_stable; eauto.
    + split.
      * (* nothing seen before this step: a single label cannot be refused *)
        destruct l as [|x [|y l]]; simpl in *; try lia; auto.
        rewrite SEEN, OK. reflexivity.
      * intro F. rewrite arun_seen_iff, SEEN in F. simpl in F.
        eapply wclose_step_closes; eauto.
  - split; assumption.
Qed.

(* by positions: nothing is queued, submitted or started after the worker's close decision *)
Theorem after_worker_close_positions : forall L sched i j x,
  let tr := trace step (init L) sched in
  nth_error tr i = Some (LDecide DWorkerClose) -> i < j -> nth_error tr j = Some x -> loud x = false.
Proof.
  intros L sched i j x tr Hi Lt Hj.
  destruct (after_worker_close_monitor L sched) as [OK _]. fold tr in OK.
  apply nth_error_split in Hi. destruct Hi as (a & b & E & La).
  assert (Hj' : nth_error b (j - i - 1) = Some x).
  { rewrite E in Hj. rewrite nth_error_app2 in Hj by lia. rewrite La in Hj.
    replace (j - i) with (S (j - i - 1)) in Hj by lia. exact Hj. }
  apply nth_error_split in Hj'. destruct Hj' as (b1 & b2 & E2 & _).
  destruct (loud x) eqn:LX; auto. exfalso.
  rewrite E, E2 in OK.
  replace (a ++ LDecide DWorkerClose :: b1 ++ x :: b2)
    with ((a ++ [LDecide DWorkerClose]) ++ b1 ++ x :: b2) in OK by (rewrite <- app_assoc; reflexivity).
  rewrite arun_app, arun_app in OK.
  assert (S1 : fst (arun (a ++ [LDecide DWorkerClose]) (false, true)) = true).
  { rewrite arun_app. simpl. apply orb_true_r. }
  pose proof (a_seen_sticky b1 _ S1) as S2.
  simpl in OK. rewrite a_ok_sticky in OK; [discriminate|].
  simpl. rewrite S2, LX. simpl. apply andb_false_r.
Qed.

Theorem after_worker_close_state : forall L sched,
  let s := run step (init L) sched in
  In (LDecide DWorkerClose) (trace step (init L) sched) ->
  Closed s /\ (reqs s = [] \/ exists w, at_close2 (wk s w) = true).
Proof.
  intros L sched s HI.
  destruct (after_worker_close_monitor L sched) as [_ CL].
  assert (F : fst (arun (trace step (init L) sched) (false, true)) = true).
  { apply in_split in HI. destruct HI as (a & b & E). rewrite E, arun_app, arun_cons.
    apply a_seen_sticky. simpl. apply orb_true_r. }
  specialize (CL F). split; [exact CL|]. destruct CL as (_ & _ & _ & _ & X). exact X.
Qed.
