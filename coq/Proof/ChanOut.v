(* The channel's output queue at byte level (Model/ChanOut.v) is a FIFO byte
   queue across buffer rotation, file-wrapper hand-over, partial sends, socket
   errors and the pop-and-close of drained buffers -- composed from the buffer
   refinements of C17 (Proof/BuffersRefine.v, Proof/BuffersRo.v). *)
From Coq Require Import List NArith ZArith Bool Lia ZifyBool Arith.
From WV Require Import Lib.PyBytes Model.Buffers Spec.Fifo Proof.Buffers Proof.BuffersRefine Proof.BuffersRo
  Model.ChanOut.
Import ListNotations.
Local Open Scope Z_scope.

(* ------------------------------------------------- one element of outbufs --- *)

Definition bok (b : outbuf) : Prop :=
  match b with
  | OB o => inv o
  | RO r => exists c p0 P, ro_inv c p0 P r
  end.

Definition babs (b : outbuf) : queue :=
  match b with OB o => abs o | RO r => ro_abs r end.

Definition is_ob (b : outbuf) : bool := match b with OB _ => true | RO _ => false end.

Definition cfg_ok (c : cfg) : Prop := 0 < c_sendbuf_len c.

Lemma b_len_abs b : bok b -> b_len b = q_len (babs b).
Proof.
  destruct b as [o | r]; cbn [bok b_len babs].
  - apply abs_len.
  - intros (c & p0 & P & Hi). unfold fb_len. symmetry. now apply ro_abs_len with (c := c) (p0 := p0) (P := P).
Qed.

Lemma q_peek_nonempty n q : 0 < n -> q <> [] -> q_peek n q <> [].
Proof.
  intros Hn Hq. unfold q_peek. destruct (n <? 0) eqn:E; [lia|].
  destruct q as [|x q]; [congruence|].
  destruct (Z.to_nat n) eqn:En; [lia|]. cbn. discriminate.
Qed.

(* outbuf.get(sendbuf_len): the buffer is untouched, the chunk is a prefix of what
   is queued, non-empty when anything is queued *)
Lemma b_get_spec c b : cfg_ok c -> bok b ->
  exists chunk, b_get c b = (b, Ok chunk) /\ is_prefix chunk (babs b) /\ (babs b <> [] -> chunk <> []).
Proof.
  intros Hc Hb. destruct b as [o | r]; cbn [bok b_get babs] in *.
  - destruct (get_noskip_spec (c_overflow c) o (c_sendbuf_len c) Hb) as (ch & H1 & H2).
    rewrite H1. exists ch. split; [reflexivity|]. destruct H2 as [-> | ->].
    + split; [apply q_peek_prefix | now apply q_peek_nonempty].
    + split; [apply is_prefix_refl | auto].
  - destruct Hb as (cc & p0 & P & Hi).
    assert (Hv : ro_valid (ROGet (c_sendbuf_len c) false)) by (cbn; unfold cfg_ok in Hc; lia).
    destruct (ro_step_refines cc p0 P r _ Hi Hv) as (_ & _ & Ho & Hs).
    cbn [ro_step ro_spec_of q_step snd fst] in Ho, Hs.
    destruct (ro_get r (c_sendbuf_len c) false) as [[r' res] | e] eqn:E; cbn [fst snd ro_out_ok] in Ho, Hs.
    + subst r' res. exists (q_peek (c_sendbuf_len c) (ro_abs r)). split; [reflexivity|].
      split; [apply q_peek_prefix | now apply q_peek_nonempty].
    + now elim Ho.
Qed.

(* outbuf.skip(n, True) with n no more than what is queued *)
Lemma b_skip_spec c b n : bok b -> Z.of_N n <= q_len (babs b) ->
  exists b', b_skip c b n = (b', Ok tt) /\ bok b' /\ babs b' = skipn (N.to_nat n) (babs b) /\ is_ob b' = is_ob b.
Proof.
  intros Hb Hn. destruct b as [o | r]; cbn [bok b_skip babs] in *.
  - destruct (skip_ok_spec (c_overflow c) o n true Hb Hn) as (o' & H1 & H2 & H3).
    rewrite H1. exists (OB o'). auto.
  - destruct Hb as (cc & p0 & P & Hi).
    destruct (ro_step_refines cc p0 P r (ROSkip n) Hi I) as (Hi' & Ha & Ho & _).
    cbn [ro_step ro_spec_of] in *. unfold q_next, q_step in *.
    destruct (Z.of_N n <=? q_len (ro_abs r)) eqn:E; [|lia].
    cbn [fst snd] in *. destruct (fb_skip r n) as [r' | e]; cbn [fst snd ro_out_ok] in *; [|now elim Ho].
    exists (RO r'). split; [reflexivity|]. split; [cbn [bok]; eauto|]. split; [exact Ha | reflexivity].
Qed.

(* ------------------------------------------------------- the channel --- *)

Definition cabs (ch : chan) : bytes := concat (map babs (outbufs ch)).

Fixpoint lastw (l : list outbuf) : bool :=
  match l with
  | [] => false
  | [b] => is_ob b
  | _ :: t => lastw t
  end.

Definition cinv (ch : chan) : Prop :=
  Forall bok (outbufs ch) /\ lastw (outbufs ch) = true /\ total_outbufs_len ch = q_len (cabs ch).

Lemma cinv_new : cinv chan_new.
Proof.
  unfold cinv, chan_new, cabs; cbn. repeat split; auto. constructor; [apply inv_new | constructor].
Qed.

Lemma lastw_split l : lastw l = true -> exists l' o, l = l' ++ [OB o].
Proof.
  induction l as [|b l IH]; cbn [lastw]; [discriminate|].
  destruct l as [|b2 l2].
  - destruct b as [o | r]; cbn; [|discriminate]. intros _. exists [], o. reflexivity.
  - intro H. destruct (IH H) as (l' & o & E). exists (b :: l'), o. now rewrite E.
Qed.

Lemma lastw_app l b : lastw (l ++ [b]) = is_ob b.
Proof.
  induction l as [|x l IH]; [reflexivity|]. cbn [app lastw].
  destruct (l ++ [b]) eqn:E; [destruct l; discriminate | exact IH].
Qed.

Lemma lastw_app2 l a b : lastw (l ++ [a; b]) = is_ob b.
Proof. change [a; b] with ([a] ++ [b]). rewrite app_assoc. apply lastw_app. Qed.

Lemma last_app_one {A} (l : list A) x d : last (l ++ [x]) d = x.
Proof. apply last_last. Qed.

Lemma set_last_app l x b : set_last (l ++ [x]) b = l ++ [b].
Proof.
  induction l as [|y l IH]; [reflexivity|]. cbn [app set_last].
  destruct (l ++ [x]) eqn:E; [destruct l; discriminate|]. now rewrite IH.
Qed.

Lemma q_len_app (a b : list N) : q_len (a ++ b) = q_len a + q_len b.
Proof. unfold q_len. rewrite app_length. lia. Qed.

Lemma q_len_nil_iff (q : list N) : q_len q <= 0 -> q = [].
Proof. unfold q_len. destruct q; cbn; [auto | lia]. Qed.

Lemma cabs_app ch l : cabs (mkchan (outbufs ch ++ l) (total_outbufs_len ch) (current_outbuf_count ch)) =
  cabs ch ++ concat (map babs l).
Proof. unfold cabs; cbn [outbufs]. now rewrite map_app, concat_app. Qed.

(* ----------------------------------------------------------- write_soon --- *)

Lemma match_app_one {A B} (l : list A) (x : A) (a b : B) :
  match l ++ [x] with [] => a | _ :: _ => b end = b.
Proof. destruct l; reflexivity. Qed.

Lemma write_bytes_spec c ch data : cinv ch ->
  exists ch', write_bytes_buf c ch data = (ch', Done) /\ cinv ch' /\ cabs ch' = cabs ch ++ data.
Proof.
  intros (Hf & Hl & Ht). unfold write_bytes_buf.
  set (rot := current_outbuf_count ch >=? c_high_watermark c).
  assert (Hx : exists bufs cur,
     (if rot then (outbufs ch ++ [OB o_new], 0) else (outbufs ch, current_outbuf_count ch)) = (bufs, cur) /\
     Forall bok bufs /\ lastw bufs = true /\ concat (map babs bufs) = cabs ch).
  { destruct rot.
    - do 2 eexists; split; [reflexivity|]. split; [|split].
      + apply Forall_app; split; [exact Hf | constructor; [apply inv_new | constructor]].
      + now rewrite lastw_app.
      + rewrite map_app, concat_app. cbn. unfold cabs. now rewrite !app_nil_r.
    - do 2 eexists; split; [reflexivity|]. auto. }
  destruct Hx as (bufs & cur & -> & Hf' & Hl' & Ha').
  destruct (lastw_split bufs Hl') as (l' & o & ->).
  rewrite (match_app_one l' (OB o)), last_app_one.
  apply Forall_app in Hf' as (Hf1 & Hf2). inversion Hf2 as [|? ? Ho _]; subst. cbn [bok] in Ho.
  destruct (append_spec (c_strbuf_limit c) (c_overflow c) o data Ho) as (o' & H1 & H2 & H3).
  rewrite H1, set_last_app. eexists; split; [reflexivity|].
  rewrite map_app, concat_app in Ha'. cbn [map concat babs] in Ha'. rewrite app_nil_r in Ha'.
  assert (Hc : cabs (mkchan (l' ++ [OB o']) (total_outbufs_len ch + lenZ data) (cur + lenZ data)) = cabs ch ++ data).
  { unfold cabs at 1; cbn [outbufs]. rewrite map_app, concat_app. cbn [map concat babs].
    rewrite app_nil_r, H3, app_assoc, Ha'. reflexivity. }
  split; [|exact Hc]. unfold cinv. cbn [outbufs total_outbufs_len]. split; [|split].
  - apply Forall_app; split; [exact Hf1 | constructor; [exact H2 | constructor]].
  - now rewrite lastw_app.
  - rewrite Hc, q_len_app, Ht. unfold q_len, lenZ. lia.
Qed.

Lemma write_file_spec ch rb : cinv ch -> bok (RO rb) ->
  cinv (write_file_buf ch rb) /\ cabs (write_file_buf ch rb) = cabs ch ++ ro_abs rb.
Proof.
  intros (Hf & Hl & Ht) Hb. unfold write_file_buf.
  assert (Hc : cabs (mkchan (outbufs ch ++ [RO rb; OB o_new]) (total_outbufs_len ch + fb_len rb) 0) = cabs ch ++ ro_abs rb).
  { unfold cabs; cbn [outbufs]. rewrite map_app, concat_app. cbn. now rewrite !app_nil_r. }
  split; [|exact Hc]. unfold cinv; cbn [outbufs total_outbufs_len]. split; [|split].
  - apply Forall_app; split; [exact Hf|]. constructor; [exact Hb|]. constructor; [apply inv_new | constructor].
  - now rewrite lastw_app2.
  - rewrite Hc, q_len_app, Ht. f_equal. exact (b_len_abs (RO rb) Hb).
Qed.

(* ---------------------------------------------------------- _flush_some --- *)

Definition phase_ok (ch : chan) (ph : phase) : Prop :=
  match ph, outbufs ch with
  | PInner l, b :: _ => l = q_len (babs b)
  | _, _ => True
  end.

Definition measure (ch : chan) (ph : phase) (ans : list answer) : nat :=
  (length ans + 2 * length (outbufs ch) + match ph with PHead => 1 | PInner _ => 0 end)%nat.

Definition nonempty (s : bytes) : Prop := s <> [].
Definition drained (b : outbuf) : Prop := babs b = [].

Record flush_ok (ch : chan) (wire : bytes) (sent : Z) (chunks : list bytes) (closed : list outbuf) (f : flushed) : Prop := {
  fo_stop : f_stop f = Done \/ f_stop f = SockRaised;
  fo_inv : cinv (f_chan f);
  fo_fifo : wire ++ cabs ch = f_wire f ++ cabs (f_chan f);
  fo_sent : f_sent f - sent = lenZ (f_wire f) - lenZ wire;
  fo_grow : is_prefix wire (f_wire f);
  fo_chunks : Forall nonempty chunks -> Forall nonempty (f_chunks f);
  fo_closed : Forall drained closed -> Forall drained (f_closed f);
  fo_count : current_outbuf_count (f_chan f) = current_outbuf_count ch;
  fo_suffix : exists k, (k <= length (outbufs ch))%nat /\
                 length (outbufs (f_chan f)) = (length (outbufs ch) - k)%nat /\
                 tl (outbufs (f_chan f)) = skipn (S k) (outbufs ch) /\
                 (forall b, hd_error (outbufs (f_chan f)) = Some b ->
                    exists b0, nth_error (outbufs ch) k = Some b0 /\ q_len (babs b) <= q_len (babs b0) /\ is_ob b = is_ob b0)
}.

Lemma firstn_prefix_eq (n : nat) (chunk q : list N) :
  is_prefix chunk q -> (n <= length chunk)%nat -> firstn n chunk = firstn n q.
Proof.
  intros (rest & ->) Hn. rewrite firstn_app. replace (n - length chunk)%nat with 0%nat by lia.
  cbn [firstn]. now rewrite app_nil_r.
Qed.

Lemma prefix_len (b q : list N) : is_prefix b q -> (length b <= length q)%nat.
Proof. intros (rest & ->). rewrite app_length. lia. Qed.

Lemma is_prefix_app_r (a b : list N) : is_prefix a (a ++ b).
Proof. now exists b. Qed.

Lemma is_prefix_trans (a b c : list N) : is_prefix a b -> is_prefix b c -> is_prefix a c.
Proof. intros (r1 & ->) (r2 & ->). exists (r1 ++ r2). now rewrite app_assoc. Qed.

Lemma flush_go_spec c : cfg_ok c -> forall fuel ch ph ans wire sent chunks closed,
  cinv ch -> phase_ok ch ph -> (measure ch ph ans < fuel)%nat ->
  flush_ok ch wire sent chunks closed (flush_go fuel c ch ph ans wire sent chunks closed).
Proof.
  intros Hc. induction fuel as [|fuel IH]; intros ch ph ans wire sent chunks closed Hi Hp Hm; [lia|].
  destruct Hi as (Hf & Hl & Ht).
  cbn [flush_go]. destruct (outbufs ch) as [|ob rest] eqn:Eo; [discriminate|].
  inversion Hf as [|? ? Hob Hrest]; subst.
  destruct ph as [|l].
  - (* PHead *)
    apply IH.
    + unfold cinv. rewrite Eo. auto.
    + unfold phase_ok. rewrite Eo. apply b_len_abs; exact Hob.
    + unfold measure in *. rewrite Eo in *. cbn [length] in *. lia.
  - unfold phase_ok in Hp. rewrite Eo in Hp. subst l.
    destruct (q_len (babs ob) >? 0) eqn:El.
    + (* a chunk is offered *)
      destruct (b_get_spec c ob Hc Hob) as (chunk & Hg & Hpre & Hne). rewrite Hg.
      assert (Hq : babs ob <> []) by (intro E; rewrite E in El; cbn in El; discriminate).
      specialize (Hne Hq).
      assert (Hsame : set_head ch ob (total_outbufs_len ch) = ch).
      { unfold set_head. rewrite Eo. cbn [tl]. destruct ch; cbn in *; now subst. }
      rewrite Hsame.
      assert (Hi0 : cinv ch) by (unfold cinv; rewrite Eo; auto).
      assert (Hsuf0 : exists k, (k <= length (outbufs ch))%nat /\
                 length (outbufs ch) = (length (outbufs ch) - k)%nat /\
                 tl (outbufs ch) = skipn (S k) (outbufs ch) /\
                 (forall b, hd_error (outbufs ch) = Some b ->
                    exists b0, nth_error (outbufs ch) k = Some b0 /\ q_len (babs b) <= q_len (babs b0) /\ is_ob b = is_ob b0)).
      { exists 0%nat. rewrite Eo. cbn. repeat split; try lia. intros b Hb. injection Hb as <-. exists ob. split; [reflexivity | split; [lia | reflexivity]]. }
      assert (Hch : Forall nonempty chunks -> Forall nonempty (chunks ++ [chunk])).
      { intro H. apply Forall_app; split; [exact H | constructor; [exact Hne | constructor]]. }
      destruct ans as [|a ans'].
      * (* no answer left: Sent 0 *)
        rewrite N.min_0_l. cbn [N.eqb].
        constructor; cbn [f_stop f_chan f_wire f_sent f_chunks f_closed]; auto; try lia.
        apply is_prefix_refl.
      * destruct a as [k|].
        2:{ constructor; cbn [f_stop f_chan f_wire f_sent f_chunks f_closed]; auto; try lia. apply is_prefix_refl. }
        set (n := N.min k (N.of_nat (length chunk))).
        destruct (n =? 0)%N eqn:En.
        -- constructor; cbn [f_stop f_chan f_wire f_sent f_chunks f_closed]; auto; try lia. apply is_prefix_refl.
        -- assert (Hn1 : (N.to_nat n <= length chunk)%nat) by lia.
           assert (Hn2 : Z.of_N n <= q_len (babs ob)).
           { pose proof (prefix_len _ _ Hpre). unfold q_len. lia. }
           destruct (b_skip_spec c ob n Hob Hn2) as (ob2 & Hs & Hob2 & Habs2 & Hisob).
           rewrite Hs. unfold set_head at 1. rewrite Eo. cbn [tl outbufs total_outbufs_len current_outbuf_count].
           set (ch2 := mkchan (ob2 :: rest) (total_outbufs_len ch - Z.of_N n) (current_outbuf_count ch)).
           assert (Hc2 : cabs ch = firstn (N.to_nat n) chunk ++ cabs ch2).
           { unfold cabs. rewrite Eo. cbn [outbufs ch2 map concat]. rewrite Habs2, app_assoc.
             rewrite (firstn_prefix_eq _ _ _ Hpre Hn1), firstn_skipn. reflexivity. }
           assert (Hi2 : cinv ch2).
           { unfold cinv. cbn [outbufs ch2 total_outbufs_len]. split; [|split].
             - constructor; assumption.
             - cbn [lastw] in *. destruct rest; [now rewrite Hisob | exact Hl].
             - rewrite Ht, Hc2, q_len_app. unfold q_len. rewrite firstn_length_le by lia. lia. }
           assert (Hp2 : phase_ok ch2 (PInner (q_len (babs ob) - Z.of_N n))).
           { unfold phase_ok. cbn [outbufs ch2]. rewrite Habs2. unfold q_len. rewrite skipn_length.
             pose proof (prefix_len _ _ Hpre). lia. }
           assert (Hm2 : (measure ch2 (PInner (q_len (babs ob) - Z.of_N n)) ans' < fuel)%nat).
           { unfold measure in *. rewrite Eo in Hm. cbn [outbufs ch2 length] in *. lia. }
           specialize (IH ch2 (PInner (q_len (babs ob) - Z.of_N n)) ans'
                          (wire ++ firstn (N.to_nat n) chunk) (sent + Z.of_N n) (chunks ++ [chunk]) closed Hi2 Hp2 Hm2).
           destruct IH as [S1 S2 S3 S4 S5 S6 S7 S8 S9].
           constructor; auto.
           ++ rewrite Hc2, app_assoc. exact S3.
           ++ unfold lenZ in *. rewrite app_length, firstn_length_le in S4 by lia. lia.
           ++ eapply is_prefix_trans; [apply is_prefix_app_r | exact S5].
           ++ destruct S9 as (kk & K1 & K2 & K3 & K4). exists kk.
              rewrite Eo. cbn [outbufs ch2 length] in *. repeat split; auto.
              intros b Hb. destruct (K4 b Hb) as (b0 & N0 & L0 & I0).
              destruct kk as [|kk]; cbn [nth_error] in *.
              ** injection N0 as <-. exists ob. split; [reflexivity|]. rewrite Habs2 in L0.
                 split; [unfold q_len in *; rewrite skipn_length in L0; lia | congruence].
              ** exists b0. auto.
    + (* the head is drained *)
      assert (Hd : babs ob = []) by (apply q_len_nil_iff; lia).
      destruct rest as [|b2 rest'].
      * constructor; cbn [f_stop f_chan f_wire f_sent f_chunks f_closed]; auto; try lia.
        -- unfold cinv. rewrite Eo. auto.
        -- apply is_prefix_refl.
        -- exists 0%nat. rewrite Eo. cbn. repeat split; try lia. intros b Hb. injection Hb as <-. exists ob. split; [reflexivity | split; [lia | reflexivity]].
      * set (ch2 := mkchan (b2 :: rest') (total_outbufs_len ch) (current_outbuf_count ch)).
        assert (Hc2 : cabs ch = cabs ch2).
        { unfold cabs. rewrite Eo. cbn [outbufs ch2 map concat]. rewrite Hd. reflexivity. }
        assert (Hi2 : cinv ch2).
        { unfold cinv. cbn [outbufs ch2 total_outbufs_len]. split; [exact Hrest | split; [exact Hl | now rewrite <- Hc2]]. }
        assert (Hm2 : (measure ch2 PHead ans < fuel)%nat).
        { unfold measure in *. rewrite Eo in Hm. cbn [outbufs ch2 length] in *. lia. }
        specialize (IH ch2 PHead ans wire sent chunks (closed ++ [ob]) Hi2 I Hm2).
        destruct IH as [S1 S2 S3 S4 S5 S6 S7 S8 S9].
        constructor; auto.
        -- now rewrite Hc2.
        -- intro H. apply S7. apply Forall_app; split; [exact H | constructor; [exact Hd | constructor]].
        -- destruct S9 as (kk & K1 & K2 & K3 & K4). exists (S kk).
           rewrite Eo. cbn [outbufs ch2 length] in *. repeat split; auto; try lia.
Qed.

Theorem flush_some_spec c ch ans : cfg_ok c -> cinv ch ->
  flush_ok ch [] 0 [] [] (flush_some c ch ans).
Proof.
  intros Hc Hi. apply flush_go_spec; auto; [exact I|].
  unfold measure, flush_fuel. lia.
Qed.

(* --------------------------------------------------------- send_continue --- *)

Lemma send_continue_spec c ch ans : cfg_ok c -> cinv ch ->
  let w := send_continue c ch ans in
  cinv (w_chan w) /\
  cabs ch ++ continue_payload = (match w_flush w with Some f => f_wire f | None => [] end) ++ cabs (w_chan w) /\
  w_stop w = Done.
Proof.
  intros Hc (Hf & Hl & Ht). cbv zeta. unfold send_continue.
  destruct (lastw_split _ Hl) as (l' & o & El). rewrite El.
  rewrite (match_app_one l' (OB o)), last_app_one.
  assert (Ho : inv o).
  { rewrite El in Hf. apply Forall_app in Hf as [_ Hx]. inversion Hx; subst. assumption. }
  destruct (append_spec (c_strbuf_limit c) (c_overflow c) o continue_payload Ho) as (o' & H1 & H2 & H3).
  rewrite H1, set_last_app.
  set (ch1 := mkchan (l' ++ [OB o']) (total_outbufs_len ch + lenZ continue_payload)
                     (current_outbuf_count ch + lenZ continue_payload)).
  assert (Hc1 : cabs ch1 = cabs ch ++ continue_payload).
  { unfold cabs. cbn [outbufs ch1]. rewrite El, !map_app, !concat_app. cbn [map concat babs].
    rewrite !app_nil_r, H3, app_assoc. reflexivity. }
  assert (Hi1 : cinv ch1).
  { unfold cinv. cbn [outbufs ch1 total_outbufs_len]. split; [|split].
    - rewrite El in Hf. apply Forall_app in Hf as [Hf1 _].
      apply Forall_app; split; [exact Hf1 | constructor; [exact H2 | constructor]].
    - now rewrite lastw_app.
    - fold ch1. rewrite Hc1, q_len_app, Ht. unfold q_len, lenZ. lia. }
  destruct (flush_some_spec c ch1 ans Hc Hi1) as [S1 S2 S3 S4 S5 S6 S7 S8 S9].
  cbn [w_chan w_flush w_stop]. split; [exact S2|]. split.
  - rewrite <- Hc1. exact S3.
  - destruct S1 as [-> | ->]; reflexivity.
Qed.

(* ------------------------------------------------------------ histories --- *)

Definition wdata_ok (d : wdata) : Prop :=
  match d with WBytes _ => True | WFile rb => bok (RO rb) end.

Definition cop_ok (p : cop) : Prop :=
  match p with CWrite d _ => wdata_ok d | CFlush _ | CContinue _ => True end.

Lemma written_by_file rb ans : written_by (CWrite (WFile rb) ans) = ro_abs rb.
Proof. reflexivity. Qed.

Lemma cstep_spec c ch p : cfg_ok c -> cinv ch -> cop_ok p ->
  let r := cstep c ch p in
  cinv (fst r) /\
  cabs ch ++ written_by p = s_wire (snd r) ++ cabs (fst r) /\
  (s_stop (snd r) = Done \/ s_stop (snd r) = SockRaised).
Proof.
  intros Hc Hi Hp. destruct p as [d ans | ans | ans]; cbn [cstep].
  3:{ destruct (send_continue_spec c ch ans Hc Hi) as (H1 & H2 & H3). cbv zeta in H1, H2, H3.
      cbn [fst snd s_wire s_stop written_by]. rewrite H3. auto. }
  - unfold write_soon. destruct (w_truthy d) eqn:Et; cbn [negb].
    2:{ destruct d as [[|x data] | rb]; try discriminate. cbn. rewrite !app_nil_r. auto. }
    assert (Hw : exists ch1, (match d with
                              | WBytes data => write_bytes_buf c ch data
                              | WFile rb => (write_file_buf ch rb, Done)
                              end) = (ch1, Done) /\ cinv ch1 /\ cabs ch1 = cabs ch ++ written_by (CWrite d ans)).
    { destruct d as [data | rb].
      - destruct (write_bytes_spec c ch data Hi) as (ch1 & H1 & H2 & H3). eauto.
      - destruct (write_file_spec ch rb Hi Hp) as (H1 & H2). eexists; split; [reflexivity|]. auto. }
    destruct Hw as (ch1 & -> & Hi1 & Ha1).
    destruct (total_outbufs_len ch1 >=? c_send_bytes c).
    + destruct (flush_some_spec c ch1 ans Hc Hi1) as [S1 S2 S3 S4 S5 S6 S7 S8 S9].
      cbn [w_chan w_flush w_stop fst snd s_wire s_stop]. split; [exact S2|]. split.
      * rewrite <- Ha1. exact S3.
      * destruct S1 as [-> | ->]; auto.
    + cbn. rewrite Ha1. auto.
  - destruct (flush_some_spec c ch ans Hc Hi) as [S1 S2 S3 S4 S5 S6 S7 S8 S9].
    cbn [fst snd s_wire s_stop written_by]. rewrite app_nil_r. auto.
Qed.

(* every history: what went to the socket followed by what is still queued is
   exactly what the application wrote, in order; the bookkeeping is exact *)
Theorem out_fifo c ps : cfg_ok c -> forall ch, cinv ch -> Forall cop_ok ps ->
  let r := crun c ch ps in
  cinv (fst r) /\
  cabs ch ++ concat (map written_by ps) = snd r ++ cabs (fst r).
Proof.
  intro Hc. induction ps as [|p ps IH]; intros ch Hi Hp; cbn [crun map concat].
  - cbn. now rewrite app_nil_r.
  - inversion Hp as [|? ? Hp1 Hp2]; subst.
    destruct (cstep_spec c ch p Hc Hi Hp1) as (H1 & H2 & _). cbv zeta in H1, H2.
    destruct (cstep c ch p) as [ch1 o] eqn:E1. cbn [fst snd] in *.
    specialize (IH ch1 H1 Hp2). cbv zeta in IH.
    destruct (crun c ch1 ps) as [ch2 w] eqn:E2. cbn [fst snd] in *.
    destruct IH as (H3 & H4). split; [exact H3|].
    rewrite app_assoc, H2, <- app_assoc, H4, app_assoc. reflexivity.
Qed.

Corollary out_fifo_new c ps : cfg_ok c -> Forall cop_ok ps ->
  let r := crun c chan_new ps in
  concat (map written_by ps) = snd r ++ cabs (fst r) /\
  total_outbufs_len (fst r) = q_len (cabs (fst r)) /\
  lastw (outbufs (fst r)) = true.
Proof.
  intros Hc Hp. destruct (out_fifo c ps Hc chan_new cinv_new Hp) as (H1 & H2). cbv zeta in *.
  split; [exact H2|]. destruct H1 as (_ & Hl & Ht). auto.
Qed.

(* ------------------------------------------------------------- examples --- *)

(* the hypotheses are met by a history that rotates buffers (high watermark 4),
   hands over a file buffer, migrates a buffer to a file representation
   (STRBUF_LIMIT 3, overflow 6), sends partially (2 bytes per send call, chunks
   of at most 3), hits a socket error, and pops drained buffers *)
Definition ex_cfg : cfg := mkcfg 3 6 4 100 3.
Definition ex_file : fbuf := mkfbuf KRo (mkfile [9;8;7;6;5;4]%N 1 false) 4.
Definition ex_ops : list cop :=
  [CWrite (WBytes [1;2;3]%N) []; CWrite (WBytes [4;5]%N) []; CWrite (WBytes [6;7;8;9]%N) [];
   CFlush [Sent 2; Sent 2; Raise; Sent 9];
   CWrite (WFile ex_file) []; CWrite (WBytes [10;11]%N) [];
   CFlush [Sent 2; Sent 2; Sent 2; Sent 2; Sent 2; Sent 0; Sent 5]].

Example ex_ops_ok : cfg_ok ex_cfg /\ Forall cop_ok ex_ops.
Proof.
  split; [reflexivity|]. repeat constructor. cbn [cop_ok wdata_ok bok].
  exists [9;8;7;6;5;4]%N, 1%nat, 4. unfold ro_inv, ex_file; cbn. repeat split; lia.
Qed.

Example ex_run :
  let r := crun ex_cfg chan_new ex_ops in
  snd r = [1;2;3;4;5;6;7;8;9;8;7;6;5]%N /\ cabs (fst r) = [10;11]%N /\
  length (outbufs (fst r)) = 1%nat /\ total_outbufs_len (fst r) = 2.
Proof. vm_compute. repeat split. Qed.

(* the statement of flush_some_spec spelled out *)
Theorem flush_some_explicit c ch ans : cfg_ok c -> cinv ch ->
  let f := flush_some c ch ans in
  (f_stop f = Done \/ f_stop f = SockRaised) /\
  cinv (f_chan f) /\
  cabs ch = f_wire f ++ cabs (f_chan f) /\
  f_sent f = lenZ (f_wire f) /\
  flush_result f = negb (lenZ (f_wire f) =? 0) /\
  Forall nonempty (f_chunks f) /\
  Forall drained (f_closed f) /\
  current_outbuf_count (f_chan f) = current_outbuf_count ch.
Proof.
  intros Hc Hi. destruct (flush_some_spec c ch ans Hc Hi) as [S1 S2 S3 S4 S5 S6 S7 S8 S9]. cbv zeta.
  cbn [app] in S3. change (lenZ []) with 0 in S4.
  assert (Hs : f_sent (flush_some c ch ans) = lenZ (f_wire (flush_some c ch ans))) by lia.
  split; [exact S1|]. split; [exact S2|]. split; [exact S3|]. split; [exact Hs|].
  split; [|split; [apply S6; constructor | split; [apply S7; constructor | exact S8]]].
  unfold flush_result. rewrite Hs. unfold lenZ. destruct (f_wire (flush_some c ch ans)); cbn [length]; lia.
Qed.

(* An interim response is placed once, after everything written before send_continue() and before
   everything written after it -- whatever buffers are queued (a file-wrapper buffer of the previous
   response included), however the socket behaves. *)
Theorem continue_in_order c ps1 ps2 ans : cfg_ok c -> Forall cop_ok ps1 -> Forall cop_ok ps2 ->
  let r := crun c chan_new (ps1 ++ CContinue ans :: ps2) in
  snd r ++ cabs (fst r) = concat (map written_by ps1) ++ continue_payload ++ concat (map written_by ps2).
Proof.
  intros Hc H1 H2.
  assert (Hok : Forall cop_ok (ps1 ++ CContinue ans :: ps2)).
  { apply Forall_app; split; [exact H1 | constructor; [exact I | exact H2]]. }
  destruct (out_fifo_new c _ Hc Hok) as (E & _). cbv zeta in *. rewrite <- E.
  rewrite map_app, concat_app. cbn [map concat written_by]. reflexivity.
Qed.

(* a deferred interim response while a file-wrapper response is still queued: it goes behind the file *)
Example ex_continue_behind_file :
  let r := crun ex_cfg chan_new [CWrite (WBytes [1;2]%N) []; CWrite (WFile ex_file) []; CContinue (Sent 1 :: repeat (Sent 100) 20)] in
  snd r = [1;2;8;7;6;5]%N ++ continue_payload /\ cabs (fst r) = [].
Proof. vm_compute. split; reflexivity. Qed.
