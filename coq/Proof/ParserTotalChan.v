(* HTTPChannel.received (sequential model): totality -- no escaping exception,
   no spinning, the request under construction stays well-formed. *)
From Coq Require Import List NArith ZArith Bool Lia Arith.
From RecordUpdate Require Import RecordUpdate.
From WV Require Import Lib.PyBytes Lib.Regex Gen.GenRegex Model.Receiver Model.UrlSplit Model.Parser Model.ChanSeq
  Proof.PyBytesFacts Proof.ReceiverTotal Proof.ParserTotal.
Import ListNotations.
Local Open Scope N_scope.

Ltac csimpl := cbn [set ChanSeq.request ChanSeq.requests ChanSeq.sent_continue ChanSeq.will_close
  ChanSeq.close_when_flushed ChanSeq.outlog ChanSeq.add_task_calls] in *.

Definition wf_chan (a : adj) (c : chan) : Prop :=
  match request c with None => True | Some r => wf_p a r end.

Lemma wf_p_expect a r : wf_p a r -> headers_finished r = true ->
  wf_p a (r <| expect_continue := false |>).
Proof.
  intros (Wc & We & Wb & Wh & Wbb) Hhf. unfold wf_p, wf_body in *. psimpl.
  split; [exact Wc|]. split; [exact We|]. split; [|split; [exact Wh | exact Wbb]].
  destruct (body r) as [[f|c]|]; auto.
  destruct Wb as (hp & -> & _). discriminate.
Qed.

(* one iteration of the `while data:` loop, after parser.received returned *)
Definition post (c : chan) (r1 : parser) : chan :=
      let c := c <| request := Some r1 |> in
      let '(c, r2) :=
        if expect_continue r1 && headers_finished r1
           && (match requests c with [] => true | _ => false end) && negb (sent_continue c)
        then send_continue c r1 else (c, r1) in
      let c := c <| request := Some r2 |> in
        if completed r2 then
          let c := c <| sent_continue := false |> in
          let c :=
            if negb (empty r2) then
              let c := c <| requests := requests c ++ [r2] |> in
              if (length (requests c) =? 1)%nat
              then c <| add_task_calls := S (add_task_calls c) |> else c
            else c in
          c <| request := None |>
        else c.

Lemma received_loop_eq fuel a c data :
  received_loop fuel a c data =
  match fuel with
  | O => COutOfFuel
  | S f =>
    let r0 := match request c with Some r => r | None => parser_init end in
    match Parser.received a r0 data with
    | REscapes => CEscapes
    | ROutOfFuel => COutOfFuel
    | RUnmodelled => CUnmodelled
    | ROk r1 n =>
      let c := post c r1 in
      if (Z.of_nat (length data) <=? n)%Z then COk c
      else received_loop f a c (skipn (Z.to_nat n) data)
    end
  end.
Proof.
  destruct fuel; [reflexivity|]. cbn [received_loop]. cbv zeta.
  destruct (received a _ data); try reflexivity.
  unfold post. destruct (expect_continue p && headers_finished p && _ && _); reflexivity.
Qed.

Lemma post_wf a c r1 : (completed r1 = true \/ wf_p a r1) -> wf_chan a (post c r1).
Proof.
  intros H. unfold post.
  destruct (expect_continue r1 && headers_finished r1 && _ && _) eqn:Hc.
  - apply andb_true_iff in Hc as [Hc _]. apply andb_true_iff in Hc as [Hc _].
    apply andb_true_iff in Hc as [_ Hhf].
    unfold send_continue. cbv beta iota zeta. psimpl.
    destruct (completed r1) eqn:Hcomp.
    + unfold wf_chan. destruct (negb (empty r1)); [destruct (_ =? _)%nat|]; csimpl; exact I.
    + unfold wf_chan. csimpl. destruct H as [H|H]; [congruence|]. apply wf_p_expect; auto.
  - cbv beta iota zeta. destruct (completed r1) eqn:Hcomp.
    + unfold wf_chan. destruct (negb (empty r1)); [destruct (_ =? _)%nat|]; csimpl; exact I.
    + unfold wf_chan. csimpl. destruct H as [H|H]; [congruence|]. exact H.
Qed.

Lemma loop_total a fuel : forall c data, wf_chan a c -> data <> [] -> (length data < fuel)%nat ->
  received_loop fuel a c data = CUnmodelled \/
  exists c', received_loop fuel a c data = COk c' /\ wf_chan a c'.
Proof.
  induction fuel as [|f IH]; intros c data W Hd Hl; [lia|].
  rewrite received_loop_eq. cbv zeta.
  set (r0 := match request c with Some r => r | None => parser_init end).
  assert (W0 : wf_p a r0).
  { subst r0. unfold wf_chan in W. destruct (request c); [exact W | apply wf_p_init]. }
  destruct (received_total a r0 data W0 Hd) as [E|(r1 & n & E & Bn & Hr)]; rewrite E; [left; reflexivity|].
  pose proof (post_wf a c r1 Hr) as Wp.
  destruct (Z.of_nat (length data) <=? n)%Z eqn:Hn.
  - right. eexists. split; [reflexivity | exact Wp].
  - apply Z.leb_gt in Hn. apply IH; auto.
    + intros E0. assert (L : length (skipn (Z.to_nat n) data) = 0%nat) by (rewrite E0; reflexivity).
      rewrite skipn_length in L. lia.
    + rewrite skipn_length. lia.
Qed.

(* HTTPChannel.received never lets an exception escape, never spins, and leaves
   the request under construction well-formed *)
Theorem chan_received_total a c data : wf_chan a c ->
  chan_received a c data = CUnmodelled \/
  exists c', chan_received a c data = COk c' /\ wf_chan a c'.
Proof.
  intros W. unfold chan_received. destruct data as [|x data]; [right; eauto|].
  destruct (will_close c || close_when_flushed c); [right; eauto|].
  apply loop_total; [exact W | discriminate | simpl; lia].
Qed.

Lemma wf_chan_init a : wf_chan a chan_init.
Proof. exact I. Qed.

Theorem feed_total a : forall reads c, wf_chan a c ->
  feed a c reads = CUnmodelled \/ exists c', feed a c reads = COk c' /\ wf_chan a c'.
Proof.
  intros reads. induction reads as [|d rest IH]; intros c W; [right; exists c; split; [reflexivity | exact W]|].
  cbn [feed]. destruct (chan_received_total a c d W) as [E|(c' & E & W')]; rewrite E; auto.
Qed.
