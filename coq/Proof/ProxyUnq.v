(* undquote against the RFC 9110 reading of a quoted-string: the value of
   DQUOTE body DQUOTE is body with every quoted-pair replaced by its second
   character (Spec.Unq), for every well-formed body of any length. *)
From Coq Require Import List NArith ZArith Bool Lia.
From WV Require Import Lib.PyBytes Lib.PyStrProxy Lib.Regex Lib.RegexDec Gen.GenRegex Spec.Grammar Model.Proxy
  Spec.ProxySpec Proof.ProxyDict Proof.ProxyStr Proof.ProxyStages Proof.ProxyCats.
Import ListNotations.
Local Open Scope N_scope.

Lemma quoted_pair_gate_exact : forall s, bytes_ok s -> (Lang p_QUOTED_PAIR_RE s <-> Lang quoted_pair s).
Proof. apply equiv_check_sound. vm_compute. reflexivity. Qed.

Lemma quoted_pair_matches c : matches quoted_pair [92; c] = true -> matches p_QUOTED_PAIR_RE [92; c] = true.
Proof.
  intro H. apply matches_correct in H. apply matches_correct.
  apply quoted_pair_gate_exact; auto. apply (Lang_bounded _ _ H). vm_compute. reflexivity.
Qed.

Lemma unescape_text c t : c <> 92 -> unescape (c :: t) = c :: unescape t.
Proof.
  intro Hc. destruct t as [|d t]; [reflexivity|].
  change (unescape (c :: d :: t)) with
    (if matches p_QUOTED_PAIR_RE [c; d] then d :: unescape t else c :: unescape (d :: t)).
  destruct (matches p_QUOTED_PAIR_RE [c; d]) eqn:E; auto.
  apply quoted_pair_first in E. congruence.
Qed.

Lemma unescape_pair c t : matches quoted_pair [92; c] = true -> unescape (92 :: c :: t) = c :: unescape t.
Proof.
  intro H. change (unescape (92 :: c :: t)) with
    (if matches p_QUOTED_PAIR_RE [92; c] then c :: unescape t else 92 :: unescape (c :: t)).
  rewrite (quoted_pair_matches c H). reflexivity.
Qed.

Lemma body_unq body : Lang (Star (Alt qdtext quoted_pair)) body -> Unq body (unescape body).
Proof.
  intro H. remember (Star (Alt qdtext quoted_pair)) as r eqn:Er.
  induction H; try discriminate.
  - constructor.
  - injection Er as ->. specialize (IHLang2 eq_refl). clear IHLang1.
    apply Lang_Alt in H as [H|H].
    + (* qdtext: one character, not a backslash *)
      unfold qdtext in H. inversion H as [|rs x Hin| | | | | |]; subst. cbn [app].
      assert (Hx : x <> 92).
      { intro E. subst x. vm_compute in Hin. discriminate. }
      rewrite unescape_text by exact Hx. apply UnqText; auto.
      apply matches_correct. exact H.
    + (* quoted-pair: backslash and one character *)
      pose proof H as Hm. apply matches_correct in Hm.
      unfold quoted_pair in H. apply Lang_Cat in H as (u & w & -> & Hu & Hw). apply Lang_Sym in Hu. subst u.
      inversion Hw as [|rs x Hin| | | | | |]; subst. cbn [app] in *.
      rewrite unescape_pair by exact Hm. apply UnqPair; auto.
Qed.

(* the statement for undquote itself *)
Lemma undquote_quoted v : matches quoted_string v = true ->
  exists body, v = 34 :: body ++ [34] /\ exists u, undquote v = Ok u /\ Unq body u.
Proof.
  intro Hm. pose proof Hm as Hl. apply matches_correct in Hl. unfold quoted_string in Hl.
  apply Lang_Cat in Hl as (a & w & -> & Ha & Hw). apply Lang_Sym in Ha. subst a.
  apply Lang_Cat in Hw as (body & z & -> & Hb & Hz). apply Lang_Sym in Hz. subst z.
  exists body. split; [reflexivity|].
  rewrite undquote_spec. unfold bad_quoting. rewrite Hm, andb_false_r.
  change (starts_dq ([34] ++ body ++ [34])) with true. cbv iota.
  eexists. split; [reflexivity|].
  unfold mid. cbn [app tl]. rewrite removelast_last. apply body_unq. exact Hb.
Qed.

(* an unquoted value is taken as it is *)
Lemma undquote_plain v : starts_dq v = false -> ends_dq v = false -> undquote v = Ok v.
Proof.
  intros H1 H2. rewrite undquote_spec. unfold bad_quoting. rewrite H1, H2. reflexivity.
Qed.

Lemma undquote_summary v :
  undquote v = (if bad_quoting v then Exn ValueError
                else Ok (if starts_dq v then unescape (mid v) else v)) /\
  (matches quoted_string v = true ->
   exists body, v = 34 :: body ++ [34] /\ exists u, undquote v = Ok u /\ Unq body u) /\
  (starts_dq v = false -> ends_dq v = false -> undquote v = Ok v).
Proof. split; [apply undquote_spec|split; [apply undquote_quoted|apply undquote_plain]]. Qed.
