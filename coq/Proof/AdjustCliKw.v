(* C20, command lines of any length.  Part 2: parse_args' option loop and
   epilogue, runner.run's clean-up, and the keyword form; the main theorem
   cli_construct_spec : forall e argv, cli_construct e argv = cli_spec e argv. *)
From Coq Require Import List NArith ZArith Bool Lia.
From WV Require Import Lib.PyBytes Gen.GenAdjust Model.Adjust Proof.AdjustSpec Proof.AdjustChecks
  Proof.AdjustLists Proof.AdjustCli Spec.AdjustCli Proof.AdjustCliAll.
Import ListNotations.
Local Open Scope N_scope.

(* ---- dictionaries ---- *)
Lemma beqb_sym : forall a b, beqb a b = beqb b a.
Proof.
  induction a as [|x a IH]; intros [|y b]; cbn [beqb]; try reflexivity.
  rewrite N.eqb_sym, IH. reflexivity.
Qed.

Lemma beqb_true : forall a, beqb a a = true.
Proof. intro a. apply beqb_eq. reflexivity. Qed.

Section Dict2.
  Context {V : Type}.

  Lemma keys_set : forall k (v : V) d,
    map fst (dict_set k v d) = if memstr k (map fst d) then map fst d else map fst d ++ [k].
  Proof.
    induction d as [|[k' v'] d IH]; [reflexivity|].
    cbn [dict_set map fst]. unfold memstr in *. cbn [existsb].
    destruct (beqb k k') eqn:E; cbn [orb map fst]; [reflexivity|].
    rewrite IH. destruct (existsb (beqb k) (map fst d)); reflexivity.
  Qed.

  Lemma get_set : forall p k (v : V) d,
    dict_get p (dict_set k v d) = if beqb p k then Some v else dict_get p d.
  Proof.
    induction d as [|[k' v'] d IH].
    - reflexivity.
    - cbn [dict_set]. destruct (beqb k k') eqn:E.
      + apply beqb_eq in E. subst k'. cbn [dict_get]. destruct (beqb p k); reflexivity.
      + cbn [dict_get]. rewrite IH. destruct (beqb p k') eqn:E2; [|reflexivity].
        destruct (beqb p k) eqn:E3; [|reflexivity].
        apply beqb_eq in E2, E3. subst. rewrite beqb_true in E. discriminate.
  Qed.

  Lemma in_dict_get : forall k (v : V) d, NoDup (map fst d) -> In (k, v) d -> dict_get k d = Some v.
  Proof.
    induction d as [|[k' v'] d IH]; intros ND H; [contradiction|].
    cbn [map fst] in ND. inversion ND as [|? ? Hn ND']; subst.
    cbn [dict_get]. destruct H as [H|H].
    - injection H as -> ->. rewrite beqb_true. reflexivity.
    - destruct (beqb k k') eqn:E.
      + apply beqb_eq in E. subst k'. exfalso. apply Hn. apply in_map_iff. exists (k, v). auto.
      + apply IH; assumption.
  Qed.
End Dict2.

(* ---- the state of parse_args' loop ---- *)
Definition hdr (h c : bool) : kwargs := [(k_help, VBool h); (k_call, VBool c); (k_app, VNone)].
Definition vstrs (rt : list (str * str)) : kwargs := map (fun ks => (fst ks, VStr (snd ks))) rt.

Lemma initial_hdr : initial_kw = hdr false false.
Proof. vm_compute. reflexivity. Qed.

Definition fresh (p : str) : bool := negb (beqb p k_help) && negb (beqb p k_call) && negb (beqb p k_app).

Lemma fresh_get : forall p h c t, fresh p = true -> dict_get p (hdr h c ++ t) = dict_get p t.
Proof.
  intros p h c t H. unfold fresh in H.
  apply andb_true_iff in H as [H H3]. apply andb_true_iff in H as [H1 H2].
  apply negb_true_iff in H1, H2, H3.
  unfold hdr. cbn [app dict_get]. rewrite H1, H2, H3. reflexivity.
Qed.

Lemma fresh_set : forall p v h c t, fresh p = true ->
  dict_set p v (hdr h c ++ t) = hdr h c ++ dict_set p v t.
Proof.
  intros p v h c t H. unfold fresh in H.
  apply andb_true_iff in H as [H H3]. apply andb_true_iff in H as [H1 H2].
  apply negb_true_iff in H1, H2, H3.
  unfold hdr. cbn [app dict_set]. rewrite H1, H2, H3. reflexivity.
Qed.

Lemma vstrs_get : forall k rt, dict_get k (vstrs rt) = option_map VStr (dict_get k rt).
Proof.
  induction rt as [|[k' s] rt IH]; [reflexivity|].
  cbn [vstrs map dict_get fst snd]. destruct (beqb k k'); [reflexivity|]. exact IH.
Qed.

Lemma vstrs_set : forall k s rt, dict_set k (VStr s) (vstrs rt) = vstrs (dict_set k s rt).
Proof.
  induction rt as [|[k' s'] rt IH]; [reflexivity|].
  cbn [vstrs map dict_set fst snd]. destruct (beqb k k'); [reflexivity|].
  cbn [map fst snd]. f_equal. exact IH.
Qed.

(* the raw strings parse_args stores, per setting *)
Definition old_of (p : str) (rt : list (str * str)) : str :=
  match dict_get p rt with None => [] | Some s => s end.
Definition sstep (kv : str * value) (rt : list (str * str)) : list (str * str) :=
  if beqb (fst kv) k_listen
  then dict_set (fst kv) (old_of (fst kv) rt ++ [32] ++ text_of (snd kv)) rt
  else dict_set (fst kv) (text_of (snd kv)) rt.
Definition sfold (l : list (str * value)) (rt : list (str * str)) : list (str * str) :=
  fold_left (fun rt kv => sstep kv rt) l rt.

Definition app_fold (occs : list occ) (app : option str) : option str :=
  fold_left (fun acc o => match occ_kind o with KApp => Some (occ_value o) | _ => acc end) occs app.

(* ---- what the loop body does for each entry of the option table (by computation) ---- *)
Definition action_ok (o : str * okind) : bool :=
  let param := cli_unmangle (dashdash ++ fst o) in
  let act := cli_classify castof param in
  match snd o with
  | KHelp => beqb param k_help && action_is act ActSetTrue
  | KCall => beqb param k_call && action_is act ActSetTrue
  | KApp => action_is act ActApp
  | KFlag p true => beqb param p && action_is act (ActConst true_s) && fresh p && castof_is p CBool
  | KFlag p false => action_is act (ActStripPrefix 3 false_s) && beqb (skipn 3 param) p && fresh p && castof_is p CBool
  | KVal p => beqb param p && action_is act (if beqb p k_listen then ActAccum [32] [] else ActValue) && fresh p
  end.

Lemma table_actions_ok : forallb action_ok option_table = true.
Proof. vm_compute. reflexivity. Qed.

Definition action_spec (n : str) (k : okind) : Prop :=
  let param := cli_unmangle (dashdash ++ n) in
  let act := cli_classify castof param in
  match k with
  | KHelp => param = k_help /\ act = Some ActSetTrue
  | KCall => param = k_call /\ act = Some ActSetTrue
  | KApp => act = Some ActApp
  | KFlag p true => param = p /\ act = Some (ActConst true_s) /\ fresh p = true /\ castof p = Some CBool
  | KFlag p false => act = Some (ActStripPrefix 3 false_s) /\ skipn 3 param = p /\ fresh p = true /\ castof p = Some CBool
  | KVal p => param = p /\ act = Some (if beqb p k_listen then ActAccum [32] [] else ActValue) /\ fresh p = true
  end.

Lemma action_facts : forall n k, In (n, k) option_table -> action_spec n k.
Proof.
  intros n k H. pose proof (proj1 (forallb_forall _ _) table_actions_ok (n, k) H) as K.
  unfold action_ok in K. unfold action_spec. cbn [fst snd] in K. cbv zeta in *.
  destruct k as [| | |p [|]|p].
  - apply andb_true_iff in K as [K1 K2]. apply beqb_eq in K1. apply action_is_eq in K2. auto.
  - apply andb_true_iff in K as [K1 K2]. apply beqb_eq in K1. apply action_is_eq in K2. auto.
  - apply action_is_eq in K. exact K.
  - apply andb_true_iff in K as [K K4]. apply andb_true_iff in K as [K K3]. apply andb_true_iff in K as [K1 K2].
    apply beqb_eq in K1. apply action_is_eq in K2. apply castof_is_eq in K4. auto.
  - apply andb_true_iff in K as [K K4]. apply andb_true_iff in K as [K K3]. apply andb_true_iff in K as [K1 K2].
    apply beqb_eq in K2. apply action_is_eq in K1. apply castof_is_eq in K4. auto.
  - apply andb_true_iff in K as [K K3]. apply andb_true_iff in K as [K1 K2].
    apply beqb_eq in K1. apply action_is_eq in K2. auto.
Qed.

(* ---- the option loop of parse_args over any list of recognised occurrences ---- *)
Lemma set_help : forall h c t, dict_set k_help (VBool true) (hdr h c ++ t) = hdr true c ++ t.
Proof. reflexivity. Qed.
Lemma set_call : forall h c t, dict_set k_call (VBool true) (hdr h c ++ t) = hdr h true ++ t.
Proof. reflexivity. Qed.

Lemma bool_not_listen : forall p, castof p = Some CBool -> beqb p k_listen = false.
Proof.
  intros p H. destruct (beqb p k_listen) eqn:E; [|reflexivity]. apply beqb_eq in E. subst p.
  rewrite castof_listen in H. discriminate.
Qed.

Lemma has_help_cons : forall n k v occs, has_help ((n, k, v) :: occs) = is_help k || has_help occs.
Proof. reflexivity. Qed.
Lemma has_call_cons : forall n k v occs, has_call ((n, k, v) :: occs) = is_call k || has_call occs.
Proof. reflexivity. Qed.
Lemma app_fold_cons : forall n k v occs app,
  app_fold ((n, k, v) :: occs) app = app_fold occs (match k with KApp => Some v | _ => app end).
Proof. reflexivity. Qed.
Lemma sfold_cons : forall n k v occs rt,
  sfold (settings_of ((n, k, v) :: occs)) rt
  = sfold (settings_of occs) (match k with
                              | KFlag p b => sstep (p, VBool b) rt
                              | KVal p => sstep (p, VStr v) rt
                              | _ => rt
                              end).
Proof. intros n k v occs rt. destruct k; reflexivity. Qed.

Lemma sstep_plain : forall p v rt, beqb p k_listen = false -> sstep (p, v) rt = dict_set p (text_of v) rt.
Proof. intros p v rt H. unfold sstep. cbn [fst snd]. rewrite H. reflexivity. Qed.
Lemma sstep_listen : forall p v rt, beqb p k_listen = true ->
  sstep (p, v) rt = dict_set p (old_of p rt ++ [32] ++ text_of v) rt.
Proof. intros p v rt H. unfold sstep. cbn [fst snd]. rewrite H. reflexivity. Qed.

Lemma pa_loop_occs : forall occs h c rt app,
  Forall (fun o : occ => In (fst o) option_table) occs ->
  pa_loop (map opt_of occs) (hdr h c ++ vstrs rt) app
  = Ok (hdr (h || has_help occs) (c || has_call occs) ++ vstrs (sfold (settings_of occs) rt),
        app_fold occs app).
Proof.
  induction occs as [|[[n k] v] occs IH]; intros h c rt app HF.
  - cbn. rewrite !orb_false_r. reflexivity.
  - inversion HF as [|? ? Hin HF']; subst. cbn [fst] in Hin.
    pose proof (action_facts n k Hin) as AF. unfold action_spec in AF. cbv zeta in AF.
    rewrite has_help_cons, has_call_cons, app_fold_cons, sfold_cons.
    cbn [map]. unfold opt_of at 1. cbn [fst snd]. cbn [pa_loop].
    destruct k as [| | |p [|]|p]; cbn [is_help is_call orb].
    + destruct AF as [-> ->]. rewrite set_help, IH by exact HF'.
      rewrite orb_true_r. reflexivity.
    + destruct AF as [-> ->]. rewrite set_call, IH by exact HF'.
      rewrite orb_true_r. reflexivity.
    + rewrite AF. rewrite IH by exact HF'. reflexivity.
    + destruct AF as [-> [-> [Fr Cb]]]. rewrite (fresh_set p _ h c _ Fr), vstrs_set.
      rewrite IH by exact HF'. rewrite (sstep_plain _ _ _ (bool_not_listen p Cb)). reflexivity.
    + destruct AF as [-> [-> [Fr Cb]]]. rewrite (fresh_set p _ h c _ Fr), vstrs_set.
      rewrite IH by exact HF'. rewrite (sstep_plain _ _ _ (bool_not_listen p Cb)). reflexivity.
    + destruct AF as [-> [-> Fr]].
      destruct (beqb p k_listen) eqn:EL.
      * rewrite (fresh_get p h c _ Fr), vstrs_get. rewrite (sstep_listen _ _ _ EL). unfold old_of.
        destruct (dict_get p rt) as [s|]; cbn [option_map py_str];
          rewrite (fresh_set p _ h c _ Fr), vstrs_set, IH by exact HF'; reflexivity.
      * rewrite (fresh_set p _ h c _ Fr), vstrs_set, IH by exact HF'.
        rewrite (sstep_plain _ _ _ EL). reflexivity.
Qed.

(* ---- the dictionary the loop builds, characterised ---- *)
Lemma sstep_keys : forall kv rt,
  map fst (sstep kv rt) = if memstr (fst kv) (map fst rt) then map fst rt else map fst rt ++ [fst kv].
Proof. intros kv rt. unfold sstep. destruct (beqb (fst kv) k_listen); apply keys_set. Qed.

Lemma sfold_keys : forall l rt,
  map fst (sfold l rt) = map fst rt ++ first_occ (map fst rt) (map fst l).
Proof.
  induction l as [|kv l IH]; intro rt.
  - cbn. rewrite app_nil_r. reflexivity.
  - change (sfold (kv :: l) rt) with (sfold l (sstep kv rt)). rewrite IH, sstep_keys.
    cbn [map first_occ]. destruct (memstr (fst kv) (map fst rt)); [reflexivity|].
    rewrite <- app_assoc. reflexivity.
Qed.

Lemma values_of_cons : forall p k v l,
  values_of p ((k, v) :: l) = if beqb k p then v :: values_of p l else values_of p l.
Proof. intros. unfold values_of. cbn [filter fst]. destruct (beqb k p); reflexivity. Qed.

(* last occurrence wins (every adjustment but listen) *)
Lemma sfold_get : forall p l rt, beqb p k_listen = false ->
  dict_get p (sfold l rt) =
  match values_of p l with
  | [] => dict_get p rt
  | vs => Some (text_of (last vs VNone))
  end.
Proof.
  intros p l rt NL. revert rt. induction l as [|[k v] l IH]; intro rt; [reflexivity|].
  change (sfold ((k, v) :: l) rt) with (sfold l (sstep (k, v) rt)). rewrite IH, values_of_cons.
  destruct (beqb k p) eqn:E.
  - apply beqb_eq in E. subst k. rewrite (sstep_plain _ _ _ NL), get_set, beqb_true.
    destruct (values_of p l) as [|w ws]; reflexivity.
  - destruct (values_of p l) as [|w ws]; [|reflexivity].
    unfold sstep. cbn [fst snd]. rewrite beqb_sym in E.
    destruct (beqb k k_listen); rewrite get_set, E; reflexivity.
Qed.

Lemma old_of_set_same : forall k x rt, old_of k (dict_set k x rt) = x.
Proof. intros. unfold old_of. rewrite get_set, beqb_true. reflexivity. Qed.
Lemma old_of_set_other : forall p k x rt, beqb p k = false -> old_of p (dict_set k x rt) = old_of p rt.
Proof. intros p k x rt H. unfold old_of. rewrite get_set, H. reflexivity. Qed.

(* --listen accumulates *)
Lemma sfold_get_listen : forall l rt,
  dict_get k_listen (sfold l rt) =
  match values_of k_listen l with
  | [] => dict_get k_listen rt
  | vs => Some (fold_left (fun a v => a ++ [32] ++ text_of v) vs (old_of k_listen rt))
  end.
Proof.
  induction l as [|[k v] l IH]; intro rt; [reflexivity|].
  change (sfold ((k, v) :: l) rt) with (sfold l (sstep (k, v) rt)). rewrite IH, values_of_cons.
  destruct (beqb k k_listen) eqn:E.
  - apply beqb_eq in E. subst k. rewrite (sstep_listen _ _ _ (beqb_true k_listen)).
    rewrite old_of_set_same, get_set, beqb_true.
    destruct (values_of k_listen l) as [|w ws]; reflexivity.
  - rewrite (sstep_plain _ _ _ E). rewrite beqb_sym in E.
    rewrite (old_of_set_other _ _ _ _ E), get_set, E.
    destruct (values_of k_listen l) as [|w ws]; reflexivity.
Qed.

Lemma nodup_snoc : forall (l : list str) k, NoDup l -> ~ In k l -> NoDup (l ++ [k]).
Proof.
  induction l as [|x l IH]; intros k ND NI; cbn [app].
  - constructor; [intros []|constructor].
  - inversion ND as [|? ? Hx ND']; subst. constructor.
    + intro H. apply in_app_or in H as [H|[H|[]]]; [exact (Hx H)|]. subst. apply NI. left. reflexivity.
    + apply IH; [exact ND'|]. intro H. apply NI. right. exact H.
Qed.

Lemma first_occ_nodup : forall l seen, NoDup seen -> NoDup (seen ++ first_occ seen l).
Proof.
  induction l as [|k l IH]; intros seen ND; cbn [first_occ].
  - rewrite app_nil_r. exact ND.
  - destruct (memstr k seen) eqn:E.
    + apply IH. exact ND.
    + change (k :: first_occ (seen ++ [k]) l) with ([k] ++ first_occ (seen ++ [k]) l).
      rewrite app_assoc. apply IH. apply nodup_snoc; [exact ND|].
      intro H. apply memstr_in in H. rewrite H in E. discriminate.
Qed.

Lemma sfold_nodup : forall l, NoDup (map fst (sfold l [])).
Proof. intro l. rewrite sfold_keys. cbn [map app]. apply (first_occ_nodup (map fst l) [] (NoDup_nil _)). Qed.

(* ---- Adjustments (kw as keywords) only sees each value through the cast of its parameter ---- *)
Lemma assign_loop_map : forall (rt : list (str * str)) (f g : str * str -> value) acc,
  (forall ks c, In ks rt -> castof (fst ks) = Some c -> cast_value c (f ks) = cast_value c (g ks)) ->
  assign_loop (map (fun ks => (fst ks, f ks)) rt) acc = assign_loop (map (fun ks => (fst ks, g ks)) rt) acc.
Proof.
  induction rt as [|ks rt IH]; intros f g acc H; [reflexivity|].
  cbn [map assign_loop]. destruct (castof (fst ks)) as [c|] eqn:C; [|reflexivity].
  rewrite (H ks c (or_introl eq_refl) C). destruct (cast_value c (g ks)); [|reflexivity].
  apply IH. intros ks' c' Hin. apply H. right. exact Hin.
Qed.

Lemma construct_ext : forall e kw kw', map fst kw = map fst kw' ->
  assign_loop kw [] = assign_loop kw' [] -> construct e kw = construct e kw'.
Proof. intros e kw kw' H1 H2. unfold construct. rewrite H1, H2. reflexivity. Qed.

Lemma fold_left_text : forall vs acc,
  fold_left (fun a v => a ++ [32] ++ text_of v) vs acc
  = fold_left (fun a v => a ++ [32] ++ v) (map text_of vs) acc.
Proof. induction vs as [|v vs IH]; intro acc; [reflexivity|]. cbn [fold_left map]. apply IH. Qed.

(* every setting read off the command line is a string, or a boolean for a boolean adjustment *)
Definition setting_ok (kv : str * value) : Prop :=
  match snd kv with
  | VStr _ => True
  | VBool _ => castof (fst kv) = Some CBool
  | _ => False
  end.

Lemma settings_ok : forall occs, Forall (fun o : occ => In (fst o) option_table) occs ->
  Forall setting_ok (settings_of occs).
Proof.
  induction occs as [|[[n k] v] occs IH]; intro HF; [constructor|].
  inversion HF as [|? ? Hin HF']; subst. cbn [fst] in Hin.
  pose proof (action_facts n k Hin) as AF. unfold action_spec in AF. cbv zeta in AF.
  unfold settings_of. cbn [flat_map]. fold (settings_of occs).
  unfold setting_of, occ_kind, occ_value. cbn [fst snd].
  destruct k as [| | |p [|]|p]; cbn [app]; try (apply IH; exact HF').
  - constructor; [|apply IH; exact HF']. unfold setting_ok. cbn [fst snd]. tauto.
  - constructor; [|apply IH; exact HF']. unfold setting_ok. cbn [fst snd]. tauto.
  - constructor; [|apply IH; exact HF']. exact I.
Qed.

Lemma values_of_in : forall p l v, In v (values_of p l) -> In (p, v) l.
Proof.
  intros p l v H. unfold values_of in H. apply in_map_iff in H as [[k w] [E H]].
  apply filter_In in H as [H B]. cbn [fst snd] in *. apply beqb_eq in B. subst. exact H.
Qed.

Lemma last_in : forall {A} (l : list A) d, l <> [] -> In (last l d) l.
Proof.
  induction l as [|x l IH]; intros d H; [contradiction H; reflexivity|].
  destruct l as [|y l]; [left; reflexivity|]. right. apply IH. discriminate.
Qed.

Lemma cast_text : forall c kv, setting_ok kv -> castof (fst kv) = Some c ->
  cast_value c (VStr (text_of (snd kv))) = cast_value c (snd kv).
Proof.
  intros c [k v] H C. unfold setting_ok in H. cbn [fst snd] in *.
  destruct v as [|b|z|s|l|l|a cl]; try contradiction; [|reflexivity].
  rewrite H in C. injection C as <-. destruct b; reflexivity.
Qed.

(* the strings parse_args stores and the keyword form denote the same Adjustments *)
Theorem raw_keyword_equiv : forall e occs, Forall (fun o : occ => In (fst o) option_table) occs ->
  construct e (vstrs (sfold (settings_of occs) [])) = construct e (keyword_form occs).
Proof.
  intros e occs HF. pose proof (settings_ok occs HF) as SO.
  set (l := settings_of occs) in *.
  assert (KF : keyword_form occs = map (fun ks : str * str => (fst ks, keyword_value (fst ks) l)) (sfold l [])).
  { unfold keyword_form. fold l. cbv zeta.
    pose proof (sfold_keys l []) as K. cbn [map app] in K. rewrite <- K, map_map. reflexivity. }
  rewrite KF. unfold vstrs. apply construct_ext.
  - rewrite !map_map. reflexivity.
  - apply (assign_loop_map (sfold l []) (fun ks => VStr (snd ks)) (fun ks => keyword_value (fst ks) l)).
    intros [k s] c Hin C. cbn [fst snd] in *.
    pose proof (in_dict_get k s _ (sfold_nodup l) Hin) as G.
    unfold keyword_value. destruct (beqb k k_listen) eqn:EL.
    + apply beqb_eq in EL. subst k. rewrite castof_listen in C. injection C as <-.
      rewrite sfold_get_listen in G. destruct (values_of k_listen l) as [|w ws] eqn:EV; [discriminate|].
      injection G as <-. rewrite fold_left_text. unfold old_of. cbn [dict_get].
      rewrite !cast_list_str.
      change (fold_left (fun a v : list N => a ++ [32] ++ v) (map text_of ws) (32 :: text_of w))
        with (accumulated (map text_of (w :: ws))).
      rewrite aslist_accumulated_joined. reflexivity.
    + rewrite (sfold_get k l [] EL) in G. destruct (values_of k l) as [|w ws] eqn:EV; [discriminate|].
      injection G as <-.
      assert (Hl : In (k, last (w :: ws) VNone) l).
      { apply values_of_in. rewrite EV. apply last_in. discriminate. }
      pose proof (proj1 (Forall_forall _ _) SO _ Hl) as OK.
      exact (cast_text c (k, last (w :: ws) VNone) OK C).
Qed.

(* ---- the main theorem ---- *)
Lemma app_option_fold : forall occs, app_option occs = app_fold occs None.
Proof. reflexivity. Qed.

Theorem cli_construct_spec : forall e argv, cli_construct e argv = cli_spec e argv.
Proof.
  intros e argv. unfold cli_construct, cli_spec, parse_args. rewrite getopt_scan.
  destruct (scan argv) as [w|occs pos] eqn:SC; [reflexivity|].
  pose proof (scan_in_table _ _ _ SC) as HF.
  rewrite initial_hdr. change (hdr false false) with (hdr false false ++ vstrs []).
  rewrite (pa_loop_occs occs false false [] None HF). cbn [orb].
  pose proof (raw_keyword_equiv e occs HF) as EQ. rewrite <- EQ.
  generalize (vstrs (sfold (settings_of occs) [])) as t. intro t.
  unfold choose_app. rewrite app_option_fold.
  destruct (has_help occs).
  - reflexivity.
  - destruct (app_fold occs None) as [a|]; destruct pos as [|p1 [|p2 pos]]; reflexivity.
Qed.

(* ---- corollaries ---- *)
(* refused iff: a word is refused by the grammar, or (no --help and) the application count is wrong,
   or (no --help and) the keyword form is refused by Adjustments *)
Definition cli_refusal (e : env) (argv : list str) : Prop :=
  match scan argv with
  | Refused _ => True
  | Scanned occs pos =>
    has_help occs = false /\
    match choose_app occs pos with
    | AppIs _ => exists x, construct e (keyword_form occs) = Exn x
    | _ => True
    end
  end.

Theorem cli_refused_iff : forall e argv,
  (exists x, cli_construct e argv = Exn x) <-> cli_refusal e argv.
Proof.
  intros e argv. rewrite cli_construct_spec. unfold cli_spec, cli_refusal.
  destruct (scan argv) as [w|occs pos].
  - split; [auto|]. intros _. eexists. reflexivity.
  - destruct (has_help occs).
    + split; [intros [x H]; discriminate|intros [H _]; discriminate].
    + destruct (choose_app occs pos) as [| |a].
      * split; [auto|]. intros _. eexists. reflexivity.
      * split; [auto|]. intros _. eexists. reflexivity.
      * destruct (construct e (keyword_form occs)) as [a'|x].
        -- split; [intros [y H]; discriminate|intros [_ [y H]]; discriminate].
        -- split; [intros _; split; [reflexivity|eexists; reflexivity]|intros _; eexists; reflexivity].
Qed.

(* accepted: the Adjustments are those of the keyword form, exactly *)
Theorem cli_accepted : forall e argv a, cli_construct e argv = Ok (Some a) ->
  exists occs pos app, scan argv = Scanned occs pos /\ has_help occs = false
    /\ choose_app occs pos = AppIs app /\ construct e (keyword_form occs) = Ok a.
Proof.
  intros e argv a. rewrite cli_construct_spec. unfold cli_spec.
  destruct (scan argv) as [w|occs pos] eqn:SC; [discriminate|].
  destruct (has_help occs) eqn:HH; [discriminate|].
  destruct (choose_app occs pos) as [| |app] eqn:CA; try discriminate.
  destruct (construct e (keyword_form occs)) as [a'|x] eqn:C; [|discriminate].
  cbn [lift]. intro H. injection H as <-. exists occs, pos, app. repeat split; assumption.
Qed.

(* what parse_args hands to resolve_wsgi_app: the last --app or else the only positional word,
   called iff --call was given *)
Theorem parse_args_app : forall argv occs pos a, scan argv = Scanned occs pos ->
  has_help occs = false -> choose_app occs pos = AppIs a ->
  exists kw, parse_args argv = Ok kw /\ dict_get k_app kw = Some (VApp a (has_call occs)).
Proof.
  intros argv occs pos a SC HH CA. unfold parse_args. rewrite getopt_scan, SC.
  pose proof (scan_in_table _ _ _ SC) as HF.
  rewrite initial_hdr. change (hdr false false) with (hdr false false ++ vstrs []).
  rewrite (pa_loop_occs occs false false [] None HF). cbn [orb]. rewrite HH.
  generalize (vstrs (sfold (settings_of occs) [])) as t. intro t.
  unfold choose_app in CA. rewrite app_option_fold in CA.
  assert (CF : forall c t', kw_flag k_call (hdr false c ++ t') = c) by reflexivity.
  destruct (app_fold occs None) as [a0|]; destruct pos as [|p1 [|p2 pos]]; try discriminate;
    injection CA as ->; eexists; (split; [reflexivity|]); rewrite CF; reflexivity.
Qed.

(* ---- the grammar at work (all by computation on the generated tables) ---- *)
Example resolve_examples :
  resolve [104] = Ambiguous                                               (* --h : help / host *)
  /\ resolve [104; 101] = Found k_help KHelp                              (* --he *)
  /\ resolve [104; 111] = Found k_host (KVal k_host)                      (* --ho *)
  /\ resolve [108] = Ambiguous                                            (* --l : listen / log-... *)
  /\ resolve [108; 105] = Found k_listen (KVal k_listen)                  (* --li *)
  /\ resolve [110; 111; 45; 105; 112; 118] = Ambiguous                    (* --no-ipv *)
  /\ resolve [110; 111; 45; 104; 111; 115; 116] = Unknown                 (* --no-host *)
  /\ resolve [104; 111; 115; 116; 95] = Unknown                           (* --host_ *)
  /\ resolve [] = Ambiguous                                               (* -- followed by =... *)
  /\ resolve [97] = Ambiguous /\ resolve [97; 112] = Found k_app KApp.    (* --a, --ap *)
Proof. vm_compute. repeat split; reflexivity. Qed.

(* --li=a:1 --no-ipv6 --listen b:2 --thr 3 --threads=5 --ipv6 --no-ipv6 m:app
   == listen="a:1 b:2", ipv6=False, threads="5" *)
Definition example_argv : list str :=
  [ [45;45;108;105;61;97;58;49]; [45;45;110;111;45;105;112;118;54]; [45;45;108;105;115;116;101;110]; [98;58;50];
    [45;45;116;104;114]; [51]; [45;45;116;104;114;101;97;100;115;61;53]; [45;45;105;112;118;54];
    [45;45;110;111;45;105;112;118;54]; [109;58;97;112;112] ].
Example example_scan :
  match scan example_argv with
  | Scanned occs pos =>
    keyword_form occs = [(k_listen, VStr [97;58;49;32;98;58;50]); (k_ipv6, VBool false);
                         ([116;104;114;101;97;100;115], VStr [53])]
    /\ pos = [[109;58;97;112;112]] /\ length occs = 7%nat
  | Refused _ => False
  end.
Proof. vm_compute. repeat split; reflexivity. Qed.
Example example_cli :
  exists a, cli_construct {| has_ipv6 := true; has_af_unix := true |} example_argv = Ok (Some a)
    /\ dict_get k_listen a = Some (SAddrs [(false, [97], 1); (false, [98], 2)])
    /\ dict_get k_ipv6 a = Some (SBool false).
Proof. eexists. vm_compute. repeat split; reflexivity. Qed.

(* refusals, one of each kind *)
Example example_refusals :
  scan [[45;45;98;111;103;117;115]] = Refused RUnknown                         (* --bogus *)
  /\ scan [[45;45;108;61;120]] = Refused RAmbiguous                            (* --l=x *)
  /\ scan [[45;45;112;111;114;116]] = Refused RMissingValue                    (* --port *)
  /\ scan [[45;45;105;112;118;52;61;49]] = Refused RUnexpectedValue            (* --ipv4=1 *)
  /\ scan [[45;120]] = Refused RShortOption                                    (* -x *)
  /\ scan [[45;45;112;111;114;116]; [45;45;104;111;115;116]] =                 (* --port --host : the value is --host *)
       Scanned [(k_port, KVal k_port, [45;45;104;111;115;116])] []
  /\ scan [[45;45]; [45;45;112;111;114;116]] = Scanned [] [[45;45;112;111;114;116]]   (* -- --port *)
  /\ scan [[45]; [120]] = Scanned [] [[45]; [120]].                            (* - x *)
Proof. vm_compute. repeat split; reflexivity. Qed.
