(* Proof/ChanCloseTok2.v -- preservation of the remaining token parts and of "whoever may still
   start or chain a service() implies requests is not empty". *)
From Coq Require Import List Arith Bool Lia.
From WV Require Import Model.ChanClose Proof.ChanCloseBase Proof.ChanCloseTok.
Import ListNotations.


(* an active worker that is past its pop(0) holds requests_lock *)
Lemma active_prepop_or_holds : forall p, active p = true -> prepop p = true \/ wk_holds p = true.
Proof. intros [] A; simpl in *; auto; discriminate. Qed.

Lemma pres_act_excl : forall s c s' l, Inv s -> step s c = Some (s', l) ->
  forall w', active (wk s' w') = true -> ~ tokio s' /\ sd s' = SdIdle.
Proof.
  intros s c s' l I H w'. pose proof (i_act_excl s I w') as AX.
  destruct c as [e|w e|]; simpl in H.
  - pose proof (i_reqs_wk s I w') as RW. pose proof (i_lock_io s I) as LI. pose proof (i_lock_wk s I w') as LW.
    pose proof (i_appx s I) as AX0.
    pose proof (active_prepop_or_holds (wk s w')) as AP.
    destruct (i_mret s I) as [MR|MR]; io_cases H; close2.
  - pose proof (i_q_excl s I) as QX. pose proof (i_act_excl s I w) as AXw.
    pose proof (i_lock_io s I) as LI. pose proof (i_lock_wk s I w) as LW.
    wk_cases H; simpl; wsplit w' w; close2.
  - pose proof (i_q_excl s I) as QX. pose proof (i_tok_sd s I) as TS.
    sd_cases H; close2.
Qed.

Lemma pres_tok_sd : forall s c s' l, Inv s -> step s c = Some (s', l) -> tokio s' -> sd s' = SdIdle.
Proof.
  intros s c s' l I H. pose proof (i_tok_sd s I) as TS.
  destruct c as [e|w e|]; simpl in H.
  - pose proof (i_reqs_sd s I) as RS. pose proof (i_appx s I) as AX0.
    destruct (i_mret s I) as [MR|MR]; io_cases H; prep; try exact TS; try solve [heavy];
    destruct (sd s) eqn:SD; heavy.
  - pose proof (i_lock_io s I) as LI. pose proof (i_lock_wk s I w) as LW.
    wk_cases H; close2.
  - pose proof (i_q_excl s I) as QX. sd_cases H; close2.
Qed.

Lemma pres_reqs_q : forall s c s' l, Inv s -> step s c = Some (s', l) -> queue s' = 1 -> reqs s' <> [].
Proof.
  intros s c s' l I H. pose proof (i_reqs_q s I) as RQ. pose proof (i_q_excl s I) as QX.
  destruct c as [e|w e|]; simpl in H.
  - pose proof (i_reqs_io s I) as RI. io_cases H; close2.
  - pose proof (i_reqs_wk s I w) as RW. wk_cases H; close2.
  - sd_cases H; close2.
Qed.

Lemma pres_reqs_io : forall s c s' l, Inv s -> step s c = Some (s', l) -> io s' = IoRCadd -> reqs s' <> [].
Proof.
  intros s c s' l I H. pose proof (i_reqs_io s I) as RI.
  destruct c as [e|w e|]; simpl in H.
  - destruct (i_mret s I) as [MR|MR]; io_cases H; prep; try solve [heavy].
    all: destruct (reqs s); simpl in *; heavy.
  - pose proof (i_lock_io s I) as LI. pose proof (i_lock_wk s I w) as LW.
    wk_cases H; close2.
  - pose proof (i_tok_sd s I) as TS. sd_cases H; close2.
Qed.

Lemma pres_reqs_wk : forall s c s' l, Inv s -> step s c = Some (s', l) ->
  forall w', prepop (wk s' w') = true -> reqs s' <> [].
Proof.
  intros s c s' l I H w'. pose proof (i_reqs_wk s I w') as RW.
  destruct c as [e|w e|]; simpl in H.
  - io_cases H; close2.
  - pose proof (i_reqs_q s I) as RQ. pose proof (i_reqs_wk s I w) as RWw.
    pose proof (i_act_uniq s I w' w) as U.
    assert (PA : prepop (wk s w') = true -> active (wk s w') = true) by (destruct (wk s w'); simpl; auto).
    wk_cases H; simpl; wsplit w' w; close2.
  - pose proof (i_act_excl s I w') as AX.
    assert (PA : prepop (wk s w') = true -> active (wk s w') = true) by (destruct (wk s w'); simpl; auto).
    sd_cases H; close2.
Qed.

Lemma pres_reqs_sd : forall s c s' l, Inv s -> step s c = Some (s', l) -> sd s' <> SdIdle -> reqs s' <> [].
Proof.
  intros s c s' l I H. pose proof (i_reqs_sd s I) as RS.
  destruct c as [e|w e|]; simpl in H.
  - io_cases H; close2.
  - pose proof (i_act_excl s I w) as AX. wk_cases H; close2.
  - pose proof (i_reqs_q s I) as RQ. sd_cases H; close2.
Qed.
