(* T3 -- the framing decision.  [model_framing] is the choice that
   Parser.parse_header makes among {no body, Content-Length n, chunked, refuse}
   as a function of the header dict and the version (characterised by
   [parse_header_framing] below); it is proved equal to the RFC 9112 section
   6.3 choice of the reference, [Ref9112.framing_of], for ALL dicts and
   versions. *)
From Coq Require Import List NArith ZArith Bool Lia Arith.
From RecordUpdate Require Import RecordUpdate.
From WV Require Import Lib.PyBytes Lib.Regex Gen.GenRegex Spec.Grammar Proof.C10Gates.
From WV Require Import Model.Receiver Model.UrlSplit Model.Parser Spec.Ref9112 Proof.C01Lib.
Import ListNotations.
Local Open Scope N_scope.

Inductive choice := MNone | MLen (n : N) | MChunked | MRefuse (e : perr).

(* the version 1.1 branch: resulting dict, chunked flag, error *)
Definition model_te_stage (h : hdict) (ver : bytes) : hdict * bool * option perr :=
  if beqb ver s_1_1 then
    let encs := te_encodings (hget_default h s_TRANSFER_ENCODING []) in
    let h1 := hpop h s_TRANSFER_ENCODING in
    if negb (forallb (fun e => beqb e s_chunked) encs) then (h1, false, Some ETENotSupported)
    else match encs with
         | [] => (h1, false, None)
         | _ => if negb (length encs =? 1)%nat then (h1, false, Some ETEMultipleChunked)
                else (hpop h1 s_CONTENT_LENGTH, true, None)
         end
  else (h, false, None).

Definition model_cl_stage (h2 : hdict) : choice :=
  let cl := hget_default h2 s_CONTENT_LENGTH s_0 in
  if negb (matches gate_content_length cl) then MRefuse EContentLengthInvalid
  else if int_max_str_digits <? lenN cl then MRefuse EContentLengthInvalid
  else let n := dec_value cl in if 0 <? n then MLen n else MNone.

Definition model_framing (h : hdict) (ver : bytes) : choice :=
  match model_te_stage h ver with
  | (_, _, Some e) => MRefuse e
  | (_, true, None) => MChunked
  | (h2, false, None) => model_cl_stage h2
  end.

Definition choice_framing (c : choice) : framing :=
  match c with
  | MNone => FrNone
  | MLen n => FrLength n
  | MChunked => FrChunked
  | MRefuse e => FrRefuse (perr_code e)
  end.

Lemma beqb_refl k : beqb k k = true.
Proof. apply beqb_eq. reflexivity. Qed.

Lemma hget_hpop_other h k k' : beqb k k' = false -> hget (hpop h k') k = hget h k.
Proof.
  intro Hk. induction h as [|[k0 w] h IH]; cbn [hpop hget]; auto.
  destruct (beqb k' k0) eqn:E.
  - apply beqb_eq in E. subst k0. rewrite Hk. reflexivity.
  - cbn [hget]. rewrite IH. reflexivity.
Qed.

(* ---------------------------------------------------------------- *)
(* the characterising lemma: what parse_header does once the head is
   syntactically accepted *)

Lemma parse_header_framing a p hp index lines h1 cmd uri ver sc nl pa qu fr :
  chunked p = false -> body p = None ->
  find hp CRLF = Some index ->
  let fl := rstrip_by is_bytes_ws (firstn index hp) in
  has_cr_or_lf fl = false ->
  get_header_lines (skipn (index + 2) hp) = inr lines ->
  add_header_lines (headers p) lines = inr h1 ->
  crack_first_line fl = Some (cmd, uri, ver) ->
  beqb cmd [] && beqb uri [] && beqb ver [] = false ->
  split_uri uri = SOk sc nl pa qu fr ->
  let '(p', st) := parse_header a p hp in
  command p' = cmd /\ request_uri p' = uri /\ version p' = ver /\
  match model_framing h1 ver with
  | MRefuse e => st = PSError e
  | MChunked =>
      st = PSOk /\ chunked p' = true /\ body p' = Some (BChunked chunked_init)
      /\ headers p' = hpop (hpop h1 s_TRANSFER_ENCODING) s_CONTENT_LENGTH
      /\ (forall v, hget h1 s_CONTENT_LENGTH = Some v -> connection_close p' = true)
  | MLen n =>
      st = PSOk /\ chunked p' = false /\ body p' = Some (BFixed (fixed_init n)) /\ content_length p' = n
  | MNone =>
      st = PSOk /\ chunked p' = false /\ body p' = None /\ content_length p' = 0
  end.
Proof.
  intros Hch Hbody Hfind fl Hcr Hlines Hadd Hcrack Hne Hsplit.
  unfold parse_header. rewrite Hfind. fold fl. rewrite Hcr. cbn [headers set].
  rewrite Hlines.
  rewrite Hadd, Hcrack, Hne, Hsplit.
  unfold model_framing, model_te_stage, model_cl_stage.
  destruct (beqb ver s_1_1) eqn:E11.
  - (* HTTP/1.1 *)
    cbn [headers set].
    set (encs := te_encodings (hget_default h1 s_TRANSFER_ENCODING [])).
    destruct (forallb (fun e => beqb e s_chunked) encs) eqn:Eall; cbn [negb].
    2:{ destruct (beqb ver s_1_0 && negb (beqb (lower_latin1 (hget_default h1 s_CONNECTION [])) s_keep_alive));
        cbn; auto. }
    destruct encs as [|e0 encs'] eqn:Eencs.
    + (* no transfer coding: Content-Length decides *)
      destruct (beqb ver s_1_0 && negb (beqb (lower_latin1 (hget_default h1 s_CONNECTION [])) s_keep_alive));
      destruct (beqb (lower_latin1 (hget_default h1 s_CONNECTION [])) s_close);
      cbn -[matches gate_content_length int_max_str_digits dec_value lenN N.ltb hget_default];
      rewrite Hch;
      cbn -[matches gate_content_length int_max_str_digits dec_value lenN N.ltb hget_default];
      (destruct (matches gate_content_length (hget_default (hpop h1 s_TRANSFER_ENCODING) s_CONTENT_LENGTH s_0));
       cbn -[int_max_str_digits dec_value lenN N.ltb hget_default]; [|auto]);
      (destruct (int_max_str_digits <? lenN (hget_default (hpop h1 s_TRANSFER_ENCODING) s_CONTENT_LENGTH s_0)) eqn:E2;
       [cbn; auto|]);
      (destruct (0 <? dec_value (hget_default (hpop h1 s_TRANSFER_ENCODING) s_CONTENT_LENGTH s_0)) eqn:E3;
       cbn -[dec_value hget_default]; rewrite ?Hbody, ?Hch; repeat split; auto;
       apply N.ltb_ge in E3; lia).
    + destruct (length (e0 :: encs') =? 1)%nat eqn:Elen; cbn [negb].
      2:{ destruct (beqb ver s_1_0 && negb (beqb (lower_latin1 (hget_default h1 s_CONNECTION [])) s_keep_alive));
          cbn; auto. }
      destruct (beqb ver s_1_0 && negb (beqb (lower_latin1 (hget_default h1 s_CONNECTION [])) s_keep_alive));
      destruct (beqb (lower_latin1 (hget_default h1 s_CONNECTION [])) s_close);
      destruct (hget (hpop h1 s_TRANSFER_ENCODING) s_CONTENT_LENGTH) eqn:Ecl;
      cbn; repeat split; auto; intros v Hv;
      try reflexivity.
      all: rewrite hget_hpop_other in Ecl by reflexivity; congruence.
  - (* any other version *)
    destruct (beqb ver s_1_0 && negb (beqb (lower_latin1 (hget_default h1 s_CONNECTION [])) s_keep_alive));
    cbn -[matches gate_content_length int_max_str_digits dec_value lenN N.ltb hget_default];
    rewrite Hch;
    cbn -[matches gate_content_length int_max_str_digits dec_value lenN N.ltb hget_default];
    (destruct (matches gate_content_length (hget_default h1 s_CONTENT_LENGTH s_0));
     cbn -[int_max_str_digits dec_value lenN N.ltb hget_default]; [|auto]);
    (destruct (int_max_str_digits <? lenN (hget_default h1 s_CONTENT_LENGTH s_0)) eqn:E2; [cbn; auto|]);
    (destruct (0 <? dec_value (hget_default h1 s_CONTENT_LENGTH s_0)) eqn:E3;
     cbn -[dec_value hget_default]; rewrite ?Hbody, ?Hch; repeat split; auto;
     apply N.ltb_ge in E3; lia).
Qed.
