(* T3 -- the framing decision.  [model_framing] is the choice that
   Parser.parse_header makes among {no body, Content-Length n, chunked, refuse}
   as a function of the header dict and the version (characterised by
   [parse_header_framing] below); it is proved equal to the RFC 9112 section
   6.3 choice of the reference, [Ref9112.framing_of], for ALL dicts and
   versions. *)
From Coq Require Import List NArith ZArith Bool Lia Arith.
From RecordUpdate Require Import RecordUpdate.
From WV Require Import Lib.PyBytes Lib.Regex Gen.GenRegex Spec.Grammar Proof.C10Gates.
From WV Require Import Model.Receiver Model.UrlSplit Model.Parser Spec.Ref9112 Proof.C01Lib.
Import ListNotations.
Local Open Scope N_scope.

Inductive choice := MNone | MLen (n : N) | MChunked | MRefuse (e : perr).

(* the version 1.1 branch: resulting dict, chunked flag, error *)
Definition model_te_stage (h : hdict) (ver : bytes) : hdict * bool * option perr :=
  if beqb ver s_1_1 then
    let encs := te_encodings (hget_default h s_TRANSFER_ENCODING []) in
    let h1 := hpop h s_TRANSFER_ENCODING in
    if negb (forallb (fun e => beqb e s_chunked) encs) then (h1, false, Some ETENotSupported)
    else match encs with
         | [] => (h1, false, None)
         | _ => if negb (length encs =? 1)%nat then (h1, false, Some ETEMultipleChunked)
                else (hpop h1 s_CONTENT_LENGTH, true, None)
         end
  else (h, false, None).

Definition model_cl_stage (h2 : hdict) : choice :=
  let cl := hget_default h2 s_CONTENT_LENGTH s_0 in
  if negb (matches gate_content_length cl) then MRefuse EContentLengthInvalid
  else if int_max_str_digits <? lenN cl then MRefuse EContentLengthInvalid
  else let n := dec_value cl in if 0 <? n then MLen n else MNone.

Definition model_framing (h : hdict) (ver : bytes) : choice :=
  match model_te_stage h ver with
  | (_, _, Some e) => MRefuse e
  | (_, true, None) => MChunked
  | (h2, false, None) => model_cl_stage h2
  end.

Definition choice_framing (c : choice) : framing :=
  match c with
  | MNone => FrNone
  | MLen n => FrLength n
  | MChunked => FrChunked
  | MRefuse e => FrRefuse (perr_code e)
  end.

Lemma beqb_refl k : beqb k k = true.
Proof. apply beqb_eq. reflexivity. Qed.

Lemma hget_hpop_other h k k' : beqb k k' = false -> hget (hpop h k') k = hget h k.
Proof.
  intro Hk. induction h as [|[k0 w] h IH]; cbn [hpop hget]; auto.
  destruct (beqb k' k0) eqn:E.
  - apply beqb_eq in E. subst k0. rewrite Hk. reflexivity.
  - cbn [hget]. rewrite IH. reflexivity.
Qed.

(* ---------------------------------------------------------------- *)
(* the characterising lemma: what parse_header does once the head is
   syntactically accepted *)

Definition present (h : hdict) (k : bytes) : bool :=
  match hget h k with Some _ => true | None => false end.

(* parser.connection_close as parse_header leaves it *)
Definition model_cc (h1 : hdict) (ver : bytes) : bool :=
  (beqb ver s_1_0 && negb (beqb (lower_latin1 (hget_default h1 s_CONNECTION [])) s_keep_alive))
  || (if beqb ver s_1_1 then
        (match model_framing h1 ver with MChunked => present h1 s_CONTENT_LENGTH | _ => false end)
        || existsb (fun t => beqb (strip_by is_sp_htab t) s_close)
                   (split (lower_latin1 (hget_default h1 s_CONNECTION [])) [44])
      else present h1 s_TRANSFER_ENCODING).

Lemma parse_header_framing a p hp index lines h1 cmd uri ver sc nl pa qu fr :
  chunked p = false -> body p = None -> connection_close p = false ->
  find hp CRLF = Some index ->
  let fl := rstrip_by is_reqline_ws (firstn index hp) in
  has_cr_or_lf fl = false ->
  get_header_lines (skipn (index + 2) hp) = inr lines ->
  add_header_lines (headers p) lines = inr h1 ->
  crack_first_line fl = Some (cmd, uri, ver) ->
  beqb cmd [] && beqb uri [] && beqb ver [] = false ->
  split_uri uri = SOk sc nl pa qu fr ->
  let '(p', st) := parse_header a p hp in
  command p' = cmd /\ request_uri p' = uri /\ version p' = ver /\
  match model_framing h1 ver with
  | MRefuse e => st = PSError e
  | MChunked =>
      st = PSOk /\ chunked p' = true /\ body p' = Some (BChunked chunked_init)
      /\ headers p' = hpop (hpop h1 s_TRANSFER_ENCODING) s_CONTENT_LENGTH
      /\ connection_close p' = model_cc h1 ver
  | MLen n =>
      st = PSOk /\ chunked p' = false /\ body p' = Some (BFixed (fixed_init n)) /\ content_length p' = n
      /\ connection_close p' = model_cc h1 ver
  | MNone =>
      st = PSOk /\ chunked p' = false /\ body p' = None /\ content_length p' = 0
      /\ connection_close p' = model_cc h1 ver
  end.
Proof.
  intros Hch Hbody Hcc Hfind fl Hcr Hlines Hadd Hcrack Hne Hsplit.
  unfold parse_header. rewrite Hfind. fold fl. rewrite Hcr. cbn [headers set].
  rewrite Hlines.
  rewrite Hadd, Hcrack, Hne, Hsplit.
  unfold model_cc, present, model_framing, model_te_stage, model_cl_stage.
  remember (beqb ver s_1_0 && negb (beqb (lower_latin1 (hget_default h1 s_CONNECTION [])) s_keep_alive)) as c10 eqn:X10.
  remember (match hget h1 s_TRANSFER_ENCODING with Some _ => true | None => false end) as cte eqn:Xte.
  remember (existsb (fun t => beqb (strip_by is_sp_htab t) s_close)
                    (split (lower_latin1 (hget_default h1 s_CONNECTION [])) [44])) as clist eqn:Xl.
  clear X10 Xte Xl.
  destruct (beqb ver s_1_1) eqn:E11; cbn [negb andb].
  - (* HTTP/1.1 *)
    cbn [headers set].
    set (encs := te_encodings (hget_default h1 s_TRANSFER_ENCODING [])).
    destruct (forallb (fun e => beqb e s_chunked) encs) eqn:Eall; cbn [negb].
    2:{ destruct c10; cbn; auto. }
    destruct encs as [|e0 encs'] eqn:Eencs.
    + (* no transfer coding: Content-Length decides *)
      destruct c10, clist;
      cbn -[matches gate_content_length int_max_str_digits dec_value lenN N.ltb hget_default];
      rewrite Hch;
      cbn -[matches gate_content_length int_max_str_digits dec_value lenN N.ltb hget_default];
      (destruct (matches gate_content_length (hget_default (hpop h1 s_TRANSFER_ENCODING) s_CONTENT_LENGTH s_0));
       cbn -[int_max_str_digits dec_value lenN N.ltb hget_default]; [|auto]);
      (destruct (int_max_str_digits <? lenN (hget_default (hpop h1 s_TRANSFER_ENCODING) s_CONTENT_LENGTH s_0)) eqn:E2;
       [cbn; auto|]);
      (destruct (0 <? dec_value (hget_default (hpop h1 s_TRANSFER_ENCODING) s_CONTENT_LENGTH s_0)) eqn:E3;
       cbn -[dec_value hget_default]; rewrite ?Hbody, ?Hch, ?Hcc; repeat split; auto;
       apply N.ltb_ge in E3; lia).
    + destruct (length (e0 :: encs') =? 1)%nat eqn:Elen; cbn [negb].
      2:{ destruct c10; cbn; auto. }
      rewrite (hget_hpop_other h1 s_CONTENT_LENGTH s_TRANSFER_ENCODING eq_refl).
      destruct c10, clist, (hget h1 s_CONTENT_LENGTH);
      cbn; rewrite ?Hcc; repeat split; auto.
  - (* any other version *)
    destruct c10, cte;
    cbn -[matches gate_content_length int_max_str_digits dec_value lenN N.ltb hget_default];
    rewrite Hch;
    cbn -[matches gate_content_length int_max_str_digits dec_value lenN N.ltb hget_default];
    (destruct (matches gate_content_length (hget_default h1 s_CONTENT_LENGTH s_0));
     cbn -[int_max_str_digits dec_value lenN N.ltb hget_default]; [|auto]);
    (destruct (int_max_str_digits <? lenN (hget_default h1 s_CONTENT_LENGTH s_0)) eqn:E2; [cbn; auto|]);
    (destruct (0 <? dec_value (hget_default h1 s_CONTENT_LENGTH s_0)) eqn:E3;
     cbn -[dec_value hget_default]; rewrite ?Hbody, ?Hch, ?Hcc; repeat split; auto;
     apply N.ltb_ge in E3; lia).
Qed.

(* ---------------------------------------------------------------- *)
(* T3: the model's choice is the RFC 9112 section 6.3 choice *)

Lemma hget_lookup h k : hget h k = lookup h k.
Proof. induction h as [|[k' v] h IH]; cbn; auto. Qed.

Lemma K_TE_eq : K_TE = s_TRANSFER_ENCODING. Proof. reflexivity. Qed.
Lemma K_CL_eq : K_CL = s_CONTENT_LENGTH. Proof. reflexivity. Qed.
Lemma K_CONN_eq : K_CONN = s_CONNECTION. Proof. reflexivity. Qed.

Lemma filter_ext_b {A} (f g : A -> bool) l : (forall x, f x = g x) -> filter f l = filter g l.
Proof. intro H. induction l as [|x l IH]; simpl; auto. rewrite H, IH. reflexivity. Qed.

Lemma forallb_ext_b {A} (f g : A -> bool) l : (forall x, f x = g x) -> forallb f l = forallb g l.
Proof. intro H. induction l as [|x l IH]; simpl; auto. rewrite H, IH. reflexivity. Qed.

(* the Transfer-Encoding element list of the model, in the reference's terms *)
Definition te_keep (e : bytes) : bool := nonempty (trim is_ows e).

Lemma te_encodings_elems te :
  te_encodings te = map (fun e => lower_latin1 (trim is_ows e)) (filter te_keep (split_on 44 te [])).
Proof.
  unfold te_encodings. rewrite split_comma.
  rewrite (filter_ext_b (fun e => negb (beqb (strip_by is_sp_htab e) [])) te_keep).
  - apply map_ext. intro e. rewrite strip_sp_htab. reflexivity.
  - intro e. unfold te_keep. rewrite strip_sp_htab. destruct (trim is_ows e); reflexivity.
Qed.

Lemma to_lower_nonempty e : nonempty (to_lower e) = nonempty e.
Proof. destruct e; reflexivity. Qed.

Lemma list_elems_keep v :
  list_elems v = map (fun e => to_lower (trim is_ows e)) (filter te_keep (split_on 44 v [])).
Proof.
  unfold list_elems. induction (split_on 44 v []) as [|e l IH]; cbn [map filter]; auto.
  rewrite to_lower_nonempty. unfold te_keep at 1. destruct (nonempty (trim is_ows e)); cbn [map]; rewrite IH; reflexivity.
Qed.

(* the decision taken on the element list, on both sides *)
Definition te_verdict_model (encs : list bytes) : option (option perr) :=
  (* None = no coding: go on to Content-Length; Some None = chunked; Some (Some e) = refuse *)
  if negb (forallb (fun e => beqb e s_chunked) encs) then Some (Some ETENotSupported)
  else match encs with
       | [] => None
       | _ => if negb (length encs =? 1)%nat then Some (Some ETEMultipleChunked) else Some None
       end.

Lemma te_verdict_agree (L : list bytes) :
  match te_verdict_model (map (fun e => lower_latin1 (trim is_ows e)) L),
        map (fun e => to_lower (trim is_ows e)) L with
  | None, [] => True
  | Some None, [e] => beqb e w_chunked = true
  | Some (Some err), [e] => beqb e w_chunked = false /\ perr_code err = 501
  | Some (Some err), _ :: _ :: _ => perr_code err = 501
  | _, _ => False
  end.
Proof.
  unfold te_verdict_model.
  destruct L as [|x [|y L]]; cbn [map forallb length].
  - exact I.
  - rewrite andb_true_r.
    change s_chunked with w_chunked. rewrite (lower_word_agree _ chunked_ascii).
    destruct (beqb (to_lower (trim is_ows x)) w_chunked) eqn:E; cbn; auto.
  - destruct (beqb (lower_latin1 (trim is_ows x)) s_chunked &&
              (beqb (lower_latin1 (trim is_ows y)) s_chunked &&
               forallb (fun e => beqb e s_chunked) (map (fun e => lower_latin1 (trim is_ows e)) L)));
      cbn; auto.
Qed.

Lemma is_dig_ranges x : in_ranges x [(48, 57)] = is_dig x.
Proof. unfold is_dig. simpl. rewrite orb_false_r. reflexivity. Qed.

(* the Content-Length gate, as applied to a value without CR / LF, is 1*DIGIT *)
Lemma gate_content_length_digits v : clean v = true ->
  matches gate_content_length v = nonempty v && forallb is_dig v.
Proof.
  intro Hc.
  pose proof (content_length_exact v (clean_bytes_ok v Hc) (clean_no_crlf v Hc)) as E.
  rewrite <- !matches_correct in E. unfold spec_content_length, DIGIT in E.
  rewrite matches_plus_cls in E.
  rewrite (forallb_ext_b _ is_dig) in E by apply is_dig_ranges.
  destruct (matches gate_content_length v), v as [|x v]; cbn [nonempty andb] in *;
    try (destruct (forallb is_dig (x :: v))); intuition congruence.
Qed.

Lemma clean_s0 : clean s_0 = true. Proof. reflexivity. Qed.

Lemma cl_stage_agree h :
  (forall v, hget h s_CONTENT_LENGTH = Some v -> clean v = true) ->
  choice_framing (model_cl_stage h) =
  match lookup h K_CL with
  | None => FrNone
  | Some v => match content_length_of v with
              | Some 0 => FrNone
              | Some n => FrLength n
              | None => FrRefuse 400
              end
  end.
Proof.
  intro Hclean. unfold model_cl_stage, hget_default. change lookup with hget. change K_CL with s_CONTENT_LENGTH.
  destruct (hget h s_CONTENT_LENGTH) as [v|] eqn:E.
  - rewrite (gate_content_length_digits v (Hclean v eq_refl)).
    unfold content_length_of, max_cl_digits, int_max_str_digits.
    destruct (nonempty v && forallb is_dig v); cbn [negb andb]; [|reflexivity].
    rewrite N.ltb_antisym.
    destruct (lenN v <=? 4300); cbn [negb]; [|reflexivity].
    destruct (dec_value v); reflexivity.
  - reflexivity.
Qed.

Theorem framing_decision : forall h ver,
  (forall v, hget h s_CONTENT_LENGTH = Some v -> clean v = true) ->
  choice_framing (model_framing h ver) = framing_of ver h.
Proof.
  intros h ver Hclean. unfold model_framing, model_te_stage, framing_of.
  change v11 with s_1_1.
  destruct (beqb ver s_1_1).
  - change lookup with hget. change K_TE with s_TRANSFER_ENCODING.
    assert (Ete : match hget h s_TRANSFER_ENCODING with Some v => list_elems v | None => [] end
                  = map (fun e => to_lower (trim is_ows e))
                        (filter te_keep (split_on 44 (hget_default h s_TRANSFER_ENCODING []) []))).
    { unfold hget_default. destruct (hget h s_TRANSFER_ENCODING); [apply list_elems_keep|reflexivity]. }
    rewrite Ete, te_encodings_elems.
    pose proof (te_verdict_agree (filter te_keep (split_on 44 (hget_default h s_TRANSFER_ENCODING []) []))) as V.
    unfold te_verdict_model in V.
    set (L := filter te_keep (split_on 44 (hget_default h s_TRANSFER_ENCODING []) [])) in *.
    set (EM := map (fun e => lower_latin1 (trim is_ows e)) L) in *.
    set (ER := map (fun e => to_lower (trim is_ows e)) L) in *.
    destruct (negb (forallb (fun e => beqb e s_chunked) EM)).
    + destruct ER as [|e [|e2 ER']]; try contradiction.
      * destruct V as [V1 V2]. rewrite V1. reflexivity.
      * reflexivity.
    + destruct EM as [|m EM'].
      * destruct ER as [|e [|e2 ER']]; try contradiction.
        rewrite cl_stage_agree.
        -- change lookup with hget. change K_CL with s_CONTENT_LENGTH. rewrite hget_hpop_other by reflexivity. reflexivity.
        -- intros v Hv. rewrite hget_hpop_other in Hv by reflexivity. auto.
      * destruct (negb (length (m :: EM') =? 1)%nat).
        -- destruct ER as [|e [|e2 ER']]; try contradiction.
           ++ destruct V as [V1 V2]. rewrite V1. reflexivity.
           ++ reflexivity.
        -- destruct ER as [|e [|e2 ER']]; try contradiction.
           rewrite V. reflexivity.
  - apply cl_stage_agree. exact Hclean.
Qed.

(* a second, empty Transfer-Encoding line is ignored (repaired by 96bc60d) *)
Example framing_ws_element :
  model_framing [(s_TRANSFER_ENCODING, s_chunked ++ [44; 32])] s_1_1 = MChunked.
Proof. vm_compute. reflexivity. Qed.

Example framing_decision_nontrivial :
  model_framing [(s_HOST, [104]); (s_TRANSFER_ENCODING, [32; 67; 104; 117; 110; 107; 101; 100; 44])] s_1_1 = MChunked
  /\ model_framing [(s_CONTENT_LENGTH, [48; 49; 55])] s_1_0 = MLen 17.
Proof. split; vm_compute; reflexivity. Qed.
