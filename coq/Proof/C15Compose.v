(* C15 end to end: from the request BYTES to the environ the application sees.

   Composition of the C07 model (Parser.v -> Environ.v, with its theorems about
   where every environ entry comes from) with the C15 model (Proxy.v, two-run
   non-interference on environ dictionaries), through the bridge
   Model/ProxyEnviron.v.  Nothing of C07 or of ProxyC15 is re-proved here. *)
From Coq Require Import List NArith ZArith Bool Lia ZifyBool.
From RecordUpdate Require Import RecordUpdate.
From WV Require Import Lib.PyBytes Lib.PyStrProxy Lib.Regex Gen.GenRegex
  Model.Receiver Model.UrlSplit Model.Parser Model.Environ Model.Proxy Model.ProxyEnviron
  Spec.Pep3333 Spec.ProxySpec
  Proof.PyBytesFacts Proof.EnvironDict Proof.EnvironParse Proof.EnvironRun Proof.EnvironFields
  Proof.EnvironLatin1 Proof.ProxyC15.
Import ListNotations.
Local Open Scope N_scope.

(* ------------------------------------------------------------------ *)
(* A. the bridge: str-valued entries of a dict without repeated keys *)

Definition ekeys (e : edict) : list bytes := map fst e.

Lemma eget_notin e k : ~ In k (ekeys e) -> eget e k = None.
Proof.
  induction e as [|[k' v] e IH]; simpl; auto. intro H.
  destruct (beqb k k') eqn:E.
  - apply beqb_eq in E. subst. tauto.
  - apply IH. tauto.
Qed.

Lemma emem_false_notin e k : emem e k = false -> ~ In k (ekeys e).
Proof.
  induction e as [|[k' v] e IH]; simpl; auto. intro H.
  apply orb_false_iff in H as [H1 H2]. intros [E|I].
  - subst. rewrite EnvironDict.beqb_refl in H1. discriminate.
  - exact (IH H2 I).
Qed.

Lemma str_view_keys e k : In k (map fst (str_view e)) -> In k (ekeys e).
Proof.
  induction e as [|[k' v] e IH]; simpl; auto.
  destruct v; simpl; intro H; try (right; apply IH; exact H).
  destruct H as [H|H]; [left; exact H|right; apply IH; exact H].
Qed.

Lemma lookup_notin (d : Proxy.environ) k : ~ In k (map fst d) -> lookup k d = None.
Proof.
  induction d as [|[k' v] d IH]; simpl; auto. intro H.
  destruct (beqb k k') eqn:E.
  - apply beqb_eq in E. subst. tauto.
  - apply IH. tauto.
Qed.

Definition str_of (v : option evalue) : option bytes :=
  match v with Some (VStr s) => Some s | _ => None end.

Lemma lookup_str_view e k : NoDup (ekeys e) -> lookup k (str_view e) = str_of (eget e k).
Proof.
  induction e as [|[k' v] e IH]; simpl; auto. intro N.
  inversion N as [|? ? Hn N']; subst.
  destruct (beqb k k') eqn:E.
  - apply beqb_eq in E. subst k'.
    destruct v; simpl; try rewrite EnvironDict.beqb_refl; try reflexivity;
      apply lookup_notin; intro I; apply Hn; apply str_view_keys; exact I.
  - destruct v; simpl; try rewrite E; apply IH; exact N'.
Qed.

Lemma ekeys_eset_in e k v x : In x (ekeys (eset e k v)) <-> x = k \/ In x (ekeys e).
Proof.
  induction e as [|[k' v'] e IH]; simpl.
  - intuition.
  - destruct (beqb k k') eqn:E; simpl.
    + apply beqb_eq in E. subst. intuition.
    + rewrite IH. intuition.
Qed.

Lemma eset_nodup e k v : NoDup (ekeys e) -> NoDup (ekeys (eset e k v)).
Proof.
  induction e as [|[k' v'] e IH]; simpl; intro N.
  - constructor; [intros []|constructor].
  - inversion N as [|? ? Hn N']; subst.
    destruct (beqb k k') eqn:E; simpl.
    + constructor; auto.
    + constructor; auto. rewrite ekeys_eset_in. intros [X|X]; auto.
      subst. rewrite EnvironDict.beqb_refl in E. discriminate.
Qed.

Lemma nodup_snoc {A} (l : list A) x : NoDup l -> ~ In x l -> NoDup (l ++ [x]).
Proof.
  induction l as [|y l IH]; simpl; intros N H.
  - constructor; auto.
  - inversion N; subst. constructor.
    + rewrite in_app_iff. simpl. intuition.
    + apply IH; auto.
Qed.

Lemma add_header_nodup e kv : NoDup (ekeys e) -> NoDup (ekeys (add_header e kv)).
Proof.
  destruct kv as [key value]. rewrite add_header_unfold. intro N.
  destruct (emem e (env_key key)) eqn:E; cbn [negb]; auto.
  unfold ekeys. rewrite map_app. cbn [map fst].
  apply nodup_snoc; auto. apply emem_false_notin. exact E.
Qed.

Lemma fold_add_header_nodup hs : forall e, NoDup (ekeys e) -> NoDup (ekeys (fold_left add_header hs e)).
Proof.
  induction hs as [|kv hs IH]; intros e N; cbn [fold_left]; auto.
  apply IH. apply add_header_nodup. exact N.
Qed.

(* a Python dict has no repeated key: so has the environ of the model, for
   every parser state and configuration *)
Lemma get_environment_nodup c p : NoDup (ekeys (get_environment c p)).
Proof.
  unfold get_environment. apply eset_nodup. apply fold_add_header_nodup.
  unfold ekeys. rewrite base_environ_keys.
  pose proof server_keys_distinct as N. inversion N; assumption.
Qed.

(* the bridge lemma: what the middleware model reads under key k *)
Lemma lookup_environ_of c p k :
  lookup k (environ_of c p) = str_of (eget (get_environment c p) k).
Proof. unfold environ_of. apply lookup_str_view. apply get_environment_nodup. Qed.

(* ------------------------------------------------------------------ *)
(* B. the keys that come from the channel / server context *)

Lemma k_remote_addr_eq : k_remote_addr = k_REMOTE_ADDR. Proof. reflexivity. Qed.
Lemma k_remote_host_eq : k_remote_host = k_REMOTE_HOST. Proof. reflexivity. Qed.
Lemma k_remote_port_eq : k_remote_port = k_REMOTE_PORT. Proof. reflexivity. Qed.
Lemma k_server_name_eq : k_server_name = k_SERVER_NAME. Proof. reflexivity. Qed.
Lemma k_server_port_eq : k_server_port = k_SERVER_PORT. Proof. reflexivity. Qed.
Lemma k_url_scheme_eq : k_url_scheme = k_wsgi_url_scheme. Proof. reflexivity. Qed.

(* the six metadata keys that do not come from a header *)
Record ctx_keys (ctx : Environ.config) (scheme : bytes) (o : Proxy.environ) : Prop := {
  ck_addr : lookup k_remote_addr o = Some (addr0 (peer_addr ctx));
  ck_host : lookup k_remote_host o = Some (addr0 (peer_addr ctx));
  ck_port : lookup k_remote_port o = Some (str_addr1 (peer_addr ctx));
  ck_sname : lookup k_server_name o = Some (server_name ctx);
  ck_sport : lookup k_server_port o = Some (str_port (effective_port ctx));
  ck_scheme : lookup k_url_scheme o = Some scheme
}.

Lemma server_key_lookup c p k :
  In k server_keys -> lookup k (environ_of c p) = str_of (eget (base_environ c p) k).
Proof.
  intro H. rewrite lookup_environ_of, (no_override c p k H). reflexivity.
Qed.

(* (1a) for EVERY parser state -- any header dictionary at all -- and every
   context: REMOTE_ADDR, REMOTE_HOST, REMOTE_PORT, SERVER_NAME, SERVER_PORT are
   the channel's / server's, wsgi.url_scheme is the parser's url_scheme
   attribute (adj.url_scheme, see accepted_url_scheme).  The right-hand sides
   do not mention the headers. *)
Lemma environ_ctx_keys c p : ctx_keys c (url_scheme p) (environ_of c p).
Proof.
  constructor.
  - rewrite k_remote_addr_eq, server_key_lookup by (vm_compute; tauto). reflexivity.
  - rewrite k_remote_host_eq, server_key_lookup by (vm_compute; tauto). reflexivity.
  - rewrite k_remote_port_eq, server_key_lookup by (vm_compute; tauto). reflexivity.
  - rewrite k_server_name_eq, server_key_lookup by (vm_compute; tauto). reflexivity.
  - rewrite k_server_port_eq, server_key_lookup by (vm_compute; tauto). reflexivity.
  - rewrite k_url_scheme_eq, server_key_lookup by (vm_compute; tauto). reflexivity.
Qed.

Lemma environ_ctx_keys_any_headers c p h :
  ctx_keys c (url_scheme p) (environ_of c (p <| headers := h |>)).
Proof. pose proof (environ_ctx_keys c (p <| headers := h |>)) as H. exact H. Qed.

(* ------------------------------------------------------------------ *)
(* C. the head of a request is a function of the bytes offered *)

Lemma strip_leading_crlf_fuel : forall n m s,
  (length s <= n)%nat -> (length s <= m)%nat -> strip_leading_crlf n s = strip_leading_crlf m s.
Proof.
  induction n as [|n IH]; intros m s Hn Hm.
  - destruct s; [|simpl in Hn; lia]. destruct m; reflexivity.
  - destruct m as [|m].
    + destruct s; [|simpl in Hm; lia]. reflexivity.
    + rewrite !strip_leading_crlf_step. destruct s as [|x [|y s']]; auto.
      destruct ((x =? 13) && (y =? 10)); auto. apply IH; simpl in *; lia.
Qed.

Lemma head_of_head_block ds hp : head_of ds hp -> head_block (concat ds) = Some hp.
Proof.
  intros (pre & i & [post ->] & Hf & ->). rewrite concat_app.
  unfold head_block, find_double_newline in *.
  destruct (find (concat pre) CRLFCRLF) as [i0|] eqn:E; [|discriminate]. injection Hf as <-.
  rewrite (find_app_l _ (concat post) _ _ E).
  pose proof (find_bound _ _ _ E) as B. change (length CRLFCRLF) with 4%nat in B.
  rewrite firstn_app_le by lia. f_equal. f_equal.
  apply strip_leading_crlf_fuel.
  - rewrite firstn_length, app_length. lia.
  - rewrite firstn_length. lia.
Qed.

Definition accepted (p : parser) : Prop := completed p = true /\ error p = None /\ empty p = false.

(* every accepted run, with the pieces C07's lemmas speak about, tied to
   [head_parts] of the bytes offered *)
Lemma accepted_parts a ds p :
  feed_all a ds = Some p -> accepted p ->
  exists fl lines p0 p1 hp h1,
    head_parts (concat ds) = Some (fl, lines) /\
    accepted_run a ds p p0 p1 hp /\ accepted_head a p0 p1 hp fl lines h1.
Proof.
  intros H (Hc & He & Hm).
  destruct (run_accepted _ _ _ H Hc He Hm) as (p0 & p1 & hp & AR).
  destruct (parse_header_ok _ _ _ _ (ar_parse _ _ _ _ _ _ AR)) as (fl & lines & h1 & AH).
  exists fl, lines, p0, p1, hp, h1. split; [|split; assumption].
  unfold head_parts. rewrite (head_of_head_block _ _ (ar_head _ _ _ _ _ _ AR)).
  destruct (ah_find _ _ _ _ _ _ _ AH) as (index & F & -> & L). rewrite F, L. reflexivity.
Qed.

(* wsgi.url_scheme of an accepted request is the configured adj.url_scheme *)
Lemma accepted_url_scheme a ds p :
  feed_all a ds = Some p -> accepted p -> url_scheme p = adj_url_scheme a.
Proof.
  intros H A. destruct (accepted_parts _ _ _ H A) as (fl & lines & p0 & p1 & hp & h1 & _ & AR & AH).
  pose proof (ar_reqline _ _ _ _ _ _ AR) as R. unfold reqline in R.
  injection R as _ _ _ _ _ R. rewrite R. exact (ah_scheme _ _ _ _ _ _ _ AH).
Qed.

(* ------------------------------------------------------------------ *)
(* D. every header key is a function of the lines whose name maps to it *)

Lemma cut_colon_parts l : cut_colon l = (line_name l, line_rest l).
Proof.
  induction l as [|x l IH]; cbn [cut_colon line_name line_rest]; auto.
  destruct (x =? 58); auto. rewrite IH. reflexivity.
Qed.

Lemma field_values_key_lines lines k :
  field_values (map cut_colon lines) k = map (fun l => trim (line_rest l)) (key_lines k lines).
Proof.
  unfold field_values, key_lines. induction lines as [|l lines IH]; cbn [map flat_map filter]; auto.
  rewrite cut_colon_parts, IH. cbn [fst snd].
  change (negb (has_underscore (line_name l)) && beqb (cgi_key (line_name l)) k) with (maps_to (line_name l) k).
  destruct (maps_to (line_name l) k); reflexivity.
Qed.

(* header keys whose value the framing code never touches *)
Definition plain_key (ek : bytes) : bool :=
  is_header_key ek && negb (beqb ek c_HTTP_TRANSFER_ENCODING) && negb (beqb ek c_CONTENT_LENGTH).

Lemma str_of_VStr (x : option bytes) : str_of (option_map VStr x) = x.
Proof. destruct x; reflexivity. Qed.

Lemma header_key_local a ds p fl lines p0 p1 hp h1 c ek :
  accepted_run a ds p p0 p1 hp -> accepted_head a p0 p1 hp fl lines h1 ->
  plain_key ek = true ->
  lookup ek (environ_of c p) = value_of_lines (key_lines ek lines).
Proof.
  intros AR AH Hk. unfold plain_key in Hk.
  apply andb_true_iff in Hk as [Hk Hcl]. apply andb_true_iff in Hk as [Hk Hte].
  apply negb_true_iff in Hcl. apply negb_true_iff in Hte.
  rewrite lookup_environ_of, (header_entries_image _ _ _ _ _ _ _ _ _ AR AH c ek Hk), str_of_VStr.
  unfold spec_header. rewrite Hte, Hcl, !andb_false_r.
  unfold request_of. cbn [rq_fields]. rewrite field_values_key_lines. reflexivity.
Qed.

(* ------------------------------------------------------------------ *)
(* E. which header names map to which key: case-insensitive, "-" spelling only *)

Lemma cgi_char_lower x : cgi_char (lower_ascii_b x) = cgi_char x.
Proof.
  unfold cgi_char, lower_ascii_b.
  destruct ((65 <=? x) && (x <=? 90)) eqn:?;
  repeat match goal with |- context [if ?b then _ else _] => destruct b eqn:? end; lia.
Qed.

Lemma cgi_char_inj_lower x y :
  x <> 95 -> y <> 95 -> cgi_char x = cgi_char y -> lower_ascii_b x = lower_ascii_b y.
Proof.
  unfold cgi_char, lower_ascii_b. intros Hx Hy.
  destruct ((65 <=? x) && (x <=? 90)) eqn:?; destruct ((65 <=? y) && (y <=? 90)) eqn:?;
  repeat match goal with |- context [if ?b then _ else _] => destruct b eqn:? end; lia.
Qed.

Lemma lower_is_underscore x : (95 =? lower_ascii_b x) = (95 =? x).
Proof.
  unfold lower_ascii_b.
  destruct ((65 <=? x) && (x <=? 90)) eqn:?; lia.
Qed.

Lemma has_underscore_lower n : has_underscore (lower_ascii n) = has_underscore n.
Proof.
  unfold has_underscore, lower_ascii. induction n as [|x n IH]; cbn [map existsb]; auto.
  rewrite IH, lower_is_underscore. reflexivity.
Qed.

Lemma cgi_base_lower n : cgi_base (lower_ascii n) = cgi_base n.
Proof.
  unfold cgi_base, lower_ascii. rewrite map_map. apply map_ext. apply cgi_char_lower.
Qed.

Lemma cgi_base_inj_lower : forall n t,
  has_underscore n = false -> has_underscore t = false ->
  cgi_base n = cgi_base t -> lower_ascii n = lower_ascii t.
Proof.
  unfold cgi_base, lower_ascii, has_underscore.
  induction n as [|x n IH]; intros [|y t] Hn Ht E; cbn [map existsb] in *; try discriminate; auto.
  apply orb_false_iff in Hn as [Hx Hn]. apply orb_false_iff in Ht as [Hy Ht].
  injection E as E1 E2. f_equal.
  - apply cgi_char_inj_lower; auto; intro; subst; discriminate.
  - apply IH; auto.
Qed.

(* the general rule: a name maps to the key of a canonical (lower-case, "-"
   spelled) name exactly when it equals it ASCII case-insensitively *)
Lemma maps_to_canonical t n :
  has_underscore t = false -> lower_ascii t = t ->
  beqb (cgi_base t) c_CONTENT_LENGTH = false -> beqb (cgi_base t) c_CONTENT_TYPE = false ->
  maps_to n (c_HTTP_ ++ cgi_base t) = beqb (lower_ascii n) t.
Proof.
  intros Ut Lt Hcl Hct. unfold maps_to.
  destruct (beqb (lower_ascii n) t) eqn:E.
  - apply beqb_eq in E.
    assert (Un : has_underscore n = false) by (rewrite <- has_underscore_lower, E; exact Ut).
    assert (B : cgi_base n = cgi_base t) by (rewrite <- cgi_base_lower, E; reflexivity).
    rewrite Un. cbn [negb andb]. unfold cgi_key. rewrite B, Hcl, Hct. cbn [orb].
    apply EnvironDict.beqb_refl.
  - destruct (has_underscore n) eqn:Un; cbn [negb andb]; auto.
    destruct (beqb (cgi_key n) (c_HTTP_ ++ cgi_base t)) eqn:K; auto.
    apply beqb_eq in K. exfalso. apply EnvironDict.beqb_false in E. apply E.
    transitivity (lower_ascii t); [|exact Lt]. apply cgi_base_inj_lower; auto.
    unfold cgi_key in K.
    destruct (beqb (cgi_base n) c_CONTENT_LENGTH || beqb (cgi_base n) c_CONTENT_TYPE) eqn:S.
    + apply orb_true_iff in S as [S|S]; apply beqb_eq in S; rewrite S in K; discriminate K.
    + apply app_inv_head in K. exact K.
Qed.

Lemma maps_to_xff n : maps_to n k_xff = beqb (lower_ascii n) n_xff.
Proof. change k_xff with (c_HTTP_ ++ cgi_base n_xff). apply maps_to_canonical; reflexivity. Qed.
Lemma maps_to_xfh n : maps_to n k_xfh = beqb (lower_ascii n) n_xfh.
Proof. change k_xfh with (c_HTTP_ ++ cgi_base n_xfh). apply maps_to_canonical; reflexivity. Qed.
Lemma maps_to_xfproto n : maps_to n k_xfproto = beqb (lower_ascii n) n_xfproto.
Proof. change k_xfproto with (c_HTTP_ ++ cgi_base n_xfproto). apply maps_to_canonical; reflexivity. Qed.
Lemma maps_to_xfport n : maps_to n k_xfport = beqb (lower_ascii n) n_xfport.
Proof. change k_xfport with (c_HTTP_ ++ cgi_base n_xfport). apply maps_to_canonical; reflexivity. Qed.
Lemma maps_to_xfby n : maps_to n k_xfby = beqb (lower_ascii n) n_xfby.
Proof. change k_xfby with (c_HTTP_ ++ cgi_base n_xfby). apply maps_to_canonical; reflexivity. Qed.
Lemma maps_to_fwd n : maps_to n k_fwd = beqb (lower_ascii n) n_fwd.
Proof. change k_fwd with (c_HTTP_ ++ cgi_base n_fwd). apply maps_to_canonical; reflexivity. Qed.
Lemma maps_to_host n : maps_to n k_http_host = beqb (lower_ascii n) n_host.
Proof. change k_http_host with (c_HTTP_ ++ cgi_base n_host). apply maps_to_canonical; reflexivity. Qed.

(* a line reaches one of the six proxy keys iff its name is one of the six
   names, compared ASCII case-insensitively -- in the "-" spelling only:
   a name with "_" in it (X_Forwarded_For, X-Forwarded_For ...) maps to no key
   at all *)
Lemma proxy_line_spec l : proxy_line l = existsb (maps_to (line_name l)) proxy_keys.
Proof.
  unfold proxy_line, proxy_names, proxy_keys. cbn [existsb].
  rewrite <- maps_to_xff, <- maps_to_xfh, <- maps_to_xfproto, <- maps_to_xfport, <- maps_to_xfby, <- maps_to_fwd.
  reflexivity.
Qed.

Lemma underscore_maps_nowhere n ek : has_underscore n = true -> maps_to n ek = false.
Proof. intro H. unfold maps_to. rewrite H. reflexivity. Qed.

(* ------------------------------------------------------------------ *)
(* F. every str entry of the environ of an accepted request, as a function of
      the request line pieces, the framing verdict, the context and the header lines *)

Definition header_part (p : parser) (lines : list bytes) (k : bytes) : option bytes :=
  match unkey k with
  | Some key =>
    if beqb (version p) s_1_1 && beqb key s_TRANSFER_ENCODING then None
    else if chunked p && beqb key s_CONTENT_LENGTH then Some (to_dec (lenN (get_body_stream p)))
    else value_of_lines (key_lines k lines)
  | None => None
  end.

Lemma environ_lookup_full a ds p fl lines p0 p1 hp h1 c k :
  accepted_run a ds p p0 p1 hp -> accepted_head a p0 p1 hp fl lines h1 ->
  lookup k (environ_of c p) =
    if beqb k k_waitress_client_disconnected then None
    else match eget (base_environ c p) k with
         | Some v => str_of (Some v)
         | None => header_part p lines k
         end.
Proof.
  intros AR AH. rewrite lookup_environ_of. unfold get_environment. rewrite eget_eset.
  destruct (beqb k k_waitress_client_disconnected); [reflexivity|].
  rewrite fold_add_header_eget. destruct (eget (base_environ c p) k); [reflexivity|].
  rewrite hfind_unkey, str_of_VStr. unfold header_part. destruct (unkey k) as [key|] eqn:U; auto.
  rewrite (final_headers _ _ _ _ _ _ _ _ _ AR AH key).
  rewrite <- (field_values_line_adds _ _ _ U), field_values_key_lines. reflexivity.
Qed.

(* same request line (and same adj) => same request-line attributes *)
Lemma same_reqline a ds p p0 p1 hp h1 ds' p' p0' p1' hp' h1' fl lines lines' :
  accepted_run a ds p p0 p1 hp -> accepted_head a p0 p1 hp fl lines h1 ->
  accepted_run a ds' p' p0' p1' hp' -> accepted_head a p0' p1' hp' fl lines' h1' ->
  reqline p = reqline p'.
Proof.
  intros AR AH AR' AH'.
  rewrite (ar_reqline _ _ _ _ _ _ AR), (ar_reqline _ _ _ _ _ _ AR'). unfold reqline.
  pose proof (ah_crack _ _ _ _ _ _ _ AH) as C. pose proof (ah_crack _ _ _ _ _ _ _ AH') as C'.
  rewrite C in C'. injection C' as Ec Eu Ev.
  destruct (ah_split _ _ _ _ _ _ _ AH) as (sc & nl & fr & S).
  destruct (ah_split _ _ _ _ _ _ _ AH') as (sc' & nl' & fr' & S').
  rewrite Eu, S' in S. injection S as _ _ Ep Eq _.
  rewrite (ah_scheme _ _ _ _ _ _ _ AH), (ah_scheme _ _ _ _ _ _ _ AH').
  rewrite Ec, Eu, Ev, Ep, Eq. reflexivity.
Qed.

Lemma base_environ_same c p p' :
  reqline p = reqline p' -> get_body_stream p = get_body_stream p' -> base_environ c p = base_environ c p'.
Proof.
  unfold reqline. intros R B. injection R as Ec Ev Eu Ep Eq Es.
  unfold base_environ, task_version. rewrite Ec, Ev, Eu, Ep, Eq, Es, B. reflexivity.
Qed.

Lemma filter_filter_implies {A} (f g : A -> bool) (l : list A) :
  (forall x, f x = true -> g x = true) -> filter f (filter g l) = filter f l.
Proof.
  intro H. induction l as [|x l IH]; cbn [filter]; auto.
  destruct (g x) eqn:G; cbn [filter].
  - rewrite IH. reflexivity.
  - destruct (f x) eqn:F; auto. rewrite (H _ F) in G. discriminate.
Qed.

Lemma maps_not_ignorable k l :
  is_proxy_key k = false -> maps_to (line_name l) k = true -> negb (ignorable l) = true.
Proof.
  intros Hk M. unfold ignorable, underscore_name_line. apply negb_true_iff. apply orb_false_iff. split.
  - rewrite proxy_line_spec. destruct (existsb (maps_to (line_name l)) proxy_keys) eqn:E; auto.
    apply existsb_exists in E as (pk & Hin & Mp). exfalso.
    unfold maps_to in M, Mp. apply andb_true_iff in M as [_ M]. apply andb_true_iff in Mp as [_ Mp].
    apply beqb_eq in M. apply beqb_eq in Mp. subst.
    assert (X : is_proxy_key (cgi_key (line_name l)) = true).
    { unfold is_proxy_key. apply existsb_exists. exists (cgi_key (line_name l)). split; auto.
      apply EnvironDict.beqb_refl. }
    congruence.
  - unfold maps_to in M. apply andb_true_iff in M as [M _]. apply negb_true_iff in M. exact M.
Qed.

(* a key that is not one of the six sees only lines that are not ignorable *)
Lemma key_lines_kept k lines :
  is_proxy_key k = false -> key_lines k (kept_lines lines) = key_lines k lines.
Proof.
  intro Hk. unfold key_lines, kept_lines. apply filter_filter_implies.
  intros l M. apply (maps_not_ignorable k l Hk M).
Qed.

(* ------------------------------------------------------------------ *)
(* G. HTTP_HOST and the six proxy keys of one accepted request *)

Lemma plain_host : plain_key k_http_host = true. Proof. reflexivity. Qed.

Lemma proxy_key_plain pk : is_proxy_key pk = true -> plain_key pk = true.
Proof.
  intro H. unfold is_proxy_key in H. apply existsb_exists in H as (x & Hin & E).
  apply beqb_eq in E. subst x. unfold proxy_keys in Hin. cbn [In] in Hin.
  repeat (destruct Hin as [<-|Hin]; [reflexivity|]). contradiction.
Qed.

Lemma key_lines_host lines : key_lines k_http_host lines = filter host_line lines.
Proof.
  unfold key_lines, host_line. apply filter_ext. intro l. apply maps_to_host.
Qed.

Lemma host_lines_kept lines : filter host_line (kept_lines lines) = filter host_line lines.
Proof. rewrite <- !key_lines_host. apply key_lines_kept. reflexivity. Qed.

(* ------------------------------------------------------------------ *)
(* I. the framing verdict (chunked or not) is a function of the version and of
      the Transfer-Encoding lines -- so it is the same for two requests whose
      kept lines agree *)

Definition nonnil {A} (l : list A) : bool := match l with [] => false | _ => true end.

Lemma stage_uri_chunked a p h1 cmd uri ver p' :
  stage_uri a p h1 cmd uri ver = (p', PSOk) -> chunked p = false ->
  version p' = ver /\
  chunked p' = beqb ver s_1_1 && nonnil (te_encodings (hget_default h1 s_TRANSFER_ENCODING [])).
Proof.
  unfold stage_uri. intros H Hc.
  destruct (split_uri uri) as [sc nl pa qu fr| | |]; try discriminate.
  set (q0 := p <| request_uri := uri |> <| command := cmd |> <| version := ver |>
               <| p_scheme := sc |> <| p_netloc := nl |> <| path := pa |>
               <| query := qu |> <| fragment := fr |> <| url_scheme := adj_url_scheme a |>) in *.
  set (conn := hget_default h1 s_CONNECTION []) in *.
  set (q1a := if beqb ver s_1_0 && negb (beqb (lower_latin1 conn) s_keep_alive)
              then q0 <| connection_close := true |> else q0) in *.
  set (q1 := if negb (beqb ver s_1_1)
                && (match hget h1 s_TRANSFER_ENCODING with Some _ => true | None => false end)
             then q1a <| connection_close := true |> else q1a) in *.
  assert (Q1 : chunked q1 = chunked p /\ reqline q1 = (cmd, ver, uri, pa, qu, adj_url_scheme a)).
  { unfold q1, q1a. destruct (beqb ver s_1_0 && _); destruct (negb (beqb ver s_1_1) && _); cbn; auto. }
  destruct Q1 as (C1 & R1).
  cbv zeta in H.
  destruct (beqb ver s_1_1) eqn:E11.
  - destruct (stage_11 h1 conn q1) as [q2 [e|]] eqn:E2; [discriminate|].
    apply stage_11_ok in E2. destruct E2 as (_ & R2 & _ & _ & Hte).
    apply stage_cl_ok in H. destruct H as (_ & R3 & _ & C3 & _).
    assert (RL : reqline p' = (cmd, ver, uri, pa, qu, adj_url_scheme a)) by congruence.
    unfold reqline in RL. injection RL as _ Rv _ _ _ _. split; [exact Rv|].
    rewrite C3. cbn [andb].
    destruct Hte as [(Hnil & C2 & _)|(Hlen & C2 & _)].
    + rewrite Hnil, C2, C1, Hc. reflexivity.
    + rewrite C2. destruct (te_encodings _); [discriminate Hlen|reflexivity].
  - apply stage_cl_ok in H. destruct H as (_ & R3 & _ & C3 & _).
    assert (RL : reqline p' = (cmd, ver, uri, pa, qu, adj_url_scheme a)) by congruence.
    unfold reqline in RL. injection RL as _ Rv _ _ _ _. split; [exact Rv|].
    rewrite C3, C1, Hc. reflexivity.
Qed.

Lemma parse_header_chunked a p hp p' fl lines h1 :
  parse_header a p hp = (p', PSOk) -> accepted_head a p p' hp fl lines h1 -> chunked p = false ->
  chunked p' = beqb (version p') s_1_1 && nonnil (te_encodings (hget_default h1 s_TRANSFER_ENCODING [])).
Proof.
  intros H AH Hc. rewrite parse_header_stages in H.
  destruct (ah_find _ _ _ _ _ _ _ AH) as (index & F & Efl & L).
  rewrite F in H. cbv zeta in H. rewrite <- Efl in H.
  rewrite (ah_no_crlf _ _ _ _ _ _ _ AH), L in H. 
  change (headers (p <| first_line := fl |>)) with (headers p) in H.
  rewrite (ah_lines _ _ _ _ _ _ _ AH) in H.
  destruct (crack_first_line fl) as [[[cmd uri] ver]|]; [|discriminate].
  destruct (beqb cmd [] && beqb uri [] && beqb ver []); [discriminate|].
  apply stage_uri_chunked in H; [|exact Hc].
  destruct H as [V C]. rewrite C, V. reflexivity.
Qed.

Definition te_of_lines (lines : list bytes) : bytes :=
  match value_of_lines (key_lines c_HTTP_TRANSFER_ENCODING lines) with Some v => v | None => [] end.

Lemma accepted_chunked a ds p p0 p1 hp fl lines h1 :
  accepted_run a ds p p0 p1 hp -> accepted_head a p0 p1 hp fl lines h1 ->
  chunked p = beqb (version p) s_1_1 && nonnil (te_encodings (te_of_lines lines)).
Proof.
  intros AR AH.
  destruct (ar_fresh _ _ _ _ _ _ AR) as (Fh & _ & Fc & _).
  rewrite (ar_chunked _ _ _ _ _ _ AR).
  assert (V : version p = version p1).
  { pose proof (ar_reqline _ _ _ _ _ _ AR) as R. unfold reqline in R. congruence. }
  rewrite V, (parse_header_chunked _ _ _ _ _ _ _ (ar_parse _ _ _ _ _ _ AR) AH Fc).
  f_equal. f_equal. f_equal.
  pose proof (ah_lines _ _ _ _ _ _ _ AH) as AL. rewrite Fh in AL.
  unfold hget_default. rewrite (add_header_lines_hget _ _ _ s_TRANSFER_ENCODING AL).
  cbn [hget]. rewrite fold_append_joined.
  unfold te_of_lines, value_of_lines.
  rewrite <- field_values_key_lines.
  rewrite (field_values_line_adds lines c_HTTP_TRANSFER_ENCODING s_TRANSFER_ENCODING) by reflexivity.
  reflexivity.
Qed.

Lemma te_of_lines_kept lines : te_of_lines (kept_lines lines) = te_of_lines lines.
Proof. unfold te_of_lines. rewrite key_lines_kept by reflexivity. reflexivity. Qed.

(* the two requests carry the same body: wsgi.input yields the same bytes
   (the framing verdict itself is derived: accepted_chunked) *)
Definition same_body (p p' : parser) : Prop := get_body_stream p = get_body_stream p'.

Lemma two_requests_agree a c ds p p0 p1 hp h1 ds' p' p0' p1' hp' h1' fl lines lines' :
  accepted_run a ds p p0 p1 hp -> accepted_head a p0 p1 hp fl lines h1 ->
  accepted_run a ds' p' p0' p1' hp' -> accepted_head a p0' p1' hp' fl lines' h1' ->
  kept_lines lines = kept_lines lines' -> same_body p p' ->
  agree_off is_proxy_key (environ_of c p) (environ_of c p').
Proof.
  intros AR AH AR' AH' K Bb k Hk. unfold same_body in Bb.
  pose proof (same_reqline _ _ _ _ _ _ _ _ _ _ _ _ _ _ _ _ AR AH AR' AH') as R.
  assert (V : version p = version p') by (unfold reqline in R; congruence).
  assert (Bc : chunked p = chunked p').
  { rewrite (accepted_chunked _ _ _ _ _ _ _ _ _ AR AH), (accepted_chunked _ _ _ _ _ _ _ _ _ AR' AH'), V.
    rewrite <- (te_of_lines_kept lines), <- (te_of_lines_kept lines'), K. reflexivity. }
  rewrite (environ_lookup_full _ _ _ _ _ _ _ _ _ c k AR AH),
          (environ_lookup_full _ _ _ _ _ _ _ _ _ c k AR' AH').
  rewrite (base_environ_same c p p' R Bb).
  destruct (beqb k k_waitress_client_disconnected); auto.
  destruct (eget (base_environ c p') k); auto.
  unfold header_part.
  rewrite V, Bc, Bb.
  rewrite <- (key_lines_kept k lines Hk), <- (key_lines_kept k lines' Hk), K. reflexivity.
Qed.

(* ------------------------------------------------------------------ *)
(* H. the theorems *)

(* the seven metadata keys as the application sees them: fixed by the
   channel/server context, adj.url_scheme and the Host line(s) alone *)
Record meta_fixed (a : adj) (ctx : Environ.config) (lines : list bytes) (o : Proxy.environ) : Prop := {
  mf_ctx : ctx_keys ctx (adj_url_scheme a) o;
  mf_host : lookup k_http_host o = value_of_lines (filter host_line lines)
}.

Lemma meta_fixed_transfer a ctx lines e o :
  (forall k, is_proxy_key k = false -> lookup k o = lookup k e) ->
  meta_fixed a ctx lines e -> meta_fixed a ctx lines o.
Proof.
  intros T [[A B C D E F] H].
  constructor; [constructor|]; rewrite T by reflexivity; assumption.
Qed.

(* (1) one accepted request, from the bytes: where the metadata keys and the
   six proxy keys of the task's environ come from *)
Lemma e2e_environ_keys a ds p fl lines ctx :
  feed_all a ds = Some p -> accepted p -> head_parts (concat ds) = Some (fl, lines) ->
  meta_fixed a ctx lines (environ_of ctx p) /\
  (forall ek, plain_key ek = true -> lookup ek (environ_of ctx p) = value_of_lines (key_lines ek lines)) /\
  (forall pk, is_proxy_key pk = true ->
     lookup pk (environ_of ctx p) = value_of_lines (key_lines pk lines) /\
     (forall l, In l (key_lines pk lines) -> In l lines /\ proxy_line l = true /\ underscore_name_line l = false)).
Proof.
  intros H A HP.
  destruct (accepted_parts _ _ _ H A) as (fl0 & lines0 & p0 & p1 & hp & h1 & HP0 & AR & AH).
  rewrite HP in HP0. injection HP0 as <- <-.
  assert (L : forall ek, plain_key ek = true ->
              lookup ek (environ_of ctx p) = value_of_lines (key_lines ek lines)).
  { intros ek Hk. eapply header_key_local; eauto. }
  split; [|split].
  - constructor.
    + rewrite <- (accepted_url_scheme _ _ _ H A). apply environ_ctx_keys.
    + rewrite <- key_lines_host. apply L. exact plain_host.
  - exact L.
  - intros pk Hpk. split; [apply L; apply proxy_key_plain; exact Hpk|].
    intros l Hl. unfold key_lines in Hl. apply filter_In in Hl as [Hin M]. split; [exact Hin|].
    split.
    + rewrite proxy_line_spec. apply existsb_exists. exists pk. split; [|exact M].
      unfold is_proxy_key in Hpk. apply existsb_exists in Hpk as (x & Hx & E).
      apply beqb_eq in E. subst x. exact Hx.
    + unfold underscore_name_line. unfold maps_to in M. apply andb_true_iff in M as [M _].
      apply negb_true_iff in M. exact M.
Qed.

(* which names: exactly the six (and "host"), ASCII case-insensitively, in the
   "-" spelling; a name containing "_" maps to no key whatsoever *)
Lemma e2e_names n :
  maps_to n k_xff = beqb (lower_ascii n) n_xff /\
  maps_to n k_xfh = beqb (lower_ascii n) n_xfh /\
  maps_to n k_xfproto = beqb (lower_ascii n) n_xfproto /\
  maps_to n k_xfport = beqb (lower_ascii n) n_xfport /\
  maps_to n k_xfby = beqb (lower_ascii n) n_xfby /\
  maps_to n k_fwd = beqb (lower_ascii n) n_fwd /\
  maps_to n k_http_host = beqb (lower_ascii n) n_host /\
  (has_underscore n = true -> forall ek, maps_to n ek = false).
Proof.
  repeat split; [apply maps_to_xff|apply maps_to_xfh|apply maps_to_xfproto|apply maps_to_xfport
                 |apply maps_to_xfby|apply maps_to_fwd|apply maps_to_host|].
  intros H ek. apply underscore_maps_nowhere. exact H.
Qed.

(* (2) the composition, two requests *)
Lemma c15_e2e_two_requests a ds ds' p p' fl lines lines' ctx cfg :
  feed_all a ds = Some p -> accepted p ->
  feed_all a ds' = Some p' -> accepted p' ->
  head_parts (concat ds) = Some (fl, lines) -> head_parts (concat ds') = Some (fl, lines') ->
  kept_lines lines = kept_lines lines' -> same_body p p' ->
  peer_untrusted cfg (addr0 (peer_addr ctx)) ->
  exists o o',
    serve_request cfg ctx p = Ok o /\ serve_request cfg ctx p' = Ok o' /\
    agree_off is_proxy_key o o' /\
    meta_fixed a ctx lines o /\ meta_fixed a ctx lines' o' /\
    filter host_line lines = filter host_line lines' /\
    (clear_untrusted cfg = true ->
       (forall k, is_proxy_key k = true -> lookup k o = None /\ lookup k o' = None) /\
       (forall k, lookup k o = lookup k o')) /\
    (clear_untrusted cfg = false ->
       o = environ_of ctx p /\ o' = environ_of ctx p' /\
       forall pk, is_proxy_key pk = true ->
         lookup pk o = value_of_lines (key_lines pk lines) /\
         lookup pk o' = value_of_lines (key_lines pk lines')).
Proof.
  intros H A H' A' HP HP' K B U.
  destruct (accepted_parts _ _ _ H A) as (fl0 & lines0 & p0 & p1 & hp & h1 & HP0 & AR & AH).
  rewrite HP in HP0. injection HP0 as <- <-.
  destruct (accepted_parts _ _ _ H' A') as (fl0 & lines0 & p0' & p1' & hp' & h1' & HP0 & AR' & AH').
  rewrite HP' in HP0. injection HP0 as <- <-.
  pose proof (two_requests_agree _ ctx _ _ _ _ _ _ _ _ _ _ _ _ _ _ _ AR AH AR' AH' K B) as Ag.
  destruct (e2e_environ_keys _ _ _ _ _ ctx H A HP) as (M & _ & PK).
  destruct (e2e_environ_keys _ _ _ _ _ ctx H' A' HP') as (M' & _ & PK').
  pose proof (ck_addr _ _ _ (mf_ctx _ _ _ _ M)) as Pe.
  pose proof (ck_addr _ _ _ (mf_ctx _ _ _ _ M')) as Pe'.
  destruct (c15_two_runs cfg _ _ _ Pe U Ag) as (o & o' & S & S' & Ao & Fr & _ & Cl & Nc).
  assert (Ag' : agree_off is_proxy_key (environ_of ctx p') (environ_of ctx p)).
  { intros k Hk. symmetry. apply Ag. exact Hk. }
  destruct (c15_two_runs cfg _ _ _ Pe' U Ag') as (o2 & o2' & S2 & _ & _ & Fr' & _ & Cl' & Nc').
  rewrite S' in S2. injection S2 as <-.
  exists o, o'. unfold serve_request.
  split; [exact S|]. split; [exact S'|]. split; [exact Ao|].
  split; [eapply meta_fixed_transfer; eauto|]. split; [eapply meta_fixed_transfer; eauto|].
  split; [rewrite <- (host_lines_kept lines), <- (host_lines_kept lines'), K; reflexivity|].
  split.
  - intro C. destruct (Cl C) as [N1 E1]. destruct (Cl' C) as [N2 _]. split; auto.
  - intro C. rewrite (Nc C), (Nc' C). split; [reflexivity|]. split; [reflexivity|].
    intros pk Hpk. split; [apply PK|apply PK']; exact Hpk.
Qed.

(* ... as worded in the property: the same request with the proxy header lines deleted *)
Lemma kept_after_delete lines :
  kept_lines (filter (fun l => negb (proxy_line l)) lines) = kept_lines lines.
Proof.
  unfold kept_lines. apply filter_filter_implies. intros l Hl. unfold ignorable in Hl.
  apply negb_true_iff in Hl. apply orb_false_iff in Hl as [Hl _]. rewrite Hl. reflexivity.
Qed.

Lemma key_lines_after_delete k lines :
  is_proxy_key k = true -> key_lines k (filter (fun l => negb (proxy_line l)) lines) = [].
Proof.
  intro Hk. unfold key_lines. induction lines as [|l lines IH]; cbn [filter]; auto.
  destruct (negb (proxy_line l)) eqn:Np; cbn [filter]; auto.
  destruct (maps_to (line_name l) k) eqn:Mp; auto. exfalso.
  apply negb_true_iff in Np. rewrite proxy_line_spec in Np.
  assert (X : existsb (maps_to (line_name l)) proxy_keys = true).
  { apply existsb_exists. exists k. split; auto.
    unfold is_proxy_key in Hk. apply existsb_exists in Hk as (x & Hx & E).
    apply beqb_eq in E. subst x. exact Hx. }
  congruence.
Qed.

Lemma c15_e2e_deleted a ds ds' p p' fl lines lines' ctx cfg :
  feed_all a ds = Some p -> accepted p ->
  feed_all a ds' = Some p' -> accepted p' ->
  head_parts (concat ds) = Some (fl, lines) -> head_parts (concat ds') = Some (fl, lines') ->
  lines' = filter (fun l => negb (proxy_line l)) lines -> same_body p p' ->
  peer_untrusted cfg (addr0 (peer_addr ctx)) ->
  exists o o',
    serve_request cfg ctx p = Ok o /\ serve_request cfg ctx p' = Ok o' /\
    agree_off is_proxy_key o o' /\
    meta_fixed a ctx lines o /\ meta_fixed a ctx lines o' /\
    (forall k, is_proxy_key k = true -> lookup k o' = None) /\
    (clear_untrusted cfg = true ->
       (forall k, is_proxy_key k = true -> lookup k o = None) /\ (forall k, lookup k o = lookup k o')).
Proof.
  intros H A H' A' HP HP' D B U.
  assert (K : kept_lines lines = kept_lines lines') by (rewrite D, kept_after_delete; reflexivity).
  destruct (c15_e2e_two_requests _ _ _ _ _ _ _ _ ctx cfg H A H' A' HP HP' K B U)
    as (o & o' & S & S' & Ag & M & M' & Hh & Cl & Nc).
  exists o, o'. split; [exact S|]. split; [exact S'|]. split; [exact Ag|]. split; [exact M|].
  split; [|split].
  - destruct M' as [Mc Mh]. constructor; [exact Mc|]. rewrite Hh. exact Mh.
  - intros k Hk. destruct (clear_untrusted cfg) eqn:C.
    + destruct (Cl eq_refl) as [N _]. apply N. exact Hk.
    + destruct (Nc eq_refl) as (_ & _ & PK). destruct (PK k Hk) as [_ ->].
      subst lines'. rewrite key_lines_after_delete by exact Hk. reflexivity.
  - intro C. destruct (Cl C) as [N E]. split; [intros k Hk; apply N; exact Hk|exact E].
Qed.

(* (2') one request *)
Lemma c15_e2e_one_request a ds p fl lines ctx cfg :
  feed_all a ds = Some p -> accepted p -> head_parts (concat ds) = Some (fl, lines) ->
  peer_untrusted cfg (addr0 (peer_addr ctx)) ->
  exists o,
    serve_request cfg ctx p = Ok o /\ meta_fixed a ctx lines o /\
    (forall k, is_proxy_key k = false -> lookup k o = lookup k (environ_of ctx p)) /\
    (clear_untrusted cfg = true -> forall k, is_proxy_key k = true -> lookup k o = None) /\
    (clear_untrusted cfg = false -> o = environ_of ctx p).
Proof.
  intros H A HP U.
  destruct (e2e_environ_keys _ _ _ _ _ ctx H A HP) as (M & _ & _).
  pose proof (ck_addr _ _ _ (mf_ctx _ _ _ _ M)) as Pe.
  destruct (c15_two_runs cfg _ _ _ Pe U (fun k _ => eq_refl)) as (o & o' & S & _ & _ & Fr & _ & Cl & Nc).
  exists o. split; [exact S|]. split; [eapply meta_fixed_transfer; eauto|]. split; [exact Fr|].
  split; [intros C; apply (Cl C)|exact Nc].
Qed.

(* (1a) in conjunction form, for every header dictionary *)
Lemma c15_e2e_context_keys (ctx : Environ.config) (p : parser) (h : hdict) :
  let e := environ_of ctx (p <| headers := h |>) in
  lookup k_remote_addr e = Some (addr0 (peer_addr ctx)) /\
  lookup k_remote_host e = Some (addr0 (peer_addr ctx)) /\
  lookup k_remote_port e = Some (str_addr1 (peer_addr ctx)) /\
  lookup k_server_name e = Some (server_name ctx) /\
  lookup k_server_port e = Some (str_port (effective_port ctx)) /\
  lookup k_url_scheme e = Some (url_scheme p).
Proof. destruct (environ_ctx_keys_any_headers ctx p h); repeat split; assumption. Qed.

(* the records, spelled out *)
Lemma meta_fixed_spelled a ctx lines o :
  meta_fixed a ctx lines o <->
  lookup k_remote_addr o = Some (addr0 (peer_addr ctx)) /\
  lookup k_remote_host o = Some (addr0 (peer_addr ctx)) /\
  lookup k_remote_port o = Some (str_addr1 (peer_addr ctx)) /\
  lookup k_server_name o = Some (server_name ctx) /\
  lookup k_server_port o = Some (str_port (effective_port ctx)) /\
  lookup k_url_scheme o = Some (adj_url_scheme a) /\
  lookup k_http_host o = value_of_lines (filter host_line lines).
Proof.
  split.
  - intros [[A B C D E F] H]. repeat split; assumption.
  - intros (A & B & C & D & E & F & H). constructor; [constructor|]; assumption.
Qed.

Lemma c15_e2e_bridge (ctx : Environ.config) p k :
  NoDup (map fst (get_environment ctx p)) /\
  lookup k (environ_of ctx p) = match eget (get_environment ctx p) k with Some (VStr s) => Some s | _ => None end.
Proof. split; [apply get_environment_nodup|apply lookup_environ_of]. Qed.

Lemma c15_e2e_head_parts a ds p :
  feed_all a ds = Some p -> accepted p ->
  exists hp fl lines, head_of ds hp /\ head_lines hp fl lines /\ head_parts (concat ds) = Some (fl, lines).
Proof.
  intros H A. destruct (accepted_parts _ _ _ H A) as (fl & lines & p0 & p1 & hp & h1 & HP & AR & AH).
  exists hp, fl, lines. split; [exact (ar_head _ _ _ _ _ _ AR)|]. split; [exact (ah_find _ _ _ _ _ _ _ AH)|exact HP].
Qed.

(* the framing verdict of an accepted request, from its bytes *)
Lemma c15_e2e_chunked a ds p fl lines :
  feed_all a ds = Some p -> accepted p -> head_parts (concat ds) = Some (fl, lines) ->
  chunked p = beqb (version p) s_1_1 && nonnil (te_encodings (te_of_lines lines)) /\
  te_of_lines (kept_lines lines) = te_of_lines lines.
Proof.
  intros H A HP.
  destruct (accepted_parts _ _ _ H A) as (fl0 & lines0 & p0 & p1 & hp & h1 & HP0 & AR & AH).
  rewrite HP in HP0. injection HP0 as <- <-.
  split; [eapply accepted_chunked; eauto|apply te_of_lines_kept].
Qed.
